#!/bin/bash
# Run once after a fresh restore, offline: builds the harness and every binary the
# checks use (each check rebuilds what it needs anyway; this only warms the Go
# build cache so that the first check does not pay for it).
set -e
cd /verif
export GOFLAGS=-mod=mod GOPROXY=off
unset GOTOOLCHAIN GOSUMDB
mkdir -p bin evidence/replay
cp -f /repo/go.sum harness/go.sum
cd harness
go build -tags verif -o /verif/bin/vcheck ./cmd/vcheck
go build -tags verif -o /verif/bin/vlint ./cmd/vlint
go build -tags verif -o /verif/bin/staticcheck honnef.co/go/tools/cmd/staticcheck
go build -tags verif -o /verif/bin/structlayout honnef.co/go/tools/cmd/structlayout
go build -tags verif -o /verif/bin/structlayout-optimize honnef.co/go/tools/cmd/structlayout-optimize
[ -d cmd/c05child ] && go build -tags verif -o /verif/bin/c05child ./cmd/c05child
go build -tags verif -race -o /verif/bin/vcheck-race ./cmd/vcheck
go build -tags verif -race -o /verif/bin/staticcheck-race honnef.co/go/tools/cmd/staticcheck
# warm export data of the std packages the workspaces import, for the host and for GOOS=windows (C04 switches GOOS)
d=$(mktemp -d /var/tmp/verif-setup.XXXXXX)
mkdir -p "$d/p" && printf 'module example.com/warm\n\ngo 1.22\n' > "$d/go.mod"
printf 'package p\n\nimport (\n\t"errors"\n\t"fmt"\n)\n\nfunc F() string { return fmt.Sprint(errors.New("x")) }\n' > "$d/p/p.go"
printf 'package p\n\nimport "testing"\n\nfunc TestF(t *testing.T) { _ = F() }\n' > "$d/p/p_test.go"
(cd "$d" && STATICCHECK_CACHE="$d/cache" /verif/bin/staticcheck ./... >/dev/null 2>&1 || true)
(cd "$d" && GOOS=windows STATICCHECK_CACHE="$d/cache" /verif/bin/staticcheck ./... >/dev/null 2>&1 || true)
rm -rf "$d"
echo setup ok
