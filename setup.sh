#!/bin/bash
# Run once after a fresh restore, offline: builds the harness and warms the build cache.
set -e
cd /verif
export GOFLAGS=-mod=mod GOPROXY=off
unset GOTOOLCHAIN GOSUMDB
mkdir -p bin evidence/replay
cp -f /repo/go.sum harness/go.sum
(cd harness && go build -tags verif -o /verif/bin/vcheck ./cmd/vcheck)
echo setup ok
