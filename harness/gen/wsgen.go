package gen

import (
	"fmt"
	"sort"
	"strings"
)

// WS is a small multi-package workspace (module example.com/ws, packages
// a -> b -> c, a -> c) whose sources are a pure function of its State. It is
// built so that cross-package facts (deprecation, purity, nilness), config
// sensitive checks, tagged / GOOS-specific files and test variants all
// influence the report.
type WSState struct {
	Deprecated bool   // c.Old carries a "Deprecated:" comment  -> SA1019 in b
	Impure     bool   // c.Pure has a side effect                -> SA4017 in b disappears
	NeverNil   bool   // c.Get never returns a nil interface      -> SA4023 in b
	LocalB     int    // 0..3: local problems in b (S1002, SA4000, ST1005 ...)
	LocalA     int    // 0..3: local problems in a
	ConfRoot   int    // 0..7: variant of /staticcheck.conf
	ConfB      int    // 0..7: variant of /b/staticcheck.conf
	TestUses   bool   // a's in-package test uses helperOnlyForTests
	ExtTest    bool   // a has an external test package
	GoVersion  string // go directive of the module
	Touch      int    // changes nothing semantically (trailing comment counter)
	Extra      int    // number of extra packages x0..x(n-1) forming a DAG with diamonds
}

func (s WSState) Key() string { return fmt.Sprintf("%+v", s) }

var confVariants = []string{
	"", // absent
	"checks = [\"all\", \"-ST1000\"]\n",
	"checks = [\"inherit\", \"-SA1019\"]\ninitialisms = [\"inherit\", \"XYZ\"]\n",
	"dot_import_whitelist = [\"example.com/ws/c\"]\nchecks = [\"inherit\", \"ST1001\"]\n",
	"checks = [\"S*\", \"SA4*\", \"U1000\"]\n",
	// settings only: whether they matter depends on checks enabled elsewhere (an outer
	// file or the -checks flag)
	"initialisms = [\"inherit\", \"XYZ\"]\n",
	"initialisms = []\n",
	"dot_import_whitelist = [\"example.com/ws/c\"]\ninitialisms = [\"XYZ\"]\n",
}

func (s WSState) Files() map[string]string {
	f := map[string]string{}
	gov := s.GoVersion
	if gov == "" {
		gov = "1.22"
	}
	f["go.mod"] = "module example.com/ws\n\ngo " + gov + "\n"
	if v := confVariants[s.ConfRoot%len(confVariants)]; v != "" {
		f["staticcheck.conf"] = v
	}
	if v := confVariants[s.ConfB%len(confVariants)]; v != "" {
		f["b/staticcheck.conf"] = v
	}
	// ---- package c
	var c strings.Builder
	c.WriteString("// Package c is the leaf of the workspace.\npackage c\n\nimport \"errors\"\n\nvar Counter int\n\n// ErrBase is a sentinel.\nvar ErrBase = errors.New(\"base\")\n\n")
	// All fact-flipping variants keep the number and position of lines (and,
	// through //go:noinline, the export data of c) the same: only the facts change.
	if s.Deprecated {
		c.WriteString("// Old does nothing.\n//\n// Deprecated: use New.\nfunc Old() {}\n\n")
	} else {
		c.WriteString("// Old does nothing.\n//\n// Not deprecated at all.\nfunc Old() {}\n\n")
	}
	c.WriteString("// New does nothing.\nfunc New() {}\n\n")
	if s.Impure {
		c.WriteString("// Pure doubles x.\n//\n//go:noinline\nfunc Pure(x int) int { Counter++; return x * 2 }\n\n")
	} else {
		c.WriteString("// Pure doubles x.\n//\n//go:noinline\nfunc Pure(x int) int { x += 0; return x * 2 }\n\n")
	}
	c.WriteString("// MyErr is an error.\ntype MyErr struct{}\n\nfunc (*MyErr) Error() string { return \"my\" }\n\n")
	if s.NeverNil {
		c.WriteString("// Get returns an error.\n//\n//go:noinline\nfunc Get() error {\n\tvar p *MyErr\n\tif Counter > 0 {\n\t\tCounter--\n\t}\n\treturn p\n}\n\n")
	} else {
		c.WriteString("// Get returns an error.\n//\n//go:noinline\nfunc Get() error {\n\tvar p *MyErr\n\tif Counter > 0 {\n\t\treturn nil\n\t}\n\treturn p\n}\n\n")
	}
	c.WriteString("// UserId violates the initialism rule unless configured otherwise.\nfunc UserId() int { return Counter }\n\n// XyzThing is flagged only when XYZ is a configured initialism.\nfunc XyzThing() int { return 1 }\n")
	fmt.Fprintf(&c, "\n// touch %d\n", s.Touch)
	f["c/c.go"] = c.String()

	// ---- package b
	var b strings.Builder
	b.WriteString("// Package b uses c.\npackage b\n\nimport (\n\t\"errors\"\n\t\"fmt\"\n\n\t\"example.com/ws/c\"\n)\n\n")
	b.WriteString("// UseOld calls the maybe-deprecated function.\nfunc UseOld() {\n\tc.Old()\n\tc.Pure(3)\n}\n\n")
	b.WriteString("// Wrap relays c.Get, and with it c.Get's nilness fact.\n//\n//go:noinline\nfunc Wrap() error { return c.Get() }\n\n// Twice relays c.Pure's purity.\n//\n//go:noinline\nfunc Twice(x int) int { return c.Pure(x) }\n\n")
	b.WriteString("// Check compares an interface with nil.\nfunc Check() bool {\n\tif c.Get() == nil {\n\t\treturn true\n\t}\n\treturn false\n}\n\n")
	switch s.LocalB % 4 {
	case 1:
		b.WriteString("// L1 has S1002.\nfunc L1(x bool) int {\n\tif x == true {\n\t\treturn 1\n\t}\n\treturn 0\n}\n\n")
	case 2:
		b.WriteString("// L2 has SA4000 and ST1005.\nfunc L2(x int) error {\n\tif x == x {\n\t\treturn errors.New(\"Bad thing.\")\n\t}\n\treturn nil\n}\n\n")
	case 3:
		b.WriteString("// L3 has S1005 and an unused function.\nfunc L3(xs []int) int {\n\tn := 0\n\tfor i, _ := range xs {\n\t\tn += i\n\t}\n\treturn n\n}\n\nfunc unusedInB() {}\n\n")
	}
	b.WriteString("// ApiXyz is named against the initialism rule (API by default, XYZ when configured).\nfunc ApiXyz() int { return 1 }\n\n")
	b.WriteString("// Fmt keeps the imports used.\nfunc Fmt() string { return fmt.Sprint(errors.New(\"x\")) }\n")
	f["b/b.go"] = b.String()
	f["b/tagged.go"] = "//go:build foo\n\npackage b\n\n// Tagged exists only with -tags foo.\nfunc Tagged(x bool) bool {\n\tif x == false {\n\t\treturn true\n\t}\n\treturn false\n}\n"
	f["b/os_windows.go"] = "package b\n\n// OnWindows exists only on windows.\nfunc OnWindows(x int) bool { return x == x }\n"
	f["b/os_linux.go"] = "package b\n\n// OnLinux exists only on linux.\nfunc OnLinux(x int) bool { return x != x }\n"

	// ---- package a
	var a strings.Builder
	a.WriteString("// Package a is the root.\npackage a\n\nimport (\n\t\"example.com/ws/b\"\n\t. \"example.com/ws/c\"\n)\n\n")
	a.WriteString("// Run uses everything.\nfunc Run() int {\n\tb.UseOld()\n\tNew()\n\tif b.Check() {\n\t\treturn Pure(1)\n\t}\n\treturn 0\n}\n\n")
	a.WriteString("// Indirect depends on facts of c that reach a only through b.\nfunc Indirect() bool {\n\tb.Twice(1)\n\tif b.Wrap() == nil {\n\t\treturn true\n\t}\n\treturn false\n}\n\n")
	a.WriteString("func helperOnlyForTests() int { return 42 }\n\n")
	switch s.LocalA % 4 {
	case 1:
		a.WriteString("// A1 has S1008.\nfunc A1(x int) bool {\n\tif x > 0 {\n\t\treturn true\n\t}\n\treturn false\n}\n\n")
	case 2:
		a.WriteString("// A2 has SA4006-like dead store and S1021.\nfunc A2() int {\n\tvar x int\n\tx = 1\n\treturn x\n}\n\n")
	case 3:
		a.WriteString("// A3 range over int needs go1.22.\nfunc A3() int {\n\tn := 0\n\tfor i := 0; i < 3; i++ {\n\t\tn += i\n\t}\n\treturn n\n}\n\ntype unusedType struct{ f int }\n\n")
	}
	f["a/a.go"] = a.String()
	if s.TestUses {
		f["a/a_test.go"] = "package a\n\nimport \"testing\"\n\nfunc TestHelper(t *testing.T) {\n\tif helperOnlyForTests() != 42 {\n\t\tt.Fatal(\"no\")\n\t}\n}\n"
	} else {
		f["a/a_test.go"] = "package a\n\nimport \"testing\"\n\nfunc TestRun(t *testing.T) {\n\tif Run() < 0 {\n\t\tt.Fatal(\"no\")\n\t}\n}\n"
	}
	if s.ExtTest {
		f["a/ext_test.go"] = "package a_test\n\nimport (\n\t\"testing\"\n\n\t\"example.com/ws/a\"\n)\n\nfunc TestExt(t *testing.T) {\n\tif a.Run() == 1 == true {\n\t\tt.Log(\"x\")\n\t}\n}\n"
	}
	// ---- package s: sibling files whose single problem sits one line lower in each file, so
	// that after a directive (one line, or two with a lead comment) has been inserted above
	// the problem of one file, its line number coincides with the problem of the next file
	for k := 1; k <= 4; k++ {
		pad := strings.Repeat("//\n", (k-1)%3)
		f[fmt.Sprintf("s/s%d.go", k)] = fmt.Sprintf("package s\n\n%s// S%d compares a value with itself.\nfunc S%d(x int) bool {\n\treturn x == x\n}\n", pad, k, k)
	}
	f["s/doc.go"] = "// Package s has sibling files with problems on neighbouring line numbers.\npackage s\n"
	for i := 0; i < s.Extra; i++ {
		var x strings.Builder
		fmt.Fprintf(&x, "// Package x%d is a filler package.\npackage x%d\n\n", i, i)
		if i%2 == 1 {
			// the same problem is covered by a file-wide and by a line directive
			x.WriteString("//lint:file-ignore SA4000 this file compares things with themselves\n\n")
		}
		fmt.Fprintf(&x, "import (\n\t\"example.com/ws/c\"\n")
		deps := []int{}
		if i >= 1 {
			deps = append(deps, i-1)
		}
		if i >= 3 {
			deps = append(deps, i-3)
		}
		for _, d := range deps {
			fmt.Fprintf(&x, "\t\"example.com/ws/x%d\"\n", d)
		}
		x.WriteString(")\n\n")
		fmt.Fprintf(&x, "// V%d uses its dependencies.\nfunc V%d() int {\n\tc.Old()\n\tn := c.Pure(%d)\n", i, i, i)
		for _, d := range deps {
			fmt.Fprintf(&x, "\tn += x%d.V%d()\n", d, d)
		}
		x.WriteString("\treturn n\n}\n\n")
		fmt.Fprintf(&x, "func unusedOne%d() {}\n\nfunc unusedTwo%d() {}\n\ntype unusedT%d struct{ a, b int }\n\n", i, i, i)
		fmt.Fprintf(&x, "// W%d has several problems on nearby lines.\nfunc W%d(x int, b bool) bool {\n\tif b == true {\n\t\treturn x == x\n\t}\n\t//lint:ignore SA4000 deliberate\n\t//lint:ignore SA4000,S1008 stacked on the same statement\n\tif x != x {\n\t\treturn true\n\t}\n\treturn false\n}\n", i, i)
		f[fmt.Sprintf("x%d/x%d.go", i, i)] = x.String()
		if i%3 == 0 {
			f[fmt.Sprintf("x%d/x%d_test.go", i, i)] = fmt.Sprintf("package x%d\n\nimport \"testing\"\n\nfunc TestV(t *testing.T) {\n\tunusedOne%d()\n\tif V%d() == V%d() == true {\n\t\tt.Log(1)\n\t}\n}\n", i, i, i, i)
		}
	}
	return f
}

// SortedNames returns the file names in order.
func SortedNames(f map[string]string) []string {
	var n []string
	for k := range f {
		n = append(n, k)
	}
	sort.Strings(n)
	return n
}
