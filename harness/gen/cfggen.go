// Package gen holds the seeded program generators.
package gen

import (
	"fmt"
	"math/rand/v2"
	"strings"
)

// CFGFunc writes one function whose control-flow graph is an arbitrary random
// digraph built from labels and gotos (irreducible loops included). The
// function terminates (fuel), is deterministic, and reports effects through
// trace(). All variables are declared before the first label, as goto requires.
//
// Signature: func <name>(a, b int, p *int, s []int) (r int)
type CFGOpts struct {
	Blocks   int  // number of labelled blocks
	Recover  bool // add a deferred closure that recovers and writes the named result
	Panics   bool // allow explicit panics / index expressions that may panic
	PtrFlow  bool // include pointer-typed locals and nil comparisons
	Switches bool // use switch-based multiway branches
}

func CFGFunc(rng *rand.Rand, name string, o CFGOpts) string {
	var b strings.Builder
	n := o.Blocks
	if n < 1 {
		n = 1
	}
	fmt.Fprintf(&b, "func %s(a, b int, p *int, s []int) (r int) {\n", name)
	b.WriteString("\tfuel := 40\n\tx, y, z := a, b, 0\n\tvar q *int = p\n\t_, _, _, _ = x, y, z, q\n")
	if o.Recover {
		b.WriteString("\tdefer func() {\n\t\tif e := recover(); e != nil {\n\t\t\ttrace(900, x)\n\t\t\tr = r*2 + 1\n\t\t}\n\t}()\n")
	}
	// successors
	type blk struct {
		succ []int
		kind int // 0 goto, 1 if, 2 switch, 3 return, 4 panic
	}
	blks := make([]blk, n)
	target := make([]bool, n)
	for i := range blks {
		k := rng.IntN(10)
		pick := func() int {
			// bias: forward edges, some back edges, some far jumps
			switch rng.IntN(4) {
			case 0:
				return rng.IntN(n)
			case 1:
				if i > 0 {
					return rng.IntN(i + 1)
				}
				return rng.IntN(n)
			default:
				return min(n-1, i+1+rng.IntN(3))
			}
		}
		switch {
		case k < 2:
			blks[i] = blk{[]int{pick()}, 0}
		case k < 7:
			blks[i] = blk{[]int{pick(), pick()}, 1}
		case k < 8 && o.Switches:
			blks[i] = blk{[]int{pick(), pick(), pick()}, 2}
		case k < 9:
			blks[i] = blk{nil, 3}
		default:
			if o.Panics {
				blks[i] = blk{nil, 4}
			} else {
				blks[i] = blk{[]int{pick(), pick()}, 1}
			}
		}
		for _, s := range blks[i].succ {
			target[s] = true
		}
	}
	vars := []string{"x", "y", "z"}
	v := func() string { return vars[rng.IntN(len(vars))] }
	expr := func() string {
		switch rng.IntN(7) {
		case 0:
			return fmt.Sprintf("%s + %d", v(), rng.IntN(5))
		case 1:
			return fmt.Sprintf("%s - %s", v(), v())
		case 2:
			return fmt.Sprintf("%s * 3", v())
		case 3:
			return fmt.Sprintf("%s ^ %s", v(), v())
		case 4:
			if o.Panics {
				return fmt.Sprintf("s[%s&3]", v())
			}
			return v()
		case 5:
			if o.PtrFlow {
				return "*q"
			}
			return v()
		default:
			return fmt.Sprint(rng.IntN(9) - 2)
		}
	}
	cond := func() string {
		switch rng.IntN(5) {
		case 0:
			return fmt.Sprintf("%s < %s", v(), v())
		case 1:
			return fmt.Sprintf("%s&1 == 0", v())
		case 2:
			if o.PtrFlow {
				return "q != nil"
			}
			return fmt.Sprintf("%s > 2", v())
		case 3:
			return fmt.Sprintf("%s != %s && %s >= 0", v(), v(), v())
		default:
			return fmt.Sprintf("%s%%3 == 1 || %s < 0", v(), v())
		}
	}
	for i, bl := range blks {
		if target[i] {
			fmt.Fprintf(&b, "L%d:\n", i)
		}
		fmt.Fprintf(&b, "\tif fuel--; fuel < 0 {\n\t\treturn x + y\n\t}\n")
		for k := rng.IntN(4); k > 0; k-- {
			switch rng.IntN(6) {
			case 0, 1, 2:
				fmt.Fprintf(&b, "\t%s = %s\n", v(), expr())
			case 3:
				fmt.Fprintf(&b, "\ttrace(%d, %s)\n", i, v())
			case 4:
				if o.PtrFlow {
					switch rng.IntN(4) {
					case 0:
						b.WriteString("\tq = &z\n")
					case 1:
						b.WriteString("\tq = nil\n")
					case 2:
						b.WriteString("\tq = p\n")
					default:
						fmt.Fprintf(&b, "\tif q != nil {\n\t\t*q = %s\n\t}\n", v())
					}
				} else {
					fmt.Fprintf(&b, "\t%s, %s = %s, %s\n", "x", "y", "y", "x")
				}
			default:
				fmt.Fprintf(&b, "\t%s += %d\n", v(), 1+rng.IntN(3))
			}
		}
		switch bl.kind {
		case 0:
			fmt.Fprintf(&b, "\tgoto L%d\n", bl.succ[0])
		case 1:
			fmt.Fprintf(&b, "\tif %s {\n\t\tgoto L%d\n\t}\n\tgoto L%d\n", cond(), bl.succ[0], bl.succ[1])
		case 2:
			if rng.IntN(3) == 0 {
				// a constant-case switch whose tag has control flow of its own
				fmt.Fprintf(&b, "\tswitch %s {\n\tcase true:\n\t\tgoto L%d\n\tcase false:\n\t\tgoto L%d\n\t}\n\tgoto L%d\n", cond(), bl.succ[0], bl.succ[1], bl.succ[2])
			} else {
				fmt.Fprintf(&b, "\tswitch %s & 3 {\n\tcase 0:\n\t\tgoto L%d\n\tcase 1:\n\t\tgoto L%d\n\t}\n\tgoto L%d\n", v(), bl.succ[0], bl.succ[1], bl.succ[2])
			}
		case 3:
			fmt.Fprintf(&b, "\tr = %s\n\treturn r\n", expr())
		case 4:
			fmt.Fprintf(&b, "\tpanic(%s)\n", v())
		}
	}
	b.WriteString("\treturn x + y + z\n}\n")
	return b.String()
}

// CFGPackage: a package of n goto-built functions plus the trace helper.
func CFGPackage(rng *rand.Rand, pkg string, n int) string {
	var b strings.Builder
	fmt.Fprintf(&b, "package %s\n\nvar traceLog []int\n\nfunc trace(id int, v int) { traceLog = append(traceLog, id, v) }\n\n", pkg)
	for i := 0; i < n; i++ {
		o := CFGOpts{Blocks: 2 + rng.IntN(14), Recover: rng.IntN(4) == 0, Panics: rng.IntN(3) == 0, PtrFlow: rng.IntN(2) == 0, Switches: rng.IntN(2) == 0}
		b.WriteString(CFGFunc(rng, fmt.Sprintf("F%d", i), o))
		b.WriteString("\n")
	}
	b.WriteString(selectFunc(rng, "Sel0"))
	b.WriteString(deadPhiCycleFunc(rng, "Cyc0"))
	return b.String()
}

// deadPhiCycleFunc returns a function in which a variable that was merged
// before a loop is only copied to itself inside the loop: lifting creates a
// cycle of phis that only refer to each other and to the merge.
func deadPhiCycleFunc(rng *rand.Rand, name string) string {
	typ, v1, v2 := "any", "any(1)", "any(\"\")"
	if rng.IntN(2) == 0 {
		typ, v1, v2 = "int", "1", "a"
	}
	merge := "\tswitch a & 7 {\n\tcase 5:\n\t\tv = " + v2 + "\n\t}\n"
	if rng.IntN(2) == 0 {
		merge = "\tif a > 3 {\n\t\tv = " + v2 + "\n\t}\n"
	}
	body := "\t\tif !d {\n\t\t\tcontinue\n\t\t}\n\t\tv = v\n"
	if rng.IntN(3) == 0 {
		body = "\t\tif d {\n\t\t\tv = v\n\t\t}\n"
	}
	return fmt.Sprintf("func %s(a int, d bool) int {\n\tvar v %s = %s\n%s\tfor i := 0; i < a&3; i++ {\n%s\t}\n\treturn a\n}\n", name, typ, v1, merge, body)
}

// selectFunc returns a function around one select statement whose comm clauses
// (bare receives, assigning and comma-ok receives of different element types,
// sends, default) come in a random order: the tuple a Select yields has one
// component per receive, in clause order, whether or not the clause uses it.
func selectFunc(rng *rand.Rand, name string) string {
	clauses := []string{
		"\tcase <-ca:\n\t\tx++\n",
		"\tcase <-cb:\n\t\tx += 2\n",
		"\tcase v := <-cb:\n\t\tx += v\n",
		"\tcase e := <-cc:\n\t\tif e != nil {\n\t\t\tx += 3\n\t\t}\n",
		"\tcase p, ok := <-cd:\n\t\tif ok && p != nil {\n\t\t\tx += *p\n\t\t}\n",
		"\tcase s := <-ce:\n\t\tx += len(s)\n",
		"\tcase cb <- x:\n\t\tx += 5\n",
		"\tcase y = <-cb:\n\t\tx += y\n",
		"\tcase _, ok := <-ca:\n\t\tif !ok {\n\t\t\tx += 7\n\t\t}\n",
		"\tcase t := <-cf:\n\t\tx += t.a\n",
	}
	var b strings.Builder
	fmt.Fprintf(&b, "type selT struct{ a, b int }\n\nfunc %s(ca chan struct{}, cb chan int, cc chan error, cd chan *int, ce chan string, cf chan selT) int {\n\tx, y := 0, 0\n\t_ = y\n", name)
	for k := 0; k < 1+rng.IntN(2); k++ {
		b.WriteString("\tselect {\n")
		for _, i := range rng.Perm(len(clauses))[:2+rng.IntN(5)] {
			b.WriteString(clauses[i])
		}
		if rng.IntN(3) == 0 {
			b.WriteString("\tdefault:\n\t\tx--\n")
		}
		b.WriteString("\t}\n")
	}
	b.WriteString("\treturn x\n}\n")
	return b.String()
}
