package execgen

import (
	"go/ast"
	"go/parser"
	"go/printer"
	"go/token"
	"strings"
)

var argTypes = map[string]bool{"int": true, "int8": true, "uint8": true, "int64": true, "uint": true, "uint32": true, "bool": true, "string": true, "*int": true, "[]int": true}
var printable = map[string]bool{"int": true, "int8": true, "uint8": true, "int64": true, "uint": true, "uint32": true, "bool": true, "string": true, "[]int": true, "[4]int": true, "*int": true, "byte": true, "[]byte": true, "rune": true, "int16": true, "uint16": true, "int32": true, "uint64": true}

func scanSource(src string) ([]FuncInfo, []GlobalInfo, error) {
	fset := token.NewFileSet()
	f, err := parser.ParseFile(fset, "prog.go", src, parser.SkipObjectResolution)
	if err != nil {
		return nil, nil, err
	}
	str := func(e ast.Expr) string {
		var b strings.Builder
		printer.Fprint(&b, fset, e)
		return b.String()
	}
	var funcs []FuncInfo
	var globals []GlobalInfo
	for _, d := range f.Decls {
		switch d := d.(type) {
		case *ast.FuncDecl:
			if d.Recv != nil || d.Type.TypeParams != nil || !strings.HasPrefix(d.Name.Name, "F") {
				continue
			}
			fi := FuncInfo{Name: d.Name.Name}
			ok := true
			for _, fl := range d.Type.Params.List {
				n := max(1, len(fl.Names))
				for i := 0; i < n; i++ {
					t := str(fl.Type)
					if !argTypes[t] {
						ok = false
					}
					fi.ParamTypes = append(fi.ParamTypes, t)
				}
			}
			if d.Type.Results != nil {
				for _, fl := range d.Type.Results.List {
					n := max(1, len(fl.Names))
					for i := 0; i < n; i++ {
						t := str(fl.Type)
						if !printable[t] {
							ok = false
						}
						fi.ResultTypes = append(fi.ResultTypes, t)
					}
				}
			}
			if ok {
				funcs = append(funcs, fi)
			}
		case *ast.GenDecl:
			if d.Tok != token.VAR {
				continue
			}
			for _, sp := range d.Specs {
				vs := sp.(*ast.ValueSpec)
				if vs.Type == nil {
					continue
				}
				t := str(vs.Type)
				for _, n := range vs.Names {
					if strings.HasPrefix(n.Name, "g") && printable[t] {
						globals = append(globals, GlobalInfo{n.Name, t})
					}
				}
			}
		}
	}
	return funcs, globals, nil
}
