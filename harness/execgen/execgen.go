// Package execgen is a seeded generator of type-correct, terminating, deterministic,
// *executable* single-package `package main` programs (used by C01 and meant
// to be reused by C02, C03, C14, C15, C16).
//
// API
//
//	p := execgen.ExecProgram(rng, execgen.ExecOpts{Funcs: 30})
//	p.Source   // prog.go: the code under test. No imports. Types, globals,
//	           // trace(), resetGlobals(), helpers, generics, methods, F0..Fn.
//	p.Driver   // main.go: func main + helpers (imports fmt, os, ...). Calls every
//	           // p.Funcs[i] on every vector, each call wrapped in recover, and
//	           // prints one record per call (format below).
//	p.Files()  // {"prog.go": Source, "main.go": Driver}; `go build` them together.
//	p.Funcs    // []FuncInfo{Name, ParamTypes, ResultTypes, Vectors, Features}
//	p.Globals  // []GlobalInfo{Name, Type}: the globals printed in every record
//
// execgen.ExecDriver(funcs, globals) builds the same driver for a hand-written
// Source that follows the conventions (trace, resetGlobals, listed globals).
//
// Conventions of Source
//
//   - effects are reported through trace(id, values...) which appends to the
//     global `traceLog []int`;
//   - resetGlobals() restores every global (traceLog and the fuel counter
//     included) and is called by the driver before every call;
//   - termination: every loop iteration, goto region and function entry calls
//     burn() (a global fuel counter); CFG functions from cfggen.go carry their
//     own local fuel;
//   - determinism: no map-order dependence (maps are only reduced
//     order-insensitively), no pointer printing, no time, no goroutines, no
//     floats, no cap() of grown slices, append only in the `v = append(v, ..)`
//     form on variables that are never aliased.
//
// Record format (one per call, in p.Funcs order, vectors in order):
//
//	== <func> #<vector index>
//	res <v> <v> ...          ("res -" if the call panicked)
//	panic <class>            (none | nilderef | index | slicebounds | divzero |
//	                          typeassert | nilmap | negshift | slice2array |
//	                          makeslice | uncomparable | other-runtime |
//	                          panic(<type>:<value>) | panic(error:<type>))
//	post <v> <v> ...         (pointer and slice arguments after the call)
//	trace <n> <n> ...
//	glob <name>=<v> ...
//
// Values: integers/bools as %v, strings as %q, slices/arrays as [a b c],
// *int as nil or &n. execgen.FormatRecord renders a record from its parts so that
// other producers (the IR interpreter) print exactly the same text.
package execgen

import (
	"fmt"
	"math/rand/v2"
	"strconv"
	"strings"
)

// Arg is one actual parameter of a call vector.
type Arg struct {
	Type  string  // Go type as written in the source: int, int8, uint8, int64, uint, uint32, bool, string, *int, []int
	Int   int64   // integer types: the value (unsigned types: the bit pattern)
	Bool  bool    // bool
	Str   string  // string
	Nil   bool    // *int, []int: nil
	Elems []int64 // []int: the elements; *int: Elems[0] is the pointee
}

// GoExpr returns Go source that builds the argument.
func (a Arg) GoExpr() string {
	switch a.Type {
	case "bool":
		return strconv.FormatBool(a.Bool)
	case "string":
		return strconv.Quote(a.Str)
	case "*int":
		if a.Nil {
			return "nil"
		}
		return fmt.Sprintf("func() *int { v := %d; return &v }()", a.Elems[0])
	case "[]int":
		if a.Nil {
			return "nil"
		}
		parts := make([]string, len(a.Elems))
		for i, e := range a.Elems {
			parts[i] = strconv.FormatInt(e, 10)
		}
		return "[]int{" + strings.Join(parts, ", ") + "}"
	case "uint8", "uint", "uint32":
		return fmt.Sprintf("%s(%d)", a.Type, uint64(a.Int))
	}
	return fmt.Sprintf("%s(%d)", a.Type, a.Int)
}

type FuncInfo struct {
	Name        string
	ParamTypes  []string
	ResultTypes []string
	Vectors     [][]Arg
	Features    []string // generator idioms used in the body (for coverage accounting)
}

type GlobalInfo struct {
	Name string
	Type string
}

type Program struct {
	Source  string
	Driver  string
	Funcs   []FuncInfo
	Globals []GlobalInfo
}

func (p *Program) Files() map[string]string {
	return map[string]string{"prog.go": p.Source, "main.go": p.Driver}
}

type ExecOpts struct {
	Funcs      int // number of generated top-level functions (default 24)
	CFGFuncs   int // additional goto-built functions from cfggen (default 4)
	MaxVectors int // vectors per function (default 10)
	StmtBudget int // statements per function body (default 14)
}

// FormatRecord renders one call record. res == nil means the call panicked.
func FormatRecord(fn string, vec int, res []string, panicClass string, post []string, trace []string, glob []string) string {
	var b strings.Builder
	fmt.Fprintf(&b, "== %s #%d\n", fn, vec)
	if res == nil {
		b.WriteString("res -\n")
	} else {
		b.WriteString("res")
		for _, r := range res {
			b.WriteString(" " + r)
		}
		b.WriteString("\n")
	}
	b.WriteString("panic " + panicClass + "\n")
	b.WriteString("post")
	for _, r := range post {
		b.WriteString(" " + r)
	}
	b.WriteString("\ntrace")
	for _, r := range trace {
		b.WriteString(" " + r)
	}
	b.WriteString("\nglob")
	for _, r := range glob {
		b.WriteString(" " + r)
	}
	b.WriteString("\n")
	return b.String()
}

// SplitRecords splits driver output into records keyed by "<func> #<vec>".
func SplitRecords(out string) (keys []string, recs map[string]string) {
	recs = map[string]string{}
	var cur string
	var b strings.Builder
	flush := func() {
		if cur != "" {
			recs[cur] = b.String()
			keys = append(keys, cur)
		}
		b.Reset()
	}
	for _, line := range strings.SplitAfter(out, "\n") {
		if strings.HasPrefix(line, "== ") {
			flush()
			cur = strings.TrimSpace(strings.TrimPrefix(line, "== "))
		}
		if cur != "" {
			b.WriteString(line)
		}
	}
	flush()
	return keys, recs
}

const driverPrelude = `package main

import (
	"bufio"
	"fmt"
	"os"
	"runtime"
	"strconv"
	"strings"
)

var vfOut = bufio.NewWriter(os.Stdout)

func vfFmt(v any) string {
	switch x := v.(type) {
	case string:
		return strconv.Quote(x)
	case *int:
		if x == nil {
			return "nil"
		}
		return "&" + strconv.Itoa(*x)
	}
	return fmt.Sprint(v)
}

func vfClassify(r any) string {
	if e, ok := r.(runtime.Error); ok {
		m := e.Error()
		switch {
		case strings.Contains(m, "nil pointer dereference"), strings.Contains(m, "called using nil"):
			return "nilderef"
		case strings.Contains(m, "index out of range"):
			return "index"
		case strings.Contains(m, "slice bounds out of range"):
			return "slicebounds"
		case strings.Contains(m, "integer divide by zero"):
			return "divzero"
		case strings.Contains(m, "interface conversion"):
			return "typeassert"
		case strings.Contains(m, "assignment to entry in nil map"):
			return "nilmap"
		case strings.Contains(m, "negative shift amount"):
			return "negshift"
		case strings.Contains(m, "cannot convert slice with length"):
			return "slice2array"
		case strings.Contains(m, "makeslice"), strings.Contains(m, "makemap"):
			return "makeslice"
		case strings.Contains(m, "comparing uncomparable"), strings.Contains(m, "hash of unhashable"):
			return "uncomparable"
		}
		return "other-runtime"
	}
	if _, ok := r.(error); ok {
		return fmt.Sprintf("panic(error:%T)", r)
	}
	return fmt.Sprintf("panic(%T:%s)", r, vfFmt(r))
}

func vfRecord(name string, idx int, pc string, res []any, post []any) {
	fmt.Fprintf(vfOut, "== %s #%d\n", name, idx)
	if pc != "none" {
		fmt.Fprint(vfOut, "res -\n")
	} else {
		fmt.Fprint(vfOut, "res")
		for _, r := range res {
			fmt.Fprint(vfOut, " ", vfFmt(r))
		}
		fmt.Fprint(vfOut, "\n")
	}
	fmt.Fprintf(vfOut, "panic %s\npost", pc)
	for _, r := range post {
		fmt.Fprint(vfOut, " ", vfFmt(r))
	}
	fmt.Fprint(vfOut, "\ntrace")
	for _, t := range traceLog {
		fmt.Fprint(vfOut, " ", t)
	}
	fmt.Fprint(vfOut, "\nglob")
	vfGlobals()
	fmt.Fprint(vfOut, "\n")
}
`

// ExecDriver returns main.go for the given callable functions and globals.
func ExecDriver(funcs []FuncInfo, globals []GlobalInfo) string {
	var b strings.Builder
	b.WriteString(driverPrelude)
	b.WriteString("\nfunc vfGlobals() {\n")
	for _, g := range globals {
		fmt.Fprintf(&b, "\tfmt.Fprint(vfOut, \" %s=\", vfFmt(%s))\n", g.Name, g.Name)
	}
	b.WriteString("}\n\nfunc main() {\n\tdefer vfOut.Flush()\n")
	for _, f := range funcs {
		for vi := range f.Vectors {
			fmt.Fprintf(&b, "\tvfCall_%s_%d()\n", f.Name, vi)
		}
	}
	b.WriteString("}\n")
	for _, f := range funcs {
		for vi, vec := range f.Vectors {
			fmt.Fprintf(&b, "\nfunc vfCall_%s_%d() {\n\tresetGlobals()\n", f.Name, vi)
			var args, post []string
			for ai, a := range vec {
				n := fmt.Sprintf("a%d", ai)
				fmt.Fprintf(&b, "\tvar %s %s = %s\n", n, a.Type, a.GoExpr())
				args = append(args, n)
				if a.Type == "*int" || a.Type == "[]int" {
					post = append(post, n)
				}
			}
			var rs []string
			for ri, rt := range f.ResultTypes {
				fmt.Fprintf(&b, "\tvar r%d %s\n", ri, rt)
				rs = append(rs, fmt.Sprintf("r%d", ri))
			}
			b.WriteString("\tpc := \"none\"\n\tfunc() {\n\t\tdefer func() {\n\t\t\tif e := recover(); e != nil {\n\t\t\t\tpc = vfClassify(e)\n\t\t\t}\n\t\t}()\n\t\t")
			if len(rs) > 0 {
				b.WriteString(strings.Join(rs, ", ") + " = ")
			}
			fmt.Fprintf(&b, "%s(%s)\n\t}()\n", f.Name, strings.Join(args, ", "))
			fmt.Fprintf(&b, "\tvfRecord(%q, %d, pc, []any{%s}, []any{%s})\n}\n", f.Name, vi, strings.Join(rs, ", "), strings.Join(post, ", "))
		}
	}
	return b.String()
}

// ---------------------------------------------------------------------------
// vectors

var boundary = map[string][]int64{
	"int":    {0, 1, -1, 2, 3, 7, -8, 100, 5, 1 << 40},
	"int8":   {0, 1, -1, 127, -128, 5},
	"uint8":  {0, 1, 255, 128, 7},
	"int64":  {0, 1, -1, -9223372036854775808, 9223372036854775807, 42},
	"uint":   {0, 1, -1, 9, 4},
	"uint32": {0, 1, 4294967295, 31, 6},
}
var boundaryStr = []string{"", "a", "héllo", "abcdefgh", "zz"}
var boundarySl = [][]int64{nil, {}, {1}, {3, 1, 2}, {5, -2, 7, 0, 9}, {4, 4, 4, 4}}
var boundaryPtr = []int64{0, 5, -3, 2}

func makeArg(rng *rand.Rand, t string, k int, random bool) Arg {
	pick := func(n int) int {
		if random {
			return rng.IntN(n)
		}
		return k % n
	}
	a := Arg{Type: t}
	switch t {
	case "bool":
		a.Bool = pick(2) == 1
	case "string":
		a.Str = boundaryStr[pick(len(boundaryStr))]
	case "*int":
		i := pick(len(boundaryPtr) + 1)
		if i == 0 {
			a.Nil = true
		} else {
			a.Elems = []int64{boundaryPtr[i-1]}
		}
	case "[]int":
		i := pick(len(boundarySl))
		if boundarySl[i] == nil {
			a.Nil = true
		} else {
			a.Elems = append([]int64{}, boundarySl[i]...)
		}
	default:
		bl := boundary[t]
		if random && rng.IntN(2) == 0 {
			a.Int = int64(rng.IntN(12)) - 3
			if strings.HasPrefix(t, "u") && a.Int < 0 {
				a.Int = -a.Int
			}
		} else {
			a.Int = bl[pick(len(bl))]
		}
		switch t { // normalise to the type's range
		case "uint8":
			a.Int = int64(uint8(a.Int))
		case "uint32":
			a.Int = int64(uint32(a.Int))
		case "int8":
			a.Int = int64(int8(a.Int))
		}
	}
	return a
}

// Vectors returns n argument vectors for the parameter types: a diagonal
// walk through the boundary lists first, then seeded picks.
func Vectors(rng *rand.Rand, params []string, n int) [][]Arg {
	if len(params) == 0 {
		return [][]Arg{{}}
	}
	var out [][]Arg
	for k := 0; k < n; k++ {
		vec := make([]Arg, len(params))
		for i, t := range params {
			vec[i] = makeArg(rng, t, k+i*(k/3), k >= 6)
		}
		out = append(out, vec)
	}
	return out
}

// ProgramFromSource wraps a hand-written Source that follows the
// conventions: every top-level function whose name starts with "F" and whose
// parameters/results have supported types becomes callable; every package
// variable whose name starts with "g" and has a printable type is reported.
func ProgramFromSource(rng *rand.Rand, src string, nvec int) (*Program, error) {
	funcs, globals, err := scanSource(src)
	if err != nil {
		return nil, err
	}
	for i := range funcs {
		funcs[i].Vectors = Vectors(rng, funcs[i].ParamTypes, nvec)
	}
	return &Program{Source: src, Driver: ExecDriver(funcs, globals), Funcs: funcs, Globals: globals}, nil
}

// ExecProgram generates one program (see the comment at the top of the file).
func ExecProgram(rng *rand.Rand, o ExecOpts) *Program {
	return execProgram(rng, o)
}
