package execgen

import (
	"fmt"
	"math/rand/v2"
	"strings"
)

// ---------------------------------------------------------------------------
// types of the generated language subset

type ty int

const (
	tInt ty = iota
	tI8
	tU8
	tI64
	tUint
	tU32
	tBool
	tStr
	tSl  // []int
	tArr // [4]int
	tPtr // *int
	tS   // S
	tPS  // *S
	tI   // I
	tAny // any
	tFn  // func(int) int
	tMap // map[int]int
	numTy
)

var tyName = [...]string{"int", "int8", "uint8", "int64", "uint", "uint32", "bool", "string", "[]int", "[4]int", "*int", "S", "*S", "I", "any", "func(int) int", "map[int]int"}

func (t ty) isInt() bool    { return t <= tU32 }
func (t ty) isSigned() bool { return t == tInt || t == tI8 || t == tI64 }

var intTys = []ty{tInt, tI8, tU8, tI64, tUint, tU32}
var argTys = []ty{tInt, tInt, tInt, tI8, tU8, tI64, tUint, tU32, tBool, tStr, tPtr, tSl, tSl}
var resTys = []ty{tInt, tInt, tInt, tI8, tU8, tI64, tUint, tU32, tBool, tStr, tSl, tArr}

func zeroLit(t ty) string {
	switch {
	case t.isInt():
		return "0"
	case t == tBool:
		return "false"
	case t == tStr:
		return `""`
	case t == tArr:
		return "[4]int{}"
	case t == tS:
		return "S{}"
	}
	return "nil"
}

type vr struct {
	name string
	t    ty
	acc  bool // append-only accumulator: never aliased, never sliced
	ro   bool // do not assign (loop counters of goto regions etc.)
}

type sigInfo struct {
	name    string
	params  []ty
	results []ty
}

// pg is the per-program generator state.
type pg struct {
	rng    *rand.Rand
	o      ExecOpts
	funcs  []sigInfo // generated functions callable from later ones
	nextID int       // trace ids
}

// fg generates one function body.
type fg struct {
	p        *pg
	rng      *rand.Rand
	b        strings.Builder
	ind      int
	scopes   [][]*vr
	results  [][]ty // stack: result types of the enclosing func literals
	named    [][]string
	nvar     int
	nlabel   int
	budget   int
	loops    int // nesting depth of loops (break/continue legal)
	inYield  int // nesting depth of range-over-func bodies
	noDefer  bool
	feats    map[string]bool
	depthLit int  // nesting of func literals
	rawUsed  bool // the current statement already contains an unguarded panicking operation
	noHoist  int  // >0: calls with side effects may not be hoisted (loop conditions, else-if, case expressions)
}

// raw reports whether one more unguarded, possibly panicking operation may be
// generated in the current statement. At most one is allowed, so that the
// panic a statement raises does not depend on evaluation order the language
// leaves unspecified.
func (g *fg) raw(pct int) bool {
	if g.rawUsed || !g.chance(pct) {
		return false
	}
	g.rawUsed = true
	return true
}

// hoist emits "tN := <call>" before the statement under construction and
// returns tN. Calls with side effects never appear inside larger
// expressions: Go only orders calls relative to each other, not relative to
// variable reads, indexing or dereferences in the same expression.
func (g *fg) hoist(call string, t ty) (string, bool) {
	if g.noHoist > 0 {
		return "", false
	}
	n := g.fresh("t")
	if t == tInt || t == tBool || t == tStr || t == tSl {
		g.w("%s := %s", n, call)
	} else {
		g.w("var %s %s = %s", n, tyName[t], call)
	}
	g.w("_ = %s", n)
	return n, true
}

func (g *fg) feat(s string) { g.feats[s] = true }

func (g *fg) w(format string, a ...any) {
	g.b.WriteString(strings.Repeat("\t", g.ind))
	fmt.Fprintf(&g.b, format, a...)
	g.b.WriteString("\n")
}

func (g *fg) push()   { g.scopes = append(g.scopes, nil) }
func (g *fg) pop()    { g.scopes = g.scopes[:len(g.scopes)-1] }
func (g *fg) id() int { g.p.nextID++; return g.p.nextID }

func (g *fg) declare(name string, t ty) *vr {
	v := &vr{name: name, t: t}
	g.scopes[len(g.scopes)-1] = append(g.scopes[len(g.scopes)-1], v)
	return v
}

func (g *fg) fresh(prefix string) string {
	g.nvar++
	return fmt.Sprintf("%s%d", prefix, g.nvar)
}

// visible returns the variables in scope, innermost declaration winning.
func (g *fg) visible() []*vr {
	seen := map[string]bool{}
	var out []*vr
	for i := len(g.scopes) - 1; i >= 0; i-- {
		sc := g.scopes[i]
		for j := len(sc) - 1; j >= 0; j-- {
			if !seen[sc[j].name] {
				seen[sc[j].name] = true
				out = append(out, sc[j])
			}
		}
	}
	return out
}

func (g *fg) pick(t ty) *vr {
	var c []*vr
	for _, v := range g.visible() {
		if v.t == t && !v.acc {
			c = append(c, v)
		}
	}
	if len(c) == 0 {
		return nil
	}
	return c[g.rng.IntN(len(c))]
}

func (g *fg) pickAssignable(t ty) *vr {
	var c []*vr
	for _, v := range g.visible() {
		if v.t == t && !v.acc && !v.ro {
			c = append(c, v)
		}
	}
	if len(c) == 0 {
		return nil
	}
	return c[g.rng.IntN(len(c))]
}

func (g *fg) pickAcc() *vr {
	var c []*vr
	for _, v := range g.visible() {
		if v.acc {
			c = append(c, v)
		}
	}
	if len(c) == 0 {
		return nil
	}
	return c[g.rng.IntN(len(c))]
}

func (g *fg) chance(pct int) bool { return g.rng.IntN(100) < pct }

// ---------------------------------------------------------------------------
// expressions

func (g *fg) lit(t ty) string {
	switch {
	case t.isSigned():
		return fmt.Sprint(g.rng.IntN(14) - 3)
	case t.isInt():
		return fmt.Sprint(g.rng.IntN(14))
	}
	return zeroLit(t)
}

// intVar returns a non-constant expression of integer type t.
func (g *fg) intVar(t ty) string {
	if v := g.pick(t); v != nil {
		return v.name
	}
	for _, u := range intTys {
		if v := g.pick(u); v != nil {
			return fmt.Sprintf("%s(%s)", tyName[t], v.name)
		}
	}
	if t == tInt {
		return "g0"
	}
	return tyName[t] + "(g0)"
}

// safeIdx returns an index expression that is mostly within [0,n).
func (g *fg) safeIdx(d int, lenExpr string) string {
	if !g.raw(25) {
		return fmt.Sprintf("idx(%s, %s)", g.expr(tInt, d-1), lenExpr)
	}
	return fmt.Sprintf("%s&3", g.intVar(tInt))
}

func (g *fg) expr(t ty, d int) string {
	if d <= 0 {
		return g.leaf(t)
	}
	switch {
	case t.isInt():
		return g.intExpr(t, d)
	case t == tBool:
		return g.boolExpr(d)
	case t == tStr:
		return g.strExpr(d)
	}
	return g.refExpr(t, d)
}

func (g *fg) leaf(t ty) string {
	if v := g.pick(t); v != nil && g.chance(75) {
		return v.name
	}
	switch {
	case t.isInt():
		if g.chance(50) {
			return g.intVar(t)
		}
		return g.lit(t)
	case t == tBool:
		if v := g.pick(tInt); v != nil {
			return fmt.Sprintf("%s > %d", v.name, g.rng.IntN(5))
		}
		return []string{"true", "false"}[g.rng.IntN(2)]
	case t == tStr:
		return []string{`""`, `"a"`, `"héllo"`, `"xyz"`, `"q\x00z"`}[g.rng.IntN(5)]
	case t == tSl:
		if g.chance(50) {
			return fmt.Sprintf("[]int{%s, %s, %s}", g.lit(tInt), g.intVar(tInt), g.lit(tInt))
		}
		return "g1"
	case t == tArr:
		return fmt.Sprintf("[4]int{%s, %s, 3, %s}", g.lit(tInt), g.intVar(tInt), g.lit(tInt))
	case t == tPtr:
		if v := g.pick(tInt); v != nil && g.chance(60) {
			g.feat("addr-of-local")
			return "&" + v.name
		}
		if g.chance(50) {
			return "new(int)"
		}
		return "nil"
	case t == tS:
		return fmt.Sprintf("S{a: %s, b: %s}", g.intVar(tInt), g.lit(tInt))
	case t == tPS:
		if v := g.pick(tS); v != nil && g.chance(60) {
			return "&" + v.name
		}
		if g.chance(80) {
			return fmt.Sprintf("&S{a: %s}", g.intVar(tInt))
		}
		return "nil"
	case t == tI:
		switch g.rng.IntN(5) {
		case 0, 1:
			return fmt.Sprintf("I(T1{%s})", g.intVar(tInt))
		case 2, 3:
			return fmt.Sprintf("I(&T2{k: %s})", g.intVar(tInt))
		}
		return "I(nil)"
	case t == tAny:
		switch g.rng.IntN(7) {
		case 0, 1:
			return fmt.Sprintf("any(%s)", g.intVar(tInt))
		case 2:
			return fmt.Sprintf("any(%s)", g.leaf(tStr))
		case 3:
			return fmt.Sprintf("any(T1{%s})", g.lit(tInt))
		case 4:
			return fmt.Sprintf("any(%s)", g.intVar(tI8))
		case 5:
			return fmt.Sprintf("any(&T2{k: %s})", g.lit(tInt))
		}
		return "any(nil)"
	case t == tFn:
		switch g.rng.IntN(4) {
		case 0:
			return "twice"
		case 1:
			g.feat("method-value")
			return fmt.Sprintf("T1{%s}.M", g.intVar(tInt))
		case 2:
			return "(func(int) int)(nil)"
		}
		return fmt.Sprintf("func(v int) int { return v + %s }", g.intVar(tInt))
	case t == tMap:
		switch g.rng.IntN(4) {
		case 0:
			return "map[int]int(nil)"
		case 1:
			return "make(map[int]int)"
		}
		return fmt.Sprintf("map[int]int{1: %s, 2: %s}", g.intVar(tInt), g.lit(tInt))
	}
	return zeroLit(t)
}

func (g *fg) intExpr(t ty, d int) string {
	tn := tyName[t]
	n := 14
	if t == tInt {
		n = 30
	}
	switch k := g.rng.IntN(n); {
	case k < 2:
		return g.leaf(t)
	case k < 6: // arithmetic; the left operand is never a literal (no constant folding)
		op := []string{"+", "-", "*", "&", "|", "^", "&^"}[g.rng.IntN(7)]
		l := g.nonConst(t, d-1)
		return fmt.Sprintf("(%s %s %s)", l, op, g.expr(t, d-1))
	case k < 7:
		op := []string{"/", "%"}[g.rng.IntN(2)]
		l := g.nonConst(t, d-1)
		if !g.raw(20) {
			return fmt.Sprintf("(%s %s (%s | 1))", l, op, g.nonConst(t, d-1))
		}
		return fmt.Sprintf("(%s %s %s)", l, op, g.nonConst(t, d-1))
	case k < 9:
		op := []string{"<<", ">>"}[g.rng.IntN(2)]
		l := g.nonConst(t, d-1)
		k := 1 + g.rng.IntN(5)
		if g.raw(17) {
			k = 0
		}
		switch k {
		case 0:
			return fmt.Sprintf("(%s %s %s)", l, op, g.intVar(tInt)) // may be negative or huge
		case 1:
			return fmt.Sprintf("(%s %s %s)", l, op, g.intVar(tU8))
		case 2:
			return fmt.Sprintf("(%s %s %d)", l, op, g.rng.IntN(9))
		}
		return fmt.Sprintf("(%s %s (%s & 15))", l, op, g.intVar(tUint))
	case k < 10:
		return fmt.Sprintf("(%s%s)", []string{"-", "^"}[g.rng.IntN(2)], g.nonConst(t, d-1))
	case k < 12: // conversion from another integer type
		u := intTys[g.rng.IntN(len(intTys))]
		return fmt.Sprintf("%s(%s)", tn, g.nonConst(u, d-1))
	case k < 13:
		if t == tU8 {
			if s := g.pick(tStr); s != nil {
				return fmt.Sprintf("%s[idx(%s, len(%s))]", s.name, g.expr(tInt, d-1), s.name)
			}
		}
		if t == tInt {
			return fmt.Sprintf("gmax(%s, %s)", g.nonConst(t, d-1), g.expr(t, d-1))
		}
		g.feat("generic-call")
		return fmt.Sprintf("gmax[%s](%s, %s)", tn, g.nonConst(t, d-1), g.expr(t, d-1))
	case k < 14:
		g.feat("generic-call")
		return fmt.Sprintf("gsum([]%s{%s, %s})", tn, g.nonConst(t, d-1), g.lit(t))
	}
	// int only
	switch g.rng.IntN(17) {
	case 0:
		return fmt.Sprintf("len(%s)", g.expr(tSl, d-1))
	case 1:
		return fmt.Sprintf("slen(%s)", g.expr(tStr, d-1))
	case 2:
		if a := g.pick(tArr); a != nil {
			return fmt.Sprintf("%s[%s&3]", a.name, g.intVar(tInt))
		}
	case 3:
		if s := g.pick(tSl); s != nil {
			return fmt.Sprintf("%s[%s]", s.name, g.safeIdx(d, "len("+s.name+")"))
		}
	case 4:
		if q := g.pick(tPtr); q != nil {
			if !g.raw(30) {
				return fmt.Sprintf("deref(%s)", q.name)
			}
			return "*" + q.name
		}
	case 5:
		if s := g.pick(tS); s != nil {
			return s.name + []string{".a", ".b"}[g.rng.IntN(2)]
		}
	case 6:
		if s := g.pick(tPS); s != nil {
			if !g.raw(40) {
				return fmt.Sprintf("psa(%s)", s.name)
			}
			return s.name + ".a"
		}
	case 7:
		if i := g.pick(tI); i != nil {
			call := fmt.Sprintf("callM(%s, %s)", i.name, g.expr(tInt, d-1))
			if g.raw(30) {
				call = fmt.Sprintf("%s.M(%s)", i.name, g.expr(tInt, d-1))
			}
			if n, ok := g.hoist(call, tInt); ok {
				g.feat("iface-call")
				return n
			}
		}
	case 8:
		if f := g.pick(tFn); f != nil {
			call := fmt.Sprintf("callF(%s, %s)", f.name, g.expr(tInt, d-1))
			if g.raw(30) {
				call = fmt.Sprintf("%s(%s)", f.name, g.expr(tInt, d-1))
			}
			if n, ok := g.hoist(call, tInt); ok {
				return n
			}
		}
	case 9:
		if m := g.pick(tMap); m != nil {
			return fmt.Sprintf("%s[%s]", m.name, g.expr(tInt, d-1))
		}
	case 10:
		return fmt.Sprintf("b2i(%s)", g.boolExpr(d-1))
	case 11:
		return fmt.Sprintf("hs(%s)", g.expr(tStr, d-1))
	case 12, 13:
		if c := g.callExpr(tInt, d); c != "" {
			return c
		}
	case 14:
		if a := g.pick(tAny); a != nil {
			g.feat("type-assert")
			if !g.raw(25) {
				return fmt.Sprintf("asInt(%s)", a.name)
			}
			return fmt.Sprintf("%s.(int)", a.name)
		}
	case 15:
		switch g.rng.IntN(6) {
		case 0:
			if p := g.pick(tPS); p != nil {
				return fmt.Sprintf("derefS(%s).b", p.name)
			}
		case 1:
			return fmt.Sprintf("T1{%s}.k", g.expr(tInt, d-1))
		case 2:
			return fmt.Sprintf("%s(%s, %s, %s)", []string{"min", "max"}[g.rng.IntN(2)], g.nonConst(tInt, d-1), g.expr(tInt, d-1), g.lit(tInt))
		case 3:
			if s := g.pick(tStr); s != nil {
				return fmt.Sprintf("int(%s[idx(%s, len(%s))])", s.name, g.expr(tInt, d-1), s.name)
			}
		case 4:
			if s := g.pick(tS); s != nil {
				g.feat("method-call")
				if g.chance(50) {
					return s.name + ".Sum()"
				}
				return "S.Sum(" + s.name + ")"
			}
		}
		return fmt.Sprintf("int(%s)", g.nonConst(intTys[1+g.rng.IntN(5)], d-1))
	case 16:
		g.feat("generic-call")
		return fmt.Sprintf("gkind(%s)", g.expr([]ty{tInt, tStr, tI8, tBool}[g.rng.IntN(4)], d-1))
	}
	return g.leaf(t)
}

// nonConst returns an expression of integer type t that is not a constant.
func (g *fg) nonConst(t ty, d int) string {
	if d <= 0 || g.chance(40) {
		return g.intVar(t)
	}
	e := g.intExpr(t, d)
	if isLiteral(e) {
		return g.intVar(t)
	}
	return e
}

func isLiteral(e string) bool {
	if e == "" {
		return true
	}
	for i, c := range e {
		if !(c >= '0' && c <= '9' || (i == 0 && c == '-')) {
			return false
		}
	}
	return true
}

// callExpr returns a call of an earlier generated function whose single
// result has type t ("" if there is none).
func (g *fg) callExpr(t ty, d int) string {
	var c []sigInfo
	for _, f := range g.p.funcs {
		if len(f.results) == 1 && f.results[0] == t {
			c = append(c, f)
		}
	}
	if len(c) == 0 {
		return ""
	}
	f := c[g.rng.IntN(len(c))]
	if g.noHoist > 0 {
		return ""
	}
	n, _ := g.hoist(g.callOf(f, d), t)
	return n
}

func (g *fg) callOf(f sigInfo, d int) string {
	args := make([]string, len(f.params))
	for i, pt := range f.params {
		args[i] = g.expr(pt, min(d-1, 1))
		if pt.isInt() && isLiteral(args[i]) {
			args[i] = fmt.Sprintf("%s(%s)", tyName[pt], args[i])
		}
	}
	g.feat("call-generated")
	return fmt.Sprintf("%s(%s)", f.name, strings.Join(args, ", "))
}

func (g *fg) boolExpr(d int) string {
	if d <= 0 {
		return g.leaf(tBool)
	}
	switch g.rng.IntN(12) {
	case 0, 1, 2:
		t := intTys[g.rng.IntN(len(intTys))]
		if g.chance(60) {
			t = tInt
		}
		op := []string{"<", "<=", ">", ">=", "==", "!="}[g.rng.IntN(6)]
		return fmt.Sprintf("%s %s %s", g.nonConst(t, d-1), op, g.expr(t, d-1))
	case 3:
		g.feat("logical-value")
		if g.chance(15) { // constant right operand: the rhs block is a bare jump
			return fmt.Sprintf("(%s && %s)", g.boolExpr(d-1), []string{"true", "false"}[g.rng.IntN(2)])
		}
		return fmt.Sprintf("(%s && %s)", g.boolExpr(d-1), g.boolExpr(d-1))
	case 4:
		g.feat("logical-value")
		if g.chance(15) {
			return fmt.Sprintf("(%s || %s)", g.boolExpr(d-1), []string{"true", "false"}[g.rng.IntN(2)])
		}
		return fmt.Sprintf("(%s || %s)", g.boolExpr(d-1), g.boolExpr(d-1))
	case 5:
		return fmt.Sprintf("!(%s)", g.boolExpr(d-1))
	case 6:
		for _, t := range []ty{tPtr, tSl, tPS, tI, tAny, tFn, tMap}[g.rng.IntN(7):] {
			if v := g.pick(t); v != nil {
				return fmt.Sprintf("%s %s nil", v.name, []string{"==", "!="}[g.rng.IntN(2)])
			}
		}
	case 7:
		if s := g.pick(tStr); s != nil {
			return fmt.Sprintf("%s %s %s", s.name, []string{"==", "<", "!="}[g.rng.IntN(3)], g.expr(tStr, d-1))
		}
	case 8:
		if a, b := g.pick(tS), g.pick(tS); a != nil && a.name != b.name {
			return fmt.Sprintf("%s.a == %s.b", a.name, b.name)
		}
		if a := g.pick(tArr); a != nil {
			return fmt.Sprintf("%s == %s", a.name, g.expr(tArr, d-1))
		}
	case 9:
		if a := g.pick(tAny); a != nil {
			g.feat("iface-compare")
			return fmt.Sprintf("%s == %s", a.name, g.leaf(tAny))
		}
	case 10:
		if c := g.callExpr(tBool, d); c != "" {
			return c
		}
	}
	return g.leaf(tBool)
}

func (g *fg) strExpr(d int) string {
	switch g.rng.IntN(9) {
	case 0, 1:
		return fmt.Sprintf("(%s + %s)", g.leaf(tStr), g.expr(tStr, d-1))
	case 2:
		if s := g.pick(tStr); s != nil {
			if !g.raw(25) {
				return fmt.Sprintf("%s[:idx(%s, len(%s)+1)]", s.name, g.expr(tInt, d-1), s.name)
			}
			return fmt.Sprintf("%s[%s&3:]", s.name, g.intVar(tInt))
		}
	case 3:
		return fmt.Sprintf("string(rune(65 + %s&31))", g.intVar(tInt))
	case 4:
		switch g.rng.IntN(3) {
		case 0:
			return fmt.Sprintf("string([]byte(%s))", g.expr(tStr, d-1))
		case 1:
			return fmt.Sprintf("string([]rune(%s))", g.expr(tStr, d-1))
		}
		return fmt.Sprintf("string([]byte{%s, 'b'})", g.nonConst(tU8, d-1))
	case 5:
		if c := g.callExpr(tStr, d); c != "" {
			return c
		}
	case 6:
		if a := g.pick(tAny); a != nil {
			return fmt.Sprintf("asStr(%s)", a.name)
		}
	}
	return g.leaf(tStr)
}

func (g *fg) refExpr(t ty, d int) string {
	switch t {
	case tSl:
		switch g.rng.IntN(8) {
		case 0:
			if s := g.pick(tSl); s != nil {
				if !g.raw(25) {
					return fmt.Sprintf("%s[:idx(%s, len(%s)+1)]", s.name, g.expr(tInt, d-1), s.name)
				}
				return fmt.Sprintf("%s[%s&3:]", s.name, g.intVar(tInt))
			}
		case 1:
			if a := g.pick(tArr); a != nil {
				g.feat("slice-of-array")
				return fmt.Sprintf("%s[%s&3:]", a.name, g.intVar(tInt))
			}
		case 2:
			if !g.raw(15) {
				return fmt.Sprintf("make([]int, %s&7)", g.intVar(tInt))
			}
			return fmt.Sprintf("make([]int, %s)", g.intVar(tI8))
		case 3:
			return fmt.Sprintf("append([]int(nil), %s...)", g.expr(tSl, d-1))
		case 4:
			return fmt.Sprintf("[]int{%s, %s, %s, %s}", g.expr(tInt, d-1), g.lit(tInt), g.expr(tInt, d-1), g.lit(tInt))
		case 5:
			if c := g.callExpr(tSl, d); c != "" {
				return c
			}
		case 6:
			if s := g.pick(tS); s != nil {
				return s.name + ".s"
			}
		}
	case tArr:
		switch g.rng.IntN(4) {
		case 0:
			return fmt.Sprintf("[4]int{%s, %s, %s, %s}", g.expr(tInt, d-1), g.expr(tInt, d-1), g.lit(tInt), g.expr(tInt, d-1))
		case 1:
			return fmt.Sprintf("[4]int{%d: %s}", g.rng.IntN(4), g.expr(tInt, d-1))
		case 2:
			if s := g.pick(tSl); s != nil && g.raw(50) {
				g.feat("slice-to-array")
				return fmt.Sprintf("[4]int(%s)", s.name)
			}
		}
	case tPtr:
		switch g.rng.IntN(7) {
		case 0:
			if s := g.pick(tSl); s != nil {
				return fmt.Sprintf("&%s[%s]", s.name, g.safeIdx(d, "len("+s.name+")"))
			}
		case 1:
			if s := g.pick(tS); s != nil {
				g.feat("addr-of-local")
				return "&" + s.name + ".a"
			}
		case 2:
			if a := g.pick(tArr); a != nil {
				g.feat("addr-of-local")
				return fmt.Sprintf("&%s[%s&3]", a.name, g.intVar(tInt))
			}
		case 3:
			if s := g.pick(tS); s != nil {
				return s.name + ".p"
			}
		case 4:
			if s := g.pick(tPS); s != nil && g.raw(100) {
				return fmt.Sprintf("&%s.b", s.name)
			}
		}
	case tS:
		switch g.rng.IntN(5) {
		case 0:
			return fmt.Sprintf("S{%s, %s, %s, %s}", g.expr(tInt, d-1), g.expr(tInt, d-1), g.leaf(tPtr), g.leaf(tSl))
		case 1:
			if s := g.pick(tPS); s != nil {
				if !g.raw(30) {
					return fmt.Sprintf("derefS(%s)", s.name)
				}
				return "*" + s.name
			}
		case 2:
			return fmt.Sprintf("S{b: %s, s: %s}", g.expr(tInt, d-1), g.leaf(tSl))
		}
	case tFn:
		if g.chance(50) && g.depthLit < 2 {
			return g.funcLit(d)
		}
		if i := g.pick(tI); i != nil && g.chance(30) {
			g.feat("method-value")
			return fmt.Sprintf("bindM(%s)", i.name)
		}
		if s := g.pick(tPS); s != nil && g.chance(20) {
			g.feat("method-value")
			return fmt.Sprintf("bindAdd(%s)", s.name)
		}
	case tAny:
		if g.chance(40) {
			t2 := []ty{tInt, tStr, tI8, tBool, tI, tU8}[g.rng.IntN(6)]
			return fmt.Sprintf("any(%s)", g.expr(t2, d-1))
		}
	case tI:
		if g.chance(30) {
			return fmt.Sprintf("I(T1{%s})", g.expr(tInt, d-1))
		}
	}
	return g.leaf(t)
}

// funcLit returns a func(int) int literal that captures (and may mutate)
// variables of the enclosing function.
func (g *fg) funcLit(d int) string {
	g.feat("closure")
	save := g.b
	saveInd := g.ind
	g.b = strings.Builder{}
	g.depthLit++
	g.push()
	p := g.fresh("v")
	g.declare(p, tInt)
	g.results = append(g.results, []ty{tInt})
	g.named = append(g.named, nil)
	savedLoops, savedYield := g.loops, g.inYield
	g.loops, g.inYield = 0, 0
	g.ind++
	if x := g.pickAssignable(tInt); x != nil && g.chance(60) {
		g.feat("closure-mutates-capture")
		g.w("%s %s %s", x.name, []string{"+=", "-=", "^=", "="}[g.rng.IntN(4)], g.expr(tInt, 1))
	}
	for n := g.rng.IntN(3); n > 0 && g.budget > 0; n-- {
		g.stmt(1)
	}
	g.w("return %s", g.expr(tInt, d-1))
	g.ind--
	body := g.b.String()
	g.loops, g.inYield = savedLoops, savedYield
	g.results = g.results[:len(g.results)-1]
	g.named = g.named[:len(g.named)-1]
	g.pop()
	g.depthLit--
	g.b = save
	g.ind = saveInd
	return fmt.Sprintf("func(%s int) int {\n%s%s}", p, body, strings.Repeat("\t", g.ind))
}

// ---------------------------------------------------------------------------
// statements

func (g *fg) block(d int, n int) {
	g.push()
	g.ind++
	for i := 0; i < n && g.budget > 0; i++ {
		g.stmt(d)
	}
	g.ind--
	g.pop()
}

func (g *fg) traceStmt() {
	var parts []string
	for _, v := range g.visible() {
		if len(parts) >= 3 {
			break
		}
		if !g.chance(50) {
			continue
		}
		switch {
		case v.t == tInt:
			parts = append(parts, v.name)
		case v.t.isInt():
			parts = append(parts, "int("+v.name+")")
		case v.t == tBool:
			parts = append(parts, "b2i("+v.name+")")
		case v.t == tStr:
			parts = append(parts, "hs("+v.name+")")
		case v.t == tSl:
			parts = append(parts, "sum("+v.name+")")
		case v.t == tArr:
			parts = append(parts, "sum("+v.name+"[:])")
		case v.t == tS:
			parts = append(parts, v.name+".a", v.name+".b")
		case v.t == tPtr:
			parts = append(parts, "deref("+v.name+")")
		case v.t == tMap:
			parts = append(parts, "msum("+v.name+")")
		}
	}
	if len(parts) == 0 {
		parts = append(parts, g.expr(tInt, 1))
	}
	g.w("trace(%d, %s)", g.id(), strings.Join(parts, ", "))
}

func (g *fg) returnStmt() {
	res := g.results[len(g.results)-1]
	named := g.named[len(g.named)-1]
	if len(res) == 0 {
		g.w("return")
		return
	}
	if named != nil && g.chance(35) {
		g.feat("bare-return")
		g.w("return")
		return
	}
	if len(res) == 2 && res[0] == tInt && res[1] == tInt && g.chance(40) {
		g.feat("multi-value-forward")
		g.w("return divmod(%s, %s)", g.expr(tInt, 1), g.expr(tInt, 1))
		return
	}
	parts := make([]string, len(res))
	for i, t := range res {
		parts[i] = g.expr(t, 2)
	}
	g.w("return %s", strings.Join(parts, ", "))
}

func (g *fg) newVarStmt(d int) {
	t := ty(g.rng.IntN(int(numTy)))
	if g.chance(45) {
		t = tInt
	}
	name := g.fresh("v")
	switch g.rng.IntN(4) {
	case 0:
		g.w("var %s %s", name, tyName[t])
	case 1:
		g.w("var %s %s = %s", name, tyName[t], g.expr(t, d))
	default:
		e := g.expr(t, d)
		if t.isInt() && t != tInt || isNilish(e) || t == tI || t == tAny || t == tFn {
			g.w("var %s %s = %s", name, tyName[t], e)
		} else {
			g.w("%s := %s", name, e)
		}
	}
	g.w("_ = %s", name)
	g.declare(name, t)
}

func isNilish(e string) bool { return e == "nil" || isLiteral(e) }

func (g *fg) shadowStmt(d int) {
	v := g.pick(tInt)
	if v == nil {
		g.traceStmt()
		return
	}
	g.feat("shadowing")
	switch g.rng.IntN(3) {
	case 0:
		g.w("{")
		g.push()
		g.ind++
		g.w("%s := %s + %s", v.name, v.name, g.expr(tInt, 1))
		g.declare(v.name, tInt)
		g.w("%s++", v.name)
		for i := g.rng.IntN(3); i > 0 && g.budget > 0; i-- {
			g.stmt(d - 1)
		}
		g.traceStmt()
		g.ind--
		g.pop()
		g.w("}")
	case 1:
		g.w("if %s := (%s); %s > %s {", v.name, g.expr(tInt, 1), v.name, g.lit(tInt))
		g.push()
		g.declare(v.name, tInt)
		g.block(d-1, 1+g.rng.IntN(2))
		g.pop()
		g.w("} else {")
		g.push()
		g.declare(v.name, tInt)
		g.ind++
		g.w("%s--", v.name)
		g.traceStmt()
		g.ind--
		g.pop()
		g.w("}")
	default:
		// a different type under the same name
		g.w("{")
		g.push()
		g.ind++
		g.w("%s := %s", v.name, g.leafNonNil(tStr))
		g.declare(v.name, tStr)
		g.w("trace(%d, hs(%s))", g.id(), v.name)
		g.ind--
		g.pop()
		g.w("}")
	}
}

func (g *fg) leafNonNil(t ty) string {
	for i := 0; i < 4; i++ {
		if e := g.leaf(t); e != "nil" {
			return e
		}
	}
	return zeroLit(t)
}

func (g *fg) assignStmt(d int) {
	switch g.rng.IntN(16) {
	case 0, 1, 2:
		t := ty(g.rng.IntN(int(numTy)))
		if v := g.pickAssignable(t); v != nil {
			g.w("%s = %s", v.name, g.expr(t, d))
			return
		}
	case 3, 4:
		t := intTys[g.rng.IntN(len(intTys))]
		if g.chance(50) {
			t = tInt
		}
		if v := g.pickAssignable(t); v != nil {
			op := []string{"+=", "-=", "*=", "&=", "|=", "^=", "<<=", ">>="}[g.rng.IntN(8)]
			if op == "<<=" || op == ">>=" {
				g.w("%s %s %s & 7", v.name, op, g.intVar(tUint))
			} else {
				g.w("%s %s %s", v.name, op, g.expr(t, d))
			}
			return
		}
	case 5:
		if v := g.pickAssignable(intTys[g.rng.IntN(len(intTys))]); v != nil {
			g.w("%s%s", v.name, []string{"++", "--"}[g.rng.IntN(2)])
			return
		}
	case 6, 7: // parallel assignment
		t := []ty{tInt, tInt, tInt, tStr, tPtr, tBool, tSl}[g.rng.IntN(7)]
		a, b := g.pickAssignable(t), g.pickAssignable(t)
		if a != nil && a.name != b.name {
			g.feat("parallel-assign")
			if c := g.pickAssignable(t); c.name != a.name && c.name != b.name && g.chance(50) {
				g.w("%s, %s, %s = %s, %s, %s", a.name, b.name, c.name, b.name, c.name, a.name)
			} else if t == tInt && g.chance(50) {
				g.w("%s, %s = %s, %s+%s", a.name, b.name, b.name, a.name, b.name)
			} else {
				g.w("%s, %s = %s, %s", a.name, b.name, b.name, a.name)
			}
			return
		}
	case 8:
		if s := g.pick(tSl); s != nil {
			if g.chance(20) && !s.ro {
				g.feat("complit-reads-target")
				g.w("if len(%s) > 1 {", s.name)
				g.w("\t%s = []int{%s[1], %s[0] + %s}", s.name, s.name, s.name, g.expr(tInt, 1))
				g.w("}")
			} else if g.chance(40) {
				g.feat("parallel-assign")
				g.w("if len(%s) > 1 {", s.name)
				g.w("\t%s[0], %s[1] = %s[1], %s[0]", s.name, s.name, s.name, s.name)
				g.w("}")
			} else if g.chance(20) {
				g.w("copy(%s, %s)", s.name, g.expr(tSl, 1))
			} else {
				g.w("%s[%s] = %s", s.name, g.safeIdx(d, "len("+s.name+")"), g.expr(tInt, d))
			}
			return
		}
	case 9:
		if q := g.pick(tPtr); q != nil {
			if !g.raw(30) {
				g.w("if %s != nil {", q.name)
				g.w("\t*%s = %s", q.name, g.expr(tInt, d))
				g.w("}")
			} else {
				g.w("*%s = %s", q.name, g.expr(tInt, d))
			}
			return
		}
	case 10:
		if s := g.pick(tS); s != nil {
			switch g.rng.IntN(4) {
			case 0:
				g.w("%s.a = %s", s.name, g.expr(tInt, d))
			case 1:
				g.w("%s.p = %s", s.name, g.expr(tPtr, d))
			case 2:
				g.w("%s.s = %s", s.name, g.expr(tSl, d))
			default:
				g.feat("complit-reads-target")
				g.w("%s = S{a: %s.b, b: %s.a + %s, p: %s.p, s: %s.s}", s.name, s.name, s.name, g.expr(tInt, 1), s.name, s.name)
			}
			return
		}
	case 11:
		if a := g.pickAssignable(tArr); a != nil {
			if g.chance(30) {
				g.feat("complit-reads-target")
				g.w("%s = [4]int{1: %s[0], 3: %s[2] + %s}", a.name, a.name, a.name, g.expr(tInt, 1))
			} else if g.chance(50) {
				g.feat("complit-reads-target")
				g.w("%s = [4]int{%s[1], %s[0], %s[3] + %s, %s[2]}", a.name, a.name, a.name, a.name, g.expr(tInt, 1), a.name)
			} else {
				g.w("%s[%s&3] = %s", a.name, g.intVar(tInt), g.expr(tInt, d))
			}
			return
		}
	case 12:
		if m := g.pick(tMap); m != nil {
			if !g.raw(25) {
				g.w("if %s != nil {", m.name)
				g.w("\t%s[%s] = %s", m.name, g.expr(tInt, 1), g.expr(tInt, d))
				g.w("}")
			} else if g.chance(50) {
				g.w("%s[%s] += %s", m.name, g.expr(tInt, 1), g.expr(tInt, d))
			} else {
				g.w("delete(%s, %s)", m.name, g.expr(tInt, 1))
			}
			return
		}
	case 13:
		switch g.rng.IntN(3) {
		case 0:
			g.w("g0 %s %s", []string{"=", "+=", "^="}[g.rng.IntN(3)], g.expr(tInt, d))
		case 1:
			g.w("g1 = append(g1, %s)", g.expr(tInt, d))
		default:
			g.w("g2 += %s", g.leaf(tStr))
		}
		return
	case 14:
		if a := g.pickAcc(); a != nil {
			g.w("%s = append(%s, %s)", a.name, a.name, g.expr(tInt, d))
			return
		}
	case 15:
		if s := g.pick(tPS); s != nil {
			if !g.raw(30) {
				g.w("if %s != nil {", s.name)
				g.w("\t%s.b %s %s", s.name, []string{"=", "+="}[g.rng.IntN(2)], g.expr(tInt, d))
				g.w("}")
			} else {
				g.w("%s.Add(%s)", s.name, g.expr(tInt, d))
			}
			return
		}
	}
	if v := g.pickAssignable(tInt); v != nil {
		g.w("%s = %s", v.name, g.expr(tInt, d))
		return
	}
	g.traceStmt()
}

func (g *fg) multiAssign(d int) {
	g.feat("multi-value")
	a, b := g.pickAssignable(tInt), g.pickAssignable(tInt)
	if a != nil && a.name != b.name && g.chance(50) {
		g.w("%s, %s = divmod(%s, %s)", a.name, b.name, g.expr(tInt, d), g.expr(tInt, 1))
		return
	}
	// call a generated function with several results
	var c []sigInfo
	for _, f := range g.p.funcs {
		if len(f.results) >= 2 {
			c = append(c, f)
		}
	}
	if len(c) > 0 && g.chance(60) {
		f := c[g.rng.IntN(len(c))]
		names := make([]string, len(f.results))
		for i := range names {
			names[i] = g.fresh("m")
		}
		g.w("%s := %s", strings.Join(names, ", "), g.callOf(f, d))
		for i, n := range names {
			g.w("_ = %s", n)
			g.declare(n, f.results[i])
		}
		return
	}
	q, r := g.fresh("q"), g.fresh("r")
	g.w("%s, %s := divmod(%s, %s)", q, r, g.expr(tInt, d), g.expr(tInt, 1))
	g.w("_, _ = %s, %s", q, r)
	g.declare(q, tInt)
	g.declare(r, tInt)
}

func (g *fg) ifStmt(d int) {
	if g.chance(20) {
		if v := g.pick(tInt); v != nil {
			n := g.fresh("c")
			_ = v
			g.w("if %s := (%s); %s > %s && (%s) {", n, g.expr(tInt, 1), n, g.lit(tInt), g.boolExpr(1))
			g.push()
			g.declare(n, tInt)
			g.block(d-1, 1+g.rng.IntN(3))
			g.pop()
			g.w("}")
			return
		}
	}
	g.w("if (%s) {", g.boolExpr(2))
	g.block(d-1, 1+g.rng.IntN(3))
	switch g.rng.IntN(4) {
	case 0:
		g.w("} else {")
		g.block(d-1, 1+g.rng.IntN(2))
	case 1:
		g.noHoist++
		ec := g.boolExpr(1)
		g.noHoist--
		g.w("} else if (%s) {", ec)
		g.block(d-1, 1+g.rng.IntN(2))
		if g.chance(50) {
			g.w("} else {")
			g.block(d-1, 1)
		}
	}
	g.w("}")
}

func (g *fg) switchStmt(d int) {
	g.feat("switch")
	ncase := 2 + g.rng.IntN(3)
	dfltAt := -1
	if g.chance(70) {
		dfltAt = g.rng.IntN(ncase + 1)
	}
	kind := g.rng.IntN(4)
	saveLoops := g.loops
	switch kind {
	case 0, 1: // constant cases on an int tag -> ConstantSwitch
		tag := fmt.Sprintf("%s & 7", g.nonConst(tInt, 1))
		if g.chance(30) {
			n := g.fresh("k")
			g.w("switch %s := (%s); %s {", n, tag, n)
		} else {
			g.w("switch (%s) {", tag)
		}
	case 2: // dynamic cases
		g.w("switch (%s) {", g.nonConst(tInt, 1))
	default: // tagless
		g.w("switch {")
	}
	used := map[int]bool{}
	var heads []string
	g.noHoist++
	for i := 0; i <= ncase; i++ {
		if i == dfltAt {
			heads = append(heads, "default:")
		} else if i == ncase {
			break
		} else {
			switch kind {
			case 0, 1:
				var cs []string
				for n := 1 + g.rng.IntN(2); n > 0; n-- {
					c := g.rng.IntN(9)
					if !used[c] {
						used[c] = true
						cs = append(cs, fmt.Sprint(c))
					}
				}
				if len(cs) == 0 {
					continue
				}
				heads = append(heads, "case "+strings.Join(cs, ", ")+":")
			case 2:
				heads = append(heads, "case "+g.nonConst(tInt, 1)+":")
			default:
				heads = append(heads, "case "+g.boolExpr(1)+":")
			}
		}
	}
	g.noHoist--
	for i, h := range heads {
		g.w("%s", h)
		g.push()
		g.ind++
		for n := 1 + g.rng.IntN(2); n > 0 && g.budget > 0; n-- {
			g.stmt(d - 1)
		}
		if g.chance(15) {
			g.w("if (%s) {", g.boolExpr(1))
			g.w("\tbreak")
			g.w("}")
			g.traceStmt()
		}
		if i != len(heads)-1 && g.chance(30) {
			g.feat("fallthrough")
			g.w("fallthrough")
		}
		g.ind--
		g.pop()
	}
	g.loops = saveLoops
	g.w("}")
}

func (g *fg) typeSwitchStmt(d int) {
	g.feat("type-switch")
	a := g.pick(tAny)
	var tag string
	if a != nil {
		tag = a.name
	} else if i := g.pick(tI); i != nil && g.chance(50) {
		tag = "any(" + i.name + ")"
	} else {
		tag = g.leaf(tAny)
	}
	bind := g.chance(70)
	v := g.fresh("tv")
	if bind {
		g.w("switch %s := (%s).(type) {", v, tag)
	} else {
		g.w("switch (%s).(type) {", tag)
	}
	type cs struct {
		text string
		t    ty
		use  string
	}
	all := []cs{
		{"int", tInt, ""}, {"string", tStr, ""}, {"int8", tI8, ""}, {"bool", tBool, ""},
		{"I", tI, ""}, {"T1", numTy, v + ".k"}, {"*T2", numTy, "psk(" + v + ")"}, {"nil", numTy, "-1"},
		{"int, uint8", numTy, "asInt(" + v + ")"}, {"error", numTy, "7"},
	}
	g.rng.Shuffle(len(all), func(i, j int) { all[i], all[j] = all[j], all[i] })
	hasInt := false
	n := 2 + g.rng.IntN(4)
	for _, c := range all[:n] {
		if strings.HasPrefix(c.text, "int") {
			if hasInt {
				continue
			}
			hasInt = true
		}
		g.w("case %s:", c.text)
		g.push()
		g.ind++
		if bind {
			if c.t != numTy {
				g.declare(v, c.t)
				g.w("_ = %s", v)
			} else {
				g.w("_ = %s", v)
				g.w("trace(%d, %s)", g.id(), c.use)
			}
		}
		for n := 1 + g.rng.IntN(2); n > 0 && g.budget > 0; n-- {
			g.stmt(d - 1)
		}
		g.ind--
		g.pop()
	}
	if g.chance(60) {
		g.w("default:")
		g.push()
		g.ind++
		if bind {
			g.w("_ = %s", v)
		}
		g.stmt(d - 1)
		g.ind--
		g.pop()
	}
	g.w("}")
}

// loopBody emits the body of a loop whose header is already written.
func (g *fg) loopBody(d int, label string, pre func()) {
	// loop variables declared by the header must be used
	for _, v := range g.scopes[len(g.scopes)-1] {
		g.w("\t_ = %s", v.name)
	}
	g.push()
	g.ind++
	g.w("if burn() {")
	g.w("\tbreak")
	g.w("}")
	if pre != nil {
		pre()
	}
	g.loops++
	for n := 1 + g.rng.IntN(3); n > 0 && g.budget > 0; n-- {
		g.stmt(d - 1)
	}
	if g.chance(35) {
		kw := []string{"break", "continue"}[g.rng.IntN(2)]
		if label != "" && g.chance(70) {
			kw += " " + label
			g.feat("labelled-branch")
		}
		g.w("if (%s) {", g.boolExpr(1))
		g.w("\t%s", kw)
		g.w("}")
		g.traceStmt()
	}
	g.loops--
	g.ind--
	g.pop()
}

func (g *fg) loopStmt(d int, outerLabel string) {
	label := ""
	if g.chance(30) {
		g.nlabel++
		label = fmt.Sprintf("L%d", g.nlabel)
	}
	usedLabel := outerLabel
	if label != "" {
		usedLabel = label
	}
	hdr := func(s string, a ...any) {
		if label != "" {
			// the label must be used: an explicit use follows in the body
			g.w("%s:", label)
		}
		g.w(s, a...)
	}
	var pre func()
	if label != "" {
		lb := label
		pre = func() {
			g.feat("labelled-branch")
			g.w("if (%s) {", g.boolExpr(1))
			g.w("\t%s %s", []string{"break", "continue"}[g.rng.IntN(2)], lb)
			g.w("}")
		}
	}
	g.push()
	switch g.rng.IntN(10) {
	case 0, 1: // three-clause
		i := g.fresh("i")
		hdr("for %s := 0; %s < %s&7; %s++ {", i, i, g.intVar(tInt), i)
		g.declare(i, tInt)
		g.feat("for-3clause")
	case 2: // three-clause, two variables, parallel post statement
		i, j := g.fresh("i"), g.fresh("j")
		hdr("for %s, %s := 0, %s&7; %s < %s; %s, %s = %s+1, %s-1 {", i, j, g.intVar(tInt), i, j, i, j, i, j)
		g.declare(i, tInt)
		g.declare(j, tInt)
		g.feat("for-3clause")
		g.feat("parallel-assign")
	case 3: // condition only
		if v := g.pickAssignable(tInt); v != nil {
			hdr("for %s%%5 != 0 {", v.name)
			inner := pre
			pre = func() {
				g.w("%s++", v.name)
				if inner != nil {
					inner()
				}
			}
		} else {
			hdr("for {")
		}
		g.feat("for-cond")
	case 4: // range over int
		i := g.fresh("i")
		t := []ty{tInt, tInt, tU8, tI8}[g.rng.IntN(4)]
		hdr("for %s := range %s & 7 {", i, g.intVar(t))
		g.declare(i, t)
		g.feat("range-int")
	case 5: // range over slice
		i, v := g.fresh("i"), g.fresh("e")
		hdr("for %s, %s := range (%s) {", i, v, g.expr(tSl, 1))
		g.declare(i, tInt)
		g.declare(v, tInt)
		g.feat("range-slice")
	case 6: // range over array (copy semantics) or string
		i, v := g.fresh("i"), g.fresh("e")
		if a := g.pick(tArr); a != nil && g.chance(50) {
			hdr("for %s, %s := range %s {", i, v, a.name)
			g.declare(i, tInt)
			g.declare(v, tInt)
			g.feat("range-array")
		} else {
			hdr("for %s, %s := range (%s) {", i, v, g.expr(tStr, 1))
			g.declare(i, tInt)
			n := g.fresh("r")
			inner := pre
			pre = func() {
				g.w("%s := int(%s)", n, v)
				g.w("_ = %s", n)
				g.declare(n, tInt)
				if inner != nil {
					inner()
				}
			}
			g.feat("range-string")
			_ = n
		}
	case 7, 8: // range over func
		g.feat("range-func")
		if g.chance(50) {
			v := g.fresh("e")
			hdr("for %s := range seq(%s & 7) {", v, g.intVar(tInt))
			g.declare(v, tInt)
		} else {
			i, v := g.fresh("i"), g.fresh("e")
			hdr("for %s, %s := range seq2(%s) {", i, v, g.expr(tSl, 1))
			g.declare(i, tInt)
			g.declare(v, tInt)
		}
		g.inYield++
		g.loopBody(d, usedLabel, pre)
		g.inYield--
		g.w("}")
		g.pop()
		return
	default: // range over map, order-insensitive reduction only
		g.feat("range-map")
		m := g.expr(tMap, 1)
		acc := g.fresh("t")
		g.w("%s := 0", acc)
		g.w("for k, v := range (%s) {", m)
		g.w("\t%s += k*3 + v", acc)
		g.w("}")
		g.w("trace(%d, %s)", g.id(), acc)
		g.pop()
		g.declare(acc, tInt)
		return
	}
	g.loopBody(d, usedLabel, pre)
	g.w("}")
	g.pop()
}

// gotoStmt emits a backward-goto loop or a forward goto out of a loop.
func (g *fg) gotoStmt(d int) {
	g.feat("goto")
	g.nlabel++
	l := fmt.Sprintf("G%d", g.nlabel)
	if g.inYield > 0 || g.depthLit > 0 {
		// keep labels function-local and simple inside closures
		g.traceStmt()
		return
	}
	if g.chance(50) {
		// backward: a loop built from goto
		c := g.fresh("n")
		g.w("%s := 0", c)
		g.declare(c, tInt).ro = true
		g.w("%s:", l)
		g.w("%s++", c)
		g.stmt(d - 1)
		g.w("if !burn() && %s < 5 && (%s) {", c, g.boolExpr(1))
		g.w("\tgoto %s", l)
		g.w("}")
		return
	}
	// forward: jump out of a (nested) loop to a label right after it
	i := g.fresh("i")
	g.w("for %s := 0; %s < 4; %s++ {", i, i, i)
	g.push()
	g.declare(i, tInt)
	g.ind++
	g.w("if burn() {")
	g.w("\tbreak")
	g.w("}")
	g.loops++
	g.stmt(d - 1)
	g.w("if (%s) {", g.boolExpr(1))
	g.w("\tgoto %s", l)
	g.w("}")
	g.stmt(d - 1)
	g.loops--
	g.ind--
	g.pop()
	g.w("}")
	g.traceStmt()
	g.w("%s:", l)
	g.traceStmt()
}

func (g *fg) deferStmt(d int) {
	if g.noDefer {
		g.traceStmt()
		return
	}
	g.feat("defer")
	if g.inYield > 0 {
		g.feat("defer-in-rangefunc")
	}
	named := g.named[len(g.named)-1]
	res := g.results[len(g.results)-1]
	switch g.rng.IntN(4) {
	case 0: // arguments evaluated at defer time
		g.w("defer trace(%d, %s)", g.id(), g.expr(tInt, 1))
	case 1: // recover, maybe rewriting named results
		g.feat("recover")
		g.w("defer func() {")
		g.w("\tif e := recover(); e != nil {")
		if named != nil {
			for i, n := range named {
				if res[i] == tInt && g.chance(70) {
					g.w("\t\t%s = %s*2 + 1", n, n)
					g.feat("recover-named-result")
				}
			}
		}
		g.w("\t\t_, isErr := e.(error)")
		g.w("\t\ttrace(%d, b2i(isErr))", g.id())
		g.w("\t}")
		g.w("}()")
	case 2: // closure reading/mutating locals and named results after return
		g.w("defer func() {")
		g.push()
		g.ind++
		if named != nil {
			for i, n := range named {
				if res[i] == tInt && g.chance(60) {
					g.w("%s += %s", n, g.expr(tInt, 1))
					g.feat("defer-writes-result")
				}
			}
		}
		g.traceStmt()
		g.ind--
		g.pop()
		g.w("}()")
	default:
		if f := g.pick(tFn); f != nil {
			g.w("defer callF(%s, %s)", f.name, g.expr(tInt, 1))
		} else if s := g.pick(tPS); s != nil {
			g.w("defer %s.Add(%s)", s.name, g.expr(tInt, 1))
		} else {
			g.w("defer trace(%d)", g.id())
		}
	}
}

// idioms that lifting must get right

func (g *fg) escapeOnPath(d int) {
	g.feat("escape-on-some-paths")
	x, q := g.fresh("x"), g.fresh("q")
	g.w("%s := %s", x, g.expr(tInt, 1))
	g.w("var %s *int", q)
	g.declare(x, tInt)
	g.declare(q, tPtr)
	g.w("%s += %s", x, g.expr(tInt, 1))
	g.w("if (%s) {", g.boolExpr(1))
	g.w("\t%s = &%s", q, x)
	if g.chance(50) {
		g.noHoist++
		ec := g.boolExpr(1)
		g.noHoist--
		g.w("} else if (%s) {", ec)
		g.w("\t%s++", x)
	}
	g.w("}")
	g.w("%s = %s*3 + 1", x, x)
	if g.budget > 0 {
		g.stmt(d - 1)
	}
	g.w("if %s != nil {", q)
	g.w("\t*%s += 10", q)
	g.w("}")
	g.w("trace(%d, %s)", g.id(), x)
}

func (g *fg) loopVarEscape(d int) {
	g.feat("loopvar-escape")
	n := g.fresh("n")
	g.w("%s := %s & 3", n, g.intVar(tInt))
	g.declare(n, tInt)
	i := g.fresh("i")
	switch g.rng.IntN(3) {
	case 0:
		fs := g.fresh("fs")
		g.w("var %s []func() int", fs)
		g.w("for %s := 0; %s < %s; %s++ {", i, i, n, i)
		g.w("\t%s = append(%s, func() int { %s += 10; return %s })", fs, fs, i, i)
		if g.chance(50) {
			g.w("\t%s += %s & 1", i, g.intVar(tInt))
		}
		g.w("}")
		g.w("for _, f := range %s {", fs)
		g.w("\ttrace(%d, f(), f())", g.id())
		g.w("}")
	case 1:
		ps := g.fresh("ps")
		g.w("var %s []*int", ps)
		g.w("for %s := 0; %s < %s; %s++ {", i, i, n, i)
		g.w("\tif %s != 1 {", i)
		g.w("\t\t%s = append(%s, &%s)", ps, ps, i)
		g.w("\t}")
		g.w("}")
		g.w("for _, p := range %s {", ps)
		g.w("\t*p += 5")
		g.w("\ttrace(%d, *p)", g.id())
		g.w("}")
	default:
		ps := g.fresh("ps")
		g.w("var %s []*int", ps)
		g.w("for %s, e := range []int{%s, 4, %s}[:%s] {", i, g.intVar(tInt), g.intVar(tInt), n)
		g.w("\t%s = append(%s, &e, &%s)", ps, ps, i)
		g.w("}")
		g.w("for _, p := range %s {", ps)
		g.w("\ttrace(%d, *p)", g.id())
		g.w("}")
	}
}

func (g *fg) closureStmt(d int) {
	g.feat("closure")
	x := g.pickAssignable(tInt)
	if x == nil || g.depthLit >= 2 {
		g.traceStmt()
		return
	}
	f := g.fresh("f")
	g.feat("closure-mutates-capture")
	g.w("%s := func() { %s %s %s }", f, x.name, []string{"+=", "-=", "^="}[g.rng.IntN(3)], g.expr(tInt, 1))
	g.w("%s()", f)
	if g.budget > 0 {
		g.stmt(d - 1)
	}
	g.w("%s()", f)
	g.w("trace(%d, %s)", g.id(), x.name)
}

func (g *fg) callStmt(d int) {
	switch g.rng.IntN(6) {
	case 0:
		if len(g.p.funcs) > 0 {
			g.w("%s", g.callOf(g.p.funcs[g.rng.IntN(len(g.p.funcs))], d))
			return
		}
	case 1:
		if i := g.pick(tI); i != nil {
			g.feat("iface-call")
			g.w("if %s != nil {", i.name)
			g.w("\ttrace(%d, %s.M(%s))", g.id(), i.name, g.expr(tInt, 1))
			g.w("}")
			return
		}
	case 2:
		if s := g.pick(tS); s != nil {
			g.feat("method-call")
			g.w("%s.Add(%s)", s.name, g.expr(tInt, 1)) // pointer receiver on addressable local
			return
		}
	case 3:
		g.feat("generic-call")
		gn := g.fresh("gv")
		t := []ty{tInt, tI8, tStr}[g.rng.IntN(3)]
		g.w("var %s G[%s]", gn, tyName[t])
		g.w("%s.Set(%s)", gn, g.expr(t, 1))
		g.w("%s.Set(%s.Get())", gn, gn)
		if t == tStr {
			g.w("trace(%d, %s.n, hs(%s.Get()))", g.id(), gn, gn)
		} else {
			g.w("trace(%d, %s.n, int(%s.Get()))", g.id(), gn, gn)
		}
		return
	case 5:
		switch g.rng.IntN(3) {
		case 0: // promoted fields and methods through an embedded struct, invoked through an interface
			g.feat("embedded-promotion")
			w := g.fresh("w")
			g.w("var %s W", w)
			g.w("%s.a = %s", w, g.expr(tInt, 1))
			g.w("%s.Add(%s)", w, g.expr(tInt, 1))
			g.w("var %si interface{ Sum() int } = %s", w, w)
			g.w("%s.extra = %s.Sum() + %si.Sum()", w, w, w)
			g.w("trace(%d, %s.extra, %s.b)", g.id(), w, w)
			return
		case 1: // recursion
			g.feat("recursion")
			g.w("trace(%d, rec(%s&7, %s))", g.id(), g.intVar(tInt), g.leaf(tPtr))
			return
		default: // closure that returns a closure with its own state
			g.feat("closure")
			c := g.fresh("ctr")
			g.w("%s := counter(%s)", c, g.expr(tInt, 1))
			g.w("%s()", c)
			g.w("trace(%d, %s(), %s())", g.id(), c, c)
			return
		}
	case 4:
		g.feat("generic-call")
		g.w("trace(%d, sum(gmap(%s, func(v int) int { return v + %s })))", g.id(), g.expr(tSl, 1), g.intVar(tInt))
		return
	}
	g.traceStmt()
}

func (g *fg) stmt(d int) {
	g.budget--
	g.rawUsed = false
	if d <= 0 {
		if g.chance(60) {
			g.assignStmt(1)
		} else {
			g.traceStmt()
		}
		return
	}
	switch k := g.rng.IntN(100); {
	case k < 22:
		g.assignStmt(2)
	case k < 30:
		g.newVarStmt(2)
	case k < 36:
		g.traceStmt()
	case k < 46:
		g.ifStmt(d)
	case k < 53:
		g.switchStmt(d)
	case k < 57:
		g.typeSwitchStmt(d)
	case k < 68:
		g.loopStmt(d, "")
	case k < 71:
		g.gotoStmt(d)
	case k < 75:
		g.deferStmt(d)
	case k < 79:
		g.escapeOnPath(d)
	case k < 82:
		g.loopVarEscape(d)
	case k < 85:
		g.closureStmt(d)
	case k < 89:
		g.callStmt(d)
	case k < 92:
		g.multiAssign(2)
	case k < 95:
		g.shadowStmt(d)
	case k < 97:
		if g.chance(50) {
			g.w("if (%s) {", g.boolExpr(1))
			g.ind++
			g.returnStmt()
			g.ind--
			g.w("}")
		} else {
			g.w("if (%s) {", g.boolExpr(1))
			switch g.rng.IntN(3) {
			case 0:
				g.w("\tpanic(%s)", g.intVar(tInt))
			case 1:
				g.w("\tpanic(%s)", g.leafNonNil(tStr))
			default:
				g.w("\tpanic(E(%s))", g.intVar(tInt))
			}
			g.w("}")
			g.feat("explicit-panic")
		}
	case k < 98:
		g.w("{")
		g.block(d-1, 2)
		g.w("}")
	default:
		if g.loops > 0 && g.chance(50) {
			g.w("if (%s) {", g.boolExpr(1))
			g.w("\t%s", []string{"break", "continue"}[g.rng.IntN(2)])
			g.w("}")
		} else {
			g.traceStmt()
		}
	}
}
