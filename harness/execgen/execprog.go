package execgen

import (
	"fmt"
	"math/rand/v2"
	"sort"
	"strings"

	cfg "verif/gen"
)

const sourcePrelude = `package main

var traceLog []int
var fuel int
var g0 int
var g1 []int
var g2 string
var g3 [4]int
var g4 uint8

func trace(id int, vs ...int) {
	traceLog = append(traceLog, id)
	traceLog = append(traceLog, vs...)
}

func burn() bool { fuel--; return fuel < 0 }

func resetGlobals() {
	traceLog = nil
	fuel = 400
	g0 = 0
	g1 = nil
	g2 = ""
	g3 = [4]int{}
	g4 = 0
}

type S struct {
	a, b int
	p    *int
	s    []int
}

func (s *S) Add(x int) int { s.a += x; s.b++; return s.a }
func (s S) Sum() int       { return s.a + s.b }

type I interface{ M(int) int }

type T1 struct{ k int }

type T2 struct {
	k int
	n *int
}

type E int

func (e E) Error() string { return "E" }

type Num interface {
	~int | ~int8 | ~int64 | ~uint8 | ~uint | ~uint32
}

func gmax[T Num](a, b T) T {
	if a < b {
		return b
	}
	return a
}

func gsum[T Num](s []T) (r T) {
	for _, v := range s {
		r += v
	}
	return
}

func gmap[T, U any](s []T, f func(T) U) []U {
	var out []U
	for _, v := range s {
		out = append(out, f(v))
	}
	return out
}

func gkind[T any](v T) int {
	switch x := any(v).(type) {
	case int:
		return x&7 + 10
	case string:
		return len(x) + 20
	case int8:
		return int(x) + 30
	case bool:
		return 40
	}
	return 50
}

type G[T any] struct {
	v T
	n int
}

func (g *G[T]) Set(v T) { g.v = v; g.n++ }
func (g G[T]) Get() T   { return g.v }

func seq(n int) func(func(int) bool) {
	return func(yield func(int) bool) {
		for i := 0; i < n; i++ {
			if burn() || !yield(i*2+1) {
				return
			}
		}
	}
}

func seq2(s []int) func(func(int, int) bool) {
	return func(yield func(int, int) bool) {
		for i, v := range s {
			if burn() || !yield(i, v) {
				return
			}
		}
	}
}

func idx(i, n int) int {
	if n <= 0 {
		return 0
	}
	i %= n
	if i < 0 {
		i += n
	}
	return i
}

func b2i(b bool) int {
	if b {
		return 1
	}
	return 0
}

func hs(s string) int {
	h := 7
	for i := 0; i < len(s); i++ {
		h = h*31 + int(s[i])
		h &= 0xffff
	}
	return h
}

func slen(s string) int { return len(s) }

func sum(s []int) (t int) {
	for _, v := range s {
		t += v
	}
	return t
}

func msum(m map[int]int) (t int) {
	for k, v := range m {
		t += k*3 + v
	}
	return t
}

func deref(p *int) int {
	if p == nil {
		return -99
	}
	return *p
}

func derefS(p *S) S {
	if p == nil {
		return S{a: -1}
	}
	return *p
}

func psa(p *S) int {
	if p == nil {
		return -98
	}
	return p.a + p.b
}

func psk(p *T2) int {
	if p == nil {
		return -97
	}
	return p.k
}

func callM(i I, x int) int {
	if i == nil {
		return -96
	}
	return i.M(x)
}

func callF(f func(int) int, x int) int {
	if f == nil {
		return -95
	}
	return f(x)
}

func bindM(i I) func(int) int {
	if i == nil {
		return nil
	}
	return i.M
}

func bindAdd(p *S) func(int) int {
	if p == nil {
		return nil
	}
	return p.Add
}

func asInt(a any) int {
	switch v := a.(type) {
	case int:
		return v
	case uint8:
		return int(v)
	case int8:
		return int(v)
	}
	return -94
}

func asStr(a any) string {
	if s, ok := a.(string); ok {
		return s
	}
	return "?"
}

func twice(x int) int { return x * 2 }

type W struct {
	S
	extra int
}

func rec(n int, p *int) int {
	if n <= 0 || burn() {
		return deref(p)
	}
	if p != nil {
		*p += n
	}
	x := n
	r := rec(n-1, &x) + rec(n-2, p)
	return r + x
}

func counter(start int) func() int {
	c := start
	return func() int {
		c += 2
		return c
	}
}

func divmod(a, b int) (int, int) {
	if b == 0 {
		return 0, a
	}
	return a / b, a % b
}

`

func newFg(p *pg) *fg {
	g := &fg{p: p, rng: p.rng, feats: map[string]bool{}}
	g.push()
	return g
}

// methodBody generates "M" for T1 (value receiver) or T2 (pointer receiver).
func (p *pg) methodBody(ptr bool) string {
	g := newFg(p)
	g.noDefer = true
	g.budget = 4
	g.ind = 1
	g.results = [][]ty{{tInt}}
	g.named = [][]string{nil}
	g.declare("x", tInt)
	g.w("k := t.k")
	g.w("_ = k")
	g.declare("k", tInt)
	if ptr {
		g.w("if t.n != nil {")
		g.w("\t*t.n += x")
		g.w("}")
	}
	for i := 0; i < 2; i++ {
		g.stmt(1)
	}
	if ptr {
		g.w("t.k = k + x&3")
	}
	g.w("return %s", g.expr(tInt, 2))
	if ptr {
		return "func (t *T2) M(x int) int {\n" + g.b.String() + "}\n\n"
	}
	return "func (t T1) M(x int) int {\n" + g.b.String() + "}\n\n"
}

func (p *pg) genFunc(name string) (string, FuncInfo, sigInfo) {
	g := newFg(p)
	rng := p.rng
	np := 1 + rng.IntN(4)
	var params []ty
	params = append(params, tInt)
	for i := 1; i < np; i++ {
		params = append(params, argTys[rng.IntN(len(argTys))])
	}
	nr := []int{0, 1, 1, 1, 2, 2, 3}[rng.IntN(7)]
	var results []ty
	for i := 0; i < nr; i++ {
		results = append(results, resTys[rng.IntN(len(resTys))])
	}
	if nr >= 1 && rng.IntN(2) == 0 {
		results[0] = tInt
	}
	namedRes := nr > 0 && rng.IntN(2) == 0
	var named []string

	var ps, rs []string
	pnames := []string{"a", "b", "c", "d"}
	for i, t := range params {
		ps = append(ps, pnames[i]+" "+tyName[t])
		g.declare(pnames[i], t)
	}
	for i, t := range results {
		if namedRes {
			n := fmt.Sprintf("r%d", i)
			named = append(named, n)
			rs = append(rs, n+" "+tyName[t])
			g.declare(n, t)
		} else {
			rs = append(rs, tyName[t])
		}
	}
	g.results = [][]ty{results}
	g.named = [][]string{named}
	g.ind = 1
	g.budget = p.o.StmtBudget

	zeros := make([]string, len(results))
	for i, t := range results {
		zeros[i] = zeroLit(t)
	}
	g.w("if burn() {")
	g.w("\treturn %s", strings.Join(zeros, ", "))
	g.w("}")
	// a few locals so that every type is available
	g.w("x, y := a, %s", g.lit(tInt))
	g.w("_, _ = x, y")
	g.declare("x", tInt)
	g.declare("y", tInt)
	for _, t := range []ty{tSl, tArr, tPtr, tS, tPS, tI, tAny, tFn, tMap, tStr, tI8, tU8, tUint, tBool} {
		if rng.IntN(100) < 35 {
			n := g.fresh("l")
			g.w("var %s %s = %s", n, tyName[t], g.expr(t, 1))
			g.w("_ = %s", n)
			g.declare(n, t)
		}
	}
	if rng.IntN(100) < 30 {
		n := g.fresh("acc")
		g.w("var %s []int", n)
		g.w("_ = %s", n)
		g.declare(n, tSl).acc = true
	}
	if rng.IntN(100) < 35 {
		g.deferStmt(2)
	}
	for g.budget > 0 {
		g.stmt(3)
	}
	if a := g.pickAcc(); a != nil {
		g.w("trace(%d, sum(%s), len(%s))", g.id(), a.name, a.name)
	}
	g.returnStmt()

	var b strings.Builder
	fmt.Fprintf(&b, "func %s(%s)", name, strings.Join(ps, ", "))
	switch {
	case len(rs) == 1 && !namedRes:
		b.WriteString(" " + rs[0])
	case len(rs) > 0:
		b.WriteString(" (" + strings.Join(rs, ", ") + ")")
	}
	b.WriteString(" {\n" + g.b.String() + "}\n\n")

	fi := FuncInfo{Name: name}
	for _, t := range params {
		fi.ParamTypes = append(fi.ParamTypes, tyName[t])
	}
	for _, t := range results {
		fi.ResultTypes = append(fi.ResultTypes, tyName[t])
	}
	for f := range g.feats {
		fi.Features = append(fi.Features, f)
	}
	sort.Strings(fi.Features)
	fi.Vectors = Vectors(rng, fi.ParamTypes, p.o.MaxVectors)
	return b.String(), fi, sigInfo{name, params, results}
}

func execProgram(rng *rand.Rand, o ExecOpts) *Program {
	if o.Funcs == 0 {
		o.Funcs = 24
	}
	if o.CFGFuncs == 0 {
		o.CFGFuncs = 4
	}
	if o.MaxVectors == 0 {
		o.MaxVectors = 10
	}
	if o.StmtBudget == 0 {
		o.StmtBudget = 14
	}
	p := &pg{rng: rng, o: o, nextID: 1000}
	var b strings.Builder
	b.WriteString(sourcePrelude)
	b.WriteString(p.methodBody(false))
	b.WriteString(p.methodBody(true))
	prog := &Program{}
	for i := 0; i < o.Funcs; i++ {
		src, fi, sig := p.genFunc(fmt.Sprintf("F%d", i))
		b.WriteString(src)
		prog.Funcs = append(prog.Funcs, fi)
		if len(p.funcs) < 8 || rng.IntN(2) == 0 {
			p.funcs = append(p.funcs, sig)
		}
	}
	for i := 0; i < o.CFGFuncs; i++ {
		name := fmt.Sprintf("C%d", i)
		co := cfg.CFGOpts{Blocks: 3 + rng.IntN(12), Recover: rng.IntN(3) == 0, Panics: rng.IntN(3) == 0, PtrFlow: rng.IntN(2) == 0, Switches: rng.IntN(2) == 0}
		b.WriteString(cfg.CFGFunc(rng, name, co))
		b.WriteString("\n")
		fi := FuncInfo{Name: name, ParamTypes: []string{"int", "int", "*int", "[]int"}, ResultTypes: []string{"int"}, Features: []string{"cfg-goto"}}
		fi.Vectors = Vectors(rng, fi.ParamTypes, o.MaxVectors)
		prog.Funcs = append(prog.Funcs, fi)
	}
	prog.Source = b.String()
	prog.Globals = []GlobalInfo{{"g0", "int"}, {"g1", "[]int"}, {"g2", "string"}, {"g3", "[4]int"}, {"g4", "uint8"}}
	prog.Driver = ExecDriver(prog.Funcs, prog.Globals)
	return prog
}
