package c16

import (
	"bytes"
	"fmt"
	"os"
	"path/filepath"
	"regexp"
	"sort"
	"strings"
)

// tdDir is one analyzer testdata tree (<check>/testdata/go1.N).
type tdDir struct {
	dir, vers, check string
	rel              string // relative to the repository
}

func testdataDirs(list [][2]string) []tdDir {
	var out []tdDir
	for _, d := range list {
		rel, _ := filepath.Rel(repoDir, d[0])
		out = append(out, tdDir{dir: d[0], vers: d[1], check: filepath.Base(filepath.Dir(filepath.Dir(d[0]))), rel: rel})
	}
	return out
}

// wsFile is one Go file of a merged workspace, as handed to a rewrite.
type wsFile struct {
	check string // analyzer directory name, e.g. s1002
	rel   string // path below the testdata tree
}

// wsLayer is one copy of (a subset of) the testdata trees inside a workspace:
// the unmodified trees ("base") or one variant ("v3").
type wsLayer struct {
	name    string
	dirs    []tdDir
	rewrite func(f wsFile, src []byte) []byte // nil: verbatim
}

// buildWorkspace copies testdata trees into scratch modules, one module per
// Go version (dst/<vers>/go.mod says `go <vers>`, exactly the version the
// repository's own test helper puts into its synthetic go.mod) with every
// tree below <module>/<layer>/<check>/. In-tree imports of example.com/X are
// redirected to example.com/<layer>/<check>/X; vendor directories are merged
// at the module root (the helper's -mod=vendor environment is kept). A
// layer's rewrite transforms every non-vendored Go file. One load of the real
// runner per module then covers all layers. It returns the module directories
// by version, sorted.
func buildWorkspace(dst string, layers []wsLayer) ([][2]string, error) {
	vers := map[string]bool{}
	for _, layer := range layers {
		if err := buildLayer(dst, layer, vers); err != nil {
			return nil, err
		}
	}
	var out [][2]string
	for v := range vers {
		out = append(out, [2]string{v, filepath.Join(dst, v)})
	}
	sort.Slice(out, func(i, j int) bool { return out[i][0] < out[j][0] })
	return out, nil
}

func buildLayer(dst string, layer wsLayer, vers map[string]bool) error {
	rewrite := layer.rewrite
	for _, d := range layer.dirs {
		mod := filepath.Join(dst, d.vers)
		if !vers[d.vers] {
			vers[d.vers] = true
			if err := os.MkdirAll(mod, 0o755); err != nil {
				return err
			}
			if err := os.WriteFile(filepath.Join(mod, "go.mod"), []byte("module example.com\ngo "+d.vers+"\n"), 0o644); err != nil {
				return err
			}
		}
		err := filepath.Walk(d.dir, func(p string, fi os.FileInfo, err error) error {
			if err != nil {
				return err
			}
			rel, _ := filepath.Rel(d.dir, p)
			if fi.IsDir() {
				return nil
			}
			if strings.HasSuffix(p, ".golden") || rel == "go.mod" {
				return nil
			}
			b, err := os.ReadFile(p)
			if err != nil {
				return err
			}
			vendored := strings.HasPrefix(rel, "vendor"+string(filepath.Separator))
			target := filepath.Join(mod, layer.name, d.check, rel)
			if vendored {
				target = filepath.Join(mod, rel)
			}
			if strings.HasSuffix(p, ".go") && !vendored {
				b = bytes.ReplaceAll(b, []byte(`"example.com/`), []byte(`"example.com/`+layer.name+`/`+d.check+`/`))
				if rewrite != nil {
					b = rewrite(wsFile{check: d.check, rel: rel}, b)
				}
			}
			if err := os.MkdirAll(filepath.Dir(target), 0o755); err != nil {
				return err
			}
			return os.WriteFile(target, b, 0o644)
		})
		if err != nil {
			return fmt.Errorf("copying %s: %v", d.dir, err)
		}
	}
	return nil
}

var layerRE = regexp.MustCompile(`example\.com/([^/ \]]+)`)

// layerOf extracts the layer name from a package ID of a workspace module and
// returns the ID with the layer abstracted away.
func layerOf(id string) (layer, generic string) {
	m := layerRE.FindStringSubmatch(id)
	if m == nil {
		return "", id
	}
	return m[1], layerRE.ReplaceAllString(id, "example.com/*")
}
