package c16

import (
	"os"
	"testing"

	"verif/vf"
)

func TestDump(t *testing.T) {
	r := vf.Start("C16", "exploration")
	p := genProgram(r, 0, 2)
	os.MkdirAll("/var/tmp/c16dev/p0", 0o755)
	os.WriteFile("/var/tmp/c16dev/p0/prog.go", []byte(p.prog), 0o644)
	os.WriteFile("/var/tmp/c16dev/p0/main.go", []byte(p.main), 0o644)
	os.WriteFile("/var/tmp/c16dev/p0/go.mod", []byte("module c16beh\n\ngo 1.22\n"), 0o644)
}
