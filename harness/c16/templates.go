package c16

import (
	"fmt"
	"math/rand/v2"
	"strings"
)

// Behavioural templates (monitor C). Every template instantiates the trigger
// shape of one S*/QF* check inside a function
//
//	func F_<check>_<n>(in In) (out []interface{})
//
// with random sub-expressions. Side-effecting sub-expressions are calls of
// tr/trb/trs/… which append (id, value) to the global trace log and return
// their argument: evaluation order and multiplicity are observable.

type gen struct {
	rng  *rand.Rand
	nid  int
	inst int // running number of this instance of its template: small option spaces are enumerated, not sampled
}

func (g *gen) id() int { g.nid++; return g.nid }

func (g *gen) pick(xs ...string) string { return xs[g.rng.IntN(len(xs))] }

// se reports whether the next sub-expression should have a side effect.
func (g *gen) se() bool { return g.rng.IntN(2) == 0 }

func (g *gen) pureInt() string {
	switch g.rng.IntN(8) {
	case 0:
		return "a"
	case 1:
		return "b"
	case 2:
		return "c"
	case 3:
		return fmt.Sprint(g.rng.IntN(5))
	case 4:
		return "a + b"
	case 5:
		return "len(s)"
	case 6:
		return "b - 1"
	default:
		return "c % 3"
	}
}

func (g *gen) Int() string {
	if g.se() {
		return fmt.Sprintf("tr(%d, %s)", g.id(), g.pureInt())
	}
	return g.pureInt()
}

func (g *gen) seInt() string { return fmt.Sprintf("tr(%d, %s)", g.id(), g.pureInt()) }

func (g *gen) pureBool() string {
	switch g.rng.IntN(7) {
	case 0:
		return "p"
	case 1:
		return "q"
	case 2:
		return "a < b"
	case 3:
		return "s == t"
	case 4:
		return "!p"
	case 5:
		return "a == 0"
	default:
		return "b >= c"
	}
}

func (g *gen) Bool() string {
	if g.se() {
		return fmt.Sprintf("trb(%d, %s)", g.id(), g.pureBool())
	}
	return g.pureBool()
}

func (g *gen) seBool() string { return fmt.Sprintf("trb(%d, %s)", g.id(), g.pureBool()) }

func (g *gen) pureStr() string {
	switch g.rng.IntN(6) {
	case 0:
		return "s"
	case 1:
		return "t"
	case 2:
		return `"b"`
	case 3:
		return "s + t"
	case 4:
		return `"x" + s`
	default:
		return `""`
	}
}

func (g *gen) Str() string {
	if g.se() {
		return fmt.Sprintf("trs(%d, %s)", g.id(), g.pureStr())
	}
	return g.pureStr()
}

func (g *gen) Bytes() string {
	if g.se() {
		return fmt.Sprintf("trbs(%d, []byte(%s))", g.id(), g.pureStr())
	}
	return fmt.Sprintf("[]byte(%s)", g.pureStr())
}

func (g *gen) Ints() string {
	e := g.pick("xs", "ys", "in.Xs", "[]int{1, 2, 3}", "xs[:0]")
	if g.se() {
		return fmt.Sprintf("trxs(%d, %s)", g.id(), e)
	}
	return e
}

func (g *gen) pureFloat() string {
	return g.pick("f", "f + 1", "float64(a)", "2.5", "f * 0.5")
}

func (g *gen) Float() string {
	if g.se() {
		return fmt.Sprintf("trf(%d, %s)", g.id(), g.pureFloat())
	}
	return g.pureFloat()
}

// note appends an observation of e to the function's result.
func note(e string) string { return "out = append(out, " + e + ")\n" }

type template struct {
	check     string
	noCompare string // non-empty: compiled but not compared, with the reason
	// outside, if set, says that a call lies outside the stated precondition of
	// the rewrite, judged by the record of the unfixed function (such records
	// are counted, not compared)
	outside func(before record) bool
	gen     func(g *gen) string
}

// The loop-to-copy rewrites (S1001, S1018) presuppose a loop that stays within
// the bounds of both slices: copy() truncates where the loop panics half-way.
// Calls on which the unfixed loop itself dies with an index error are outside
// that precondition. (A fix that makes a call panic which did not panic before
// is inside it and is reported.)
func loopIndexPanics(before record) bool {
	return strings.Contains(before.panicS, "index out of range")
}

var templates = []template{
	{check: "S1001", outside: loopIndexPanics, gen: func(g *gen) string {
		src := g.pick("xs", "in.Xs", "ys")
		dst := "dst"
		pre := fmt.Sprintf("dst := make([]int, len(%s)+%d)\n", src, g.rng.IntN(3))
		if g.rng.IntN(4) == 0 {
			pre = "dst := make([]int, " + g.Int() + "&3)\n" // possibly too short
		}
		var loop string
		switch g.rng.IntN(3) {
		case 0:
			loop = fmt.Sprintf("for i, v := range %s {\n\t%s[i] = v\n}\n", src, dst)
		case 1:
			loop = fmt.Sprintf("for i := range %s {\n\t%s[i] = %s[i]\n}\n", src, dst, src)
		default:
			loop = fmt.Sprintf("for i := 0; i < len(%s); i++ {\n\t%s[i] = %s[i]\n}\n", src, dst, src)
		}
		return pre + note(g.Int()) + loop + note(g.Int()) + note("dst")
	}},
	{check: "S1002", gen: func(g *gen) string {
		other := g.Bool()
		if g.rng.IntN(4) == 0 {
			other = g.pick("a < b", "!p", "!!q", "trb(99, p) || q", "s != t")
		}
		k := g.pick("true", "false")
		op := g.pick("==", "!=")
		e := other + " " + op + " " + k
		if g.rng.IntN(3) == 0 && !strings.ContainsAny(other, "<|=") {
			e = k + " " + op + " " + other
		}
		switch g.rng.IntN(3) {
		case 0:
			return "if " + e + " {\n" + note(g.Int()) + "}\n" + note(g.Bool())
		case 1:
			return note(e+" && "+g.Bool()) + note(g.Int())
		default:
			return note(g.Bool()+" || "+e) + note(e)
		}
	}},
	{check: "S1003", gen: func(g *gen) string {
		cmp := g.pick("!= -1", "> -1", ">= 0", "== -1", "< 0")
		var call string
		switch g.rng.IntN(5) {
		case 0:
			call = fmt.Sprintf("strings.Index(%s, %s)", g.Str(), g.Str())
		case 1:
			call = fmt.Sprintf("strings.IndexAny(%s, %s)", g.Str(), g.Str())
		case 2:
			call = fmt.Sprintf("strings.IndexRune(%s, rune(%s))", g.Str(), g.Int())
		case 3:
			call = fmt.Sprintf("bytes.Index(%s, %s)", g.Bytes(), g.Bytes())
		default:
			call = fmt.Sprintf("bytes.IndexAny(%s, %s)", g.Bytes(), g.Str())
		}
		e := call + " " + cmp
		if g.rng.IntN(2) == 0 {
			return "if " + g.Bool() + " && " + e + " {\n" + note(g.Int()) + "}\n"
		}
		return note(e) + note(g.Int())
	}},
	{check: "S1004", gen: func(g *gen) string {
		e := fmt.Sprintf("bytes.Compare(%s, %s) %s 0", g.Bytes(), g.Bytes(), g.pick("==", "!="))
		if g.rng.IntN(2) == 0 {
			return note(g.Bool()+" || "+e) + note(g.Int())
		}
		return note("!(" + e + ")")
	}},
	{check: "S1005", gen: func(g *gen) string {
		switch g.rng.IntN(4) {
		case 0:
			return "for i, _ := range " + g.Ints() + " {\n" + note("i+"+g.Int()) + "}\n"
		case 1:
			return "n := 0\nfor _ = range " + g.Ints() + " {\nn += " + g.Int() + "\n}\n" + note("n")
		case 2:
			return "ch := make(chan int, 1)\nch <- " + g.Int() + "\n_ = <-ch\n" + note(g.Int())
		default:
			return "ch := make(chan int, 1)\nch <- " + g.Int() + "\nv, _ := <-ch\n" + note("v")
		}
	}},
	{check: "S1010", gen: func(g *gen) string {
		if g.rng.IntN(2) == 0 {
			return note("xs["+g.Int()+":len(xs)]") + note(g.Int())
		}
		return note(g.Int()) + note("s["+g.Int()+":len(s)]")
	}},
	{check: "S1011", gen: func(g *gen) string {
		if g.rng.IntN(2) == 0 {
			return "var acc []int\n" + note(g.Int()) + "for _, v := range " + g.Ints() + " {\n\tacc = append(acc, v)\n}\n" + note("acc")
		}
		src := g.pick("xs", "ys", "in.Xs")
		return "acc := []int{" + g.Int() + "}\nfor i := range " + src + " {\n\tacc = append(acc, " + src + "[i])\n}\n" + note("acc")
	}},
	{check: "S1012", noCompare: "time.Now", gen: func(g *gen) string {
		return "t0 := time.Now()\n" + note(g.Int()) + "d := time.Now().Sub(t0)\n" + note("d >= 0")
	}},
	{check: "S1016", gen: func(g *gen) string {
		init := "v := pa{" + g.Int() + ", " + g.Int() + "}\n"
		if g.rng.IntN(2) == 0 {
			return init + "w := pb{v.X, v.Y}\n" + note("w") + note(g.Int())
		}
		return init + note("pb{X: v.X, Y: v.Y}") + note(g.Int())
	}},
	{check: "S1018", outside: loopIndexPanics, gen: func(g *gen) string {
		n := g.pick("len(xs) - 1", "len(xs) - off", g.Int(), "1")
		off := g.pick("1", "0", g.Int()+"&3", "2")
		return "off := " + off + "\nn := " + n + "\n_ = off\n" + note(g.Int()) +
			"for i := 0; i < n; i++ {\n\txs[i] = xs[off+i]\n}\n" + note("xs") + note(g.Int())
	}},
	{check: "S1021", gen: func(g *gen) string {
		switch g.rng.IntN(3) {
		case 0:
			return note(g.Int()) + "var x int\nx = " + g.Int() + " + " + g.Int() + "\n" + note("x")
		case 1:
			return "var x string\nx = " + g.Str() + "\n" + note("x+"+g.Str())
		default:
			return "var x interface{}\nx = " + g.Int() + "\n" + note("x")
		}
	}},
	{check: "S1024", noCompare: "time.Now", gen: func(g *gen) string {
		return "t1 := time.Now().Add(time.Hour)\n" + note(g.Int()) + "d := t1.Sub(time.Now())\n" + note("d > 0")
	}},
	{check: "S1025", gen: func(g *gen) string {
		switch g.inst % 8 { // enumerated, not sampled
		case 5, 6, 7:
			// the cross product underlying type x method set: what %s prints is
			// decided by Formatter > error > Stringer > underlying value
			typ := []string{"nerr", "berr", "nstr", "nfmt", "nboth", "bstr", "bplain"}[g.inst%7]
			arg := "(" + g.Str() + ")"
			if typ[0] == 'b' {
				arg = "(" + g.Bytes() + ")"
			}
			if g.rng.IntN(2) == 0 {
				return "tv := " + typ + arg + "\n" + note(`fmt.Sprintf("%s", tv)`) + note(g.Int())
			}
			return note(`fmt.Sprintf("%s", `+typ+arg+`)`) + note(g.Int())
		case 0:
			return note(`fmt.Sprintf("%s", `+g.Str()+`)`) + note(g.Int())
		case 1:
			return "ns := named(" + g.Str() + ")\n" + note(`fmt.Sprintf("%s", ns)`)
		case 2:
			return "st := strg{" + g.Int() + "}\n" + note(`fmt.Sprintf("%s", st)`) + note(g.Int())
		case 3:
			return note(`fmt.Sprintf("%s", ` + g.Bytes() + `)`)
		default:
			return "eb := errstr{" + g.Int() + "}\n" + note(`fmt.Sprintf("%s", eb)`)
		}
	}},
	{check: "S1028", gen: func(g *gen) string {
		return "err := errors.New(fmt.Sprintf(\"e%d:%s:%v\", " + g.Int() + ", " + g.Str() + ", " + g.Bool() + "))\n" + note("err.Error()") + note(g.Int())
	}},
	{check: "S1030", gen: func(g *gen) string {
		pre := "var buf bytes.Buffer\nbuf.WriteString(" + g.Str() + ")\n"
		if g.rng.IntN(2) == 0 {
			return pre + note("string(buf.Bytes())") + note(g.Int())
		}
		return pre + note("len([]byte(buf.String()))") + note(g.Int())
	}},
	{check: "S1033", gen: func(g *gen) string {
		key := g.Str()
		return "if _, ok := m[" + key + "]; ok {\n\tdelete(m, " + key + ")\n}\n" + note("len(m)") + note(g.Int())
	}},
	{check: "S1034", gen: func(g *gen) string {
		x := "x := in.I\n"
		switch g.rng.IntN(3) {
		case 0:
			return x + "switch x.(type) {\ncase int:\n" + note("x.(int) + "+g.Int()) + "case string:\n" + note("x.(string) + "+g.Str()) + "default:\n" + note(g.Int()) + "}\n"
		case 1:
			return x + "switch x.(type) {\ncase string:\n\tv := x.(string)\n" + note("v") + "case nil:\n" + note(g.Int()) + "}\n"
		default:
			return x + "switch x.(type) {\ncase int:\n\tv, ok := x.(int)\n" + note("v") + note("ok") + "case string:\n" + note("len(x.(string))") + "}\n"
		}
	}},
	{check: "S1035", gen: func(g *gen) string {
		pre := "h := http.Header{}\nh.Set(\"X-Abc\", \"1\")\n"
		switch g.rng.IntN(3) {
		case 0:
			return pre + note("h.Get(http.CanonicalHeaderKey("+g.Str()+"))") + note(g.Int())
		case 1:
			return pre + "h.Set(http.CanonicalHeaderKey(" + g.Str() + "), " + g.Str() + ")\n" + note("len(h)") + note(`h.Get("x-abc")`)
		default:
			return pre + "h.Del(http.CanonicalHeaderKey(" + g.pick(`"x-abc"`, "s", `trs(77, "X-ABC")`) + "))\n" + note("len(h)")
		}
	}},
	{check: "S1036", gen: func(g *gen) string {
		key := g.pureStr()
		switch g.rng.IntN(3) {
		case 0:
			v := g.Int()
			return "if _, ok := m[" + key + "]; ok {\n\tm[" + key + "] += " + v + "\n} else {\n\tm[" + key + "] = " + v + "\n}\n" + note("m["+key+"]") + note("len(m)")
		case 1:
			return "if _, ok := m[" + key + "]; ok {\n\tm[" + key + "]++\n} else {\n\tm[" + key + "] = 1\n}\n" + note("m["+key+"]") + note(g.Int())
		default:
			v := g.Int()
			return "mm := map[string][]int{\"b\": {7}}\nif _, ok := mm[" + key + "]; ok {\n\tmm[" + key + "] = append(mm[" + key + "], " + v + ")\n} else {\n\tmm[" + key + "] = []int{" + v + "}\n}\n" + note("mm["+key+"]") + note("len(mm)")
		}
	}},
	{check: "S1037", noCompare: "time.After", gen: func(g *gen) string {
		return note(g.Int()) + "select {\ncase <-time.After(time.Duration(" + g.Int() + "&1) * time.Microsecond):\n}\n" + note(g.Int())
	}},
	{check: "S1039", gen: func(g *gen) string {
		lit := g.pick(`"abc"`, `"x y"`, "`raw\\n`", `"tab\t"`, `""`)
		return note("fmt."+g.pick("Sprint", "Sprintf")+"("+lit+") + "+g.Str()) + note(g.Int())
	}},
	{check: "QF1001", gen: func(g *gen) string {
		var e string
		switch g.rng.IntN(4) {
		case 0:
			e = "!(" + g.Bool() + " && " + g.Bool() + ")"
		case 1:
			e = "!(" + g.Bool() + " || " + g.Bool() + " || " + g.Bool() + ")"
		case 2:
			e = "!(" + g.Int() + " == " + g.Int() + " && (" + g.Bool() + " || " + g.Int() + " < " + g.Int() + "))"
		default:
			e = "!(!(" + g.Bool() + ") || " + g.Int() + " != " + g.Int() + " && " + g.Bool() + ")"
		}
		if g.rng.IntN(2) == 0 {
			return "if " + e + " {\n" + note(g.Int()) + "}\n" + note(g.Bool())
		}
		return note(e) + note(g.Int())
	}},
	{check: "QF1002", gen: func(g *gen) string {
		x := g.pick("a", "b", "xs[0]", "c")
		k := []int{0, 1, 2, 3, 4, 5}
		g.rng.Shuffle(len(k), func(i, j int) { k[i], k[j] = k[j], k[i] })
		c3 := fmt.Sprint(k[3])
		s := "switch {\n"
		s += fmt.Sprintf("case %s == %d:\n%s", x, k[0], note(g.Int()))
		s += fmt.Sprintf("case %s == %d || %s == %d, %s == %s:\n%s", x, k[1], x, k[2], x, c3, note(g.Int()))
		if g.rng.IntN(2) == 0 {
			s += "default:\n" + note(g.Int())
		}
		s += "}\n"
		return note(g.Int()) + s
	}},
	{check: "QF1003", gen: func(g *gen) string {
		x := g.pick("a", "b", "c", "xs[0]")
		k := []int{0, 1, 2, 3, 4}
		g.rng.Shuffle(len(k), func(i, j int) { k[i], k[j] = k[j], k[i] })
		s := fmt.Sprintf("if %s == %d || %s == %d {\n%s} else if %s == %d {\n%s", x, k[0], x, k[1], note(g.Int()), x, k[2], note(g.Int()))
		if g.rng.IntN(2) == 0 {
			s += "} else {\n" + note(g.Int())
		}
		s += "}\n"
		return s + note(g.Int())
	}},
	{check: "QF1004", gen: func(g *gen) string {
		switch g.rng.IntN(3) {
		case 0:
			return note("strings.Replace("+g.Str()+", "+g.Str()+", "+g.Str()+", -1)") + note(g.Int())
		case 1:
			return note("strings.SplitN(" + g.Str() + ", " + g.Str() + ", -1)")
		default:
			return note("string(bytes.Replace(" + g.Bytes() + ", " + g.Bytes() + ", " + g.Bytes() + ", -1))")
		}
	}},
	{check: "QF1005", gen: func(g *gen) string {
		// exponent x {pure, side-effecting base} is enumerated: the expansions for 0 and 1 drop
		// or keep the base once, those for 2 and 3 repeat it
		exp := []string{"0", "1", "2", "3"}[g.inst%4]
		base := g.pureFloat()
		if (g.inst/4)%2 == 1 {
			base = fmt.Sprintf("trf(%d, %s)", g.id(), g.pureFloat())
		}
		return note(g.Int()) + note("math.Pow("+base+", "+exp+")")
	}},
	{check: "QF1006", gen: func(g *gen) string {
		cond := g.pick("i >= "+g.pureInt(), "i > 2 || "+g.pureBool(), "trb("+fmt.Sprint(g.id())+", i >= 3)", "!(i < 2 && "+g.pureBool()+")")
		return "i := 0\nfor {\n\tif " + cond + " {\n\t\tbreak\n\t}\n\ti++\n\tif i > 6 {\n\t\tbreak\n\t}\n" + note("i+"+g.Int()) + "}\n" + note("i")
	}},
	{check: "QF1007", gen: func(g *gen) string {
		if g.rng.IntN(2) == 0 {
			return note(g.Int()) + "x := false\nif " + g.Bool() + " || " + g.Bool() + " {\n\tx = true\n}\n" + note("x")
		}
		return "x := true\nif " + g.Bool() + " && " + g.Bool() + " {\n\tx = false\n}\n" + note("x") + note(g.Int())
	}},
	{check: "QF1008", gen: func(g *gen) string {
		pre := "o := outer{inner{" + g.Int() + ", func() int { return tr(98, 5) }}}\n"
		switch g.rng.IntN(3) {
		case 0:
			return pre + note("o.inner.F1 + "+g.Int())
		case 1:
			return pre + note("o.inner.G() + "+g.Int())
		default:
			return "var po pouter\nif " + g.Bool() + " {\n\tpo.inner = &inner{F1: " + g.Int() + "}\n}\n" + note("po.inner.F1")
		}
	}},
	{check: "QF1009", noCompare: "== and Equal on time.Time differ by design", gen: func(g *gen) string {
		return "t0 := time.Unix(int64(" + g.Int() + "), 0)\nt1 := time.Unix(int64(" + g.Int() + "), 0).UTC()\n" + note("t0 == t1")
	}},
	{check: "QF1010", noCompare: "printing []byte vs string differs by design", gen: func(g *gen) string {
		return note("fmt.Sprint("+g.Bytes()+", "+g.Int()+")") + note(g.Int())
	}},
	{check: "QF1012", gen: func(g *gen) string {
		w := g.pick("buf", "w")
		pre := "var buf bytes.Buffer\nw := &tw{}\n_ = w\n"
		var call string
		switch g.rng.IntN(4) {
		case 0:
			call = w + ".Write([]byte(fmt.Sprintf(\"v=%d,%s\", " + g.Int() + ", " + g.Str() + ")))\n"
		case 1:
			call = w + ".WriteString(fmt.Sprint(" + g.Int() + ", " + g.Str() + "))\n"
		case 2:
			call = w + ".Write([]byte(fmt.Sprintln(" + g.Bool() + ", " + g.Int() + ")))\n"
		default:
			call = "n, err := " + w + ".WriteString(fmt.Sprintf(\"%v|%v\", " + g.Bool() + ", " + g.Str() + "))\n" + note("n") + note("err")
		}
		return pre + note(g.Int()) + call + note("buf.String()") + note("w.log")
	}},
}

// prelude is shared by every generated program (prog.go).
const prelude = `package main

import (
	"bytes"
	"errors"
	"fmt"
	"math"
	"net/http"
	"strings"
	"time"
)

var (
	_ = bytes.Equal
	_ = errors.New
	_ = fmt.Sprint
	_ = math.Pow
	_ = http.CanonicalHeaderKey
	_ = strings.Index
	_ = time.Now
)

var traceLog []int

func b2i(b bool) int {
	if b {
		return 1
	}
	return 0
}

func tr(id, v int) int             { traceLog = append(traceLog, id, v); return v }
func trb(id int, v bool) bool      { traceLog = append(traceLog, id, b2i(v)); return v }
func trf(id int, v float64) float64 { traceLog = append(traceLog, id, int(v)); return v }
func trs(id int, v string) string  { traceLog = append(traceLog, id, len(v)); return v }
func trbs(id int, v []byte) []byte { traceLog = append(traceLog, id, len(v)); return v }
func trxs(id int, v []int) []int   { traceLog = append(traceLog, id, len(v)); return v }

type In struct {
	A, B, C int
	S, T    string
	P, Q    bool
	Xs, Ys  []int
	M       map[string]int
	I       interface{}
	F       float64
}

type pa struct{ X, Y int }
type pb struct{ X, Y int }

type named string

type strg struct{ v int }

func (s strg) String() string { return fmt.Sprint("strg#", tr(97, s.v)) }

type errstr struct{ v int }

func (e errstr) String() string { return "as-stringer" }
func (e errstr) Error() string  { return "as-error" }

type nerr string

func (e nerr) Error() string { return "nerr-as-error" }

type berr []byte

func (e berr) Error() string { return "berr-as-error" }

type nstr string

func (e nstr) String() string { return "nstr-as-stringer" }

type bstr []byte

func (e bstr) String() string { return "bstr-as-stringer" }

type bplain []byte

type nboth string

func (e nboth) String() string { return "nboth-as-stringer" }
func (e nboth) Error() string  { return "nboth-as-error" }

type nfmt string

func (e nfmt) Format(f fmt.State, c rune) { f.Write([]byte("nfmt-as-formatter")) }

type inner struct {
	F1 int
	G  func() int
}
type outer struct{ inner }
type pouter struct{ *inner }

type tw struct{ log []string }

func (w *tw) Write(p []byte) (int, error) {
	traceLog = append(traceLog, 96, len(p))
	w.log = append(w.log, "W:"+string(p))
	return len(p), nil
}

// (Write and WriteString are indistinguishable, as io.StringWriter demands)
func (w *tw) WriteString(s string) (int, error) {
	traceLog = append(traceLog, 96, len(s))
	w.log = append(w.log, "W:"+s)
	return len(s), nil
}
`

// funcHead declares the locals every template may use.
const funcHead = `	a, b, c := in.A, in.B, in.C
	s, t := in.S, in.T
	p, q := in.P, in.Q
	xs := append([]int(nil), in.Xs...)
	ys := append([]int(nil), in.Ys...)
	f := in.F
	m := map[string]int{}
	for k, v := range in.M {
		m[k] = v
	}
	_, _, _, _, _, _, _, _, _, _, _ = a, b, c, s, t, p, q, xs, ys, f, m
`
