package c16

import (
	"crypto/sha256"
	"fmt"
	"os"
	"path/filepath"
	"regexp"
	"sort"
	"strings"
	"sync"
	"time"

	"golang.org/x/tools/go/packages"
	"honnef.co/go/tools/lintcmd/runner"
	"verif/corpus"
	"verif/vf"
)

const repoDir = "/repo"

var debug = os.Getenv("C16_DEBUG") != "" // progress on stderr (development only; no influence on verdicts)

// workItem is one load of the real runner: a directory, a go/packages
// configuration and the patterns to lint.
type workItem struct {
	origin   string // stable name used in replay objects and counters
	kind     string // testdata | variant | repo | std | behaviour
	dir      string
	env      []string
	overlay  map[string][]byte
	patterns []string
	tests    bool
	procs    int // runner parallelism
	prep     func() (discard string, err error)
	// originOf, if set, refines origin and kind per package (workspace layers)
	originOf func(pkgID string) (origin, kind string)
	// watch: hash every Go file below this directory before and after the load;
	// files that other processes changed in between are not judged
	watch           string
	changed         map[string]bool
	collectBaseline bool            // fill baselineFailed from layer "base" of the same load
	baselineFailed  map[string]bool // variant: (layer-free) package IDs that fail unmodified as well
	// maxFixesPerCheck bounds the fixes re-type-checked per (package, check); 0 = all
	maxFixesPerCheck int
}

type violation struct {
	key, what string
	replay    any
}

type checkStat struct {
	Diagnostics int `json:"diagnostics"`
	Fixes       int `json:"fixes_applied"`
	Typechecked int `json:"fixes_typechecked"`
	Behaviour   int `json:"behaviour_compared"`
}

// itemResult is everything one work item observed (merged in item order).
type itemResult struct {
	viols         []violation
	counters      map[string]int
	perCheck      map[string]*checkStat
	pairs         map[string]bool // distinct (check, fix) applied and type-checked
	discard       string
	err           error
	failed        []string
	discardedPkgs []string
	samples       []any
}

func newItemResult() *itemResult {
	return &itemResult{counters: map[string]int{}, perCheck: map[string]*checkStat{}, pairs: map[string]bool{}}
}

func (ir *itemResult) stat(check string) *checkStat {
	s := ir.perCheck[check]
	if s == nil {
		s = &checkStat{}
		ir.perCheck[check] = s
	}
	return s
}

var fixNormRE = regexp.MustCompile("`[^`]*`|\"[^\"]*\"|'[^']*'|\\b\\d+\\b")

// fixClass turns a fix message into a class name: quoted material and numbers
// (which come from the analysed code) are abstracted away.
func fixClass(msg string) string {
	s := fixNormRE.ReplaceAllString(msg, "_")
	if len(s) > 60 {
		s = s[:60]
	}
	return s
}

func sortDiags(ds []runner.Diagnostic) {
	sort.SliceStable(ds, func(i, j int) bool {
		a, b := ds[i], ds[j]
		if a.Position.Filename != b.Position.Filename {
			return a.Position.Filename < b.Position.Filename
		}
		if a.Position.Offset != b.Position.Offset {
			return a.Position.Offset < b.Position.Offset
		}
		if a.Category != b.Category {
			return a.Category < b.Category
		}
		return a.Message < b.Message
	})
}

// processItem lints one work item and runs monitors A and B over the result.
func processItem(l *linter, it workItem, pool int) *itemResult {
	res := newItemResult()
	if it.prep != nil {
		d, err := it.prep()
		if err != nil {
			res.err = err
			return res
		}
		if d != "" {
			res.discard = d
			return res
		}
	}
	cfg := &packages.Config{Dir: it.dir, Tests: it.tests, Env: it.env, Overlay: it.overlay}
	t0 := time.Now()
	var before map[string][sha256.Size]byte
	if it.watch != "" {
		before = hashGoFiles(it.watch)
	}
	pkgs, failed, err := l.lint(cfg, it.patterns, it.procs)
	if it.watch != "" {
		it.changed = map[string]bool{}
		after := hashGoFiles(it.watch)
		for p, h := range after {
			if before[p] != h {
				it.changed[p] = true
			}
		}
		for p := range before {
			if _, ok := after[p]; !ok {
				it.changed[p] = true
			}
		}
		res.counters["corpus_files_changed_by_others_during_load"] += len(it.changed)
	}
	if debug {
		fmt.Fprintf(os.Stderr, "c16: lint %s: %d pkgs, %d failed, %.1fs\n", it.origin, len(pkgs), len(failed), time.Since(t0).Seconds())
		defer func() { fmt.Fprintf(os.Stderr, "c16: done %s: %.1fs\n", it.origin, time.Since(t0).Seconds()) }()
	}
	if err != nil {
		res.err = fmt.Errorf("%s: %v", it.origin, err)
		return res
	}
	originOf := func(id string) (string, string) {
		if it.originOf != nil {
			return it.originOf(id)
		}
		return it.origin, it.kind
	}
	if it.collectBaseline {
		for _, id := range failed {
			if layer, gen := layerOf(id); layer == "base" {
				it.baselineFailed[gen] = true
			}
		}
	}
	for _, id := range failed {
		_, gen := layerOf(id)
		if _, kind := originOf(id); kind == "variant" && !it.baselineFailed[gen] {
			// the rewrite broke a package that was fine before: generator discard
			res.counters["variant_packages_discarded(no longer type-check)"]++
			res.discardedPkgs = append(res.discardedPkgs, id)
			continue
		}
		res.counters["packages_not_under_obligation(errors)"]++
		res.failed = append(res.failed, id)
	}
	res.counters["packages_analysed"] += len(pkgs)
	for _, p := range pkgs {
		_, kind := originOf(p.Spec.ID)
		res.counters["packages_analysed:"+kind]++
	}

	type pkgOut struct{ r *itemResult }
	outs := make([]*itemResult, len(pkgs))
	sem := make(chan struct{}, max(1, pool))
	var wg sync.WaitGroup
	for i := range pkgs {
		wg.Add(1)
		sem <- struct{}{}
		go func(i int) {
			defer wg.Done()
			defer func() { <-sem }()
			pit := it
			pit.origin, pit.kind = originOf(pkgs[i].Spec.ID)
			outs[i] = processPackage(pit, pkgs[i])
		}(i)
	}
	wg.Wait()
	for _, o := range outs {
		res.merge(o)
	}
	return res
}

func (ir *itemResult) merge(o *itemResult) {
	ir.viols = append(ir.viols, o.viols...)
	ir.failed = append(ir.failed, o.failed...)
	ir.discardedPkgs = append(ir.discardedPkgs, o.discardedPkgs...)
	for k, v := range o.counters {
		ir.counters[k] += v
	}
	for k, v := range o.perCheck {
		s := ir.stat(k)
		s.Diagnostics += v.Diagnostics
		s.Fixes += v.Fixes
		s.Typechecked += v.Typechecked
		s.Behaviour += v.Behaviour
	}
	for k := range o.pairs {
		ir.pairs[k] = true
	}
	if len(ir.samples) < 3 {
		ir.samples = append(ir.samples, o.samples...)
	}
}

func processPackage(it workItem, p pkgResult) *itemResult {
	res := newItemResult()
	ctx := newPkgCtx(p.Spec)
	sortDiags(p.Diags)
	if ctx.anyLD {
		res.counters["packages_with_line_directives"]++
	}
	perCheckFixes := map[string]int{}
	for _, d := range p.Diags {
		if it.changed[d.Position.Filename] {
			res.counters["diagnostics_skipped:file-changed-during-load"]++
			continue
		}
		res.counters["diagnostics"]++
		res.stat(d.Category).Diagnostics++
		// monitor A
		key, what, rp, skipped := ctx.checkDiagPos(it.origin, d)
		switch {
		case skipped != "":
			res.counters["positions_skipped:"+skipped]++
		case key != "":
			res.viols = append(res.viols, violation{key, what, rp})
		default:
			res.counters["positions_checked"]++
			if d.End.Line > 0 {
				res.counters["positions_with_end"]++
			}
		}
		for _, rel := range d.Related {
			rd := runner.Diagnostic{Position: rel.Position, End: rel.End, Category: d.Category, Message: "related: " + rel.Message}
			key, what, rp, skipped := ctx.checkDiagPos(it.origin, rd)
			switch {
			case skipped != "":
				res.counters["positions_skipped:"+skipped]++
			case key != "":
				// related information may point into another package's file
				if ctx.files[rel.Position.Filename] == nil {
					res.counters["related_in_other_package"]++
				} else {
					res.viols = append(res.viols, violation{key, what, rp})
				}
			default:
				res.counters["related_positions_checked"]++
			}
		}
		// monitor B
		for _, sf := range d.SuggestedFixes {
			res.counters["fixes_seen"]++
			perCheckFixes[d.Category]++
			tc := it.maxFixesPerCheck == 0 || perCheckFixes[d.Category] <= it.maxFixesPerCheck
			o := ctx.checkFix(it.origin, d, sf, tc)
			if o.skipped != "" {
				res.counters["fixes_skipped:"+o.skipped]++
			}
			if o.key != "" {
				if f := ctx.files[o.replay.File]; f != nil && len(f.src) < 20000 {
					o.replay.Source = string(f.src)
				}
				res.viols = append(res.viols, violation{o.key, o.what, o.replay})
				continue
			}
			if o.applied {
				res.counters["fixes_applied_and_parsed"]++
				res.stat(d.Category).Fixes++
			}
			if o.checked {
				res.counters["fixes_typechecked"]++
				res.counters["import_fixups"] += o.fixups
				res.stat(d.Category).Typechecked++
				res.pairs[d.Category+": "+fixClass(sf.Message)] = true
				if len(res.samples) < 1 && len(o.replay.Edits) > 0 {
					res.samples = append(res.samples, map[string]any{"check": d.Category, "at": d.Position.String(), "fix": sf.Message, "edits": o.replay.Edits, "verdict": "applies, parses, type-checks"})
				}
			}
		}
	}
	return res
}

// hashGoFiles hashes every Go file below dir (the shared /repo can be edited
// by others while it is being analysed; content, not time, decides).
func hashGoFiles(dir string) map[string][sha256.Size]byte {
	out := map[string][sha256.Size]byte{}
	filepath.WalkDir(dir, func(p string, d os.DirEntry, err error) error {
		if err != nil {
			return nil
		}
		if d.IsDir() {
			if n := d.Name(); n == ".git" || n == "testdata" || n == "website" {
				return filepath.SkipDir
			}
			return nil
		}
		if strings.HasSuffix(p, ".go") {
			if b, err := os.ReadFile(p); err == nil {
				out[p] = sha256.Sum256(b)
			}
		}
		return nil
	})
	return out
}

// ---------------------------------------------------------------------------
// workloads

func testdataEnv() []string {
	// -trimpath makes the toolchain's build cache independent of the (per-process)
	// scratch path, so that `go list -export` does not recompile every package
	// on every run; everything else is the test helper's environment
	return append(os.Environ(), "GOPROXY=off", "GOFLAGS=-mod=vendor -trimpath", "GO111MODULE=")
}

// fixChecks lists the analyzer directories (s1002, qf1001, …) whose source
// mentions suggested fixes; variants favour their testdata.
func fixChecks() map[string]bool {
	out := map[string]bool{}
	for _, cat := range []string{"simple", "quickfix", "staticcheck", "stylecheck"} {
		ents, _ := os.ReadDir(filepath.Join(repoDir, cat))
		for _, e := range ents {
			if !e.IsDir() {
				continue
			}
			b, err := os.ReadFile(filepath.Join(repoDir, cat, e.Name(), e.Name()+".go"))
			if err == nil && (strings.Contains(string(b), "report.Fixes") || strings.Contains(string(b), "edit.Fix")) {
				out[e.Name()] = true
			}
		}
	}
	return out
}

// workspaceItems returns one work item per Go-version module of a workspace.
func workspaceItems(mods [][2]string, procs int, originOf func(string) (string, string), baseline map[string]bool) []workItem {
	var out []workItem
	for _, m := range mods {
		out = append(out, workItem{
			origin:         "workspace:go" + m[0],
			kind:           "testdata",
			dir:            m[1],
			env:            append(testdataEnv(), fmt.Sprintf("GOMAXPROCS=%d", workers())),
			patterns:       []string{"./..."},
			tests:          true,
			procs:          procs,
			originOf:       originOf,
			baselineFailed: baseline,
		})
	}
	return out
}

// runItems processes items on a pool and merges the results in item order.
func runItems(r *vf.Run, l *linter, items []workItem, itemPool, pkgPool int, acc *itemResult) {
	outs := make([]*itemResult, len(items))
	sem := make(chan struct{}, max(1, itemPool))
	var wg sync.WaitGroup
	for i := range items {
		wg.Add(1)
		sem <- struct{}{}
		go func(i int) {
			defer wg.Done()
			defer func() { <-sem }()
			outs[i] = processItem(l, items[i], pkgPool)
		}(i)
	}
	wg.Wait()
	for i, o := range outs {
		if o.err != nil {
			r.Inconclusive("%s: %v", items[i].origin, o.err)
			continue
		}
		acc.merge(o)
	}
}

var stdSlice = []string{"strings", "bytes", "sort", "errors", "fmt", "strconv", "net/url", "encoding/json", "text/template", "go/ast", "go/parser", "go/printer", "os", "path/filepath", "regexp", "bufio", "io", "time", "flag", "encoding/binary", "container/heap", "math/big", "archive/tar", "net/textproto", "mime"}

func Run(r *vf.Run) {
	scratch := r.Scratch()
	l, err := newLinter(filepath.Join(scratch, "cache"))
	if err != nil {
		r.Inconclusive("cannot open scratch cache: %v", err)
		r.Finish(0, 0, 1, "")
		return
	}
	W := workers()
	acc := newItemResult()
	r.Assume("diagnostics and edits in files that carry //line directives (and positions that only fail in a package containing such a file, e.g. cgo output) are counted and skipped, as the property allows")
	r.Assume("a position at end of file is accepted on whatever line go/token puts it")
	r.Assume("import fix-up = drop imports go/types reports as unused in the patched file + import a package (already a dependency, or std) that the new text names by its default name; nothing else is repaired")
	r.Assume("S1012, S1024, S1037 (time), QF1009 and QF1010 (the rewrite changes meaning by design) are compiled after the fix but not compared")
	r.Assume("S1001/S1018 (loop → copy): calls on which the unfixed loop itself panics with an index error are outside the rewrite's precondition and are not compared; panics introduced by the fix are")
	r.Assume("a behaviour template that does not trigger its check is counted, not a violation; only packages the real loader accepts are under obligation")
	only := os.Getenv("C16_ONLY") // development: comma list of testdata,variants,corpus,behaviour
	want := func(s string) bool { return only == "" || strings.Contains(only, s) }

	// --- A+B on the analyzers' own testdata and on variants of it ---------
	// One workspace holds the unmodified trees (layer "base") and every
	// variant (layers "v0", "v1", …): one load of the runner per Go version.
	dirs := testdataDirs(corpus.TestdataDirs(repoDir))
	if want("testdata") || want("variants") {
		var layers []wsLayer
		kindOf := map[string]string{}
		if want("testdata") {
			layers = append(layers, wsLayer{name: "base", dirs: dirs})
		}
		if want("variants") {
			nVar := r.Pick(10, 24)
			fc := fixChecks()
			for v := 0; v < nVar; v++ {
				kind := variantKinds[v%len(variantKinds)]
				pick := r.Rand("variant-dirs", v)
				var sub []tdDir
				for _, d := range dirs {
					p := 0.06
					if fc[d.check] {
						p = 0.3
					}
					if r.Thorough() {
						p = 1
					}
					if pick.Float64() < p {
						sub = append(sub, d)
					}
				}
				name := fmt.Sprintf("v%d", v)
				kindOf[name] = kind
				layers = append(layers, wsLayer{name: name, dirs: sub, rewrite: func(f wsFile, src []byte) []byte {
					return applyVariant(kind, r.Rand("variant/"+kind+"/"+f.check+"/"+f.rel, v), src)
				}})
				acc.counters["variants:"+kind]++
			}
		}
		root := filepath.Join(scratch, "ws")
		mods, err := buildWorkspace(root, layers)
		if err != nil {
			r.Inconclusive("workspace: %v", err)
		}
		originOf := func(id string) (string, string) {
			layer, gen := layerOf(id)
			if layer == "base" {
				return "testdata:" + gen, "testdata"
			}
			return fmt.Sprintf("variant %s (%s) of %s", layer, kindOf[layer], gen), "variant"
		}
		ws := newItemResult()
		items := workspaceItems(mods, W, originOf, nil)
		if want("variants") {
			// a variant package that fails to load is a generator discard unless
			// the unmodified package (layer "base" of the same load, same
			// layer-free ID) fails as well
			for i := range items {
				items[i].baselineFailed = map[string]bool{}
				items[i].collectBaseline = true
			}
		}
		// the two big modules (go1.0, go1.18) one after the other with the full
		// pool, the many small ones side by side
		var big, small []workItem
		for _, it := range items {
			if strings.HasSuffix(it.origin, ":go1.0") || strings.HasSuffix(it.origin, ":go1.18") {
				big = append(big, it)
			} else {
				it.procs = 1
				small = append(small, it)
			}
		}
		runItems(r, l, big, 1, W, ws)
		runItems(r, l, small, W, 1, ws)
		acc.merge(ws)
		os.RemoveAll(root)
		tot := acc.counters["packages_analysed:variant"] + acc.counters["variant_packages_discarded(no longer type-check)"]
		if d := acc.counters["variant_packages_discarded(no longer type-check)"]; tot > 0 && d*20 > tot {
			r.Inconclusive("%d of %d variant packages no longer type-check (generator discards ≥ 5%%): %v", d, tot, acc.discardedPkgs[:min(5, len(acc.discardedPkgs))])
		}
	}

	// --- A+B on real code: the repository and std ----------------------------
	if want("corpus") {
		env := append(vf.GoEnv(), fmt.Sprintf("GOMAXPROCS=%d", W))
		it := workItem{origin: "repo+std", kind: "corpus", dir: repoDir, watch: repoDir, env: env, procs: W, maxFixesPerCheck: r.Pick(4, 40)}
		items := []workItem{it}
		if r.Thorough() {
			// the repository with its tests, all of std without
			items[0].origin, items[0].patterns, items[0].tests = "repo", []string{"./..."}, true
			std := it
			std.origin, std.patterns = "std", []string{"std"}
			items = append(items, std)
		} else {
			items[0].patterns = append([]string{"./..."}, stdSlice...)
		}
		cr := newItemResult()
		runItems(r, l, items, 1, W, cr)
		acc.merge(cr)
	}

	// --- C: behaviour of the S*/QF* fixes -------------------------------------
	var beh map[string]*behStat
	behEvals := 0
	if want("behaviour") {
		beh, behEvals = runBehaviour(r, l, acc)
	}

	report(r, acc, beh, behEvals)
}

// Exit, if set, runs right before the evidence is written (development hook
// of the throw-away main: flush a profile; vf.Finish calls os.Exit).
var Exit func()

func report(r *vf.Run, acc *itemResult, beh map[string]*behStat, behEvals int) {
	if Exit != nil {
		Exit()
	}
	for _, v := range acc.viols {
		r.Violation(v.key, v.what, v.replay)
	}
	keys := make([]string, 0, len(acc.counters))
	for k := range acc.counters {
		keys = append(keys, k)
	}
	sort.Strings(keys)
	for _, k := range keys {
		r.Set(k, acc.counters[k])
	}
	compared := 0
	if beh != nil {
		inst, miss := 0, 0
		var low []string
		for _, t := range templates {
			st := beh[t.check]
			inst += st.Instances
			miss += st.NotTrigger
			if st.Compared > 0 {
				compared++
			}
			acc.stat(t.check).Behaviour = st.Compared
			if st.Instances > 0 && st.NotTrigger*5 >= st.Instances {
				low = append(low, fmt.Sprintf("%s %d/%d", t.check, st.NotTrigger, st.Instances))
			}
			if len(st.Differences) == 0 {
				st.Differences = nil
			}
		}
		r.Set("behaviour_per_check", beh)
		r.Set("behaviour_checks_compared", compared)
		r.Set("behaviour_templates", len(templates))
		r.Set("behaviour_instances", inst)
		r.Set("behaviour_template_did_not_trigger", miss)
		r.Set("behaviour_templates_triggering_less_than_80pct", low)
		if inst > 0 && miss*5 >= inst {
			r.Inconclusive("behaviour templates did not trigger in %d of %d instances (≥ 20%%)", miss, inst)
		}
		if d := acc.counters["behaviour_programs_discarded(do not type-check)"]; d*20 > acc.counters["behaviour_programs"] {
			r.Inconclusive("%d of %d generated behaviour programs do not type-check", d, acc.counters["behaviour_programs"])
		}
	}
	r.Set("per_check", acc.perCheck)
	var pairs []string
	for k := range acc.pairs {
		pairs = append(pairs, k)
	}
	sort.Strings(pairs)
	r.Set("fix_classes_typechecked", pairs)
	for _, s := range acc.samples {
		r.Sample(s, 3)
	}
	evals := acc.counters["positions_checked"] + acc.counters["fixes_typechecked"] + behEvals
	r.Finish(evals, len(pairs)+compared, 20, "distinct (check, fix class) pairs whose edits were applied, parsed and re-type-checked with go/types against the dependencies' export data (fix_classes_typechecked) + distinct S*/QF* checks whose fixed and unfixed generated functions were compiled, run and compared record by record (behaviour_checks_compared)")
}
