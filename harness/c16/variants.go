package c16

import (
	"bytes"
	"go/ast"
	"go/parser"
	"go/scanner"
	"go/token"
	"math/rand/v2"
	"path"
	"sort"
	"strconv"
	"strings"
)

// Semantics-preserving rewrites of Go source that stress position arithmetic.
// Every rewrite works on bytes; a file it cannot handle is returned unchanged.

var variantKinds = []string{"comments", "linebreaks", "parens", "imports", "crlf", "header", "tabs", "combo"}

func applyVariant(kind string, rng *rand.Rand, src []byte) []byte {
	switch kind {
	case "comments":
		return tokenRewrite(src, rng, 0.15, 0, false)
	case "linebreaks":
		return tokenRewrite(src, rng, 0, 0.15, false)
	case "tabs":
		return tokenRewrite(src, rng, 0, 0, true)
	case "parens":
		return parenRewrite(src, rng, 0.25)
	case "imports":
		return importRewrite(src, rng, 0.7)
	case "crlf":
		return bytes.ReplaceAll(src, []byte("\n"), []byte("\r\n"))
	case "header":
		return append([]byte("/*\n * variant header, line 1\n * line 2 — with non-ASCII: äöü ✓\n\t* line 3\n */\n\n"), src...)
	case "combo":
		src = parenRewrite(src, rng, 0.15)
		src = importRewrite(src, rng, 0.5)
		src = tokenRewrite(src, rng, 0.08, 0.08, rng.IntN(2) == 0)
		if rng.IntN(2) == 0 {
			src = applyVariant("header", rng, src)
		}
		if rng.IntN(2) == 0 {
			src = applyVariant("crlf", rng, src)
		}
		return src
	}
	return src
}

type tokSpan struct {
	off, end int
	tok      token.Token
}

func scanTokens(src []byte) ([]tokSpan, bool) {
	if bytes.IndexByte(src, '\r') >= 0 {
		return nil, false // literal lengths would be off
	}
	fset := token.NewFileSet()
	f := fset.AddFile("", fset.Base(), len(src))
	var s scanner.Scanner
	bad := false
	s.Init(f, src, func(token.Position, string) { bad = true }, scanner.ScanComments)
	var out []tokSpan
	for {
		pos, tok, lit := s.Scan()
		if tok == token.EOF {
			break
		}
		if tok == token.SEMICOLON && lit != ";" {
			continue // inserted automatically
		}
		off := f.Offset(pos)
		n := len(lit)
		if lit == "" {
			n = len(tok.String())
		}
		out = append(out, tokSpan{off, off + n, tok})
	}
	return out, !bad
}

// after these tokens a line break never triggers semicolon insertion
var breakAfter = map[token.Token]bool{
	token.ADD: true, token.SUB: true, token.MUL: true, token.QUO: true, token.REM: true,
	token.AND: true, token.OR: true, token.XOR: true, token.SHL: true, token.SHR: true, token.AND_NOT: true,
	token.LAND: true, token.LOR: true, token.EQL: true, token.NEQ: true, token.LSS: true, token.GTR: true, token.LEQ: true, token.GEQ: true,
	token.ASSIGN: true, token.DEFINE: true, token.ADD_ASSIGN: true, token.SUB_ASSIGN: true, token.MUL_ASSIGN: true,
	token.COMMA: true, token.LPAREN: true, token.LBRACK: true, token.PERIOD: true, token.ARROW: true, token.NOT: true, token.COLON: true,
}

// tokenRewrite inserts general comments (anywhere between two tokens) and line
// breaks (after operators, commas and opening brackets) behind the package
// clause, and/or turns indentation tabs into spaces and in-line blanks into tabs.
func tokenRewrite(src []byte, rng *rand.Rand, pComment, pBreak float64, tabs bool) []byte {
	toks, ok := scanTokens(src)
	if !ok || len(toks) == 0 {
		return src
	}
	var out []byte
	last := 0
	started := false // becomes true behind the package clause
	sawPackage := false
	n := 0
	for i, t := range toks {
		gap := src[last:t.off]
		if tabs && started {
			if bytes.IndexByte(gap, '\n') >= 0 {
				gap = bytes.ReplaceAll(gap, []byte("\t"), []byte("    "))
			} else if len(gap) > 0 {
				gap = bytes.ReplaceAll(gap, []byte(" "), []byte("\t"))
			}
		}
		out = append(out, gap...)
		out = append(out, src[t.off:t.end]...)
		last = t.end
		if !started {
			if t.tok == token.PACKAGE {
				sawPackage = true
			} else if sawPackage && t.tok == token.IDENT {
				started = true
			}
			continue
		}
		if t.tok == token.COMMENT || i == len(toks)-1 {
			continue
		}
		// a //-comment directly after a token must stay at the end of its line
		if pBreak > 0 && breakAfter[t.tok] && rng.Float64() < pBreak {
			out = append(out, "\n\t\t\t"...)
			n++
		}
		if pComment > 0 && rng.Float64() < pComment {
			n++
			switch rng.IntN(3) {
			case 0:
				out = append(out, " /* v"+strconv.Itoa(n)+" */ "...)
			case 1:
				out = append(out, "/**/"...)
			default:
				out = append(out, " /* ü→"+strconv.Itoa(n)+" */"...)
			}
		}
	}
	out = append(out, src[last:]...)
	return out
}

type insertion struct {
	off   int
	text  string
	order int // at equal offsets: closers before openers
}

func applyInsertions(src []byte, ins []insertion) []byte {
	sort.SliceStable(ins, func(i, j int) bool {
		if ins[i].off != ins[j].off {
			return ins[i].off < ins[j].off
		}
		return ins[i].order < ins[j].order
	})
	var out []byte
	last := 0
	for _, in := range ins {
		out = append(out, src[last:in.off]...)
		out = append(out, in.text...)
		last = in.off
	}
	return append(out, src[last:]...)
}

// parenRewrite puts redundant parentheses around operands, arguments,
// conditions, results and right-hand sides.
func parenRewrite(src []byte, rng *rand.Rand, p float64) []byte {
	fset := token.NewFileSet()
	f, err := parser.ParseFile(fset, "", src, parser.ParseComments|parser.SkipObjectResolution)
	if err != nil {
		return src
	}
	tf := fset.File(f.Pos())
	var ins []insertion
	wrap := func(e ast.Expr) {
		switch e := e.(type) {
		case nil:
			return
		case *ast.CompositeLit:
			if e.Type == nil {
				return
			}
		case *ast.TypeAssertExpr:
			if e.Type == nil {
				return
			}
		case *ast.ParenExpr, *ast.KeyValueExpr, *ast.Ellipsis, *ast.FuncType, *ast.StructType, *ast.InterfaceType, *ast.ArrayType, *ast.MapType, *ast.ChanType:
			return
		}
		if rng.Float64() >= p {
			return
		}
		ins = append(ins, insertion{tf.Offset(e.Pos()), "(", 1}, insertion{tf.Offset(e.End()), ")", 0})
	}
	ast.Inspect(f, func(n ast.Node) bool {
		switch n := n.(type) {
		case *ast.BinaryExpr:
			wrap(n.X)
			wrap(n.Y)
		case *ast.CallExpr:
			for _, a := range n.Args {
				wrap(a)
			}
		case *ast.ReturnStmt:
			for _, a := range n.Results {
				wrap(a)
			}
		case *ast.AssignStmt:
			for _, a := range n.Rhs {
				wrap(a)
			}
		case *ast.IfStmt:
			wrap(n.Cond)
		case *ast.ForStmt:
			wrap(n.Cond)
		case *ast.RangeStmt:
			wrap(n.X)
		case *ast.IndexExpr:
			wrap(n.Index)
		case *ast.UnaryExpr:
			wrap(n.X)
		case *ast.SendStmt:
			wrap(n.Value)
		case *ast.ValueSpec:
			for _, a := range n.Values {
				wrap(a)
			}
		case *ast.GenDecl:
			if n.Tok == token.IMPORT || n.Tok == token.TYPE {
				return false
			}
		case *ast.Field:
			return false // types and tags only
		}
		return true
	})
	if len(ins) == 0 {
		return src
	}
	return applyInsertions(src, ins)
}

func isIdent(s string) bool {
	if s == "" || s == "_" {
		return false
	}
	for i, c := range s {
		if !(c == '_' || c >= 'a' && c <= 'z' || c >= 'A' && c <= 'Z' || i > 0 && c >= '0' && c <= '9') {
			return false
		}
	}
	return token.Lookup(s) == token.IDENT
}

// importRewrite gives unnamed imports an explicit, different name and renames
// the qualifiers that refer to them.
func importRewrite(src []byte, rng *rand.Rand, p float64) []byte {
	fset := token.NewFileSet()
	f, err := parser.ParseFile(fset, "", src, parser.ParseComments)
	if err != nil {
		return src
	}
	tf := fset.File(f.Pos())
	rename := map[string]string{}
	var ins []insertion
	for _, is := range f.Imports {
		if is.Name != nil {
			continue
		}
		ip, err := strconv.Unquote(is.Path.Value)
		if err != nil || ip == "C" || ip == "unsafe" {
			continue
		}
		base := path.Base(ip)
		if !isIdent(base) || rename[base] != "" || rng.Float64() >= p {
			continue
		}
		alias := base + "_v" + strconv.Itoa(rng.IntN(90)+10)
		if rng.IntN(3) == 0 {
			alias = strings.ToUpper(base[:1]) + base[1:] + "ü"
		}
		rename[base] = alias
		ins = append(ins, insertion{tf.Offset(is.Path.Pos()), alias + " ", 1})
	}
	if len(rename) == 0 {
		return src
	}
	type repl struct {
		off, end int
		text     string
	}
	var repls []repl
	ast.Inspect(f, func(n ast.Node) bool {
		if se, ok := n.(*ast.SelectorExpr); ok {
			if id, ok := se.X.(*ast.Ident); ok && id.Obj == nil && rename[id.Name] != "" {
				repls = append(repls, repl{tf.Offset(id.Pos()), tf.Offset(id.End()), rename[id.Name]})
			}
		}
		return true
	})
	sort.Slice(repls, func(i, j int) bool { return repls[i].off < repls[j].off })
	// merge insertions and replacements (import specs precede all uses)
	var out []byte
	last := 0
	ii := 0
	sort.SliceStable(ins, func(i, j int) bool { return ins[i].off < ins[j].off })
	emitIns := func(upto int) {
		for ii < len(ins) && ins[ii].off <= upto {
			out = append(out, src[last:ins[ii].off]...)
			out = append(out, ins[ii].text...)
			last = ins[ii].off
			ii++
		}
	}
	for _, r := range repls {
		emitIns(r.off)
		if r.off < last {
			continue
		}
		out = append(out, src[last:r.off]...)
		out = append(out, r.text...)
		last = r.end
	}
	emitIns(len(src))
	return append(out, src[last:]...)
}
