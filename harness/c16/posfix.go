package c16

import (
	"bytes"
	"fmt"
	"go/ast"
	"go/parser"
	"go/token"
	"go/types"
	"os"
	"os/exec"
	"path"
	"regexp"
	"sort"
	"strconv"
	"strings"
	"sync"

	"golang.org/x/tools/go/gcexportdata"
	"honnef.co/go/tools/go/loader"
	"honnef.co/go/tools/lintcmd/runner"
	"verif/vf"
)

// ---------------------------------------------------------------------------
// source files as the monitor sees them (independent of go/token)

type srcFile struct {
	path       string
	src        []byte
	lineStart  []int // offset of the first byte of every line (split at '\n')
	hasLineDir bool
}

var lineDirRE = regexp.MustCompile(`(?m)(^//line [^\n]*:\d+)|(/\*line [^*]*:\d+\*/)`)

func readSrc(p string) (*srcFile, error) {
	b, err := os.ReadFile(p)
	if err != nil {
		return nil, err
	}
	f := &srcFile{path: p, src: b, lineStart: []int{0}}
	for i, c := range b {
		if c == '\n' {
			f.lineStart = append(f.lineStart, i+1)
		}
	}
	f.hasLineDir = lineDirRE.Match(b)
	return f, nil
}

// lineLen returns the length in bytes of line n (1-based) without its '\n'.
func (f *srcFile) lineLen(n int) int {
	start := f.lineStart[n-1]
	end := len(f.src)
	if n < len(f.lineStart) {
		end = f.lineStart[n] - 1
	}
	return end - start
}

// checkPos decides whether p names an existing line and column of f. It
// returns "" or a description of what is wrong.
func (f *srcFile) checkPos(p token.Position) string {
	if p.Line < 1 || p.Line > len(f.lineStart) {
		return fmt.Sprintf("line %d outside 1..%d", p.Line, len(f.lineStart))
	}
	if p.Offset == len(f.src) && p.Offset >= 0 {
		// end of file: go/token reports it on the last line it knows
		return ""
	}
	if p.Column < 1 || p.Column > f.lineLen(p.Line)+1 {
		return fmt.Sprintf("column %d outside 1..%d of line %d", p.Column, f.lineLen(p.Line)+1, p.Line)
	}
	if off := f.lineStart[p.Line-1] + p.Column - 1; off != p.Offset {
		return fmt.Sprintf("line:column %d:%d is offset %d, reported offset is %d", p.Line, p.Column, off, p.Offset)
	}
	return ""
}

func (f *srcFile) snippet(start, end int) string {
	if start < 0 {
		start = 0
	}
	if end > len(f.src) {
		end = len(f.src)
	}
	if start > end {
		start = end
	}
	// widen to whole lines
	for start > 0 && f.src[start-1] != '\n' {
		start--
	}
	for end < len(f.src) && f.src[end] != '\n' {
		end++
	}
	s := string(f.src[start:end])
	if len(s) > 1500 {
		s = s[:1500] + "…"
	}
	return s
}

// ---------------------------------------------------------------------------
// per-package context for the independent re-type-check

type pkgCtx struct {
	spec  *loader.PackageSpec
	files map[string]*srcFile // by path: GoFiles and CompiledGoFiles
	anyLD bool                // some file of the package carries //line directives

	once     sync.Once
	fset     *token.FileSet
	syntax   []*ast.File // parallel to spec.CompiledGoFiles
	imported map[string]*types.Package
	baseErr  string // non-empty: the unpatched package does not type-check with the monitor's checker
	goVers   string
	mu       sync.Mutex // guards imported (export data reads for newly added imports)
}

func newPkgCtx(spec *loader.PackageSpec) *pkgCtx {
	c := &pkgCtx{spec: spec, files: map[string]*srcFile{}}
	for _, l := range [][]string{spec.GoFiles, spec.CompiledGoFiles} {
		for _, p := range l {
			if _, ok := c.files[p]; ok {
				continue // (cgo output in the build cache has no .go suffix)
			}
			f, err := readSrc(p)
			if err != nil {
				continue
			}
			c.files[p] = f
			if f.hasLineDir {
				c.anyLD = true
			}
		}
	}
	return c
}

// stdExports resolves export data of packages that a fix newly imports
// (offline: std only), one `go list -export` per path, memoised.
var stdExports = struct {
	sync.Mutex
	m map[string]string
}{m: map[string]string{}}

func exportFileOf(importPath string) string {
	stdExports.Lock()
	defer stdExports.Unlock()
	if f, ok := stdExports.m[importPath]; ok {
		return f
	}
	cmd := exec.Command("go", "list", "-export", "-f", "{{.Export}}", importPath)
	cmd.Env = vf.GoEnv()
	cmd.Dir = vf.Harness()
	out, err := cmd.Output()
	f := ""
	if err == nil {
		f = strings.TrimSpace(string(out))
	}
	stdExports.m[importPath] = f
	return f
}

func (c *pkgCtx) readExport(file, pkgPath string) (*types.Package, error) {
	f, err := os.Open(file)
	if err != nil {
		return nil, err
	}
	defer f.Close()
	r, err := gcexportdata.NewReader(f)
	if err != nil {
		return nil, err
	}
	return gcexportdata.Read(r, c.fset, c.imported, pkgPath)
}

func (c *pkgCtx) importer() types.Importer {
	return importerFunc(func(ipath string) (*types.Package, error) {
		if ipath == "unsafe" {
			return types.Unsafe, nil
		}
		c.mu.Lock()
		defer c.mu.Unlock()
		if spec := c.spec.Imports[ipath]; spec != nil {
			if p := c.imported[spec.PkgPath]; p != nil && p.Complete() {
				return p, nil
			}
			if spec.ExportFile == "" {
				return nil, fmt.Errorf("no export data for %q", spec.ID)
			}
			return c.readExport(spec.ExportFile, spec.PkgPath)
		}
		// an import the package did not have: only added by the import fix-up
		if p := c.imported[ipath]; p != nil && p.Complete() {
			return p, nil
		}
		ef := exportFileOf(ipath)
		if ef == "" {
			return nil, fmt.Errorf("cannot resolve newly imported package %q", ipath)
		}
		return c.readExport(ef, ipath)
	})
}

type importerFunc func(path string) (*types.Package, error)

func (f importerFunc) Import(path string) (*types.Package, error) { return f(path) }

// prepare parses the package and type-checks it unpatched (baseline).
func (c *pkgCtx) prepare() {
	c.once.Do(func() {
		c.fset = token.NewFileSet()
		c.imported = map[string]*types.Package{}
		if c.spec.Module != nil && c.spec.Module.GoVersion != "" {
			c.goVers = "go" + c.spec.Module.GoVersion
		}
		for _, p := range c.spec.CompiledGoFiles {
			sf := c.files[p]
			if sf == nil {
				c.baseErr = "unreadable file " + p
				return
			}
			af, err := parser.ParseFile(c.fset, p, sf.src, parser.ParseComments|parser.SkipObjectResolution)
			if err != nil {
				c.baseErr = "parse: " + err.Error()
				return
			}
			c.syntax = append(c.syntax, af)
		}
		if errs := c.typeCheck(c.syntax); len(errs) > 0 {
			c.baseErr = errs[0].Error()
		}
	})
}

func (c *pkgCtx) typeCheck(files []*ast.File) []types.Error {
	var errs []types.Error
	tc := &types.Config{
		Importer:  c.importer(),
		Sizes:     c.spec.TypesSizes,
		GoVersion: c.goVers,
		Error: func(err error) {
			if te, ok := err.(types.Error); ok {
				errs = append(errs, te) // soft errors (unused imports/variables) are compile errors too
			} else {
				errs = append(errs, types.Error{Msg: err.Error()})
			}
		},
	}
	func() {
		defer func() {
			if e := recover(); e != nil {
				errs = append(errs, types.Error{Msg: fmt.Sprintf("go/types panicked: %v", e)})
			}
		}()
		tc.Check(c.spec.PkgPath, c.fset, files, nil)
	}()
	return errs
}

// ---------------------------------------------------------------------------
// std package names for the "newly referenced package" half of the import fix-up

var stdByName = struct {
	sync.Once
	m map[string][]string
}{}

func stdCandidates(name string) []string {
	stdByName.Do(func() {
		stdByName.m = map[string][]string{}
		cmd := exec.Command("go", "list", "std")
		cmd.Env = vf.GoEnv()
		cmd.Dir = vf.Harness()
		out, _ := cmd.Output()
		for _, p := range strings.Fields(string(out)) {
			if strings.Contains(p, "internal") || strings.HasPrefix(p, "vendor/") {
				continue
			}
			n := path.Base(p)
			stdByName.m[n] = append(stdByName.m[n], p)
		}
		for _, l := range stdByName.m {
			sort.Slice(l, func(i, j int) bool {
				if len(l[i]) != len(l[j]) {
					return len(l[i]) < len(l[j])
				}
				return l[i] < l[j]
			})
		}
	})
	return stdByName.m[name]
}

// ---------------------------------------------------------------------------
// one suggested fix

type editRec struct {
	Start   int    `json:"start"`
	End     int    `json:"end"`
	Old     string `json:"old"`
	NewText string `json:"new"`
}

type fixReplay struct {
	Check    string    `json:"check"`
	Package  string    `json:"package"`
	Origin   string    `json:"origin"`
	File     string    `json:"file"`
	Position string    `json:"position"`
	Message  string    `json:"message"`
	Fix      string    `json:"fix"`
	Snippet  string    `json:"original_snippet"`
	Edits    []editRec `json:"edits"`
	Patched  string    `json:"patched_snippet,omitempty"`
	Error    string    `json:"first_error"`
	Source   string    `json:"file_source,omitempty"`
}

// fixOutcome is what checking one fix produced.
type fixOutcome struct {
	key, what string // violation (key == "" if none)
	replay    fixReplay
	skipped   string // reason the fix was not put under (full) obligation
	applied   bool   // edits applied and result parsed
	checked   bool   // …and re-type-checked (with verdict)
	fixups    int    // import fix-ups that were needed
	patched   []byte
}

func normEdits(edits []runner.TextEdit) []runner.TextEdit {
	out := make([]runner.TextEdit, len(edits))
	copy(out, edits)
	for i := range out {
		if out[i].End.Line == 0 && out[i].End.Filename == "" {
			out[i].End = out[i].Position // analysis.TextEdit: End == NoPos means Pos
		}
	}
	return out
}

// applyEdits applies sorted, validated, disjoint edits.
func applyEdits(src []byte, edits []runner.TextEdit) []byte {
	var out []byte
	last := 0
	for _, e := range edits {
		out = append(out, src[last:e.Position.Offset]...)
		out = append(out, e.NewText...)
		last = e.End.Offset
	}
	return append(out, src[last:]...)
}

var importedNotUsedRE = regexp.MustCompile(`^"([^"]+)" imported (?:as (\S+) )?and not used`)
var undefinedRE = regexp.MustCompile(`^undefined: (\w+)$`)

// checkFix is monitor B for one suggested fix of one diagnostic.
func (c *pkgCtx) checkFix(origin string, d runner.Diagnostic, sf runner.SuggestedFix, typecheck bool) (o fixOutcome) {
	check := d.Category
	o.replay = fixReplay{Check: check, Package: c.spec.ID, Origin: origin, Position: d.Position.String(), Message: d.Message, Fix: sf.Message}
	viol := func(kind, what string) fixOutcome {
		o.key = kind + ":" + check
		o.what = fmt.Sprintf("%s: fix %q of %s at %s: %s", kind, sf.Message, check, d.Position, what)
		o.replay.Error = what
		return o
	}
	if len(sf.TextEdits) == 0 {
		o.skipped = "fix-without-edits"
		return o
	}
	edits := normEdits(sf.TextEdits)
	fname := edits[0].Position.Filename
	o.replay.File = fname
	for _, e := range edits {
		o.replay.Edits = append(o.replay.Edits, editRec{Start: e.Position.Offset, End: e.End.Offset, NewText: string(e.NewText)})
	}
	for _, e := range edits {
		if e.Position.Filename != fname || e.End.Filename != fname {
			return viol("fix-spans-files", fmt.Sprintf("edits touch %s and %s/%s", fname, e.Position.Filename, e.End.Filename))
		}
	}
	f := c.files[fname]
	if f == nil || f.hasLineDir {
		o.skipped = "line-directive-or-foreign-file"
		return o
	}
	if c.anyLD {
		// offsets are real, file names may be remapped: only trust edits whose
		// line/column agree with their offset in the named file
		for _, e := range edits {
			if f.checkPos(e.Position) != "" || f.checkPos(e.End) != "" {
				o.skipped = "line-directive-or-foreign-file"
				return o
			}
		}
	}
	for i, e := range edits {
		s, en := e.Position.Offset, e.End.Offset
		if s < 0 || en < s || en > len(f.src) {
			return viol("fix-out-of-bounds", fmt.Sprintf("edit %d covers [%d,%d) of a %d byte file", i, s, en, len(f.src)))
		}
		o.replay.Edits[i].Old = string(f.src[s:en])
		if w := f.checkPos(e.Position); w != "" {
			return viol("position-out-of-range", "edit start: "+w)
		}
		if w := f.checkPos(e.End); w != "" {
			return viol("position-out-of-range", "edit end: "+w)
		}
	}
	sort.SliceStable(edits, func(i, j int) bool { return edits[i].Position.Offset < edits[j].Position.Offset })
	lo, hi := edits[0].Position.Offset, edits[0].End.Offset
	for i := 1; i < len(edits); i++ {
		if edits[i].Position.Offset < edits[i-1].End.Offset {
			o.replay.Snippet = f.snippet(edits[i-1].Position.Offset, edits[i].End.Offset)
			return viol("fix-edits-overlap", fmt.Sprintf("[%d,%d) and [%d,%d)", edits[i-1].Position.Offset, edits[i-1].End.Offset, edits[i].Position.Offset, edits[i].End.Offset))
		}
		if edits[i].End.Offset > hi {
			hi = edits[i].End.Offset
		}
	}
	o.replay.Snippet = f.snippet(lo, hi)
	patched := applyEdits(f.src, edits)
	o.patched = patched
	grow := len(patched) - len(f.src)
	psnip := (&srcFile{src: patched}).snippet(lo, hi+grow)
	o.replay.Patched = psnip

	fset := token.NewFileSet()
	paf, err := parser.ParseFile(fset, fname, patched, parser.ParseComments|parser.SkipObjectResolution)
	if err != nil {
		return viol("fix-does-not-parse", err.Error())
	}
	o.applied = true
	if !typecheck {
		return o
	}
	// is the file part of what is compiled (cgo originals are not)?
	idx := -1
	for i, p := range c.spec.CompiledGoFiles {
		if p == fname {
			idx = i
		}
	}
	if idx < 0 {
		o.skipped = "file-not-compiled"
		return o
	}
	c.prepare()
	if c.baseErr != "" {
		o.skipped = "baseline-does-not-typecheck"
		return o
	}
	// parse into the package's FileSet
	paf, err = parser.ParseFile(c.fset, fname, patched, parser.ParseComments|parser.SkipObjectResolution)
	if err != nil {
		return viol("fix-does-not-parse", err.Error())
	}
	if tf := c.fset.File(paf.FileStart); tf != nil {
		defer c.fset.RemoveFile(tf) // keep the FileSet from growing with every fix
	}
	files := make([]*ast.File, len(c.syntax))
	copy(files, c.syntax)
	files[idx] = paf

	origImports := map[string]bool{} // default or explicit names the original file could refer to
	for _, is := range c.syntax[idx].Imports {
		p, _ := strconv.Unquote(is.Path.Value)
		if is.Name != nil {
			origImports[is.Name.Name] = true
		} else {
			origImports[path.Base(p)] = true
			if spec := c.spec.Imports[p]; spec != nil {
				origImports[spec.Name] = true
			}
		}
	}
	var errs []types.Error
	for round := 0; round < 4; round++ {
		errs = c.typeCheck(files)
		if len(errs) == 0 {
			break
		}
		changed := false
		tried := map[string]bool{}
		for _, te := range errs {
			inPatched := te.Fset != nil && te.Pos.IsValid() && te.Fset.Position(te.Pos).Filename == fname
			if m := importedNotUsedRE.FindStringSubmatch(te.Msg); m != nil && inPatched {
				// rule 1: an import that became unused is dropped
				if deleteImportAt(paf, te.Pos) {
					changed = true
					o.fixups++
				}
				continue
			}
			if m := undefinedRE.FindStringSubmatch(te.Msg); m != nil && inPatched && !origImports[m[1]] && !tried[m[1]] {
				// rule 2: the new text refers to a package by its default name
				tried[m[1]] = true
				if !usedAsQualifier(paf, m[1]) || !bytes.Contains(allNewText(edits), []byte(m[1]+".")) {
					continue
				}
				var cands []string
				// packages the package already depends on, by their real name
				for ip, spec := range c.spec.Imports {
					if spec.Name == m[1] {
						cands = append(cands, ip)
					}
				}
				sort.Strings(cands)
				cands = append(cands, stdCandidates(m[1])...)
				for _, cand := range cands {
					if _, err := c.importer().Import(cand); err != nil {
						continue
					}
					addImport(paf, cand)
					changed = true
					o.fixups++
					break
				}
			}
		}
		if !changed {
			break
		}
	}
	o.checked = true
	if len(errs) > 0 {
		te := errs[0]
		where := ""
		if te.Fset != nil && te.Pos.IsValid() {
			where = te.Fset.Position(te.Pos).String() + ": "
		}
		o = viol("fix-breaks-typecheck", where+te.Msg)
		o.key += ":" + errClass(te.Msg)
		return o
	}
	return o
}

// deleteImportAt removes the import spec covering pos from the AST.
func deleteImportAt(f *ast.File, pos token.Pos) bool {
	for di, d := range f.Decls {
		gd, ok := d.(*ast.GenDecl)
		if !ok || gd.Tok != token.IMPORT {
			continue
		}
		for si, s := range gd.Specs {
			if s.Pos() <= pos && pos <= s.End() {
				gd.Specs = append(gd.Specs[:si:si], gd.Specs[si+1:]...)
				if len(gd.Specs) == 0 {
					f.Decls = append(f.Decls[:di:di], f.Decls[di+1:]...)
				}
				for ii, is := range f.Imports {
					if is == s {
						f.Imports = append(f.Imports[:ii:ii], f.Imports[ii+1:]...)
						break
					}
				}
				return true
			}
		}
	}
	return false
}

// addImport adds `import "p"` to the AST (positions do not matter to go/types).
func addImport(f *ast.File, p string) {
	is := &ast.ImportSpec{Path: &ast.BasicLit{Kind: token.STRING, Value: strconv.Quote(p)}}
	f.Decls = append([]ast.Decl{&ast.GenDecl{Tok: token.IMPORT, Specs: []ast.Spec{is}}}, f.Decls...)
	f.Imports = append(f.Imports, is)
}

var errClasses = []string{"assignment mismatch", "declared and not used", "imported and not used", "undefined", "cannot use", "mismatched types", "invalid operation", "duplicate case", "redeclared", "no new variables", "missing return", "not enough arguments", "too many arguments", "cannot convert", "is not a type", "is not used", "cannot assign", "undeclared name", "invalid argument", "cannot call", "cannot range", "cannot index", "multiple-value", "truncated", "overflows", "cannot infer", "does not satisfy", "cannot refer", "label", "impossible type"}

// errClass abstracts a type-checker message into a short stable class name.
func errClass(msg string) string {
	for _, c := range errClasses {
		if strings.Contains(msg, c) {
			return strings.ReplaceAll(c, " ", "-")
		}
	}
	return "other"
}

func allNewText(edits []runner.TextEdit) []byte {
	var b []byte
	for _, e := range edits {
		b = append(b, e.NewText...)
		b = append(b, '\n')
	}
	return b
}

func usedAsQualifier(f *ast.File, name string) bool {
	found := false
	ast.Inspect(f, func(n ast.Node) bool {
		if se, ok := n.(*ast.SelectorExpr); ok {
			if id, ok := se.X.(*ast.Ident); ok && id.Name == name {
				found = true
			}
		}
		return !found
	})
	return found
}

// ---------------------------------------------------------------------------
// monitor A for one diagnostic

type posReplay struct {
	Check    string `json:"check"`
	Package  string `json:"package"`
	Origin   string `json:"origin"`
	Message  string `json:"message"`
	Position string `json:"position"`
	Offset   int    `json:"offset"`
	End      string `json:"end"`
	EndOff   int    `json:"end_offset"`
	Error    string `json:"first_error"`
	Snippet  string `json:"snippet,omitempty"`
}

// checkDiagPos returns (violation key, description) or skipped reason.
func (c *pkgCtx) checkDiagPos(origin string, d runner.Diagnostic) (key, what string, rp posReplay, skipped string) {
	rp = posReplay{Check: d.Category, Package: c.spec.ID, Origin: origin, Message: d.Message, Position: d.Position.String(), Offset: d.Position.Offset, End: d.End.String(), EndOff: d.End.Offset}
	bad := func(w string) (string, string, posReplay, string) {
		if c.anyLD {
			return "", "", rp, "line-directive-package"
		}
		rp.Error = w
		return "position-out-of-range:" + d.Category, fmt.Sprintf("%s at %s (end %s): %s", d.Category, d.Position, d.End, w), rp, ""
	}
	f := c.files[d.Position.Filename]
	if f == nil {
		return bad(fmt.Sprintf("file %q is not a Go file of package %s", d.Position.Filename, c.spec.ID))
	}
	if f.hasLineDir {
		return "", "", rp, "line-directive-file"
	}
	rp.Snippet = f.snippet(d.Position.Offset, d.Position.Offset)
	if w := f.checkPos(d.Position); w != "" {
		return bad("start: " + w)
	}
	if d.End.Line > 0 || d.End.Filename != "" {
		if d.End.Filename != d.Position.Filename {
			return bad(fmt.Sprintf("end is in another file (%s)", d.End.Filename))
		}
		if w := f.checkPos(d.End); w != "" {
			return bad("end: " + w)
		}
		if d.End.Offset < d.Position.Offset || d.End.Line < d.Position.Line || (d.End.Line == d.Position.Line && d.End.Column < d.Position.Column) {
			return bad("end precedes start")
		}
	}
	return "", "", rp, ""
}
