package c16

import (
	"bytes"
	"fmt"
	"math/rand/v2"
	"os"
	"os/exec"
	"path/filepath"
	"sort"
	"strconv"
	"strings"
	"sync"

	"golang.org/x/tools/go/packages"
	"honnef.co/go/tools/lintcmd/runner"
	"verif/vf"
)

// ---------------------------------------------------------------------------
// generated programs

type behFunc struct {
	Name       string
	Check      string
	NoCompare  string
	Src        string // whole function text
	start, end int    // byte range in prog.go
}

type behProg struct {
	idx   int
	dir   string // package directory name (p<idx>)
	funcs []behFunc
	prog  string // prog.go
	main  string // main.go
}

func genVectors(rng *rand.Rand) string {
	var b strings.Builder
	b.WriteString("var vectors = []In{\n")
	b.WriteString("\t{},\n")
	b.WriteString("\t{A: 1, B: 2, C: 3, S: \"abc\", T: \"b\", P: true, Xs: []int{1, 2, 3}, Ys: []int{4, 5, 6, 7}, M: map[string]int{\"b\": 1, \"abc\": 2}, I: 5, F: 1.5},\n")
	b.WriteString("\t{A: -1, B: 0, C: 5, S: \"xbz\", T: \"\", Q: true, Xs: []int{9}, Ys: []int{}, M: map[string]int{}, I: \"str\", F: -2},\n")
	strs := []string{"", "b", "abc", "X-Abc", "x-abc", "bb", "a b", "äb"}
	for i := 0; i < 5; i++ {
		xs := make([]string, rng.IntN(5))
		for j := range xs {
			xs[j] = fmt.Sprint(rng.IntN(9))
		}
		ys := make([]string, rng.IntN(5))
		for j := range ys {
			ys[j] = fmt.Sprint(rng.IntN(9))
		}
		iv := []string{"nil", "7", `"b"`, "int8(3)", "0"}[rng.IntN(5)]
		mv := []string{"nil", `map[string]int{"b": 3}`, `map[string]int{"abc": 1, "": 2, "xabc": 3}`}[rng.IntN(3)]
		fmt.Fprintf(&b, "\t{A: %d, B: %d, C: %d, S: %q, T: %q, P: %v, Q: %v, Xs: []int{%s}, Ys: []int{%s}, M: %s, I: %s, F: %v},\n",
			rng.IntN(9)-3, rng.IntN(7)-2, rng.IntN(6), strs[rng.IntN(len(strs))], strs[rng.IntN(len(strs))], rng.IntN(2) == 0, rng.IntN(2) == 0,
			strings.Join(xs, ", "), strings.Join(ys, ", "), mv, iv, []float64{0, 1, 2, -1.5, 3, 0.1, 10}[rng.IntN(7)])
	}
	b.WriteString("}\n")
	return b.String()
}

const driverTail = `
func normPanic(r interface{}) string {
	if r == nil {
		return "none"
	}
	if re, ok := r.(runtime.Error); ok {
		return "runtime:" + re.Error()
	}
	if e, ok := r.(error); ok {
		return fmt.Sprintf("error(%T):%s", e, e.Error())
	}
	return fmt.Sprintf("%T:%v", r, r)
}

func call(f func(In) []interface{}, in In) (out []interface{}, pn string) {
	defer func() { pn = normPanic(recover()) }()
	out = f(in)
	return
}

func main() {
	w := bufio.NewWriter(os.Stdout)
	defer w.Flush()
	for _, fn := range funcs {
		for vi, v := range vectors {
			traceLog = nil
			in := v
			in.Xs = append([]int(nil), v.Xs...)
			in.Ys = append([]int(nil), v.Ys...)
			if v.M != nil {
				in.M = map[string]int{}
				for k, x := range v.M {
					in.M[k] = x
				}
			}
			out, pn := call(fn.f, in)
			fmt.Fprintf(w, "== %s #%d\n", fn.name, vi)
			fmt.Fprintf(w, "res")
			for _, o := range out {
				fmt.Fprintf(w, " %T(%#v)", o, o)
			}
			fmt.Fprintf(w, "\npanic %s\ntrace %v\n", pn, traceLog)
		}
	}
}
`

// genProgram instantiates every template `per` times.
func genProgram(r *vf.Run, idx, per int) *behProg {
	p := &behProg{idx: idx, dir: fmt.Sprintf("p%d", idx)}
	var b strings.Builder
	b.WriteString(prelude)
	for ti, t := range templates {
		for k := 0; k < per; k++ {
			g := &gen{rng: r.Rand("behaviour/"+t.check, idx*1000+k), inst: idx*per + k}
			name := fmt.Sprintf("F_%s_%d", t.check, k)
			body := t.gen(g)
			src := "func " + name + "(in In) (out []interface{}) {\n" + funcHead + indent(body) + "\treturn\n}\n"
			b.WriteString("\n")
			start := b.Len()
			b.WriteString(src)
			p.funcs = append(p.funcs, behFunc{Name: name, Check: t.check, NoCompare: t.noCompare, Src: src, start: start, end: b.Len()})
		}
		_ = ti
	}
	p.prog = b.String()
	var m strings.Builder
	m.WriteString("package main\n\nimport (\n\t\"bufio\"\n\t\"fmt\"\n\t\"os\"\n\t\"runtime\"\n)\n\n")
	m.WriteString(genVectors(r.Rand("behaviour-vectors", idx)))
	m.WriteString("\nvar funcs = []struct {\n\tname string\n\tf    func(In) []interface{}\n}{\n")
	for _, f := range p.funcs {
		fmt.Fprintf(&m, "\t{%q, %s},\n", f.Name, f.Name)
	}
	m.WriteString("}\n")
	m.WriteString(driverTail)
	p.main = m.String()
	return p
}

func indent(s string) string {
	lines := strings.Split(strings.TrimRight(s, "\n"), "\n")
	for i, l := range lines {
		if l != "" {
			lines[i] = "\t" + l
		}
	}
	return strings.Join(lines, "\n") + "\n"
}

// ---------------------------------------------------------------------------
// records

type record struct {
	res, panicS, trace string
}

func parseRecords(out []byte) map[string]record {
	recs := map[string]record{}
	var cur string
	var rec record
	flush := func() {
		if cur != "" {
			recs[cur] = rec
		}
	}
	for _, line := range strings.Split(string(out), "\n") {
		switch {
		case strings.HasPrefix(line, "== "):
			flush()
			cur = strings.TrimPrefix(line, "== ")
			rec = record{}
		case strings.HasPrefix(line, "res"):
			rec.res = strings.TrimPrefix(line, "res")
		case strings.HasPrefix(line, "panic "):
			rec.panicS = strings.TrimPrefix(line, "panic ")
		case strings.HasPrefix(line, "trace "):
			rec.trace = strings.TrimPrefix(line, "trace ")
		default:
			if cur != "" && line != "" {
				rec.res += "\n" + line // a result that prints a newline
			}
		}
	}
	flush()
	return recs
}

// ---------------------------------------------------------------------------
// monitor C

type behStat struct {
	Instances   int            `json:"instances"`
	Triggered   int            `json:"triggered_with_fix"`
	NotTrigger  int            `json:"template_did_not_trigger"`
	FixRejected int            `json:"fix_failed_hygiene"`
	Compared    int            `json:"instances_compared"`
	Records     int            `json:"records_compared"`
	Outside     int            `json:"records_outside_precondition,omitempty"`
	NoCompare   string         `json:"not_compared_because,omitempty"`
	Differences map[string]int `json:"differences,omitempty"`
}

type behReplay struct {
	Check    string            `json:"check"`
	Program  string            `json:"program"`
	Function string            `json:"function"`
	Original string            `json:"original_function"`
	Fixed    string            `json:"fixed_function"`
	Fixes    []string          `json:"fixes_applied"`
	Vector   string            `json:"vector"`
	Before   map[string]string `json:"record_before"`
	After    map[string]string `json:"record_after"`
	Prelude  string            `json:"note"`
}

func goBuild(dir, out string, pkgs ...string) ([]byte, error) {
	args := append([]string{"build", "-o", out}, pkgs...)
	cmd := exec.Command("go", args...)
	cmd.Dir = dir
	cmd.Env = append(vf.GoEnv(), fmt.Sprintf("GOMAXPROCS=%d", workers()))
	return cmd.CombinedOutput()
}

func runBin(bin string) ([]byte, error) {
	cmd := exec.Command("timeout", "-s", "QUIT", "120", bin)
	var stdout, stderr bytes.Buffer
	cmd.Stdout = &stdout
	cmd.Stderr = &stderr
	err := cmd.Run()
	if err != nil {
		return stdout.Bytes(), fmt.Errorf("%v: %s", err, tail(stderr.String(), 400))
	}
	return stdout.Bytes(), nil
}

func tail(s string, n int) string {
	if len(s) > n {
		return "…" + s[len(s)-n:]
	}
	return s
}

// runBehaviour is monitor C. It also feeds the generated packages through
// monitors A and B (acc).
func runBehaviour(r *vf.Run, l *linter, acc *itemResult) (stats map[string]*behStat, evaluations int) {
	W := workers()
	stats = map[string]*behStat{}
	templateOf := map[string]template{}
	for _, t := range templates {
		templateOf[t.check] = t
		stats[t.check] = &behStat{NoCompare: t.noCompare, Differences: map[string]int{}}
	}
	perTemplate := r.Pick(16, 96)
	if v, err := strconv.Atoi(os.Getenv("C16_PER")); err == nil && v > 0 {
		perTemplate = v // development only
	}
	perProg := r.Pick(4, 8)
	nProg := (perTemplate + perProg - 1) / perProg
	root := filepath.Join(r.Scratch(), "beh")
	origDir, fixedDir, binDir := filepath.Join(root, "orig"), filepath.Join(root, "fixed"), filepath.Join(root, "bin")
	defer os.RemoveAll(root)
	const batch = 12 // programs per lint/build round
	for b0 := 0; b0 < nProg; b0 += batch {
		os.RemoveAll(root)
		for _, d := range []string{origDir, fixedDir, filepath.Join(binDir, "orig"), filepath.Join(binDir, "fixed")} {
			os.MkdirAll(d, 0o755)
		}
		var progs []*behProg
		for i := b0; i < nProg && i < b0+batch; i++ {
			progs = append(progs, genProgram(r, i, perProg))
		}
		for _, d := range []string{origDir, fixedDir} {
			os.WriteFile(filepath.Join(d, "go.mod"), []byte("module c16beh\n\ngo 1.22\n"), 0o644)
		}
		for _, p := range progs {
			os.MkdirAll(filepath.Join(origDir, p.dir), 0o755)
			os.WriteFile(filepath.Join(origDir, p.dir, "prog.go"), []byte(p.prog), 0o644)
			os.WriteFile(filepath.Join(origDir, p.dir, "main.go"), []byte(p.main), 0o644)
		}
		if d := os.Getenv("C16_DUMP"); d != "" { // development only
			exec.Command("cp", "-r", origDir, d).Run()
		}
		// lint through the real runner
		cfg := &packages.Config{Dir: origDir, Env: append(vf.GoEnv(), fmt.Sprintf("GOMAXPROCS=%d", W))}
		pkgs, failed, err := l.lint(cfg, []string{"./..."}, W)
		if err != nil {
			r.Inconclusive("behaviour: lint failed: %v", err)
			return
		}
		acc.counters["behaviour_programs"] += len(progs)
		acc.counters["behaviour_programs_discarded(do not type-check)"] += len(failed)
		byDir := map[string]pkgResult{}
		for _, p := range pkgs {
			byDir[filepath.Base(p.Spec.PkgPath)] = p
		}
		type applied struct {
			fn    *behFunc
			fixes []string
		}
		appliedOf := map[string][]applied{}
		var live []*behProg
		for _, p := range progs {
			pr, ok := byDir[p.dir]
			if !ok {
				continue
			}
			// monitors A and B over everything the generated package triggers
			acc.merge(processPackage(workItem{origin: "behaviour:" + p.dir, kind: "behaviour"}, pr))
			acc.counters["packages_analysed"]++
			acc.counters["packages_analysed:behaviour"]++

			ctx := newPkgCtx(pr.Spec)
			progPath := filepath.Join(origDir, p.dir, "prog.go")
			sortDiags(pr.Diags)
			var edits []runner.TextEdit
			var apps []applied
			for fi := range p.funcs {
				fn := &p.funcs[fi]
				st := stats[fn.Check]
				st.Instances++
				var fixesApplied []string
				withFix := 0
				for _, d := range pr.Diags {
					if d.Category != fn.Check || d.Position.Filename != progPath || d.Position.Offset < fn.start || d.Position.Offset >= fn.end || len(d.SuggestedFixes) == 0 {
						continue
					}
					withFix++
					frng := r.Rand("behaviour-fixchoice/"+fn.Name, p.idx*100+withFix)
					sf := d.SuggestedFixes[frng.IntN(len(d.SuggestedFixes))]
					o := ctx.checkFix("behaviour:"+p.dir, d, sf, true)
					if o.key != "" || !o.checked {
						st.FixRejected++ // reported by monitor B above
						continue
					}
					ne := normEdits(sf.TextEdits)
					clash := false
					for _, e := range ne {
						if e.Position.Offset < fn.start || e.End.Offset > fn.end {
							clash = true
						}
						for _, x := range edits {
							if e.Position.Offset < x.End.Offset && x.Position.Offset < e.End.Offset {
								clash = true
							}
						}
					}
					if clash {
						continue
					}
					edits = append(edits, ne...)
					fixesApplied = append(fixesApplied, fmt.Sprintf("%s at %d:%d: %s", d.Category, d.Position.Line, d.Position.Column, sf.Message))
				}
				if withFix == 0 {
					st.NotTrigger++
					continue
				}
				st.Triggered++
				if len(fixesApplied) > 0 {
					apps = append(apps, applied{fn, fixesApplied})
				}
			}
			sort.SliceStable(edits, func(i, j int) bool { return edits[i].Position.Offset < edits[j].Position.Offset })
			fixed := applyEdits([]byte(p.prog), edits)
			os.MkdirAll(filepath.Join(fixedDir, p.dir), 0o755)
			os.WriteFile(filepath.Join(fixedDir, p.dir, "prog.go"), fixed, 0o644)
			os.WriteFile(filepath.Join(fixedDir, p.dir, "main.go"), []byte(p.main), 0o644)
			appliedOf[p.dir] = apps
			live = append(live, p)
		}
		if len(live) == 0 {
			continue
		}
		// build: one binary per program and version
		var dirs []string
		for _, p := range live {
			dirs = append(dirs, "./"+p.dir)
		}
		if out, err := goBuild(origDir, filepath.Join(binDir, "orig")+"/", dirs...); err != nil {
			r.Inconclusive("behaviour: generated programs do not build: %s", tail(string(out), 600))
			return
		}
		fixedOK := map[string]bool{}
		if out, err := goBuild(fixedDir, filepath.Join(binDir, "fixed")+"/", dirs...); err != nil {
			// find the programs that broke
			for _, p := range live {
				o2, err2 := goBuild(fixedDir, filepath.Join(binDir, "fixed", p.dir), "./"+p.dir)
				if err2 != nil {
					var checks []string
					for _, a := range appliedOf[p.dir] {
						checks = append(checks, a.fn.Check)
					}
					fx, _ := os.ReadFile(filepath.Join(fixedDir, p.dir, "prog.go"))
					acc.viols = append(acc.viols, violation{"fixed-program-does-not-compile", fmt.Sprintf("program %s compiles before and not after applying the fixes (each passed the separate type-check): %s", p.dir, tail(string(o2), 500)),
						map[string]any{"program": p.prog, "fixed": string(fx), "compiler": string(o2), "checks": checks}})
					continue
				}
				fixedOK[p.dir] = true
			}
			_ = out
		} else {
			for _, p := range live {
				fixedOK[p.dir] = true
			}
		}
		// run and compare
		type runOut struct {
			before, after []byte
			errB, errA    error
		}
		outs := make([]runOut, len(live))
		sem := make(chan struct{}, W)
		var wg sync.WaitGroup
		for i, p := range live {
			if !fixedOK[p.dir] {
				continue
			}
			wg.Add(1)
			sem <- struct{}{}
			go func(i int, p *behProg) {
				defer wg.Done()
				defer func() { <-sem }()
				outs[i].before, outs[i].errB = runBin(filepath.Join(binDir, "orig", p.dir))
				outs[i].after, outs[i].errA = runBin(filepath.Join(binDir, "fixed", p.dir))
			}(i, p)
		}
		wg.Wait()
		for i, p := range live {
			if !fixedOK[p.dir] {
				continue
			}
			if outs[i].errB != nil || outs[i].errA != nil {
				r.Inconclusive("behaviour: program %s did not run to completion: %v / %v", p.dir, outs[i].errB, outs[i].errA)
				continue
			}
			before, after := parseRecords(outs[i].before), parseRecords(outs[i].after)
			fixedSrc, _ := os.ReadFile(filepath.Join(fixedDir, p.dir, "prog.go"))
			for _, a := range appliedOf[p.dir] {
				st := stats[a.fn.Check]
				if a.fn.NoCompare != "" {
					continue
				}
				st.Compared++
				reported := map[string]bool{}
				for vi := 0; ; vi++ {
					k := fmt.Sprintf("%s #%d", a.fn.Name, vi)
					rb, ok := before[k]
					if !ok {
						break
					}
					ra, ok2 := after[k]
					if tp := templateOf[a.fn.Check]; tp.outside != nil && tp.outside(rb) {
						st.Outside++
						continue
					}
					st.Records++
					evaluations++
					if !ok2 {
						ra = record{panicS: "(record missing)"}
					}
					var what string
					switch {
					case rb.panicS != ra.panicS && rb.panicS == "none":
						what = "panic-added"
					case rb.panicS != ra.panicS && ra.panicS == "none":
						what = "panic-removed"
					case rb.panicS != ra.panicS:
						what = "panic-changed"
					case rb.trace != ra.trace:
						what = "trace"
					case rb.res != ra.res:
						what = "result"
					}
					if what == "" {
						continue
					}
					st.Differences[what]++
					if reported[what] {
						continue
					}
					reported[what] = true
					rp := behReplay{Check: a.fn.Check, Program: p.dir, Function: a.fn.Name, Original: a.fn.Src, Fixed: extractFunc(string(fixedSrc), a.fn.Name), Fixes: a.fixes,
						Vector:  fmt.Sprintf("vectors[%d] of %s", vi, vectorLine(p.main, vi)),
						Before:  map[string]string{"res": rb.res, "panic": rb.panicS, "trace": rb.trace},
						After:   map[string]string{"res": ra.res, "panic": ra.panicS, "trace": ra.trace},
						Prelude: "tr/trb/trs/… append (id, value) to the trace and return their argument; see harness/c16/templates.go (prelude, funcHead)"}
					acc.viols = append(acc.viols, violation{"fix-changes-behaviour:" + a.fn.Check + ":" + what,
						fmt.Sprintf("%s fix changes %s of %s on vector %d: before res=%s panic=%s trace=%s; after res=%s panic=%s trace=%s", a.fn.Check, what, a.fn.Name, vi, rb.res, rb.panicS, rb.trace, ra.res, ra.panicS, ra.trace), rp})
				}
			}
		}
	}
	return stats, evaluations
}

func extractFunc(src, name string) string {
	i := strings.Index(src, "func "+name+"(")
	if i < 0 {
		return ""
	}
	j := strings.Index(src[i:], "\n}\n")
	if j < 0 {
		return src[i:]
	}
	return src[i : i+j+3]
}

func vectorLine(mainSrc string, vi int) string {
	i := strings.Index(mainSrc, "var vectors = []In{\n")
	if i < 0 {
		return ""
	}
	lines := strings.Split(mainSrc[i:], "\n")
	if vi+1 < len(lines) {
		return strings.TrimSpace(lines[vi+1])
	}
	return ""
}
