// Package c16 monitors property C16: diagnostics point at real locations,
// suggested fixes apply cleanly (bounds, overlap, parse, type-check) and the
// fixes of the S*/QF* categories keep the behaviour of the affected function.
package c16

import (
	"crypto/sha256"
	"fmt"
	"io"
	"os"
	"runtime"
	"sort"
	"strconv"
	"sync"

	"golang.org/x/tools/go/analysis"
	"golang.org/x/tools/go/packages"
	"honnef.co/go/tools/analysis/lint"
	"honnef.co/go/tools/config"
	"honnef.co/go/tools/go/loader"
	"honnef.co/go/tools/lintcmd/cache"
	"honnef.co/go/tools/lintcmd/runner"
	"honnef.co/go/tools/quickfix"
	"honnef.co/go/tools/simple"
	"honnef.co/go/tools/staticcheck"
	"honnef.co/go/tools/stylecheck"
)

// workers is the size of every worker pool of this check (VERIF_WORKERS
// throttles it; performance only, results are collected by index).
func workers() int {
	w := runtime.GOMAXPROCS(0)
	if v, err := strconv.Atoi(os.Getenv("VERIF_WORKERS")); err == nil && v > 0 && v < w {
		w = v
	}
	return w
}

// allAnalyzers returns every real analyzer of the four categories, sorted by name.
func allAnalyzers() []*analysis.Analyzer {
	var out []*analysis.Analyzer
	add := func(as []*lint.Analyzer) {
		for _, a := range as {
			out = append(out, a.Analyzer)
		}
	}
	add(simple.Analyzers)
	add(staticcheck.Analyzers)
	add(stylecheck.Analyzers)
	add(quickfix.Analyzers)
	sort.Slice(out, func(i, j int) bool { return out[i].Name < out[j].Name })
	return out
}

// linter drives the exported runner API in-process (this is what carries
// suggested fixes; the CLI formatters drop them).
type linter struct {
	mu        sync.Mutex
	cache     *cache.DiskCache
	analyzers []*analysis.Analyzer
}

var saltOnce sync.Once

func newLinter(cacheDir string) (*linter, error) {
	var serr error
	saltOnce.Do(func() {
		p, err := os.Executable()
		if err != nil {
			serr = err
			return
		}
		f, err := os.Open(p)
		if err != nil {
			serr = err
			return
		}
		defer f.Close()
		h := sha256.New()
		if _, err := io.Copy(h, f); err != nil {
			serr = err
			return
		}
		cache.SetSalt(h.Sum(nil))
	})
	if serr != nil {
		return nil, serr
	}
	if err := os.MkdirAll(cacheDir, 0o755); err != nil {
		return nil, err
	}
	c, err := cache.Open(cacheDir)
	if err != nil {
		return nil, err
	}
	return &linter{cache: c, analyzers: allAnalyzers()}, nil
}

// pkgResult is one analysed (initial) package.
type pkgResult struct {
	Spec  *loader.PackageSpec
	Diags []runner.Diagnostic
}

var runMu sync.Mutex

// lint runs all analyzers over patterns below cfg.Dir and returns the
// initial packages that were analysed without errors, sorted by ID, plus the
// IDs of the packages that failed (type errors etc.: not under obligation).
// maxProcs bounds the runner's internal parallelism.
func (l *linter) lint(cfg *packages.Config, patterns []string, maxProcs int) (out []pkgResult, failed []string, err error) {
	defer func() {
		if e := recover(); e != nil {
			err = fmt.Errorf("runner panicked: %v", e)
		}
	}()
	// One Run at a time in this process: the runner and the loader are built for one run per
	// process (go/loader keeps an unsynchronised package-level build-id cache; two concurrent
	// Runs die with "concurrent map read and map write" — seen on an idle 16-core machine,
	// never on the loaded one). A run parallelises internally over all cores.
	_ = maxProcs
	runMu.Lock()
	defer runMu.Unlock()
	r, rerr := runner.New(config.Config{}, l.cache)
	if rerr != nil {
		return nil, nil, rerr
	}
	res, err := r.Run(cfg, l.analyzers, patterns)
	if err != nil {
		return nil, nil, err
	}
	for _, rr := range res {
		if !rr.Initial || rr.Skipped {
			continue
		}
		if rr.Failed || len(rr.Errors) > 0 || len(rr.Package.Errors) > 0 {
			failed = append(failed, rr.Package.ID)
			continue
		}
		data, err := rr.Load()
		if err != nil {
			return nil, nil, err
		}
		out = append(out, pkgResult{Spec: rr.Package, Diags: data.Diagnostics})
	}
	sort.Strings(failed)
	sort.Slice(out, func(i, j int) bool { return out[i].Spec.ID < out[j].Spec.ID })
	return out, failed, nil
}
