package declgen

// declgen — seeded generator of *declaration graphs* for the U1000 checks
// (C07, C17; reusable by any check that needs packages with a rich mix of used
// and unused declarations).
//
// Exported API
//
//	p := declgen.DeclGen(rng, declgen.DeclOptions{Path: "example.com/x/p0001"})
//	p.Name                 package name ("p" or "main")
//	p.Path                 import path (the external test file imports it)
//	p.Files[i].Name        "a.go", "b.go", "c.go", "p_test.go" (package p), "x_test.go" (package p_test)
//	p.Files[i].Kind        DeclNormal | DeclInTest | DeclExtTest
//	p.Files[i].Header      package clause + imports (+ optional "Code generated" marker)
//	p.Files[i].Decls       top-level declarations, one string each; a const group
//	                       / iota block is ONE element, so permuting Decls keeps it intact
//	p.Files[i].Source()    Header + Decls joined by blank lines
//	p.Features             how many surviving lines carry each construct tag
//	p.Discarded            true if the repair loop did not converge (caller counts it)
//	p.Write(dir)           writes the files into dir
//
// Everything is a pure function of rng and the options. The package always
// type-checks (go/types, all three variants: p, p+in-package tests, p_test):
// generation is "hopeful" (interface assignments, instantiations, conversions
// that may or may not be legal) followed by a repair loop that type-checks and
// deletes the offending statement lines / declarations until no error is left.
//
// Constructs: structs (exported/unexported/blank fields, embedded values,
// embedded pointers, embedded interfaces, embedded aliases, anonymous struct
// fields, twin structs for conversions, NoCopy, structs.HostLayout), named
// non-struct types, types derived from structs, interfaces (fixed signature per
// method name, so implicit satisfaction is frequent; embedded; fmt.Stringer /
// sort.Interface / io.Writer / error shapes), generic structs / interfaces /
// functions with constraints, aliases, const singles / typed iota groups with
// blank-line sub-groups, multi-name specs and `_`, package-level vars (typed,
// initialised, multi-name, multi-value, `var _ I = (*T)(nil)`), functions,
// methods (value and pointer receivers), closures, method values and
// expressions, type switches and assertions, struct conversions (explicit,
// pointer, to/from anonymous, implicit), unsafe.Pointer conversions, local
// types/consts, write-only variables, in-package tests (sinks, export_test
// idiom, helpers) and external tests. Roots: exported objects, init, main.

import (
	"fmt"
	"go/ast"
	"go/importer"
	"go/parser"
	"go/token"
	"go/types"
	"math/rand/v2"
	"os"
	"path/filepath"
	"regexp"
	"sort"
	"strings"
	"sync"
)

const (
	DeclNormal = iota
	DeclInTest
	DeclExtTest
)

type DeclOptions struct {
	Path     string         // import path; default "example.com/dg"
	Size     int            // 1 small … 3 large; 0 = random
	Main     int            // 0 random (≈8 % main), 1 never, 2 always
	NoTests  bool           // no test files
	Importer types.Importer // importer used for validation; nil = shared source importer
}

type DeclFile struct {
	Name   string
	Kind   int
	Header string
	Decls  []string
}

func (f *DeclFile) Source() string {
	return f.Header + "\n" + strings.Join(f.Decls, "\n\n") + "\n"
}

type DeclPkg struct {
	Name      string
	Path      string
	Files     []*DeclFile
	Features  map[string]int
	Discarded bool
	Rounds    int // repair rounds used
	Removed   int // lines/declarations removed by the repair loop
}

func (p *DeclPkg) Write(dir string) error {
	if err := os.MkdirAll(dir, 0o755); err != nil {
		return err
	}
	for _, f := range p.Files {
		if err := os.WriteFile(filepath.Join(dir, f.Name), []byte(f.Source()), 0o644); err != nil {
			return err
		}
	}
	return nil
}

// ---------------------------------------------------------------------------
// default importer

type lockedImporter struct {
	mu  sync.Mutex
	imp types.Importer
}

func (l *lockedImporter) Import(path string) (*types.Package, error) {
	l.mu.Lock()
	defer l.mu.Unlock()
	return l.imp.Import(path)
}

var (
	dgImpOnce sync.Once
	dgImp     types.Importer
)

func dgDefaultImporter() types.Importer {
	dgImpOnce.Do(func() {
		dgImp = &lockedImporter{imp: importer.ForCompiler(token.NewFileSet(), "source", nil)}
	})
	return dgImp
}

type dgOverlayImporter struct {
	path string
	pkg  *types.Package
	next types.Importer
}

func (o *dgOverlayImporter) Import(path string) (*types.Package, error) {
	if path == o.path && o.pkg != nil {
		return o.pkg, nil
	}
	return o.next.Import(path)
}

// ---------------------------------------------------------------------------
// model

type dgLine struct {
	s   string
	del bool   // may be removed on its own
	tag string // construct tag for Features
}

type dgChunk struct {
	lines []dgLine
	file  int
	dead  bool
}

const (
	dkStruct = iota
	dkBasic  // type n int / string
	dkComp   // type n []T / map / func / chan
	dkDerived
	dkIface
	dkConstraint
	dkGenStruct
	dkGenIface
	dkAlias
)

type dgField struct {
	name     string // "" for embedded
	typ      string // type expression (embedded: T or *T)
	embedded bool
	embName  string // field name of an embedded field
	embIdx   int    // index of embedded type in g.types, -1 external
}

type dgType struct {
	idx     int
	name    string
	kind    int
	under   string    // dkBasic: int|string; dkComp/dkAlias/dkDerived: the type expression
	fields  []dgField // dkStruct, dkGenStruct
	body    string    // struct body text for twins / anonymous conversions ("" if not expressible)
	cons    string    // dkGenStruct/dkGenIface: constraint of T
	methods []dgMethod
	twin    int  // index of twin or -1
	target  int  // alias/derived: index of target type or -1
	tptr    bool // alias to pointer
	two     bool // generic with a second type parameter U any
	imeths  []string
}

type dgMethod struct {
	name string
	ptr  bool
	leaf bool
}

type dgParam struct{ name, typ string }

type dgFunc struct {
	idx     int
	name    string
	leaf    bool
	params  []dgParam
	results []string
	tparam  string // constraint if generic ("" otherwise)
	two     bool   // second type parameter U any
	inTest  bool
}

type dgVar struct {
	name   string
	typ    string
	inTest bool
}

type dgConst struct {
	name string
	typ  string // "" untyped int, "string" untyped string, or named/basic type
	str  bool
}

type dgFileB struct {
	name      string
	kind      int
	generated bool
}

type dg struct {
	rng     *rand.Rand
	opt     DeclOptions
	pkgName string
	types   []*dgType
	funcs   []*dgFunc
	vars    []*dgVar
	consts  []*dgConst
	chunks  []*dgChunk
	files   []*dgFileB
	nNormal int
	loc     int // counter for local names
}

// fixed signature per method name: implicit satisfaction becomes frequent
var dgMethSig = map[string][2]string{ // name -> params, results
	"m0": {"", "int"}, "m1": {"x int", "string"}, "m2": {"", ""}, "m3": {"x any", "bool"},
	"M0": {"", "int"}, "M1": {"s string", "bool"}, "M2": {"", ""},
	"String": {"", "string"}, "Error": {"", "string"},
	"Len": {"", "int"}, "Less": {"i, j int", "bool"}, "Swap": {"i, j int", ""},
	"Write": {"p []byte", "(int, error)"}, "Lock": {"", ""}, "Unlock": {"", ""},
	"get": {"", "int"},
}
var dgMethPool = []string{"m0", "m1", "m2", "m3", "M0", "M1", "M2", "m0", "m1", "M0", "String", "Error", "Write", "get"}

func dgMethArgs(name string) string {
	switch dgMethSig[name][0] {
	case "":
		return ""
	case "x int":
		return "1"
	case "x any":
		return "nil"
	case "s string":
		return `"a"`
	case "i, j int":
		return "0, 1"
	case "p []byte":
		return "nil"
	}
	return ""
}

func dgZero(res string) string {
	switch res {
	case "":
		return ""
	case "int":
		return "return 0"
	case "string":
		return `return ""`
	case "bool":
		return "return false"
	case "(int, error)":
		return "return 0, nil"
	}
	return "return *new(" + res + ")"
}

func (g *dg) p(pct int) bool { return g.rng.IntN(100) < pct }
func (g *dg) n(lo, hi int) int {
	if hi <= lo {
		return lo
	}
	return lo + g.rng.IntN(hi-lo+1)
}
func dgPick[T any](g *dg, a []T) T { return a[g.rng.IntN(len(a))] }

func (g *dg) exName(prefixLower string, i int, pct int) string {
	if g.p(pct) {
		return strings.ToUpper(prefixLower[:1]) + prefixLower[1:] + fmt.Sprint(i)
	}
	return prefixLower + fmt.Sprint(i)
}

var _ = sort.Strings
var _ ast.Node
var _ = parser.ParseFile

// ---------------------------------------------------------------------------
// phase 1: type skeletons; phase 2: bodies

func (g *dg) planTypes(n int) {
	for i := 0; i < n; i++ {
		t := &dgType{idx: i, twin: -1, target: -1}
		k := g.rng.IntN(100)
		switch {
		case k < 44:
			t.kind = dkStruct
			t.name = g.exName("t", i, 25)
		case k < 55:
			t.kind = dkBasic
			t.name = g.exName("n", i, 25)
			t.under = dgPick(g, []string{"int", "int", "string", "uint8"})
		case k < 67:
			t.kind = dkIface
			t.name = g.exName("i", i, 25)
		case k < 74:
			t.kind = dkComp
			t.name = g.exName("s", i, 25)
		case k < 79:
			t.kind = dkDerived
			t.name = g.exName("d", i, 25)
		case k < 87:
			t.kind = dkGenStruct
			t.name = g.exName("g", i, 25)
		case k < 90:
			t.kind = dkGenIface
			t.name = g.exName("j", i, 25)
		case k < 94:
			t.kind = dkConstraint
			t.name = g.exName("c", i, 20)
		default:
			t.kind = dkAlias
			t.name = g.exName("a", i, 25)
		}
		g.types = append(g.types, t)
	}
}

func (g *dg) typesOf(kinds ...int) []*dgType {
	var out []*dgType
	for _, t := range g.types {
		for _, k := range kinds {
			if t.kind == k {
				out = append(out, t)
			}
		}
	}
	return out
}

// safeArg returns a type argument that certainly satisfies constraint cons.
func (g *dg) safeArg(cons string) string {
	switch cons {
	case "any":
		c := []string{"int", "string", "bool"}
		for _, t := range g.typesOf(dkBasic) {
			c = append(c, t.name)
		}
		for _, t := range g.typesOf(dkStruct) {
			c = append(c, "*"+t.name)
		}
		return dgPick(g, c)
	case "comparable":
		c := []string{"int", "string"}
		for _, t := range g.typesOf(dkBasic) {
			c = append(c, t.name)
		}
		return dgPick(g, c)
	}
	// named constraint: all generated constraints admit ~int unless they carry methods
	for _, t := range g.types {
		if t.name == cons {
			if len(t.imeths) == 0 {
				c := []string{"int"}
				for _, b := range g.typesOf(dkBasic) {
					if b.under == "int" {
						c = append(c, b.name)
					}
				}
				return dgPick(g, c)
			}
			// needs methods: named int types that have them (hopeful otherwise)
			for _, b := range g.typesOf(dkBasic) {
				if b.under != "int" {
					continue
				}
				ok := true
				for _, m := range t.imeths {
					found := false
					for _, bm := range b.methods {
						if bm.name == m && !bm.ptr {
							found = true
						}
					}
					ok = ok && found
				}
				if ok {
					return b.name
				}
			}
			return ""
		}
	}
	return "int"
}

// arg2 returns ", X" (a second type argument for generics with two parameters) or "".
func (g *dg) arg2(two bool) string {
	if !two {
		return ""
	}
	c := []string{"int", "string", "bool", "[]int"}
	for _, t := range g.typesOf(dkBasic, dkStruct, dkComp, dkDerived) {
		c = append(c, t.name, t.name)
	}
	for _, t := range g.typesOf(dkStruct) {
		c = append(c, "*"+t.name)
	}
	return ", " + dgPick(g, c)
}

// valueRef: a type expression usable as a field/param/var type. byValueMax: named
// struct-like types may be used by value only if idx < byValueMax (no invalid recursion).
func (g *dg) valueRef(byValueMax int) string {
	for tries := 0; tries < 8; tries++ {
		k := g.rng.IntN(100)
		if k < 30 || len(g.types) == 0 {
			return dgPick(g, []string{"int", "int", "string", "bool", "[]byte", "error", "any", "[]int", "func() int"})
		}
		t := dgPick(g, g.types)
		switch t.kind {
		case dkConstraint:
			continue
		case dkGenStruct, dkGenIface:
			a := g.safeArg(t.cons)
			if a == "" {
				continue
			}
			inst := t.name + "[" + a + g.arg2(t.two) + "]"
			if t.kind == dkGenStruct && (t.idx >= byValueMax || g.p(40)) {
				return "*" + inst
			}
			return inst
		case dkIface:
			return t.name
		}
		wrap := g.rng.IntN(100)
		switch {
		case wrap < 35 && t.idx < byValueMax:
			return t.name
		case wrap < 65:
			return "*" + t.name
		case wrap < 80:
			return "[]" + t.name
		case wrap < 88:
			return "map[string]" + t.name
		case wrap < 94:
			return "func(" + t.name + ") int"
		default:
			return "chan " + t.name
		}
	}
	return "int"
}

func (g *dg) fillTypes() {
	for _, t := range g.types {
		switch t.kind {
		case dkStruct, dkGenStruct:
			if t.kind == dkGenStruct {
				t.cons = g.pickConstraint(t.idx)
				t.two = g.p(40)
			}
			// twin of an earlier plain struct?
			if t.kind == dkStruct && g.p(25) {
				var c []*dgType
				for _, o := range g.types[:t.idx] {
					if o.kind == dkStruct && len(o.fields) > 0 {
						c = append(c, o)
					}
				}
				if len(c) > 0 {
					o := dgPick(g, c)
					t.twin = o.idx
					t.fields = append([]dgField(nil), o.fields...)
					t.body = o.body
					break
				}
			}
			used := map[string]bool{}
			nf := g.n(0, 5)
			expressible := true
			for f := 0; f < nf; f++ {
				k := g.rng.IntN(100)
				switch {
				case k < 20 && t.idx > 0: // embedded
					o := g.types[g.rng.IntN(t.idx)]
					fld := dgField{embedded: true, embIdx: o.idx}
					switch o.kind {
					case dkStruct, dkDerived, dkBasic, dkComp:
						fld.embName = o.name
						fld.typ = o.name
						if o.kind != dkComp && g.p(40) {
							fld.typ = "*" + o.name
						}
					case dkIface:
						fld.embName, fld.typ = o.name, o.name
					case dkGenStruct:
						a := g.safeArg(o.cons)
						if a == "" {
							continue
						}
						fld.embName, fld.typ = o.name, o.name+"["+a+g.arg2(o.two)+"]"
					case dkAlias:
						if o.tptr || o.target < 0 {
							continue
						}
						fld.embName, fld.typ = o.name, o.name
					default:
						continue
					}
					if used[fld.embName] {
						continue
					}
					used[fld.embName] = true
					t.fields = append(t.fields, fld)
				case k < 24: // external embedded
					e := dgPick(g, []string{"sync.Mutex", "fmt.Stringer", "strings.Builder", "io.Writer"})
					nm := e[strings.Index(e, ".")+1:]
					if used[nm] {
						continue
					}
					used[nm] = true
					t.fields = append(t.fields, dgField{embedded: true, embName: nm, typ: e, embIdx: -1})
				case k < 28:
					t.fields = append(t.fields, dgField{name: "_", typ: g.valueRef(t.idx)})
				case k < 30:
					t.fields = append(t.fields, dgField{name: "_", typ: "structs.HostLayout"})
				case k < 36:
					nm := g.exName("f", f, 30)
					t.fields = append(t.fields, dgField{name: nm, typ: fmt.Sprintf("struct {\n\t\ta%d int\n\t\tB%d %s\n\t}", f, f, g.valueRef(t.idx))})
					expressible = false
				default:
					nm := g.exName("f", f, 30)
					typ := g.valueRef(t.idx)
					if t.kind == dkGenStruct && g.p(50) {
						typ = dgPick(g, []string{"T", "[]T", "*T", "func() T"})
						if t.two && g.p(50) {
							typ = dgPick(g, []string{"U", "[]U", "map[string]U"})
						}
					}
					t.fields = append(t.fields, dgField{name: nm, typ: typ})
				}
			}
			if expressible && t.kind == dkStruct {
				var b []string
				for _, f := range t.fields {
					if f.embedded {
						b = append(b, f.typ)
					} else {
						b = append(b, f.name+" "+f.typ)
					}
				}
				t.body = "struct{ " + strings.Join(b, "; ") + " }"
			}
		case dkComp:
			t.under = dgPick(g, []string{"[]", "map[string]", "func() ", "chan ", "[3]"}) + g.valueRef(0)
			if strings.HasPrefix(t.under, "[3]") {
				t.under = "[]" + t.under[3:]
			}
		case dkDerived:
			var c []*dgType
			for _, o := range g.types[:t.idx] {
				if o.kind == dkStruct || o.kind == dkBasic {
					c = append(c, o)
				}
			}
			if len(c) == 0 {
				t.kind, t.under = dkBasic, "int"
				break
			}
			o := dgPick(g, c)
			t.target, t.under = o.idx, o.name
			if o.kind == dkStruct {
				t.fields = o.fields
			}
		case dkAlias:
			var c []*dgType
			for _, o := range g.types[:t.idx] {
				if o.kind == dkStruct || o.kind == dkBasic || o.kind == dkIface || o.kind == dkGenStruct {
					c = append(c, o)
				}
			}
			if len(c) == 0 {
				t.under = "struct{ x int }"
				break
			}
			o := dgPick(g, c)
			t.target, t.under = o.idx, o.name
			if o.kind == dkGenStruct {
				a := g.safeArg(o.cons)
				if a == "" {
					a = "int"
				}
				t.under = o.name + "[" + a + g.arg2(o.two) + "]"
			}
			if o.kind == dkStruct {
				t.fields = o.fields
			}
			switch g.rng.IntN(10) {
			case 0, 1:
				t.under, t.tptr = "*"+t.under, true
			case 2:
				t.under, t.target = "[]"+t.under, -1
			}
		case dkIface:
			nm := g.n(1, 3)
			seen := map[string]bool{}
			for m := 0; m < nm; m++ {
				mn := dgPick(g, dgMethPool)
				if !seen[mn] {
					seen[mn] = true
					t.imeths = append(t.imeths, mn)
				}
			}
		case dkGenIface:
			t.cons = "any"
		case dkConstraint:
			if g.p(35) {
				t.imeths = []string{dgPick(g, []string{"m0", "M0", "m2"})}
			}
		}
		// methods
		switch t.kind {
		case dkStruct, dkBasic, dkComp, dkDerived, dkGenStruct:
			if strings.HasPrefix(t.under, "*") {
				break
			}
			seen := map[string]bool{}
			add := func(mn string, ptr bool) {
				if !seen[mn] {
					seen[mn] = true
					t.methods = append(t.methods, dgMethod{name: mn, ptr: ptr, leaf: g.p(40)})
				}
			}
			for m, nm := 0, g.n(0, 3); m < nm; m++ {
				add(dgPick(g, dgMethPool), g.p(50) && t.kind != dkBasic)
			}
			if g.p(8) {
				pr := g.p(50)
				add("Len", pr)
				add("Less", pr)
				add("Swap", pr)
			}
			if t.kind == dkStruct && len(t.fields) == 0 && g.p(30) {
				t.methods = nil
				seen = map[string]bool{}
				add("Lock", true)
				if g.p(60) {
					add("Unlock", true)
				}
			}
		}
	}
}

func (g *dg) pickConstraint(before int) string {
	k := g.rng.IntN(100)
	if k < 45 {
		return "any"
	}
	if k < 60 {
		return "comparable"
	}
	var c []*dgType
	for _, o := range g.types[:before] {
		if o.kind == dkConstraint {
			c = append(c, o)
		}
	}
	if len(c) == 0 {
		return "any"
	}
	return dgPick(g, c).name
}

// ---------------------------------------------------------------------------
// expressions

type dgEnv struct {
	leaf    bool
	maxFunc int // leaf code may only call leaf funcs with idx < maxFunc
	params  []dgParam
	inTest  bool
	ext     bool // external test: qualify with p.
}

func (g *dg) typeByName(n string) *dgType {
	n = strings.TrimPrefix(n, "*")
	if i := strings.Index(n, "["); i > 0 {
		n = n[:i]
	}
	for _, t := range g.types {
		if t.name == n {
			return t
		}
	}
	return nil
}

func (g *dg) lit(t string) string {
	switch t {
	case "int", "uint8":
		return fmt.Sprint(g.rng.IntN(5))
	case "string":
		return dgPick(g, []string{`"a"`, `"b"`, `""`})
	case "bool":
		return dgPick(g, []string{"true", "false"})
	case "error", "any", "[]byte", "[]int":
		return "nil"
	case "func() int":
		return "func() int { return 1 }"
	}
	return ""
}

// val returns an expression of type t.
func (g *dg) val(t string, e *dgEnv, depth int) string {
	var c []string
	for _, p := range e.params {
		if p.typ == t && p.name != "_" {
			c = append(c, p.name, p.name)
		}
	}
	if !e.leaf && !e.ext {
		for _, v := range g.vars {
			if v.typ == t && (!v.inTest || e.inTest) {
				c = append(c, v.name)
			}
		}
	}
	if !e.ext {
		for _, k := range g.consts {
			if k.typ == t || (k.typ == "" && !k.str && (t == "int" || t == "uint8")) || (k.typ == "" && k.str && t == "string") {
				c = append(c, k.name)
			}
		}
	}
	if depth < 2 && !e.ext {
		for _, f := range g.funcs {
			if len(f.results) == 1 && f.results[0] == t && f.tparam == "" && (!f.inTest || e.inTest) {
				if e.leaf && (!f.leaf || f.idx >= e.maxFunc) {
					continue
				}
				c = append(c, g.callExpr(f, e, depth+1))
			}
		}
	}
	if l := g.lit(t); l != "" {
		c = append(c, l)
	}
	if tt := g.typeByName(t); tt != nil && !e.ext {
		ptr := strings.HasPrefix(t, "*")
		inst := strings.TrimPrefix(t, "*")
		switch tt.kind {
		case dkStruct, dkGenStruct:
			l := g.structLit(tt, inst, e, depth)
			if ptr {
				c = append(c, "&"+l, "new("+inst+")")
			} else {
				c = append(c, l, l)
			}
		case dkBasic:
			if !ptr {
				c = append(c, inst+"("+g.lit(tt.under)+")")
			}
		}
	}
	if strings.HasPrefix(t, "[]") && depth < 2 && g.p(50) {
		c = append(c, t+"{"+g.val(t[2:], e, depth+1)+"}")
	}
	if len(c) == 0 || g.p(8) {
		return "*new(" + t + ")"
	}
	return dgPick(g, c)
}

func (g *dg) structLit(t *dgType, inst string, e *dgEnv, depth int) string {
	if depth >= 2 || len(t.fields) == 0 || g.p(30) {
		return inst + "{}"
	}
	generic := t.kind == dkGenStruct
	if g.p(25) && !generic { // unkeyed, all fields
		var a []string
		for _, f := range t.fields {
			a = append(a, g.val(f.typ, e, depth+1))
		}
		return inst + "{" + strings.Join(a, ", ") + "}"
	}
	var a []string
	for _, f := range t.fields {
		if f.name == "_" || g.p(50) || strings.HasPrefix(f.typ, "struct") {
			continue
		}
		if generic && dgHasTP(f.typ) {
			continue
		}
		nm := f.name
		if f.embedded {
			nm = f.embName
		}
		a = append(a, nm+": "+g.val(f.typ, e, depth+1))
	}
	return inst + "{" + strings.Join(a, ", ") + "}"
}

func (g *dg) callExpr(f *dgFunc, e *dgEnv, depth int) string {
	var a []string
	for _, p := range f.params {
		a = append(a, g.val(p.typ, e, depth))
	}
	return f.name + "(" + strings.Join(a, ", ") + ")"
}

// instOf returns a value-type expression naming t (instantiated if generic), or "".
func (g *dg) instOf(t *dgType) string {
	switch t.kind {
	case dkGenStruct, dkGenIface:
		a := g.safeArg(t.cons)
		if a == "" || g.p(25) { // hopeful instantiation
			a = dgPick(g, []string{"int", "string", "bool"})
			if bs := g.typesOf(dkBasic, dkStruct); len(bs) > 0 && g.p(40) {
				a = dgPick(g, bs).name
			}
		}
		return t.name + "[" + a + g.arg2(t.two) + "]"
	case dkConstraint:
		return ""
	}
	return t.name
}

// selectable field paths of a struct-like type (own + through embedded structs)
func (g *dg) fieldPaths(t *dgType, depth int) [][2]string { // path, type
	var out [][2]string
	for _, f := range t.fields {
		if f.name == "_" {
			continue
		}
		if !f.embedded {
			out = append(out, [2]string{f.name, f.typ})
			if strings.HasPrefix(f.typ, "struct") {
				out = append(out, [2]string{f.name + ".a" + strings.TrimLeft(f.name, "fF"), "int"})
			}
			continue
		}
		out = append(out, [2]string{f.embName, f.typ})
		if f.embIdx >= 0 && depth < 2 {
			for _, sp := range g.fieldPaths(g.types[f.embIdx], depth+1) {
				out = append(out, [2]string{f.embName + "." + sp[0], sp[1]})
				out = append(out, [2]string{sp[0], sp[1]}) // promoted (hopeful)
			}
		}
	}
	return out
}

func (g *dg) methodNames(t *dgType) []string {
	var out []string
	for _, m := range t.methods {
		out = append(out, m.name)
	}
	// promoted (hopeful)
	for _, f := range t.fields {
		if f.embedded && f.embIdx >= 0 {
			for _, m := range g.types[f.embIdx].methods {
				out = append(out, m.name)
			}
			out = append(out, g.types[f.embIdx].imeths...)
		}
	}
	return out
}

var dgTPre = regexp.MustCompile(`\b[TU]\b`)

func dgHasTP(typ string) bool { return dgTPre.MatchString(typ) }

func (g *dg) local(prefix string) string {
	g.loc++
	return fmt.Sprintf("%s%d", prefix, g.loc)
}

// ---------------------------------------------------------------------------
// statements: each is ONE self-contained line (deletable on its own)

func (g *dg) callableFuncs(e *dgEnv) []*dgFunc {
	var out []*dgFunc
	for _, f := range g.funcs {
		if e.leaf && !f.leaf {
			continue
		}
		if f.inTest && !e.inTest {
			continue
		}
		out = append(out, f)
	}
	return out
}

func (g *dg) usableMethods(t *dgType, e *dgEnv) []string {
	var out []string
	for _, m := range t.methods {
		if e.leaf && !m.leaf {
			continue
		}
		out = append(out, m.name)
	}
	if !e.leaf {
		for _, f := range t.fields { // promoted, hopeful
			if f.embedded && f.embIdx >= 0 {
				for _, m := range g.types[f.embIdx].methods {
					out = append(out, m.name)
				}
				out = append(out, g.types[f.embIdx].imeths...)
			}
		}
	}
	return out
}

func (g *dg) stmt(e *dgEnv, depth int) dgLine {
	structs := g.typesOf(dkStruct, dkGenStruct, dkDerived)
	concrete := g.typesOf(dkStruct, dkGenStruct, dkDerived, dkBasic, dkComp)
	ifaces := g.typesOf(dkIface)
	for tries := 0; tries < 20; tries++ {
		switch k := g.rng.IntN(31); k {
		case 0, 1: // call
			fs := g.callableFuncs(e)
			if len(fs) == 0 {
				continue
			}
			f := dgPick(g, fs)
			if f.tparam != "" {
				a := g.safeArg(f.tparam)
				if a == "" || g.p(20) {
					a = dgPick(g, []string{"int", "string"})
				}
				if f.two {
					b := strings.TrimPrefix(g.arg2(true), ", ")
					if g.p(60) {
						return dgLine{"_ = " + f.name + "[" + a + ", " + b + "](" + g.val(a, e, 1) + ", " + g.val(b, e, 1) + ")", true, "generic-call-explicit-2"}
					}
					return dgLine{"_ = " + f.name + "(" + g.val(a, e, 1) + ", " + g.val(b, e, 1) + ")", true, "generic-call-inferred-2"}
				}
				if g.p(50) {
					return dgLine{"_ = " + f.name + "[" + a + "](" + g.val(a, e, 1) + ")", true, "generic-call-explicit"}
				}
				return dgLine{"_ = " + f.name + "(" + g.val(a, e, 1) + ")", true, "generic-call-inferred"}
			}
			call := g.callExpr(f, e, 1)
			switch len(f.results) {
			case 0:
				return dgLine{dgPick(g, []string{"", "", "defer ", "go "}) + call, true, "call"}
			case 1:
				return dgLine{"_ = " + call, true, "call"}
			default:
				return dgLine{"_, _ = " + call, true, "call"}
			}
		case 2: // function value
			fs := g.callableFuncs(e)
			if len(fs) == 0 {
				continue
			}
			f := dgPick(g, fs)
			if f.tparam != "" {
				return dgLine{"_ = " + f.name + "[int" + g.arg2(f.two) + "]", true, "generic-funcval"}
			}
			return dgLine{"_ = " + f.name, true, "funcval"}
		case 3, 4: // composite literal / value of a type
			if len(concrete) == 0 {
				continue
			}
			t := dgPick(g, concrete)
			in := g.instOf(t)
			if g.p(30) {
				in = "*" + in
			}
			return dgLine{"_ = " + g.val(in, e, 0), true, "value"}
		case 5, 6, 7: // field read
			if len(structs) == 0 {
				continue
			}
			t := dgPick(g, structs)
			ps := g.fieldPaths(t, 0)
			if len(ps) == 0 {
				continue
			}
			fp := dgPick(g, ps)
			in := g.instOf(t)
			base := g.val(in, e, 1)
			if g.p(30) {
				base = "(" + g.val("*"+in, e, 1) + ")"
			}
			return dgLine{"_ = " + base + "." + fp[0], true, "field-read"}
		case 8, 9: // field write
			if len(structs) == 0 {
				continue
			}
			t := dgPick(g, structs)
			ps := g.fieldPaths(t, 0)
			if len(ps) == 0 {
				continue
			}
			fp := dgPick(g, ps)
			in := g.instOf(t)
			x := g.local("x")
			rhs := "*new(" + fp[1] + ")"
			if !dgHasTP(fp[1]) && !strings.HasPrefix(fp[1], "struct") {
				rhs = g.val(fp[1], e, 1)
			}
			if strings.HasPrefix(fp[1], "struct") {
				return dgLine{fmt.Sprintf("{ %s := %s; %s.%s.B%s = %s.%s.B%s }", x, g.val("*"+in, e, 1), x, fp[0], strings.TrimLeft(fp[0], "fF"), x, fp[0], strings.TrimLeft(fp[0], "fF")), true, "field-write-nested"}
			}
			if t.kind == dkGenStruct && dgHasTP(fp[1]) {
				return dgLine{fmt.Sprintf("{ %s := %s; %s.%s = %s.%s }", x, g.val("*"+in, e, 1), x, fp[0], x, fp[0]), true, "field-write-generic"}
			}
			return dgLine{fmt.Sprintf("{ %s := %s; %s.%s = %s }", x, g.val("*"+in, e, 1), x, fp[0], rhs), true, "field-write"}
		case 10, 11: // method call / value / expression
			if len(concrete) == 0 {
				continue
			}
			t := dgPick(g, concrete)
			ms := g.usableMethods(t, e)
			if len(ms) == 0 {
				continue
			}
			m := dgPick(g, ms)
			in := g.instOf(t)
			recv := "(" + g.val("*"+in, e, 1) + ")"
			switch g.rng.IntN(5) {
			case 0:
				return dgLine{"_ = " + recv + "." + m, true, "method-value"}
			case 1:
				return dgLine{"_ = (*" + in + ")." + m, true, "method-expr"}
			case 2:
				return dgLine{"_ = " + in + "." + m, true, "method-expr"}
			}
			call := recv + "." + m + "(" + dgMethArgs(m) + ")"
			switch dgMethSig[m][1] {
			case "":
				return dgLine{call, true, "method-call"}
			case "(int, error)":
				return dgLine{"_, _ = " + call, true, "method-call"}
			}
			return dgLine{"_ = " + call, true, "method-call"}
		case 12, 13: // struct conversions
			var tw []*dgType
			for _, t := range g.types {
				if t.kind == dkStruct && (t.twin >= 0 || t.body != "") {
					tw = append(tw, t)
				}
			}
			if len(tw) == 0 {
				continue
			}
			t := dgPick(g, tw)
			switch {
			case t.twin >= 0 && g.p(60):
				o := g.types[t.twin]
				a, b := t.name, o.name
				if g.p(50) {
					a, b = b, a
				}
				if g.p(35) {
					return dgLine{"_ = (*" + a + ")(" + g.val("*"+b, e, 1) + ")", true, "conv-struct-ptr"}
				}
				return dgLine{"_ = " + a + "(" + g.val(b, e, 1) + ")", true, "conv-struct"}
			case t.body != "" && len(t.fields) > 0:
				switch g.rng.IntN(12) {
				case 0, 4, 5, 6, 7:
					return dgLine{"_ = " + t.name + "(" + t.body + "{})", true, "conv-from-anon"}
				case 1, 8, 9, 10, 11:
					return dgLine{"_ = " + t.body + "(" + g.val(t.name, e, 1) + ")", true, "conv-to-anon"}
				case 2:
					x := g.local("x")
					return dgLine{fmt.Sprintf("{ var %s %s = %s{}; _ = %s }", x, t.name, t.body, x), true, "implicit-conv-from-anon"}
				default:
					x := g.local("x")
					return dgLine{fmt.Sprintf("{ var %s %s = %s; _ = %s }", x, t.body, g.val(t.name, e, 1), x), true, "implicit-conv-to-anon"}
				}
			}
			continue
		case 14, 15: // interface assignment / call through interface
			if len(ifaces) == 0 || len(concrete) == 0 {
				continue
			}
			it := dgPick(g, ifaces)
			x := g.local("i")
			if g.p(35) && len(it.imeths) > 0 {
				m := dgPick(g, it.imeths)
				call := x + "." + m + "(" + dgMethArgs(m) + ")"
				return dgLine{fmt.Sprintf("{ var %s %s; if %s != nil { %s } }", x, it.name, x, strings.TrimSpace(g.discard(m)+call)), true, "iface-call"}
			}
			t := dgPick(g, concrete)
			if im := g.implementers(it); len(im) > 0 && g.p(75) {
				t = dgPick(g, im)
			}
			in := g.instOf(t)
			v := g.val("*"+in, e, 1)
			if g.p(30) {
				v = g.val(in, e, 1)
			}
			return dgLine{fmt.Sprintf("{ var %s %s = %s; _ = %s }", x, it.name, v, x), true, "iface-assign"}
		case 16: // type assertion
			if len(ifaces) == 0 || len(concrete) == 0 {
				continue
			}
			t := dgPick(g, concrete)
			v := "any(" + g.val(g.instOf(t), e, 1) + ")"
			if g.p(50) {
				return dgLine{"_, _ = " + v + ".(" + dgPick(g, ifaces).name + ")", true, "type-assert-iface"}
			}
			return dgLine{"_, _ = " + v + ".(*" + g.instOf(dgPick(g, concrete)) + ")", true, "type-assert-concrete"}
		case 17: // type switch
			if len(structs) == 0 {
				continue
			}
			t := dgPick(g, structs)
			in := g.instOf(t)
			x := g.local("x")
			s := fmt.Sprintf("switch %s := any(%s).(type) { case %s: _ = %s", x, g.val(in, e, 1), in, x)
			if ps := g.fieldPaths(t, 0); len(ps) > 0 {
				s += "; _ = " + x + "." + dgPick(g, ps)[0]
			}
			if len(ifaces) > 0 {
				it := dgPick(g, ifaces)
				s += fmt.Sprintf("; case %s: _ = %s", it.name, x)
				if len(it.imeths) > 0 {
					m := it.imeths[0]
					s += "; " + strings.TrimSpace(g.discard(m)+x+"."+m+"("+dgMethArgs(m)+")")
				}
			}
			return dgLine{s + "; default: _ = " + x + " }", true, "type-switch"}
		case 18, 19: // constants
			if len(g.consts) == 0 || e.ext {
				continue
			}
			c := dgPick(g, g.consts)
			switch {
			case !c.str && g.p(25):
				return dgLine{"_ = [" + c.name + " + 1]bool{}", true, "const-array-len"}
			case c.typ != "" && g.p(30):
				o := dgPick(g, g.consts)
				return dgLine{fmt.Sprintf("switch %s { case %s: case %s + %s: }", g.val(c.typ, e, 1), c.name, o.name, c.name), true, "const-switch"}
			}
			return dgLine{"_ = " + c.name, true, "const-read"}
		case 20, 21: // package variables
			if len(g.vars) == 0 || e.leaf || e.ext {
				continue
			}
			var vs []*dgVar
			for _, v := range g.vars {
				if !v.inTest || e.inTest {
					vs = append(vs, v)
				}
			}
			if len(vs) == 0 {
				continue
			}
			v := dgPick(g, vs)
			switch g.rng.IntN(6) {
			case 0, 1:
				return dgLine{v.name + " = " + g.val(v.typ, e, 1), true, "var-write"}
			case 2:
				if v.typ == "int" {
					return dgLine{dgPick(g, []string{v.name + "++", v.name + " += 2", "for " + v.name + " = range 3 {}"}), true, "var-write-int"}
				}
			}
			return dgLine{"_ = " + v.name, true, "var-read"}
		case 22: // unsafe
			if len(structs) == 0 || e.ext {
				continue
			}
			t := dgPick(g, structs)
			in := g.instOf(t)
			if g.p(50) {
				return dgLine{"_ = unsafe.Pointer(" + g.val("*"+in, e, 1) + ")", true, "unsafe-to"}
			}
			return dgLine{"_ = (*" + in + ")(unsafe.Pointer(new(int)))", true, "unsafe-from"}
		case 23: // generic types
			gs := g.typesOf(dkGenStruct, dkGenIface)
			if len(gs) == 0 {
				continue
			}
			t := dgPick(g, gs)
			x := g.local("v")
			return dgLine{fmt.Sprintf("{ var %s %s; _ = %s }", x, g.instOf(t), x), true, "generic-inst"}
		case 24: // closures
			if depth > 1 {
				continue
			}
			in := g.stmt(e, depth+1)
			if g.p(50) {
				return dgLine{"func() { " + in.s + " }()", true, "closure+" + in.tag}
			}
			return dgLine{"_ = func(x int) int { " + in.s + "; return x }", true, "closure+" + in.tag}
		case 25: // local declarations
			ln := g.local("loc")
			switch g.rng.IntN(4) {
			case 0:
				return dgLine{fmt.Sprintf("type %s struct { a int; b %s }", ln, g.valueRef(len(g.types))), true, "local-type-unreferenced"}
			case 1:
				return dgLine{fmt.Sprintf("{ type %s struct { a int; b %s }; _ = %s{}.a }", ln, g.valueRef(len(g.types)), ln), true, "local-type"}
			case 2:
				return dgLine{fmt.Sprintf("const %s = 3", ln), true, "local-const-unreferenced"}
			default:
				return dgLine{fmt.Sprintf("{ const %s = 3; _ = %s }", ln, ln), true, "local-const"}
			}
		case 26: // aliases
			as := g.typesOf(dkAlias)
			if len(as) == 0 {
				continue
			}
			x := g.local("v")
			return dgLine{fmt.Sprintf("{ var %s %s; _ = %s }", x, dgPick(g, as).name, x), true, "alias-use"}
		case 27: // external interfaces / packages
			if len(concrete) == 0 {
				continue
			}
			t := dgPick(g, concrete)
			v := g.val("*"+g.instOf(t), e, 1)
			switch g.rng.IntN(5) {
			case 0:
				return dgLine{"_ = fmt.Sprint(" + v + ")", true, "fmt"}
			case 1:
				return dgLine{"_ = fmt.Stringer(" + v + ")", true, "ext-iface-stringer"}
			case 2:
				return dgLine{"sort.Sort(" + v + ")", true, "ext-iface-sort"}
			case 3:
				return dgLine{"_, _ = io.WriteString(" + v + `, "x")`, true, "ext-iface-writer"}
			default:
				return dgLine{"_ = strings.ToUpper(" + g.val("string", e, 1) + ")", true, "strings"}
			}
		case 28: // range / index writes
			if len(structs) == 0 {
				continue
			}
			t := dgPick(g, structs)
			in := g.instOf(t)
			x := g.local("x")
			ps := g.fieldPaths(t, 0)
			if len(ps) == 0 || g.p(40) {
				return dgLine{fmt.Sprintf("for _, %s := range []%s{} { _ = %s }", x, in, x), true, "range"}
			}
			fp := dgPick(g, ps)
			if g.p(50) {
				return dgLine{fmt.Sprintf("for _, %s := range []%s{} { _ = %s.%s }", x, in, x, fp[0]), true, "range-field"}
			}
			return dgLine{fmt.Sprintf("{ var %s [2]%s; %s[0].%s = %s[1].%s }", x, in, x, fp[0], x, fp[0]), true, "index-write"}
		case 29: // receive / select
			if len(concrete) == 0 {
				continue
			}
			in := g.instOf(dgPick(g, concrete))
			x := g.local("ch")
			return dgLine{fmt.Sprintf("{ %s := make(chan %s, 1); select { case v := <-%s: _ = v; default: } }", x, in, x), true, "select"}
		case 30: // params
			if len(e.params) == 0 {
				continue
			}
			p := dgPick(g, e.params)
			if p.name == "_" {
				continue
			}
			if t := g.typeByName(p.typ); t != nil && (p.typ == t.name || p.typ == "*"+t.name) {
				if ps := g.fieldPaths(t, 0); len(ps) > 0 {
					return dgLine{"_ = " + p.name + "." + dgPick(g, ps)[0], true, "param-field"}
				}
				if ms := g.usableMethods(t, e); len(ms) > 0 {
					return dgLine{"_ = " + p.name + "." + dgPick(g, ms), true, "param-method-value"}
				}
			}
			return dgLine{"_ = " + p.name, true, "param-read"}
		}
	}
	return dgLine{"_ = 0", true, "nop"}
}

// implementers: concrete types whose declared or (one level) promoted methods cover it's own methods.
func (g *dg) implementers(it *dgType) []*dgType {
	var out []*dgType
	for _, t := range g.typesOf(dkStruct, dkGenStruct, dkBasic, dkComp, dkDerived) {
		have := map[string]bool{}
		for _, m := range g.methodNames(t) {
			have[m] = true
		}
		ok := len(it.imeths) > 0
		for _, m := range it.imeths {
			ok = ok && have[m]
		}
		if ok {
			out = append(out, t)
		}
	}
	return out
}

func (g *dg) discard(m string) string {
	switch dgMethSig[m][1] {
	case "":
		return ""
	case "(int, error)":
		return "_, _ = "
	}
	return "_ = "
}

func (g *dg) body(e *dgEnv, lo, hi int) []dgLine {
	var out []dgLine
	for i, n := 0, g.n(lo, hi); i < n; i++ {
		l := g.stmt(e, 0)
		l.s = "\t" + l.s
		out = append(out, l)
	}
	return out
}

// ---------------------------------------------------------------------------
// declarations

func (g *dg) add(file int, lines ...dgLine) *dgChunk {
	c := &dgChunk{lines: lines, file: file}
	g.chunks = append(g.chunks, c)
	return c
}

func fixed(s, tag string) dgLine { return dgLine{s, false, tag} }

func (g *dg) maybeIgnore(c *dgChunk) {
	if g.p(4) {
		c.lines = append([]dgLine{{"//lint:ignore U1000 kept on purpose", false, "lint-ignore"}}, c.lines...)
	}
}

func (g *dg) normalFile() int { return g.rng.IntN(g.nNormal) }

func (g *dg) emitTypes() {
	for _, t := range g.types {
		file := g.normalFile()
		var c *dgChunk
		switch t.kind {
		case dkStruct, dkGenStruct:
			head := "type " + t.name + " struct {"
			tag := "struct"
			if t.kind == dkGenStruct {
				head = "type " + t.name + "[T " + t.cons + "] struct {"
				if t.two {
					head = "type " + t.name + "[T " + t.cons + ", U any] struct {"
				}
				tag = "generic-struct"
			}
			if t.twin >= 0 {
				tag = "struct-twin"
			}
			ls := []dgLine{fixed(head, tag)}
			for i, f := range t.fields {
				// field lines of twins / expressible bodies are not individually deletable (shape must stay in sync)
				del := t.twin < 0 && t.body == ""
				switch {
				case f.embedded && f.embIdx < 0:
					ls = append(ls, dgLine{"\t" + f.typ, del, "embedded-external"})
				case f.embedded && strings.HasPrefix(f.typ, "*"):
					ls = append(ls, dgLine{"\t" + f.typ, del, "embedded-pointer"})
				case f.embedded:
					ls = append(ls, dgLine{"\t" + f.typ, del, "embedded-" + []string{"struct", "basic", "comp", "derived", "iface", "", "generic", "", "alias"}[g.types[f.embIdx].kind]})
				default:
					tg := ""
					if t.twin >= 0 && i%2 == 0 {
						tg = " `k:\"" + f.name + "\"`"
					}
					ftag := "field"
					if f.name == "_" {
						ftag = "field-blank"
					}
					if f.typ == "structs.HostLayout" {
						ftag = "field-hostlayout"
					}
					if strings.HasPrefix(f.typ, "struct") {
						ftag = "field-anon-struct"
					}
					ls = append(ls, dgLine{"\t" + f.name + " " + f.typ + tg, del, ftag})
				}
			}
			ls = append(ls, fixed("}", ""))
			c = g.add(file, ls...)
		case dkBasic:
			c = g.add(file, fixed("type "+t.name+" "+t.under, "named-basic"))
		case dkComp:
			c = g.add(file, fixed("type "+t.name+" "+t.under, "named-composite"))
		case dkDerived:
			c = g.add(file, fixed("type "+t.name+" "+t.under, "named-derived"))
		case dkAlias:
			c = g.add(file, fixed("type "+t.name+" = "+t.under, "alias"))
		case dkIface, dkConstraint, dkGenIface:
			head := "type " + t.name + " interface {"
			tag := "interface"
			if t.kind == dkGenIface {
				head = "type " + t.name + "[T any] interface {"
				tag = "generic-interface"
			}
			if t.kind == dkConstraint {
				tag = "constraint"
			}
			ls := []dgLine{fixed(head, tag)}
			switch t.kind {
			case dkConstraint:
				ls = append(ls, fixed("\t"+dgPick(g, []string{"~int | ~string", "~int", "~int | ~uint8 | ~string"}), "type-set"))
			case dkGenIface:
				ls = append(ls, fixed("\tget() T", "iface-method-generic"))
			case dkIface:
				if g.p(15) && t.idx > 0 {
					var c []*dgType
					for _, o := range g.types[:t.idx] {
						if o.kind == dkIface {
							c = append(c, o)
						}
					}
					if len(c) > 0 {
						ls = append(ls, dgLine{"\t" + dgPick(g, c).name, true, "iface-embedded"})
					}
				}
				if g.p(8) {
					ls = append(ls, dgLine{"\t" + dgPick(g, []string{"fmt.Stringer", "sort.Interface", "io.Writer", "error"}), true, "iface-embedded-external"})
				}
			}
			for _, m := range t.imeths {
				r := dgMethSig[m][1]
				ls = append(ls, dgLine{"\t" + m + "(" + dgMethSig[m][0] + ") " + r, t.kind == dkIface, "iface-method"})
			}
			ls = append(ls, fixed("}", ""))
			c = g.add(file, ls...)
		}
		if c != nil && !ast.IsExported(t.name) {
			g.maybeIgnore(c)
		}
		// methods
		for _, m := range t.methods {
			rn := dgPick(g, []string{"r", "r", "_", ""})
			rt := t.name
			if t.kind == dkGenStruct {
				rt += map[bool]string{false: "[T]", true: "[T, U]"}[t.two]
			}
			if m.ptr {
				rt = "*" + rt
			}
			sig := dgMethSig[m.name]
			res := sig[1]
			if m.name == "get" && t.kind == dkGenStruct {
				res = "T"
			}
			recv := rt
			if rn != "" {
				recv = rn + " " + rt
			}
			e := &dgEnv{leaf: m.leaf}
			if rn == "r" && t.kind != dkGenStruct {
				e.params = append(e.params, dgParam{"r", rt})
			}
			tag := "method-value-recv"
			if m.ptr {
				tag = "method-pointer-recv"
			}
			ls := []dgLine{fixed("func ("+recv+") "+m.name+"("+sig[0]+") "+res+" {", tag)}
			ls = append(ls, g.body(e, 0, 3)...)
			if z := dgZero(res); z != "" {
				ls = append(ls, fixed("\t"+z, ""))
			}
			ls = append(ls, fixed("}", ""))
			g.add(g.normalFile(), ls...)
		}
	}
}

func (g *dg) planFuncs(n int) {
	for i := 0; i < n; i++ {
		f := &dgFunc{idx: i, leaf: g.p(40)}
		f.name = g.exName("fn", i, 22)
		if g.p(14) {
			f.name = g.exName("h", i, 22)
			f.tparam = g.pickConstraint(len(g.types))
			f.params = []dgParam{{"x", "T"}}
			f.results = []string{"T"}
			if g.p(40) {
				f.two = true
				f.params = append(f.params, dgParam{"y", "U"})
			}
		} else {
			for p, np := 0, g.n(0, 3); p < np; p++ {
				nm := fmt.Sprintf("p%d", p)
				if g.p(8) {
					nm = "_"
				}
				f.params = append(f.params, dgParam{nm, g.valueRef(len(g.types))})
			}
			for r, nr := 0, g.n(0, 2); r < nr; r++ {
				f.results = append(f.results, g.valueRef(len(g.types)))
			}
		}
		g.funcs = append(g.funcs, f)
	}
}

func (g *dg) funcChunk(f *dgFunc, file int, lo, hi int) *dgChunk {
	var ps []string
	for _, p := range f.params {
		ps = append(ps, p.name+" "+p.typ)
	}
	head := "func " + f.name
	tag := "func"
	if f.tparam != "" {
		if f.two {
			head += "[T " + f.tparam + ", U any]"
		} else {
			head += "[T " + f.tparam + "]"
		}
		tag = "generic-func"
	}
	head += "(" + strings.Join(ps, ", ") + ")"
	switch len(f.results) {
	case 0:
	case 1:
		head += " " + f.results[0]
	default:
		head += " (" + strings.Join(f.results, ", ") + ")"
	}
	e := &dgEnv{leaf: f.leaf, inTest: f.inTest}
	if f.tparam == "" {
		e.params = f.params
	}
	ls := []dgLine{fixed(head+" {", tag)}
	ls = append(ls, g.body(e, lo, hi)...)
	if len(f.results) > 0 {
		var z []string
		for _, r := range f.results {
			if f.tparam != "" {
				z = append(z, "x")
			} else {
				z = append(z, "*new("+r+")")
			}
		}
		ls = append(ls, fixed("\treturn "+strings.Join(z, ", "), ""))
	}
	ls = append(ls, fixed("}", ""))
	return g.add(file, ls...)
}

func (g *dg) emitFuncs() {
	for _, f := range g.funcs {
		c := g.funcChunk(f, g.normalFile(), 0, 5)
		if !ast.IsExported(f.name) {
			g.maybeIgnore(c)
		}
	}
	// roots
	if g.pkgName == "main" {
		ls := []dgLine{fixed("func main() {", "main")}
		ls = append(ls, g.body(&dgEnv{}, 2, 6)...)
		g.add(g.normalFile(), append(ls, fixed("}", ""))...)
	}
	if g.p(60) {
		ls := []dgLine{fixed("func init() {", "init")}
		ls = append(ls, g.body(&dgEnv{}, 1, 5)...)
		g.add(g.normalFile(), append(ls, fixed("}", ""))...)
	}
	if g.p(15) {
		g.add(g.normalFile(), fixed("func _() {", "blank-func"), g.body(&dgEnv{}, 1, 1)[0], fixed("}", ""))
	}
}

func (g *dg) emitConsts(n int) {
	intTypes := []string{"", "", "int"}
	for _, t := range g.typesOf(dkBasic) {
		if t.under != "string" {
			intTypes = append(intTypes, t.name, t.name)
		}
	}
	ci := 0
	name := func(pct int) string { ci++; return g.exName("k", ci, pct) }
	ref := func() string {
		var c []string
		for _, k := range g.consts {
			if !k.str && k.typ == "" {
				c = append(c, k.name)
			}
		}
		if len(c) == 0 {
			return "1"
		}
		return dgPick(g, c)
	}
	for i := 0; i < n; i++ {
		file := g.normalFile()
		switch k := g.rng.IntN(10); {
		case k < 3: // single
			nm := name(20)
			if g.p(25) {
				g.consts = append(g.consts, &dgConst{name: nm, str: true})
				g.maybeIgnore(g.add(file, fixed("const "+nm+` = "s`+fmt.Sprint(ci)+`"`, "const-single")))
			} else {
				typ := dgPick(g, intTypes)
				expr := fmt.Sprint(g.rng.IntN(9) + 1)
				if g.p(35) {
					expr = ref() + " + " + expr
				}
				line := "const " + nm + " = " + expr
				if typ != "" {
					line = "const " + nm + " " + typ + " = " + expr
				}
				g.consts = append(g.consts, &dgConst{name: nm, typ: typ})
				g.maybeIgnore(g.add(file, fixed(line, "const-single")))
			}
		case k < 4: // multi-name single spec
			a, b := name(15), name(15)
			g.consts = append(g.consts, &dgConst{name: a}, &dgConst{name: b})
			g.add(file, fixed(fmt.Sprintf("const %s, %s = %d, %s + 1", a, b, g.rng.IntN(5)+1, ref()), "const-multi-name"))
		default: // group
			typ := dgPick(g, intTypes)
			ls := []dgLine{fixed("const (", "const-group")}
			var pending []*dgConst
			nsub := g.n(1, 3)
			for s := 0; s < nsub; s++ {
				if s > 0 && g.p(70) {
					ls = append(ls, dgLine{"", true, "const-subgroup-gap"})
				}
				// head of sub group: explicit expr or continue implicit repetition
				explicit := s == 0 || g.p(50)
				for j, m := 0, g.n(1, 4); j < m; j++ {
					nm := name(12)
					if g.p(8) {
						nm = "_"
					}
					var line, tag string
					switch {
					case j == 0 && explicit:
						expr := dgPick(g, []string{"iota", "iota", "iota + 1", "1 << iota", "iota * " + ref(), ref() + " + iota"})
						tag = "const-iota-head"
						if typ != "" {
							line = "\t" + nm + " " + typ + " = " + expr
						} else {
							line = "\t" + nm + " = " + expr
						}
					case g.p(10):
						line, tag = "\t"+nm+" = "+ref()+" + 10", "const-group-explicit"
					case g.p(6):
						nm2 := name(12)
						pending = append(pending, &dgConst{name: nm2})
						line, tag = "\t"+nm+", "+nm2+" = iota, iota * 2", "const-group-multi-name"
					default:
						line, tag = "\t"+nm, "const-implicit"
					}
					if nm != "_" {
						ct := typ
						if tag == "const-group-explicit" || tag == "const-group-multi-name" {
							ct = ""
						}
						pending = append(pending, &dgConst{name: nm, typ: ct})
					}
					ls = append(ls, dgLine{line, j > 0 || s > 0, tag})
				}
			}
			ls = append(ls, fixed(")", ""))
			g.add(file, ls...)
			g.consts = append(g.consts, pending...)
		}
	}
}

func (g *dg) emitVars(n int) {
	vi := 0
	name := func() string { vi++; return g.exName("v", vi, 20) }
	e := &dgEnv{leaf: true}
	for i := 0; i < n; i++ {
		file := g.normalFile()
		switch k := g.rng.IntN(20); {
		case k < 5: // typed, no init
			nm, typ := name(), g.valueRef(len(g.types))
			g.maybeIgnore(g.add(file, fixed("var "+nm+" "+typ, "var-typed")))
			g.vars = append(g.vars, &dgVar{name: nm, typ: typ})
		case k < 10: // typed with init
			nm, typ := name(), g.valueRef(len(g.types))
			g.add(file, fixed("var "+nm+" "+typ+" = "+g.val(typ, e, 0), "var-typed-init"))
			g.vars = append(g.vars, &dgVar{name: nm, typ: typ})
		case k < 13: // untyped with init (type known to us)
			nm, typ := name(), g.valueRef(len(g.types))
			g.add(file, fixed("var "+nm+" = "+g.val(typ, e, 0), "var-init"))
			g.vars = append(g.vars, &dgVar{name: nm, typ: "?" + typ}) // static type may differ (untyped consts): never used as a typed value
		case k < 15: // multi-name, one value each
			a, b := name(), name()
			ta, tb := g.valueRef(len(g.types)), g.valueRef(len(g.types))
			g.add(file, fixed(fmt.Sprintf("var %s, %s = %s, %s", a, b, g.val(ta, e, 0), g.val(tb, e, 0)), "var-multi-name"))
			g.vars = append(g.vars, &dgVar{name: a, typ: "?"}, &dgVar{name: b, typ: "?"})
		case k < 16: // multi-value
			var fs []*dgFunc
			for _, f := range g.funcs {
				if f.leaf && len(f.results) == 2 && f.tparam == "" {
					fs = append(fs, f)
				}
			}
			if len(fs) == 0 {
				continue
			}
			f := dgPick(g, fs)
			a, b := name(), name()
			if g.p(30) {
				b = "_"
			}
			g.add(file, fixed(fmt.Sprintf("var %s, %s = %s", a, b, g.callExpr(f, e, 1)), "var-multi-value"))
			g.vars = append(g.vars, &dgVar{name: a, typ: f.results[0]})
			if b != "_" {
				g.vars = append(g.vars, &dgVar{name: b, typ: f.results[1]})
			}
		case k < 18: // interface satisfaction idiom
			is, cs := g.typesOf(dkIface), g.typesOf(dkStruct, dkBasic, dkDerived)
			if len(is) == 0 || len(cs) == 0 {
				continue
			}
			it := dgPick(g, is)
			ct := dgPick(g, cs)
			if im := g.implementers(it); len(im) > 0 {
				ct = dgPick(g, im)
			}
			if ct.kind == dkGenStruct {
				continue
			}
			g.add(file, fixed(fmt.Sprintf("var _ %s = (*%s)(nil)", it.name, ct.name), "var-blank-iface"))
		case k < 19: // blank var keeping something alive
			st := g.stmt(e, 1)
			if strings.HasPrefix(st.s, "_ = ") {
				g.add(file, fixed("var "+st.s, "var-blank+"+st.tag))
			}
		default: // grouped
			ls := []dgLine{fixed("var (", "var-group")}
			for j, m := 0, g.n(2, 3); j < m; j++ {
				nm, typ := name(), g.valueRef(len(g.types))
				if g.p(50) {
					ls = append(ls, dgLine{"\t" + nm + " " + typ, true, "var-group-member"})
				} else {
					ls = append(ls, dgLine{"\t" + nm + " " + typ + " = " + g.val(typ, e, 0), true, "var-group-member"})
				}
				g.vars = append(g.vars, &dgVar{name: nm, typ: typ})
			}
			g.add(file, append(ls, fixed(")", ""))...)
		}
	}
}

// ---------------------------------------------------------------------------
// test files

func (g *dg) emitTests() {
	in, ext := -1, -1
	for i, f := range g.files {
		switch f.kind {
		case DeclInTest:
			in = i
		case DeclExtTest:
			ext = i
		}
	}
	if in >= 0 {
		// helpers declared in the test file (some stay unused)
		base := len(g.funcs)
		for i, n := 0, g.n(0, 2); i < n; i++ {
			f := &dgFunc{idx: base + i, name: fmt.Sprintf("helper%d", i), inTest: true}
			if g.p(50) {
				f.params = []dgParam{{"t", "*testing.T"}}
			}
			g.funcs = append(g.funcs, f)
			g.funcChunk(f, in, 1, 3)
		}
		// sinks (rule 4.9): package-level variables in a test file that are only written
		for i, n := 0, g.n(0, 2); i < n; i++ {
			typ := dgPick(g, []string{"int", "string", g.valueRef(len(g.types))})
			nm := fmt.Sprintf("sink%d", i)
			g.add(in, fixed("var "+nm+" "+typ, "test-sink"))
			g.vars = append(g.vars, &dgVar{name: nm, typ: typ, inTest: true})
		}
		// export_test idiom
		if g.p(50) {
			var fs []*dgFunc
			for _, f := range g.funcs {
				if !ast.IsExported(f.name) && f.tparam == "" && !f.inTest {
					fs = append(fs, f)
				}
			}
			if len(fs) > 0 {
				f := dgPick(g, fs)
				g.add(in, fixed("var Export"+strings.ToUpper(f.name[:1])+f.name[1:]+" = "+f.name, "export-test"))
			}
		}
		e := &dgEnv{inTest: true, params: []dgParam{{"t", "*testing.T"}}}
		for i, n := 0, g.n(1, 3); i < n; i++ {
			ls := []dgLine{fixed(fmt.Sprintf("func Test%d(t *testing.T) {", i), "test-func")}
			ls = append(ls, g.body(e, 2, 7)...)
			g.add(in, append(ls, fixed("}", ""))...)
		}
		if g.p(50) {
			eb := &dgEnv{inTest: true, params: []dgParam{{"b", "*testing.B"}}}
			ls := []dgLine{fixed("func BenchmarkX(b *testing.B) {", "benchmark")}
			for _, v := range g.vars {
				if v.inTest {
					ls = append(ls, dgLine{"\tfor i := 0; i < b.N; i++ { " + v.name + " = " + g.val(v.typ, eb, 1) + " }", true, "sink-write"})
				}
			}
			ls = append(ls, g.body(eb, 0, 2)...)
			g.add(in, append(ls, fixed("}", ""))...)
		}
	}
	if ext >= 0 {
		ls := []dgLine{fixed("func TestExt(t *testing.T) {", "ext-test-func")}
		for _, f := range g.funcs {
			if ast.IsExported(f.name) && !f.inTest && g.p(70) {
				if f.tparam != "" {
					ls = append(ls, dgLine{"\t_ = p." + f.name + "[int" + map[bool]string{false: "", true: ", string"}[f.two] + "]", true, "ext-ref-generic"})
				} else {
					ls = append(ls, dgLine{"\t_ = p." + f.name, true, "ext-ref-func"})
				}
			}
		}
		for _, t := range g.types {
			if !ast.IsExported(t.name) || !g.p(60) {
				continue
			}
			in := g.instOf(t)
			if in == "" {
				continue
			}
			x := g.local("v")
			ls = append(ls, dgLine{fmt.Sprintf("\t{ var %s p.%s; _ = %s }", x, in, x), true, "ext-ref-type"})
			for _, m := range t.methods {
				if ast.IsExported(m.name) && g.p(50) {
					ls = append(ls, dgLine{fmt.Sprintf("\t_ = (*p.%s).%s", in, m.name), true, "ext-ref-method"})
				}
			}
			for _, f := range t.fields {
				if !f.embedded && ast.IsExported(f.name) && g.p(50) {
					ls = append(ls, dgLine{fmt.Sprintf("\t_ = new(p.%s).%s", in, f.name), true, "ext-ref-field"})
				}
			}
		}
		ls = append(ls, dgLine{"\t_ = p.Export" + "Missing", true, "ext-hopeful"})
		for _, c := range g.chunks {
			if c.file == in && len(c.lines) == 1 && strings.HasPrefix(c.lines[0].s, "var Export") {
				nm := strings.Fields(c.lines[0].s)[1]
				ls = append(ls, dgLine{"\t_ = p." + nm, true, "ext-ref-export-test"})
			}
		}
		g.add(ext, append(ls, fixed("}", ""))...)
		if g.p(50) {
			g.add(ext, fixed("func extHelper() int {", "ext-helper"), fixed("\treturn 1", ""), fixed("}", ""))
		}
		if g.p(30) {
			g.add(ext, fixed("type extT struct {", "ext-type"), dgLine{"\ta int", true, "field"}, fixed("}", ""))
		}
	}
}

// ---------------------------------------------------------------------------
// rendering and repair

var dgImportable = []struct{ sel, path string }{
	{"fmt.", "fmt"}, {"strings.", "strings"}, {"sort.", "sort"}, {"io.", "io"}, {"sync.", "sync"},
	{"unsafe.", "unsafe"}, {"structs.", "structs"}, {"testing.", "testing"},
}

type dgRendered struct {
	file   *DeclFile
	src    string
	origin [][2]int // per source line (1-based index-1): chunk index, line index; {-1,-1} for header
}

// emitTwinInterfaces adds interfaces that agree on their method *names* but
// not on the signatures, each implemented by its own concrete type through an
// unexported method that is only ever reached through the interface.
func (g *dg) emitTwinInterfaces() {
	k := g.rng.IntN(1000)
	ia, ib := fmt.Sprintf("twStarter%d", k), fmt.Sprintf("twRunner%d", k)
	ta, tb := fmt.Sprintf("twJob%d", k), fmt.Sprintf("twBatch%d", k)
	m := dgPick(g, []string{"run", "step", "apply"})
	sigB := dgPick(g, []string{"n int", "s string", "n int, s string"})
	retB := dgPick(g, []string{"", " int", " error"})
	body := map[string]string{"": "", " int": " return 0 ", " error": " return nil "}[retB]
	g.add(g.normalFile(), fixed("type "+ia+" interface{ "+m+"() }", "twin-iface"))
	g.add(g.normalFile(), fixed("type "+ib+" interface{ "+m+"("+sigB+")"+retB+" }", "twin-iface"))
	g.add(g.normalFile(), fixed("type "+ta+" struct{}", "twin-impl"))
	g.add(g.normalFile(), fixed("func ("+ta+") "+m+"() {}", "twin-method"))
	g.add(g.normalFile(), fixed("type "+tb+" struct{}", "twin-impl"))
	g.add(g.normalFile(), fixed("func ("+tb+") "+m+"("+sigB+")"+retB+" {"+body+"}", "twin-method"))
	if g.p(50) {
		g.add(g.normalFile(), fixed(fmt.Sprintf("func TwUse%d() (%s, %s) { return %s{}, %s{} }", k, ia, ib, ta, tb), "twin-use"))
	} else {
		g.add(g.normalFile(), fixed(fmt.Sprintf("var TwA%d %s = %s{}", k, ia, ta), "twin-use"))
		g.add(g.normalFile(), fixed(fmt.Sprintf("var TwB%d %s = %s{}", k, ib, tb), "twin-use"))
		if g.p(50) {
			// an interface literal with the same method name in otherwise unrelated, used code
			g.add(g.normalFile(), fixed(fmt.Sprintf("func TwLit%d(x interface{ %s() }) { x.%s() }", k, m, m), "twin-literal"))
		}
	}
}

// emitPromotedMethods adds an embedding chain whose embedded fields are used
// only as the selection path of promoted methods, reached through a method
// expression, a method value, a call or an interface conversion (one of each,
// chosen per package), next to a field that is really unused.
func (g *dg) emitPromotedMethods() {
	k := g.rng.IntN(1000)
	base, mid, outer := fmt.Sprintf("pmBase%d", k), fmt.Sprintf("pmMid%d", k), fmt.Sprintf("pmOuter%d", k)
	midEmb := dgPick(g, []string{base, "*" + base})
	outEmb := dgPick(g, []string{mid, "*" + mid})
	g.add(g.normalFile(), fixed("type "+base+" struct{ n int }", "promoted-base"))
	g.add(g.normalFile(), fixed("func (b "+base+") get() int { return b.n }", "promoted-method"))
	g.add(g.normalFile(), fixed("func (b *"+base+") set(v int) { b.n = v }", "promoted-method"))
	g.add(g.normalFile(), fixed("type "+mid+" struct {\n\t"+midEmb+"\n\tpmDeadMid int\n}", "promoted-mid"))
	g.add(g.normalFile(), fixed("type "+outer+" struct {\n\t"+outEmb+"\n\tpmDeadOuter string\n}", "promoted-outer"))
	recv := outer
	if strings.HasPrefix(midEmb, "*") || strings.HasPrefix(outEmb, "*") || g.p(50) {
		recv = "*" + outer
	}
	paren := recv
	if strings.HasPrefix(recv, "*") {
		paren = "(" + recv + ")"
	}
	switch g.rng.IntN(5) {
	case 0: // method expression through the embedded path
		g.add(g.normalFile(), fixed(fmt.Sprintf("func PmExpr%d(o %s) int {\n\tf := %s.get\n\treturn f(o)\n}", k, recv, paren), "promoted-method-expression"))
	case 1: // method expression of the pointer-receiver method
		g.add(g.normalFile(), fixed(fmt.Sprintf("func PmSetExpr%d(o *%s) {\n\tf := (*%s).set\n\tf(o, 1)\n}", k, outer, outer), "promoted-method-expression"))
	case 2: // method value
		g.add(g.normalFile(), fixed(fmt.Sprintf("func PmVal%d(o %s) func() int { return o.get }", k, recv), "promoted-method-value"))
	case 3: // plain call
		g.add(g.normalFile(), fixed(fmt.Sprintf("func PmCall%d(o *%s) int {\n\to.set(2)\n\treturn o.get()\n}", k, outer), "promoted-call"))
	default: // only through an interface
		g.add(g.normalFile(), fixed(fmt.Sprintf("type pmGetter%d interface{ get() int }", k), "promoted-iface"))
		g.add(g.normalFile(), fixed(fmt.Sprintf("func PmIface%d(o *%s) int {\n\tvar g pmGetter%d = o\n\treturn g.get()\n}", k, outer, k), "promoted-iface-use"))
	}
}

// emitConstrainedGenericInterface adds a generic interface with a constrained
// type parameter, a type that has the interface's method by name but with a
// type that violates the constraint (or only the first of its two methods),
// and that also implements a plain interface through unexported methods
// reached only through that interface.
func (g *dg) emitConstrainedGenericInterface() {
	k := g.rng.IntN(1000)
	num, cod, shp := fmt.Sprintf("cgNumber%d", k), fmt.Sprintf("cgCodec%d", k), fmt.Sprintf("cgShape%d", k)
	lab, ic := fmt.Sprintf("cgLabel%d", k), fmt.Sprintf("cgIntCodec%d", k)
	enc := dgPick(g, []string{"encode", "put", "emit"})
	two := g.p(40) // the generic interface has a second method the label type lacks
	g.add(g.normalFile(), fixed("type "+num+" interface {\n\t~int | ~int64 | ~float64\n}", "cg-constraint"))
	if two {
		g.add(g.normalFile(), fixed("type "+cod+"[T "+num+"] interface {\n\t"+enc+"(T) []byte\n\tcgReset()\n}", "cg-generic-iface"))
	} else {
		g.add(g.normalFile(), fixed("type "+cod+"[T "+num+"] interface {\n\t"+enc+"(T) []byte\n}", "cg-generic-iface"))
	}
	g.add(g.normalFile(), fixed("type "+shp+" interface {\n\tcgArea() float64\n\tcgName() string\n}", "cg-plain-iface"))
	g.add(g.normalFile(), fixed("type "+lab+" struct{ s string }", "cg-label"))
	argT := "string"
	if two && g.p(50) {
		argT = "int" // satisfies the constraint; the missing second method is what fails
	}
	g.add(g.normalFile(), fixed("func (l *"+lab+") "+enc+"(v "+argT+") []byte { return []byte(l.s) }", "cg-label-method"))
	g.add(g.normalFile(), fixed("func (l *"+lab+") cgArea() float64 { return 0 }", "cg-label-method"))
	g.add(g.normalFile(), fixed("func (l *"+lab+") cgName() string { return l.s }", "cg-label-method"))
	g.add(g.normalFile(), fixed("type "+ic+" struct{}", "cg-impl"))
	g.add(g.normalFile(), fixed("func ("+ic+") "+enc+"(v int) []byte { return []byte{byte(v)} }", "cg-impl-method"))
	if two {
		g.add(g.normalFile(), fixed("func ("+ic+") cgReset() {}", "cg-impl-method"))
	}
	g.add(g.normalFile(), fixed(fmt.Sprintf("func CgNew%d(s string) interface{} { return &%s{s: s} }", k, lab), "cg-use"))
	g.add(g.normalFile(), fixed(fmt.Sprintf("func CgDescribe%d(v interface{}) (string, float64) {\n\tif s, ok := v.(%s); ok {\n\t\treturn s.cgName(), s.cgArea()\n\t}\n\treturn \"\", 0\n}", k, shp), "cg-use"))
	g.add(g.normalFile(), fixed(fmt.Sprintf("func CgEncode%d[T %s](c %s[T], v T) []byte { return c.%s(v) }", k, num, cod, enc), "cg-use"))
	g.add(g.normalFile(), fixed(fmt.Sprintf("func CgEncodeInt%d(v int) []byte { return CgEncode%d[int](%s{}, v) }", k, k, ic), "cg-use"))
}

func (g *dg) render() []*dgRendered {
	out := make([]*dgRendered, len(g.files))
	for fi, fb := range g.files {
		var body strings.Builder
		var decls []string
		type span struct {
			chunk int
			n     []int // physical lines per logical line
		}
		var spans []span
		for ci, c := range g.chunks {
			if c.dead || c.file != fi {
				continue
			}
			var ls []string
			var phys []int
			for _, l := range c.lines {
				ls = append(ls, l.s)
				phys = append(phys, 1+strings.Count(l.s, "\n"))
			}
			d := strings.Join(ls, "\n")
			decls = append(decls, d)
			body.WriteString(d)
			body.WriteString("\n")
			spans = append(spans, span{ci, phys})
		}
		all := body.String()
		pkg := g.pkgName
		if fb.kind == DeclExtTest {
			pkg += "_test"
		}
		var h []string
		if fb.generated {
			h = append(h, "// Code generated by declgen. DO NOT EDIT.", "")
		}
		h = append(h, "package "+pkg, "")
		var imps []string
		for _, im := range dgImportable {
			if strings.Contains(all, im.sel) {
				imps = append(imps, "\t\""+im.path+"\"")
			}
		}
		if fb.kind == DeclExtTest && strings.Contains(all, "p.") {
			imps = append(imps, "\tp \""+g.opt.Path+"\"")
		}
		if len(imps) > 0 {
			h = append(h, "import (")
			h = append(h, imps...)
			h = append(h, ")", "")
		}
		df := &DeclFile{Name: fb.name, Kind: fb.kind, Header: strings.Join(h, "\n"), Decls: decls}
		r := &dgRendered{file: df, src: df.Source()}
		// line origins: header occupies len(h)+1 lines (Header + "\n"), then decls separated by one blank line
		for i := 0; i < len(h)+1; i++ {
			r.origin = append(r.origin, [2]int{-1, -1})
		}
		// Source() = Header + "\n" + join(decls, "\n\n") + "\n"; Header has len(h) lines without trailing newline
		r.origin = r.origin[:len(h)]
		for si, sp := range spans {
			if si > 0 {
				r.origin = append(r.origin, [2]int{-1, -1})
			}
			for li, np := range sp.n {
				for k := 0; k < np; k++ {
					r.origin = append(r.origin, [2]int{sp.chunk, li})
				}
			}
		}
		out[fi] = r
	}
	return out
}

// check type-checks the rendered package; it returns the error lines as (chunk, line).
func (g *dg) check(rs []*dgRendered) (bad [][2]int, fatal bool) {
	imp := g.opt.Importer
	if imp == nil {
		imp = dgDefaultImporter()
	}
	fset := token.NewFileSet()
	byName := map[string]*dgRendered{}
	var errs []error
	record := func(err error) { errs = append(errs, err) }
	var inFiles, extFiles []*ast.File
	for _, r := range rs {
		if len(r.file.Decls) == 0 && r.file.Kind != DeclNormal {
			continue
		}
		byName[r.file.Name] = r
		af, err := parser.ParseFile(fset, r.file.Name, r.src, parser.SkipObjectResolution)
		if err != nil {
			record(err)
			if af == nil {
				continue
			}
		}
		if r.file.Kind == DeclExtTest {
			extFiles = append(extFiles, af)
		} else {
			inFiles = append(inFiles, af)
		}
	}
	tc := &types.Config{Importer: imp, Error: record}
	pkg, _ := tc.Check(g.opt.Path, fset, inFiles, nil)
	if len(errs) == 0 && len(extFiles) > 0 {
		tc2 := &types.Config{Importer: &dgOverlayImporter{g.opt.Path, pkg, imp}, Error: record}
		tc2.Check(g.opt.Path+"_test", fset, extFiles, nil)
	}
	seen := map[[2]int]bool{}
	for _, err := range errs {
		var pos token.Position
		switch e := err.(type) {
		case types.Error:
			pos = e.Fset.Position(e.Pos)
		default:
			// scanner.ErrorList and friends: take the first "file:line" prefix
			s := err.Error()
			var f string
			var l, c int
			if i := strings.Index(s, ".go:"); i > 0 {
				f = s[:i+3]
				fmt.Sscanf(s[i+4:], "%d:%d", &l, &c)
			}
			pos = token.Position{Filename: f, Line: l}
		}
		r := byName[pos.Filename]
		if r == nil || pos.Line <= 0 || pos.Line > len(r.origin) {
			fatal = true
			if os.Getenv("DECLGEN_DEBUG") != "" {
				fmt.Fprintf(os.Stderr, "declgen: unplaceable error: %v\n", err)
			}
			continue
		}
		o := r.origin[pos.Line-1]
		if o[0] < 0 {
			fatal = true // error in a header line: cannot be repaired by deletion
			if os.Getenv("DECLGEN_DEBUG") != "" {
				fmt.Fprintf(os.Stderr, "declgen: header error: %v\n", err)
			}
			continue
		}
		if !seen[o] {
			seen[o] = true
			bad = append(bad, o)
		}
	}
	return bad, fatal
}

func (g *dg) repair(p *DeclPkg) []*dgRendered {
	for round := 0; round < 40; round++ {
		rs := g.render()
		bad, fatal := g.check(rs)
		if len(bad) == 0 && !fatal {
			p.Rounds = round
			return rs
		}
		if len(bad) == 0 {
			break
		}
		// delete: deletable lines individually, otherwise the whole declaration
		kill := map[int]map[int]bool{}
		for _, b := range bad {
			c := g.chunks[b[0]]
			if c.lines[b[1]].del {
				if kill[b[0]] == nil {
					kill[b[0]] = map[int]bool{}
				}
				kill[b[0]][b[1]] = true
			} else {
				c.dead = true
				p.Removed++
			}
		}
		for ci, ls := range kill {
			c := g.chunks[ci]
			if c.dead {
				continue
			}
			var keep []dgLine
			for li, l := range c.lines {
				if !ls[li] {
					keep = append(keep, l)
				} else {
					p.Removed++
				}
			}
			c.lines = keep
		}
	}
	p.Discarded = true
	return g.render()
}

// DeclGen generates one package.
func DeclGen(rng *rand.Rand, opt DeclOptions) *DeclPkg {
	if opt.Path == "" {
		opt.Path = "example.com/dg"
	}
	g := &dg{rng: rng, opt: opt, pkgName: "p"}
	switch opt.Main {
	case 0:
		if g.p(8) {
			g.pkgName = "main"
		}
	case 2:
		g.pkgName = "main"
	}
	size := opt.Size
	if size == 0 {
		size = 1 + rng.IntN(3)
	}
	g.nNormal = g.n(1, 3)
	for i := 0; i < g.nNormal; i++ {
		g.files = append(g.files, &dgFileB{name: string(rune('a'+i)) + ".go", kind: DeclNormal})
	}
	if g.nNormal > 1 && g.p(6) {
		g.files[g.nNormal-1].generated = true
	}
	if !opt.NoTests && g.p(75) {
		g.files = append(g.files, &dgFileB{name: "p_test.go", kind: DeclInTest})
		if g.pkgName != "main" && g.p(60) {
			g.files = append(g.files, &dgFileB{name: "x_test.go", kind: DeclExtTest})
		}
	}
	g.planTypes(g.n(3*size, 6*size))
	g.fillTypes()
	g.planFuncs(g.n(3*size, 6*size))
	g.emitConsts(g.n(1, 2*size))
	g.emitVars(g.n(2, 3*size))
	g.emitTypes()
	g.emitFuncs()
	g.emitTests()
	if g.p(40) {
		g.emitTwinInterfaces()
	}
	if g.p(50) {
		g.emitPromotedMethods()
	}
	if g.p(35) {
		g.emitConstrainedGenericInterface()
	}
	// shuffle declaration order inside files (generation order is types-first otherwise)
	g.rng.Shuffle(len(g.chunks), func(i, j int) { g.chunks[i], g.chunks[j] = g.chunks[j], g.chunks[i] })

	p := &DeclPkg{Name: g.pkgName, Path: opt.Path, Features: map[string]int{}}
	rs := g.repair(p)
	for _, r := range rs {
		if len(r.file.Decls) == 0 && r.file.Kind != DeclNormal {
			continue
		}
		p.Files = append(p.Files, r.file)
	}
	for _, c := range g.chunks {
		if c.dead {
			continue
		}
		for _, l := range c.lines {
			if l.tag != "" {
				p.Features[l.tag]++
			}
		}
	}
	return p
}
