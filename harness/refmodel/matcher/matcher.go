// Package matcher is a purely functional reference implementation of the
// pattern language's matching semantics (pattern/doc.go). Bindings live in a
// persistent map that is copied on write, so "bindings made inside a failed Or
// alternative / Not operand are unobservable" holds by construction: a failed
// branch simply returns and its state is dropped.
//
// It operates on pattern.Node trees produced by the real parser and ignores the
// parser-assigned binding indices entirely.
package matcher

import (
	"fmt"
	"go/ast"
	"go/token"
	"go/types"
	"reflect"

	"honnef.co/go/tools/pattern"
)

type State map[string]any

func (s State) with(name string, v any) State {
	n := make(State, len(s)+1)
	for k, x := range s {
		n[k] = x
	}
	n[name] = v
	return n
}

// Undefined is panicked by the model when the real implementation's behaviour
// is not defined by the documentation (e.g. structural pattern vs typed nil
// pointer, rebinding a bound name).
type Undefined struct{ Why string }

// Recall records that a bound name was compared with another node.
type Recall struct {
	Name   string
	Stored any
	Node   any
	Ok     bool
}

type Model struct {
	TypesInfo *types.Info
	Recalls   []Recall
	// FailedBinds counts bindings created on branches that later failed
	// (alternatives of Or, operands of Not): the cases atomicity is about.
	FailedBinds int
	binds       int
}

var tokensByString = map[string]token.Token{}

func init() {
	for _, t := range []token.Token{token.INT, token.FLOAT, token.IMAG, token.CHAR, token.STRING} {
		tokensByString[t.String()] = t
	}
	for t := token.ADD; t <= token.COLON; t++ {
		switch t {
		case token.LPAREN, token.LBRACK, token.LBRACE, token.COMMA, token.PERIOD, token.RPAREN, token.RBRACK, token.RBRACE, token.SEMICOLON, token.COLON:
			continue
		}
		tokensByString[t.String()] = t
	}
	tokensByString["IMPORT"] = token.IMPORT
	tokensByString["VAR"] = token.VAR
	tokensByString["TYPE"] = token.TYPE
	tokensByString["CONST"] = token.CONST
	tokensByString["BREAK"] = token.BREAK
	tokensByString["CONTINUE"] = token.CONTINUE
	tokensByString["GOTO"] = token.GOTO
	tokensByString["FALLTHROUGH"] = token.FALLTHROUGH
}

// TokenString reports whether the pattern language can spell tok and how.
func TokenString(tok token.Token) (string, bool) {
	for s, t := range tokensByString {
		if t == tok {
			return s, true
		}
	}
	return "", false
}

func isNil(v any) bool {
	if v == nil {
		return true
	}
	_, ok := v.(pattern.Nil)
	return ok
}

func (mo *Model) Match(root pattern.Node, n ast.Node) (st State, ok bool) {
	mo.Recalls = nil
	mo.FailedBinds = 0
	mo.binds = 0
	st, _, ok = mo.match(State{}, root, n)
	if !ok {
		return nil, false
	}
	return st, true
}

func isSpecial(l any) bool {
	switch l.(type) {
	case pattern.Binding, pattern.Any, pattern.List, pattern.String, pattern.Token, pattern.Nil,
		pattern.Builtin, pattern.Object, pattern.Symbol, pattern.Or, pattern.Not,
		pattern.IntegerLiteral, pattern.TrulyConstantExpression:
		return true
	}
	return false
}

func (mo *Model) match(s State, l, r any) (State, any, bool) {
	if _, ok := r.(pattern.Node); ok {
		panic("Node on right side")
	}
	switch l := l.(type) {
	case *ast.ParenExpr:
		return mo.match(s, l.X, r)
	case *ast.ExprStmt:
		return mo.match(s, l.X, r)
	case *ast.DeclStmt:
		return mo.match(s, l.Decl, r)
	case *ast.LabeledStmt:
		return mo.match(s, l.Stmt, r)
	case *ast.BlockStmt:
		return mo.match(s, l.List, r)
	case *ast.FieldList:
		if l == nil {
			return mo.match(s, nil, r)
		}
		return mo.match(s, l.List, r)
	}
	switch r := r.(type) {
	case *ast.ParenExpr:
		return mo.match(s, l, r.X)
	case *ast.ExprStmt:
		return mo.match(s, l, r.X)
	case *ast.DeclStmt:
		return mo.match(s, l, r.Decl)
	case *ast.LabeledStmt:
		return mo.match(s, l, r.Stmt)
	case *ast.BlockStmt:
		if r == nil {
			return mo.match(s, l, nil)
		}
		return mo.match(s, l, r.List)
	case *ast.FieldList:
		if r == nil {
			return mo.match(s, l, nil)
		}
		return mo.match(s, l, r.List)
	case *ast.BasicLit:
		if r == nil {
			return mo.match(s, l, nil)
		}
	case *ast.Ident:
		if r == nil {
			return mo.match(s, l, nil)
		}
	}
	if isSpecial(l) {
		return mo.special(s, l, r)
	}
	if l, ok := l.(pattern.Node); ok {
		return mo.nodeAST(s, l, r)
	}
	if l == nil || r == nil {
		return s, nil, l == r
	}
	{
		ln, ok1 := l.(ast.Node)
		rn, ok2 := r.(ast.Node)
		if ok1 && ok2 {
			return mo.astAST(s, ln, rn)
		}
	}
	if obj, ok := l.(types.Object); ok {
		switch r := r.(type) {
		case *ast.Ident:
			return s, obj, obj == mo.TypesInfo.ObjectOf(r)
		case *ast.SelectorExpr:
			return s, obj, obj == mo.TypesInfo.ObjectOf(r.Sel)
		default:
			return s, obj, false
		}
	}
	// slices of Expr / Stmt / *Field, with single-element promotion
	lv, rv := reflect.ValueOf(l), reflect.ValueOf(r)
	isList := func(v reflect.Value) bool {
		if v.Kind() != reflect.Slice {
			return false
		}
		switch v.Interface().(type) {
		case []ast.Expr, []ast.Stmt, []*ast.Field:
			return true
		}
		return false
	}
	ok1, ok2 := isList(lv), isList(rv)
	if ok1 || ok2 {
		var lt reflect.Type
		if ok1 {
			lt = lv.Type()
		} else {
			lt = rv.Type()
		}
		if ok1 && ok2 && lv.Type() != rv.Type() {
			// the real code tries []Expr first: l is []Expr, r is another slice kind -> cast fails
			return s, nil, false
		}
		elem := lt.Elem()
		promote := func(x any) (reflect.Value, bool) {
			xv := reflect.ValueOf(x)
			if !xv.IsValid() || !xv.Type().AssignableTo(elem) {
				return reflect.Value{}, false
			}
			sl := reflect.MakeSlice(lt, 1, 1)
			sl.Index(0).Set(xv)
			return sl, true
		}
		if ok1 && !ok2 {
			var ok bool
			if rv, ok = promote(r); !ok {
				return s, nil, false
			}
		} else if !ok1 && ok2 {
			var ok bool
			if lv, ok = promote(l); !ok {
				return s, nil, false
			}
		}
		if lv.Len() != rv.Len() {
			return s, nil, false
		}
		cur := s
		for i := 0; i < lv.Len(); i++ {
			var ok bool
			cur, _, ok = mo.match(cur, lv.Index(i).Interface(), rv.Index(i).Interface())
			if !ok {
				return s, nil, false
			}
		}
		return cur, r, true
	}
	return s, nil, false
}

func (mo *Model) nodeAST(s State, a pattern.Node, b any) (State, any, bool) {
	switch b := b.(type) {
	case []ast.Stmt:
		if len(b) != 1 {
			return s, nil, false
		}
		return mo.match(s, a, b[0])
	case []ast.Expr:
		if len(b) != 1 {
			return s, nil, false
		}
		return mo.match(s, a, b[0])
	case []*ast.Field:
		if len(b) != 1 {
			return s, nil, false
		}
		return mo.match(s, a, b[0])
	case ast.Node:
		ra := reflect.ValueOf(a)
		rbp := reflect.ValueOf(b)
		if rbp.Kind() != reflect.Pointer || rbp.IsNil() {
			panic(Undefined{"structural pattern against typed nil " + fmt.Sprintf("%T", b)})
		}
		rb := rbp.Elem()
		if ra.Type().Name() != rb.Type().Name() {
			return s, nil, false
		}
		cur := s
		for i := 0; i < ra.NumField(); i++ {
			name := ra.Type().Field(i).Name
			bf := rb.FieldByName(name)
			if !bf.IsValid() {
				panic(Undefined{"no field " + name})
			}
			ai := ra.Field(i).Interface()
			bi := bf.Interface()
			if ai == nil {
				return cur, b, bi == nil
			}
			var ok bool
			cur, _, ok = mo.match(cur, ai.(pattern.Node), bi)
			if !ok {
				return s, b, false
			}
		}
		return cur, b, true
	case nil:
		return s, nil, a == pattern.Nil{}
	case string, token.Token:
		return s, nil, false
	default:
		panic(Undefined{fmt.Sprintf("unhandled type %T", b)})
	}
}

var (
	rtTokPos       = reflect.TypeFor[token.Pos]()
	rtObject       = reflect.TypeFor[*ast.Object]()
	rtCommentGroup = reflect.TypeFor[*ast.CommentGroup]()
)

func (mo *Model) astAST(s State, a, b ast.Node) (State, any, bool) {
	ra, rb := reflect.ValueOf(a), reflect.ValueOf(b)
	if ra.Type() != rb.Type() {
		return s, nil, false
	}
	if ra.IsNil() || rb.IsNil() {
		return s, rb, ra.IsNil() == rb.IsNil()
	}
	ra, rb = ra.Elem(), rb.Elem()
	cur := s
	for i := 0; i < ra.NumField(); i++ {
		af, bf := ra.Field(i), rb.Field(i)
		if af.Type() == rtTokPos || af.Type() == rtObject || af.Type() == rtCommentGroup {
			continue
		}
		switch af.Kind() {
		case reflect.Slice:
			if af.Len() != bf.Len() {
				return s, nil, false
			}
			for j := 0; j < af.Len(); j++ {
				var ok bool
				cur, _, ok = mo.match(cur, af.Index(j).Interface(), bf.Index(j).Interface())
				if !ok {
					return s, nil, false
				}
			}
		case reflect.String:
			if af.String() != bf.String() {
				return s, nil, false
			}
		case reflect.Int:
			if af.Int() != bf.Int() {
				return s, nil, false
			}
		case reflect.Bool:
			if af.Bool() != bf.Bool() {
				return s, nil, false
			}
		case reflect.Pointer, reflect.Interface:
			var ok bool
			cur, _, ok = mo.match(cur, af.Interface(), bf.Interface())
			if !ok {
				return s, nil, false
			}
		default:
			panic(Undefined{"unhandled kind " + af.Kind().String()})
		}
	}
	return cur, b, true
}

func (mo *Model) special(s State, l, node any) (State, any, bool) {
	switch l := l.(type) {
	case pattern.Binding:
		sub := l.Node
		if isNil(sub) {
			if v, ok := s[l.Name]; ok {
				ns, ret, ok := mo.match(s, v, node)
				mo.Recalls = append(mo.Recalls, Recall{l.Name, v, node, ok})
				return ns, ret, ok
			}
			sub = pattern.Any{}
		}
		if _, ok := s[l.Name]; ok {
			panic(Undefined{"binding already created: " + l.Name})
		}
		ns, v, ok := mo.match(s, sub, node)
		if !ok {
			return s, v, false
		}
		if _, ok := ns[l.Name]; ok {
			// bound by its own sub-pattern: documented as an error
			panic(Undefined{"binding already created: " + l.Name})
		}
		mo.binds++
		return ns.with(l.Name, v), v, true
	case pattern.Any:
		return s, node, true
	case pattern.List:
		v := reflect.ValueOf(node)
		if v.Kind() == reflect.Slice {
			if isNil(l.Head) {
				return s, node, v.Len() == 0
			}
			if v.Len() == 0 {
				return s, nil, false
			}
			s1, _, ok1 := mo.match(s, l.Head, v.Index(0).Interface())
			if !ok1 {
				return s, node, false
			}
			s2, _, ok2 := mo.match(s1, l.Tail, v.Slice(1, v.Len()).Interface())
			if !ok2 {
				return s, node, false
			}
			return s2, node, true
		}
		return s, nil, false
	case pattern.String:
		switch o := node.(type) {
		case token.Token:
			if tok, ok := tokensByString[string(l)]; ok {
				return s, o, tok == o
			}
			return s, nil, false
		case string:
			return s, o, string(l) == o
		case types.TypeAndValue:
			return s, o, o.Value != nil && o.Value.String() == string(l)
		default:
			return s, nil, false
		}
	case pattern.Token:
		o, ok := node.(token.Token)
		if !ok {
			return s, nil, false
		}
		return s, o, token.Token(l) == o
	case pattern.Nil:
		if isNil(node) {
			return s, nil, true
		}
		v := reflect.ValueOf(node)
		switch v.Kind() {
		case reflect.Chan, reflect.Func, reflect.Interface, reflect.Map, reflect.Pointer, reflect.Slice:
			return s, nil, v.IsNil()
		}
		return s, nil, false
	case pattern.Or:
		for _, alt := range l.Nodes {
			before := mo.binds
			ns, ret, ok := mo.match(s, alt, node)
			if ok {
				return ns, ret, true
			}
			mo.FailedBinds += mo.binds - before
		}
		return s, nil, false
	case pattern.Not:
		before := mo.binds
		_, _, ok := mo.match(s, l.Node, node)
		if ok {
			return s, nil, false
		}
		mo.FailedBinds += mo.binds - before
		return s, node, true
	case pattern.Builtin:
		ns, r, ok := mo.match(s, pattern.Ident(l), node)
		if !ok {
			return s, nil, false
		}
		ident := r.(*ast.Ident)
		if mo.TypesInfo.ObjectOf(ident) != types.Universe.Lookup(ident.Name) {
			return s, nil, false
		}
		return ns, ident, true
	case pattern.Object:
		ns, r, ok := mo.match(s, pattern.Ident(l), node)
		if !ok {
			return s, nil, false
		}
		ident := r.(*ast.Ident)
		return ns, mo.TypesInfo.ObjectOf(ident), true
	default:
		panic(Undefined{fmt.Sprintf("model does not cover %T", l)})
	}
}

// Render gives a comparable description of a bound value.
func Render(v any) string {
	switch v := v.(type) {
	case nil:
		return "nil"
	case string:
		return "s:" + v
	case token.Token:
		return "t:" + v.String()
	case reflect.Value:
		return "reflect.Value"
	case types.TypeAndValue:
		if v.Value != nil {
			return "tv:" + v.Value.String()
		}
		return "tv"
	case ast.Node:
		rv := reflect.ValueOf(v)
		if rv.Kind() == reflect.Pointer && rv.IsNil() {
			return fmt.Sprintf("%T(nil)", v)
		}
		return fmt.Sprintf("%T@%d-%d", v, v.Pos(), v.End())
	case types.Object:
		return fmt.Sprintf("obj:%T:%p", v, v)
	}
	rv := reflect.ValueOf(v)
	if rv.Kind() == reflect.Slice {
		s := fmt.Sprintf("%T[", v)
		for i := 0; i < rv.Len(); i++ {
			s += Render(rv.Index(i).Interface()) + " "
		}
		return s + "]"
	}
	return fmt.Sprintf("%T:%v", v, v)
}

func RenderState(s map[string]any) map[string]string {
	out := map[string]string{}
	for k, v := range s {
		out[k] = Render(v)
	}
	return out
}
