// Package c10: ignore directives suppress exactly what they name, nothing else.
package c10

import (
	"fmt"
	"go/ast"
	"go/parser"
	"go/token"
	"math/rand/v2"
	"os"
	"path"
	"path/filepath"
	"slices"
	"sort"
	"strings"
	"sync"

	"honnef.co/go/tools/analysis/lint"
	"honnef.co/go/tools/simple"
	"honnef.co/go/tools/staticcheck"
	"honnef.co/go/tools/stylecheck"
	"verif/gen"
	"verif/lintrun"
	"verif/vf"
)

type placement struct {
	file     string // relative
	line     int    // the directive is inserted as a new line before this (1-based) line
	indent   string
	kind     string // ignore | file-ignore
	checks   string
	reason   bool
	allFlag  bool // run with -checks all
	listKind string
	lead     bool // an explanatory comment line precedes the directive in the same comment group
}

func (p placement) text() string {
	s := "//lint:" + p.kind + " " + p.checks
	if p.reason {
		s += " because we say so"
	}
	if p.lead {
		return p.indent + "// The next line is a linter directive, this one explains it.\n" + p.indent + s
	}
	return p.indent + s
}

// dirLine is the line the directive itself ends up on.
func (p placement) dirLine() int {
	if p.lead {
		return p.line + 1
	}
	return p.line
}

type pkey struct {
	file      string
	line, col int
	code, msg string
}

func keyOf(root string, p lintrun.Problem) pkey {
	rel, _ := filepath.Rel(root, p.Location.File)
	return pkey{filepath.ToSlash(rel), p.Location.Line, p.Location.Column, p.Code, p.Message}
}

func (k pkey) String() string {
	return fmt.Sprintf("%s:%d:%d %s: %s", k.file, k.line, k.col, k.code, k.msg)
}

var nonDefault = func() map[string]bool {
	m := map[string]bool{}
	var as []*lint.Analyzer
	as = append(as, simple.Analyzers...)
	as = append(as, staticcheck.Analyzers...)
	as = append(as, stylecheck.Analyzers...)
	for _, a := range as {
		if a.Doc.NonDefault {
			m[strings.ToLower(a.Analyzer.Name)] = true
		}
	}
	return m
}()

var allChecks = func() map[string]bool {
	m := map[string]bool{"u1000": true}
	var as []*lint.Analyzer
	as = append(as, simple.Analyzers...)
	as = append(as, staticcheck.Analyzers...)
	as = append(as, stylecheck.Analyzers...)
	for _, a := range as {
		m[strings.ToLower(a.Analyzer.Name)] = true
	}
	return m
}()

// candidate lines: starts of statements and top-level declarations that begin their line
var declLines = map[string]map[int]bool{}
var declMu sync.Mutex

func candidateLines(src string) (lines []int, indents map[int]string) {
	fset := token.NewFileSet()
	f, err := parser.ParseFile(fset, "x.go", src, parser.ParseComments)
	if err != nil {
		return nil, nil
	}
	srcLines := strings.Split(src, "\n")
	indents = map[int]string{}
	seen := map[int]bool{}
	decls := map[int]bool{}
	defer func() {
		declMu.Lock()
		declLines[src] = decls
		declMu.Unlock()
	}()
	add := func(n ast.Node) {
		pos := fset.Position(n.Pos())
		l := srcLines[pos.Line-1]
		trimmed := strings.TrimLeft(l, " \t")
		if len(l)-len(trimmed) != pos.Column-1 {
			return // does not start its line
		}
		if pos.Line >= 2 && strings.HasPrefix(strings.TrimSpace(srcLines[pos.Line-2]), "//") {
			// The directive would join an existing comment group (e.g. a doc
			// comment whose text other checks quote in their messages).
			return
		}
		if !seen[pos.Line] {
			seen[pos.Line] = true
			lines = append(lines, pos.Line)
			indents[pos.Line] = l[:len(l)-len(trimmed)]
		}
	}
	ast.Inspect(f, func(n ast.Node) bool {
		switch n := n.(type) {
		case *ast.BlockStmt:
			for _, s := range n.List {
				add(s)
			}
		case *ast.FuncDecl:
			add(n)
			decls[fset.Position(n.Pos()).Line] = true
		case *ast.GenDecl:
			if n.Tok != token.IMPORT {
				add(n)
				decls[fset.Position(n.Pos()).Line] = true
			}
		case *ast.CaseClause:
			for _, s := range n.Body {
				add(s)
			}
		}
		return true
	})
	sort.Ints(lines)
	return lines, indents
}

// attachedLine: with the standard library's comment map as the authority on
// "attached to", the start line of the node our directive ends up on (0 = none).
func attachedLine(src string, directiveLine int) int {
	fset := token.NewFileSet()
	f, err := parser.ParseFile(fset, "x.go", src, parser.ParseComments)
	if err != nil {
		return 0
	}
	cm := ast.NewCommentMap(fset, f, f.Comments)
	for node, cgs := range cm {
		for _, cg := range cgs {
			for _, c := range cg.List {
				if fset.Position(c.Pos()).Line == directiveLine && strings.HasPrefix(c.Text, "//lint:") {
					return fset.Position(node.Pos()).Line
				}
			}
		}
	}
	return 0
}

func globMatch(checks string, code string) bool {
	for _, c := range strings.Split(checks, ",") {
		if ok, _ := path.Match(strings.ToLower(c), strings.ToLower(code)); ok {
			return true
		}
	}
	return false
}

func Run(r *vf.Run) {
	bin := r.BuildBin("staticcheck", "honnef.co/go/tools/cmd/staticcheck", false)
	nWorkers := 6
	nPlace := r.Pick(240, 1000)
	states := []gen.WSState{
		{Deprecated: true, NeverNil: true, LocalB: 2, LocalA: 1, ExtTest: true, GoVersion: "1.22"},
		{Deprecated: true, Impure: false, LocalB: 3, LocalA: 3, GoVersion: "1.22"},
		{Deprecated: false, NeverNil: true, LocalB: 1, LocalA: 2, TestUses: true, GoVersion: "1.22"},
	}
	cache := filepath.Join(r.Scratch(), "cache")
	os.MkdirAll(cache, 0o755)

	type base struct {
		files    map[string]string
		problems map[bool][]pkey // by allFlag
	}
	bases := make([]base, len(states))
	for si, st := range states {
		root := filepath.Join(r.Scratch(), fmt.Sprintf("base%d", si))
		files := st.Files()
		writeAll(root, files)
		b := base{files: files, problems: map[bool][]pkey{}}
		for _, all := range []bool{false, true} {
			args := []string{"-f", "json", "-show-ignored"}
			if all {
				args = append(args, "-checks", "all")
			}
			res := lintrun.Cmd{Bin: bin, Dir: root, Env: []string{"STATICCHECK_CACHE=" + cache}, Args: append(args, "./...")}.Run()
			ps, err := res.Problems()
			if err != nil || res.Killed || res.Exit > 1 {
				r.Inconclusive("baseline run failed: %v exit=%d %s", err, res.Exit, res.Stderr)
				r.Finish(0, 0, 1, "baseline failed")
			}
			for _, p := range ps {
				if p.Severity == "ignored" {
					continue
				}
				b.problems[all] = append(b.problems[all], keyOf(root, p))
			}
		}
		bases[si] = b
	}

	linePragmaUnit(r, bin, cache)
	if os.Getenv("VERIF_C10_ONLY") == "linepragma" { // development aid: the unit alone (the run then ends inconclusive)
		nPlace = 0
	}

	type result struct {
		p        placement
		si       int
		viol     []func()
		nontriv  bool
		inconcl  string
		suppress int
		dirProb  bool
	}
	results := make([]result, nPlace)
	var wg sync.WaitGroup
	jobs := make(chan int)
	for w := 0; w < nWorkers; w++ {
		wg.Add(1)
		go func(w int) {
			defer wg.Done()
			roots := map[int]string{}
			for i := range jobs {
				rng := r.Rand("placement", i)
				si := rng.IntN(len(states))
				b := bases[si]
				root, ok := roots[si]
				if !ok {
					root = filepath.Join(r.Scratch(), fmt.Sprintf("w%d-s%d", w, si))
					writeAll(root, b.files)
					roots[si] = root
				}
				forced := -1
				if i < 16 {
					forced = i
				}
				results[i] = onePlacement(r, rng, forced, bin, cache, root, si, b.files, b.problems)
			}
		}(w)
	}
	for i := 0; i < nPlace; i++ {
		jobs <- i
	}
	close(jobs)
	wg.Wait()

	evals, nontriv, suppressed, dirProbs := 0, 0, 0, 0
	kinds := map[string]int{}
	for i, res := range results {
		if res.inconcl != "" {
			r.Inconclusive("placement %d: %s", i, res.inconcl)
			continue
		}
		evals++
		kinds[res.p.kind+"/"+res.p.listKind+fmt.Sprintf("/reason=%v/after-explanation-line=%v", res.p.reason, res.p.lead)]++
		if res.nontriv {
			nontriv++
		}
		suppressed += res.suppress
		if res.dirProb {
			dirProbs++
		}
		for _, v := range res.viol {
			v()
		}
		if i < 5 {
			r.Sample(map[string]any{"file": res.p.file, "before_line": res.p.line, "directive": strings.TrimSpace(res.p.text()), "checks_all": res.p.allFlag, "problems_predicted_suppressed": res.suppress, "directive_problem_predicted": res.dirProb}, 5)
		}
	}
	r.Set("placements", evals)
	r.Set("placements_by_kind", kinds)
	r.Set("problems_predicted_suppressed", suppressed)
	r.Set("placements_with_predicted_directive_problem", dirProbs)
	r.Assume("go/ast.NewCommentMap decides which node a directive comment is attached to; U1000 directives are generated only with the exact spelling U1000 and alone in their list")
	r.Finish(evals, nontriv, r.Pick(40, 200),
		"each placement inserts one //lint:ignore or //lint:file-ignore line above a statement/declaration of the wsgen workspace (check lists: exact id on that line, id of another line, globs, wrong case, U1000, disabled check, several, unknown; with/without reason; default checks or -checks all) and predicts the new -show-ignored report from the old one. non-trivial = placements where the prediction differs from a pure line shift (something suppressed, or a directive problem expected)")
}

func writeAll(root string, files map[string]string) {
	for n, c := range files {
		p := filepath.Join(root, n)
		os.MkdirAll(filepath.Dir(p), 0o755)
		os.WriteFile(p, []byte(c), 0o644)
	}
}

func onePlacement(r *vf.Run, rng *rand.Rand, forced int, bin, cache, root string, si int, files map[string]string, baseProblems map[bool][]pkey) (res struct {
	p        placement
	si       int
	viol     []func()
	nontriv  bool
	inconcl  string
	suppress int
	dirProb  bool
}) {
	res.si = si
	// choose a Go file (non-test files carry the problems; tests too sometimes)
	var gofiles []string
	for _, n := range gen.SortedNames(files) {
		if strings.HasSuffix(n, ".go") && !strings.Contains(n, "os_windows") && n != "b/tagged.go" {
			gofiles = append(gofiles, n)
		}
	}
	all := rng.IntN(2) == 0
	old := baseProblems[all]
	// prefer files/lines with problems
	var p placement
	p.allFlag = all
	probLines := map[string][]int{}
	for _, k := range old {
		probLines[k.file] = append(probLines[k.file], k.line)
	}
	p.file = gofiles[rng.IntN(len(gofiles))]
	if rng.IntN(4) != 0 && len(old) > 0 {
		p.file = old[rng.IntN(len(old))].file
	}
	src := files[p.file]
	cands, indents := candidateLines(src)
	for try := 0; len(cands) == 0 && try < 20; try++ {
		// a file without a usable line (e.g. a one-declaration file with a doc comment): take another
		p.file = gofiles[rng.IntN(len(gofiles))]
		src = files[p.file]
		cands, indents = candidateLines(src)
	}
	if len(cands) == 0 {
		res.inconcl = "no candidate lines in " + p.file
		return
	}
	p.line = cands[rng.IntN(len(cands))]
	if pl := probLines[p.file]; len(pl) > 0 && rng.IntN(3) != 0 {
		// a candidate line that carries a problem, if any
		var good []int
		for _, c := range cands {
			for _, l := range pl {
				if l == c {
					good = append(good, c)
				}
			}
		}
		if len(good) > 0 {
			p.line = good[rng.IntN(len(good))]
		}
	}
	if forced >= 0 && (forced/4)%2 == 0 {
		// systematic part of the workload: a line that carries a U1000 problem
		var us []pkey
		for _, k := range old {
			if k.code == "U1000" {
				us = append(us, k)
			}
		}
		for t := 0; t < len(us); t++ {
			k := us[(forced/8+t)%len(us)]
			c2, i2 := candidateLines(files[k.file])
			if slices.Contains(c2, k.line) {
				p.file, src, cands, indents, p.line = k.file, files[k.file], c2, i2, k.line
				break
			}
		}
	}
	p.indent = indents[p.line]
	declMu.Lock()
	isDecl := declLines[src][p.line]
	declMu.Unlock()
	// Above a declaration the comment becomes its doc comment, whose first line
	// the documentation checks look at: keep that first line identical in the
	// directive and in the neutral variant. Elsewhere, half of the directives
	// are not the first line of their comment group.
	p.lead = isDecl || rng.IntN(2) == 0
	p.kind = "ignore"
	if rng.IntN(5) == 0 {
		p.kind = "file-ignore"
	}
	p.reason = rng.IntN(5) != 0
	// codes on the target line / elsewhere
	var here, elsewhere []string
	for _, k := range old {
		if k.code == "U1000" || k.code == "compile" || k.code == "staticcheck" {
			continue
		}
		if k.file == p.file && k.line == p.line {
			here = append(here, k.code)
		} else {
			elsewhere = append(elsewhere, k.code)
		}
	}
	pick := func(l []string, def string) string {
		if len(l) == 0 {
			return def
		}
		return l[rng.IntN(len(l))]
	}
	switch rng.IntN(10) {
	case 0, 1, 2:
		p.listKind, p.checks = "exact-here", pick(here, "SA4000")
	case 3:
		p.listKind, p.checks = "exact-elsewhere", pick(elsewhere, "S1000")
	case 4:
		p.listKind, p.checks = "glob", []string{"SA*", "S1*", "*", "ST1*", "S*", "SA40??"}[rng.IntN(6)]
	case 5:
		p.listKind, p.checks = "wrong-case", strings.ToLower(pick(here, "SA4000"))
	case 6:
		p.listKind, p.checks = "U1000", "U1000"
	case 7:
		p.listKind, p.checks = "non-default-check", "ST1000"
	case 8:
		p.listKind, p.checks = "several", pick(here, "SA4000")+","+pick(elsewhere, "S1002")+",SA9999"
	default:
		p.listKind, p.checks = "unknown", "XX9999"
	}
	if forced >= 0 {
		// the first placements enumerate {ignore, file-ignore} x {without, with reason} x
		// {U1000 on the line of an unused object, the check reported on the line}
		p.kind = []string{"ignore", "file-ignore"}[forced%2]
		p.reason = (forced/2)%2 == 1
		if (forced/4)%2 == 0 {
			p.listKind, p.checks = "U1000", "U1000"
		} else {
			p.listKind, p.checks = "exact-here", pick(here, "SA4000")
		}
	}
	res.p = p

	// new source
	lines := strings.Split(src, "\n")
	newLines := append(append(append([]string{}, lines[:p.line-1]...), p.text()), lines[p.line-1:]...)
	newSrc := strings.Join(newLines, "\n")
	// Some checks react to the mere presence of a comment (e.g. S1008 stays
	// silent when the if statement carries one). The reference is therefore
	// the same file with a neutral, non-directive comment on the same line.
	np := p
	neutralText := strings.Replace(np.text(), "//lint:"+p.kind+" "+p.checks, "//nolint-neutral comment", 1)
	if p.reason {
		neutralText = strings.Replace(neutralText, " because we say so", "", 1)
	}
	neutralLines := append(append(append([]string{}, lines[:p.line-1]...), neutralText), lines[p.line-1:]...)
	neutral, nerr := neutralReport(bin, cache, root, si, all, p.file, p.line, p.lead, strings.Join(neutralLines, "\n"), src)
	if nerr != "" {
		res.inconcl = nerr
		return
	}
	old = neutral
	nodeLine := attachedLine(newSrc, p.dirLine())
	abs := filepath.Join(root, p.file)
	if err := os.WriteFile(abs, []byte(newSrc), 0o644); err != nil {
		res.inconcl = err.Error()
		return
	}
	defer os.WriteFile(abs, []byte(src), 0o644)

	args := []string{"-f", "json", "-show-ignored"}
	if all {
		args = append(args, "-checks", "all")
	}
	out := lintrun.Cmd{Bin: bin, Dir: root, Env: []string{"STATICCHECK_CACHE=" + cache}, Args: append(args, "./...")}.Run()
	if out.Killed {
		res.inconcl = "watchdog"
		return
	}
	if out.Crashed() {
		stderr := string(out.Stderr)
		res.viol = append(res.viol, func() {
			r.Violation("crash", "linter crashed after inserting a directive", map[string]any{"file": p.file, "line": p.line, "directive": p.text(), "stderr": stderr})
		})
		return
	}
	ps, err := out.Problems()
	if err != nil {
		res.inconcl = "unparsable json: " + err.Error()
		return
	}
	// ---- prediction
	shift := func(k pkey) pkey { return k } // the neutral reference already has the extra line
	enabled := func(code string) bool {
		c := strings.ToLower(code)
		if !allChecks[c] {
			return false
		}
		return all || !nonDefault[c]
	}
	wantVisible := map[pkey]bool{}
	wantIgnored := map[pkey]bool{}
	var oldU1000 []pkey
	wellFormed := p.reason
	isU := p.checks == "U1000"
	matched := false
	for _, k0 := range old {
		k := shift(k0)
		if k.code == "U1000" {
			oldU1000 = append(oldU1000, k)
			continue
		}
		supp := false
		if wellFormed && nodeLine != 0 && k.file == p.file && k.code != "compile" {
			if p.kind == "file-ignore" {
				supp = globMatch(p.checks, k.code)
			} else if k.line == nodeLine {
				supp = globMatch(p.checks, k.code)
			}
		}
		if supp {
			wantIgnored[k] = true
			matched = true
			res.suppress++
		} else {
			wantVisible[k] = true
		}
	}
	if nodeLine != 0 {
		if !wellFormed {
			wantVisible[pkey{p.file, nodeLine, 0, "compile", "malformed linter directive; missing the required reason field?"}] = true
			res.dirProb = true
		} else if p.kind == "ignore" && !matched {
			// reported unless it names only disabled/unknown checks or U1000
			report := false
			for _, c := range strings.Split(p.checks, ",") {
				if strings.ToLower(c) == "u1000" {
					report = false
					break
				}
				if enabled(c) {
					report = true
					break
				}
			}
			if report {
				wantVisible[pkey{p.file, p.dirLine(), 0, "staticcheck", "this linter directive didn't match anything; should it be removed?"}] = true
				res.dirProb = true
			}
		}
	}
	res.nontriv = res.suppress > 0 || res.dirProb
	// ---- compare
	gotVisible, gotIgnored := map[pkey]bool{}, map[pkey]bool{}
	var gotU []pkey
	for _, jp := range ps {
		k := keyOf(root, jp)
		if k.code == "U1000" {
			gotU = append(gotU, k)
			continue
		}
		if k.code == "compile" || k.code == "staticcheck" {
			k.col = 0 // the column of directive problems is not part of the prediction
		}
		if jp.Severity == "ignored" {
			gotIgnored[k] = true
		} else {
			gotVisible[k] = true
		}
	}
	desc := func() map[string]any {
		return map[string]any{"workspace_state": si, "file": p.file, "inserted_before_line": p.line, "directive": strings.TrimSpace(p.text()), "attached_node_line": nodeLine, "checks_all": all, "new_source": newSrc}
	}
	report := func(cls string, ks []pkey) {
		if len(ks) == 0 {
			return
		}
		sort.Slice(ks, func(i, j int) bool { return ks[i].String() < ks[j].String() })
		var ss []string
		for _, k := range ks {
			ss = append(ss, k.String())
		}
		res.viol = append(res.viol, func() {
			d := desc()
			d["problems"] = ss
			r.Violation(cls+":"+p.kind+":"+p.listKind+fmt.Sprintf(":reason=%v", p.reason), fmt.Sprintf("%s (%d): %s", cls, len(ss), ss[0]), d)
		})
	}
	var notSuppressed, wronglySuppressed, lost, extra []pkey
	for k := range wantIgnored {
		if !gotIgnored[k] {
			notSuppressed = append(notSuppressed, k)
		}
	}
	for k := range gotIgnored {
		if !wantIgnored[k] {
			wronglySuppressed = append(wronglySuppressed, k)
		}
	}
	for k := range wantVisible {
		if !gotVisible[k] && !gotIgnored[k] {
			lost = append(lost, k)
		}
	}
	for k := range gotVisible {
		if !wantVisible[k] && !wantIgnored[k] {
			extra = append(extra, k)
		}
	}
	report("named-problem-not-suppressed", notSuppressed)
	report("unnamed-problem-suppressed", wronglySuppressed)
	report("problem-disappeared", lost)
	report("unexpected-problem", extra)
	// U1000: the set may only shrink, and only when the directive names U1000
	oldSet := map[pkey]bool{}
	for _, k := range oldU1000 {
		oldSet[k] = true
	}
	var newU, goneU []pkey
	gotSet := map[pkey]bool{}
	for _, k := range gotU {
		gotSet[k] = true
		if !oldSet[k] {
			newU = append(newU, k)
		}
	}
	for _, k := range oldU1000 {
		if !gotSet[k] {
			goneU = append(goneU, k)
		}
	}
	report("u1000-problem-appeared", newU)
	if !(isU && wellFormed && nodeLine != 0) {
		report("u1000-problem-vanished-without-u1000-directive", goneU)
	} else {
		for _, k := range gotU {
			if k.file == p.file && k.line == nodeLine && p.kind == "ignore" {
				report("u1000-on-ignored-line-still-reported", []pkey{k})
			}
		}
		if len(goneU) > 0 {
			res.nontriv = true
		}
	}
	return
}

var neutralMu sync.Mutex
var neutralCache = map[string][]pkey{}

// neutralReport lints the workspace with a neutral comment at the placement's line (memoised).
func neutralReport(bin, cache, root string, si int, all bool, file string, line int, lead bool, neutralSrc, origSrc string) ([]pkey, string) {
	key := fmt.Sprintf("%d/%v/%s/%d/%v", si, all, file, line, lead)
	neutralMu.Lock()
	if v, ok := neutralCache[key]; ok {
		neutralMu.Unlock()
		return v, ""
	}
	neutralMu.Unlock()
	abs := filepath.Join(root, file)
	if err := os.WriteFile(abs, []byte(neutralSrc), 0o644); err != nil {
		return nil, err.Error()
	}
	defer os.WriteFile(abs, []byte(origSrc), 0o644)
	args := []string{"-f", "json", "-show-ignored"}
	if all {
		args = append(args, "-checks", "all")
	}
	out := lintrun.Cmd{Bin: bin, Dir: root, Env: []string{"STATICCHECK_CACHE=" + cache}, Args: append(args, "./...")}.Run()
	if out.Killed || out.Crashed() || out.Exit > 1 {
		return nil, "neutral reference run failed"
	}
	ps, err := out.Problems()
	if err != nil {
		return nil, "neutral reference run unparsable"
	}
	var ks []pkey
	for _, p := range ps {
		if p.Severity == "ignored" {
			continue
		}
		ks = append(ks, keyOf(root, p))
	}
	neutralMu.Lock()
	neutralCache[key] = ks
	neutralMu.Unlock()
	return ks, ""
}
