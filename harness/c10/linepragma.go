package c10

import (
	"fmt"
	"os"
	"path/filepath"
	"sort"
	"strings"

	"verif/lintrun"
	"verif/vf"
)

// linePragmaUnit (added after seeded C10c): directives in code below a //line pragma that maps
// the code to another .go file name (generator output, cgo). Metamorphic relation: inserting
// the pragma changes where problems are displayed — file name and line, by a known offset —
// and nothing else; in particular a directive suppresses below the pragma exactly what it
// suppresses without it, and "didn't match anything" is reported for the same directives.
func linePragmaUnit(r *vf.Run, bin, cache string) {
	n := r.Pick(6, 30)
	for i := 0; i < n; i++ {
		rng := r.Rand("linepragma", i)
		var plain, mapped []string
		emit := func(s string) { plain = append(plain, s); mapped = append(mapped, s) }
		emit("package p")
		emit("")
		emit("import \"time\"")
		emit("")
		mapped = append(mapped, "//line mapped_p.go:500:1")
		pragmaLine := len(mapped) // physical line of the pragma in the mapped variant
		firstBelowPlain := len(plain) + 1
		fileIgnore := rng.IntN(4) == 0
		if fileIgnore {
			emit("//lint:file-ignore SA1004 the whole file is exempt")
			emit("")
		}
		nFuncs := 2 + rng.IntN(4)
		want := map[string]int{} // directive kinds used
		for f := 0; f < nFuncs; f++ {
			emit(fmt.Sprintf("func F%d() {", f))
			for s, ns := 0, 1+rng.IntN(4); s < ns; s++ {
				switch rng.IntN(5) {
				case 0:
					emit("\t//lint:ignore SA1004 deliberate")
					want["matching"]++
				case 1:
					emit("\t//lint:ignore SA1005 names another check")
					want["other-check"]++
				case 2:
					emit("\t//lint:ignore SA10* glob")
					want["glob"]++
				case 3:
					emit("\t//lint:ignore SA1004")
					want["no-reason"]++
				default:
					want["none"]++
				}
				emit(fmt.Sprintf("\ttime.Sleep(%d)", 1+rng.IntN(50)))
			}
			emit("}")
			emit("")
		}
		run := func(name string, lines []string) ([]lintrun.Problem, string, bool) {
			root := filepath.Join(r.Scratch(), fmt.Sprintf("linepragma-%d-%s", i, name))
			os.MkdirAll(root, 0o755)
			os.WriteFile(filepath.Join(root, "go.mod"), []byte("module example.com/lp\n\ngo 1.22\n"), 0o644)
			os.WriteFile(filepath.Join(root, "p.go"), []byte(strings.Join(lines, "\n")+"\n"), 0o644)
			res := lintrun.Cmd{Bin: bin, Dir: root, Env: []string{"STATICCHECK_CACHE=" + cache}, Args: []string{"-f", "json", "-show-ignored", "-checks", "SA1004,SA1005", "./..."}}.Run()
			ps, err := res.Problems()
			if err != nil || res.Killed || res.Exit > 1 {
				r.Inconclusive("line-pragma unit %d (%s): %v exit=%d %s", i, name, err, res.Exit, res.Stderr)
				return nil, root, false
			}
			return ps, root, true
		}
		pp, proot, ok1 := run("plain", plain)
		mp, mroot, ok2 := run("mapped", mapped)
		if !ok1 || !ok2 {
			continue
		}
		// every position at or below firstBelowPlain moves to mapped_p.go, line 500 + (L+1) - pragmaLine - 1
		expect := map[string]bool{}
		for _, p := range pp {
			k := keyOf(proot, p)
			if k.line >= firstBelowPlain {
				k.file = "mapped_p.go"
				k.line = 500 + (k.line + 1) - pragmaLine - 1
			}
			expect[k.String()+" ["+p.Severity+"]"] = true
		}
		got := map[string]bool{}
		for _, p := range mp {
			got[keyOf(mroot, p).String()+" ["+p.Severity+"]"] = true
		}
		var missing, spurious []string
		for k := range expect {
			if !got[k] {
				missing = append(missing, k)
			}
		}
		for k := range got {
			if !expect[k] {
				spurious = append(spurious, k)
			}
		}
		sort.Strings(missing)
		sort.Strings(spurious)
		r.Add("line_pragma_cases", 1)
		r.Add("line_pragma_problems_compared", len(expect))
		ignored := 0
		for k := range expect {
			if strings.HasSuffix(k, "[ignored]") {
				ignored++
			}
		}
		r.Add("line_pragma_ignored_problems_expected", ignored)
		if len(missing)+len(spurious) > 0 {
			r.Violation("line-pragma", fmt.Sprintf("below a //line pragma the report differs from the same file without it (positions translated): missing %v, unexpected %v", missing, spurious),
				map[string]any{"plain": strings.Join(plain, "\n"), "mapped": strings.Join(mapped, "\n"), "missing": missing, "unexpected": spurious})
		}
		if i == 0 {
			r.Sample(map[string]any{"line_pragma_case": strings.Join(mapped, "\n"), "directive_kinds": want, "problems_compared": len(expect)}, 6)
		}
	}
}
