// Package syngen generates syntax-coverage packages: type-correct Go code
// that is never executed, built so that the cross product "analyzer x
// construct" is hit — every statement and expression form, every builtin in
// every result position, results of every pointer-like type.
package syngen

import (
	"fmt"
	"math/rand/v2"
	"sort"
	"strings"
)

// A Func is one generated top-level declaration group (self-contained).
type Func struct {
	Name string
	Src  string
	Tags []string // constructs it covers
}

type Package struct {
	Name  string
	Funcs []Func
}

const header = `import (
	"errors"
	"fmt"
	"iter"
	"os"
	"sort"
	"strings"
	"sync"
	"unsafe"
)

var (
	_ = errors.New
	_ = fmt.Sprint
	_ iter.Seq[int]
	_ = os.Exit
	_ = sort.Ints
	_ = strings.Contains
	_ sync.Mutex
	_ unsafe.Pointer
)

type T struct {
	A, B int
	P    *int
	S    []int
	Mp   map[string]int
	F    func(int) int
	I    interface{ M(int) int }
	C    chan int
	E    error
}

func (t T) M(x int) int   { return t.A + x }
func (t *T) PM(x int) int { t.A += x; return t.A }

type I interface{ M(int) int }

type E struct{ msg string }

func (e *E) Error() string { return e.msg }

type G[K comparable, V any] struct {
	m map[K]V
}

func (g *G[K, V]) Get(k K) (V, bool) { v, ok := g.m[k]; return v, ok }

type Num interface{ ~int | ~int64 | ~float64 }

var (
	gInt  int
	gPtr  *int
	gSl   []int
	gMap  map[string]int
	gCh   chan int
	gFn   func() error
	gErr  error
	gAny  any
	gT    T
	gMu   sync.Mutex
)
`

// (source(expr of that type), tags)
type resultKind struct {
	typ   string
	exprs []string
}

// builtins in result position, per pointer-like and other result type
var builtinResults = []resultKind{
	{"any", []string{"recover()", "any(recover())", "gAny"}},
	{"error", []string{"func() error { e, _ := recover().(error); return e }()", "gErr", "errors.New(\"x\")", "(*E)(nil)", "&E{}"}},
	{"[]int", []string{"append(gSl, 1)", "append([]int(nil), gSl...)", "append(gSl)", "make([]int, 0)", "make([]int, 3, 8)", "gSl[:0]", "gSl[1:]", "gSl[:0:0]", "unsafe.Slice(gPtr, 2)", "[]int{}", "[]int(nil)", "new([4]int)[:]", "new([0]int)[:]"}},
	{"[]byte", []string{"[]byte(\"abc\")", "[]byte(\"\")", "append([]byte(nil), \"x\"...)", "unsafe.Slice(unsafe.StringData(\"ab\"), 2)"}},
	{"map[string]int", []string{"make(map[string]int)", "make(map[string]int, 4)", "map[string]int{}", "gMap", "map[string]int(nil)"}},
	{"chan int", []string{"make(chan int)", "make(chan int, 1)", "gCh", "(chan int)(nil)"}},
	{"*int", []string{"new(int)", "&gInt", "gPtr", "unsafe.SliceData(gSl)", "(*int)(unsafe.Pointer(gPtr))", "(*int)(unsafe.Add(unsafe.Pointer(gPtr), 8))", "&gT.A", "&gSl[0]", "&[]int{1}[0]", "(*int)(nil)"}},
	{"*byte", []string{"unsafe.StringData(\"abc\")", "unsafe.SliceData([]byte(\"x\"))"}},
	{"*[2]int", []string{"(*[2]int)(gSl)", "new([2]int)", "&[2]int{1, 2}"}},
	{"*[0]int", []string{"(*[0]int)(gSl)"}},
	{"[2]int", []string{"[2]int(gSl)", "*(*[2]int)(gSl)"}},
	{"unsafe.Pointer", []string{"unsafe.Pointer(gPtr)", "unsafe.Add(unsafe.Pointer(gPtr), 1)", "unsafe.Pointer(uintptr(0))", "unsafe.Pointer(uintptr(unsafe.Pointer(gPtr)) + 1)", "unsafe.Pointer(nil)"}},
	{"func() error", []string{"gFn", "func() error { return nil }", "(func() error)(nil)", "(&E{}).Error2"}},
	{"I", []string{"gT", "&gT", "I(nil)", "gT.I"}},
	{"string", []string{"string(gSl2)", "unsafe.String(unsafe.StringData(\"ab\"), 1)", "strings.Repeat(\"x\", 2)", "fmt.Sprint(min(\"a\", \"b\"))"}},
	{"int", []string{"len(gSl)", "cap(gSl)", "len(gMap)", "len(gCh)", "cap(gCh)", "len(\"abc\")", "copy(gSl, gSl)", "copy([]byte(nil), \"abc\")", "min(gInt, 2)", "max(gInt, 2, 3)", "int(unsafe.Sizeof(gT))", "int(unsafe.Alignof(gT.A))", "int(unsafe.Offsetof(gT.B))", "int(real(complex(float64(gInt), 2)))", "int(imag(complex128(1i)))"}},
}

var extraDecls = `
var gSl2 []byte

func (e *E) Error2() error { return e }
`

// statement-form snippets; %[1]s = unique suffix
var stmtSnippets = []struct {
	tags []string
	src  string
}{
	{[]string{"select", "send", "recv", "go", "defer"}, `func S%[1]s(a, b chan int, done <-chan struct{}) (r int, err error) {
	defer func() {
		if e := recover(); e != nil {
			err = fmt.Errorf("recovered: %%v", e)
		}
	}()
	go func() { a <- 1 }()
	for i := 0; i < 3; i++ {
		select {
		case v := <-a:
			r += v
		case v, ok := <-b:
			if !ok {
				return r, nil
			}
			r -= v
		case b <- r:
		case <-done:
			return
		default:
			continue
		}
	}
	select {}
}`},
	{[]string{"typeswitch", "typeassert", "fallthrough", "switch"}, `func S%[1]s(x any, n int) (s string) {
	switch v := x.(type) {
	case nil:
		s = "nil"
	case int, int64:
		s = fmt.Sprint(v)
	case error:
		s = v.Error()
	case interface{ M(int) int }:
		s = fmt.Sprint(v.M(1))
	case []int:
		s = fmt.Sprint(len(v))
	case func() error:
		_ = v()
	default:
		_ = v
	}
	switch {
	case n < 0:
		s += "-"
		fallthrough
	case n == 0:
		s += "0"
	case n > 100, n > 10:
		s += "+"
	}
	switch y := n %% 3; y {
	case 0, 1:
		s += "a"
	default:
	}
	switch n > 1 && len(s) > 0 || x == nil {
	case true:
		s += "t"
	case false:
		s += "f"
	}
	switch z := n > 0; !z || n%%2 == 0 {
	case true:
	}
	if e, ok := x.(error); ok && e != nil {
		s += e.Error()
	}
	_ = x.(fmt.Stringer).String
	return s
}`},
	{[]string{"goto", "label", "break", "continue"}, `func S%[1]s(xs [][]int) (n int) {
	i := 0
outer:
	for ; i < len(xs); i++ {
	inner:
		for j := range xs[i] {
			switch {
			case xs[i][j] < 0:
				continue outer
			case xs[i][j] == 0:
				break inner
			case xs[i][j] > 100:
				break outer
			}
			n += xs[i][j]
			if n > 1000 {
				goto done
			}
		}
	}
	if n == 7 {
		goto again
	}
done:
	return n
again:
	n++
	goto done
}`},
	{[]string{"range-int", "range-func", "range-string", "range-map", "range-chan", "range-array-ptr"}, `func S%[1]s(m map[string]int, s string, c chan int, seq iter.Seq2[int, string], arr *[4]int) (n int) {
	for i := range 10 {
		n += i
	}
	for range 3 {
		n++
	}
	for k, v := range m {
		n += len(k) + v
	}
	for k := range m {
		delete(m, k)
	}
	for i, r := range s {
		n += i + int(r)
	}
	for v := range c {
		n += v
	}
	for i, v := range seq {
		if i > 3 {
			break
		}
		n += len(v)
		if v == "x" {
			continue
		}
		defer func() { n++ }()
	}
	for i, v := range arr {
		n += i * v
	}
	for i := range arr {
		arr[i] = 0
	}
	var it iter.Seq[int] = func(yield func(int) bool) {
		for i := 0; i < 3; i++ {
			if !yield(i) {
				return
			}
		}
	}
	for v := range it {
		n += v
		if v == 2 {
			return n
		}
	}
	clear(m)
	return
}`},
	{[]string{"generics", "instantiate", "constraint"}, `func Sum%[1]s[N Num](xs ...N) (s N) {
	for _, x := range xs {
		s += x
	}
	return
}

func MapK%[1]s[K comparable, V any](m map[K]V) []K {
	out := make([]K, 0, len(m))
	for k := range m {
		out = append(out, k)
	}
	return out
}

type Stack%[1]s[E any] struct{ items []E }

func (s *Stack%[1]s[E]) Push(e E) *Stack%[1]s[E] { s.items = append(s.items, e); return s }
func (s *Stack%[1]s[E]) Pop() (e E, ok bool) {
	if len(s.items) == 0 {
		return e, false
	}
	e = s.items[len(s.items)-1]
	s.items = s.items[:len(s.items)-1]
	return e, true
}

func S%[1]s() (int, *Stack%[1]s[string]) {
	g := &G[string, *int]{m: map[string]*int{}}
	p, _ := g.Get("x")
	st := (&Stack%[1]s[string]{}).Push("a")
	f := Sum%[1]s[float64]
	ks := MapK%[1]s(map[int]bool{1: true})
	if p != nil {
		return *p + len(ks), st
	}
	return int(f(1, 2)) + Sum%[1]s(1, 2, 3), st
}`},
	{[]string{"closure", "method-value", "method-expr", "defer-loop"}, `func S%[1]s(t *T) (fs []func() int, err error) {
	for i := 0; i < 3; i++ {
		fs = append(fs, func() int { return i + t.A })
		defer func(k int) { t.A -= k }(i)
	}
	mv := t.M
	pm := t.PM
	me := T.M
	pe := (*T).PM
	im := t.I.M
	fs = append(fs, func() int { return mv(1) + pm(2) + me(*t, 3) + pe(t, 4) + im(5) })
	var once sync.Once
	once.Do(func() { err = errors.New("once") })
	func() {
		gMu.Lock()
		defer gMu.Unlock()
		gInt++
	}()
	return fs, err
}`},
	{[]string{"composite", "struct-conv", "embedding", "anon-struct"}, `type Inner%[1]s struct{ X, Y int }
type Outer%[1]s struct {
	Inner%[1]s
	*E
	Name string
	tags [2]string
}
type Alias%[1]s = Outer%[1]s
type Conv%[1]s struct{ X, Y int }

func S%[1]s() (o *Alias%[1]s, c Conv%[1]s, arr [3]int, m map[Inner%[1]s][]string) {
	o = &Outer%[1]s{Inner%[1]s: Inner%[1]s{1, 2}, E: &E{"e"}, Name: "n", tags: [2]string{0: "a"}}
	c = Conv%[1]s(o.Inner%[1]s)
	arr = [...]int{2: 1}
	m = map[Inner%[1]s][]string{{1, 2}: {"a"}, {X: 3}: nil}
	anon := struct {
		A int
		B []struct{ C *int }
	}{A: 1, B: []struct{ C *int }{{nil}, {C: &o.X}}}
	_ = anon.B[1].C
	pa := &[]*Inner%[1]s{{1, 2}, nil}
	_ = (*pa)[0].X
	o.X, o.Y = o.Y, o.X
	_ = o.Error
	return
}`},
	{[]string{"const", "iota", "shift", "untyped", "complex", "string-ops"}, `type Weekday%[1]s int

const (
	Sun%[1]s Weekday%[1]s = iota
	Mon%[1]s
	_
	Wed%[1]s = iota * 10
	big%[1]s = 1 << 62
	f%[1]s   = 1.5e3
	s%[1]s   = "const" + "ant"
)

func (d Weekday%[1]s) String() string { return [...]string{"S", "M"}[d%%2] }

func S%[1]s(x uint8, y int, s string) (uint8, int64, string, complex128, bool) {
	a := x << 3 >> 1
	b := int64(y) &^ 0xff | big%[1]s ^ int64(^x)
	c := s[1:] + s[:len(s)/2] + string(rune(y)) + string(s[0]) + fmt.Sprint(Mon%[1]s)
	z := complex(float64(y), f%[1]s) * 2i
	ok := s < "m" || !(y >= 3 && y != 5) == (x > 1)
	y <<= 2
	y %%= 7
	x++
	return a + x, b + int64(y), c, z + complex(real(z), -imag(z)), ok
}`},
	{[]string{"nil-flow", "nil-compare", "named-results", "recover-iface"}, `func H%[1]s() (r interface{}) { return recover() }

func HE%[1]s() (err error) {
	defer func() {
		if r := recover(); r != nil {
			err, _ = r.(error)
		}
	}()
	return nil
}

func S%[1]s(p *T, q *int) (out *int, e error) {
	if p == nil {
		return nil, &E{"nil"}
	}
	if p.P != nil && q == nil {
		out = p.P
	} else if q != nil {
		out = q
	}
	var e2 *E
	if out == nil {
		e = e2
	}
	if HE%[1]s() == nil || H%[1]s() != nil {
		return out, e
	}
	a, b := p.P, q
	for i := 0; i < 3; i++ {
		a, b = b, a
	}
	return a, nil
}`},
	{[]string{"io", "exit", "os", "sort"}, `func S%[1]s(xs []int, name string) (err error) {
	f, err := os.Open(name)
	if err != nil {
		return fmt.Errorf("open %%s: %%w", name, err)
	}
	defer f.Close()
	sort.Slice(xs, func(i, j int) bool { return xs[i] < xs[j] })
	if len(xs) == 0 {
		fmt.Fprintln(os.Stderr, "empty")
		os.Exit(1)
	}
	var sb strings.Builder
	for _, x := range xs {
		fmt.Fprintf(&sb, "%%d,", x)
	}
	if strings.Contains(sb.String(), "x") {
		panic("unreachable")
	}
	println(len(xs), sb.Len())
	print()
	return nil
}`},
}

// Generate builds a package of about n functions.
func Generate(rng *rand.Rand, name string, n int) Package {
	p := Package{Name: name}
	uid := 0
	next := func() string { uid++; return fmt.Sprintf("%d", uid) }
	// builtin/result matrix
	for k := 0; k < n/2; k++ {
		rk := builtinResults[rng.IntN(len(builtinResults))]
		ex := rk.exprs[rng.IntN(len(rk.exprs))]
		id := next()
		var src string
		switch rng.IntN(4) {
		case 0:
			src = fmt.Sprintf("func R%s() %s { return %s }", id, rk.typ, ex)
		case 1:
			src = fmt.Sprintf("func R%s(c bool) (r %s) {\n\tif c {\n\t\tr = %s\n\t}\n\treturn r\n}", id, rk.typ, ex)
		case 2:
			ex2 := rk.exprs[rng.IntN(len(rk.exprs))]
			src = fmt.Sprintf("func R%s(n int) %s {\n\tvar x %s = %s\n\tfor i := 0; i < n; i++ {\n\t\tvar y %s = %s\n\t\tx, y = y, x\n\t\t_ = y\n\t}\n\treturn x\n}", id, rk.typ, rk.typ, ex, rk.typ, ex2)
		default:
			src = fmt.Sprintf("func R%s() (%s, error) {\n\tdefer func() { recover() }()\n\tvar v %s = %s\n\treturn v, nil\n}", id, rk.typ, rk.typ, ex)
		}
		p.Funcs = append(p.Funcs, Func{"R" + id, src, []string{"result:" + rk.typ, "expr:" + ex}})
	}
	for k := 0; k < n-n/2; k++ {
		sn := stmtSnippets[rng.IntN(len(stmtSnippets))]
		id := next()
		p.Funcs = append(p.Funcs, Func{"S" + id, fmt.Sprintf(sn.src, id), sn.tags})
	}
	return p
}

// Source renders the package; keep selects a subset of functions (nil = all).
func (p Package) Source(keep map[int]bool) string {
	var b strings.Builder
	fmt.Fprintf(&b, "// Package %s is generated.\npackage %s\n\n%s\n%s\n", p.Name, p.Name, header, extraDecls)
	for i, f := range p.Funcs {
		if keep != nil && !keep[i] {
			continue
		}
		b.WriteString(f.Src)
		b.WriteString("\n\n")
	}
	return b.String()
}

func (p Package) Tags() []string {
	m := map[string]bool{}
	for _, f := range p.Funcs {
		for _, t := range f.Tags {
			m[t] = true
		}
	}
	var out []string
	for t := range m {
		out = append(out, t)
	}
	sort.Strings(out)
	return out
}
