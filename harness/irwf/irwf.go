// Package irwf is an independent well-formedness oracle for go/ir function
// bodies (properties C02 and C14). It shares no code with go/ir/sanity.go and
// computes its own dominators from Preds/Succs by iterative set intersection.
//
// Every rule is written from the property statement and the per-instruction
// documentation in go/ir/ssa.go. Rules are named so that evidence can say how
// often each obligation was checked.
package irwf

import (
	"fmt"
	"go/token"
	"go/types"
	"math/big"

	"honnef.co/go/tools/go/ir"
)

type Issue struct {
	Rule string
	Fn   string
	Msg  string
}

type Stats struct {
	Funcs, Blocks, Instrs  int
	Kinds                  map[string]int // instruction kind -> count
	Obligations            map[string]int // rule -> times checked
	FuncsWithRecover       int
	FuncsIrreducible       int
	FuncsWithPhis          int
	DomPairs               int
	SkippedTypeParamChecks int
}

func NewStats() *Stats {
	return &Stats{Kinds: map[string]int{}, Obligations: map[string]int{}}
}

type checker struct {
	fn     *ir.Function
	st     *Stats
	issues []Issue
	// own dominance info
	reach   []bool     // reachable from entry
	dom     []*big.Int // dom[b] = set of blocks dominating b (incl. b), relative to root(b)
	root    []int      // 0 = entry tree, 1 = recover tree, -1 unreachable
	pos     map[ir.Instruction]int
	inBlock map[ir.Instruction]*ir.BasicBlock
}

func (c *checker) bad(rule, format string, a ...any) {
	if len(c.issues) < 50 {
		c.issues = append(c.issues, Issue{rule, c.fn.String(), fmt.Sprintf(format, a...)})
	}
}

func (c *checker) ob(rule string) { c.st.Obligations[rule]++ }

func isTerminator(i ir.Instruction) bool {
	switch i.(type) {
	case *ir.If, *ir.Jump, *ir.Return, *ir.Panic, *ir.Unreachable, *ir.ConstantSwitch:
		return true
	}
	return false
}

// Dominators computes, independently of go/ir/dom.go, for every block the set
// of blocks that dominate it. Blocks reachable from the entry use the entry as
// root and only paths from the entry; blocks reachable only from fn.Recover
// use Recover as root. The returned root slice says which (‑1: unreachable).
func Dominators(fn *ir.Function) (dom []*big.Int, root []int) {
	n := len(fn.Blocks)
	root = make([]int, n)
	for i := range root {
		root[i] = -1
	}
	mark := func(start *ir.BasicBlock, r int) {
		stack := []*ir.BasicBlock{start}
		for len(stack) > 0 {
			b := stack[len(stack)-1]
			stack = stack[:len(stack)-1]
			if b.Index < 0 || b.Index >= n || root[b.Index] != -1 {
				continue
			}
			root[b.Index] = r
			stack = append(stack, b.Succs...)
		}
	}
	if n > 0 {
		mark(fn.Blocks[0], 0)
	}
	if fn.Recover != nil {
		mark(fn.Recover, 1)
	}
	all := new(big.Int)
	for i := 0; i < n; i++ {
		all.SetBit(all, i, 1)
	}
	dom = make([]*big.Int, n)
	for i := 0; i < n; i++ {
		dom[i] = new(big.Int).Set(all)
	}
	isRoot := func(b *ir.BasicBlock) bool {
		return b.Index == 0 || (b == fn.Recover && root[b.Index] == 1)
	}
	for _, b := range fn.Blocks {
		if isRoot(b) {
			dom[b.Index] = new(big.Int).SetBit(new(big.Int), b.Index, 1)
		}
	}
	for changed := true; changed; {
		changed = false
		for _, b := range fn.Blocks {
			if isRoot(b) || root[b.Index] == -1 {
				continue
			}
			nd := new(big.Int).Set(all)
			any := false
			for _, p := range b.Preds {
				if p.Index < 0 || p.Index >= n || root[p.Index] != root[b.Index] {
					// paths that start at the other root do not count
					continue
				}
				nd.And(nd, dom[p.Index])
				any = true
			}
			if !any {
				nd = new(big.Int)
			}
			nd.SetBit(nd, b.Index, 1)
			if nd.Cmp(dom[b.Index]) != 0 {
				dom[b.Index] = nd
				changed = true
			}
		}
	}
	return dom, root
}

func (c *checker) dominates(a, b *ir.BasicBlock) bool {
	return c.dom[b.Index].Bit(a.Index) == 1
}

func hasTypeParam(t types.Type) bool {
	seen := map[types.Type]bool{}
	var walk func(t types.Type) bool
	walk = func(t types.Type) bool {
		if t == nil || seen[t] {
			return false
		}
		seen[t] = true
		switch t := t.(type) {
		case *types.TypeParam:
			return true
		case *types.Alias:
			return walk(types.Unalias(t))
		case *types.Named:
			ta := t.TypeArgs()
			for i := 0; i < ta.Len(); i++ {
				if walk(ta.At(i)) {
					return true
				}
			}
			return false
		case *types.Pointer:
			return walk(t.Elem())
		case *types.Slice:
			return walk(t.Elem())
		case *types.Array:
			return walk(t.Elem())
		case *types.Map:
			return walk(t.Key()) || walk(t.Elem())
		case *types.Chan:
			return walk(t.Elem())
		case *types.Tuple:
			for i := 0; i < t.Len(); i++ {
				if walk(t.At(i).Type()) {
					return true
				}
			}
		case *types.Signature:
			return walk(t.Params()) || walk(t.Results()) || (t.Recv() != nil && walk(t.Recv().Type()))
		case *types.Struct:
			for i := 0; i < t.NumFields(); i++ {
				if walk(t.Field(i).Type()) {
					return true
				}
			}
		case *types.Interface:
			for i := 0; i < t.NumMethods(); i++ {
				if walk(t.Method(i).Type()) {
					return true
				}
			}
			for i := 0; i < t.NumEmbeddeds(); i++ {
				if walk(t.EmbeddedType(i)) {
					return true
				}
			}
		case *types.Union:
			for i := 0; i < t.Len(); i++ {
				if walk(t.Term(i).Type()) {
					return true
				}
			}
		}
		return false
	}
	return walk(t)
}

// Check validates one function body. Functions without blocks are external.
func Check(fn *ir.Function, st *Stats) []Issue {
	c := &checker{fn: fn, st: st}
	if len(fn.Blocks) == 0 {
		return nil
	}
	st.Funcs++
	c.cfg()
	if len(c.issues) > 0 {
		// the remaining rules presuppose a sane CFG
		return c.issues
	}
	c.dom, c.root = Dominators(fn)
	c.instructions()
	return c.issues
}

func count(bs []*ir.BasicBlock, x *ir.BasicBlock) int {
	n := 0
	for _, b := range bs {
		if b == x {
			n++
		}
	}
	return n
}

func (c *checker) cfg() {
	fn := c.fn
	c.pos = map[ir.Instruction]int{}
	c.inBlock = map[ir.Instruction]*ir.BasicBlock{}
	if fn.Recover != nil {
		c.st.FuncsWithRecover++
		if fn.Recover.Index < 0 || fn.Recover.Index >= len(fn.Blocks) || fn.Blocks[fn.Recover.Index] != fn.Recover {
			c.bad("cfg.index", "Recover block is not one of the function's blocks")
			return
		}
	}
	for i, b := range fn.Blocks {
		c.st.Blocks++
		c.ob("cfg.index")
		if b == nil {
			c.bad("cfg.index", "nil block %d", i)
			return
		}
		if b.Index != i {
			c.bad("cfg.index", "block at position %d has Index %d", i, b.Index)
		}
		if b.Parent() != fn {
			c.bad("cfg.index", "block %d has a different parent", i)
		}
		c.ob("cfg.nonempty")
		if len(b.Instrs) == 0 {
			c.bad("cfg.nonempty", "block %d is empty", i)
			continue
		}
		for j, in := range b.Instrs {
			c.st.Instrs++
			if in == nil {
				c.bad("cfg.nonempty", "nil instruction %d in block %d", j, i)
				continue
			}
			c.st.Kinds[fmt.Sprintf("%T", in)[4:]]++
			if _, dup := c.pos[in]; dup {
				c.bad("id.unique", "instruction %s appears twice", in)
			}
			c.pos[in] = j
			c.inBlock[in] = b
			c.ob("instr.block")
			if in.Block() != b {
				c.bad("instr.block", "instruction %q in block %d says Block()=%v", in, i, in.Block())
			}
			if in.Parent() != fn {
				c.bad("instr.block", "instruction %q has a different Parent()", in)
			}
			last := j == len(b.Instrs)-1
			c.ob("cfg.terminator")
			if isTerminator(in) != last {
				if last {
					c.bad("cfg.terminator", "block %d does not end in a terminator but in %T", i, in)
				} else {
					c.bad("cfg.terminator", "terminator %T in the middle of block %d", in, i)
				}
			}
		}
		c.ob("cfg.arity")
		want := -1
		switch t := b.Instrs[len(b.Instrs)-1].(type) {
		case *ir.If:
			want = 2
		case *ir.Jump:
			want = 1
		case *ir.Return, *ir.Panic, *ir.Unreachable:
			want = 0
		case *ir.ConstantSwitch:
			want = len(t.Conds)
		}
		if want >= 0 && len(b.Succs) != want {
			c.bad("cfg.arity", "block %d ends in %T but has %d successors, want %d", i, b.Instrs[len(b.Instrs)-1], len(b.Succs), want)
		}
		c.ob("cfg.inverse")
		for _, s := range b.Succs {
			if s == nil || s.Parent() != fn || s.Index < 0 || s.Index >= len(fn.Blocks) || fn.Blocks[s.Index] != s {
				c.bad("cfg.inverse", "block %d has a successor that is not a block of the function", i)
				return
			}
			if count(s.Preds, b) != count(b.Succs, s) {
				c.bad("cfg.inverse", "edge %d->%d: %d times in Succs, %d times in Preds", i, s.Index, count(b.Succs, s), count(s.Preds, b))
			}
		}
		for _, p := range b.Preds {
			if p == nil || p.Parent() != fn || p.Index < 0 || p.Index >= len(fn.Blocks) || fn.Blocks[p.Index] != p {
				c.bad("cfg.inverse", "block %d has a predecessor that is not a block of the function", i)
				return
			}
			if count(p.Succs, b) != count(b.Preds, p) {
				c.bad("cfg.inverse", "edge %d->%d: %d times in Preds, %d times in Succs", p.Index, i, count(b.Preds, p), count(p.Succs, b))
			}
		}
	}
	if len(c.issues) > 0 {
		return
	}
	_, root := Dominators(fn)
	for i, r := range root {
		c.ob("cfg.reachable")
		if r == -1 {
			c.bad("cfg.reachable", "block %d is reachable neither from the entry nor from the Recover block", i)
		}
	}
	// reducibility (evidence only): a retreating edge whose target does not dominate its source
	dom, _ := Dominators(fn)
	state := make([]int, len(fn.Blocks))
	irreducible := false
	var dfs func(b *ir.BasicBlock)
	dfs = func(b *ir.BasicBlock) {
		state[b.Index] = 1
		for _, s := range b.Succs {
			switch state[s.Index] {
			case 0:
				dfs(s)
			case 1:
				if dom[b.Index].Bit(s.Index) == 0 {
					irreducible = true
				}
			}
		}
		state[b.Index] = 2
	}
	dfs(fn.Blocks[0])
	if irreducible {
		c.st.FuncsIrreducible++
	}
}

// ident is type identity; an untyped constant operand (documented: Consts may
// carry untyped types, e.g. "hello":untyped string) is compatible with the
// type it defaults to, named or not.
func ident(a, b types.Type) bool {
	if types.Identical(a, b) {
		return true
	}
	for _, p := range [][2]types.Type{{a, b}, {b, a}} {
		if u, ok := p[0].(*types.Basic); ok && u.Info()&types.IsUntyped != 0 {
			if u.Kind() == types.UntypedNil {
				return true
			}
			return types.Identical(types.Default(u), p[1].Underlying()) || types.ConvertibleTo(types.Default(u), p[1])
		}
	}
	return false
}

func deref(t types.Type) (types.Type, bool) {
	if p, ok := t.Underlying().(*types.Pointer); ok {
		return p.Elem(), true
	}
	return nil, false
}

// defOK reports whether the definition of operand v is available at instruction
// use (for phis: at the end of predecessor pred).
func (c *checker) defOK(v ir.Value, use ir.Instruction, pred *ir.BasicBlock) (ok bool, why string) {
	def, isInstr := v.(ir.Instruction)
	if !isInstr {
		return true, ""
	}
	db := c.inBlock[def]
	if db == nil {
		return false, fmt.Sprintf("operand %s (%T) is not an instruction of any block of this function", v.Name(), v)
	}
	if pred != nil {
		if c.root[pred.Index] != c.root[db.Index] {
			return false, fmt.Sprintf("phi operand %s is defined under the other root", v.Name())
		}
		if !c.dominates(db, pred) {
			return false, fmt.Sprintf("phi operand %s defined in block %d does not dominate predecessor %d", v.Name(), db.Index, pred.Index)
		}
		return true, ""
	}
	ub := c.inBlock[use]
	if db == ub {
		if c.pos[def] < c.pos[use] {
			return true, ""
		}
		return false, fmt.Sprintf("operand %s is defined after its use in block %d", v.Name(), ub.Index)
	}
	if c.root[ub.Index] != c.root[db.Index] {
		// The one documented cross-root use: the Recover block loads the
		// named-result allocs, which live in the entry block.
		if _, isAlloc := def.(*ir.Alloc); isAlloc && db.Index == 0 && ub == c.fn.Recover {
			return true, ""
		}
		return false, fmt.Sprintf("operand %s is defined in block %d (other root) and used in block %d", v.Name(), db.Index, ub.Index)
	}
	if !c.dominates(db, ub) {
		return false, fmt.Sprintf("operand %s defined in block %d does not dominate its use in block %d (%s)", v.Name(), db.Index, ub.Index, use)
	}
	return true, ""
}

func (c *checker) instructions() {
	fn := c.fn
	ids := map[ir.ID]ir.Instruction{}
	locals := map[*ir.Alloc]bool{}
	for _, l := range fn.Locals {
		c.ob("locals.membership")
		if l == nil {
			c.bad("locals.membership", "nil entry in Locals")
			continue
		}
		if l.Heap {
			c.bad("locals.membership", "heap alloc %s is listed in Locals", l.Name())
		}
		if c.inBlock[l] == nil {
			// Not demanded by the Alloc documentation (only: a local alloc must be in
			// Locals). Dead allocs that block optimisation removed stay listed in
			// naive form; counted for evidence only.
			c.st.Obligations["note.locals-entry-not-in-any-block"]++
		}
		locals[l] = true
	}
	// expected referrers: value -> multiset of instructions
	want := map[ir.Value]map[ir.Instruction]int{}
	hasPhi := false
	var rands []*ir.Value
	for _, b := range fn.Blocks {
		seenNonPhi := false
		for _, in := range b.Instrs {
			c.ob("id.unique")
			if prev, dup := ids[in.ID()]; dup {
				c.bad("id.unique", "instructions %q and %q share ID %d", prev, in, in.ID())
			}
			ids[in.ID()] = in
			phi, isPhi := in.(*ir.Phi)
			if isPhi {
				hasPhi = true
				c.ob("phi.leading")
				if seenNonPhi {
					c.bad("phi.leading", "phi %s follows a non-phi in block %d", phi.Name(), b.Index)
				}
				c.ob("phi.arity")
				if len(phi.Edges) != len(b.Preds) {
					c.bad("phi.arity", "phi %s has %d edges, block %d has %d predecessors", phi.Name(), len(phi.Edges), b.Index, len(b.Preds))
					continue
				}
				for i, e := range phi.Edges {
					c.ob("phi.nonnil")
					if e == nil {
						c.bad("phi.nonnil", "phi %s has no value for predecessor %d", phi.Name(), b.Preds[i].Index)
						continue
					}
					c.ob("phi.type")
					if !ident(e.Type(), phi.Type()) {
						c.bad("phi.type", "phi %s has type %s but edge %d (%s) has type %s", phi.Name(), phi.Type(), i, e.Name(), e.Type())
					}
					c.ob("ssa.phi-dominance")
					if ok, why := c.defOK(e, phi, b.Preds[i]); !ok {
						c.bad("ssa.phi-dominance", "%s", why)
					}
				}
			} else {
				seenNonPhi = true
			}
			if a, ok := in.(*ir.Alloc); ok {
				c.ob("locals.membership")
				if !a.Heap && !locals[a] {
					c.bad("locals.membership", "local alloc %s is not in Locals", a.Name())
				}
				if a.Heap && locals[a] {
					c.bad("locals.membership", "heap alloc %s is in Locals", a.Name())
				}
			}
			rands = in.Operands(rands[:0])
			for _, op := range rands {
				v := *op
				if v == nil {
					continue
				}
				if v.Referrers() != nil {
					if want[v] == nil {
						want[v] = map[ir.Instruction]int{}
					}
					want[v][in]++
				}
				c.ob("ssa.same-function")
				switch vv := v.(type) {
				case *ir.Parameter, *ir.FreeVar:
					if vv.Parent() != fn {
						c.bad("ssa.same-function", "%q uses %T %s of another function", in, v, v.Name())
					}
				case ir.Instruction:
					if vv.Block() == nil {
						// an instruction that was removed from its block (Parent() would dereference the nil block)
						c.bad("ssa.same-function", "%q uses instruction value %s, which is in no block (removed from the function)", in, v.Name())
						continue
					}
					if vv.Parent() != fn {
						c.bad("ssa.same-function", "%q uses instruction value %s of another function", in, v.Name())
						continue
					}
					if !isPhi {
						c.ob("ssa.dominance")
						if ok, why := c.defOK(v, in, nil); !ok {
							c.bad("ssa.dominance", "%s", why)
						}
					}
				}
			}
			c.typing(in)
		}
	}
	if hasPhi {
		c.st.FuncsWithPhis++
	}
	// referrers: exact inverse of operands
	check := func(v ir.Value) {
		refs := v.Referrers()
		if refs == nil {
			return
		}
		c.ob("ref.inverse")
		got := map[ir.Instruction]int{}
		for _, r := range *refs {
			if r == nil {
				c.bad("ref.live", "%s has a nil referrer", v.Name())
				continue
			}
			got[r]++
			c.ob("ref.live")
			if c.inBlock[r] == nil {
				c.bad("ref.live", "%s lists referrer %q which is not an instruction of this function's blocks", v.Name(), r)
			}
		}
		for in, n := range want[v] {
			if got[in] == 0 {
				c.bad("ref.inverse", "%q uses %s but is not among its referrers", in, v.Name())
			} else if got[in] != n {
				// The relations are inverse as sets; multiplicities are not part of the property.
				c.st.Obligations["note.referrer-multiplicity-differs"]++
			}
		}
		for in := range got {
			if want[v][in] == 0 && c.inBlock[in] != nil {
				c.bad("ref.inverse", "%s lists referrer %q which does not use it", v.Name(), in)
			}
		}
	}
	for _, p := range fn.Params {
		check(p)
	}
	for _, fv := range fn.FreeVars {
		check(fv)
	}
	for _, b := range fn.Blocks {
		for _, in := range b.Instrs {
			if v, ok := in.(ir.Value); ok {
				check(v)
			}
		}
	}
}

func isBool(t types.Type) bool {
	b, ok := t.Underlying().(*types.Basic)
	return ok && b.Info()&types.IsBoolean != 0
}

func isInteger(t types.Type) bool {
	b, ok := t.Underlying().(*types.Basic)
	return ok && b.Info()&types.IsInteger != 0
}

func (c *checker) typing(in ir.Instruction) {
	// Anything that mentions a type parameter follows the (looser) type-set
	// rules of the documentation; those are not encoded here.
	var rands []*ir.Value
	for _, op := range in.Operands(rands) {
		if *op != nil && hasTypeParam((*op).Type()) {
			c.st.SkippedTypeParamChecks++
			return
		}
	}
	if v, ok := in.(ir.Value); ok && hasTypeParam(v.Type()) {
		c.st.SkippedTypeParamChecks++
		return
	}
	t := func(rule string, cond bool, format string, a ...any) {
		c.ob(rule)
		if !cond {
			c.bad(rule, "%q: %s", in, fmt.Sprintf(format, a...))
		}
	}
	switch in := in.(type) {
	case *ir.Alloc:
		_, ok := deref(in.Type())
		t("type.alloc", ok, "Alloc has non-pointer type %s", in.Type())
	case *ir.Store:
		el, ok := deref(in.Addr.Type())
		t("type.store", ok && ident(el, in.Val.Type()), "stores %s into %s", in.Val.Type(), in.Addr.Type())
	case *ir.Load:
		el, ok := deref(in.X.Type())
		t("type.load", ok && ident(el, in.Type()), "loads %s from %s", in.Type(), in.X.Type())
	case *ir.If:
		t("type.if", isBool(in.Cond.Type()), "condition has type %s", in.Cond.Type())
	case *ir.BinOp:
		switch in.Op {
		case token.EQL, token.NEQ, token.LSS, token.LEQ, token.GTR, token.GEQ:
			t("type.binop", isBool(in.Type()), "comparison yields %s", in.Type())
		case token.SHL, token.SHR:
			t("type.binop", ident(in.X.Type(), in.Type()), "shift of %s yields %s", in.X.Type(), in.Type())
			t("type.binop", isInteger(in.Y.Type()), "shift count has type %s", in.Y.Type())
		default:
			t("type.binop", ident(in.X.Type(), in.Type()) && ident(in.Y.Type(), in.Type()), "%s %s %s yields %s", in.X.Type(), in.Op, in.Y.Type(), in.Type())
		}
	case *ir.UnOp:
		t("type.unop", ident(in.X.Type(), in.Type()), "%s%s yields %s", in.Op, in.X.Type(), in.Type())
		if in.Op == token.NOT {
			t("type.unop", isBool(in.X.Type()), "! applied to %s", in.X.Type())
		}
	case *ir.Return:
		res := c.fn.Signature.Results()
		t("type.return", len(in.Results) == res.Len(), "returns %d values, signature has %d", len(in.Results), res.Len())
		if len(in.Results) == res.Len() {
			for i, r := range in.Results {
				t("type.return", ident(r.Type(), res.At(i).Type()), "result %d has type %s, signature says %s", i, r.Type(), res.At(i).Type())
			}
		}
	case *ir.Call:
		c.call(in, &in.Call, in.Type())
	case *ir.Go:
		c.call(in, &in.Call, nil)
	case *ir.Defer:
		c.call(in, &in.Call, nil)
	case *ir.Field:
		st, ok := in.X.Type().Underlying().(*types.Struct)
		t("type.field", ok && in.Field >= 0 && in.Field < st.NumFields() && ident(st.Field(in.Field).Type(), in.Type()), "field #%d of %s yields %s", in.Field, in.X.Type(), in.Type())
	case *ir.FieldAddr:
		el, ok := deref(in.X.Type())
		var st *types.Struct
		if ok {
			st, ok = el.Underlying().(*types.Struct)
		}
		rt, ok2 := deref(in.Type())
		t("type.fieldaddr", ok && ok2 && in.Field >= 0 && in.Field < st.NumFields() && ident(st.Field(in.Field).Type(), rt), "&field #%d of %s yields %s", in.Field, in.X.Type(), in.Type())
	case *ir.Index:
		var el types.Type
		switch xt := in.X.Type().Underlying().(type) {
		case *types.Array:
			el = xt.Elem()
		case *types.Basic:
			if xt.Info()&types.IsString != 0 {
				el = types.Typ[types.Uint8]
			}
		}
		t("type.index", el != nil && ident(el, in.Type()) && isInteger(in.Index.Type()), "%s[%s] yields %s", in.X.Type(), in.Index.Type(), in.Type())
	case *ir.IndexAddr:
		var el types.Type
		switch xt := in.X.Type().Underlying().(type) {
		case *types.Slice:
			el = xt.Elem()
		case *types.Pointer:
			if a, ok := xt.Elem().Underlying().(*types.Array); ok {
				el = a.Elem()
			}
		}
		rt, ok := deref(in.Type())
		t("type.indexaddr", el != nil && ok && ident(el, rt) && isInteger(in.Index.Type()), "&%s[%s] yields %s", in.X.Type(), in.Index.Type(), in.Type())
	case *ir.StringLookup:
		b, ok := in.X.Type().Underlying().(*types.Basic)
		t("type.stringlookup", ok && b.Info()&types.IsString != 0 && isInteger(in.Index.Type()) && ident(in.Type(), types.Typ[types.Uint8]), "%s[%s] yields %s", in.X.Type(), in.Index.Type(), in.Type())
	case *ir.MapLookup:
		m, ok := in.X.Type().Underlying().(*types.Map)
		if !ok {
			t("type.maplookup", false, "operand is %s", in.X.Type())
			break
		}
		t("type.maplookup", ident(in.Index.Type(), m.Key()), "key has type %s, map key is %s", in.Index.Type(), m.Key())
		if in.CommaOk {
			tup, ok := in.Type().(*types.Tuple)
			t("type.maplookup", ok && tup.Len() == 2 && ident(tup.At(0).Type(), m.Elem()) && isBool(tup.At(1).Type()), "comma-ok lookup yields %s", in.Type())
		} else {
			t("type.maplookup", ident(in.Type(), m.Elem()), "lookup yields %s, map elem is %s", in.Type(), m.Elem())
		}
	case *ir.MapUpdate:
		m, ok := in.Map.Type().Underlying().(*types.Map)
		t("type.mapupdate", ok && ident(in.Key.Type(), m.Key()) && ident(in.Value.Type(), m.Elem()), "%s[%s] = %s", in.Map.Type(), in.Key.Type(), in.Value.Type())
	case *ir.Slice:
		var want types.Type
		switch xt := in.X.Type().Underlying().(type) {
		case *types.Basic:
			if xt.Info()&types.IsString != 0 {
				want = types.Default(in.X.Type())
			}
		case *types.Slice:
			want = in.X.Type()
		case *types.Pointer:
			if a, ok := xt.Elem().Underlying().(*types.Array); ok {
				want = types.NewSlice(a.Elem())
			}
		}
		ok := want != nil
		if ok {
			// "string if X was string, otherwise a slice with the same element type"
			if _, isStr := want.Underlying().(*types.Basic); isStr {
				ok = ident(in.Type().Underlying(), want.Underlying())
			} else {
				rs, isSl := in.Type().Underlying().(*types.Slice)
				ok = isSl && ident(rs.Elem(), want.Underlying().(*types.Slice).Elem())
			}
		}
		t("type.slice", ok, "slice of %s yields %s", in.X.Type(), in.Type())
		for _, b := range []ir.Value{in.Low, in.High, in.Max} {
			if b != nil {
				t("type.slice", isInteger(b.Type()), "bound has type %s", b.Type())
			}
		}
	case *ir.MakeSlice:
		_, ok := in.Type().Underlying().(*types.Slice)
		t("type.make", ok && isInteger(in.Len.Type()) && isInteger(in.Cap.Type()), "MakeSlice %s len %s cap %s", in.Type(), in.Len.Type(), in.Cap.Type())
	case *ir.MakeMap:
		_, ok := in.Type().Underlying().(*types.Map)
		t("type.make", ok && (in.Reserve == nil || isInteger(in.Reserve.Type())), "MakeMap %s", in.Type())
	case *ir.MakeChan:
		_, ok := in.Type().Underlying().(*types.Chan)
		t("type.make", ok && isInteger(in.Size.Type()), "MakeChan %s size %s", in.Type(), in.Size.Type())
	case *ir.MakeInterface:
		t("type.makeinterface", types.IsInterface(in.Type()) && !types.IsInterface(in.X.Type()), "make %s <- %s", in.Type(), in.X.Type())
		if types.IsInterface(in.Type()) && !types.IsInterface(in.X.Type()) {
			t("type.makeinterface", types.AssignableTo(in.X.Type(), in.Type()), "%s does not implement %s", in.X.Type(), in.Type())
		}
	case *ir.ChangeInterface:
		t("type.changeinterface", types.IsInterface(in.Type()) && types.IsInterface(in.X.Type()), "change interface %s <- %s", in.Type(), in.X.Type())
	case *ir.ChangeType:
		t("type.changetype", types.ConvertibleTo(in.X.Type(), in.Type()), "changetype %s <- %s", in.Type(), in.X.Type())
	case *ir.Convert:
		_, b1 := in.X.Type().Underlying().(*types.Basic)
		_, b2 := in.Type().Underlying().(*types.Basic)
		t("type.convert", (b1 || b2) && types.ConvertibleTo(in.X.Type(), in.Type()), "convert %s <- %s", in.Type(), in.X.Type())
	case *ir.TypeAssert:
		t("type.typeassert", types.IsInterface(in.X.Type()), "operand has type %s", in.X.Type())
		if in.CommaOk {
			tup, ok := in.Type().(*types.Tuple)
			t("type.typeassert", ok && tup.Len() == 2 && ident(tup.At(0).Type(), in.AssertedType) && isBool(tup.At(1).Type()), "comma-ok assert to %s yields %s", in.AssertedType, in.Type())
		} else {
			t("type.typeassert", ident(in.Type(), in.AssertedType), "assert to %s yields %s", in.AssertedType, in.Type())
		}
	case *ir.Extract:
		tup, ok := in.Tuple.Type().(*types.Tuple)
		t("type.extract", ok && in.Index >= 0 && in.Index < tup.Len() && ident(tup.At(in.Index).Type(), in.Type()), "extract #%d of %s yields %s", in.Index, in.Tuple.Type(), in.Type())
	case *ir.MakeClosure:
		f, ok := in.Fn.(*ir.Function)
		t("type.closure", ok, "Fn is %T", in.Fn)
		if ok {
			t("type.closure", len(f.FreeVars) == len(in.Bindings), "%d bindings for %d free variables", len(in.Bindings), len(f.FreeVars))
			if len(f.FreeVars) == len(in.Bindings) {
				for i, b := range in.Bindings {
					t("type.closure", ident(b.Type(), f.FreeVars[i].Type()), "binding %d has type %s, free variable has %s", i, b.Type(), f.FreeVars[i].Type())
				}
			}
			_, isSig := in.Type().Underlying().(*types.Signature)
			t("type.closure", isSig, "closure has type %s", in.Type())
		}
	case *ir.CompositeValue:
		switch ut := in.Type().Underlying().(type) {
		case *types.Struct:
			t("type.composite", len(in.Values) == ut.NumFields(), "%d values for %d fields", len(in.Values), ut.NumFields())
			if len(in.Values) == ut.NumFields() {
				for i, v := range in.Values {
					t("type.composite", v != nil && ident(v.Type(), ut.Field(i).Type()), "value %d does not have field type %s", i, ut.Field(i).Type())
				}
			}
		case *types.Array:
			t("type.composite", int64(len(in.Values)) == ut.Len(), "%d values for array of %d", len(in.Values), ut.Len())
			for i, v := range in.Values {
				t("type.composite", v != nil && ident(v.Type(), ut.Elem()), "value %d does not have elem type %s", i, ut.Elem())
			}
		default:
			t("type.composite", false, "CompositeValue of type %s", in.Type())
		}
	case *ir.Range:
		ok := false
		switch xt := in.X.Type().Underlying().(type) {
		case *types.Map:
			ok = true
		case *types.Basic:
			ok = xt.Info()&types.IsString != 0
		}
		t("type.range", ok, "range over %s", in.X.Type())
	case *ir.Next:
		_, ok := in.Iter.(*ir.Range)
		tup, ok2 := in.Type().(*types.Tuple)
		t("type.next", ok && ok2 && tup.Len() == 3 && isBool(tup.At(0).Type()), "next of %T yields %s", in.Iter, in.Type())
	case *ir.Send:
		ch, ok := in.Chan.Type().Underlying().(*types.Chan)
		t("type.send", ok && ident(ch.Elem(), in.X.Type()), "send %s on %s", in.X.Type(), in.Chan.Type())
	case *ir.Recv:
		ch, ok := in.Chan.Type().Underlying().(*types.Chan)
		if !ok {
			t("type.recv", false, "receive from %s", in.Chan.Type())
			break
		}
		if in.CommaOk {
			tup, ok := in.Type().(*types.Tuple)
			t("type.recv", ok && tup.Len() == 2 && ident(tup.At(0).Type(), ch.Elem()) && isBool(tup.At(1).Type()), "comma-ok receive yields %s", in.Type())
		} else {
			t("type.recv", ident(in.Type(), ch.Elem()), "receive from %s yields %s", in.Chan.Type(), in.Type())
		}
	case *ir.Panic:
		t("type.panic", types.IsInterface(in.X.Type()), "panic operand has type %s", in.X.Type())
	case *ir.ConstantSwitch:
		// No typing rule is documented for ConstantSwitch (cases may be constants of a
		// concrete type compared against an interface-typed tag): nothing to check.
	case *ir.TypeSwitch:
		t("type.typeswitch", types.IsInterface(in.Tag.Type()), "tag has type %s", in.Tag.Type())
		tup, ok := in.Type().(*types.Tuple)
		t("type.typeswitch", ok && tup.Len() == len(in.Conds)+2, "TypeSwitch with %d cases yields %s", len(in.Conds), in.Type())
	case *ir.SliceToArrayPointer:
		_, ok := in.X.Type().Underlying().(*types.Slice)
		el, ok2 := deref(in.Type())
		if ok2 {
			_, ok2 = el.Underlying().(*types.Array)
		}
		t("type.slicetoarray", ok && ok2, "%s <- %s", in.Type(), in.X.Type())
	case *ir.SliceToArray:
		_, ok := in.X.Type().Underlying().(*types.Slice)
		_, ok2 := in.Type().Underlying().(*types.Array)
		t("type.slicetoarray", ok && ok2, "%s <- %s", in.Type(), in.X.Type())
	case *ir.Select:
		tup, ok := in.Type().(*types.Tuple)
		nrecv := 0
		for _, s := range in.States {
			if s.Dir == types.RecvOnly {
				nrecv++
			}
		}
		t("type.select", ok && tup.Len() == nrecv+2, "select with %d receives yields %s", nrecv, in.Type())
		if ok && tup.Len() == nrecv+2 {
			// (index int, recvOk bool, r_0 T_0, ... r_n-1 T_n-1): one component per receive, in state order
			k := 0
			for _, s := range in.States {
				if s.Dir != types.RecvOnly {
					continue
				}
				if ch, isChan := typeutilCoreChan(s.Chan.Type()); isChan {
					t("type.select", ident(tup.At(2+k).Type(), ch.Elem()), "receive #%d on %s has tuple component %s", k, s.Chan.Type(), tup.At(2+k).Type())
				}
				k++
			}
		}
	}
}

// typeutilCoreChan returns the channel type behind t (plain channels only; type parameters are skipped).
func typeutilCoreChan(t types.Type) (*types.Chan, bool) {
	ch, ok := t.Underlying().(*types.Chan)
	return ch, ok
}

func (c *checker) call(in ir.Instruction, cc *ir.CallCommon, resT types.Type) {
	t := func(rule string, cond bool, format string, a ...any) {
		c.ob(rule)
		if !cond {
			c.bad(rule, "%q: %s", in, fmt.Sprintf(format, a...))
		}
	}
	if cc.Value == nil {
		t("type.call", false, "call without a callee")
		return
	}
	if _, isBuiltin := cc.Value.(*ir.Builtin); isBuiltin {
		return
	}
	var sig *types.Signature
	if cc.IsInvoke() {
		t("type.call", types.IsInterface(cc.Value.Type()), "invoke on %s", cc.Value.Type())
		sig, _ = cc.Method.Type().(*types.Signature)
	} else {
		sig, _ = cc.Value.Type().Underlying().(*types.Signature)
	}
	if sig == nil {
		t("type.call", false, "callee of type %s has no signature", cc.Value.Type())
		return
	}
	args := cc.Args
	if !cc.IsInvoke() && sig.Recv() != nil {
		// static method call: Args[0] is the receiver
		t("type.call", len(args) > 0 && ident(args[0].Type(), sig.Recv().Type()), "receiver argument does not have type %s", sig.Recv().Type())
		if len(args) > 0 {
			args = args[1:]
		}
	}
	t("type.call", len(args) == sig.Params().Len(), "%d arguments for %d parameters", len(args), sig.Params().Len())
	if len(args) == sig.Params().Len() {
		for i, a := range args {
			t("type.call", a != nil && ident(a.Type(), sig.Params().At(i).Type()), "argument %d has type %v, parameter has %s", i, typeOf(a), sig.Params().At(i).Type())
		}
	}
	if resT != nil {
		res := sig.Results()
		switch res.Len() {
		case 0:
			tup, ok := resT.(*types.Tuple)
			t("type.call", ok && tup.Len() == 0, "call of a function without results has type %s", resT)
		case 1:
			t("type.call", ident(resT, res.At(0).Type()), "call yields %s, signature says %s", resT, res.At(0).Type())
		default:
			t("type.call", ident(resT, res), "call yields %s, signature says %s", resT, res)
		}
	}
}

func typeOf(v ir.Value) any {
	if v == nil {
		return "<nil>"
	}
	return v.Type()
}
