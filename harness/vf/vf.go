// Package vf is the shared runtime of all checks: seed/tier handling, scratch
// space, violation reporting against the known-findings file, evidence output.
package vf

import (
	"encoding/json"
	"fmt"
	"math/rand/v2"
	"os"
	"os/exec"
	"path/filepath"
	"sort"
	"strconv"
	"strings"
	"sync"
	"time"
)

// Root is /verif; VERIF_ROOT overrides it so that a monitor can be tried
// against a scratch copy (mutant validation) without touching real evidence.
var Root = func() string {
	if r := os.Getenv("VERIF_ROOT"); r != "" {
		return r
	}
	return "/verif"
}()

type Finding struct {
	Property string `json:"property"`
	Key      string `json:"key"`
	What     string `json:"what"`
	Status   string `json:"status"` // "known" | "fixed"
	Commit   string `json:"commit,omitempty"`
}

type Run struct {
	ID    string
	Tier  string
	Seed  int64
	Level string

	mu          sync.Mutex
	start       time.Time
	cov         map[string]any
	samples     []any
	assumptions []string
	violations  int
	knownHit    map[string]int
	findings    []Finding
	scratch     string
	inconcl     []string
	replayN     int
	perKey      map[string]int
}

func Start(id, level string) *Run {
	r := &Run{ID: id, Level: level, start: time.Now(), cov: map[string]any{}, knownHit: map[string]int{}, perKey: map[string]int{}}
	r.Tier = os.Getenv("VERIF_TIER")
	if r.Tier != "thorough" {
		r.Tier = "quick"
	}
	r.Seed = 1
	if s := os.Getenv("VERIF_SEED"); s != "" {
		if v, err := strconv.ParseInt(s, 10, 64); err == nil {
			r.Seed = v
		}
	}
	if old, _ := filepath.Glob(filepath.Join(Root, "evidence", "replay", fmt.Sprintf("%s-%s-s%d-*", id, r.Tier, r.Seed))); len(old) > 0 {
		for _, f := range old {
			os.Remove(f)
		}
	}
	b, err := os.ReadFile(filepath.Join(Root, "known_findings.json"))
	if err == nil {
		var f struct {
			Findings []Finding `json:"findings"`
		}
		if err := json.Unmarshal(b, &f); err != nil {
			fmt.Fprintf(os.Stderr, "known_findings.json: %v\n", err)
			os.Exit(3)
		}
		r.findings = f.Findings
	}
	return r
}

func (r *Run) Thorough() bool { return r.Tier == "thorough" }

// Pick returns q in the quick tier, t in the thorough tier.
func (r *Run) Pick(q, t int) int {
	if r.Thorough() {
		return t
	}
	return q
}

// Rand returns a PRNG that is a pure function of (seed, property, stream).
func (r *Run) Rand(stream string, idx int) *rand.Rand {
	h := uint64(1469598103934665603)
	for _, c := range []byte(r.ID + "/" + stream) {
		h ^= uint64(c)
		h *= 1099511628211
	}
	return rand.New(rand.NewPCG(uint64(r.Seed)*0x9e3779b97f4a7c15+uint64(idx), h))
}

// Scratch returns a per-process scratch directory outside /repo, /verif and /tmp.
func (r *Run) Scratch() string {
	r.mu.Lock()
	defer r.mu.Unlock()
	if r.scratch == "" {
		d := fmt.Sprintf("/var/tmp/verif.%s.%d", r.ID, os.Getpid())
		os.RemoveAll(d)
		if err := os.MkdirAll(d, 0o755); err != nil {
			panic(err)
		}
		r.scratch = d
	}
	return r.scratch
}

func (r *Run) Set(key string, v any) {
	r.mu.Lock()
	r.cov[key] = v
	r.mu.Unlock()
}

func (r *Run) Add(key string, n int) {
	r.mu.Lock()
	c, _ := r.cov[key].(int)
	r.cov[key] = c + n
	r.mu.Unlock()
}

func (r *Run) Get(key string) int {
	r.mu.Lock()
	defer r.mu.Unlock()
	c, _ := r.cov[key].(int)
	return c
}

// Sample keeps up to max samples.
func (r *Run) Sample(v any, max int) {
	r.mu.Lock()
	if len(r.samples) < max {
		r.samples = append(r.samples, v)
	}
	r.mu.Unlock()
}

func (r *Run) Assume(s string) { r.assumptions = append(r.assumptions, s) }

// Inconclusive records a reason; the run exits 2 at Finish (unless violated).
func (r *Run) Inconclusive(format string, a ...any) {
	r.mu.Lock()
	r.inconcl = append(r.inconcl, fmt.Sprintf(format, a...))
	r.mu.Unlock()
}

// Violation reports a property violation. key identifies the failing input
// class for matching against known_findings.json; replay is written to disk.
// Returns true if it was a new (unlisted) violation.
func (r *Run) Violation(key, what string, replay any) bool {
	r.mu.Lock()
	defer r.mu.Unlock()
	for _, f := range r.findings {
		if f.Property == r.ID && f.Status == "known" && f.Key == key {
			if r.knownHit[key] == 0 {
				fmt.Printf("KNOWN-FINDING: property=%s %s [%s]\n", r.ID, f.What, key)
			}
			r.knownHit[key]++
			return false
		}
	}
	r.violations++
	r.perKey[key]++
	if r.perKey[key] > 3 || r.replayN >= 60 {
		return true
	}
	r.replayN++
	dir := filepath.Join(Root, "evidence", "replay")
	os.MkdirAll(dir, 0o755)
	p := filepath.Join(dir, fmt.Sprintf("%s-%s-s%d-%d.json", r.ID, r.Tier, r.Seed, r.replayN))
	b, err := json.MarshalIndent(map[string]any{"property": r.ID, "key": key, "what": what, "seed": r.Seed, "tier": r.Tier, "replay": replay}, "", " ")
	if err != nil {
		b = []byte(fmt.Sprintf("%q", fmt.Sprint(replay)))
	}
	os.WriteFile(p, b, 0o644)
	fmt.Printf("VIOLATION property=%s replay=%s\n", r.ID, p)
	fmt.Printf("  key=%s: %s\n", key, what)
	return true
}

func (r *Run) Violations() int {
	r.mu.Lock()
	defer r.mu.Unlock()
	return r.violations
}

// Finish writes the evidence file and exits with the verdict.
// minDistinct is the floor under which the run is inconclusive.
func (r *Run) Finish(evaluations, distinct, minDistinct int, rule string) {
	if r.scratch != "" && os.Getenv("VERIF_KEEP") == "" {
		os.RemoveAll(r.scratch)
	}
	if distinct < minDistinct {
		r.inconcl = append(r.inconcl, fmt.Sprintf("observed only %d distinct non-trivial cases, floor is %d", distinct, minDistinct))
	}
	cov := map[string]any{}
	for k, v := range r.cov {
		cov[k] = v
	}
	cov["evaluations"] = evaluations
	cov["distinct_nontrivial"] = distinct
	cov["rule"] = rule
	if len(r.samples) == 0 {
		r.samples = []any{"(no sample recorded)"}
	}
	cov["samples"] = r.samples
	if len(r.knownHit) > 0 {
		keys := []string{}
		for k := range r.knownHit {
			keys = append(keys, fmt.Sprintf("%s x%d", k, r.knownHit[k]))
		}
		sort.Strings(keys)
		cov["known_findings_observed"] = keys
	}
	if len(r.inconcl) > 0 {
		cov["inconclusive"] = r.inconcl
	}
	ev := map[string]any{
		"property_id": r.ID,
		"tier":        r.Tier,
		"seed":        r.Seed,
		"level":       r.Level,
		"coverage":    cov,
		"assumptions": r.assumptions,
		"wall_s":      time.Since(r.start).Seconds(),
		"violations":  r.violations,
	}
	if r.assumptions == nil {
		ev["assumptions"] = []string{}
	}
	b, _ := json.MarshalIndent(ev, "", " ")
	os.MkdirAll(filepath.Join(Root, "evidence"), 0o755)
	if err := os.WriteFile(filepath.Join(Root, "evidence", r.ID+".json"), b, 0o644); err != nil {
		fmt.Fprintln(os.Stderr, err)
		os.Exit(3)
	}
	// the last run of each tier is kept as well (evidence/<id>.json is whichever ran last)
	os.MkdirAll(filepath.Join(Root, "evidence", "tiers"), 0o755)
	os.WriteFile(filepath.Join(Root, "evidence", "tiers", r.ID+"."+r.Tier+".json"), b, 0o644)
	fmt.Printf("%s %s seed=%d: evaluations=%d distinct_nontrivial=%d violations=%d known=%d wall=%.1fs\n",
		r.ID, r.Tier, r.Seed, evaluations, distinct, r.violations, len(r.knownHit), time.Since(r.start).Seconds())
	if r.violations > 0 {
		os.Exit(1)
	}
	if len(r.inconcl) > 0 {
		fmt.Printf("INCONCLUSIVE property=%s %s\n", r.ID, strings.Join(r.inconcl, "; "))
		os.Exit(2)
	}
	os.Exit(0)
}

// Harness is the harness module directory (VERIF_HARNESS overrides it).
func Harness() string {
	if h := os.Getenv("VERIF_HARNESS"); h != "" {
		return h
	}
	return "/verif/harness"
}

// GoEnv is the environment for go commands run by checks.
func GoEnv() []string {
	var env []string
	for _, e := range os.Environ() {
		if strings.HasPrefix(e, "GOFLAGS=") || strings.HasPrefix(e, "GOPROXY=") || strings.HasPrefix(e, "GOTOOLCHAIN=") || strings.HasPrefix(e, "GOSUMDB=") {
			continue
		}
		env = append(env, e)
	}
	return append(env, "GOFLAGS=-mod=mod", "GOPROXY=off")
}

var binMu sync.Mutex

// BuildBin (re)builds a binary from the harness module — hence from /repo's
// current working tree — with the verif tag into Root/bin and returns its path.
// pkg is e.g. "honnef.co/go/tools/cmd/staticcheck" or "./cmd/vlint".
func (r *Run) BuildBin(name, pkg string, race bool) string {
	binMu.Lock()
	defer binMu.Unlock()
	out := filepath.Join(Root, "bin", name)
	os.MkdirAll(filepath.Dir(out), 0o755)
	args := []string{"build", "-tags", "verif"}
	if race {
		args = append(args, "-race")
	}
	args = append(args, "-o", out, pkg)
	cmd := exec.Command("go", args...)
	cmd.Dir = Harness()
	cmd.Env = GoEnv()
	if b, err := cmd.CombinedOutput(); err != nil {
		fmt.Printf("INCONCLUSIVE property=%s build of %s failed: %v\n%s\n", r.ID, pkg, err, b)
		os.Exit(2)
	}
	return out
}

// Repo is the repository under test (/repo; VERIF_REPO overrides it when a
// monitor is tried against a scratch copy).
func Repo() string {
	if p := os.Getenv("VERIF_REPO"); p != "" {
		return p
	}
	return "/repo"
}
