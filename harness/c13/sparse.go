package c13

import (
	"fmt"

	"honnef.co/go/tools/analysis/dfa/sparse"
	"honnef.co/go/tools/go/ir"
	"verif/gen"
	"verif/irload"
	"verif/vf"
)

// capL: integers with max as merge; transfers are min(cap, 1+max(operands)).
type capL struct{}

func (capL) Ident() int           { return 0 }
func (capL) Equals(a, b int) bool { return a == b }
func (capL) Merge(a, b int) int   { return max(a, b) }

type sparseFamily[L interface {
	Ident() E
	Equals(a, b E) bool
	Merge(a, b E) E
}, E any] struct {
	name     string
	transfer func(ins *sparse.Instance[L, E], instr ir.Instruction) []sparse.Mapping[E]
	seed     func(ins *sparse.Instance[L, E], fn *ir.Function)
}

func operands(instr ir.Instruction) []ir.Value {
	var out []ir.Value
	for _, op := range instr.Operands(nil) {
		if *op != nil {
			out = append(out, *op)
		}
	}
	return out
}

func checkSparse[L interface {
	Ident() E
	Equals(a, b E) bool
	Merge(a, b E) E
}, E any](fn *ir.Function, fam sparseFamily[L, E], budget int) (calls int, f *finding) {
	var l L
	counted := func(ins *sparse.Instance[L, E], instr ir.Instruction) []sparse.Mapping[E] {
		calls++
		if calls > budget {
			panic(budgetExceeded{})
		}
		return fam.transfer(ins, instr)
	}
	real := &sparse.Instance[L, E]{Transfer: counted, Mapping: map[ir.Value]sparse.Mapping[E]{}}
	fam.seed(real, fn)
	func() {
		defer func() {
			if e := recover(); e != nil {
				if _, ok := e.(budgetExceeded); ok {
					f = &finding{"sparse-nontermination", fmt.Sprintf("solver exceeded the logical step budget of %d transfer calls", budget), nil}
					return
				}
				f = &finding{"sparse-panic", fmt.Sprint(e), nil}
			}
		}()
		real.Forward(fn)
	}()
	if f != nil {
		return calls, f
	}
	// reference: round-robin over all instructions until nothing changes
	ref := &sparse.Instance[L, E]{Mapping: map[ir.Value]sparse.Mapping[E]{}}
	fam.seed(ref, fn)
	for round := 0; ; round++ {
		changed := false
		for _, b := range fn.Blocks {
			for _, instr := range b.Instrs {
				var ds []sparse.Mapping[E]
				if phi, ok := instr.(*ir.Phi); ok {
					d := l.Ident()
					for _, e := range phi.Edges {
						d = l.Merge(d, ref.Value(e))
					}
					ds = []sparse.Mapping[E]{{Value: phi, State: d}}
				} else {
					ds = fam.transfer(ref, instr)
				}
				for _, d := range ds {
					if !l.Equals(d.State, ref.Value(d.Value)) {
						ref.Set(d.Value, d.State)
						changed = true
					}
				}
			}
		}
		if !changed {
			break
		}
		if round > budget {
			return calls, &finding{"generator-nonterminating-transfer", "reference iteration did not converge", nil}
		}
	}
	for _, b := range fn.Blocks {
		for _, instr := range b.Instrs {
			v, ok := instr.(ir.Value)
			if !ok {
				continue
			}
			if !l.Equals(real.Value(v), ref.Value(v)) {
				return calls, &finding{"sparse-not-least-fixpoint:" + fam.name,
					fmt.Sprintf("%s: %s = %s has state %v, least fixpoint has %v", fn.Name(), v.Name(), instr, real.Value(v), ref.Value(v)), nil}
			}
		}
	}
	return calls, nil
}

func runSparse(r *vf.Run, nPkgs int) (evals, nontrivial int) {
	phis, fns := 0, 0
	calls := 0
	for i := 0; i < nPkgs; i++ {
		rng := r.Rand("sparse", i)
		src := gen.CFGPackage(rng, "p", 6)
		mode := ir.BuilderMode(0)
		if i%3 == 1 {
			mode |= ir.GlobalDebug
		}
		blt, err := irload.Source("p", map[string]string{"p.go": src}, mode)
		if err != nil {
			r.Add("sparse_generator_discards", 1)
			r.Sample(map[string]any{"discarded": err.Error()}, 8)
			continue
		}
		for _, fn := range irload.Functions(blt.Pkg) {
			if len(fn.Blocks) == 0 {
				continue
			}
			fns++
			nphi, ninstr := 0, 0
			hasPhiCycle := false
			for _, b := range fn.Blocks {
				for _, in := range b.Instrs {
					ninstr++
					if _, ok := in.(*ir.Phi); ok {
						nphi++
					}
				}
			}
			phis += nphi
			for _, b := range fn.Blocks {
				for _, s := range b.Succs {
					if s.Index <= b.Index && nphi > 0 {
						hasPhiCycle = true
					}
				}
			}
			budget := 200 * (ninstr + 1) * 70
			// family 1: taint sets (union of operands, sources = calls, loads, parameters)
			taint := sparseFamily[bitsL, uint64]{
				name: "taint",
				seed: func(ins *sparse.Instance[bitsL, uint64], fn *ir.Function) {
					for k, p := range fn.Params {
						ins.Set(p, 1<<(uint(k)%8))
					}
				},
				transfer: func(ins *sparse.Instance[bitsL, uint64], instr ir.Instruction) []sparse.Mapping[uint64] {
					v, ok := instr.(ir.Value)
					if !ok {
						return nil
					}
					var s uint64
					for _, op := range operands(instr) {
						s |= ins.Value(op)
					}
					switch instr.(type) {
					case *ir.Call, *ir.Load:
						s |= 1 << (8 + uint(instr.ID())%56)
					}
					return []sparse.Mapping[uint64]{{Value: v, State: s}}
				},
			}
			c, f := checkSparse(fn, taint, budget)
			calls += c
			if f != nil {
				r.Violation(f.key, f.what, map[string]any{"source": src, "function": fn.Name(), "mode": mode.String()})
			}
			// family 2: capped chain length; climbs around phi cycles until the cap
			capf := sparseFamily[capL, int]{
				name: "capped-depth",
				seed: func(ins *sparse.Instance[capL, int], fn *ir.Function) {},
				transfer: func(ins *sparse.Instance[capL, int], instr ir.Instruction) []sparse.Mapping[int] {
					v, ok := instr.(ir.Value)
					if !ok {
						return nil
					}
					m := 0
					for _, op := range operands(instr) {
						m = max(m, ins.Value(op))
					}
					return []sparse.Mapping[int]{{Value: v, State: min(60, m+1)}}
				},
			}
			c, f = checkSparse(fn, capf, budget)
			calls += c
			if f != nil {
				r.Violation(f.key, f.what, map[string]any{"source": src, "function": fn.Name(), "mode": mode.String()})
			}
			evals += 2
			if hasPhiCycle {
				nontrivial += 2
			}
		}
	}
	r.Set("sparse_functions", fns)
	r.Set("sparse_phis", phis)
	r.Set("sparse_transfer_calls_by_solver", calls)
	return evals, nontrivial
}
