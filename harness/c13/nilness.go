//go:build verif

package c13

import (
	"fmt"
	"math/rand/v2"
	"slices"
	"verif/vf"

	"honnef.co/go/tools/analysis/dfa"
	"honnef.co/go/tools/analysis/facts/nilness"
)

type nilL = nilness.VerifLattice
type nilDense = dfa.DenseMapLattice[nilness.ValueNilness, nilL]

var nilElems = func() []nilness.ValueNilness {
	var out []nilness.ValueNilness
	for i := nilness.Nilness(0); i <= nilness.MaybeNil; i++ {
		for o := nilness.Nilness(0); o <= nilness.MaybeNil; o++ {
			out = append(out, nilness.ValueNilness{Inner: i, Outer: o})
		}
	}
	return out
}()

// nilness-style transfer: per edge a list of {set v := const | v := w | v := merge(w, u) | refine v to NeverNil}
type nop struct {
	op      int
	v, w, u int
	c       nilness.ValueNilness
}

func nilnessInstance(rng *rand.Rand, g *digraph) (int, *finding, map[string]any) {
	nv := 1 + rng.IntN(5)
	ops := map[edge][]nop{}
	for _, e := range g.edges() {
		for k := rng.IntN(4); k > 0; k-- {
			ops[e] = append(ops[e], nop{rng.IntN(4), rng.IntN(nv), rng.IntN(nv), rng.IntN(nv), nilElems[rng.IntN(len(nilElems))]})
		}
	}
	entry := map[int][]nilness.ValueNilness{}
	for _, n := range g.nodes {
		if rng.IntN(3) == 0 {
			m := make([]nilness.ValueNilness, rng.IntN(nv+1))
			for i := range m {
				m[i] = nilElems[rng.IntN(len(nilElems))]
			}
			entry[n] = m
		}
	}
	var l nilL
	in := &instance[nilDense, []nilness.ValueNilness]{g: g, entry: entry, height: 4 * 2 * nv,
		transfer: func(from, to int, f []nilness.ValueNilness) []nilness.ValueNilness {
			out := slices.Clone(f)
			get := func(i int) nilness.ValueNilness {
				if i < len(out) {
					return out[i]
				}
				return l.Ident()
			}
			set := func(i int, v nilness.ValueNilness) {
				if i >= len(out) {
					out = append(out, make([]nilness.ValueNilness, i-len(out)+1)...)
				}
				out[i] = v
			}
			for _, o := range ops[edge{from, to}] {
				switch o.op {
				case 0:
					set(o.v, o.c)
				case 1:
					set(o.v, get(o.w))
				case 2:
					set(o.v, l.Merge(get(o.w), get(o.u)))
				case 3: // refinement on a conditional edge: constant, hence monotone
					set(o.v, nilness.ValueNilness{Inner: nilness.MaybeNil, Outer: nilness.NeverNil})
				}
			}
			return out
		},
		show: func(f []nilness.ValueNilness) string { return fmt.Sprint(f) }}
	calls, f := in.check()
	return calls, f, map[string]any{"ops": fmt.Sprint(ops), "entry": fmt.Sprint(entry)}
}

func nilnessLaws(r *vf.Run, rng *rand.Rand, k int) int {
	show := func(e nilness.ValueNilness) string { return fmt.Sprintf("{%s %s}", e.Inner, e.Outer) }
	// all 25^3 triples of the two-component nilness lattice: exhaustive
	n := lawTriples(r, "nilness", nilL{}, nilElems, allTriples(nilElems), show)
	r.Set("nilness_lattice_triples_exhaustive", len(nilElems)*len(nilElems)*len(nilElems))
	genDense := func() []nilness.ValueNilness {
		m := make([]nilness.ValueNilness, rng.IntN(5))
		for i := range m {
			m[i] = nilElems[rng.IntN(len(nilElems))]
		}
		return m
	}
	var dens [][]nilness.ValueNilness
	for i := 0; i < 40; i++ {
		dens = append(dens, genDense())
	}
	n += lawTriples(r, "DenseMapLattice[ValueNilness]", nilDense{}, dens, randTriples(rng, k, genDense), func(e []nilness.ValueNilness) string { return fmt.Sprint(e) })
	return n
}
