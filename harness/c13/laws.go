package c13

import (
	"fmt"
	"math/rand/v2"

	"honnef.co/go/tools/analysis/dfa"
	"verif/vf"
)

func lawTriples[L dfa.Semilattice[E], E any](r *vf.Run, name string, l L, elems []E, triples func(yield func(a, b, c E)), show func(E) string) int {
	n := 0
	bad := func(law string, what string, els ...E) {
		var s []string
		for _, e := range els {
			s = append(s, show(e))
		}
		r.Violation("lattice-law:"+name+":"+law, what, map[string]any{"lattice": name, "law": law, "elements": s})
	}
	safe := func(law string, els []E, f func() bool) {
		defer func() {
			if e := recover(); e != nil {
				bad(law+"-panic", fmt.Sprint(e), els...)
			}
		}()
		if !f() {
			bad(law, law+" violated", els...)
		}
	}
	id := l.Ident()
	for _, a := range elems {
		safe("identity", []E{a}, func() bool { return l.Equals(l.Merge(a, id), a) && l.Equals(l.Merge(id, a), a) })
		safe("idempotence", []E{a}, func() bool { return l.Equals(l.Merge(a, a), a) })
		safe("equals-reflexive", []E{a}, func() bool { return l.Equals(a, a) })
		n += 3
	}
	triples(func(a, b, c E) {
		safe("commutativity", []E{a, b}, func() bool { return l.Equals(l.Merge(a, b), l.Merge(b, a)) })
		safe("associativity", []E{a, b, c}, func() bool { return l.Equals(l.Merge(a, l.Merge(b, c)), l.Merge(l.Merge(a, b), c)) })
		safe("equals-symmetric", []E{a, b}, func() bool { return l.Equals(a, b) == l.Equals(b, a) })
		// Equals must be a congruence for Merge: equal elements merge to equal results
		safe("equals-congruence", []E{a, b, c}, func() bool {
			if !l.Equals(a, b) {
				return true
			}
			return l.Equals(l.Merge(a, c), l.Merge(b, c))
		})
		n += 4
	})
	return n
}

func allTriples[E any](elems []E) func(yield func(a, b, c E)) {
	return func(yield func(a, b, c E)) {
		for _, a := range elems {
			for _, b := range elems {
				for _, c := range elems {
					yield(a, b, c)
				}
			}
		}
	}
}

func randTriples[E any](rng *rand.Rand, n int, gen func() E) func(yield func(a, b, c E)) {
	return func(yield func(a, b, c E)) {
		for i := 0; i < n; i++ {
			a, b, c := gen(), gen(), gen()
			switch rng.IntN(6) {
			case 0:
				b = a
			case 1:
				c = a
			}
			yield(a, b, c)
		}
	}
}

var cpElems = []cp{{}, {1, 0}, {1, 1}, {1, 2}, {kind: 2}}

func runLaws(r *vf.Run) int {
	n := 0
	rng := r.Rand("laws", 0)
	k := r.Pick(100000, 400000)
	n += lawTriples(r, "cp", cpL{}, cpElems, allTriples(cpElems), func(e cp) string { return fmt.Sprint(e) })
	// MapLattice: keys 0..3, values never the identity (as documented)
	genMap := func() map[int]cp {
		if rng.IntN(8) == 0 {
			return nil
		}
		m := map[int]cp{}
		for k := 0; k < 4; k++ {
			if rng.IntN(2) == 0 {
				m[k] = cpElems[1+rng.IntN(len(cpElems)-1)]
			}
		}
		return m
	}
	var maps []map[int]cp
	for i := 0; i < 40; i++ {
		maps = append(maps, genMap())
	}
	n += lawTriples(r, "MapLattice[int,cp]", cpMap{}, maps, randTriples(rng, k, genMap), func(e map[int]cp) string { return fmt.Sprint(e) })
	// DenseMapLattice: unequal lengths, identity-valued entries, trailing identities
	genDense := func() []cp {
		m := make([]cp, rng.IntN(5))
		for i := range m {
			m[i] = cpElems[rng.IntN(len(cpElems))]
		}
		if rng.IntN(10) == 0 {
			return nil
		}
		return m
	}
	var dens [][]cp
	for i := 0; i < 40; i++ {
		dens = append(dens, genDense())
	}
	n += lawTriples(r, "DenseMapLattice[cp]", cpDense{}, dens, randTriples(rng, k, genDense), func(e []cp) string { return fmt.Sprint(e) })
	n += nilnessLaws(r, rng, k)
	return n
}
