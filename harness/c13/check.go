package c13

import "verif/vf"

func Run(r *vf.Run) {
	lawCases := runLaws(r)
	de, dn := runDense(r, r.Pick(30000, 300000))
	se, sn := runSparse(r, r.Pick(300, 1500))
	r.Set("lattice_law_evaluations", lawCases)
	r.Set("dense_instances", de)
	r.Set("sparse_instances", se)
	r.Assume("transfer functions drawn by the generator are monotone by construction (gen/kill, copy/constant/add on a flat lattice, merge); the reference is naive round-robin iteration from bottom")
	r.Finish(lawCases+de+se, dn+sn, 500,
		"dense: random digraphs (sparse ids, cycles, irreducible loops, unreachable and multi-entry regions, self loops, duplicate edges) x {gen/kill bitsets, constant propagation over MapLattice and DenseMapLattice, nilness-style refine-on-edge over the real nilness lattice} x random entry facts; sparse: goto-built IR functions x {taint union, capped depth}; laws: exhaustive triples of the nilness lattice, seeded triples of map/dense-map elements. non-trivial = instance whose graph has a cycle/self-loop (dense) or a back edge with phis (sparse), i.e. the fixpoint needs iteration")
}
