// Package c13: dataflow solvers reach the least fixpoint; lattices obey their laws.
package c13

import (
	"fmt"
	"iter"
	"math/rand/v2"
	"slices"
	"sort"

	"honnef.co/go/tools/analysis/dfa"
	"honnef.co/go/tools/analysis/dfa/dense"
	"verif/vf"
)

// ---- graphs ----

type digraph struct {
	nodes []int         // arbitrary distinct ids, arbitrary order
	out   map[int][]int // with duplicates and self loops
}

func (g *digraph) Nodes() iter.Seq[int]    { return slices.Values(g.nodes) }
func (g *digraph) NumNodes() int           { return len(g.nodes) }
func (g *digraph) Out(n int) iter.Seq[int] { return slices.Values(g.out[n]) }

type edge struct{ from, to int }

func (g *digraph) edges() []edge {
	var es []edge
	for _, n := range g.nodes {
		for _, s := range g.out[n] {
			es = append(es, edge{n, s})
		}
	}
	return es
}

func (g *digraph) preds() map[int][]edge {
	p := map[int][]edge{}
	for _, e := range g.edges() {
		p[e.to] = append(p[e.to], e)
	}
	return p
}

// shape classification for evidence
func (g *digraph) features() []string {
	var f []string
	preds := g.preds()
	roots := 0
	for _, n := range g.nodes {
		if len(preds[n]) == 0 {
			roots++
		}
	}
	if roots > 1 {
		f = append(f, "multi-entry")
	}
	if roots == 0 {
		f = append(f, "no-entry")
	}
	seen := map[edge]bool{}
	for _, e := range g.edges() {
		if e.from == e.to {
			f = append(f, "self-loop")
		}
		if seen[e] {
			f = append(f, "dup-edge")
		}
		seen[e] = true
	}
	// reachability from roots; cycles; irreducibility (cycle with 2+ entries)
	reach := map[int]bool{}
	var dfs func(int)
	dfs = func(n int) {
		if reach[n] {
			return
		}
		reach[n] = true
		for _, s := range g.out[n] {
			dfs(s)
		}
	}
	for _, n := range g.nodes {
		if len(preds[n]) == 0 {
			dfs(n)
		}
	}
	if len(reach) < len(g.nodes) {
		f = append(f, "unreachable-region")
	}
	// SCCs via Tarjan
	idx := map[int]int{}
	low := map[int]int{}
	on := map[int]bool{}
	var st []int
	c := 0
	var sccs [][]int
	var tj func(int)
	tj = func(v int) {
		c++
		idx[v], low[v] = c, c
		st = append(st, v)
		on[v] = true
		for _, w := range g.out[v] {
			if idx[w] == 0 {
				tj(w)
				low[v] = min(low[v], low[w])
			} else if on[w] {
				low[v] = min(low[v], idx[w])
			}
		}
		if low[v] == idx[v] {
			var comp []int
			for {
				w := st[len(st)-1]
				st = st[:len(st)-1]
				on[w] = false
				comp = append(comp, w)
				if w == v {
					break
				}
			}
			sccs = append(sccs, comp)
		}
	}
	for _, n := range g.nodes {
		if idx[n] == 0 {
			tj(n)
		}
	}
	for _, comp := range sccs {
		if len(comp) < 2 {
			continue
		}
		f = append(f, "cycle")
		in := map[int]bool{}
		for _, n := range comp {
			in[n] = true
		}
		entries := map[int]bool{}
		for _, n := range comp {
			for _, e := range preds[n] {
				if !in[e.from] {
					entries[n] = true
				}
			}
		}
		if len(entries) >= 2 {
			f = append(f, "irreducible")
		}
	}
	sort.Strings(f)
	return slices.Compact(f)
}

func genGraph(rng *rand.Rand, maxN int) *digraph {
	n := 1 + rng.IntN(maxN)
	g := &digraph{out: map[int][]int{}}
	perm := rng.Perm(n * 3)
	for i := 0; i < n; i++ {
		g.nodes = append(g.nodes, perm[i]*7+3) // sparse, unordered ids
	}
	var density float64
	switch rng.IntN(4) {
	case 0:
		density = 0.6 / float64(n)
	case 1:
		density = 1.2 / float64(n)
	case 2:
		density = 2.5 / float64(n)
	default:
		density = 0.3
	}
	style := rng.IntN(3)
	for i, a := range g.nodes {
		for j, b := range g.nodes {
			if style == 0 && j <= i && rng.IntN(4) != 0 {
				continue // mostly forward (DAG-ish with a few back edges)
			}
			if rng.Float64() < density {
				g.out[a] = append(g.out[a], b)
				if rng.IntN(12) == 0 {
					g.out[a] = append(g.out[a], b) // duplicate edge
				}
			}
		}
		if style == 2 && i+1 < n {
			g.out[a] = append(g.out[a], g.nodes[i+1]) // a spine
		}
	}
	return g
}

// ---- generic check of one (graph, lattice, transfer, entry) instance ----

type budgetExceeded struct{}

type instance[L dfa.Semilattice[F], F any] struct {
	l        L
	g        *digraph
	entry    map[int]F
	transfer func(from, to int, f F) F
	show     func(F) string
	height   int // lattice height bound (for the step budget)
}

type finding struct {
	key, what string
	detail    map[string]any
}

func (in *instance[L, F]) check() (calls int, res *finding) {
	g := in.g
	es := g.edges()
	budget := 100 * (len(g.nodes) + len(es) + 1) * (in.height + 1)
	counted := func(from, to int, f F) F {
		calls++
		if calls > budget {
			panic(budgetExceeded{})
		}
		return in.transfer(from, to, f)
	}
	var an *dense.Analysis[F, int]
	func() {
		defer func() {
			if e := recover(); e != nil {
				if _, ok := e.(budgetExceeded); ok {
					res = &finding{"dense-nontermination", fmt.Sprintf("solver exceeded the logical step budget of %d transfer calls", budget), nil}
					return
				}
				res = &finding{"dense-panic", fmt.Sprint(e), nil}
			}
		}()
		an = dense.Forward[L, F, int](g, in.entry, counted)
	}()
	if res != nil {
		return calls, res
	}
	preds := g.preds()
	// reference: round-robin Kleene iteration from bottom
	refIn := map[int]F{}
	refEdge := map[edge]F{}
	for _, n := range g.nodes {
		refIn[n] = in.l.Ident()
	}
	for _, e := range es {
		refEdge[e] = in.l.Ident()
	}
	for round := 0; ; round++ {
		changed := false
		for _, n := range g.nodes {
			var v F
			if len(preds[n]) == 0 {
				if f, ok := in.entry[n]; ok {
					v = f
				} else {
					v = in.l.Ident()
				}
			} else {
				v = in.l.Ident()
				for _, e := range preds[n] {
					v = in.l.Merge(v, refEdge[e])
				}
			}
			if !in.l.Equals(v, refIn[n]) {
				refIn[n] = v
				changed = true
			}
			for _, s := range g.out[n] {
				ev := in.transfer(n, s, refIn[n])
				if !in.l.Equals(ev, refEdge[edge{n, s}]) {
					refEdge[edge{n, s}] = ev
					changed = true
				}
			}
		}
		if !changed {
			break
		}
		if round > budget {
			// the generated transfer is not of finite height: generator bug
			return calls, &finding{"generator-nonterminating-transfer", "reference iteration did not converge", nil}
		}
	}
	// (1) the solver's answer satisfies the equations
	for _, n := range g.nodes {
		got := an.In(n)
		var want F
		if len(preds[n]) == 0 {
			if f, ok := in.entry[n]; ok {
				want = f
			} else {
				want = in.l.Ident()
			}
		} else {
			want = in.l.Ident()
			for _, e := range preds[n] {
				want = in.l.Merge(want, an.Edge(e.from, e.to))
			}
		}
		if !in.l.Equals(got, want) {
			return calls, &finding{"dense-in-not-merge-of-edges", fmt.Sprintf("In(%d) = %s but the merge of its incoming edge facts is %s", n, in.show(got), in.show(want)), nil}
		}
	}
	for _, e := range es {
		got := an.Edge(e.from, e.to)
		want := in.transfer(e.from, e.to, an.In(e.from))
		if !in.l.Equals(got, want) {
			return calls, &finding{"dense-edge-not-transfer-of-in", fmt.Sprintf("Edge(%d,%d) = %s but transfer(In(%d)) = %s", e.from, e.to, in.show(got), e.from, in.show(want)), nil}
		}
	}
	// (2) it is the least one
	for _, n := range g.nodes {
		if !in.l.Equals(an.In(n), refIn[n]) {
			return calls, &finding{"dense-not-least-fixpoint", fmt.Sprintf("In(%d) = %s, least fixpoint has %s", n, in.show(an.In(n)), in.show(refIn[n])), nil}
		}
	}
	for _, e := range es {
		if !in.l.Equals(an.Edge(e.from, e.to), refEdge[e]) {
			return calls, &finding{"dense-not-least-fixpoint", fmt.Sprintf("Edge(%d,%d) = %s, least fixpoint has %s", e.from, e.to, in.show(an.Edge(e.from, e.to)), in.show(refEdge[e])), nil}
		}
	}
	return calls, nil
}

// ---- lattice families ----

// bits: powerset of 64 facts, union.
type bitsL struct{}

func (bitsL) Ident() uint64            { return 0 }
func (bitsL) Equals(a, b uint64) bool  { return a == b }
func (bitsL) Merge(a, b uint64) uint64 { return a | b }

// cp: constant propagation value. kind 0 = identity (unknown), 1 = constant, 2 = varying.
type cp struct {
	kind int8
	c    int8
}
type cpL struct{}

func (cpL) Ident() cp           { return cp{} }
func (cpL) Equals(a, b cp) bool { return a == b }
func (cpL) Merge(a, b cp) cp {
	switch {
	case a.kind == 0:
		return b
	case b.kind == 0:
		return a
	case a == b:
		return a
	}
	return cp{kind: 2}
}

type cpMap = dfa.MapLattice[int, cp, cpL]
type cpDense = dfa.DenseMapLattice[cp, cpL]

// assignment x := c | x := y | x := y + c | havoc x
type asg struct {
	op      int
	x, y, c int
}

func evalCP(get func(int) cp, a asg) cp {
	switch a.op {
	case 0:
		return cp{1, int8(a.c)}
	case 1:
		return get(a.y)
	case 2:
		v := get(a.y)
		if v.kind == 1 {
			return cp{1, v.c + int8(a.c)} // wraps in int8: finite, still monotone (flat lattice)
		}
		return v
	default:
		return cp{kind: 2}
	}
}

func genAsgs(rng *rand.Rand, es []edge, nvars int) map[edge][]asg {
	m := map[edge][]asg{}
	for _, e := range es {
		k := rng.IntN(4)
		for i := 0; i < k; i++ {
			m[e] = append(m[e], asg{rng.IntN(4), rng.IntN(nvars), rng.IntN(nvars), rng.IntN(5) - 1})
		}
	}
	return m
}

func runDense(r *vf.Run, nGraphs int) (evals, nontrivial int) {
	feat := map[string]int{}
	fam := map[string]int{}
	totalCalls := 0
	report := func(kind string, i int, g *digraph, f *finding, extra map[string]any) {
		d := map[string]any{"family": kind, "graph_index": i, "nodes": g.nodes, "out": fmt.Sprint(g.out)}
		for k, v := range extra {
			d[k] = v
		}
		r.Violation(f.key+":"+kind, f.what, d)
	}
	for i := 0; i < nGraphs; i++ {
		rng := r.Rand("dense", i)
		maxN := 12
		if i%5 == 0 {
			maxN = 40
		}
		g := genGraph(rng, maxN)
		es := g.edges()
		fs := g.features()
		for _, f := range fs {
			feat[f]++
		}
		nt := false
		for _, f := range fs {
			if f == "cycle" || f == "irreducible" || f == "self-loop" {
				nt = true
			}
		}
		switch i % 4 {
		case 0: // gen/kill on bitsets
			gen, kill := map[edge]uint64{}, map[edge]uint64{}
			for _, e := range es {
				gen[e] = rng.Uint64() & rng.Uint64() & rng.Uint64()
				kill[e] = rng.Uint64() & rng.Uint64()
			}
			entry := map[int]uint64{}
			for _, n := range g.nodes {
				if rng.IntN(3) == 0 {
					entry[n] = rng.Uint64() & rng.Uint64()
				}
			}
			in := &instance[bitsL, uint64]{g: g, entry: entry, height: 64,
				transfer: func(from, to int, f uint64) uint64 { e := edge{from, to}; return f&^kill[e] | gen[e] },
				show:     func(f uint64) string { return fmt.Sprintf("%#x", f) }}
			calls, f := in.check()
			totalCalls += calls
			if f != nil {
				report("genkill", i, g, f, map[string]any{"gen": fmt.Sprint(gen), "kill": fmt.Sprint(kill), "entry": fmt.Sprint(entry)})
			}
			fam["genkill-bitset"]++
		case 1: // constant propagation through MapLattice
			nv := 1 + rng.IntN(5)
			as := genAsgs(rng, es, nv)
			entry := map[int]map[int]cp{}
			for _, n := range g.nodes {
				if rng.IntN(3) == 0 {
					m := map[int]cp{}
					for v := 0; v < nv; v++ {
						if rng.IntN(2) == 0 {
							m[v] = cp{1, int8(rng.IntN(3))}
						}
					}
					entry[n] = m
				}
			}
			in := &instance[cpMap, map[int]cp]{g: g, entry: entry, height: 2 * nv,
				transfer: func(from, to int, f map[int]cp) map[int]cp {
					out := map[int]cp{}
					for k, v := range f {
						out[k] = v
					}
					for _, a := range as[edge{from, to}] {
						v := evalCP(func(y int) cp { return out[y] }, a)
						if v.kind == 0 {
							delete(out, a.x) // the identity never appears as a value
						} else {
							out[a.x] = v
						}
					}
					return out
				},
				show: func(f map[int]cp) string { return fmt.Sprint(f) }}
			calls, f := in.check()
			totalCalls += calls
			if f != nil {
				report("constprop-map", i, g, f, map[string]any{"assignments": fmt.Sprint(as), "entry": fmt.Sprint(entry)})
			}
			fam["constprop-maplattice"]++
		case 2: // constant propagation through DenseMapLattice (unequal lengths arise naturally)
			nv := 1 + rng.IntN(5)
			as := genAsgs(rng, es, nv)
			entry := map[int][]cp{}
			for _, n := range g.nodes {
				if rng.IntN(3) == 0 {
					m := make([]cp, rng.IntN(nv+1))
					for v := range m {
						if rng.IntN(2) == 0 {
							m[v] = cp{1, int8(rng.IntN(3))}
						}
					}
					entry[n] = m
				}
			}
			in := &instance[cpDense, []cp]{g: g, entry: entry, height: 2 * nv,
				transfer: func(from, to int, f []cp) []cp {
					out := slices.Clone(f)
					get := func(y int) cp {
						if y < len(out) {
							return out[y]
						}
						return cp{}
					}
					for _, a := range as[edge{from, to}] {
						v := evalCP(get, a)
						if a.x >= len(out) {
							if v.kind == 0 {
								continue
							}
							out = append(out, make([]cp, a.x-len(out)+1)...)
						}
						out[a.x] = v
					}
					return out
				},
				show: func(f []cp) string { return fmt.Sprint(f) }}
			calls, f := in.check()
			totalCalls += calls
			if f != nil {
				report("constprop-dense", i, g, f, map[string]any{"assignments": fmt.Sprint(as), "entry": fmt.Sprint(entry)})
			}
			fam["constprop-densemaplattice"]++
		case 3:
			calls, f, extra := nilnessInstance(rng, g)
			totalCalls += calls
			if f != nil {
				report("nilness-refine", i, g, f, extra)
			}
			fam["nilness-refine-on-edge"]++
		}
		evals++
		if nt {
			nontrivial++
		}
		if i < 3 {
			r.Sample(map[string]any{"nodes": g.nodes, "out": fmt.Sprint(g.out), "features": fs}, 3)
		}
	}
	r.Set("dense_graph_features", feat)
	r.Set("dense_families", fam)
	r.Set("dense_transfer_calls_by_solver", totalCalls)
	return evals, nontrivial
}
