// Package c07: U1000 is deletion-safe and catches every zero-reference object
// (property C07).
//
// Clause 1: per package variant, the objects U1000 reports (the real analyzer,
// run in-process through verif/c07/u1000) are deleted from the syntax and the
// rest is type-checked again with go/types; anything but an import that became
// unused is a violation. Clause 2: an independent census over types.Info.Uses
// lists the unexported package-level objects nobody refers to; each must be in
// the analyzer's Unused set.
package c07

import (
	"fmt"
	"go/types"
	"os"
	"os/exec"
	"path/filepath"
	"runtime"
	"sort"
	"strconv"
	"strings"
	"sync"

	"golang.org/x/tools/go/packages"
	"verif/c07/u1000"
	"verif/declgen"
	"verif/vf"
)

type vcase struct {
	label    string // corpus/package/variant
	corpus   string
	v        *u1000.Variant
	skipZero string // reason clause 2 is not evaluated ("" = evaluate)
	skipAll  string
	gen      *declgen.DeclPkg
}

type vresult struct {
	discarded        string
	analyzeErr       string
	del              *DelResult
	reported         int
	zero             int      // clause-2 obligations
	zeroMiss         []string // "kind name status"
	unexpUsed        int      // unexported objects not reported (for nontriviality)
	unresolved       int
	unresolvedUnused []string
	sources          map[string]string
}

func evalVariant(c *vcase) *vresult {
	r := &vresult{}
	if err := c.v.ReadSources(); err != nil {
		r.discarded = err.Error()
		return r
	}
	u := u1000.Check(c.v, true)
	if len(u.Errs) > 0 {
		r.discarded = u.Errs[0].Error()
		return r
	}
	res, err := u1000.Analyze(u)
	if err != nil {
		r.analyzeErr = err.Error()
		return r
	}
	ix := u1000.NewIndex(u)
	vd := u1000.NewVerdict(ix, res)
	r.unresolved = len(vd.Unresolved)
	for _, o := range vd.UnresolvedUnused {
		r.unresolvedUnused = append(r.unresolvedUnused, o.Kind+" "+o.Name+" at "+shortPos(o.Position))
	}
	rep := u1000.Reported(res)
	r.reported = len(rep)
	for id := range vd.Used {
		if obj := ix.Lookup(id); obj != nil && !obj.Exported() && obj.Parent() == u.Pkg.Scope() {
			r.unexpUsed++
		}
	}
	r.del = DeleteAndCheck(c.v, rep)
	if c.skipZero == "" {
		for _, obj := range ZeroRef(u) {
			r.zero++
			id, _ := ix.IdentOf(obj)
			if st := vd.Status(id); st != "unused" {
				if st == "" {
					st = "absent"
				}
				r.zeroMiss = append(r.zeroMiss, id.String()+" is "+st)
			}
		}
	}
	if len(r.del.Errs) > 0 || len(r.zeroMiss) > 0 || len(r.del.Unsupported) > 0 {
		r.sources = map[string]string{}
		for _, f := range c.v.Files {
			r.sources[filepath.Base(f.Name)] = f.Src
		}
	}
	return r
}

func errClass(msg string) string {
	for _, p := range [][2]string{
		{"undefined:", "undefined"},
		{"has no field or method", "no-field-or-method"},
		{"unknown field", "unknown-field"},
		{"does not implement", "missing-method"},
		{"missing method", "missing-method"},
		{"cannot use", "not-assignable"},
		{"cannot convert", "cannot-convert"},
		{"missing init expr", "const-missing-init"},
		{"declared and not used", "unused-local"},
		{"too few values", "struct-literal-arity"},
		{"too many values", "struct-literal-arity"},
		{"impossible type", "impossible-type-assertion"},
	} {
		if strings.Contains(msg, p[0]) {
			return p[1]
		}
	}
	return "other"
}

func Run(r *vf.Run) {
	imp, err := u1000.StdImporter()
	if err != nil {
		r.Inconclusive("loading std export data: %v", err)
		r.Finish(0, 0, 1, "n/a")
		return
	}
	scratch := r.Scratch()
	var cases []*vcase

	// ---- corpus 1: declgen
	nGen := r.Pick(200, 3000)
	genPkgs := make([]*declgen.DeclPkg, nGen)
	parallel(nGen, func(i int) {
		genPkgs[i] = declgen.DeclGen(r.Rand("declgen", i), declgen.DeclOptions{Path: fmt.Sprintf("example.com/dg/p%04d", i), Importer: imp})
	})
	feat := map[string]int{}
	genDiscard := 0
	for i, p := range genPkgs {
		if p.Discarded {
			genDiscard++
			continue
		}
		for k, n := range p.Features {
			feat[k] += n
		}
		dir := filepath.Join(scratch, "dg", fmt.Sprintf("p%04d", i))
		if err := p.Write(dir); err != nil {
			r.Inconclusive("scratch write: %v", err)
			break
		}
		cases = append(cases, declgenVariants(p, dir, imp, fmt.Sprintf("declgen/%04d", i))...)
	}
	r.Set("declgen_packages", nGen)
	r.Set("declgen_discarded", genDiscard)
	r.Set("declgen_construct_kinds", len(feat))
	r.Set("declgen_constructs", topFeatures(feat))

	// ---- corpus 2: unused/testdata
	td := filepath.Join(scratch, "td")
	if err := copyTestdata(td); err != nil {
		r.Inconclusive("copying unused/testdata: %v", err)
	} else if l, err := u1000.Load(td, true, "./..."); err != nil {
		r.Inconclusive("loading unused/testdata: %v", err)
	} else {
		cases = append(cases, loadedCases("testdata", l)...)
	}

	// ---- corpus 3: the repository's own packages
	if pats, err := repoPatterns(r); err != nil {
		r.Inconclusive("listing repo packages: %v", err)
	} else if l, err := u1000.Load(vf.Harness(), true, pats...); err != nil {
		r.Inconclusive("loading repo packages: %v", err)
	} else {
		cases = append(cases, loadedCases("repo", l)...)
	}

	// ---- corpus 4 (thorough): a slice of the standard library
	if r.Thorough() {
		if l, err := u1000.Load(vf.Harness(), true, stdSlice...); err != nil {
			r.Inconclusive("loading std slice: %v", err)
		} else {
			cases = append(cases, loadedCases("std", l)...)
		}
	}

	results := make([]*vresult, len(cases))
	parallel(len(cases), func(i int) {
		if cases[i].skipAll != "" {
			results[i] = &vresult{discarded: cases[i].skipAll}
			return
		}
		// external test variants need the type-checked package they import
		results[i] = evalVariant(cases[i])
	})

	evals, nontrivial := 0, 0
	byCorpus := map[string]int{}
	delByKind := map[string]int{}
	var discards []string
	discardedGenVariants, genVariants := 0, 0
	for i, c := range cases {
		res := results[i]
		if c.corpus == "declgen" {
			genVariants++
		}
		if res.discarded != "" {
			if c.corpus == "declgen" {
				discardedGenVariants++
			}
			if len(discards) < 8 {
				discards = append(discards, c.label+": "+res.discarded)
			}
			r.Add("variants_not_evaluated_"+c.corpus, 1)
			continue
		}
		if res.analyzeErr != "" {
			r.Violation("analyzer-failure:"+errHead(res.analyzeErr), fmt.Sprintf("%s: U1000 failed: %s", c.label, res.analyzeErr), map[string]any{"case": c.label, "files": sourcesOf(c.v)})
			continue
		}
		evals++
		byCorpus[c.corpus]++
		d := res.del
		if d.BaselineErr != "" {
			r.Add("baseline_recheck_failed", 1)
			continue
		}
		r.Add("objects_reported", res.reported)
		r.Add("objects_deleted", len(d.Deleted))
		r.Add("write_only_rewrites", d.Rewrites)
		r.Add("imports_dropped", len(d.Dropped))
		r.Add("zero_ref_obligations", res.zero)
		r.Add("result_objects_without_defining_ident", res.unresolved)
		for k, n := range d.ByKind {
			delByKind[k] += n
		}
		if len(d.Deleted) > 0 && res.unexpUsed > 0 {
			nontrivial++
		}
		if len(d.Deleted) > 0 {
			r.Sample(map[string]any{"case": c.label, "deleted": head(d.Deleted, 6), "imports_dropped": d.Dropped, "zero_ref_obligations": res.zero}, 4)
		}
		for _, s := range res.unresolvedUnused {
			r.Violation("reported-object-has-no-declaration", fmt.Sprintf("%s: U1000 reports %s, which is not the position of any declaring identifier", c.label, s), map[string]any{"case": c.label, "files": res.sources})
		}
		for _, s := range d.Unsupported {
			kind := strings.SplitN(s, " ", 2)[0]
			ctx := s[strings.LastIndex(s, "[")+1:]
			r.Add("viol reported-undeletable:"+kind+":"+strings.TrimSuffix(ctx, "]"), 1)
			r.Violation("reported-undeletable:"+kind+":"+strings.TrimSuffix(ctx, "]"), fmt.Sprintf("%s: U1000 reports %s; no declaration that could be deleted", c.label, s), map[string]any{"case": c.label, "object": s, "files": res.sources})
		}
		if len(d.Errs) > 0 {
			kind := "none"
			if len(d.Dangling) > 0 {
				kind = strings.SplitN(d.Dangling[0], " ", 2)[0]
				if strings.HasPrefix(d.Dangling[0], "type param") {
					kind = "type-param"
				}
			}
			key := "deletion:" + errClass(d.Errs[0]) + ":" + kind
			if d.Class != "" {
				key = "deletion:" + d.Class
			}
			r.Add("viol "+key, 1)
			r.Violation(key, fmt.Sprintf("%s: after deleting the %d reported objects the package no longer type-checks: %s", c.label, len(d.Deleted), d.Errs[0]),
				map[string]any{"case": c.label, "original": res.sources, "deleted": d.Deleted, "first_error": d.Errs[0], "all_errors": head(d.Errs, 10), "still_referenced": d.Dangling, "after_deletion": d.Mutated})
		}
		for _, m := range res.zeroMiss {
			kind := strings.SplitN(m, " ", 2)[0]
			st := m[strings.LastIndex(m, " ")+1:]
			r.Add("viol zero-ref-not-reported:"+kind+":"+st, 1)
			r.Violation("zero-ref-not-reported:"+kind+":"+st, fmt.Sprintf("%s: no identifier refers to %s, but U1000 does not list it as unused", c.label, m), map[string]any{"case": c.label, "object": m, "files": res.sources})
		}
	}
	r.Set("variants_by_corpus", byCorpus)
	r.Set("deleted_by_kind", delByKind)
	if len(discards) > 0 {
		r.Set("not_evaluated_examples", discards)
	}
	if genVariants > 0 && discardedGenVariants*20 > genVariants || genDiscard*20 > nGen {
		r.Inconclusive("declgen: %d of %d packages and %d of %d variants were rejected (> 5 %%)", genDiscard, nGen, discardedGenVariants, genVariants)
	}
	r.Assume("go/types of the harness toolchain is the reference for 'still type-checks'")
	r.Assume("writes to a deleted variable (x = e, x++, range x) are rewritten to blank assignments before re-checking: U1000 documents that writes are not uses (rule 9.7)")
	r.Assume("a deleted constant inside a parenthesised group is replaced by `_` (keeps iota and implicit repetition); its expression is kept only if a surviving constant repeats it")
	r.Finish(evals, nontrivial, r.Pick(150, 1500),
		"evaluations = package variants (p, p+in-package tests, p_test) analysed by the real U1000 and put under both clauses; distinct_nontrivial = variants in which at least one reported object was actually deleted and re-type-checked while at least one unexported package-level object stayed used")
}

func declgenVariants(p *declgen.DeclPkg, dir string, imp types.Importer, label string) []*vcase {
	var normal, intest, ext []u1000.File
	for _, f := range p.Files {
		uf := u1000.File{Name: filepath.Join(dir, f.Name), Src: f.Source()}
		switch f.Kind {
		case declgen.DeclNormal:
			normal = append(normal, uf)
		case declgen.DeclInTest:
			intest = append(intest, uf)
		case declgen.DeclExtTest:
			ext = append(ext, uf)
		}
	}
	var out []*vcase
	v1 := &u1000.Variant{ID: p.Path, PkgPath: p.Path, Files: normal, Importer: imp, GoVersion: ""}
	out = append(out, &vcase{label: label + "/p", corpus: "declgen", v: v1, gen: p})
	full := v1
	if len(intest) > 0 {
		v2 := &u1000.Variant{ID: p.Path + " [test]", PkgPath: p.Path, Files: append(append([]u1000.File{}, normal...), intest...), Importer: imp}
		out = append(out, &vcase{label: label + "/p+test", corpus: "declgen", v: v2, gen: p})
		full = v2
	}
	if len(ext) > 0 {
		out = append(out, &vcase{label: label + "/p_test", corpus: "declgen", gen: p,
			v: &u1000.Variant{ID: p.Path + "_test", PkgPath: p.Path + "_test", Files: ext, Importer: &lazyPkgImporter{path: p.Path, of: full, next: imp}}})
	}
	return out
}

// lazyPkgImporter type-checks the imported generated package on first use.
type lazyPkgImporter struct {
	path string
	of   *u1000.Variant
	next types.Importer
	once sync.Once
	pkg  *types.Package
}

func (l *lazyPkgImporter) Import(path string) (*types.Package, error) {
	if path == l.path {
		l.once.Do(func() { l.pkg = u1000.Check(l.of, false).Pkg })
		if l.pkg != nil {
			return l.pkg, nil
		}
	}
	return l.next.Import(path)
}

func loadedCases(corpus string, l []*u1000.Loaded) []*vcase {
	var out []*vcase
	for _, p := range l {
		c := &vcase{label: corpus + "/" + p.ID, corpus: corpus, v: &p.Variant}
		switch {
		case len(p.Files) == 0:
			continue
		case p.HasCgo:
			c.skipAll = "cgo package"
		case len(p.LoadErrs) > 0:
			c.skipAll = "go list: " + p.LoadErrs[0]
		case p.HasOther:
			c.skipZero = "package has non-Go files (assembly may refer to Go objects)"
		}
		if corpus == "std" && (strings.HasPrefix(p.PkgPath, "runtime") || p.PkgPath == "reflect" || strings.HasPrefix(p.PkgPath, "syscall")) {
			c.skipZero = "compiler-coupled package"
		}
		out = append(out, c)
	}
	return out
}

func copyTestdata(dst string) error {
	src := filepath.Join(repoDir(), "unused", "testdata", "src", "example.com")
	if err := os.MkdirAll(dst, 0o755); err != nil {
		return err
	}
	if out, err := exec.Command("cp", "-r", src+"/.", dst).CombinedOutput(); err != nil {
		return fmt.Errorf("%v: %s", err, out)
	}
	return os.WriteFile(filepath.Join(dst, "go.mod"), []byte("module example.com\n\ngo 1.26.0\n"), 0o644)
}

// repoDir finds the directory honnef.co/go/tools is replaced by in the harness go.mod.
func repoDir() string {
	b, err := os.ReadFile(filepath.Join(vf.Harness(), "go.mod"))
	if err == nil {
		for _, line := range strings.Split(string(b), "\n") {
			if i := strings.Index(line, "honnef.co/go/tools =>"); i >= 0 {
				return strings.TrimSpace(line[i+len("honnef.co/go/tools =>"):])
			}
		}
	}
	return "/repo"
}

func repoPatterns(r *vf.Run) ([]string, error) {
	cfg := &packages.Config{Mode: packages.NeedName, Dir: vf.Harness(), Env: vf.GoEnv()}
	l, err := packages.Load(cfg, "honnef.co/go/tools/...")
	if err != nil {
		return nil, err
	}
	var all []string
	for _, p := range l {
		if !strings.Contains(p.PkgPath, "/testdata/") && !strings.Contains(p.PkgPath, "/_") {
			all = append(all, p.PkgPath)
		}
	}
	sort.Strings(all)
	if r.Thorough() {
		return all, nil
	}
	must := map[string]bool{"honnef.co/go/tools/unused": true, "honnef.co/go/tools/lintcmd": true, "honnef.co/go/tools/pattern": true, "honnef.co/go/tools/go/ir": true, "honnef.co/go/tools/lintcmd/runner": true, "honnef.co/go/tools/staticcheck": true}
	rng := r.Rand("repo-sample", 0)
	rng.Shuffle(len(all), func(i, j int) { all[i], all[j] = all[j], all[i] })
	var out []string
	for _, p := range all {
		if must[p] || len(out) < 24 {
			out = append(out, p)
		}
	}
	sort.Strings(out)
	return out, nil
}

var stdSlice = []string{"strings", "bytes", "sort", "strconv", "bufio", "container/list", "container/heap", "encoding/json", "encoding/binary", "encoding/base64",
	"text/template", "text/template/parse", "text/tabwriter", "go/ast", "go/scanner", "go/printer", "go/token", "go/parser", "go/format", "go/doc", "net/url", "net/textproto", "path", "path/filepath",
	"regexp", "regexp/syntax", "flag", "fmt", "io", "io/fs", "log", "math/big", "math/rand", "mime", "html/template", "archive/tar", "archive/zip", "compress/flate", "compress/gzip",
	"encoding/xml", "encoding/csv", "errors", "expvar", "image", "image/png", "unicode/utf8", "time", "sync", "context", "os/exec", "net/http", "database/sql", "testing", "cmd/gofmt"}

func parallel(n int, f func(i int)) {
	var wg sync.WaitGroup
	ch := make(chan int)
	w := runtime.GOMAXPROCS(0)
	if w > 16 {
		w = 16
	}
	// VERIF_WORKERS throttles the pool (performance only; results are collected by index)
	if v, err := strconv.Atoi(os.Getenv("VERIF_WORKERS")); err == nil && v > 0 && v < w {
		w = v
	}
	for k := 0; k < w; k++ {
		wg.Add(1)
		go func() {
			defer wg.Done()
			for i := range ch {
				f(i)
			}
		}()
	}
	for i := 0; i < n; i++ {
		ch <- i
	}
	close(ch)
	wg.Wait()
}

func head(a []string, n int) []string {
	if len(a) > n {
		return a[:n]
	}
	return a
}

func errHead(s string) string {
	if len(s) > 60 {
		s = s[:60]
	}
	return s
}

func sourcesOf(v *u1000.Variant) map[string]string {
	m := map[string]string{}
	for _, f := range v.Files {
		m[filepath.Base(f.Name)] = f.Src
	}
	return m
}

func topFeatures(feat map[string]int) map[string]int {
	// fold closure+… / var-blank+… into their base tags to keep the evidence readable
	out := map[string]int{}
	for k, n := range feat {
		if i := strings.Index(k, "+"); i > 0 {
			out[k[:i]] += n
			k = k[strings.LastIndex(k, "+")+1:]
		}
		out[k] += n
	}
	return out
}
