package c07

import (
	"go/ast"
	"go/token"
	"go/types"
	"strings"

	"verif/c07/u1000"
)

// ZeroRef computes, from types.Info.Uses/Defs alone, the objects clause 2 of
// the property obliges U1000 to report in this variant: unexported
// package-level functions (with a body, no compiler directive), named types,
// variables and stand-alone constants that no identifier of the variant refers
// to, declared in non-generated files and not near a //lint:ignore U1000.
func ZeroRef(u *u1000.Unit) []types.Object {
	referred := map[types.Object]bool{}
	for _, obj := range u.Info.Uses {
		switch o := obj.(type) {
		case *types.Func:
			obj = o.Origin()
		case *types.Var:
			obj = o.Origin()
		}
		referred[obj] = true
	}
	// names mentioned by //go:linkname or //export anywhere in the package
	special := map[string]bool{}
	for _, f := range u.Files {
		for _, cg := range f.Comments {
			for _, c := range cg.List {
				fs := strings.Fields(c.Text)
				if len(fs) >= 2 && (fs[0] == "//go:linkname" || fs[0] == "//export" || strings.HasPrefix(fs[0], "//go:cgo_")) {
					special[fs[1]] = true
				}
			}
		}
	}
	var out []types.Object
	for _, f := range u.Files {
		if fileIsGeneratedOrIgnored(f) {
			continue
		}
		ignoreLines := map[int]bool{}
		for _, cg := range f.Comments {
			for _, c := range cg.List {
				if strings.HasPrefix(c.Text, "//lint:") && strings.Contains(strings.ToUpper(c.Text), "U1000") {
					ignoreLines[u.Fset.Position(c.Pos()).Line] = true
				}
			}
		}
		nearIgnore := func(n ast.Node) bool {
			if len(ignoreLines) == 0 {
				return false
			}
			a, b := u.Fset.Position(n.Pos()).Line-2, u.Fset.Position(n.End()).Line
			for l := a; l <= b; l++ {
				if ignoreLines[l] {
					return true
				}
			}
			return false
		}
		hasDirective := func(cgs ...*ast.CommentGroup) bool {
			for _, cg := range cgs {
				if cg == nil {
					continue
				}
				for _, c := range cg.List {
					if strings.HasPrefix(c.Text, "//go:") || strings.HasPrefix(c.Text, "//export") || strings.HasPrefix(c.Text, "//lint:") {
						return true
					}
				}
			}
			return false
		}
		consider := func(id *ast.Ident, scope ast.Node) {
			if id.Name == "_" || ast.IsExported(id.Name) || special[id.Name] || nearIgnore(scope) {
				return
			}
			obj := u.Info.Defs[id]
			if obj == nil || obj.Parent() != u.Pkg.Scope() || referred[obj] {
				return
			}
			out = append(out, obj)
		}
		for _, d := range f.Decls {
			switch d := d.(type) {
			case *ast.FuncDecl:
				if d.Recv != nil || d.Body == nil || d.Name.Name == "init" || (d.Name.Name == "main" && u.Pkg.Name() == "main") || hasDirective(d.Doc) {
					continue
				}
				consider(d.Name, d)
			case *ast.GenDecl:
				if hasDirective(d.Doc) {
					continue
				}
				for _, s := range d.Specs {
					switch s := s.(type) {
					case *ast.TypeSpec:
						if !hasDirective(s.Doc, s.Comment) {
							consider(s.Name, d)
						}
					case *ast.ValueSpec:
						if hasDirective(s.Doc, s.Comment) {
							continue
						}
						if d.Tok == token.CONST && (len(d.Specs) != 1 || len(s.Names) != 1) {
							continue // only stand-alone constants
						}
						for _, n := range s.Names {
							consider(n, d)
						}
					}
				}
			}
		}
	}
	return out
}

// fileIsGeneratedOrIgnored is deliberately broader than the tool's notion of a
// generated file (any "DO NOT EDIT" line, any file-ignore that names U1000):
// the obligation is only stated for files that are certainly neither.
func fileIsGeneratedOrIgnored(f *ast.File) bool {
	for _, cg := range f.Comments {
		for _, c := range cg.List {
			if strings.Contains(c.Text, "DO NOT EDIT") {
				return true
			}
			if strings.HasPrefix(c.Text, "//lint:file-ignore") && strings.Contains(strings.ToUpper(c.Text), "U1000") {
				return true
			}
		}
	}
	return false
}
