// Package u1000 is the small in-process driver that C07 and C17 share: it
// parses and type-checks one package variant from source text (the way
// /repo/go/loader does: ParseComments|SkipObjectResolution, go/types with the
// module's language version), runs the *real* analyzers of the working tree —
// generated.Analyzer, directives.Analyzer and unused.Analyzer.Analyzer.Run —
// through a hand-built analysis.Pass, and gives every declared object a
// position-independent identity (kind + qualified name).
//
// Nothing in here re-implements a U1000 rule; the only piece of lintcmd logic
// that is mirrored is the (file base, line, name) merge of lint.go, because the
// property talks about what is *reported*.
package u1000

import (
	"fmt"
	"go/ast"
	"go/parser"
	"go/token"
	"go/types"
	"hash/fnv"
	"os"
	"path/filepath"
	"sort"
	"strings"
	"sync"

	"golang.org/x/tools/go/analysis"
	"golang.org/x/tools/go/packages"
	"honnef.co/go/tools/unused"
	"verif/vf"
)

// File is one source file of a variant. Name should be an absolute path; the
// real `generated` analyzer opens it, so files that are to be recognised as
// generated have to exist on disk.
type File struct {
	Name string
	Src  string
}

// Variant is one package variant (p, p [p.test], p_test [p.test]).
type Variant struct {
	ID        string // display id, e.g. "example.com/p [test]"
	PkgPath   string
	Files     []File
	Importer  types.Importer
	GoVersion string // "go1.22" or ""
}

// Unit is a type-checked variant.
type Unit struct {
	V     *Variant
	Fset  *token.FileSet
	Files []*ast.File
	Pkg   *types.Package
	Info  *types.Info
	Errs  []error // parse + type errors (all of them)
}

func NewInfo() *types.Info {
	return &types.Info{
		Types:        map[ast.Expr]types.TypeAndValue{},
		Defs:         map[*ast.Ident]types.Object{},
		Uses:         map[*ast.Ident]types.Object{},
		Implicits:    map[ast.Node]types.Object{},
		Selections:   map[*ast.SelectorExpr]*types.Selection{},
		Scopes:       map[ast.Node]*types.Scope{},
		Instances:    map[*ast.Ident]types.Instance{},
		FileVersions: map[*ast.File]string{},
	}
}

// Check parses and type-checks a variant. withComments=false drops comments
// (used for the mutated copies of C07).
func Check(v *Variant, withComments bool) *Unit {
	u := &Unit{V: v, Fset: token.NewFileSet(), Info: NewInfo()}
	mode := parser.SkipObjectResolution
	if withComments {
		mode |= parser.ParseComments
	}
	for _, f := range v.Files {
		af, err := parser.ParseFile(u.Fset, f.Name, f.Src, mode)
		if err != nil {
			u.Errs = append(u.Errs, err)
			if af == nil {
				continue
			}
		}
		u.Files = append(u.Files, af)
	}
	u.Recheck()
	return u
}

// Recheck type-checks u.Files again (after the caller mutated the syntax),
// replacing Pkg/Info and the type errors.
func (u *Unit) Recheck() {
	var errs []error
	for _, e := range u.Errs {
		if _, ok := e.(types.Error); !ok {
			errs = append(errs, e)
		}
	}
	u.Info = NewInfo()
	tc := &types.Config{
		Importer:  u.V.Importer,
		GoVersion: u.V.GoVersion,
		Error:     func(err error) { errs = append(errs, err) },
	}
	func() {
		defer func() {
			if e := recover(); e != nil {
				errs = append(errs, fmt.Errorf("go/types panic: %v", e))
			}
		}()
		u.Pkg, _ = tc.Check(u.V.PkgPath, u.Fset, u.Files, u.Info)
	}()
	u.Errs = errs
}

// Analyze runs the real generated, directives and U1000 analyzers on u.
func Analyze(u *Unit) (res unused.Result, err error) {
	defer func() {
		if e := recover(); e != nil {
			err = fmt.Errorf("panic in U1000: %v", e)
		}
	}()
	an := unused.Analyzer.Analyzer
	results := map[*analysis.Analyzer]any{}
	mk := func(a *analysis.Analyzer) *analysis.Pass {
		return &analysis.Pass{
			Analyzer:          a,
			Fset:              u.Fset,
			Files:             u.Files,
			Pkg:               u.Pkg,
			TypesInfo:         u.Info,
			TypesSizes:        types.SizesFor("gc", "amd64"),
			ResultOf:          results,
			Report:            func(analysis.Diagnostic) {},
			ImportObjectFact:  func(types.Object, analysis.Fact) bool { return false },
			ExportObjectFact:  func(types.Object, analysis.Fact) {},
			ImportPackageFact: func(*types.Package, analysis.Fact) bool { return false },
			ExportPackageFact: func(analysis.Fact) {},
			AllObjectFacts:    func() []analysis.ObjectFact { return nil },
			AllPackageFacts:   func() []analysis.PackageFact { return nil },
		}
	}
	for _, req := range an.Requires {
		if len(req.Requires) != 0 {
			return res, fmt.Errorf("analyzer %s has requirements of its own (%d); the minimal driver does not run them", req.Name, len(req.Requires))
		}
		r, e := req.Run(mk(req))
		if e != nil {
			return res, fmt.Errorf("%s: %v", req.Name, e)
		}
		results[req] = r
	}
	r, e := an.Run(mk(an))
	if e != nil {
		return res, e
	}
	return r.(unused.Result), nil
}

// ---------------------------------------------------------------------------
// Identities

// Ident is a position-independent identity of a declared object.
type Ident struct {
	Kind string // unused.Object.Kind vocabulary: func, var, field, const, type, type param, identifier
	Name string // qualified: p.f, p.T.m, p.T.f, p.f.x#2 …
}

func (i Ident) String() string { return i.Kind + " " + i.Name }

type posKey struct {
	file      string
	line, col int
}

// Index maps positions of defining identifiers to objects and objects to names.
type Index struct {
	u      *Unit
	byPos  map[posKey]types.Object
	byObj  map[types.Object]Ident
	byName map[Ident]types.Object
	Top    map[types.Object]bool // package-level objects (incl. methods) and fields of package-level types? no: only scope-level + methods
	decl   map[types.Object]*ast.Ident
}

func kindOf(obj types.Object) string {
	switch obj := obj.(type) {
	case *types.Func:
		return "func"
	case *types.Var:
		if obj.IsField() {
			return "field"
		}
		return "var"
	case *types.Const:
		return "const"
	case *types.TypeName:
		if _, ok := obj.Type().(*types.TypeParam); ok {
			return "type param"
		}
		return "type"
	default:
		return "identifier"
	}
}

func hashText(s string) string {
	h := fnv.New32a()
	h.Write([]byte(s))
	return fmt.Sprintf("%08x", h.Sum32())
}

// NewIndex names every object that has a defining identifier in u.
// A top-level declaration contributes the prefix <pkg>.<decl>; objects nested
// inside it are named <prefix>.<name>#<ordinal among same kind+name inside that
// declaration> (ordinal omitted when 1). Top-level names that may legally
// repeat (`_`, init) are disambiguated by a hash of the declaration's text, so
// that identities survive permutations.
func NewIndex(u *Unit) *Index {
	ix := &Index{u: u, byPos: map[posKey]types.Object{}, byObj: map[types.Object]Ident{}, byName: map[Ident]types.Object{}, decl: map[types.Object]*ast.Ident{}}
	src := map[string]string{}
	for _, f := range u.V.Files {
		src[f.Name] = f.Src
	}
	pkgName := u.Pkg.Name()
	text := func(n ast.Node) string {
		p, e := u.Fset.PositionFor(n.Pos(), false), u.Fset.PositionFor(n.End(), false)
		s := src[p.Filename]
		if p.Offset >= 0 && e.Offset <= len(s) && p.Offset <= e.Offset {
			return s[p.Offset:e.Offset]
		}
		return ""
	}
	add := func(id *ast.Ident, name string) {
		obj := u.Info.Defs[id]
		if obj == nil {
			return
		}
		p := u.Fset.PositionFor(id.Pos(), false)
		ix.byPos[posKey{p.Filename, p.Line, p.Column}] = obj
		// below a //line directive that names another .go file the linter displays the adjusted position
		if pa := u.Fset.PositionFor(id.Pos(), true); pa.Filename != p.Filename && strings.HasSuffix(pa.Filename, ".go") {
			ix.byPos[posKey{pa.Filename, pa.Line, pa.Column}] = obj
		}
		idn := Ident{kindOf(obj), name}
		if _, dup := ix.byName[idn]; dup {
			// identical text of two `_`/init declarations: keep the first, alias the second
			ix.byObj[obj] = idn
			return
		}
		ix.byObj[obj] = idn
		ix.byName[idn] = obj
		ix.decl[obj] = id
	}
	// nested: name all defining idents inside node (except skip) under prefix
	nested := func(node ast.Node, prefix string, skip map[*ast.Ident]bool) {
		cnt := map[string]int{}
		ast.Inspect(node, func(n ast.Node) bool {
			id, ok := n.(*ast.Ident)
			if !ok || skip[id] {
				return true
			}
			obj := u.Info.Defs[id]
			if obj == nil {
				return true
			}
			k := kindOf(obj) + " " + id.Name
			cnt[k]++
			nm := prefix + "." + id.Name
			if cnt[k] > 1 {
				nm += fmt.Sprintf("#%d", cnt[k])
			}
			add(id, nm)
			return true
		})
	}
	for _, f := range u.Files {
		for _, d := range f.Decls {
			switch d := d.(type) {
			case *ast.FuncDecl:
				base := d.Name.Name
				if d.Recv != nil && len(d.Recv.List) > 0 {
					base = recvBase(d.Recv.List[0].Type) + "." + d.Name.Name
				}
				if d.Name.Name == "_" || (d.Name.Name == "init" && d.Recv == nil) {
					base += "@" + hashText(text(d))
				}
				nm := pkgName + "." + base
				add(d.Name, nm)
				nested(d, nm, map[*ast.Ident]bool{d.Name: true})
			case *ast.GenDecl:
				for _, s := range d.Specs {
					switch s := s.(type) {
					case *ast.TypeSpec:
						base := s.Name.Name
						if base == "_" {
							base += "@" + hashText(text(s))
						}
						nm := pkgName + "." + base
						add(s.Name, nm)
						nested(s, nm, map[*ast.Ident]bool{s.Name: true})
					case *ast.ValueSpec:
						skip := map[*ast.Ident]bool{}
						first := ""
						for _, id := range s.Names {
							base := id.Name
							if base == "_" {
								base += "@" + hashText(text(s))
							}
							if first == "" {
								first = base
							}
							add(id, pkgName+"."+base)
							skip[id] = true
						}
						nested(s, pkgName+"."+first, skip)
					}
				}
			}
		}
	}
	return ix
}

func recvBase(e ast.Expr) string {
	for {
		switch x := e.(type) {
		case *ast.StarExpr:
			e = x.X
		case *ast.ParenExpr:
			e = x.X
		case *ast.IndexExpr:
			e = x.X
		case *ast.IndexListExpr:
			e = x.X
		case *ast.Ident:
			return x.Name
		default:
			return "?"
		}
	}
}

// ObjectAt resolves the position U1000 gives for an object.
func (ix *Index) ObjectAt(p token.Position) types.Object {
	return ix.byPos[posKey{p.Filename, p.Line, p.Column}]
}

// ObjectAtLC resolves (file, line, column).
func (ix *Index) ObjectAtLC(file string, line, col int) types.Object {
	return ix.byPos[posKey{file, line, col}]
}

func (ix *Index) IdentOf(obj types.Object) (Ident, bool) {
	i, ok := ix.byObj[obj]
	return i, ok
}

func (ix *Index) Lookup(i Ident) types.Object { return ix.byName[i] }

// DeclIdent returns the defining identifier of obj.
func (ix *Index) DeclIdent(obj types.Object) *ast.Ident { return ix.decl[obj] }

// All returns all named identities, sorted.
func (ix *Index) All() []Ident {
	out := make([]Ident, 0, len(ix.byName))
	for i := range ix.byName {
		out = append(out, i)
	}
	SortIdents(out)
	return out
}

func SortIdents(a []Ident) {
	sort.Slice(a, func(i, j int) bool {
		if a[i].Name != a[j].Name {
			return a[i].Name < a[j].Name
		}
		return a[i].Kind < a[j].Kind
	})
}

// ---------------------------------------------------------------------------
// Verdicts

// Verdict is the outcome of U1000 on one variant in identity space.
type Verdict struct {
	Used, Unused, Quiet map[Ident]bool
	Unresolved          []unused.Object // result objects whose position has no defining identifier (e.g. unnamed parameters, type-switch implicits)
	UnresolvedUnused    []unused.Object
	Raw                 unused.Result
}

// Status: "used", "unused", "quiet" or "" (object unknown to the result).
func (v *Verdict) Status(i Ident) string {
	switch {
	case v.Used[i]:
		return "used"
	case v.Unused[i]:
		return "unused"
	case v.Quiet[i]:
		return "quiet"
	}
	return ""
}

func NewVerdict(ix *Index, res unused.Result) *Verdict {
	v := &Verdict{Used: map[Ident]bool{}, Unused: map[Ident]bool{}, Quiet: map[Ident]bool{}, Raw: res}
	put := func(objs []unused.Object, m map[Ident]bool, isUnused bool) {
		for _, o := range objs {
			obj := ix.ObjectAt(o.Position)
			if obj == nil || kindOf(obj) != o.Kind {
				v.Unresolved = append(v.Unresolved, o)
				if isUnused {
					v.UnresolvedUnused = append(v.UnresolvedUnused, o)
				}
				continue
			}
			id, _ := ix.IdentOf(obj)
			m[id] = true
		}
	}
	put(res.Used, v.Used, false)
	put(res.Unused, v.Unused, true)
	put(res.Quiet, v.Quiet, false)
	// lint.go's merge inside one variant: an Unused entry whose key equals a Used
	// entry's key is not reported. In identity space the same object cannot be in
	// both sets, except for generic instances that share a position; Used wins.
	for i := range v.Used {
		delete(v.Unused, i)
		delete(v.Quiet, i)
	}
	for i := range v.Unused {
		delete(v.Quiet, i)
	}
	return v
}

// MergeKey mirrors lintcmd/lint.go:unusedKey minus the package path.
type MergeKey struct {
	Base string
	Line int
	Name string
}

func KeyOf(o unused.Object) MergeKey {
	return MergeKey{filepath.Base(o.Position.Filename), o.Position.Line, o.Name}
}

// Reported applies lint.go's merge to the results of the variants of ONE
// package path and returns the objects that would be printed.
func Reported(results ...unused.Result) []unused.Object {
	used := map[MergeKey]bool{}
	for _, r := range results {
		for _, o := range r.Used {
			used[KeyOf(o)] = true
		}
	}
	var out []unused.Object
	seen := map[token.Position]bool{}
	for _, r := range results {
		for _, o := range r.Unused {
			if used[KeyOf(o)] || seen[o.Position] {
				continue
			}
			seen[o.Position] = true
			out = append(out, o)
		}
	}
	return out
}

func SetOf(m map[Ident]bool) []Ident {
	out := make([]Ident, 0, len(m))
	for i := range m {
		out = append(out, i)
	}
	SortIdents(out)
	return out
}

func Strings(a []Ident) []string {
	out := make([]string, len(a))
	for i, x := range a {
		out[i] = x.String()
	}
	return out
}

// Diff returns a-b and b-a.
func Diff(a, b map[Ident]bool) (onlyA, onlyB []Ident) {
	for i := range a {
		if !b[i] {
			onlyA = append(onlyA, i)
		}
	}
	for i := range b {
		if !a[i] {
			onlyB = append(onlyB, i)
		}
	}
	SortIdents(onlyA)
	SortIdents(onlyB)
	return
}

// ---------------------------------------------------------------------------
// Importers

// MapImporter serves packages from a map, falling back to Next.
type MapImporter struct {
	M    map[string]*types.Package
	Next types.Importer
}

func (m *MapImporter) Import(path string) (*types.Package, error) {
	if path == "unsafe" {
		return types.Unsafe, nil
	}
	if p, ok := m.M[path]; ok && p != nil {
		return p, nil
	}
	if m.Next != nil {
		return m.Next.Import(path)
	}
	return nil, fmt.Errorf("package %q not available to the harness importer", path)
}

var (
	stdOnce sync.Once
	stdImp  *MapImporter
	stdErr  error
)

// StdPkgs are the standard-library packages generated code may import.
var StdPkgs = []string{"fmt", "strings", "sort", "io", "testing", "sync", "errors", "bytes", "os", "structs"}

// StdImporter loads export data of StdPkgs (and their dependencies) once per process.
func StdImporter() (*MapImporter, error) {
	stdOnce.Do(func() {
		cfg := &packages.Config{Mode: packages.NeedName | packages.NeedTypes | packages.NeedImports | packages.NeedDeps, Env: vf.GoEnv(), Dir: vf.Harness()}
		pkgs, err := packages.Load(cfg, StdPkgs...)
		if err != nil {
			stdErr = err
			return
		}
		m := map[string]*types.Package{}
		packages.Visit(pkgs, nil, func(p *packages.Package) {
			if p.Types != nil {
				m[p.PkgPath] = p.Types
			}
			for _, e := range p.Errors {
				if stdErr == nil {
					stdErr = fmt.Errorf("%s: %v", p.PkgPath, e)
				}
			}
		})
		stdImp = &MapImporter{M: m}
	})
	return stdImp, stdErr
}

// ---------------------------------------------------------------------------
// Loading real packages (repo, testdata, std) as variants

// Loaded is a package variant found by go/packages, re-expressed as a Variant.
type Loaded struct {
	Variant
	Name     string
	HasCgo   bool
	HasOther bool // assembly or other non-Go files
	ForTest  string
	LoadErrs []string
}

// Load lists patterns in dir (Tests as given) and returns one Variant per
// package variant with sources read from disk and an importer made of the
// export data of its direct imports. The synthesized test mains are dropped.
func Load(dir string, tests bool, patterns ...string) ([]*Loaded, error) {
	cfg := &packages.Config{
		Mode:  packages.NeedName | packages.NeedFiles | packages.NeedCompiledGoFiles | packages.NeedImports | packages.NeedDeps | packages.NeedTypes | packages.NeedModule | packages.NeedForTest,
		Tests: tests, Dir: dir, Env: vf.GoEnv(),
	}
	pkgs, err := packages.Load(cfg, patterns...)
	if err != nil {
		return nil, err
	}
	var out []*Loaded
	for _, p := range pkgs {
		if strings.HasSuffix(p.ID, ".test") && p.Name == "main" {
			continue
		}
		l := &Loaded{Name: p.Name, ForTest: p.ForTest}
		l.ID = p.ID
		l.PkgPath = p.PkgPath
		if p.Module != nil && p.Module.GoVersion != "" {
			l.GoVersion = "go" + p.Module.GoVersion
		}
		for _, e := range p.Errors {
			l.LoadErrs = append(l.LoadErrs, e.Error())
		}
		l.HasOther = len(p.OtherFiles) > 0
		m := map[string]*types.Package{}
		for path, ip := range p.Imports {
			if ip.Types != nil {
				m[path] = ip.Types
			}
			if path == "C" {
				l.HasCgo = true
			}
		}
		l.Importer = &MapImporter{M: m}
		for _, f := range p.GoFiles {
			l.Files = append(l.Files, File{Name: f})
		}
		if len(p.CompiledGoFiles) != len(p.GoFiles) {
			l.HasCgo = true
		}
		out = append(out, l)
	}
	sort.Slice(out, func(i, j int) bool { return out[i].ID < out[j].ID })
	return out, nil
}

// ReadSources fills File.Src from disk for files that have none.
func (v *Variant) ReadSources() error {
	for i := range v.Files {
		if v.Files[i].Src != "" {
			continue
		}
		b, err := os.ReadFile(v.Files[i].Name)
		if err != nil {
			return err
		}
		v.Files[i].Src = string(b)
	}
	return nil
}
