package c07

import (
	"bytes"
	"fmt"
	"go/ast"
	"go/constant"
	"go/printer"
	"go/token"
	"go/types"
	"sort"
	"strconv"
	"strings"

	"golang.org/x/tools/go/ast/astutil"
	"honnef.co/go/tools/unused"
	"verif/c07/u1000"
)

// DelResult is the outcome of deleting the reported objects of one variant.
type DelResult struct {
	BaselineErr string   // non-empty: the unmodified variant does not type-check here (not a verdict)
	Deleted     []string // "kind name" per object deleted
	ByKind      map[string]int
	Unsupported []string // reported objects the engine has no deletion for (kind/context)
	Nested      int      // reported objects that went away with an enclosing reported object
	Rewrites    int      // write-only references to deleted variables rewritten (`x = e` -> `_ = e`)
	Dropped     []string // imports dropped because they became unused
	Dangling    []string // surviving identifiers that still refer to deleted objects
	Errs        []string // type errors left after deletion (other than unused imports)
	Mutated     map[string]string
	Class       string // recognised failure class ("" = unclassified)
}

type specDel struct {
	decl  *ast.GenDecl
	spec  *ast.ValueSpec
	names map[int]bool
}

// DeleteAndCheck removes objs from a fresh parse of v and type-checks the rest.
func DeleteAndCheck(v *u1000.Variant, objs []unused.Object) *DelResult {
	res := &DelResult{ByKind: map[string]int{}}
	u := u1000.Check(v, false)
	if len(u.Errs) > 0 {
		res.BaselineErr = u.Errs[0].Error()
		return res
	}
	ix := u1000.NewIndex(u)
	info := u.Info

	fileOf := func(pos token.Pos) *ast.File {
		for _, f := range u.Files {
			if f.FileStart <= pos && pos <= f.FileEnd {
				return f
			}
		}
		return nil
	}

	deleted := map[types.Object]bool{}
	removedNodes := map[ast.Node]bool{} // subtrees that are gone
	deletedTypes := map[string]bool{}   // package-level type names whose methods go too
	valueSpecs := map[*ast.ValueSpec]*specDel{}
	keptConst := map[*ast.ValueSpec]bool{} // deleted constants whose expression survives because a used constant repeats it

	removeDecl := func(f *ast.File, d ast.Decl) {
		for i, x := range f.Decls {
			if x == d {
				f.Decls = append(f.Decls[:i:i], f.Decls[i+1:]...)
				removedNodes[d] = true
				return
			}
		}
	}
	removeSpec := func(f *ast.File, gd *ast.GenDecl, s ast.Spec, topLevel bool) {
		for i, x := range gd.Specs {
			if x == s {
				gd.Specs = append(gd.Specs[:i:i], gd.Specs[i+1:]...)
				removedNodes[s] = true
				break
			}
		}
		if len(gd.Specs) == 0 {
			if topLevel {
				removeDecl(f, gd)
			} else if !gd.Lparen.IsValid() {
				gd.Lparen, gd.Rparen = gd.TokPos, gd.TokPos
			}
		}
	}
	removeField := func(fl *ast.FieldList, fld *ast.Field, id *ast.Ident) {
		if len(fld.Names) > 1 && id != nil {
			for i, n := range fld.Names {
				if n == id {
					fld.Names = append(fld.Names[:i:i], fld.Names[i+1:]...)
					return
				}
			}
		}
		for i, x := range fl.List {
			if x == fld {
				fl.List = append(fl.List[:i:i], fl.List[i+1:]...)
				removedNodes[fld] = true
				return
			}
		}
	}

	type target struct {
		o     unused.Object
		obj   types.Object
		id    *ast.Ident
		f     *ast.File
		path  []ast.Node
		label string
	}
	var targets []target
	for _, o := range objs {
		obj := ix.ObjectAt(o.Position)
		label := o.Kind + " " + o.Name
		if obj == nil {
			res.Unsupported = append(res.Unsupported, label+" [no defining identifier at "+shortPos(o.Position)+"]")
			continue
		}
		id := ix.DeclIdent(obj)
		if id == nil {
			res.Unsupported = append(res.Unsupported, label+" [alias of another declaration]")
			continue
		}
		f := fileOf(id.Pos())
		path, _ := astutil.PathEnclosingInterval(f, id.Pos(), id.End())
		for len(path) > 0 && path[0] != ast.Node(id) {
			path = path[1:]
		}
		if len(path) < 2 {
			res.Unsupported = append(res.Unsupported, label+" [no path]")
			continue
		}
		targets = append(targets, target{o, obj, id, f, path, label})
	}
	// outermost declarations first, so that nested objects are recognised as gone
	sort.SliceStable(targets, func(i, j int) bool { return len(targets[i].path) < len(targets[j].path) })
	for _, tg := range targets {
		o, obj, id, f, path, label := tg.o, tg.obj, tg.id, tg.f, tg.path, tg.label
		gone := false
		for _, a := range path[1:] {
			if removedNodes[a] {
				gone = true
			}
		}
		if gone {
			deleted[obj] = true
			res.Nested++
			continue
		}
		ok := false
		switch parent := path[1].(type) {
		case *ast.FuncDecl:
			if parent.Name == id {
				removeDecl(f, parent)
				ok = true
			}
		case *ast.TypeSpec:
			if parent.Name == id {
				gd := path[2].(*ast.GenDecl)
				_, top := path[3].(*ast.File)
				removeSpec(f, gd, parent, top)
				if top {
					deletedTypes[id.Name] = true
				}
				ok = true
			}
		case *ast.ValueSpec:
			for i, n := range parent.Names {
				if n == id {
					sd := valueSpecs[parent]
					if sd == nil {
						sd = &specDel{decl: path[2].(*ast.GenDecl), spec: parent, names: map[int]bool{}}
						valueSpecs[parent] = sd
					}
					sd.names[i] = true
					ok = true
				}
			}
		case *ast.Field:
			if fl, isFL := path[2].(*ast.FieldList); isFL && len(path) > 3 {
				switch path[3].(type) {
				case *ast.StructType, *ast.InterfaceType:
					removeField(fl, parent, id)
					ok = true
				}
			}
		case *ast.StarExpr, *ast.SelectorExpr, *ast.IndexExpr, *ast.IndexListExpr:
			// embedded field: climb to the Field
			for i := 1; i < len(path)-2; i++ {
				if fld, isF := path[i].(*ast.Field); isF && len(fld.Names) == 0 {
					if fl, isFL := path[i+1].(*ast.FieldList); isFL {
						if _, isS := path[i+2].(*ast.StructType); isS {
							removeField(fl, fld, nil)
							ok = true
						}
					}
					break
				}
			}
		}
		if !ok {
			res.Unsupported = append(res.Unsupported, fmt.Sprintf("%s [%s]", label, declContext(id, path)))
			continue
		}
		deleted[obj] = true
		res.Deleted = append(res.Deleted, label)
		res.ByKind[o.Kind]++
	}

	// methods of deleted package-level types
	for _, f := range u.Files {
		var keep []ast.Decl
		for _, d := range f.Decls {
			if fd, ok := d.(*ast.FuncDecl); ok && fd.Recv != nil && len(fd.Recv.List) > 0 && deletedTypes[recvBase(fd.Recv.List[0].Type)] {
				removedNodes[fd] = true
				if obj := info.Defs[fd.Name]; obj != nil {
					deleted[obj] = true
				}
				continue
			}
			keep = append(keep, d)
		}
		f.Decls = keep
	}

	// value specs
	var sds []*specDel
	for _, sd := range valueSpecs {
		sds = append(sds, sd)
	}
	sort.Slice(sds, func(i, j int) bool { return sds[i].spec.Pos() < sds[j].spec.Pos() })
	full := func(s ast.Spec) bool {
		vs, _ := s.(*ast.ValueSpec)
		sd := valueSpecs[vs]
		return sd != nil && len(sd.names) == len(vs.Names)
	}
	for _, sd := range sds {
		vs, gd := sd.spec, sd.decl
		f := fileOf(vs.Pos())
		top := false
		for _, d := range f.Decls {
			if d == ast.Decl(gd) {
				top = true
			}
		}
		all := len(sd.names) == len(vs.Names)
		if gd.Tok == token.VAR {
			switch {
			case all:
				removeSpec(f, gd, vs, top)
			case len(vs.Values) == len(vs.Names) || len(vs.Values) == 0:
				var nn []*ast.Ident
				var vv []ast.Expr
				for i, n := range vs.Names {
					if sd.names[i] {
						if len(vs.Values) != 0 {
							removedNodes[vs.Values[i]] = true
						}
						continue
					}
					nn = append(nn, n)
					if len(vs.Values) != 0 {
						vv = append(vv, vs.Values[i])
					}
				}
				vs.Names, vs.Values = nn, vv
			default:
				for i := range sd.names {
					vs.Names[i] = ast.NewIdent("_")
				}
			}
			continue
		}
		// constants
		idx := -1
		for i, s := range gd.Specs {
			if s == ast.Spec(vs) {
				idx = i
			}
		}
		if all && len(gd.Specs) == 1 {
			removeSpec(f, gd, vs, top)
			continue
		}
		// does a surviving later spec repeat this spec's expressions implicitly?
		needed := false
		for j := idx + 1; j < len(gd.Specs); j++ {
			n := gd.Specs[j].(*ast.ValueSpec)
			if len(n.Values) != 0 {
				break
			}
			if !full(n) {
				needed = true
				break
			}
		}
		for i, n := range vs.Names {
			if !sd.names[i] {
				continue
			}
			c, _ := info.Defs[n].(*types.Const)
			vs.Names[i] = ast.NewIdent("_")
			if needed || len(vs.Values) != len(vs.Names) {
				if needed && len(vs.Values) != 0 {
					keptConst[vs] = true
				}
				continue
			}
			if all {
				removedNodes[vs.Values[i]] = true
				vs.Values[i] = &ast.BasicLit{Kind: token.INT, Value: "0"}
				continue
			}
			if c != nil {
				if lit := constLit(c.Val()); lit != nil {
					removedNodes[vs.Values[i]] = true
					vs.Values[i] = lit
				}
			}
		}
		if all && !needed && len(vs.Values) == len(vs.Names) {
			if vs.Type != nil {
				removedNodes[vs.Type] = true
			}
			vs.Type = nil
		}
	}

	// charitable rewrite of write-only references to deleted variables (rule 9.7:
	// U1000 deliberately does not count writes as uses)
	isDelVar := func(e ast.Expr) bool {
		id, ok := ast.Unparen(e).(*ast.Ident)
		if !ok {
			return false
		}
		v, ok := info.Uses[id].(*types.Var)
		return ok && !v.IsField() && deleted[v]
	}
	for _, f := range u.Files {
		astutil.Apply(f, func(c *astutil.Cursor) bool {
			switch n := c.Node().(type) {
			case *ast.AssignStmt:
				if n.Tok == token.DEFINE {
					return true
				}
				for i, l := range n.Lhs {
					if isDelVar(l) {
						n.Lhs[i] = ast.NewIdent("_")
						res.Rewrites++
						if n.Tok != token.ASSIGN {
							n.Tok = token.ASSIGN
						}
						if len(n.Rhs) == len(n.Lhs) {
							// `_ = nil` is not legal; an untyped nil carries no reference
							if tv, ok := info.Types[n.Rhs[i]]; ok && tv.IsNil() {
								n.Rhs[i] = &ast.BasicLit{Kind: token.INT, Value: "0"}
							}
						}
					}
				}
			case *ast.IncDecStmt:
				if isDelVar(n.X) {
					res.Rewrites++
					c.Replace(&ast.AssignStmt{Lhs: []ast.Expr{ast.NewIdent("_")}, Tok: token.ASSIGN, Rhs: []ast.Expr{&ast.BasicLit{Kind: token.INT, Value: "0"}}})
				}
			case *ast.RangeStmt:
				if n.Tok == token.ASSIGN {
					if n.Key != nil && isDelVar(n.Key) {
						n.Key = ast.NewIdent("_")
						res.Rewrites++
					}
					if n.Value != nil && isDelVar(n.Value) {
						n.Value = ast.NewIdent("_")
						res.Rewrites++
					}
				}
			}
			return true
		}, nil)
	}

	// identifiers that are type arguments of an embedded field with two or more type arguments
	embTypeArg := map[*ast.Ident]bool{}
	for _, f := range u.Files {
		ast.Inspect(f, func(n ast.Node) bool {
			st, ok := n.(*ast.StructType)
			if !ok || st.Fields == nil {
				return true
			}
			for _, fld := range st.Fields.List {
				if len(fld.Names) != 0 {
					continue
				}
				t := fld.Type
				if s, ok := t.(*ast.StarExpr); ok {
					t = s.X
				}
				if il, ok := t.(*ast.IndexListExpr); ok {
					for _, ix := range il.Indices {
						ast.Inspect(ix, func(m ast.Node) bool {
							if id, ok := m.(*ast.Ident); ok {
								embTypeArg[id] = true
							}
							return true
						})
					}
				}
			}
			return true
		})
	}

	// diagnosis: surviving identifiers that refer to deleted objects
	danglingInKept, danglingElsewhere, danglingEmbArg := 0, 0, 0
	for _, f := range u.Files {
		var inKept ast.Node
		ast.Inspect(f, func(n ast.Node) bool {
			if n == nil || removedNodes[n] {
				return false
			}
			if vs, ok := n.(*ast.ValueSpec); ok && keptConst[vs] {
				inKept = vs
			}
			if inKept != nil && (n.Pos() < inKept.Pos() || n.Pos() >= inKept.End()) {
				inKept = nil
			}
			if id, ok := n.(*ast.Ident); ok {
				if obj := info.Uses[id]; obj != nil {
					if fn, ok := obj.(*types.Func); ok {
						obj = fn.Origin()
					}
					if vr, ok := obj.(*types.Var); ok {
						obj = vr.Origin()
					}
					if deleted[obj] {
						if inKept != nil {
							danglingInKept++
						} else if embTypeArg[id] {
							danglingEmbArg++
						} else {
							danglingElsewhere++
						}
						if len(res.Dangling) < 12 {
							idn, _ := ix.IdentOf(obj)
							where := ""
							if inKept != nil {
								where = " (expression of a deleted constant that a used constant repeats implicitly)"
							}
							res.Dangling = append(res.Dangling, fmt.Sprintf("%s referenced at %s%s", idn, shortPos(u.Fset.Position(id.Pos())), where))
						}
					}
				}
			}
			return true
		})
	}

	// re-check, dropping imports that became unused
	for round := 0; round < 8; round++ {
		u.Recheck()
		again := false
		var rest []string
		for _, e := range u.Errs {
			te, ok := e.(types.Error)
			if ok && strings.Contains(te.Msg, "imported and not used") || ok && strings.Contains(te.Msg, "imported as") && strings.Contains(te.Msg, "and not used") {
				if dropImport(u, te.Pos) {
					res.Dropped = append(res.Dropped, te.Msg)
					again = true
					continue
				}
			}
			rest = append(rest, e.Error())
		}
		if !again {
			res.Errs = rest
			break
		}
	}
	if len(res.Errs) > 0 {
		switch {
		case danglingInKept > 0 && danglingElsewhere == 0 && danglingEmbArg == 0:
			res.Class = "const-implicit-repetition"
		case danglingEmbArg > 0 && danglingElsewhere == 0 && danglingInKept == 0:
			res.Class = "embedded-generic-type-args"
		case danglingElsewhere+danglingInKept+danglingEmbArg == 0 && allImplicitStructConv(res.Errs):
			res.Class = "implicit-struct-conversion"
		}
		res.Mutated = map[string]string{}
		for _, f := range u.Files {
			var buf bytes.Buffer
			printer.Fprint(&buf, u.Fset, f)
			res.Mutated[u.Fset.Position(f.Package).Filename] = buf.String()
		}
	}
	return res
}

// declContext names the syntactic place of a declaring identifier the engine cannot delete.
func declContext(id *ast.Ident, path []ast.Node) string {
	name := "named"
	if id.Name == "_" {
		name = "blank"
	}
	for i := 1; i < len(path); i++ {
		switch n := path[i].(type) {
		case *ast.FuncDecl:
			if n.Recv != nil && i >= 1 && path[i-1] == ast.Node(n.Recv) {
				return name + " receiver"
			}
			return name + " local in func"
		case *ast.FuncType:
			if path[i-1] == ast.Node(n.Params) {
				return name + " parameter"
			}
			if path[i-1] == ast.Node(n.Results) {
				return name + " result"
			}
			if path[i-1] == ast.Node(n.TypeParams) {
				return "type parameter"
			}
		case *ast.TypeSpec:
			if n.TypeParams != nil && path[i-1] == ast.Node(n.TypeParams) {
				return "type parameter"
			}
		case *ast.AssignStmt, *ast.RangeStmt, *ast.TypeSwitchStmt, *ast.LabeledStmt:
			return fmt.Sprintf("%s local (%T)", name, n)
		}
	}
	return fmt.Sprintf("declared in %T", path[1])
}

func dropImport(u *u1000.Unit, pos token.Pos) bool {
	for _, f := range u.Files {
		if !(f.FileStart <= pos && pos <= f.FileEnd) {
			continue
		}
		for di, d := range f.Decls {
			gd, ok := d.(*ast.GenDecl)
			if !ok || gd.Tok != token.IMPORT {
				continue
			}
			for si, s := range gd.Specs {
				if s.Pos() <= pos && pos <= s.End() {
					gd.Specs = append(gd.Specs[:si:si], gd.Specs[si+1:]...)
					for ii, is := range f.Imports {
						if is == s {
							f.Imports = append(f.Imports[:ii:ii], f.Imports[ii+1:]...)
							break
						}
					}
					if len(gd.Specs) == 0 {
						f.Decls = append(f.Decls[:di:di], f.Decls[di+1:]...)
					}
					return true
				}
			}
		}
	}
	return false
}

// allImplicitStructConv: every remaining error is an assignability failure between a
// struct type and an unnamed struct type (fields of one side were deleted).
func allImplicitStructConv(errs []string) bool {
	for _, e := range errs {
		if !strings.Contains(e, "cannot use") || !(strings.Contains(e, " as struct{") || strings.Contains(e, "of type struct{")) {
			return false
		}
	}
	return len(errs) > 0
}

func constLit(v constant.Value) ast.Expr {
	switch v.Kind() {
	case constant.Bool:
		return ast.NewIdent(strconv.FormatBool(constant.BoolVal(v)))
	case constant.String:
		return &ast.BasicLit{Kind: token.STRING, Value: strconv.Quote(constant.StringVal(v))}
	case constant.Int:
		s := v.ExactString()
		if strings.HasPrefix(s, "-") {
			return &ast.UnaryExpr{Op: token.SUB, X: &ast.BasicLit{Kind: token.INT, Value: s[1:]}}
		}
		return &ast.BasicLit{Kind: token.INT, Value: s}
	}
	return nil
}

func recvBase(e ast.Expr) string {
	for {
		switch x := e.(type) {
		case *ast.StarExpr:
			e = x.X
		case *ast.ParenExpr:
			e = x.X
		case *ast.IndexExpr:
			e = x.X
		case *ast.IndexListExpr:
			e = x.X
		case *ast.Ident:
			return x.Name
		default:
			return "?"
		}
	}
}

func shortPos(p token.Position) string {
	f := p.Filename
	if i := strings.LastIndex(f, "/"); i >= 0 {
		f = f[i+1:]
	}
	return fmt.Sprintf("%s:%d:%d", f, p.Line, p.Column)
}
