// Package c06: deterministic, schedule-independent, race-free linting.
package c06

import (
	"bytes"
	"crypto/sha256"
	"fmt"
	"os"
	"path/filepath"
	"sort"
	"strings"
	"sync"

	"verif/gen"
	"verif/lintrun"
	"verif/vf"
)

type runSpec struct {
	format   string
	procs    int
	hookSeed int // 0 = no perturbation
	warm     bool
	patterns []string
	race     bool
}

func (s runSpec) String() string {
	return fmt.Sprintf("-f %s GOMAXPROCS=%d hooks=%d warm=%v race=%v %s", s.format, s.procs, s.hookSeed, s.warm, s.race, strings.Join(s.patterns, " "))
}

type runOut struct {
	spec      runSpec
	res       lintrun.Result
	schedHash string
	hookPts   map[string]int
	races     int
	raceHeads []string
}

func scheduleOf(logPath string) (hash string, pts map[string]int) {
	pts = map[string]int{}
	b, err := os.ReadFile(logPath)
	if err != nil {
		return "", pts
	}
	h := sha256.New()
	for _, l := range strings.Split(string(b), "\n") {
		f := strings.SplitN(l, " ", 3)
		if len(f) < 2 {
			continue
		}
		pts[f[1]]++
		if f[1] == "runner.exec.before" || f[1] == "runner.exec.after" {
			// the order in which package / analyzer actions start and finish
			fmt.Fprintln(h, f[1], f[len(f)-1])
		}
	}
	return fmt.Sprintf("%x", h.Sum(nil)[:8]), pts
}

func countRaces(prefix string) (int, []string) {
	files, _ := filepath.Glob(prefix + "*")
	n := 0
	var heads []string
	for _, f := range files {
		b, _ := os.ReadFile(f)
		blocks := strings.Split(string(b), "WARNING: DATA RACE")
		for _, bl := range blocks[1:] {
			n++
			// outermost entry points: first and last function frame of the report
			var fr []string
			for _, l := range strings.Split(bl, "\n") {
				l = strings.TrimSpace(l)
				if strings.HasSuffix(l, ")") && strings.Contains(l, "(") && !strings.HasPrefix(l, "/") && !strings.HasPrefix(l, "Goroutine") && !strings.HasPrefix(l, "Previous") && !strings.HasPrefix(l, "Read") && !strings.HasPrefix(l, "Write") {
					fr = append(fr, l[:strings.IndexByte(l, '(')])
				}
			}
			if len(fr) > 0 {
				heads = append(heads, fr[0]+" … "+fr[len(fr)-1])
			}
		}
	}
	sort.Strings(heads)
	return n, heads
}

func Run(r *vf.Run) {
	bin := r.BuildBin("staticcheck", "honnef.co/go/tools/cmd/staticcheck", false)
	binRace := r.BuildBin("staticcheck-race", "honnef.co/go/tools/cmd/staticcheck", true)
	ws := filepath.Join(r.Scratch(), "ws")
	st := gen.WSState{Deprecated: true, NeverNil: true, LocalB: 2, LocalA: 3, ExtTest: true, TestUses: false, Extra: r.Pick(9, 14), GoVersion: "1.22"}
	for n, c := range st.Files() {
		p := filepath.Join(ws, n)
		os.MkdirAll(filepath.Dir(p), 0o755)
		os.WriteFile(p, []byte(c), 0o644)
	}
	formats := []string{"json", "text", "stylish", "sarif"}
	procs := []int{1, 2, 3, 4, 8, 16}
	all := []string{"./..."}
	var specs []runSpec
	rng := r.Rand("matrix", 0)
	nPer := r.Pick(5, 40) // perturbed runs per format
	for _, f := range formats {
		specs = append(specs, runSpec{format: f, procs: 16, patterns: all}) // reference (cold, unperturbed)
		for i := 0; i < nPer; i++ {
			specs = append(specs, runSpec{format: f, procs: procs[rng.IntN(len(procs))], hookSeed: 1 + rng.IntN(1<<20), warm: i%3 == 2, patterns: all})
		}
	}
	// race build: same workload, fewer runs
	nRace := r.Pick(4, 30)
	for i := 0; i < nRace; i++ {
		specs = append(specs, runSpec{format: "json", procs: procs[rng.IntN(len(procs))], hookSeed: 1 + rng.IntN(1<<20), warm: i%4 == 3, patterns: all, race: true})
	}
	// independence of the set of named packages
	pkgSets := [][]string{{"./a"}, {"./b"}, {"./x2"}, {"./a", "./b"}, {"./b", "./a"}, {"./x2", "./a", "./x5"}, {"./x5", "./x2", "./a"}, {"./c", "./x0"}}
	for _, ps := range pkgSets {
		specs = append(specs, runSpec{format: "json", procs: 4, hookSeed: 1 + rng.IntN(1<<20), patterns: ps})
	}
	outs := make([]runOut, len(specs))
	var wg sync.WaitGroup
	sem := make(chan struct{}, 6)
	warmCache := filepath.Join(r.Scratch(), "cache-warm")
	os.MkdirAll(warmCache, 0o755)
	// populate the warm cache once
	lintrun.Cmd{Bin: bin, Dir: ws, Env: []string{"STATICCHECK_CACHE=" + warmCache}, Args: []string{"-f", "json", "./..."}}.Run()
	warmRace := filepath.Join(r.Scratch(), "cache-warm-race")
	os.MkdirAll(warmRace, 0o755)
	for i, sp := range specs {
		wg.Add(1)
		go func(i int, sp runSpec) {
			defer wg.Done()
			sem <- struct{}{}
			defer func() { <-sem }()
			cache := filepath.Join(r.Scratch(), fmt.Sprintf("cache-%d", i))
			if sp.warm {
				cache = warmCache
				if sp.race {
					cache = warmRace
				}
			} else {
				os.MkdirAll(cache, 0o755)
				defer os.RemoveAll(cache)
			}
			hookLog := filepath.Join(r.Scratch(), fmt.Sprintf("hooks-%d.log", i))
			env := []string{"STATICCHECK_CACHE=" + cache, fmt.Sprintf("GOMAXPROCS=%d", sp.procs), "VERIF_HOOK_LOG=" + hookLog}
			if sp.hookSeed != 0 {
				env = append(env, fmt.Sprintf("VERIF_HOOKS=%d:300:400", sp.hookSeed))
			}
			b := bin
			racePrefix := ""
			if sp.race {
				b = binRace
				racePrefix = filepath.Join(r.Scratch(), fmt.Sprintf("race-%d.log", i))
				env = append(env, "GORACE=halt_on_error=0 log_path="+racePrefix)
			}
			args := append([]string{"-f", sp.format}, sp.patterns...)
			res := lintrun.Cmd{Bin: b, Dir: ws, Env: env, Args: args, Watchdog: 1500}.Run()
			o := runOut{spec: sp, res: res}
			o.schedHash, o.hookPts = scheduleOf(hookLog)
			os.Remove(hookLog)
			if sp.race {
				o.races, o.raceHeads = countRaces(racePrefix)
			}
			outs[i] = o
		}(i, sp)
	}
	wg.Wait()

	ref := map[string]*runOut{}
	schedules := map[string]bool{}
	hookPts := map[string]int{}
	procsSeen := map[int]bool{}
	var bytesCompared int
	evals, perturbed := 0, 0
	raceBlocks := 0
	byPkg := map[string]map[string][]string{} // pattern set -> package dir -> problem keys
	for i := range outs {
		o := &outs[i]
		if o.res.Killed {
			r.Inconclusive("watchdog fired: %s", o.spec)
			continue
		}
		evals++
		if o.schedHash != "" {
			schedules[o.schedHash] = true
		}
		for k, v := range o.hookPts {
			hookPts[k] += v
		}
		procsSeen[o.spec.procs] = true
		if o.res.Crashed() {
			r.Violation("crash", "lint run crashed: "+o.spec.String(), map[string]any{"spec": o.spec.String(), "stderr": string(o.res.Stderr)})
			continue
		}
		if o.spec.race {
			raceBlocks += o.races
			if o.races > 0 {
				key := "data-race"
				if len(o.raceHeads) > 0 {
					key += ":" + o.raceHeads[0]
				}
				r.Violation(key, fmt.Sprintf("%d race report(s) in %s", o.races, o.spec), map[string]any{"spec": o.spec.String(), "entry_points": o.raceHeads})
			}
		}
		if len(o.spec.patterns) == 1 && o.spec.patterns[0] == "./..." {
			k := o.spec.format
			if rf, ok := ref[k]; !ok {
				ref[k] = o
			} else {
				bytesCompared += len(o.res.Stdout)
				if o.spec.hookSeed != 0 {
					perturbed++
				}
				if !bytes.Equal(rf.res.Stdout, o.res.Stdout) || rf.res.Exit != o.res.Exit {
					r.Violation("output-differs-between-runs:"+k, fmt.Sprintf("identical inputs, different output: [%s] vs [%s]", rf.spec, o.spec),
						map[string]any{"first": rf.spec.String(), "second": o.spec.String(), "first_exit": rf.res.Exit, "second_exit": o.res.Exit,
							"diff": firstDiff(rf.res.Stdout, o.res.Stdout)})
				}
			}
		} else {
			ps, err := o.res.Problems()
			if err != nil {
				r.Violation("unparsable-json", err.Error(), map[string]any{"spec": o.spec.String()})
				continue
			}
			m := map[string][]string{}
			for _, p := range ps {
				d := filepath.Base(filepath.Dir(p.Location.File))
				m[d] = append(m[d], p.Key())
			}
			for _, v := range m {
				sort.Strings(v)
			}
			byPkg[strings.Join(o.spec.patterns, " ")] = m
		}
	}
	// per-package problems must not depend on which other packages were named
	fullBy := map[string][]string{}
	if rj := ref["json"]; rj != nil {
		full, _ := rj.res.Problems()
		for _, p := range full {
			d := filepath.Base(filepath.Dir(p.Location.File))
			fullBy[d] = append(fullBy[d], p.Key())
		}
	}
	for _, v := range fullBy {
		sort.Strings(v)
	}
	sets := make([]string, 0, len(byPkg))
	for k := range byPkg {
		sets = append(sets, k)
	}
	sort.Strings(sets)
	subsetCmp := 0
	for _, set := range sets {
		for _, pat := range strings.Fields(set) {
			d := strings.TrimPrefix(pat, "./")
			subsetCmp++
			got, want := byPkg[set][d], fullBy[d]
			if strings.Join(got, "\n") != strings.Join(want, "\n") {
				r.Violation("package-problems-depend-on-named-set", fmt.Sprintf("problems of package %s differ between `%s` and `./...`", d, set),
					map[string]any{"patterns": set, "package": d, "with_subset": got, "with_all": want})
			}
		}
	}
	var pl []int
	for p := range procsSeen {
		pl = append(pl, p)
	}
	sort.Ints(pl)
	r.Set("runs", evals)
	r.Set("perturbed_runs_compared", perturbed)
	r.Set("distinct_schedules_observed", len(schedules))
	r.Set("hook_points_hit", hookPts)
	r.Set("gomaxprocs_values", pl)
	r.Set("race_instrumented_runs", nRace)
	r.Set("race_report_blocks", raceBlocks)
	r.Set("bytes_compared", bytesCompared)
	r.Set("package_subset_comparisons", subsetCmp)
	r.Set("workspace_packages", 3+st.Extra)
	r.Sample(map[string]any{"example_run": specs[1].String(), "schedule_hash": outs[1].schedHash}, 2)
	r.Sample(map[string]any{"example_run": specs[len(specs)-1].String()}, 2)
	if hookPts["runner.exec.before"] == 0 {
		r.Inconclusive("the runner hook points were never reached (hooks not compiled in?)")
	}
	r.Assume("stderr and -debug.* output are not compared; schedules are identified by the order of runner.exec.before/after hook events")
	r.Finish(evals, len(schedules), r.Pick(8, 50),
		"each run lints the same wsgen workspace (12+ packages, diamonds, facts, U1000 objects, directives, tests) under a format x GOMAXPROCS x seeded yield/sleep perturbation x {cold,warm} cache combination; stdout bytes and exit status are compared with the first run of that format; a race-instrumented binary repeats the workload (reports counted in GORACE log files); per-package problem lists are compared across subsets/orders of named packages. distinct_nontrivial = distinct orders of package/analyzer action start/finish events actually observed")
}

func firstDiff(a, b []byte) string {
	al, bl := strings.Split(string(a), "\n"), strings.Split(string(b), "\n")
	for i := 0; i < len(al) || i < len(bl); i++ {
		var x, y string
		if i < len(al) {
			x = al[i]
		}
		if i < len(bl) {
			y = bl[i]
		}
		if x != y {
			if len(x) > 300 {
				x = x[:300]
			}
			if len(y) > 300 {
				y = y[:300]
			}
			return fmt.Sprintf("line %d:\n- %s\n+ %s", i+1, x, y)
		}
	}
	return ""
}
