// Package c02: built IR is well-formed, strictly dominated, consistently typed SSA.
package c02

import (
	"encoding/json"
	"fmt"
	"os"
	"path/filepath"
	"runtime/debug"
	"sort"
	"strings"
	"sync"

	"golang.org/x/tools/go/packages"
	"honnef.co/go/tools/go/ir"
	"verif/corpus"
	"verif/gen"
	"verif/irload"
	"verif/irwf"
	"verif/lintrun"
	"verif/vf"
)

type job struct {
	name string
	run  func(st *irwf.Stats) (fns int, issues []irwf.Issue, replay map[string]any, err error)
}

func checkFns(fns []*ir.Function, st *irwf.Stats) []irwf.Issue {
	var out []irwf.Issue
	for _, f := range fns {
		out = append(out, irwf.Check(f, st)...)
		if len(out) > 200 {
			break
		}
	}
	return out
}

func Run(r *vf.Run) {
	var jobs []job
	modes := corpus.AllModes()
	// 1. generated packages: goto-built CFGs under all 16 mode combinations
	nGen := r.Pick(120, 1500)
	for i := 0; i < nGen; i++ {
		i := i
		jobs = append(jobs, job{fmt.Sprintf("cfggen#%d", i), func(st *irwf.Stats) (int, []irwf.Issue, map[string]any, error) {
			rng := r.Rand("cfggen", i)
			src := gen.CFGPackage(rng, "p", 5)
			var all []irwf.Issue
			n := 0
			for _, m := range modes {
				blt, err := irload.Source("p", map[string]string{"p.go": src}, m)
				if err != nil {
					return 0, nil, nil, fmt.Errorf("generator discard: %v", err)
				}
				if ps := corpus.SafeBuild(blt.Pkg.Prog); len(ps) > 0 {
					return 0, nil, nil, fmt.Errorf("panic: [mode %s] %s\nsource:\n%s", m, ps[0], src)
				}
				fns := corpus.Functions(blt.Pkg.Prog)
				n += len(fns)
				for _, is := range checkFns(fns, st) {
					is.Msg = "[mode " + m.String() + "] " + is.Msg
					all = append(all, is)
				}
			}
			return n, all, map[string]any{"source": src}, nil
		}})
	}
	// 2. real code: std slice, repository, testdata
	std := []string{"strings", "sort", "strconv", "bufio", "bytes", "fmt", "errors", "sync", "io", "os", "time", "unicode/utf8", "container/heap", "container/list",
		"text/template", "encoding/json", "go/parser", "go/printer", "regexp", "math/big", "net/url", "slices", "maps", "iter", "context"}
	if r.Thorough() {
		std = []string{"std"}
	}
	realModes := []ir.BuilderMode{ir.GlobalDebug, ir.NaiveForm, ir.InstantiateGenerics, ir.GlobalDebug | ir.InstantiateGenerics | ir.BuildSerially}
	if r.Thorough() {
		realModes = modes
	}
	addReal := func(name string, load func() ([]*packages.Package, error), ms []ir.BuilderMode) {
		jobs = append(jobs, job{name, func(st *irwf.Stats) (int, []irwf.Issue, map[string]any, error) {
			pkgs, err := load()
			if err != nil {
				return 0, nil, nil, err
			}
			if len(pkgs) == 0 {
				return 0, nil, nil, fmt.Errorf("no packages loaded")
			}
			var all []irwf.Issue
			n := 0
			for _, m := range ms {
				_, fns, ps := corpus.BuildSafe(pkgs, m)
				if len(ps) > 0 {
					return 0, nil, nil, fmt.Errorf("panic: [mode %s] %s", m, ps[0])
				}
				n += len(fns)
				for _, is := range checkFns(fns, st) {
					is.Msg = "[mode " + m.String() + "] " + is.Msg
					all = append(all, is)
				}
			}
			return n, all, map[string]any{"packages": name}, nil
		}})
	}
	// split std into chunks so they load/build in parallel
	chunk := 5
	for i := 0; i < len(std); i += chunk {
		part := std[i:min(len(std), i+chunk)]
		addReal("std:"+strings.Join(part, ","), func() ([]*packages.Package, error) { return corpus.Load(vf.Repo(), false, part...) }, realModes)
	}
	repoPats := []string{"./pattern", "./config", "./unused", "./analysis/...", "./go/ir/...", "./lintcmd/...", "./staticcheck/sa4023", "./simple/s1008", "./stylecheck/st1003"}
	if r.Thorough() {
		repoPats = []string{"./..."}
	}
	for _, p := range repoPats {
		p := p
		addReal("repo:"+p, func() ([]*packages.Package, error) { return corpus.Load(vf.Repo(), true, p) }, realModes)
	}
	tds := corpus.TestdataDirs(vf.Repo())
	if !r.Thorough() {
		// seeded subset in the quick tier
		rng := r.Rand("testdata", 0)
		rng.Shuffle(len(tds), func(i, j int) { tds[i], tds[j] = tds[j], tds[i] })
		tds = tds[:min(len(tds), 40)]
	}
	for _, td := range tds {
		td := td
		addReal("testdata:"+strings.TrimPrefix(td[0], vf.Repo()+"/"), func() ([]*packages.Package, error) { return corpus.LoadTestdata(td[0], td[1]) },
			[]ir.BuilderMode{ir.GlobalDebug, ir.NaiveForm | ir.InstantiateGenerics})
	}

	type result struct {
		name   string
		fns    int
		issues []irwf.Issue
		replay map[string]any
		err    error
		st     *irwf.Stats
	}
	results := make([]result, len(jobs))
	var wg sync.WaitGroup
	sem := make(chan struct{}, 12)
	for i, j := range jobs {
		wg.Add(1)
		go func(i int, j job) {
			defer wg.Done()
			sem <- struct{}{}
			defer func() { <-sem }()
			st := irwf.NewStats()
			res := result{name: j.name, st: st}
			func() {
				defer func() {
					if e := recover(); e != nil {
						res.err = fmt.Errorf("panic: %v\n%s", e, debug.Stack())
					}
				}()
				res.fns, res.issues, res.replay, res.err = j.run(st)
			}()
			results[i] = res
		}(i, j)
	}
	wg.Wait()

	// 3. the IR the linter itself builds (one Program per package, GlobalDebug,
	// lifted), observed by the VFY9004 monitor analyzer inside the real runner
	linterFns, linterPkgs := lintersOwnIR(r)

	total := irwf.NewStats()
	fnsChecked, discards, loadFailures := 0, 0, 0
	for _, res := range results {
		if res.err != nil {
			switch {
			case strings.HasPrefix(res.err.Error(), "generator discard"):
				discards++
			case strings.HasPrefix(res.err.Error(), "panic:"):
				r.Violation("builder-or-checker-panic:"+firstLine(res.err.Error()), res.err.Error(), map[string]any{"job": res.name})
			default:
				loadFailures++
				r.Sample(map[string]any{"load_failure": res.name, "error": firstLine(res.err.Error())}, 12)
			}
			continue
		}
		fnsChecked += res.fns
		merge(total, res.st)
		for _, is := range res.issues {
			rep := map[string]any{"job": res.name, "function": is.Fn, "message": is.Msg}
			for k, v := range res.replay {
				rep[k] = v
			}
			r.Violation(is.Rule, is.Fn+": "+is.Msg, rep)
		}
	}
	r.Set("functions_checked", fnsChecked)
	r.Set("blocks", total.Blocks)
	r.Set("instructions", total.Instrs)
	r.Set("instruction_kinds", total.Kinds)
	r.Set("obligations_by_rule", total.Obligations)
	r.Set("functions_with_recover_block", total.FuncsWithRecover)
	r.Set("functions_with_irreducible_cfg", total.FuncsIrreducible)
	r.Set("functions_with_phis", total.FuncsWithPhis)
	r.Set("typing_checks_skipped_for_type_parameters", total.SkippedTypeParamChecks)
	r.Set("generator_discards", discards)
	r.Set("load_failures", loadFailures)
	r.Set("jobs", len(jobs))
	r.Set("functions_checked_inside_the_linter", linterFns)
	r.Set("packages_checked_inside_the_linter", linterPkgs)
	names := []string{}
	for _, res := range results {
		if res.err == nil {
			names = append(names, fmt.Sprintf("%s: %d functions", res.name, res.fns))
		}
	}
	sort.Strings(names)
	for _, n := range names[:min(6, len(names))] {
		r.Sample(n, 20)
	}
	if discards*20 > nGen {
		r.Inconclusive("%d of %d generated packages were rejected by the type checker", discards, nGen)
	}
	dom := total.Obligations["ssa.dominance"] + total.Obligations["ssa.phi-dominance"]
	r.Set("dominance_obligations", dom)
	r.Assume("harness/irwf is the trusted base (own dominator computation, rules from the instruction documentation); typing rules are not evaluated for instructions that mention type parameters")
	r.Finish(fnsChecked, total.FuncsWithPhis+total.FuncsWithRecover+total.FuncsIrreducible, 200,
		"every function body (source, anonymous, wrappers, thunks, bound methods, instances, init) of: goto-built generated packages under all 16 combinations of {NaiveForm, GlobalDebug, InstantiateGenerics, BuildSerially}; a slice of std, of the repository and of the analyzers' testdata under 2-4 modes (all of them, all 16 modes, in the thorough tier). evaluations = function bodies checked; non-trivial = functions with phis + functions with a Recover block + functions with an irreducible CFG (counted per mode)")
}

func firstLine(s string) string {
	if i := strings.IndexByte(s, '\n'); i >= 0 {
		s = s[:i]
	}
	if len(s) > 160 {
		s = s[:160]
	}
	return s
}

func merge(dst, src *irwf.Stats) {
	dst.Funcs += src.Funcs
	dst.Blocks += src.Blocks
	dst.Instrs += src.Instrs
	dst.FuncsWithRecover += src.FuncsWithRecover
	dst.FuncsIrreducible += src.FuncsIrreducible
	dst.FuncsWithPhis += src.FuncsWithPhis
	dst.DomPairs += src.DomPairs
	dst.SkippedTypeParamChecks += src.SkippedTypeParamChecks
	for k, v := range src.Kinds {
		dst.Kinds[k] += v
	}
	for k, v := range src.Obligations {
		dst.Obligations[k] += v
	}
}

// lintersOwnIR runs vlint's IR monitor over real packages through the real runner.
func lintersOwnIR(r *vf.Run) (fns, pkgs int) {
	bin := r.BuildBin("vlint", "./cmd/vlint", false)
	cache := filepath.Join(r.Scratch(), "vlint-cache")
	os.MkdirAll(cache, 0o755)
	pats := []string{"strings", "sort", "strconv", "bufio", "fmt", "encoding/json", "text/template", "go/parser", "net/url", "honnef.co/go/tools/pattern", "honnef.co/go/tools/unused", "honnef.co/go/tools/go/ir", "honnef.co/go/tools/lintcmd/..."}
	if r.Thorough() {
		pats = []string{"std", "honnef.co/go/tools/..."}
	}
	res := lintrun.Cmd{Bin: bin, Dir: vf.Repo(), Env: []string{"STATICCHECK_CACHE=" + cache}, Args: append([]string{"-verif.only-monitors", "-checks", "VFY9004", "-f", "json"}, pats...), Watchdog: 2400}.Run()
	if res.Killed {
		r.Inconclusive("watchdog fired on the vlint IR pass")
		return
	}
	if res.Crashed() || res.Exit > 1 {
		r.Violation("linter-crashed-while-building-ir", fmt.Sprintf("vlint exit %d", res.Exit), map[string]any{"stderr": firstLine(string(res.Stderr))})
		return
	}
	ps, err := res.Problems()
	if err != nil {
		r.Inconclusive("unparsable vlint output: %v", err)
		return
	}
	for _, p := range ps {
		if p.Code != "VFY9004" {
			continue
		}
		switch {
		case strings.HasPrefix(p.Message, "irwf stats "):
			var st map[string]int
			json.Unmarshal([]byte(strings.TrimPrefix(p.Message, "irwf stats ")), &st)
			fns += st["funcs"]
			pkgs++
		case strings.HasPrefix(p.Message, "irwf issue "):
			var is irwf.Issue
			json.Unmarshal([]byte(strings.TrimPrefix(p.Message, "irwf issue ")), &is)
			r.Violation(is.Rule, "[IR built by the linter] "+is.Fn+": "+is.Msg, map[string]any{"package_file": p.Location.File, "function": is.Fn, "message": is.Msg})
		}
	}
	return
}
