// Package monitors holds the monitor analyzers that vlint adds to the real
// lintcmd pipeline. Their observations travel as ordinary diagnostics through
// the real runner, cache and formatters; the drivers parse them.
//
//	VFY9001  version probe (C20)
//	VFY9002  pattern pre-filter monitor (C08)
//	VFY9003  nilness fact dump (C15)
//	VFY9004  IR well-formedness of the IR the linter itself builds (C02/C14)
//	VFY9005  AST / IR kind coverage of a package (evidence for C03)
package monitors

import (
	"encoding/json"
	"fmt"
	"go/ast"
	"go/token"
	"go/types"
	"os"
	"reflect"
	"sort"
	"strings"

	"golang.org/x/tools/go/analysis"
	"honnef.co/go/tools/analysis/code"
	"honnef.co/go/tools/analysis/facts/nilness"
	"honnef.co/go/tools/analysis/facts/tokenfile"
	"honnef.co/go/tools/analysis/report"
	"honnef.co/go/tools/go/ir"
	"honnef.co/go/tools/pattern"
	"verif/irwf"
)

// buildir.Analyzer lives in an internal package; it is reachable as the
// nilness analyzer's only requirement, and its result has exported fields.
var buildIR = nilness.Analysis.Requires[0]

func irOf(pass *analysis.Pass) (pkg *ir.Package, src []*ir.Function) {
	v := reflect.ValueOf(pass.ResultOf[buildIR]).Elem()
	pkg, _ = v.FieldByName("Pkg").Interface().(*ir.Package)
	src, _ = v.FieldByName("SrcFuncs").Interface().([]*ir.Function)
	return
}

func All() []*analysis.Analyzer {
	return []*analysis.Analyzer{Version, PatMon, NilFact, IRWF, Cover}
}

// ---------------------------------------------------------------- VFY9001

var Thresholds = []string{"go1.17", "go1.18", "go1.19", "go1.20", "go1.21", "go1.22", "go1.23", "go1.24", "go1.25", "go1.26"}

var Version = &analysis.Analyzer{
	Name:     "VFY9001",
	Doc:      "version probe\n\nReports the effective versions of every file and one problem per bound.",
	Requires: append([]*analysis.Analyzer{tokenfile.Analyzer}, code.RequiredAnalyzers...),
	Run: func(pass *analysis.Pass) (any, error) {
		for _, f := range pass.Files {
			node := f.Name
			pass.Report(analysis.Diagnostic{Pos: node.Pos(), End: node.End(),
				Message: fmt.Sprintf("effective lang=%s stdlib=%s", code.LanguageVersion(pass, node), code.StdlibVersion(pass, node))})
			for _, v := range Thresholds {
				report.Report(pass, node, "bound minlang "+v, report.MinimumLanguageVersion(v))
				report.Report(pass, node, "bound maxlang "+v, report.MaximumLanguageVersion(v))
				report.Report(pass, node, "bound minstd "+v, report.MinimumStdlibVersion(v))
				report.Report(pass, node, "bound maxstd "+v, report.MaximumStdlibVersion(v))
			}
		}
		return nil, nil
	},
}

// ---------------------------------------------------------------- VFY9002

type PatternSpec struct {
	ID   string `json:"id"`
	Text string `json:"text"`
}

var patCache []struct {
	spec PatternSpec
	pat  pattern.Pattern
}
var patLoaded bool

func loadPatterns() {
	if patLoaded {
		return
	}
	patLoaded = true
	p := os.Getenv("VERIF_PATTERNS")
	if p == "" {
		return
	}
	b, err := os.ReadFile(p)
	if err != nil {
		return
	}
	var specs []PatternSpec
	if json.Unmarshal(b, &specs) != nil {
		return
	}
	for _, s := range specs {
		func() {
			defer func() { recover() }()
			pr := &pattern.Parser{AllowTypeInfo: true}
			q, err := pr.Parse(s.Text)
			if err != nil {
				return
			}
			patCache = append(patCache, struct {
				spec PatternSpec
				pat  pattern.Pattern
			}{s, q})
		}()
	}
}

// unwrap maps a node to the content the matcher looks at by design.
func unwrap(n ast.Node) ast.Node {
	for {
		switch x := n.(type) {
		case *ast.ParenExpr:
			n = x.X
		case *ast.ExprStmt:
			n = x.X
		case *ast.DeclStmt:
			n = x.Decl
		case *ast.LabeledStmt:
			n = x.Stmt
		case *ast.BlockStmt:
			if x != nil && len(x.List) == 1 {
				n = x.List[0]
			} else {
				return n
			}
		case *ast.FieldList:
			if x != nil && len(x.List) == 1 {
				n = x.List[0]
			} else {
				return n
			}
		default:
			return n
		}
	}
}

func renderState(st pattern.State) string {
	keys := make([]string, 0, len(st))
	for k := range st {
		keys = append(keys, k)
	}
	sort.Strings(keys)
	var b strings.Builder
	for _, k := range keys {
		fmt.Fprintf(&b, "%s=%s;", k, renderVal(st[k]))
	}
	return b.String()
}

func renderVal(v any) string {
	switch v := v.(type) {
	case nil:
		return "nil"
	case string:
		return "s:" + v
	case token.Token:
		return "t:" + v.String()
	case types.Object:
		return "obj:" + v.String()
	case types.TypeAndValue:
		if v.Value != nil {
			return "tv:" + v.Value.String()
		}
		return "tv"
	case ast.Node:
		rv := reflect.ValueOf(v)
		if rv.Kind() == reflect.Pointer && rv.IsNil() {
			return fmt.Sprintf("%T(nil)", v)
		}
		return fmt.Sprintf("%T@%d-%d", v, v.Pos(), v.End())
	}
	rv := reflect.ValueOf(v)
	if rv.Kind() == reflect.Slice {
		s := "["
		for i := 0; i < rv.Len(); i++ {
			s += renderVal(rv.Index(i).Interface()) + " "
		}
		return s + "]"
	}
	return fmt.Sprintf("%T", v)
}

func symbolsOf(q pattern.Pattern) []pattern.IndexSymbol {
	var out []pattern.IndexSymbol
	var walk func(n pattern.Node)
	walk = func(n pattern.Node) {
		switch n := n.(type) {
		case pattern.IndexSymbol:
			out = append(out, n)
		case pattern.Or:
			for _, c := range n.Nodes {
				walk(c)
			}
		case pattern.And:
			for _, c := range n.Nodes {
				walk(c)
			}
		}
	}
	walk(q.SymbolsPattern)
	return append(out, q.RootCallSymbols...)
}

var patternKinds = func() map[string]bool {
	m := map[string]bool{}
	for _, k := range []string{"Ellipsis", "RangeStmt", "AssignStmt", "IndexExpr", "IndexListExpr", "Ident", "ValueSpec", "GenDecl", "BinaryExpr", "ForStmt", "ArrayType", "DeferStmt", "MapType", "ReturnStmt", "SliceExpr", "StarExpr", "UnaryExpr", "SendStmt", "SelectStmt", "ImportSpec", "IfStmt", "GoStmt", "Field", "SelectorExpr", "StructType", "KeyValueExpr", "FuncType", "FuncLit", "FuncDecl", "ChanType", "CallExpr", "CaseClause", "CommClause", "CompositeLit", "EmptyStmt", "SwitchStmt", "TypeSwitchStmt", "TypeAssertExpr", "TypeSpec", "InterfaceType", "BranchStmt", "IncDecStmt", "BasicLit"} {
		m[k] = true
	}
	return m
}()

type patStats struct {
	Pairs, Skipped, PairsWithMatch, Matches, BrutePanics, BothPanicked int
	PrunedBySymbols, ByCallSites, ByEntryNodes           int
}

var PatMon = &analysis.Analyzer{
	Name:     "VFY9002",
	Doc:      "pattern pre-filter monitor\n\ncode.Matches vs. trying the pattern on every node.",
	Requires: code.RequiredAnalyzers,
	Run: func(pass *analysis.Pass) (any, error) {
		loadPatterns()
		if len(patCache) == 0 || len(pass.Files) == 0 {
			return nil, nil
		}
		var st patStats
		// "Every syntax node": every node of a kind the pattern language can
		// denote (a pattern node of that name exists), plus the four wrapper
		// kinds the matcher unnests by design. Block statements and field lists
		// stand for their lists and are tried for patterns that can start there.
		var nodes, listNodes []ast.Node
		for _, f := range pass.Files {
			ast.Inspect(f, func(n ast.Node) bool {
				if n != nil {
					switch n.(type) {
					case *ast.Comment, *ast.CommentGroup:
						return false
					case *ast.BlockStmt, *ast.FieldList:
						listNodes = append(listNodes, n)
						return true
					case *ast.ParenExpr, *ast.ExprStmt, *ast.DeclStmt, *ast.LabeledStmt:
						// a wrapper around a block (`label: { ... }`) stands for the list, like the block itself
						switch unwrap(n).(type) {
						case *ast.BlockStmt, *ast.FieldList:
							listNodes = append(listNodes, n)
						default:
							nodes = append(nodes, n)
						}
						return true
					}
					if patternKinds[strings.TrimPrefix(fmt.Sprintf("%T", n), "*ast.")] {
						nodes = append(nodes, n)
					}
				}
				return true
			})
		}
		at := pass.Files[0].Name
		for _, pc := range patCache {
			q := pc.pat
			skip := false
			for _, s := range symbolsOf(q) {
				if s.Path == pass.Pkg.Path() {
					skip = true // the property excludes symbols declared in the analysed package
				}
			}
			if skip {
				st.Skipped++
				continue
			}
			st.Pairs++
			want := map[string]bool{}
			wantNode := map[string]ast.Node{}
			brutePanicsBefore := st.BrutePanics
			tryNodes := nodes
			for _, en := range q.EntryNodes {
				switch en.(type) {
				case *ast.BlockStmt, *ast.FieldList:
					tryNodes = append(append([]ast.Node{}, nodes...), listNodes...)
				}
			}
			for _, n := range tryNodes {
				func() {
					defer func() {
						if recover() != nil {
							st.BrutePanics++
						}
					}()
					if m, ok := code.Match(pass, q, n); ok {
						u := unwrap(n)
						k := fmt.Sprintf("%T@%d-%d|%s", u, u.Pos(), u.End(), renderState(m.State))
						want[k] = true
						wantNode[k] = u
					}
				}()
			}
			got := map[string]bool{}
			panicked := ""
			func() {
				defer func() {
					if e := recover(); e != nil {
						panicked = fmt.Sprint(e)
					}
				}()
				for n, m := range code.Matches(pass, q) {
					u := unwrap(n)
					got[fmt.Sprintf("%T@%d-%d|%s", u, u.Pos(), u.End(), renderState(m.State))] = true
				}
			}()
			if panicked != "" && st.BrutePanics > brutePanicsBefore {
				// the plain matcher panics on some node of this package for this pattern as well: what
				// "matches" is not defined for the pair (pattern-author error or matcher robustness, C09)
				st.BothPanicked++
				continue
			}
			if panicked != "" {
				pass.Report(analysis.Diagnostic{Pos: at.Pos(), Message: fmt.Sprintf("patmon panic id=%s: %s", pc.spec.ID, panicked)})
				continue
			}
			switch {
			case !code.CouldMatchAny(pass, q):
				st.PrunedBySymbols++
			case len(q.RootCallSymbols) != 0:
				st.ByCallSites++
			default:
				st.ByEntryNodes++
			}
			if len(want) > 0 {
				st.PairsWithMatch++
				st.Matches += len(want)
			}
			var missing, extra []string
			for k := range want {
				if !got[k] {
					missing = append(missing, k)
				}
			}
			for k := range got {
				if !want[k] {
					extra = append(extra, k)
				}
			}
			if len(missing)+len(extra) > 0 {
				sort.Strings(missing)
				sort.Strings(extra)
				how := "entry-nodes"
				if !code.CouldMatchAny(pass, q) {
					how = "symbol-index-rejected-package"
				} else if len(q.RootCallSymbols) != 0 {
					how = "root-call-sites"
				}
				first := ""
				if len(missing) > 0 {
					var p token.Pos
					fmt.Sscanf(missing[0][strings.IndexByte(missing[0], '@')+1:], "%d", &p)
					first = pass.Fset.Position(p).String()
				}
				// are all missing matches identifiers that denote an ALIAS of a type (the matcher looks through
				// aliases, the symbol index knows only what the package refers to by its own name)?
				viaAlias := len(missing) > 0
				for _, k := range missing {
					var id *ast.Ident
					switch n := wantNode[k].(type) {
					case *ast.Ident:
						id = n
					case *ast.SelectorExpr:
						id = n.Sel
					}
					tn, _ := pass.TypesInfo.ObjectOf(id).(*types.TypeName)
					if id == nil || tn == nil || !tn.IsAlias() {
						viaAlias = false
						break
					}
				}
				b, _ := json.Marshal(map[string]any{"id": pc.spec.ID, "pattern": pc.spec.Text, "filter": how, "missing": len(missing), "extra": len(extra), "first_missing_at": first, "first_missing": firstOf(missing), "first_extra": firstOf(extra), "all_missing_are_alias_type_names": viaAlias})
				pass.Report(analysis.Diagnostic{Pos: at.Pos(), Message: "patmon mismatch " + string(b)})
			}
		}
		b, _ := json.Marshal(st)
		pass.Report(analysis.Diagnostic{Pos: at.Pos(), Message: "patmon stats " + string(b)})
		return nil, nil
	},
}

func firstOf(s []string) string {
	if len(s) == 0 {
		return ""
	}
	return s[0]
}

// ---------------------------------------------------------------- VFY9003

var NilFact = &analysis.Analyzer{
	Name:     "VFY9003",
	Doc:      "nilness fact dump\n\nOne problem per function result with the nilness the analysis claims.",
	Requires: []*analysis.Analyzer{nilness.Analysis},
	Run: func(pass *analysis.Pass) (any, error) {
		res := pass.ResultOf[nilness.Analysis].(*nilness.Result)
		for _, f := range pass.Files {
			for _, d := range f.Decls {
				fd, ok := d.(*ast.FuncDecl)
				if !ok {
					continue
				}
				fn, ok := pass.TypesInfo.Defs[fd.Name].(*types.Func)
				if !ok {
					continue
				}
				sig := fn.Type().(*types.Signature)
				for i := 0; i < sig.Results().Len(); i++ {
					n := res.Nilness(fn, i)
					pass.Report(analysis.Diagnostic{Pos: fd.Name.Pos(), End: fd.Name.End(),
						Message: fmt.Sprintf("nilfact %s %d inner=%s outer=%s", fn.FullName(), i, n.Inner, n.Outer)})
				}
			}
		}
		return nil, nil
	},
}

// ---------------------------------------------------------------- VFY9004

func allFuncs(src []*ir.Function) []*ir.Function {
	var out []*ir.Function
	seen := map[*ir.Function]bool{}
	var add func(f *ir.Function)
	add = func(f *ir.Function) {
		if f == nil || seen[f] {
			return
		}
		seen[f] = true
		out = append(out, f)
		for _, a := range f.AnonFuncs {
			add(a)
		}
	}
	for _, f := range src {
		add(f)
	}
	return out
}

var IRWF = &analysis.Analyzer{
	Name:     "VFY9004",
	Doc:      "IR well-formedness of the IR the linter builds\n\nRuns the independent oracle over every source function.",
	Requires: []*analysis.Analyzer{buildIR},
	Run: func(pass *analysis.Pass) (any, error) {
		if len(pass.Files) == 0 {
			return nil, nil
		}
		_, src := irOf(pass)
		st := irwf.NewStats()
		at := pass.Files[0].Name
		for _, fn := range allFuncs(src) {
			for _, is := range irwf.Check(fn, st) {
				b, _ := json.Marshal(is)
				pass.Report(analysis.Diagnostic{Pos: at.Pos(), Message: "irwf issue " + string(b)})
			}
		}
		b, _ := json.Marshal(map[string]int{"funcs": st.Funcs, "blocks": st.Blocks, "instrs": st.Instrs, "phis": st.FuncsWithPhis, "recover": st.FuncsWithRecover})
		pass.Report(analysis.Diagnostic{Pos: at.Pos(), Message: "irwf stats " + string(b)})
		return nil, nil
	},
}

// ---------------------------------------------------------------- VFY9005

var Cover = &analysis.Analyzer{
	Name:     "VFY9005",
	Doc:      "coverage probe\n\nAST node kinds and IR instruction kinds of the package.",
	Requires: []*analysis.Analyzer{buildIR},
	Run: func(pass *analysis.Pass) (any, error) {
		if len(pass.Files) == 0 {
			return nil, nil
		}
		astKinds := map[string]int{}
		for _, f := range pass.Files {
			ast.Inspect(f, func(n ast.Node) bool {
				if n != nil {
					astKinds[strings.TrimPrefix(fmt.Sprintf("%T", n), "*ast.")]++
				}
				return true
			})
		}
		irKinds := map[string]int{}
		_, src := irOf(pass)
		for _, fn := range allFuncs(src) {
			for _, b := range fn.Blocks {
				for _, in := range b.Instrs {
					irKinds[strings.TrimPrefix(fmt.Sprintf("%T", in), "*ir.")]++
					if c, ok := in.(ir.CallInstruction); ok {
						if bi, ok := c.Common().Value.(*ir.Builtin); ok {
							irKinds["builtin:"+bi.Name()]++
						}
					}
				}
			}
		}
		b, _ := json.Marshal(map[string]any{"ast": astKinds, "ir": irKinds, "pkg": pass.Pkg.Path()})
		pass.Report(analysis.Diagnostic{Pos: pass.Files[0].Name.Pos(), Message: "cover " + string(b)})
		return nil, nil
	},
}
