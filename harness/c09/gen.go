package c09

import (
	"fmt"
	"go/ast"
	"go/token"
	"math/rand/v2"
	"reflect"
	"slices"
	"sort"
	"strings"

	"honnef.co/go/tools/pattern"
	"verif/refmodel/matcher"
)

// pnode is a spelling-neutral pattern tree.
type pnode struct {
	kind  string // node, str, nil, any, list, bind, or, not
	typ   string
	kids  []*pnode
	tail  *pnode // list: nil = proper list
	name  string // bind
	str   string
	fails bool // this sub-pattern can never match (decoy tail)
	src   any  // the AST value this pattern was derived from
}

var patTypes = map[string]reflect.Type{}

func init() {
	for _, v := range []any{
		pattern.Ellipsis{}, pattern.RangeStmt{}, pattern.AssignStmt{}, pattern.IndexExpr{}, pattern.IndexListExpr{},
		pattern.Ident{}, pattern.ValueSpec{}, pattern.GenDecl{}, pattern.BinaryExpr{}, pattern.ForStmt{},
		pattern.ArrayType{}, pattern.DeferStmt{}, pattern.MapType{}, pattern.ReturnStmt{}, pattern.SliceExpr{},
		pattern.StarExpr{}, pattern.UnaryExpr{}, pattern.SendStmt{}, pattern.SelectStmt{}, pattern.ImportSpec{},
		pattern.IfStmt{}, pattern.GoStmt{}, pattern.Field{}, pattern.SelectorExpr{}, pattern.StructType{},
		pattern.KeyValueExpr{}, pattern.FuncType{}, pattern.FuncLit{}, pattern.FuncDecl{}, pattern.ChanType{},
		pattern.CallExpr{}, pattern.CaseClause{}, pattern.CommClause{}, pattern.CompositeLit{}, pattern.EmptyStmt{},
		pattern.SwitchStmt{}, pattern.TypeSwitchStmt{}, pattern.TypeAssertExpr{}, pattern.TypeSpec{},
		pattern.InterfaceType{}, pattern.BranchStmt{}, pattern.IncDecStmt{}, pattern.BasicLit{},
	} {
		t := reflect.TypeOf(v)
		patTypes[t.Name()] = t
	}
}

const failAtom = "§nomatch§"

type gen struct {
	rng                 *rand.Rand
	nname               int
	bound               map[string]bool // names bound on the current success path
	pool                []string        // names defined inside decoys (candidates for reuse)
	depth               int
	canon               map[string]string // name -> canonical text of the subtree it is bound to
	nilNames            []string          // names bound to an absent (nil) optional child
	noPool              bool              // fresh() must not reuse decoy names
	forceCross, crossed bool              // see decoy
	inDecoy             int               // nesting depth of decoys being generated
	listNames           []string          // names bound to a list tail
	// tuning
	pAny, pBind, pOr, pNot float64
	stats                  map[string]int
}

func newGen(rng *rand.Rand) *gen {
	return &gen{rng: rng, bound: map[string]bool{}, stats: map[string]int{}, canon: map[string]string{},
		pAny: 0.12, pBind: 0.25, pOr: 0.18, pNot: 0.08}
}

func (g *gen) full() bool { return g.nname >= 40 }

func (g *gen) fresh() string {
	// sometimes re-define a name that a (failed) decoy defined earlier
	if len(g.pool) > 0 && !g.noPool && g.rng.Float64() < 0.6 {
		n := g.pool[g.rng.IntN(len(g.pool))]
		if !g.bound[n] {
			g.stats["reused-decoy-name"]++
			// what the failed decoy bound it to is gone
			delete(g.canon, n)
			g.nilNames = slices.DeleteFunc(g.nilNames, func(x string) bool { return x == n })
			g.listNames = slices.DeleteFunc(g.listNames, func(x string) bool { return x == n })
			return n
		}
	}
	g.nname++
	return "v" + string(rune('a'+(g.nname-1)%26)) + fmt.Sprint((g.nname-1)/26)
}

func okString(s string) bool { return !strings.ContainsAny(s, "\\\"") }

// conv turns an AST value into an exact pattern (no placeholders).
func (g *gen) conv(v any, depth int) *pnode {
	if v == nil {
		return &pnode{kind: "nil"}
	}
	rv := reflect.ValueOf(v)
	switch rv.Kind() {
	case reflect.Pointer, reflect.Interface, reflect.Slice:
		if rv.IsNil() && rv.Kind() != reflect.Slice {
			return &pnode{kind: "nil"}
		}
	}
	if depth <= 0 {
		return &pnode{kind: "any", src: v}
	}
	switch v := v.(type) {
	case string:
		if !okString(v) {
			return &pnode{kind: "any"}
		}
		return &pnode{kind: "str", str: v}
	case token.Token:
		if s, ok := matcher.TokenString(v); ok {
			return &pnode{kind: "str", str: s}
		}
		return &pnode{kind: "any"}
	case *ast.ParenExpr:
		return g.conv(v.X, depth)
	case *ast.ExprStmt:
		return g.conv(v.X, depth)
	case *ast.DeclStmt:
		return g.conv(v.Decl, depth)
	case *ast.LabeledStmt:
		return g.conv(v.Stmt, depth)
	case *ast.BlockStmt:
		return g.conv(v.List, depth)
	case *ast.FieldList:
		return g.conv(v.List, depth)
	case []ast.Expr, []ast.Stmt, []*ast.Field:
		n := &pnode{kind: "list"}
		for i := 0; i < rv.Len(); i++ {
			if i >= 5 {
				// long lists: exact head, open tail
				n.tail = &pnode{kind: "any"}
				break
			}
			n.kids = append(n.kids, g.conv(rv.Index(i).Interface(), depth-1))
		}
		return n
	case ast.Node:
		t := rv.Type().Elem()
		pt, ok := patTypes[t.Name()]
		if !ok {
			return &pnode{kind: "any"}
		}
		n := &pnode{kind: "node", typ: t.Name(), src: v}
		for i := 0; i < pt.NumField(); i++ {
			f := rv.Elem().FieldByName(pt.Field(i).Name)
			if !f.IsValid() {
				return &pnode{kind: "any"}
			}
			switch f.Interface().(type) {
			case []*ast.Ident, []ast.Spec, ast.ChanDir:
				// not matchable by a structural pattern; only by _ (or a List)
				n.kids = append(n.kids, &pnode{kind: "any"})
				continue
			}
			n.kids = append(n.kids, g.conv(f.Interface(), depth-1))
		}
		return n
	}
	return &pnode{kind: "any"}
}

func clone(n *pnode) *pnode {
	if n == nil {
		return nil
	}
	c := *n
	c.kids = make([]*pnode, len(n.kids))
	for i, k := range n.kids {
		c.kids[i] = clone(k)
	}
	c.tail = clone(n.tail)
	return &c
}

// decorate walks an exact pattern in match order and randomly generalises it.
// mustFail: the produced pattern must fail after having had the chance to bind.
func (g *gen) decorate(n *pnode, lvl int) *pnode {
	if lvl > 12 {
		return n
	}
	r := g.rng.Float64()
	if nd, ok := n.src.(ast.Node); ok && (n.kind == "node" || n.kind == "any") {
		c := canonText(nd)
		for name, cc := range g.canon {
			if cc == c && g.bound[name] && g.rng.Float64() < 0.6 {
				g.stats["recall"]++
				return &pnode{kind: "bind", name: name}
			}
		}
	}
	// a name that was bound to an absent optional child (nil) is sometimes
	// recalled at a later position: it must then only match another absent child
	if len(g.nilNames) > 0 && g.rng.Float64() < 0.05 {
		name := g.nilNames[g.rng.IntN(len(g.nilNames))]
		if g.bound[name] {
			g.stats["recall-of-nil-bound-name"]++
			return &pnode{kind: "bind", name: name}
		}
	}
	if g.forceCross && !g.crossed && n.kind == "list" && len(n.kids) != 1 && n.tail == nil {
		if name := g.nodeBoundName(); name != "" {
			g.crossed = true
			g.stats["cross-kind-recall"]++
			return &pnode{kind: "bind", name: name}
		}
	}
	// inside a decoy (which fails anyway): recall a name across kinds — a name bound to a
	// node at a list position, a name bound to a list tail at a node position. The recall
	// must succeed only for a one-element list whose element equals the node.
	if g.inDecoy > 0 && g.rng.Float64() < 0.12 {
		var cands []string
		if n.kind == "list" {
			for name := range g.canon {
				if g.bound[name] {
					cands = append(cands, name)
				}
			}
		} else if n.kind == "node" {
			for _, name := range g.listNames {
				if g.bound[name] {
					cands = append(cands, name)
				}
			}
		}
		if len(cands) > 0 {
			sort.Strings(cands)
			g.stats["cross-kind-recall"]++
			return &pnode{kind: "bind", name: cands[g.rng.IntN(len(cands))]}
		}
	}
	switch n.kind {
	case "str", "nil", "any":
		if n.kind == "nil" && r < 0.3 && !g.full() {
			// bind a name to the absent child
			name := g.fresh()
			g.bound[name] = true
			delete(g.canon, name)
			g.nilNames = append(g.nilNames, name)
			g.stats["bind-to-absent-child"]++
			return &pnode{kind: "bind", name: name}
		}
		if n.kind == "str" && r < 0.08 {
			// bind an atom; only expressible in the (Binding ...) spelling, so
			// it is kept spelling-neutral by always using that form
			return n
		}
		if n.kind != "any" && r < g.pAny {
			return &pnode{kind: "any"}
		}
		if n.kind == "any" && r < 0.3 && !g.full() {
			// bare binding = bind Any
			name := g.fresh()
			g.bound[name] = true
			g.note(name, n)
			g.stats["bare-bind"]++
			return &pnode{kind: "bind", name: name}
		}
		return n
	}
	// composite: node or list
	if g.full() {
		return g.descend(n, lvl)
	}
	if r < g.pOr && lvl < 8 {
		return g.wrapOr(n, lvl)
	}
	if r < g.pOr+g.pNot && lvl < 8 {
		// (Not decoy) in place of the sub-pattern: matches because the decoy fails
		d := g.decoy(n, lvl+1)
		g.stats["not"]++
		return &pnode{kind: "not", kids: []*pnode{d}}
	}
	var out *pnode
	if r < g.pOr+g.pNot+g.pBind {
		name := g.fresh()
		// reserved before the sub-pattern is generated: a sub-pattern that defined the
		// same name again would be a malformed pattern ("binding already created")
		g.bound[name] = true
		inner := g.descend(n, lvl)
		g.note(name, n)
		g.stats["bind"]++
		out = &pnode{kind: "bind", name: name, kids: []*pnode{inner}}
		return out
	}
	return g.descend(n, lvl)
}

func (g *gen) descend(n *pnode, lvl int) *pnode {
	c := *n
	c.kids = make([]*pnode, len(n.kids))
	for i, k := range n.kids {
		c.kids[i] = g.decorate(k, lvl+1)
	}
	if n.kind == "list" && len(n.kids) > 0 && n.tail == nil && !g.full() {
		switch g.rng.IntN(5) {
		case 0: // a:b:_   (drop a suffix, open tail)
			cut := g.rng.IntN(len(c.kids) + 1)
			c.kids = c.kids[:cut]
			c.tail = &pnode{kind: "any"}
			g.stats["open-list"]++
		case 1: // a:rest  (tail bound to a name)
			cut := g.rng.IntN(len(c.kids) + 1)
			c.kids = c.kids[:cut]
			name := g.fresh()
			g.bound[name] = true
			g.listNames = append(g.listNames, name)
			c.tail = &pnode{kind: "bind", name: name}
			g.stats["bound-tail"]++
		}
	}
	return &c
}

// decoy builds a pattern for the same subtree that binds names and then fails.
func (g *gen) decoy(n *pnode, lvl int) *pnode {
	saved := map[string]bool{}
	for k := range g.bound {
		saved[k] = true
	}
	g.inDecoy++
	defer func() { g.inDecoy-- }()
	var d *pnode
	cross := false
	switch {
	case n.kind == "node" && g.rng.Float64() < 0.3 && g.nodeBoundName() != "":
		// a decoy WITHOUT a fail atom: it fails only because it recalls a name that is bound
		// to a node at the position of a list that does not consist of exactly one element
		// (the recall succeeds only for a one-element list equal to the node). Where it
		// does succeed legitimately (other candidate nodes), its bindings stay: its names
		// are therefore never taken from, nor given to, the pool of reusable names.
		prev := g.noPool
		g.noPool, g.forceCross, g.crossed = true, true, false
		d = g.descendForce(n, lvl)
		g.noPool, g.forceCross = prev, false
		cross = g.crossed
		if !cross {
			if len(d.kids) == 0 {
				d = &pnode{kind: "str", str: failAtom, fails: true}
			} else {
				d.kids[len(d.kids)-1] = &pnode{kind: "str", str: failAtom, fails: true}
			}
		} else {
			g.stats["decoy-failing-only-by-cross-kind-recall"]++
		}
	case n.kind == "node":
		d = g.descendForce(n, lvl)
		if len(d.kids) == 0 {
			d = &pnode{kind: "str", str: failAtom, fails: true}
		} else {
			d.kids[len(d.kids)-1] = &pnode{kind: "str", str: failAtom, fails: true}
		}
	case n.kind == "list":
		d = g.descendForce(n, lvl)
		d.tail = nil
		d.kids = append(d.kids, &pnode{kind: "str", str: failAtom, fails: true})
	default:
		d = &pnode{kind: "str", str: failAtom, fails: true}
	}
	// names defined in the decoy are unbound again on the success path
	var fresh []string
	for k := range g.bound {
		if !saved[k] {
			fresh = append(fresh, k)
		}
	}
	sort.Strings(fresh) // (map order must not leak into what is generated)
	if !cross {
		g.pool = append(g.pool, fresh...)
	}
	g.bound = saved
	g.stats["decoy"]++
	return d
}

// nodeBoundName returns a name that is bound, on the current path, to a syntax node ("" if none).
func (g *gen) nodeBoundName() string {
	var c []string
	for name := range g.canon {
		if g.bound[name] {
			c = append(c, name)
		}
	}
	if len(c) == 0 {
		return ""
	}
	sort.Strings(c)
	return c[g.rng.IntN(len(c))]
}

// descendForce is descend with a higher binding rate (decoys should bind).
func (g *gen) descendForce(n *pnode, lvl int) *pnode {
	// The first field should bind something if it can. Its name is chosen
	// before the children are generated: in match order it is bound first, so
	// no later sub-pattern may define it again.
	first := ""
	if n.kind == "node" && len(n.kids) > 1 && !g.full() {
		switch n.kids[0].kind {
		case "any", "node", "list", "str":
			first = g.fresh()
			g.bound[first] = true
		}
	}
	sb, so := g.pBind, g.pOr
	g.pBind, g.pOr = 0.6, 0.25
	d := g.descend(n, lvl)
	g.pBind, g.pOr = sb, so
	if first != "" {
		k := d.kids[0]
		switch {
		case k.kind == "any":
			d.kids[0] = &pnode{kind: "bind", name: first}
		case k.kind == "bind" && len(k.kids) == 0:
			// already a bare binding/recall: keep it (wrapping is impossible)
		default:
			d.kids[0] = &pnode{kind: "bind", name: first, kids: []*pnode{k}}
		}
	}
	return d
}

func (g *gen) wrapOr(n *pnode, lvl int) *pnode {
	or := &pnode{kind: "or"}
	nd := 1 + g.rng.IntN(2)
	for i := 0; i < nd; i++ {
		or.kids = append(or.kids, g.decoy(n, lvl+1))
	}
	real := g.decorateNoWrap(n, lvl+1)
	or.kids = append(or.kids, real)
	if g.rng.IntN(3) == 0 {
		// an alternative after the successful one is never tried
		saved := map[string]bool{}
		for k := range g.bound {
			saved[k] = true
		}
		// (on the node the pattern was made from; on other nodes it may well be tried,
		// so the names it defines must be used nowhere else in the pattern)
		prev := g.noPool
		g.noPool = true
		or.kids = append(or.kids, g.descend(n, lvl+1))
		g.noPool = prev
		g.bound = saved
	}
	g.stats["or"]++
	return or
}

func (g *gen) decorateNoWrap(n *pnode, lvl int) *pnode {
	if g.rng.Float64() < 0.4 && !g.full() {
		name := g.fresh()
		g.bound[name] = true // reserved, see decorate
		inner := g.descend(n, lvl)
		return &pnode{kind: "bind", name: name, kids: []*pnode{inner}}
	}
	return g.descend(n, lvl)
}

// spelling: 0 = shorthand (x@(...), x), 1 = explicit (Binding "x" ...), 2 = mixed by hash
func (n *pnode) text(sp int, rng *rand.Rand) string {
	var b strings.Builder
	if n.kind == "bind" && len(n.kids) == 1 {
		// the root of a pattern must be a parenthesised node, so a root binding
		// can only be spelled explicitly
		b.WriteString(`(Binding "` + n.name + `" `)
		n.kids[0].write(&b, sp, rng)
		b.WriteString(")")
		return b.String()
	}
	n.write(&b, sp, rng)
	return b.String()
}

func quote(s string) string {
	return `"` + strings.NewReplacer(`\`, `\\`, `"`, `\"`).Replace(s) + `"`
}

func (n *pnode) write(b *strings.Builder, sp int, rng *rand.Rand) {
	switch n.kind {
	case "str":
		b.WriteString(quote(n.str))
	case "nil":
		b.WriteString("nil")
	case "any":
		b.WriteString("_")
	case "node":
		b.WriteString("(" + n.typ)
		for _, k := range n.kids {
			b.WriteString(" ")
			k.write(b, sp, rng)
		}
		b.WriteString(")")
	case "or":
		b.WriteString("(Or")
		for _, k := range n.kids {
			b.WriteString(" ")
			k.write(b, sp, rng)
		}
		b.WriteString(")")
	case "not":
		b.WriteString("(Not ")
		n.kids[0].write(b, sp, rng)
		b.WriteString(")")
	case "list":
		if n.tail == nil {
			b.WriteString("[")
			for i, k := range n.kids {
				if i > 0 {
					b.WriteString(" ")
				}
				k.write(b, sp, rng)
			}
			b.WriteString("]")
		} else {
			// (List h (List h2 tail)) — the colon form is only usable after
			// nodes/bindings/_; the explicit List form is always valid.
			for _, k := range n.kids {
				b.WriteString("(List ")
				k.write(b, sp, rng)
				b.WriteString(" ")
			}
			n.tail.write(b, sp, rng)
			b.WriteString(strings.Repeat(")", len(n.kids)))
		}
	case "bind":
		explicit := sp == 1 || (sp == 2 && rng.IntN(2) == 0)
		atom := len(n.kids) == 1 && (n.kids[0].kind == "str" || n.kids[0].kind == "list" || n.kids[0].kind == "any" || n.kids[0].kind == "nil" || n.kids[0].kind == "bind")
		if len(n.kids) == 0 {
			if explicit {
				b.WriteString(`(Binding "` + n.name + `" nil)`)
			} else {
				b.WriteString(n.name)
			}
			return
		}
		if explicit || atom {
			b.WriteString(`(Binding "` + n.name + `" `)
			n.kids[0].write(b, sp, rng)
			b.WriteString(")")
		} else {
			b.WriteString(n.name + "@")
			n.kids[0].write(b, sp, rng)
		}
	}
}

func (g *gen) note(name string, n *pnode) {
	delete(g.canon, name)
	if nd, ok := n.src.(ast.Node); ok {
		g.canon[name] = canonText(nd)
	}
}

// GenerateFor is the exported entry for other checks (C08): a generalised
// pattern for node n, or "" if the node cannot be the root of a pattern.
func GenerateFor(rng *rand.Rand, n ast.Node, depth int) string {
	t := reflect.TypeOf(n).Elem().Name()
	if _, ok := patTypes[t]; !ok || t == "Ellipsis" || t == "IndexListExpr" {
		return ""
	}
	g := newGen(rng)
	pn := g.decorate(g.conv(n, depth), 0)
	if pn.kind == "any" || pn.kind == "str" || pn.kind == "nil" || (pn.kind == "bind" && len(pn.kids) == 0) {
		return ""
	}
	return pn.text(2, rng)
}
