// Package c09: pattern bindings are atomic and consistent (property C09).
package c09

import (
	"bytes"
	"fmt"
	"go/ast"
	"go/printer"
	"go/token"
	"go/types"
	"reflect"
	"sort"
	"strings"

	"golang.org/x/tools/go/packages"
	"honnef.co/go/tools/pattern"
	"verif/refmodel/matcher"
	"verif/vf"
)

var canonFset = token.NewFileSet()
var canonCache = map[ast.Node]string{}

// canonText: printed form with parentheses and white space removed. Two
// subtrees the pattern language regards as equal print identically under it.
func canonText(n ast.Node) string {
	if s, ok := canonCache[n]; ok {
		return s
	}
	rv := reflect.ValueOf(n)
	if rv.Kind() == reflect.Pointer && rv.IsNil() {
		return "<nil>"
	}
	var buf bytes.Buffer
	if err := printer.Fprint(&buf, canonFset, n); err != nil {
		return fmt.Sprintf("<unprintable %p>", n)
	}
	s := strings.Map(func(r rune) rune {
		switch r {
		case '(', ')', ' ', '\t', '\n', ';':
			return -1
		}
		return r
	}, buf.String())
	canonCache[n] = s
	return s
}

type target struct {
	node ast.Node
	info *types.Info
	fset *token.FileSet
}

func loadCorpus(r *vf.Run) (targets []target, byType map[string][]int) {
	pkgs := []string{"strings", "sort", "strconv", "text/template/parse", "go/scanner", "container/list", "bufio"}
	if r.Thorough() {
		pkgs = append(pkgs, "bytes", "fmt", "go/printer", "encoding/json", "net/url", "regexp/syntax", "text/tabwriter", "path/filepath", "math/big")
	}
	cfg := &packages.Config{Mode: packages.NeedName | packages.NeedFiles | packages.NeedSyntax | packages.NeedTypes | packages.NeedTypesInfo | packages.NeedImports | packages.NeedDeps, Tests: false}
	loaded, err := packages.Load(cfg, pkgs...)
	if err != nil {
		r.Inconclusive("packages.Load: %v", err)
		return nil, nil
	}
	byType = map[string][]int{}
	for _, p := range loaded {
		for _, f := range p.Syntax {
			ast.Inspect(f, func(n ast.Node) bool {
				if n == nil {
					return false
				}
				switch n.(type) {
				case *ast.File, *ast.CommentGroup, *ast.Comment:
					return true
				}
				t := reflect.TypeOf(n).Elem().Name()
				if _, ok := patTypes[t]; !ok || t == "Ellipsis" || t == "IndexListExpr" {
					// (Ellipsis/IndexListExpr cannot be the root of a pattern: the parser has no entry-node mapping for them)
					return true
				}
				byType[t] = append(byType[t], len(targets))
				targets = append(targets, target{n, p.TypesInfo, p.Fset})
				return true
			})
		}
	}
	return targets, byType
}

type outcome struct {
	ok    bool
	state map[string]string
	panic string
}

func (o outcome) String() string {
	if o.panic != "" {
		return "panic: " + o.panic
	}
	keys := make([]string, 0, len(o.state))
	for k := range o.state {
		keys = append(keys, k)
	}
	sort.Strings(keys)
	var b strings.Builder
	fmt.Fprintf(&b, "ok=%v {", o.ok)
	for _, k := range keys {
		fmt.Fprintf(&b, "%s=%s ", k, o.state[k])
	}
	b.WriteString("}")
	return b.String()
}

func runReal(pat pattern.Pattern, t target) (o outcome) {
	defer func() {
		if e := recover(); e != nil {
			o = outcome{panic: fmt.Sprint(e)}
		}
	}()
	m := &pattern.Matcher{TypesInfo: t.info}
	ok := m.Match(pat, t.node)
	o.ok = ok
	if ok {
		o.state = matcher.RenderState(m.State)
	}
	return o
}

func runModel(root pattern.Node, t target) (o outcome, mo *matcher.Model, undefined bool) {
	mo = &matcher.Model{TypesInfo: t.info}
	defer func() {
		if e := recover(); e != nil {
			if u, ok := e.(matcher.Undefined); ok {
				o = outcome{panic: u.Why}
				undefined = true
				return
			}
			panic(e)
		}
	}()
	st, ok := mo.Match(root, t.node)
	o.ok = ok
	if ok {
		o.state = matcher.RenderState(st)
	}
	return o, mo, false
}

func sameOutcome(a, b outcome) bool {
	if a.panic != "" || b.panic != "" {
		return false
	}
	return a.ok == b.ok && reflect.DeepEqual(a.state, b.state)
}

func parse(s string) (pattern.Pattern, error) {
	p := &pattern.Parser{AllowTypeInfo: true}
	return p.Parse(s)
}

// classify gives the known-findings key for a disagreement.
func classify(spelling int, real, model outcome, txt string) string {
	if real.panic != "" {
		switch {
		case strings.Contains(real.panic, "binding already created"):
			return fmt.Sprintf("panic-binding-already-created:spelling=%d", spelling)
		case strings.Contains(real.panic, "entries left on the stack"):
			return "panic-stack-imbalance"
		}
		return "panic-other"
	}
	if real.ok != model.ok {
		return fmt.Sprintf("verdict-differs:spelling=%d", spelling)
	}
	extra, missing := false, false
	for k := range real.state {
		if _, ok := model.state[k]; !ok {
			extra = true
		}
	}
	for k := range model.state {
		if _, ok := real.state[k]; !ok {
			missing = true
		}
	}
	has := func(s string) string {
		if strings.Contains(txt, s) {
			return "1"
		}
		return "0"
	}
	return fmt.Sprintf("state-differs:spelling=%d:leaked=%v:lost=%v:or=%s:not=%s", spelling, extra, missing, has("(Or"), has("(Not"))
}

func Run(r *vf.Run) {
	targets, byType := loadCorpus(r)
	if len(targets) == 0 {
		r.Finish(0, 0, 1, "corpus could not be loaded")
	}
	kinds := make([]string, 0, len(byType))
	for k := range byType {
		kinds = append(kinds, k)
	}
	sort.Strings(kinds)
	nPat := r.Pick(30000, 150000)
	perPat := r.Pick(6, 10)
	evals, nontrivial := 0, 0
	okMatches, recallsChecked, undefinedN, realPanicsTypedNil := 0, 0, 0, 0
	genStats := map[string]int{}
	typesSeen := map[string]int{}
	spellDiffer := 0
	for i := 0; i < nPat; i++ {
		rng := r.Rand("pat", i)
		// pick the node kind uniformly first, so leaves (Ident, BasicLit) do not dominate
		kind := kinds[rng.IntN(len(kinds))]
		t := targets[byType[kind][rng.IntN(len(byType[kind]))]]
		g := newGen(rng)
		exact := g.conv(t.node, 2+rng.IntN(4))
		pn := g.decorate(exact, 0)
		if pn.kind == "any" || pn.kind == "str" || pn.kind == "nil" || (pn.kind == "bind" && len(pn.kids) == 0) {
			continue
		}
		for k, v := range g.stats {
			genStats[k] += v
		}
		texts := [3]string{pn.text(0, rng), pn.text(1, rng), pn.text(2, rng)}
		var pats [3]pattern.Pattern
		bad := false
		for s := range texts {
			p, err := parse(texts[s])
			if err != nil {
				r.Violation("generator-produced-unparsable-pattern", err.Error(), map[string]any{"pattern": texts[s]})
				bad = true
				break
			}
			pats[s] = p
		}
		if bad {
			continue
		}
		typesSeen[reflect.TypeOf(t.node).Elem().Name()]++
		// candidates: the source node and other nodes of the same kind
		cands := []target{t}
		same := byType[reflect.TypeOf(t.node).Elem().Name()]
		for k := 0; k < perPat-1 && len(same) > 1; k++ {
			cands = append(cands, targets[same[rng.IntN(len(same))]])
		}
		for ci, c := range cands {
			mo0, model, undef := runModel(pats[0].Root, c)
			if undef {
				undefinedN++
				continue
			}
			evals++
			trivial := true
			if mo0.ok {
				okMatches++
				if model.FailedBinds > 0 {
					trivial = false
				}
				// clause 2: a name that occurs several times binds equal subtrees
				for _, rc := range model.Recalls {
					if !rc.Ok {
						continue
					}
					a, aok := rc.Stored.(ast.Node)
					b, bok := rc.Node.(ast.Node)
					if aok && bok {
						recallsChecked++
						if canonText(a) != canonText(b) {
							r.Violation("recall-unequal-subtrees", "a repeated name matched structurally different subtrees",
								map[string]any{"pattern": texts[0], "name": rc.Name, "first": canonText(a), "second": canonText(b)})
						}
					}
				}
			}
			for s := 0; s < 3; s++ {
				real := runReal(pats[s], c)
				if real.panic != "" && (strings.Contains(real.panic, "reflect") || strings.Contains(real.panic, "unhandled type")) {
					realPanicsTypedNil++
					continue
				}
				if !sameOutcome(real, mo0) {
					if s > 0 {
						spellDiffer++
					}
					pos := c.fset.Position(c.node.Pos())
					var src bytes.Buffer
					printer.Fprint(&src, c.fset, c.node)
					key := classify(s, real, mo0, texts[s])
					r.Violation(key,
						fmt.Sprintf("matcher disagrees with the functional reference: real %s, reference %s", real, mo0),
						map[string]any{"pattern": texts[s], "spelling": []string{"name@(P)", "(Binding \"name\" P)", "mixed"}[s],
							"shorthand_pattern": texts[0], "node_pos": pos.String(), "node_src": trunc(src.String(), 400),
							"real": real.String(), "reference": mo0.String(), "candidate_index": ci})
				}
			}
			if !trivial {
				nontrivial++
				if ci == 0 {
					var src bytes.Buffer
					printer.Fprint(&src, c.fset, c.node)
					r.Sample(map[string]any{"pattern": texts[2], "node": trunc(src.String(), 120), "result": mo0.String(), "failed_branch_bindings": model.FailedBinds}, 5)
				}
			}
		}
	}
	r.Set("patterns", nPat)
	r.Set("successful_matches", okMatches)
	r.Set("recalls_checked_structurally", recallsChecked)
	r.Set("skipped_undefined_by_doc", undefinedN)
	r.Set("skipped_real_panic_on_typed_nil", realPanicsTypedNil)
	r.Set("generator_features", genStats)
	r.Set("root_node_kinds", typesSeen)
	r.Set("corpus_nodes", len(targets))
	r.Assume("the functional reference matcher (harness/refmodel/matcher) is the trusted base; it follows pattern/doc.go and the structural rules of match.go, without any push/pop machinery")
	r.Finish(evals, nontrivial, 200,
		"each case = (generated pattern, syntax node); patterns are generalisations of real subtrees with Or decoys, Not decoys, bindings in both spellings, open/bound list tails and recalls; every case is run through the real matcher in 3 spellings and the reference. non-trivial = match succeeded AND at least one binding was created on a branch that then failed (Or alternative / Not operand), i.e. atomicity was actually exercised")
}

func trunc(s string, n int) string {
	if len(s) > n {
		return s[:n] + "…"
	}
	return s
}
