package irinterp

import (
	"go/token"
	"go/types"
	"unicode/utf8"

	"honnef.co/go/tools/go/ir"
)

func truncate(info intInfo, bits uint64) uint64 {
	if info.size == 64 {
		return bits
	}
	bits &= (1 << info.size) - 1
	if info.signed && bits&(1<<(info.size-1)) != 0 {
		bits |= ^uint64(0) << info.size
	}
	return bits
}

func unop(instr *ir.UnOp, x Value) Value {
	switch instr.Op {
	case token.NOT:
		b, ok := x.(bool)
		if !ok {
			stuck("! of %T", x)
		}
		return !b
	case token.SUB:
		bits, info, ok := intOf(x)
		if !ok {
			unsupported("negation of %T", x)
		}
		return MakeInt(info.kind, -bits)
	case token.XOR:
		bits, info, ok := intOf(x)
		if !ok {
			stuck("^ of %T", x)
		}
		return MakeInt(info.kind, ^bits)
	case token.ADD:
		return x
	}
	unsupported("unary operator %s", instr.Op)
	return nil
}

func binopLess(t types.Type, x, y Value) bool {
	return binop(token.LSS, t, x, y).(bool)
}

// binop implements X op Y; t is the static type of X.
func binop(op token.Token, t types.Type, x, y Value) Value {
	switch op {
	case token.EQL:
		return equals(t, x, y)
	case token.NEQ:
		return !equals(t, x, y)
	}

	if xs, ok := x.(string); ok {
		ys, ok := y.(string)
		if !ok {
			stuck("string %s %T", op, y)
		}
		switch op {
		case token.ADD:
			return xs + ys
		case token.LSS:
			return xs < ys
		case token.LEQ:
			return xs <= ys
		case token.GTR:
			return xs > ys
		case token.GEQ:
			return xs >= ys
		}
		stuck("string operator %s", op)
	}

	xb, xi, ok := intOf(x)
	if !ok {
		if _, isBool := x.(bool); isBool {
			stuck("boolean operator %s", op)
		}
		unsupported("operator %s on %T", op, x)
	}
	yb, yi, ok := intOf(y)
	if !ok {
		stuck("%T %s %T", x, op, y)
	}

	switch op {
	case token.SHL, token.SHR:
		if yi.signed && int64(yb) < 0 {
			rtPanic(ClassNegShift, "negative shift amount")
		}
		var r uint64
		if op == token.SHL {
			if yb < 64 {
				r = xb << yb
			}
		} else if xi.signed {
			if yb > 63 {
				yb = 63
			}
			r = uint64(int64(xb) >> yb)
		} else {
			if yb < 64 {
				r = xb >> yb
			}
		}
		return MakeInt(xi.kind, r)
	}

	if xi.kind != yi.kind {
		// Operands of arithmetic and comparison have identical types in
		// well-formed IR, except for untyped constants, which take the
		// other operand's type.
		yb = truncate(xi, yb)
	}

	switch op {
	case token.ADD:
		return MakeInt(xi.kind, xb+yb)
	case token.SUB:
		return MakeInt(xi.kind, xb-yb)
	case token.MUL:
		return MakeInt(xi.kind, xb*yb)
	case token.AND:
		return MakeInt(xi.kind, xb&yb)
	case token.OR:
		return MakeInt(xi.kind, xb|yb)
	case token.XOR:
		return MakeInt(xi.kind, xb^yb)
	case token.AND_NOT:
		return MakeInt(xi.kind, xb&^yb)
	case token.QUO, token.REM:
		if yb == 0 {
			rtPanic(ClassDivide, "integer divide by zero")
		}
		if xi.signed {
			a, b := int64(xb), int64(yb)
			if b == -1 { // avoid the host's overflow trap; x / -1 == -x, x % -1 == 0
				if op == token.QUO {
					return MakeInt(xi.kind, -xb)
				}
				return MakeInt(xi.kind, 0)
			}
			if op == token.QUO {
				return MakeInt(xi.kind, uint64(a/b))
			}
			return MakeInt(xi.kind, uint64(a%b))
		}
		if op == token.QUO {
			return MakeInt(xi.kind, xb/yb)
		}
		return MakeInt(xi.kind, xb%yb)
	case token.LSS, token.LEQ, token.GTR, token.GEQ:
		var c int
		if xi.signed {
			a, b := int64(xb), int64(yb)
			switch {
			case a < b:
				c = -1
			case a > b:
				c = 1
			}
		} else {
			switch {
			case xb < yb:
				c = -1
			case xb > yb:
				c = 1
			}
		}
		switch op {
		case token.LSS:
			return c < 0
		case token.LEQ:
			return c <= 0
		case token.GTR:
			return c > 0
		default:
			return c >= 0
		}
	}
	unsupported("binary operator %s", op)
	return nil
}

func isByteSlice(t types.Type) (elemKind types.BasicKind, ok bool) {
	s, ok := t.Underlying().(*types.Slice)
	if !ok {
		return 0, false
	}
	b, ok := s.Elem().Underlying().(*types.Basic)
	if !ok {
		return 0, false
	}
	switch b.Kind() {
	case types.Uint8, types.Int32:
		return b.Kind(), true
	}
	return 0, false
}

// conv implements Convert (and the cases of MultiConvert that remain after
// instantiation).
func conv(dst, src types.Type, x Value) Value {
	if _, ok := dst.(*types.TypeParam); ok {
		unsupported("conversion to type parameter %s", dst)
	}
	if _, ok := src.(*types.TypeParam); ok {
		unsupported("conversion from type parameter %s", src)
	}
	ud, us := dst.Underlying(), src.Underlying()
	if types.IdenticalIgnoreTags(ud, us) {
		return x
	}
	switch ud := ud.(type) {
	case *types.Basic:
		switch {
		case ud.Info()&types.IsInteger != 0:
			bits, _, ok := intOf(x)
			if !ok {
				unsupported("conversion of %T to %s", x, dst)
			}
			return MakeInt(ud.Kind(), bits)
		case ud.Info()&types.IsString != 0:
			switch x := x.(type) {
			case string:
				return x
			case []Value:
				k, ok := isByteSlice(src)
				if !ok {
					stuck("conversion of %s to string", src)
				}
				if k == types.Uint8 {
					b := make([]byte, len(x))
					for i := range x {
						b[i] = x[i].(uint8)
					}
					return string(b)
				}
				r := make([]rune, len(x))
				for i := range x {
					r[i] = x[i].(int32)
				}
				return string(r)
			}
			if bits, info, ok := intOf(x); ok {
				// integer -> string: the UTF-8 encoding of the code point
				var r rune = utf8.RuneError
				if info.signed {
					if v := int64(bits); v >= 0 && v <= utf8.MaxRune {
						r = rune(v)
					}
				} else if bits <= utf8.MaxRune {
					r = rune(bits)
				}
				return string(r)
			}
		}
	case *types.Slice:
		if s, ok := x.(string); ok {
			k, ok := isByteSlice(dst)
			if !ok {
				stuck("conversion of string to %s", dst)
			}
			if k == types.Uint8 {
				out := make([]Value, len(s))
				for i := 0; i < len(s); i++ {
					out[i] = s[i]
				}
				return out
			}
			out := make([]Value, 0, len(s))
			for _, r := range s {
				out = append(out, r)
			}
			return out
		}
		if _, ok := x.([]Value); ok {
			return x
		}
	case *types.Pointer:
		if _, ok := us.(*types.Slice); ok {
			return sliceToArrayPointer(dst, x)
		}
		if _, ok := x.(*Value); ok {
			if b, ok := us.(*types.Basic); ok && b.Kind() == types.UnsafePointer {
				unsupported("unsafe.Pointer")
			}
			return x
		}
	case *types.Array:
		if _, ok := us.(*types.Slice); ok {
			return sliceToArray(dst, x)
		}
	}
	unsupported("conversion from %s to %s", src, dst)
	return nil
}

func sliceToArrayPointer(dst types.Type, x Value) Value {
	s, ok := x.([]Value)
	if !ok {
		stuck("SliceToArrayPointer of %T", x)
	}
	at, ok := derefType(dst).Underlying().(*types.Array)
	if !ok {
		stuck("SliceToArrayPointer to %s", dst)
	}
	n := at.Len()
	if int64(len(s)) < n {
		rtPanic(ClassSliceToArray, "cannot convert slice with length %d to array or pointer to array with length %d", len(s), n)
	}
	if s == nil {
		return (*Value)(nil)
	}
	c := new(Value)
	*c = Array(s[:n:n]) // aliases the slice's backing store
	return c
}

func sliceToArray(dst types.Type, x Value) Value {
	s, ok := x.([]Value)
	if !ok {
		stuck("SliceToArray of %T", x)
	}
	at, ok := dst.Underlying().(*types.Array)
	if !ok {
		stuck("SliceToArray to %s", dst)
	}
	n := at.Len()
	if int64(len(s)) < n {
		rtPanic(ClassSliceToArray, "cannot convert slice with length %d to array or pointer to array with length %d", len(s), n)
	}
	return copyVal(Array(s[:n]))
}

// sliceOp implements the Slice instruction on a string, slice or *array.
func sliceOp(x, lo, hi, max Value) Value {
	var length, capacity int64
	var elems []Value
	str, isStr := x.(string)
	switch x := x.(type) {
	case string:
		length, capacity = int64(len(x)), int64(len(x))
	case []Value:
		length, capacity = int64(len(x)), int64(cap(x))
		elems = x
	case *Value:
		if x == nil {
			rtPanic(ClassNilDeref, "invalid memory address or nil pointer dereference")
		}
		a, ok := (*x).(Array)
		if !ok {
			stuck("Slice of pointer to %T", *x)
		}
		length, capacity = int64(len(a)), int64(len(a))
		elems = a
	default:
		stuck("Slice of %T", x)
	}
	l, h, m := int64(0), length, capacity
	okL, okH, okM := true, true, true
	if lo != nil {
		l, okL = indexOf(lo)
	}
	if hi != nil {
		h, okH = indexOf(hi)
	}
	if max != nil {
		m, okM = indexOf(max)
	}
	upper := capacity
	if isStr {
		upper = length
	}
	if !okM || m > upper {
		rtPanic(ClassSliceBounds, "slice bounds out of range [::%d] with capacity %d", m, capacity)
	}
	if !okH || h > m {
		rtPanic(ClassSliceBounds, "slice bounds out of range [:%d] with capacity %d", h, m)
	}
	if !okL || l > h {
		rtPanic(ClassSliceBounds, "slice bounds out of range [%d:%d]", l, h)
	}
	if isStr {
		return str[l:h]
	}
	if elems == nil {
		return []Value(nil) // slicing a nil slice ([0:0]) yields nil
	}
	return elems[l:h:m]
}
