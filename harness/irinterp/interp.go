package irinterp

import (
	"fmt"
	"go/types"
	"reflect"
	"runtime"
	"slices"
	"strings"

	"honnef.co/go/tools/go/ir"
)

// Machine holds the state shared by all calls into one built package:
// global variables and counters. A Machine is not safe for concurrent use.
type Machine struct {
	Pkg  *ir.Package
	Prog *ir.Program

	// MaxSteps bounds the number of instructions per Call (deterministic
	// watchdog: generated programs terminate by fuel, so exceeding it
	// means the IR loops where the program does not).
	MaxSteps int64
	MaxDepth int

	// Kinds counts executed instructions by kind (e.g. "Phi", "Load").
	Kinds map[string]int64
	// Executed records the functions that were entered.
	Executed map[*ir.Function]int

	// Unspecified is set (and left for the caller to reset) when an execution
	// reached a state in which the language does not define what the compiled
	// program does, so that its record cannot be compared.
	Unspecified string

	globals map[*ir.Global]*Value
	steps   int64
	depth   int
	kindOf  map[reflect.Type]string
}

// New creates a machine for pkg with zero-initialised globals. Call Init
// to run the package initialiser.
func New(pkg *ir.Package) *Machine {
	m := &Machine{
		Pkg: pkg, Prog: pkg.Prog,
		MaxSteps: 2_000_000, MaxDepth: 1500,
		Kinds: map[string]int64{}, Executed: map[*ir.Function]int{},
		globals: map[*ir.Global]*Value{},
		kindOf:  map[reflect.Type]string{},
	}
	return m
}

// Outcome of one call from the outside.
type Outcome struct {
	Results []Value // nil if the call panicked
	Panic   *Iface  // non-nil: the call panicked with this value
	Err     error   // *Unsupported or *Stuck; Results and Panic are meaningless then
}

// PanicClass returns the normalised class of a panic value: one of the
// Class* constants for run-time errors, "panic(<type>:<value>)" for explicit
// panics, and "panic(error)" for explicit panics with other error values.
func PanicClass(p Iface) string {
	if re, ok := p.V.(RuntimeError); ok {
		return re.Class
	}
	if p.T == nil {
		return "panic(nil)"
	}
	return "panic(" + FormatDynamic(p) + ")"
}

// Init runs the package initialiser ("init").
func (m *Machine) Init() Outcome {
	fn := m.Pkg.Func("init")
	if fn == nil {
		return Outcome{}
	}
	return m.Call(fn, nil)
}

// Global returns the current value and the type of a package-level variable.
func (m *Machine) Global(name string) (Value, types.Type, bool) {
	g, ok := m.Pkg.Members[name].(*ir.Global)
	if !ok {
		return nil, nil, false
	}
	t := g.Type().Underlying().(*types.Pointer).Elem()
	return *m.global(g), t, true
}

func (m *Machine) global(g *ir.Global) *Value {
	if c, ok := m.globals[g]; ok {
		return c
	}
	c := new(Value)
	*c = zero(g.Type().Underlying().(*types.Pointer).Elem())
	m.globals[g] = c
	return c
}

// Call runs fn on args. Every kind of failure is reported in the Outcome.
func (m *Machine) Call(fn *ir.Function, args []Value) (out Outcome) {
	m.steps = 0
	m.depth = 0
	defer func() {
		r := recover()
		if r == nil {
			return
		}
		out = Outcome{}
		switch r := r.(type) {
		case targetPanic:
			v := r.v
			out.Panic = &v
		case *Unsupported:
			out.Err = r
		case *Stuck:
			out.Err = r
		case runtime.Error:
			buf := make([]byte, 4096)
			buf = buf[:runtime.Stack(buf, false)]
			out.Err = &Stuck{fmt.Sprintf("interpreter crash: %v\n%s", r, firstFrames(string(buf)))}
		default:
			out.Err = &Stuck{fmt.Sprintf("interpreter crash: %v", r)}
		}
	}()
	res := m.call(nil, fn, args, false)
	n := fn.Signature.Results().Len()
	switch n {
	case 0:
		out.Results = []Value{}
	case 1:
		out.Results = []Value{res}
	default:
		out.Results = []Value(res.(Tuple))
	}
	return out
}

func firstFrames(s string) string {
	lines := strings.Split(s, "\n")
	var keep []string
	for _, l := range lines {
		if strings.Contains(l, "irinterp") && !strings.Contains(l, "Machine).Call") {
			keep = append(keep, strings.TrimSpace(l))
			if len(keep) >= 6 {
				break
			}
		}
	}
	return strings.Join(keep, " | ")
}

// ---------------------------------------------------------------------------

type deferred struct {
	fn   Value
	args []Value
}

type deferStack struct{ list []deferred }

type frame struct {
	m                *Machine
	caller           *frame
	fn               *ir.Function
	block, prevBlock *ir.BasicBlock
	env              map[ir.Value]Value
	locals           map[*ir.Alloc]*Value
	defers           *deferStack
	result           Value
	panicking        bool
	recovered        bool // a deferred call of this frame stopped a panic (reset by the RunDefers that looks at it)
	panicVal         Iface
	byDefer          bool // this frame is a deferred call run by caller's defer machinery
	phitemps         []Value
}

func (fr *frame) get(key ir.Value) Value {
	switch key := key.(type) {
	case nil:
		return nil
	case *ir.Function, *ir.Builtin:
		return key
	case *ir.Const:
		return constValue(key)
	case *ir.AggregateConst:
		return fr.aggregate(key.Type(), key.Values)
	case *ir.Global:
		return fr.m.global(key)
	}
	if r, ok := fr.env[key]; ok {
		return r
	}
	stuck("%s: no value for %T %s (used before defined on this path)", fr.fn, key, key.Name())
	return nil
}

func (fr *frame) aggregate(t types.Type, vals []ir.Value) Value {
	switch u := t.Underlying().(type) {
	case *types.Struct:
		if len(vals) != u.NumFields() {
			stuck("composite of %s with %d values", t, len(vals))
		}
		s := make(Struct, len(vals))
		for i, v := range vals {
			s[i] = copyVal(fr.get(v))
		}
		return s
	case *types.Array:
		if int64(len(vals)) != u.Len() {
			stuck("composite of %s with %d values", t, len(vals))
		}
		a := make(Array, len(vals))
		for i, v := range vals {
			a[i] = copyVal(fr.get(v))
		}
		return a
	}
	unsupported("composite value of type %s", t)
	return nil
}

func derefType(t types.Type) types.Type {
	if p, ok := t.Underlying().(*types.Pointer); ok {
		return p.Elem()
	}
	stuck("pointer type expected, got %s", t)
	return nil
}

func (m *Machine) kindName(instr ir.Instruction) string {
	t := reflect.TypeOf(instr)
	if s, ok := m.kindOf[t]; ok {
		return s
	}
	s := t.Elem().Name()
	m.kindOf[t] = s
	return s
}

// call interprets a call of a function value.
func (m *Machine) call(caller *frame, fn Value, args []Value, byDefer bool) Value {
	switch fn := fn.(type) {
	case *ir.Function:
		if fn == nil {
			rtPanic(ClassNilFunc, "invalid memory address or nil pointer dereference")
		}
		return m.callIR(caller, fn, args, nil, byDefer)
	case *Closure:
		if fn == nil {
			rtPanic(ClassNilFunc, "invalid memory address or nil pointer dereference")
		}
		return m.callIR(caller, fn.Fn, args, fn.Env, byDefer)
	case *ir.Builtin:
		return m.callBuiltin(caller, fn, args, byDefer)
	case hostFunc:
		return fn(args)
	}
	stuck("cannot call %T", fn)
	return nil
}

func zeroResults(sig *types.Signature) Value {
	switch n := sig.Results().Len(); n {
	case 0:
		return nil
	case 1:
		return zero(sig.Results().At(0).Type())
	default:
		return zero(sig.Results())
	}
}

func (m *Machine) callIR(caller *frame, fn *ir.Function, args []Value, env []Value, byDefer bool) Value {
	if fn.Blocks == nil {
		unsupported("call of external function %s", fn)
	}
	if fn.TypeParams().Len() > 0 && len(fn.TypeArgs()) == 0 {
		unsupported("call of uninstantiated generic function %s", fn)
	}
	m.depth++
	if m.depth > m.MaxDepth {
		stuck("call depth exceeds %d", m.MaxDepth)
	}
	defer func() { m.depth-- }()
	m.Executed[fn]++

	fr := &frame{m: m, caller: caller, fn: fn, byDefer: byDefer}
	fr.env = make(map[ir.Value]Value)
	fr.locals = make(map[*ir.Alloc]*Value, len(fn.Locals))
	fr.defers = &deferStack{}
	fr.block = fn.Blocks[0]
	for _, l := range fn.Locals {
		c := new(Value)
		*c = zero(derefType(l.Type()))
		fr.locals[l] = c
		fr.env[l] = c
	}
	if len(args) != len(fn.Params) {
		stuck("%s: %d arguments for %d parameters", fn, len(args), len(fn.Params))
	}
	for i, p := range fn.Params {
		fr.env[p] = args[i]
	}
	if len(env) != len(fn.FreeVars) {
		stuck("%s: %d bindings for %d free variables", fn, len(env), len(fn.FreeVars))
	}
	for i, fv := range fn.FreeVars {
		fr.env[fv] = env[i]
	}
	for fr.block != nil {
		fr.run()
	}
	return fr.result
}

// run executes instructions from fr.block until a return (fr.block==nil),
// an unrecovered panic (run panics), or a recovered panic (fr.block is the
// Recover block, or nil with zero results when there is none).
func (fr *frame) run() {
	defer func() {
		if fr.block == nil {
			return // normal return
		}
		r := recover()
		tp, ok := r.(targetPanic)
		if !ok {
			panic(r) // interpreter-level condition: propagate unchanged
		}
		fr.panicking = true
		fr.panicVal = tp.v
		raisedIn := fr.block
		fr.runDefers()
		// recovered
		if raisedIn != nil && len(raisedIn.Instrs) > 0 {
			if _, ret := raisedIn.Instrs[len(raisedIn.Instrs)-1].(*ir.Return); ret {
				if rs := fr.fn.Signature.Results(); rs.Len() > 0 && rs.At(0).Name() == "" {
					// The panic was raised while a block that ends in a return was executing, i.e.
					// (also) while the operands of a return statement were evaluated. What the
					// unnamed results of the compiled program hold then is not defined by the
					// language (gc writes array and struct results in place, element by element).
					fr.m.Unspecified = "recovered panic while the operands of a return statement with unnamed results were evaluated"
				}
			}
		}
		fr.prevBlock = nil
		fr.block = fr.fn.Recover
		if fr.block == nil {
			fr.result = zeroResults(fr.fn.Signature)
		}
	}()
	for {
		instrs := fr.block.Instrs
		i := fr.executePhis()
		for ; i < len(instrs); i++ {
			switch fr.visit(instrs[i]) {
			case kReturn:
				return
			case kJump:
				goto nextBlock
			}
		}
		stuck("%s: block %d falls off its end", fr.fn, fr.block.Index)
	nextBlock:
	}
}

func (fr *frame) executePhis() int {
	instrs := fr.block.Instrs
	n := 0
	for n < len(instrs) {
		if _, ok := instrs[n].(*ir.Phi); !ok {
			break
		}
		n++
	}
	if n == 0 {
		return 0
	}
	pred := slices.Index(fr.block.Preds, fr.prevBlock)
	if pred < 0 {
		stuck("%s: block %d entered from a block that is not a predecessor", fr.fn, fr.block.Index)
	}
	fr.phitemps = fr.phitemps[:0]
	for _, instr := range instrs[:n] {
		phi := instr.(*ir.Phi)
		if pred >= len(phi.Edges) {
			stuck("%s: phi %s has no edge for predecessor %d", fr.fn, phi.Name(), pred)
		}
		fr.phitemps = append(fr.phitemps, fr.get(phi.Edges[pred]))
	}
	for i, instr := range instrs[:n] {
		fr.env[instr.(*ir.Phi)] = fr.phitemps[i]
	}
	fr.m.Kinds["Phi"] += int64(n)
	fr.m.steps += int64(n)
	return n
}

// runDefers runs the frame's deferred calls in LIFO order. If the frame is
// still (or newly) panicking afterwards, it panics.
func (fr *frame) runDefers() {
	st := fr.defers
	for len(st.list) > 0 {
		d := st.list[len(st.list)-1]
		st.list = st.list[:len(st.list)-1]
		fr.runDefer(d)
	}
	if fr.panicking {
		panic(targetPanic{fr.panicVal})
	}
}

func (fr *frame) runDefer(d deferred) {
	ok := false
	defer func() {
		if ok {
			return
		}
		r := recover()
		tp, isTarget := r.(targetPanic)
		if !isTarget {
			panic(r)
		}
		// the deferred call started a new panic, which replaces the old one
		fr.panicking = true
		fr.panicVal = tp.v
	}()
	fr.m.call(fr, d.fn, d.args, true)
	ok = true
}

type continuation int

const (
	kNext continuation = iota
	kReturn
	kJump
)

func (fr *frame) jumpTo(succ int) continuation {
	if succ >= len(fr.block.Succs) {
		stuck("%s: block %d has no successor %d", fr.fn, fr.block.Index, succ)
	}
	fr.prevBlock, fr.block = fr.block, fr.block.Succs[succ]
	return kJump
}

func (fr *frame) ptr(v ir.Value) *Value {
	p, ok := fr.get(v).(*Value)
	if !ok {
		stuck("%s: pointer expected for %s, got %T", fr.fn, v.Name(), fr.get(v))
	}
	if p == nil {
		rtPanic(ClassNilDeref, "invalid memory address or nil pointer dereference")
	}
	return p
}

func (fr *frame) visit(instr ir.Instruction) continuation {
	m := fr.m
	m.steps++
	if m.steps > m.MaxSteps {
		stuck("step budget of %d instructions exhausted in %s", m.MaxSteps, fr.fn)
	}
	m.Kinds[m.kindName(instr)]++

	switch instr := instr.(type) {
	case *ir.DebugRef, *ir.BlankStore:
		// pseudo-instructions: no dynamic effect

	case *ir.Alloc:
		t := derefType(instr.Type())
		if instr.Heap {
			c := new(Value)
			*c = zero(t)
			fr.env[instr] = c
		} else {
			c := fr.locals[instr]
			if c == nil {
				c = new(Value)
				*c = zero(t)
				fr.locals[instr] = c
			} else {
				storeInto(c, zero(t))
			}
			fr.env[instr] = c
		}

	case *ir.Load:
		fr.env[instr] = copyVal(*fr.ptr(instr.X))

	case *ir.Store:
		storeInto(fr.ptr(instr.Addr), fr.get(instr.Val))

	case *ir.UnOp:
		fr.env[instr] = unop(instr, fr.get(instr.X))

	case *ir.BinOp:
		fr.env[instr] = binop(instr.Op, instr.X.Type(), fr.get(instr.X), fr.get(instr.Y))

	case *ir.Call:
		fn, args := fr.prepareCall(&instr.Call)
		fr.env[instr] = m.call(fr, fn, args, false)

	case *ir.ChangeInterface:
		fr.env[instr] = fr.get(instr.X)

	case *ir.ChangeType:
		fr.env[instr] = fr.get(instr.X)

	case *ir.Convert:
		fr.env[instr] = conv(instr.Type(), instr.X.Type(), fr.get(instr.X))

	case *ir.MultiConvert:
		fr.env[instr] = conv(instr.Type(), instr.X.Type(), fr.get(instr.X))

	case *ir.SliceToArrayPointer:
		fr.env[instr] = sliceToArrayPointer(instr.Type(), fr.get(instr.X))

	case *ir.SliceToArray:
		fr.env[instr] = sliceToArray(instr.Type(), fr.get(instr.X))

	case *ir.MakeInterface:
		t := instr.X.Type()
		if b, ok := t.(*types.Basic); ok && b.Info()&types.IsUntyped != 0 {
			t = types.Default(t)
		}
		fr.env[instr] = Iface{T: t, V: fr.get(instr.X)}

	case *ir.Extract:
		tu, ok := fr.get(instr.Tuple).(Tuple)
		if !ok || instr.Index >= len(tu) {
			stuck("%s: extract #%d from %T", fr.fn, instr.Index, fr.get(instr.Tuple))
		}
		fr.env[instr] = tu[instr.Index]

	case *ir.Slice:
		fr.env[instr] = sliceOp(fr.get(instr.X), fr.get(instr.Low), fr.get(instr.High), fr.get(instr.Max))

	case *ir.Return:
		nres := fr.fn.Signature.Results().Len()
		switch {
		case len(instr.Results) == 0 && nres > 0:
			fr.result = zeroResults(fr.fn.Signature)
		case len(instr.Results) != nres:
			stuck("%s: return of %d values, signature has %d", fr.fn, len(instr.Results), nres)
		case nres == 0:
			fr.result = nil
		case nres == 1:
			fr.result = fr.get(instr.Results[0])
		default:
			res := make(Tuple, nres)
			for i, r := range instr.Results {
				res[i] = fr.get(r)
			}
			fr.result = res
		}
		fr.block = nil
		return kReturn

	case *ir.RunDefers:
		fr.recovered = false
		fr.runDefers()
		if fr.recovered {
			// A deferred call panicked and a deferred call that ran after it recovered: that is
			// "a recovered panic", after which control resumes at the Recover block (see the
			// documentation of Function.Recover), not behind the rundefers instruction. (x/tools'
			// interpreter falls through here; the two continuations agree exactly when the
			// Recover block reloads what the return statement had stored.)
			fr.recovered = false
			fr.prevBlock = nil
			fr.block = fr.fn.Recover
			if fr.block == nil {
				fr.result = zeroResults(fr.fn.Signature)
				return kReturn
			}
			return kJump
		}

	case *ir.Panic:
		v, ok := fr.get(instr.X).(Iface)
		if !ok {
			stuck("%s: panic operand is %T, not an interface", fr.fn, fr.get(instr.X))
		}
		panic(targetPanic{v})

	case *ir.Unreachable:
		stuck("%s: Unreachable instruction reached in block %d", fr.fn, fr.block.Index)

	case *ir.If:
		c, ok := fr.get(instr.Cond).(bool)
		if !ok {
			stuck("%s: If condition is %T", fr.fn, fr.get(instr.Cond))
		}
		if c {
			return fr.jumpTo(0)
		}
		return fr.jumpTo(1)

	case *ir.Jump:
		return fr.jumpTo(0)

	case *ir.ConstantSwitch:
		tag := fr.get(instr.Tag)
		dflt := -1
		for i, c := range instr.Conds {
			if c == nil {
				if dflt < 0 {
					dflt = i
				}
				continue
			}
			if equals(instr.Tag.Type(), tag, convForCompare(tag, fr.get(c))) {
				return fr.jumpTo(i)
			}
		}
		if dflt < 0 {
			stuck("%s: ConstantSwitch in block %d: tag %v matches no case and there is no default", fr.fn, fr.block.Index, tag)
		}
		return fr.jumpTo(dflt)

	case *ir.TypeSwitch:
		fr.env[instr] = fr.typeSwitch(instr)

	case *ir.Defer:
		fn, args := fr.prepareCall(&instr.Call)
		st := fr.defers
		if instr.DeferStack != nil {
			ds, ok := fr.get(instr.DeferStack).(*deferStack)
			if !ok || ds == nil {
				stuck("%s: Defer.DeferStack is %T", fr.fn, fr.get(instr.DeferStack))
			}
			st = ds
		}
		st.list = append(st.list, deferred{fn, args})

	case *ir.MakeSlice:
		n, okn := indexOf(fr.get(instr.Len))
		c, okc := indexOf(fr.get(instr.Cap))
		if !okn || n > 1<<40 {
			rtPanic(ClassMakeSlice, "makeslice: len out of range")
		}
		if !okc || c > 1<<40 || n > c {
			rtPanic(ClassMakeSlice, "makeslice: cap out of range")
		}
		if c > 1<<20 {
			unsupported("make of a slice with %d elements", c)
		}
		et := instr.Type().Underlying().(*types.Slice).Elem()
		s := make([]Value, c)
		for i := range s {
			s[i] = zero(et)
		}
		fr.env[instr] = s[:n]

	case *ir.MakeMap:
		if instr.Reserve != nil {
			if n, ok := indexOf(fr.get(instr.Reserve)); !ok || n > 1<<40 {
				rtPanic(ClassMakeSlice, "makemap: size out of range")
			}
		}
		fr.env[instr] = &Map{m: map[Value]Value{}}

	case *ir.MakeClosure:
		b := make([]Value, len(instr.Bindings))
		for i, v := range instr.Bindings {
			b[i] = fr.get(v)
		}
		fr.env[instr] = &Closure{instr.Fn.(*ir.Function), b}

	case *ir.Range:
		switch x := fr.get(instr.X).(type) {
		case string:
			fr.env[instr] = &iter{isS: true, str: x}
		case *Map:
			it := &iter{m: x}
			if x != nil {
				it.keys = x.sortedKeys()
			}
			fr.env[instr] = it
		default:
			stuck("%s: range over %T", fr.fn, x)
		}

	case *ir.Next:
		it, ok := fr.get(instr.Iter).(*iter)
		if !ok || it.isS != instr.IsString {
			stuck("%s: next on %T", fr.fn, fr.get(instr.Iter))
		}
		fr.env[instr] = it.next(true, true)

	case *ir.FieldAddr:
		s, ok := (*fr.ptr(instr.X)).(Struct)
		if !ok || instr.Field >= len(s) {
			stuck("%s: FieldAddr #%d of %T", fr.fn, instr.Field, *fr.ptr(instr.X))
		}
		fr.env[instr] = &s[instr.Field]

	case *ir.Field:
		s, ok := fr.get(instr.X).(Struct)
		if !ok || instr.Field >= len(s) {
			stuck("%s: Field #%d of %T", fr.fn, instr.Field, fr.get(instr.X))
		}
		fr.env[instr] = s[instr.Field]

	case *ir.IndexAddr:
		x := fr.get(instr.X)
		idx, inRange := indexOf(fr.get(instr.Index))
		var elems []Value
		switch x := x.(type) {
		case []Value:
			elems = x
		case *Value:
			if x == nil {
				rtPanic(ClassNilDeref, "invalid memory address or nil pointer dereference")
			}
			a, ok := (*x).(Array)
			if !ok {
				stuck("%s: IndexAddr of pointer to %T", fr.fn, *x)
			}
			elems = a
		default:
			stuck("%s: IndexAddr of %T", fr.fn, x)
		}
		if !inRange || idx >= int64(len(elems)) {
			rtPanic(ClassIndex, "index out of range [%d] with length %d", idx, len(elems))
		}
		fr.env[instr] = &elems[idx]

	case *ir.Index:
		x := fr.get(instr.X)
		idx, inRange := indexOf(fr.get(instr.Index))
		switch x := x.(type) {
		case Array:
			if !inRange || idx >= int64(len(x)) {
				rtPanic(ClassIndex, "index out of range [%d] with length %d", idx, len(x))
			}
			fr.env[instr] = x[idx]
		case string:
			if !inRange || idx >= int64(len(x)) {
				rtPanic(ClassIndex, "index out of range [%d] with length %d", idx, len(x))
			}
			fr.env[instr] = x[idx]
		default:
			stuck("%s: Index of %T", fr.fn, x)
		}

	case *ir.StringLookup:
		s, ok := fr.get(instr.X).(string)
		if !ok {
			stuck("%s: StringLookup of %T", fr.fn, fr.get(instr.X))
		}
		idx, inRange := indexOf(fr.get(instr.Index))
		if !inRange || idx >= int64(len(s)) {
			rtPanic(ClassIndex, "index out of range [%d] with length %d", idx, len(s))
		}
		fr.env[instr] = s[idx]

	case *ir.MapLookup:
		mp, ok := fr.get(instr.X).(*Map)
		if !ok {
			stuck("%s: MapLookup of %T", fr.fn, fr.get(instr.X))
		}
		var v Value
		found := false
		if mp != nil {
			v, found = mp.m[mapKey(fr.get(instr.Index))]
		}
		if !found {
			v = zero(instr.X.Type().Underlying().(*types.Map).Elem())
		} else {
			v = copyVal(v)
		}
		if instr.CommaOk {
			fr.env[instr] = Tuple{v, found}
		} else {
			fr.env[instr] = v
		}

	case *ir.MapUpdate:
		mp, ok := fr.get(instr.Map).(*Map)
		if !ok {
			stuck("%s: MapUpdate of %T", fr.fn, fr.get(instr.Map))
		}
		k := mapKey(fr.get(instr.Key))
		v := copyVal(fr.get(instr.Value))
		if mp == nil {
			rtPanic(ClassNilMap, "assignment to entry in nil map")
		}
		mp.m[k] = v

	case *ir.TypeAssert:
		fr.env[instr] = typeAssert(instr, fr.get(instr.X))

	case *ir.Phi:
		stuck("%s: phi %s after a non-phi instruction", fr.fn, instr.Name())

	case *ir.CompositeValue:
		fr.env[instr] = fr.aggregate(instr.Type(), instr.Values)

	case *ir.Go:
		unsupported("go statement")
	case *ir.Select:
		unsupported("select")
	case *ir.Send:
		unsupported("channel send")
	case *ir.Recv:
		unsupported("channel receive")
	case *ir.MakeChan:
		unsupported("make(chan)")

	default:
		unsupported("instruction %T", instr)
	}
	return kNext
}

// convForCompare makes an untyped-int constant comparable with a typed tag.
func convForCompare(tag, c Value) Value {
	tb, tinfo, ok := intOf(tag)
	_ = tb
	if !ok {
		return c
	}
	cb, cinfo, ok := intOf(c)
	if !ok || cinfo.kind == tinfo.kind {
		return c
	}
	return MakeInt(tinfo.kind, cb)
}

func (fr *frame) typeSwitch(instr *ir.TypeSwitch) Value {
	x, ok := fr.get(instr.Tag).(Iface)
	if !ok {
		stuck("%s: TypeSwitch tag is %T", fr.fn, fr.get(instr.Tag))
	}
	tt, ok := instr.Type().(*types.Tuple)
	if !ok || tt.Len() != len(instr.Conds)+2 {
		stuck("%s: TypeSwitch with %d cases has type %s", fr.fn, len(instr.Conds), instr.Type())
	}
	res := make(Tuple, tt.Len())
	for i := range res {
		res[i] = undef{}
	}
	index := -1
	for i, c := range instr.Conds {
		if !typeMatches(x, c) {
			continue
		}
		index = i
		if types.IsInterface(tt.At(i+1).Type()) || isUntypedNil(tt.At(i+1).Type()) {
			res[i+1] = x
		} else {
			res[i+1] = x.V
		}
		break
	}
	res[0] = index
	res[len(res)-1] = x
	return res
}

func isUntypedNil(t types.Type) bool {
	b, ok := t.(*types.Basic)
	return ok && b.Kind() == types.UntypedNil
}

// typeMatches reports whether interface value x has type t (t concrete),
// implements t (t interface), or is nil (t untyped nil).
func typeMatches(x Iface, t types.Type) bool {
	if isUntypedNil(t) {
		return x.T == nil
	}
	if x.T == nil {
		return false
	}
	if _, ok := t.(*types.TypeParam); ok {
		unsupported("type test against type parameter %s", t)
	}
	if it, ok := t.Underlying().(*types.Interface); ok {
		return types.Implements(x.T, it)
	}
	return types.Identical(x.T, t)
}

func typeAssert(instr *ir.TypeAssert, xv Value) Value {
	x, ok := xv.(Iface)
	if !ok {
		stuck("TypeAssert operand is %T", xv)
	}
	T := instr.AssertedType
	match := typeMatches(x, T)
	var v Value
	if match {
		if types.IsInterface(T) {
			v = x
		} else {
			v = copyVal(x.V)
		}
	}
	if instr.CommaOk {
		if !match {
			v = zero(T)
		}
		return Tuple{v, match}
	}
	if !match {
		if x.T == nil {
			rtPanic(ClassTypeAssert, "interface conversion: interface is nil, not %s", T)
		}
		rtPanic(ClassTypeAssert, "interface conversion: interface is %s, not %s", x.T, T)
	}
	return v
}

// prepareCall evaluates the callee and arguments of a Call, Defer or Go.
func (fr *frame) prepareCall(call *ir.CallCommon) (fn Value, args []Value) {
	v := fr.get(call.Value)
	if call.Method == nil {
		fn = v
	} else {
		var dyn types.Type
		var recv Value
		if iv, ok := v.(Iface); ok {
			if iv.T == nil {
				rtPanic(ClassNilDeref, "invalid memory address or nil pointer dereference")
			}
			dyn, recv = iv.T, iv.V
		} else {
			// invoke on a value whose static type is an instantiated type parameter
			dyn, recv = call.Value.Type(), v
			if types.IsInterface(dyn) {
				stuck("%s: invoke on %T of interface type %s", fr.fn, v, dyn)
			}
		}
		if dyn == runtimeErrorType {
			fn = runtimeErrorMethod(call.Method.Name())
		} else {
			f := fr.m.Prog.LookupMethod(dyn, call.Method.Pkg(), call.Method.Name())
			if f == nil {
				stuck("%s: method set of dynamic type %s has no %s", fr.fn, dyn, call.Method.Name())
			}
			fn = f
		}
		args = append(args, recv)
	}
	for _, a := range call.Args {
		args = append(args, fr.get(a))
	}
	return fn, args
}

// hostFunc is a function value implemented by the interpreter itself
// (the methods of the synthetic run-time error type).
type hostFunc func(args []Value) Value

func runtimeErrorMethod(name string) hostFunc {
	return func(args []Value) Value {
		re, ok := args[0].(RuntimeError)
		if !ok {
			stuck("runtime error method on %T", args[0])
		}
		if name == "Error" {
			return re.Msg
		}
		return nil
	}
}

func (m *Machine) callBuiltin(caller *frame, fn *ir.Builtin, args []Value, byDefer bool) Value {
	switch fn.Name() {
	case "len":
		switch x := args[0].(type) {
		case string:
			return len(x)
		case []Value:
			return len(x)
		case Array:
			return len(x)
		case *Map:
			if x == nil {
				return 0
			}
			return len(x.m)
		case *Value: // *array
			if x != nil {
				if a, ok := (*x).(Array); ok {
					return len(a)
				}
			}
		}
		stuck("len of %T", args[0])

	case "cap":
		switch x := args[0].(type) {
		case []Value:
			return cap(x)
		case Array:
			return len(x)
		}
		stuck("cap of %T", args[0])

	case "append":
		dst, ok := args[0].([]Value)
		if !ok {
			stuck("append to %T", args[0])
		}
		switch src := args[1].(type) {
		case []Value:
			if len(src) == 0 {
				return dst
			}
			cp := make([]Value, len(src))
			for i := range src {
				cp[i] = copyVal(src[i])
			}
			return append(dst, cp...)
		case string:
			if len(src) == 0 {
				return dst
			}
			for i := 0; i < len(src); i++ {
				dst = append(dst, src[i])
			}
			return dst
		}
		stuck("append of %T", args[1])

	case "copy":
		dst, ok := args[0].([]Value)
		if !ok {
			stuck("copy to %T", args[0])
		}
		switch src := args[1].(type) {
		case []Value:
			n := min(len(dst), len(src))
			tmp := make([]Value, n)
			for i := 0; i < n; i++ {
				tmp[i] = copyVal(src[i])
			}
			for i := 0; i < n; i++ {
				storeInto(&dst[i], tmp[i])
			}
			return n
		case string:
			n := min(len(dst), len(src))
			for i := 0; i < n; i++ {
				dst[i] = src[i]
			}
			return n
		}
		stuck("copy from %T", args[1])

	case "delete":
		mp, ok := args[0].(*Map)
		if !ok {
			stuck("delete from %T", args[0])
		}
		if mp != nil {
			delete(mp.m, mapKey(args[1]))
		}
		return nil

	case "clear":
		switch x := args[0].(type) {
		case *Map:
			if x != nil {
				clear(x.m)
			}
			return nil
		case []Value:
			if len(x) > 0 {
				et := fn.Type().(*types.Signature).Params().At(0).Type().Underlying().(*types.Slice).Elem()
				for i := range x {
					storeInto(&x[i], zero(et))
				}
			}
			return nil
		}
		stuck("clear of %T", args[0])

	case "min", "max":
		best := args[0]
		t := fn.Type().(*types.Signature).Params().At(0).Type()
		for _, a := range args[1:] {
			op := "<"
			_ = op
			var less bool
			if fn.Name() == "min" {
				less = binopLess(t, a, best)
			} else {
				less = binopLess(t, best, a)
			}
			if less {
				best = a
			}
		}
		return best

	case "panic":
		v, ok := args[0].(Iface)
		if !ok {
			stuck("panic operand is %T", args[0])
		}
		panic(targetPanic{v})

	case "recover":
		return doRecover(caller, byDefer)

	case "ssa:deferstack":
		if caller == nil {
			stuck("ssa:deferstack without a frame")
		}
		return caller.defers

	case "ssa:wrapnilchk":
		p, ok := args[0].(*Value)
		if !ok {
			stuck("ssa:wrapnilchk of %T", args[0])
		}
		if p == nil {
			rtPanic(ClassNilDeref, "value method %v.%v called using nil *%v pointer", args[1], args[2], args[1])
		}
		return p

	case "print", "println":
		unsupported("builtin %s", fn.Name())
	}
	unsupported("builtin %s", fn.Name())
	return nil
}

// doRecover implements recover(). caller is the frame that executes the
// recover() call. It stops a panic only if that frame is a deferred call
// that is run directly by the defer machinery of a panicking frame.
func doRecover(caller *frame, builtinIsDeferred bool) Value {
	if builtinIsDeferred || caller == nil {
		return Iface{} // "defer recover()": not called by a deferred function
	}
	if !caller.byDefer || caller.panicking || caller.caller == nil || !caller.caller.panicking {
		return Iface{}
	}
	pf := caller.caller
	pf.recovered = true
	pf.panicking = false
	v := pf.panicVal
	pf.panicVal = Iface{}
	return v
}
