// Package irinterp is a reference interpreter for honnef.co/go/tools/go/ir.
//
// It is the trusted base of check C01: every instruction is executed
// according to its documentation in go/ir/ssa.go (structure ported from
// golang.org/x/tools/go/ssa/interp and adapted to go/ir's instruction set).
// It is deterministic, single-threaded, and supports only the executable
// subset named by property C01; anything else (goroutines, channels, select,
// unsafe, floats, complex, cgo) makes it give up with an *Unsupported error,
// which callers must count as inconclusive, never as a disagreement.
//
// Value model (all values are boxed in `any`):
//
//	bool, string, int, int8..int64, uint, uint8..uint64, uintptr
//	*Value        pointers (to a variable, a struct field or an array element)
//	Struct        []Value, fields by index
//	Array         []Value
//	[]Value       slices (Go slice semantics give aliasing, len and cap)
//	*Map          maps (nil pointer = nil map); deterministic iteration order
//	Iface         interface values {dynamic type, value}; zero = nil interface
//	*ir.Function, *Closure, *ir.Builtin   function values; nil func = (*ir.Function)(nil)
//	Tuple         multi-value results
//	*iter         Range iterators
//	*deferStack   ssa:deferstack()
//	RuntimeError  payload of an Iface whose dynamic type is the synthetic runtime error type
package irinterp

import (
	"fmt"
	"go/constant"
	"go/token"
	"go/types"
	"math/big"
	"sort"
	"strconv"
	"strings"
	"unicode/utf8"

	"honnef.co/go/tools/go/ir"
	"honnef.co/go/tools/go/types/typeutil"
)

type Value = any

type Tuple []Value
type Array []Value
type Struct []Value

type Iface struct {
	T types.Type // dynamic type, nil for the nil interface
	V Value
}

type Closure struct {
	Fn  *ir.Function
	Env []Value
}

// Map is the representation of a Go map with basic (bool, integer, string) keys.
type Map struct {
	m map[Value]Value
}

// undef marks tuple components that the documentation leaves undefined.
type undef struct{}

// Panic classes (the observable the property compares).
const (
	ClassNilDeref     = "nilderef"
	ClassIndex        = "index"
	ClassSliceBounds  = "slicebounds"
	ClassDivide       = "divzero"
	ClassTypeAssert   = "typeassert"
	ClassNilMap       = "nilmap"
	ClassNegShift     = "negshift"
	ClassSliceToArray = "slice2array"
	ClassMakeSlice    = "makeslice"
	ClassUncomparable = "uncomparable"
	ClassNilFunc      = "nilderef" // calling a nil func is a nil dereference in gc
)

// RuntimeError is the value carried by a run-time panic.
type RuntimeError struct {
	Class string
	Msg   string
}

// Unsupported is returned (as Outcome.Err) for programs outside the subset.
type Unsupported struct{ What string }

func (u *Unsupported) Error() string { return "irinterp: unsupported: " + u.What }

// Stuck is returned when the IR cannot be executed as documented (no
// matching ConstantSwitch case and no default, an Unreachable that is
// reached, a value of the wrong shape, step budget exhausted). Unlike
// Unsupported this is an observation about the IR.
type Stuck struct{ What string }

func (s *Stuck) Error() string { return "irinterp: stuck: " + s.What }

func unsupported(format string, a ...any) { panic(&Unsupported{fmt.Sprintf(format, a...)}) }
func stuck(format string, a ...any)       { panic(&Stuck{fmt.Sprintf(format, a...)}) }

// targetPanic is a panic of the interpreted program.
type targetPanic struct{ v Iface }

// The synthetic dynamic type of run-time errors: a named type with an
// Error() string method, so that it is assertable to `error`.
var runtimeErrorType = func() *types.Named {
	pkg := types.NewPackage("runtime", "runtime")
	tn := types.NewTypeName(token.NoPos, pkg, "Error", nil)
	named := types.NewNamed(tn, types.NewStruct(nil, nil), nil)
	recv := types.NewVar(token.NoPos, pkg, "e", named)
	res := types.NewTuple(types.NewVar(token.NoPos, pkg, "", types.Typ[types.String]))
	sig := types.NewSignatureType(recv, nil, nil, nil, res, false)
	named.AddMethod(types.NewFunc(token.NoPos, pkg, "Error", sig))
	// runtime.Error also has RuntimeError()
	sig2 := types.NewSignatureType(types.NewVar(token.NoPos, pkg, "e", named), nil, nil, nil, nil, false)
	named.AddMethod(types.NewFunc(token.NoPos, pkg, "RuntimeError", sig2))
	return named
}()

func rtPanic(class, format string, a ...any) {
	panic(targetPanic{Iface{runtimeErrorType, RuntimeError{class, "runtime error: " + fmt.Sprintf(format, a...)}}})
}

// ---------------------------------------------------------------------------
// integers

type intInfo struct {
	kind   types.BasicKind
	size   uint // bits
	signed bool
}

var intKinds = map[types.BasicKind]intInfo{
	types.Int:     {types.Int, 64, true},
	types.Int8:    {types.Int8, 8, true},
	types.Int16:   {types.Int16, 16, true},
	types.Int32:   {types.Int32, 32, true},
	types.Int64:   {types.Int64, 64, true},
	types.Uint:    {types.Uint, 64, false},
	types.Uint8:   {types.Uint8, 8, false},
	types.Uint16:  {types.Uint16, 16, false},
	types.Uint32:  {types.Uint32, 32, false},
	types.Uint64:  {types.Uint64, 64, false},
	types.Uintptr: {types.Uintptr, 64, false},
}

// intOf returns the sign- or zero-extended 64 bits of an integer value.
func intOf(v Value) (bits uint64, info intInfo, ok bool) {
	switch x := v.(type) {
	case int:
		return uint64(x), intKinds[types.Int], true
	case int8:
		return uint64(int64(x)), intKinds[types.Int8], true
	case int16:
		return uint64(int64(x)), intKinds[types.Int16], true
	case int32:
		return uint64(int64(x)), intKinds[types.Int32], true
	case int64:
		return uint64(x), intKinds[types.Int64], true
	case uint:
		return uint64(x), intKinds[types.Uint], true
	case uint8:
		return uint64(x), intKinds[types.Uint8], true
	case uint16:
		return uint64(x), intKinds[types.Uint16], true
	case uint32:
		return uint64(x), intKinds[types.Uint32], true
	case uint64:
		return x, intKinds[types.Uint64], true
	case uintptr:
		return uint64(x), intKinds[types.Uintptr], true
	}
	return 0, intInfo{}, false
}

// MakeInt builds an integer value of the given kind from (truncated) bits.
func MakeInt(kind types.BasicKind, bits uint64) Value {
	switch kind {
	case types.Int, types.UntypedInt, types.UntypedRune:
		return int(int64(bits))
	case types.Int8:
		return int8(bits)
	case types.Int16:
		return int16(bits)
	case types.Int32:
		return int32(bits)
	case types.Int64:
		return int64(bits)
	case types.Uint:
		return uint(bits)
	case types.Uint8:
		return uint8(bits)
	case types.Uint16:
		return uint16(bits)
	case types.Uint32:
		return uint32(bits)
	case types.Uint64:
		return bits
	case types.Uintptr:
		return uintptr(bits)
	}
	unsupported("integer kind %v", kind)
	return nil
}

func asInt64(v Value) int64 {
	bits, _, ok := intOf(v)
	if !ok {
		stuck("integer expected, got %T", v)
	}
	return int64(bits)
}

// indexOf returns an index operand as (value, negative-or-too-large flag).
func indexOf(v Value) (int64, bool) {
	bits, info, ok := intOf(v)
	if !ok {
		stuck("integer index expected, got %T", v)
	}
	if !info.signed && bits > 1<<62 {
		return 0, false
	}
	if info.signed && int64(bits) < 0 {
		return int64(bits), false
	}
	return int64(bits), true
}

// ---------------------------------------------------------------------------
// zero values, constants, copying

func basicKind(t types.Type) (types.BasicKind, bool) {
	b, ok := t.Underlying().(*types.Basic)
	if !ok {
		return 0, false
	}
	return b.Kind(), true
}

func zero(t types.Type) Value {
	switch u := t.Underlying().(type) {
	case *types.Basic:
		k := u.Kind()
		if _, ok := intKinds[k]; ok {
			return MakeInt(k, 0)
		}
		switch k {
		case types.Bool, types.UntypedBool:
			return false
		case types.String, types.UntypedString:
			return ""
		case types.UntypedInt, types.UntypedRune:
			return int(0)
		case types.UntypedNil:
			return Iface{}
		case types.Invalid:
			return undef{}
		}
		unsupported("zero value of basic type %s", t)
	case *types.Pointer:
		if _, ok := u.Elem().(*typeutil.DeferStack); ok {
			return (*deferStack)(nil)
		}
		return (*Value)(nil)
	case *types.Slice:
		return []Value(nil)
	case *types.Map:
		return (*Map)(nil)
	case *types.Signature:
		return (*ir.Function)(nil)
	case *types.Interface:
		if _, ok := t.(*types.TypeParam); ok {
			unsupported("zero value of type parameter %s", t)
		}
		return Iface{}
	case *types.Struct:
		s := make(Struct, u.NumFields())
		for i := range s {
			s[i] = zero(u.Field(i).Type())
		}
		return s
	case *types.Array:
		if u.Len() > 1<<16 {
			unsupported("array of %d elements", u.Len())
		}
		a := make(Array, u.Len())
		for i := range a {
			a[i] = zero(u.Elem())
		}
		return a
	case *types.Tuple:
		tu := make(Tuple, u.Len())
		for i := range tu {
			tu[i] = zero(u.At(i).Type())
		}
		return tu
	case *types.Chan:
		unsupported("channels")
	}
	unsupported("zero value of %s (%T)", t, t.Underlying())
	return nil
}

func constValue(c *ir.Const) Value {
	if c.Value == nil {
		return zero(c.Type())
	}
	t := c.Type()
	if _, ok := t.(*types.TypeParam); ok {
		unsupported("constant of type parameter type %s", t)
	}
	b, ok := t.Underlying().(*types.Basic)
	if !ok {
		unsupported("constant %s of non-basic type", c)
	}
	switch {
	case b.Info()&types.IsBoolean != 0:
		return constant.BoolVal(c.Value)
	case b.Info()&types.IsString != 0:
		if c.Value.Kind() == constant.String {
			return constant.StringVal(c.Value)
		}
		unsupported("string constant with non-string value %s", c)
	case b.Info()&types.IsInteger != 0:
		iv := constant.ToInt(c.Value)
		if iv.Kind() != constant.Int {
			unsupported("integer constant with value %s", c.Value)
		}
		var bits uint64
		if i, exact := constant.Int64Val(iv); exact {
			bits = uint64(i)
		} else if u, exact := constant.Uint64Val(iv); exact {
			bits = u
		} else {
			// keep the low 64 bits ("we don't truncate the value yet")
			bi, _ := new(big.Int).SetString(iv.ExactString(), 10)
			bits = new(big.Int).And(bi, new(big.Int).SetUint64(^uint64(0))).Uint64()
		}
		return MakeInt(b.Kind(), bits)
	}
	unsupported("constant %s of type %s", c.Value, t)
	return nil
}

// copyVal returns a deep copy of aggregates, so that registers never alias memory.
func copyVal(v Value) Value {
	switch x := v.(type) {
	case Struct:
		n := make(Struct, len(x))
		for i := range x {
			n[i] = copyVal(x[i])
		}
		return n
	case Array:
		n := make(Array, len(x))
		for i := range x {
			n[i] = copyVal(x[i])
		}
		return n
	}
	return v
}

// storeInto stores v into the variable at addr, in place for aggregates so
// that pointers to fields and elements stay valid.
func storeInto(addr *Value, v Value) {
	switch rhs := v.(type) {
	case Struct:
		if lhs, ok := (*addr).(Struct); ok && len(lhs) == len(rhs) {
			tmp := copyVal(rhs).(Struct) // rhs may alias lhs
			for i := range lhs {
				storeInto(&lhs[i], tmp[i])
			}
			return
		}
	case Array:
		if lhs, ok := (*addr).(Array); ok && len(lhs) == len(rhs) {
			tmp := copyVal(rhs).(Array)
			for i := range lhs {
				storeInto(&lhs[i], tmp[i])
			}
			return
		}
	}
	*addr = copyVal(v)
}

// ---------------------------------------------------------------------------
// equality

func isNilFunc(v Value) bool {
	switch f := v.(type) {
	case *ir.Function:
		return f == nil
	case *Closure:
		return f == nil
	case *ir.Builtin:
		return false
	}
	stuck("function value expected, got %T", v)
	return false
}

func comparableType(t types.Type) bool { return types.Comparable(t) }

// equals implements == for values of static type t.
func equals(t types.Type, x, y Value) bool {
	switch x := x.(type) {
	case bool:
		return x == y.(bool)
	case string:
		return x == y.(string)
	case *Value:
		return x == y.(*Value)
	case *Map:
		return x == y.(*Map)
	case []Value:
		return x == nil && y.([]Value) == nil
	case *ir.Function, *Closure, *ir.Builtin:
		return isNilFunc(x) && isNilFunc(y)
	case Struct:
		y := y.(Struct)
		st, _ := t.Underlying().(*types.Struct)
		for i := range x {
			var ft types.Type
			if st != nil {
				if st.Field(i).Name() == "_" {
					continue
				}
				ft = st.Field(i).Type()
			}
			if !equals(ft, x[i], y[i]) {
				return false
			}
		}
		return true
	case Array:
		y := y.(Array)
		var et types.Type
		if at, ok := t.Underlying().(*types.Array); ok {
			et = at.Elem()
		}
		for i := range x {
			if !equals(et, x[i], y[i]) {
				return false
			}
		}
		return true
	case Iface:
		y := y.(Iface)
		if x.T == nil || y.T == nil {
			return x.T == nil && y.T == nil
		}
		if !types.Identical(x.T, y.T) {
			return false
		}
		if !comparableType(x.T) {
			rtPanic(ClassUncomparable, "comparing uncomparable type %s", x.T)
		}
		return equals(x.T, x.V, y.V)
	case RuntimeError:
		return x == y.(RuntimeError)
	case *deferStack:
		return x == y.(*deferStack)
	}
	if xb, _, ok := intOf(x); ok {
		yb, _, ok2 := intOf(y)
		if !ok2 {
			stuck("comparing %T with %T", x, y)
		}
		return xb == yb
	}
	stuck("comparing values of type %T", x)
	return false
}

// ---------------------------------------------------------------------------
// maps

func mapKey(k Value) Value {
	switch k.(type) {
	case bool, string:
		return k
	}
	if _, _, ok := intOf(k); ok {
		return k
	}
	unsupported("map key of kind %T", k)
	return nil
}

func keyLess(a, b Value) bool {
	switch x := a.(type) {
	case bool:
		return !x && b.(bool)
	case string:
		return x < b.(string)
	}
	ab, info, _ := intOf(a)
	bb, _, _ := intOf(b)
	if info.signed {
		return int64(ab) < int64(bb)
	}
	return ab < bb
}

func (m *Map) sortedKeys() []Value {
	keys := make([]Value, 0, len(m.m))
	for k := range m.m {
		keys = append(keys, k)
	}
	sort.Slice(keys, func(i, j int) bool { return keyLess(keys[i], keys[j]) })
	return keys
}

// ---------------------------------------------------------------------------
// iterators

type iter struct {
	// string
	str string
	pos int
	// map
	m    *Map
	keys []Value
	isS  bool
}

func (it *iter) next(wantK, wantV bool) Tuple {
	if it.isS {
		if it.pos >= len(it.str) {
			return Tuple{false, undef{}, undef{}}
		}
		i := it.pos
		r, w := utf8.DecodeRuneInString(it.str[i:])
		it.pos += w
		return Tuple{true, i, r}
	}
	for it.pos < len(it.keys) {
		k := it.keys[it.pos]
		it.pos++
		if v, ok := it.m.m[k]; ok { // entries deleted during iteration are skipped
			return Tuple{true, k, copyVal(v)}
		}
	}
	return Tuple{false, undef{}, undef{}}
}

// ---------------------------------------------------------------------------
// formatting (the stable text format shared with generated drivers)

// Format renders v (of static type t) the way the generated driver prints
// it: integers and booleans with %v, strings with %q, slices and arrays as
// [a b c], nil pointers as nil, other pointers as &elem, structs as {a b}.
func Format(v Value, t types.Type) string {
	switch x := v.(type) {
	case bool:
		return strconv.FormatBool(x)
	case string:
		return strconv.Quote(x)
	case []Value:
		var et types.Type
		if st, ok := t.Underlying().(*types.Slice); ok {
			et = st.Elem()
		}
		return formatList([]Value(x), et)
	case Array:
		var et types.Type
		if at, ok := t.Underlying().(*types.Array); ok {
			et = at.Elem()
		}
		return formatList([]Value(x), et)
	case Struct:
		st, _ := t.Underlying().(*types.Struct)
		parts := make([]string, len(x))
		for i := range x {
			var ft types.Type
			if st != nil {
				ft = st.Field(i).Type()
			}
			parts[i] = Format(x[i], ft)
		}
		return "{" + strings.Join(parts, " ") + "}"
	case *Value:
		if x == nil {
			return "nil"
		}
		var et types.Type
		if pt, ok := t.Underlying().(*types.Pointer); ok {
			et = pt.Elem()
		}
		return "&" + Format(*x, et)
	case Iface:
		if x.T == nil {
			return "<nil>"
		}
		return FormatDynamic(x)
	}
	if bits, info, ok := intOf(v); ok {
		if info.signed {
			return strconv.FormatInt(int64(bits), 10)
		}
		return strconv.FormatUint(bits, 10)
	}
	return fmt.Sprintf("?%T", v)
}

func formatList(xs []Value, et types.Type) string {
	parts := make([]string, len(xs))
	for i := range xs {
		if et == nil {
			et = types.Typ[types.Invalid]
		}
		parts[i] = Format(xs[i], et)
	}
	return "[" + strings.Join(parts, " ") + "]"
}

// TypeString renders a type the way fmt's %T does for the types the
// generator uses (package-qualified by package name).
func TypeString(t types.Type) string {
	return types.TypeString(t, func(p *types.Package) string { return p.Name() })
}

// FormatDynamic renders a non-nil interface value as "<type>:<value>".
func FormatDynamic(x Iface) string {
	if re, ok := x.V.(RuntimeError); ok {
		return "runtime:" + re.Class
	}
	return TypeString(x.T) + ":" + Format(x.V, x.T)
}
