// Package c11: check selection, config inheritance, exit status and formats agree.
package c11

import (
	"encoding/json"
	"fmt"
	"math/rand/v2"
	"net/url"
	"os"
	"path/filepath"
	"regexp"
	"sort"
	"strconv"
	"strings"
	"sync"
	"unicode"

	"honnef.co/go/tools/analysis/lint"
	"honnef.co/go/tools/simple"
	"honnef.co/go/tools/staticcheck"
	"honnef.co/go/tools/stylecheck"
	"honnef.co/go/tools/unused"
	"verif/lintrun"
	"verif/vf"
)

// ---- workspace: three nested directories, each a package with problems of several categories

func pkgSource(name string, variant int) string {
	var b strings.Builder
	// no package comment: ST1000 (a non-default check)
	fmt.Fprintf(&b, "package %s\n\nimport \"errors\"\n\n", name)
	if variant&8 == 0 {
		fmt.Fprintf(&b, "func %sBool(x bool) int {\n\tif x == true {\n\t\treturn 1\n\t}\n\treturn 0\n}\n\n", strings.Title(name))                                               // S1002; ST1020-ish: exported without comment
		fmt.Fprintf(&b, "// %sSame compares.\nfunc %sSame(x int) bool {\n\tif x == x {\n\t\treturn true\n\t}\n\treturn false\n}\n\n", strings.Title(name), strings.Title(name)) // SA4000, S1008
		fmt.Fprintf(&b, "// %sErr returns an error.\nfunc %sErr() error { return errors.New(\"Bad thing.\") }\n\n", strings.Title(name), strings.Title(name))                   // ST1005
		fmt.Fprintf(&b, "// %s_id has an underscore and a bad initialism.\nfunc %s_id() int { return 1 }\n\n", strings.Title(name), strings.Title(name))                        // ST1003
		fmt.Fprintf(&b, "func unused%s() {}\n\n", strings.Title(name))                                                                                                          // U1000
	} else {
		// minimal variant: nothing but what the other bits add (and ST1000)
		fmt.Fprintf(&b, "// %sKeep keeps the import used.\nvar %sKeep = errors.New(\"x\")\n\n", strings.Title(name), strings.Title(name))
	}
	if variant&1 != 0 {
		// an ignored problem whose check (S1005) occurs nowhere else unless variant&4
		fmt.Fprintf(&b, "// %sIgn has an ignored problem.\nfunc %sIgn(xs []int) int {\n\tn := 0\n\t//lint:ignore S1005 on purpose\n\tfor i, _ := range xs {\n\t\tn += i\n\t}\n\treturn n\n}\n\n", strings.Title(name), strings.Title(name))
	}
	if variant&2 != 0 {
		// a directive that matches nothing: reported (category staticcheck) iff SA1000 is selected
		fmt.Fprintf(&b, "// %sDir has a useless directive.\nfunc %sDir() int {\n\t//lint:ignore SA1000 nothing here\n\treturn 2\n}\n\n", strings.Title(name), strings.Title(name))
	}
	if variant&4 != 0 {
		fmt.Fprintf(&b, "// %sLoop has S1005.\nfunc %sLoop(xs []int) int {\n\tn := 0\n\tfor i, _ := range xs {\n\t\tn += i\n\t}\n\treturn n\n}\n\n", strings.Title(name), strings.Title(name))
	}
	return b.String()
}

// root ⊃ mid ⊃ leaf, and "side" is a sibling of mid (its configuration chain is root, side)
var dirs = []string{"", "mid", "mid/leaf", "side"}
var pkgNames = []string{"r", "m", "l", "s"}

// chain lists the directory levels whose staticcheck.conf apply to a level, outermost first.
var chain = [][]int{{0}, {0, 1}, {0, 1, 2}, {0, 3}}

// ---- reference model of the check algebra (from the documentation / property text)

type model struct {
	all        []string // lower-cased analyzer names
	nonDefault map[string]bool
}

func newModel() *model {
	m := &model{nonDefault: map[string]bool{}}
	var as []*lint.Analyzer
	as = append(as, simple.Analyzers...)
	as = append(as, staticcheck.Analyzers...)
	as = append(as, stylecheck.Analyzers...)
	as = append(as, unused.Analyzer)
	for _, a := range as {
		n := strings.ToLower(a.Analyzer.Name)
		m.all = append(m.all, n)
		if a.Doc.NonDefault {
			m.nonDefault[n] = true
		}
	}
	sort.Strings(m.all)
	return m
}

func splice(parent, list []string) []string {
	var out []string
	for _, e := range list {
		if e == "inherit" {
			out = append(out, parent...)
		} else {
			out = append(out, e)
		}
	}
	return out
}

// resolve computes the final list for a package in directory level lvl.
func (m *model) resolve(confs [4][]string, has [4]bool, lvl int, flag []string) []string {
	cur := []string{"all"}
	var nd []string
	for n := range m.nonDefault {
		nd = append(nd, "-"+n)
	}
	sort.Strings(nd)
	cur = append(cur, nd...)
	for _, l := range chain[lvl] {
		if has[l] {
			cur = splice(cur, confs[l])
		}
	}
	return splice(cur, flag)
}

func category(name string) string {
	i := strings.IndexFunc(name, unicode.IsNumber)
	if i < 0 {
		return name
	}
	return name[:i]
}

// selected evaluates a list left to right.
func (m *model) selected(list []string) map[string]bool {
	on := map[string]bool{}
	for _, e := range list {
		e = strings.ToLower(e)
		v := true
		if len(e) > 1 && e[0] == '-' {
			v = false
			e = e[1:]
		}
		switch {
		case e == "*" || e == "all":
			for _, a := range m.all {
				on[a] = v
			}
		case strings.HasSuffix(e, "*"):
			prefix := e[:len(e)-1]
			isCat := strings.IndexFunc(prefix, unicode.IsNumber) == -1
			for _, a := range m.all {
				if isCat {
					if category(a) == prefix {
						on[a] = v
					}
				} else if strings.HasPrefix(a, prefix) {
					on[a] = v
				}
			}
		default:
			on[e] = v
		}
	}
	return on
}

// ---- output parsers: every format is reduced to the same set of problem keys

type prob struct {
	file      string // relative to the workspace root, slash separated
	line, col int
	code, msg string
	ignored   bool
}

func (p prob) key() string {
	return fmt.Sprintf("%s:%d:%d %s %s", p.file, p.line, p.col, p.code, p.msg)
}

func rel(root, f string) string {
	if filepath.IsAbs(f) {
		if r, err := filepath.Rel(root, f); err == nil {
			return filepath.ToSlash(r)
		}
	}
	return filepath.ToSlash(f)
}

var textRe = regexp.MustCompile(`^(.+?):(\d+):(\d+): (.*) \(([A-Za-z0-9]+)\)$`)
var stylishRe = regexp.MustCompile(`^  \((\d+), (\d+)\)\s+(\S+)\s+(.*)$`)

func parseText(root string, out []byte) ([]prob, error) {
	var ps []prob
	for _, l := range strings.Split(strings.TrimRight(string(out), "\n"), "\n") {
		if l == "" || strings.HasPrefix(l, "\t") {
			continue
		}
		m := textRe.FindStringSubmatch(l)
		if m == nil {
			return nil, fmt.Errorf("unparsable text line %q", l)
		}
		ln, _ := strconv.Atoi(m[2])
		co, _ := strconv.Atoi(m[3])
		ps = append(ps, prob{file: rel(root, m[1]), line: ln, col: co, msg: m[4], code: m[5]})
	}
	return ps, nil
}

func parseStylish(root string, out []byte) ([]prob, error) {
	var ps []prob
	file := ""
	for _, l := range strings.Split(string(out), "\n") {
		switch {
		case l == "" || strings.HasPrefix(l, " ✖"):
		case strings.HasPrefix(l, "    "):
			// related information
		case strings.HasPrefix(l, "  ("):
			m := stylishRe.FindStringSubmatch(l)
			if m == nil {
				return nil, fmt.Errorf("unparsable stylish line %q", l)
			}
			ln, _ := strconv.Atoi(m[1])
			co, _ := strconv.Atoi(m[2])
			ps = append(ps, prob{file: rel(root, file), line: ln, col: co, code: m[3], msg: m[4]})
		default:
			file = l
		}
	}
	return ps, nil
}

func parseJSON(root string, r lintrun.Result) ([]prob, error) {
	jp, err := r.Problems()
	if err != nil {
		return nil, err
	}
	var ps []prob
	for _, p := range jp {
		ps = append(ps, prob{file: rel(root, p.Location.File), line: p.Location.Line, col: p.Location.Column, code: p.Code, msg: p.Message, ignored: p.Severity == "ignored"})
	}
	return ps, nil
}

func parseSarif(root string, out []byte) ([]prob, error) {
	var log struct {
		Runs []struct {
			Results []struct {
				RuleID  string `json:"ruleId"`
				Message struct {
					Text string `json:"text"`
				} `json:"message"`
				Locations []struct {
					PhysicalLocation struct {
						ArtifactLocation struct {
							URI string `json:"uri"`
						} `json:"artifactLocation"`
						Region struct {
							StartLine   int `json:"startLine"`
							StartColumn int `json:"startColumn"`
						} `json:"region"`
					} `json:"physicalLocation"`
				} `json:"locations"`
				Suppressions []struct {
					Kind string `json:"kind"`
				} `json:"suppressions"`
			} `json:"results"`
		} `json:"runs"`
	}
	if err := json.Unmarshal(out, &log); err != nil {
		return nil, err
	}
	var ps []prob
	for _, run := range log.Runs {
		for _, r := range run.Results {
			if len(r.Locations) != 1 {
				return nil, fmt.Errorf("sarif result without exactly one location")
			}
			u := r.Locations[0].PhysicalLocation.ArtifactLocation.URI
			if pu, err := url.Parse(u); err == nil {
				u = pu.Path
			}
			reg := r.Locations[0].PhysicalLocation.Region
			msg := r.Message.Text
			if i := strings.Index(msg, "\n\t["); i >= 0 {
				msg = msg[:i] // related information is appended to the text
			}
			ps = append(ps, prob{file: rel(root, u), line: reg.StartLine, col: reg.StartColumn, code: r.RuleID, msg: msg, ignored: len(r.Suppressions) > 0})
		}
	}
	return ps, nil
}

func keys(ps []prob, withIgnored bool) []string {
	var out []string
	for _, p := range ps {
		if p.ignored && !withIgnored {
			continue
		}
		out = append(out, p.key())
	}
	sort.Strings(out)
	return out
}

// ---- generator of lists

var atoms = []string{"all", "*", "inherit", "S*", "SA*", "ST*", "S1*", "SA4*", "ST10*", "S1002", "-S1002", "sa4000", "-Sa4000", "-ST*", "-all", "U1000", "-U1000", "NOPE9999", "-NOPE*", "ST1000", "-S*", "SA1000", "-SA1000", "S1008", "-st1003", "ST1005", "S10*", "-SA4*", "u1000", "All", "INHERIT", "S1005", "S1005", "-S1005"}

func genList(rng *rand.Rand, allowInherit bool) []string {
	n := rng.IntN(5)
	var l []string
	for i := 0; i < n; i++ {
		a := atoms[rng.IntN(len(atoms))]
		if strings.EqualFold(a, "inherit") && (!allowInherit || a != "inherit") {
			// "inherit" is a keyword matched exactly; a differently-cased one is an unknown check name (inert)
			if !allowInherit {
				continue
			}
		}
		l = append(l, a)
	}
	return l
}

func tomlList(l []string) string {
	q := make([]string, len(l))
	for i, e := range l {
		q[i] = strconv.Quote(e)
	}
	return "checks = [" + strings.Join(q, ", ") + "]\n"
}

type caseT struct {
	confs   [4][]string
	has     [4]bool
	flag    []string // nil = no -checks flag
	fail    []string // nil = no -fail flag
	variant int
	showIgn bool
}

func Run(r *vf.Run) {
	bin := r.BuildBin("staticcheck", "honnef.co/go/tools/cmd/staticcheck", false)
	mo := newModel()
	nCases := r.Pick(100, 600)
	formats := []string{"json", "text", "stylish", "sarif"}

	// universes: per source variant, one run with all checks, ignored shown, no conf files
	type universe struct {
		probs []prob
		root  string
	}
	universes := map[int]*universe{}
	var umu sync.Mutex
	getUniverse := func(variant int) (*universe, error) {
		umu.Lock()
		defer umu.Unlock()
		if u, ok := universes[variant]; ok {
			return u, nil
		}
		root := filepath.Join(r.Scratch(), fmt.Sprintf("universe%d", variant))
		writeWS(root, variant, [4][]string{}, [4]bool{})
		res := lintrun.Cmd{Bin: bin, Dir: root, Env: []string{"STATICCHECK_CACHE=" + filepath.Join(r.Scratch(), "cache")}, Args: []string{"-checks", "all", "-show-ignored", "-f", "json", "./..."}}.Run()
		ps, err := parseJSON(root, res)
		if err != nil || res.Killed || res.Exit > 1 {
			return nil, fmt.Errorf("universe run failed: exit %d %v %s", res.Exit, err, res.Stderr)
		}
		u := &universe{ps, root}
		universes[variant] = u
		return u, nil
	}

	type outcome struct {
		c        caseT
		err      string
		viol     []func()
		nontriv  bool
		selected int
	}
	outs := make([]outcome, nCases)
	var wg sync.WaitGroup
	sem := make(chan struct{}, 8)
	for i := 0; i < nCases; i++ {
		wg.Add(1)
		go func(i int) {
			defer wg.Done()
			sem <- struct{}{}
			defer func() { <-sem }()
			rng := r.Rand("case", i)
			var c caseT
			c.variant = rng.IntN(16)
			if rng.IntN(3) == 0 {
				// favour sources whose only problems are ignored ones / directive errors
				c.variant = []int{9, 9, 11, 13, 8, 10}[rng.IntN(6)]
			}
			for l := 0; l < 4; l++ {
				if rng.IntN(3) != 0 {
					c.has[l] = true
					c.confs[l] = genList(rng, true)
					if rng.IntN(3) == 0 {
						// the common idiom: everything inherited, one or two checks switched off or on
						c.confs[l] = append([]string{"inherit"}, atoms[rng.IntN(len(atoms))])
					}
				}
			}
			if rng.IntN(3) != 0 {
				c.flag = genList(rng, true)
				if len(c.flag) == 0 {
					c.flag = []string{"inherit"}
				}
			}
			if rng.IntN(2) == 0 {
				c.fail = genList(rng, false)
				if len(c.fail) == 0 {
					c.fail = []string{"NOPE9999"} // an empty -fail value cannot be expressed; use an inert name
				}
			}
			c.showIgn = rng.IntN(2) == 0
			o := outcome{c: c}
			u, err := getUniverse(c.variant)
			if err != nil {
				o.err = err.Error()
				outs[i] = o
				return
			}
			root := filepath.Join(r.Scratch(), fmt.Sprintf("case%d", i))
			writeWS(root, c.variant, c.confs, c.has)
			defer os.RemoveAll(root)
			// model: expected problems
			flag := c.flag
			if flag == nil {
				flag = []string{"inherit"}
			}
			expected := map[string]prob{}
			selectedTotal := 0
			for lvl := 0; lvl < 4; lvl++ {
				sel := mo.selected(mo.resolve(c.confs, c.has, lvl, flag))
				for _, v := range sel {
					if v {
						selectedTotal++
					}
				}
				dir := dirs[lvl]
				for _, p := range u.probs {
					if filepath.ToSlash(filepath.Dir(p.file)) != map[bool]string{true: ".", false: dir}[dir == ""] {
						continue
					}
					code := strings.ToLower(p.code)
					switch p.code {
					case "staticcheck":
						// the useless directive names SA1000: reported iff SA1000 is selected
						if !sel["sa1000"] {
							continue
						}
					case "compile", "config":
					default:
						if !sel[code] {
							continue
						}
					}
					expected[p.key()] = p
				}
			}
			o.selected = selectedTotal
			failSel := map[string]bool{}
			if c.fail == nil {
				for _, a := range mo.all {
					failSel[a] = true
				}
			} else {
				failSel = mo.selected(c.fail)
			}
			wantExit := 0
			var wantVisible, wantAll []string
			for k, p := range expected {
				wantAll = append(wantAll, k)
				if !p.ignored {
					wantVisible = append(wantVisible, k)
					code := strings.ToLower(p.code)
					if failSel[code] || code == "staticcheck" || code == "compile" || code == "config" {
						wantExit = 1
					}
				}
			}
			sort.Strings(wantAll)
			sort.Strings(wantVisible)
			want := wantVisible
			if c.showIgn {
				want = wantAll
			}
			o.nontriv = len(wantVisible) > 0 && len(wantVisible) < len(u.probs)
			args0 := []string{}
			if c.flag != nil {
				args0 = append(args0, "-checks", strings.Join(c.flag, ","))
			}
			if c.fail != nil {
				args0 = append(args0, "-fail", strings.Join(c.fail, ","))
			}
			if c.showIgn {
				args0 = append(args0, "-show-ignored")
			}
			desc := func() map[string]any {
				d := map[string]any{"args": args0, "source_variant": c.variant}
				for l := 0; l < 4; l++ {
					if c.has[l] {
						d["conf:"+filepath.Join(dirs[l], "staticcheck.conf")] = tomlList(c.confs[l])
					}
				}
				return d
			}
			for _, f := range formats {
				args := append(append([]string{}, args0...), "-f", f, "./...")
				res := lintrun.Cmd{Bin: bin, Dir: root, Env: []string{"STATICCHECK_CACHE=" + filepath.Join(r.Scratch(), "cache")}, Args: args}.Run()
				if res.Killed {
					o.err = "watchdog"
					break
				}
				var got []prob
				var err error
				switch f {
				case "json":
					got, err = parseJSON(root, res)
				case "text":
					got, err = parseText(root, res.Stdout)
				case "stylish":
					got, err = parseStylish(root, res.Stdout)
				case "sarif":
					got, err = parseSarif(root, res.Stdout)
				}
				f := f
				if err != nil {
					e := err.Error()
					out := string(res.Stdout)
					o.viol = append(o.viol, func() {
						d := desc()
						d["format"], d["stdout"] = f, out
						r.Violation("unparsable-output:"+f, e, d)
					})
					continue
				}
				gk := keys(got, true)
				if !equal(gk, want) {
					missing, extra := diff(want, gk)
					cls := "problems-differ-from-model"
					if f != "json" {
						cls = "format-renders-different-set:" + f
					}
					if c.showIgn {
						cls += ":show-ignored"
					}
					o.viol = append(o.viol, func() {
						d := desc()
						d["format"], d["missing"], d["extra"] = f, missing, extra
						r.Violation(cls, fmt.Sprintf("-f %s: %d expected problems missing, %d unexpected", f, len(missing), len(extra)), d)
					})
				}
				we := wantExit
				if f == "sarif" {
					we = 0
				}
				if res.Exit != we {
					exit := res.Exit
					cls := fmt.Sprintf("exit-status:%s:got=%d:want=%d", f, exit, we)
					if c.showIgn {
						cls += ":show-ignored"
					}
					o.viol = append(o.viol, func() {
						d := desc()
						d["format"], d["visible_problems"] = f, wantVisible
						r.Violation(cls, fmt.Sprintf("-f %s exited %d, expected %d", f, exit, we), d)
					})
				}
			}
			outs[i] = o
		}(i)
	}
	wg.Wait()
	evals, nontriv := 0, 0
	for i, o := range outs {
		if o.err != "" {
			r.Inconclusive("case %d: %s", i, o.err)
			continue
		}
		evals += len(formats)
		if o.nontriv {
			nontriv++
		}
		for _, v := range o.viol {
			v()
		}
		if i < 4 {
			r.Sample(map[string]any{"confs": o.c.confs, "has_conf": o.c.has, "checks_flag": o.c.flag, "fail_flag": o.c.fail, "show_ignored": o.c.showIgn, "variant": o.c.variant}, 4)
		}
	}
	r.Set("configurations", nCases)
	r.Set("formats", formats)
	r.Set("registered_checks", len(mo.all))
	r.Set("non_default_checks", len(mo.nonDefault))
	r.Assume("the universe of problems of a source variant is what one `-checks all -show-ignored` run without configuration files reports; configuration files in this workload only set `checks`")
	r.Finish(evals, nontriv, r.Pick(20, 100),
		"each configuration = tree of staticcheck.conf files at 3 nested directory levels and one sibling directory (absent / empty list / inherit anywhere / globs / negations / unknown names / mixed case) x -checks x -fail x -show-ignored x source variant (ignored problem, useless directive); run in 4 output formats; problems, exit status and cross-format agreement compared with the reference model. evaluations = lint runs compared; non-trivial = configurations whose expected visible problem set is a proper non-empty subset of the universe")
}

func writeWS(root string, variant int, confs [4][]string, has [4]bool) {
	os.MkdirAll(filepath.Join(root, "mid", "leaf"), 0o755)
	os.MkdirAll(filepath.Join(root, "side"), 0o755)
	os.WriteFile(filepath.Join(root, "go.mod"), []byte("module example.com/confws\n\ngo 1.22\n"), 0o644)
	for l, d := range dirs {
		os.WriteFile(filepath.Join(root, d, pkgNames[l]+".go"), []byte(pkgSource(pkgNames[l], variant)), 0o644)
		p := filepath.Join(root, d, "staticcheck.conf")
		if has[l] {
			os.WriteFile(p, []byte(tomlList(confs[l])), 0o644)
		} else {
			os.Remove(p)
		}
	}
}

func equal(a, b []string) bool {
	if len(a) != len(b) {
		return false
	}
	for i := range a {
		if a[i] != b[i] {
			return false
		}
	}
	return true
}

func diff(want, got []string) (missing, extra []string) {
	w, g := map[string]bool{}, map[string]bool{}
	for _, k := range want {
		w[k] = true
	}
	for _, k := range got {
		g[k] = true
	}
	for _, k := range want {
		if !g[k] {
			missing = append(missing, k)
		}
	}
	for _, k := range got {
		if !w[k] {
			extra = append(extra, k)
		}
	}
	return
}
