package c18

import (
	"bytes"
	"crypto/sha256"
	"encoding/json"
	"fmt"
	"go/ast"
	"go/types"
	"os"
	"regexp"
	"runtime"
	"sort"
	"strings"
	"sync"
	"time"

	"honnef.co/go/tools/go/ir"
	"honnef.co/go/tools/go/ir/irutil"
	"verif/corpus"
)

// ChildResult is what one child process observed.
type ChildResult struct {
	Mode      string            `json:"mode"`
	Funcs     map[string]string `json:"funcs"` // identity -> hash of the normalised dump
	DupKeys   []string          `json:"dup_keys"`
	Unbuilt   []string          `json:"unbuilt"`
	Changed   []string          `json:"changed_by_second_build"`
	Error     string            `json:"error,omitempty"`
	Builds    int               `json:"builds"`
	Shared    int               `json:"shared_functions"`
	Disagree  []string          `json:"disagree_between_builds_in_this_child"`
	Instances int               `json:"instances"`
	// Early: shared (or own) functions that were reachable from what a Package.Build or
	// MethodValue call had just returned, had no body at that moment, and got one later
	Early       []string `json:"returned_before_built"`
	ReachChecks int      `json:"reach_checks"`
	ReachFuncs  int      `json:"reach_functions_visited"`
}

// sharedFn reports whether f is built by whichever builder needs it first.
func sharedFn(f *ir.Function) bool {
	// (wrappers, thunks, instances and functions made from type information on demand
	// belong to no package; a package initializer is synthetic but its package's own)
	for f.Parent() != nil {
		f = f.Parent()
	}
	return f.Pkg == nil
}

// reachIncomplete walks what is reachable from roots through functions that must be
// complete once a build of package own (nil: none) has returned — own's functions and
// shared functions — and returns those without a body.
func reachIncomplete(own *ir.Package, roots []*ir.Function) (incomplete []*ir.Function, visited int) {
	seen := map[*ir.Function]bool{}
	work := append([]*ir.Function(nil), roots...)
	for len(work) > 0 {
		f := work[len(work)-1]
		work = work[:len(work)-1]
		if f == nil || seen[f] {
			continue
		}
		seen[f] = true
		if !(sharedFn(f) || (own != nil && f.Pkg == own)) {
			continue // another package's own function: its builder may still be at work
		}
		visited++
		if len(f.Blocks) == 0 {
			incomplete = append(incomplete, f)
			continue
		}
		work = append(work, f.AnonFuncs...)
		var ops []*ir.Value
		for _, b := range f.Blocks {
			for _, in := range b.Instrs {
				ops = in.Operands(ops[:0])
				for _, op := range ops {
					if op == nil || *op == nil {
						continue
					}
					if g, ok := (*op).(*ir.Function); ok {
						work = append(work, g)
					}
				}
			}
		}
	}
	return incomplete, visited
}

func pkgFuncs(p *ir.Package) []*ir.Function {
	var out []*ir.Function
	for _, m := range p.Members {
		if f, ok := m.(*ir.Function); ok {
			out = append(out, f)
		}
	}
	out = append(out, p.Functions...)
	return out
}

var regRe = regexp.MustCompile(`\bt[0-9]+\b`)

// normalise renames registers in order of first appearance ("up to value numbering").
func normalise(s string) string {
	names := map[string]string{}
	return regRe.ReplaceAllStringFunc(s, func(m string) string {
		if n, ok := names[m]; ok {
			return n
		}
		n := fmt.Sprintf("r%d", len(names))
		names[m] = n
		return n
	})
}

// identity names a function across builds. Instances whose type arguments are
// type parameters of *other* generic functions print alike (f[E] for every
// caller's E), so the declaration positions of those parameters are part of
// the identity.
func identity(f *ir.Function) string {
	s := f.String()
	if f.Synthetic != "" {
		s += " {" + f.Synthetic + "}"
	}
	for _, ta := range f.TypeArgs() {
		s += typeParamPositions(ta)
	}
	return s
}

func typeParamPositions(t types.Type) string {
	out := ""
	seen := map[types.Type]bool{}
	var walk func(t types.Type)
	walk = func(t types.Type) {
		if t == nil || seen[t] {
			return
		}
		seen[t] = true
		switch t := t.(type) {
		case *types.TypeParam:
			out += fmt.Sprintf("@%d", t.Obj().Pos())
		case *types.Alias:
			walk(types.Unalias(t))
		case *types.Named:
			for i := 0; i < t.TypeArgs().Len(); i++ {
				walk(t.TypeArgs().At(i))
			}
		case *types.Pointer:
			walk(t.Elem())
		case *types.Slice:
			walk(t.Elem())
		case *types.Array:
			walk(t.Elem())
		case *types.Chan:
			walk(t.Elem())
		case *types.Map:
			walk(t.Key())
			walk(t.Elem())
		case *types.Signature:
			walk(t.Params())
			walk(t.Results())
		case *types.Tuple:
			for i := 0; i < t.Len(); i++ {
				walk(t.At(i).Type())
			}
		case *types.Struct:
			for i := 0; i < t.NumFields(); i++ {
				walk(t.Field(i).Type())
			}
		}
	}
	walk(t)
	return out
}

// perUse reports functions that the builder creates once per use by design
// (bound-method closures and method-expression thunks are private to the
// function that mentions them); the exactly-once clause is about the functions
// handed out by the program's memo tables.
func perUse(f *ir.Function) bool {
	return strings.HasPrefix(f.Synthetic, "bound method wrapper") || strings.HasPrefix(f.Synthetic, "thunk")
}

func dump(prog *ir.Program) (funcs map[string]string, dups, unbuilt []string, shared, instances int) {
	funcs = map[string]string{}
	seen := map[string]*ir.Function{}
	all := irutil.AllFunctions(prog)
	for f := range all {
		id := identity(f)
		if prev, ok := seen[id]; ok && prev != f && !perUse(f) {
			dups = append(dups, id)
		}
		seen[id] = f
		if f.Pkg == nil {
			shared++
		}
		if len(f.TypeArgs()) > 0 {
			instances++
		}
		if len(f.Blocks) == 0 {
			if fd, ok := f.Source().(*ast.FuncDecl); ok && fd.Body != nil && f.Synthetic == "" && f.TypeParams().Len() == 0 {
				unbuilt = append(unbuilt, id)
			}
			if _, ok := f.Source().(*ast.FuncLit); ok {
				unbuilt = append(unbuilt, id)
			}
			continue
		}
		var sb bytes.Buffer
		ir.WriteFunction(&sb, f)
		h := sha256.Sum256([]byte(normalise(sb.String())))
		funcs[id] = fmt.Sprintf("%x", h[:8])
	}
	sort.Strings(dups)
	sort.Strings(unbuilt)
	return
}

// Child runs in a separate (race-instrumented) process: loads the packages in
// dir, builds them `builds` times in the given way, and reports dump hashes.
func Child(dir, mode string, procs, builds int, patterns []string) {
	runtime.GOMAXPROCS(procs)
	res := ChildResult{Mode: mode}
	defer func() {
		if e := recover(); e != nil {
			res.Error = fmt.Sprintf("panic: %v", e)
		}
		json.NewEncoder(os.Stdout).Encode(res)
	}()
	pkgs, err := corpus.Load(dir, false, patterns...)
	if err != nil || len(pkgs) == 0 {
		res.Error = fmt.Sprintf("load: %v (%d packages)", err, len(pkgs))
		return
	}
	var first map[string]string
	for b := 0; b < builds; b++ {
		bm := ir.BuilderMode(0)
		mode, inst := strings.CutSuffix(mode, "+inst")
		if inst {
			bm |= ir.InstantiateGenerics
		}
		if mode == "serial" {
			bm |= ir.BuildSerially
		}
		prog, irpkgs := irutil.Packages(pkgs, bm)
		t0 := time.Now()
		var early []*ir.Function
		var earlyMu sync.Mutex
		check := func(own *ir.Package, roots []*ir.Function) {
			inc, n := reachIncomplete(own, roots)
			if os.Getenv("VERIF_C18_DEBUG") != "" {
				who := "methodvalue"
				if own != nil {
					who = own.Pkg.Path()
				}
				fmt.Fprintf(os.Stderr, "check %s visited=%d incomplete=%d at=%s\n", who, n, len(inc), time.Since(t0).Round(100*time.Microsecond))
			}
			earlyMu.Lock()
			early = append(early, inc...)
			res.ReachChecks++
			res.ReachFuncs += n
			earlyMu.Unlock()
		}
		switch mode {
		case "serial", "parallel":
			prog.Build()
		case "twice":
			prog.Build()
			before, _, _, _, _ := dump(prog)
			prog.Build()
			after, _, _, _, _ := dump(prog)
			for k, v := range before {
				if after[k] != v {
					res.Changed = append(res.Changed, k)
				}
			}
			for k := range after {
				if _, ok := before[k]; !ok {
					res.Changed = append(res.Changed, "+"+k)
				}
			}
		case "concurrent-build":
			var wg sync.WaitGroup
			for g := 0; g < 8; g++ {
				wg.Add(1)
				go func() { defer wg.Done(); prog.Build() }()
			}
			wg.Wait()
		case "per-package-racing-methodvalue":
			var wg sync.WaitGroup
			// the package with the most functions starts first, the others a moment later:
			// builders that finish early then have to wait for a slow one
			order := append([]*ir.Package(nil), irpkgs...)
			sort.SliceStable(order, func(i, j int) bool {
				return order[i] != nil && order[j] != nil && len(order[i].Functions) > len(order[j].Functions)
			})
			for i, p := range order {
				if p == nil {
					continue
				}
				// staging (shapes the schedule only, never a verdict): the slow package gets a
				// head start so that it has created the inner shared functions and is busy
				// with its own when the others arrive; the last third arrives later still,
				// when the first ones are done with their own functions and only wait
				// (the delays grow with the build number: different windows in one child)
				stall := time.Duration(0)
				if i >= 1 {
					stall = time.Duration(2+3*b) * time.Millisecond
				}
				if i >= 1+2*(len(order)-1)/3 {
					stall = time.Duration(5+8*b) * time.Millisecond
				}
				wg.Add(1)
				go func(p *ir.Package) {
					defer wg.Done()
					time.Sleep(stall)
					p.Build()
					// Build has returned: everything p's functions can reach that is p's own
					// or shared must be complete now
					check(p, pkgFuncs(p))
				}(p)
			}
			// meanwhile, ask for methods of every named type of every package
			for g := 0; g < 4; g++ {
				wg.Add(1)
				go func(g int) {
					defer wg.Done()
					time.Sleep(time.Duration(4+6*g) * time.Millisecond)
					for i, p := range irpkgs {
						if p == nil || i%4 != g {
							continue
						}
						for _, m := range p.Members {
							t, ok := m.(*ir.Type)
							if !ok {
								continue
							}
							for _, T := range typesOf(t) {
								ms := prog.MethodSets.MethodSet(T)
								for k := 0; k < ms.Len(); k++ {
									if fn := prog.MethodValue(ms.At(k)); fn != nil {
										check(nil, []*ir.Function{fn})
									}
								}
							}
						}
					}
				}(g)
			}
			wg.Wait()
			prog.Build()
			for _, f := range early {
				if len(f.Blocks) > 0 {
					res.Early = append(res.Early, identity(f))
				}
			}
		}
		funcs, dups, unbuilt, shared, ninst := dump(prog)
		res.Builds++
		res.Shared, res.Instances = shared, ninst
		res.DupKeys = append(res.DupKeys, dups...)
		res.Unbuilt = append(res.Unbuilt, unbuilt...)
		if first == nil {
			first = funcs
			res.Funcs = funcs
		} else {
			for k, v := range first {
				if w, ok := funcs[k]; ok && w != v {
					res.Disagree = append(res.Disagree, k)
				}
			}
		}
	}
}
