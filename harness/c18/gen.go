package c18

import (
	"fmt"
	"math/rand/v2"
	"strings"
)

// program generates a multi-package module in which several packages need the
// same shared functions: instances of cross-package generics, wrappers for
// methods promoted through embedding (value and pointer), bound-method
// closures, method-expression thunks and embedded-interface wrappers.
func program(rng *rand.Rand, nTop int) map[string]string {
	f := map[string]string{}
	f["go.mod"] = "module example.com/irp\n\ngo 1.22\n"
	f["lib/lib.go"] = `// Package lib has the shared generic and embeddable types.
package lib

type Number interface{ ~int | ~int64 | ~float64 }

type List[T any] struct {
	items []T
}

func (l *List[T]) Push(v T) { l.items = append(l.items, v) }
func (l *List[T]) Len() int { return len(l.items) }
func (l List[T]) At(i int) T { return l.items[i] }
func (l *List[T]) Each(f func(T)) {
	for _, v := range l.items {
		f(v)
	}
}

func Map[T, U any](l *List[T], f func(T) U) *List[U] {
	out := &List[U]{}
	l.Each(func(v T) { out.Push(f(v)) })
	return out
}

func Sum[T Number](xs ...T) T {
	var s T
	for _, x := range xs {
		s += x
	}
	return s
}

func Pair[K comparable, V any](k K, v V) map[K]V { return map[K]V{k: v} }

type Shape interface {
	Area() int
	Namer
}

type Namer interface{ Name() string }

type Point struct{ X, Y int }

func (p Point) Area() int      { return p.X * p.Y }
func (p Point) Name() string   { return "point" }
func (p *Point) Scale(k int)   { p.X *= k; p.Y *= k }

type Base struct {
	Point
	Tag string
}

type PBase struct {
	*Point
	N int
}

type Wrapper struct{ Shape }

// Inner is only ever used through mid.Outer by the top packages; zbig calls its method directly.
type Inner[T any] struct{ v T }

func (i *Inner[T]) Get() T { return i.v }

// Getter is implemented by everything that embeds an Inner[int].
type Getter interface{ Get() int }

// Lener is implemented by List and by everything that embeds it.
type Lener interface{ Len() int }

// Chain calls ChainInner: an instance of Chain refers to an instance of ChainInner.
func Chain[T any](v T, n int) []T { return ChainInner([]T{v}, n) }

func ChainInner[T any](vs []T, n int) []T {
	for len(vs) < n {
		vs = append(vs, vs[0])
	}
	return vs
}

func Apply[T any](v T, fs ...func(T) T) T {
	for _, f := range fs {
		v = f(v)
	}
	return v
}
`
	f["mid/mid.go"] = `// Package mid builds on lib.
package mid

import "example.com/irp/lib"

type Rect struct {
	lib.Base
	W int
}

type PRect struct {
	*lib.Base
}

// IntList promotes the methods of an instantiated generic type: its wrappers call instances.
type IntList struct{ *lib.List[int] }

type StrList struct{ lib.List[string] }

// Outer promotes Inner[int].Get: its wrapper calls a shared function of lib.
type Outer struct{ *lib.Inner[int] }

func Ints() *lib.List[int] {
	l := &lib.List[int]{}
	l.Push(1)
	return l
}

func Strs() *lib.List[string] {
	return lib.Map(Ints(), func(i int) string { return string(rune('a' + i)) })
}

func Shapes() []lib.Shape {
	r := Rect{}
	return []lib.Shape{lib.Point{X: 1, Y: 2}, r, &r, PRect{&r.Base}, lib.Wrapper{Shape: r}}
}

func AreaFn(p lib.Point) func() int { return p.Area }

func ScaleExpr() func(*lib.Point, int) { return (*lib.Point).Scale }

func Total() int { return lib.Sum(1, 2, 3) + int(lib.Sum(1.5, 2.5)) }
`
	uses := []string{
		"\tl := &lib.List[int]{}\n\tl.Push(%d)\n\tn += l.Len() + l.At(0)\n",
		"\tls := lib.Map(mid.Ints(), func(i int) string { return \"x\" })\n\tn += ls.Len() + %d\n",
		"\tlp := &lib.List[lib.Point]{}\n\tlp.Push(lib.Point{X: %d})\n\tlp.Each(func(p lib.Point) { n += p.Area() })\n",
		"\tf := lib.Point{X: %d, Y: 2}.Area\n\tn += f()\n",
		"\tg := (*lib.Point).Scale\n\tp := &lib.Point{X: %d}\n\tg(p, 2)\n\tn += p.X\n",
		"\th := lib.Point.Name\n\tn += len(h(lib.Point{X: %d}))\n",
		"\tvar s lib.Shape = mid.Rect{W: %d}\n\tar := s.Area\n\tn += ar() + len(s.Name())\n",
		"\tb := lib.Base{Tag: \"t\"}\n\tb.Scale(%d)\n\tnm := b.Name\n\tn += len(nm())\n",
		"\tpb := lib.PBase{Point: &lib.Point{X: %d}}\n\tsc := pb.Scale\n\tsc(3)\n\tn += pb.Area()\n",
		"\tn += lib.Sum(%d, 2) + int(lib.Sum[int64](1, 2))\n",
		"\tm := lib.Pair(\"k\", %d)\n\tn += len(m)\n",
		"\tw := lib.Wrapper{Shape: lib.Point{X: %d}}\n\tvar nm lib.Namer = w\n\tn += len(nm.Name()) + w.Area()\n",
		"\tn += lib.Apply(%d, func(i int) int { return i + 1 }, func(i int) int { return i * 2 })\n",
		"\tpr := mid.PRect{Base: &lib.Base{}}\n\tvar sh lib.Shape = pr\n\tn += sh.Area() + %d\n",
		"\tfor _, s := range mid.Shapes() {\n\t\tn += s.Area() + %d\n\t}\n",
	}
	uses = append(uses,
		"\tvar ln lib.Lener = mid.IntList{List: mid.Ints()}\n\tn += ln.Len() + %d\n",
		"\tsl := &mid.StrList{}\n\tvar ln lib.Lener = sl\n\tpush := sl.Push\n\tpush(\"x\")\n\tn += ln.Len() + %d\n",
		"\tn += len(lib.Chain(%d, 3))\n",
		"\tn += len(lib.Chain(\"s\", %d))\n",
		"\tvar gt lib.Getter = mid.Outer{Inner: &lib.Inner[int]{}}\n\tn += gt.Get() + %d\n",
		"\tot := &mid.Outer{Inner: &lib.Inner[int]{}}\n\tgf := ot.Get\n\tn += gf() + %d\n",
	)
	// zbig: a package that takes long to build and needs the INNER shared functions (the
	// instances and instantiation wrappers the others reach only through an outer shared
	// function: lib.ChainInner[T], (*lib.Inner[int]).Get) and nothing else that is shared:
	// the top packages depend on it only transitively. It is built first. A builder that has finished its
	// own functions but still waits for zbig must keep others waiting as well.
	{
		var b strings.Builder
		b.WriteString("// Package zbig is slow to build.\npackage zbig\n\nimport \"example.com/irp/lib\"\n\n")
		b.WriteString("// First needs the inner shared functions.\nfunc First() int {\n\tn := (&lib.Inner[int]{}).Get()\n\tn += len(lib.ChainInner([]int{1}, 2)) + len(lib.ChainInner([]string{\"a\"}, 2))\n\treturn n\n}\n\n")
		nFill := 300 + rng.IntN(300)
		for k := 0; k < nFill; k++ {
			fmt.Fprintf(&b, "func fill%d(a, b int) int {\n\tfor i := 0; i < a; i++ {\n\t\tif i%%%d == 0 {\n\t\t\tb += i\n\t\t} else {\n\t\t\tb -= %d\n\t\t}\n\t}\n\tswitch {\n\tcase a > b:\n\t\treturn a\n\tcase a < b:\n\t\treturn b\n\t}\n\treturn a + b\n}\n\n", k, 2+k%5, k)
		}
		b.WriteString("// Use keeps the fillers referenced.\nfunc Use() int {\n\tn := 0\n")
		for k := 0; k < nFill; k += 7 {
			fmt.Fprintf(&b, "\tn += fill%d(1, 2)\n", k)
		}
		b.WriteString("\treturn n\n}\n")
		f["zbig/zbig.go"] = b.String()
	}
	for t := 0; t < nTop; t++ {
		var b strings.Builder
		fmt.Fprintf(&b, "// Package top%d uses the shared functions.\npackage top%d\n\nimport (\n\t\"example.com/irp/lib\"\n\t\"example.com/irp/mid\"\n)\n\nvar _ = mid.Total\nvar _ lib.Namer\n\n", t, t)
		nf := 2 + rng.IntN(3)
		for k := 0; k < nf; k++ {
			fmt.Fprintf(&b, "// F%d exercises shared functions.\nfunc F%d() int {\n\tn := 0\n", k, k)
			for _, u := range rng.Perm(len(uses))[:3+rng.IntN(5)] {
				b.WriteString("\t{\n")
				for _, l := range strings.Split(strings.TrimRight(fmt.Sprintf(uses[u], 1+rng.IntN(9)), "\n"), "\n") {
					b.WriteString("\t" + l + "\n")
				}
				b.WriteString("\t}\n")
			}
			b.WriteString("\treturn n\n}\n\n")
		}
		f[fmt.Sprintf("top%d/top.go", t)] = b.String()
	}
	return f
}
