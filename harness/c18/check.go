// Package c18: IR program build is idempotent and safe under parallel building.
package c18

import (
	"encoding/json"
	"fmt"
	"go/types"
	"os"
	"os/exec"
	"path/filepath"
	"sort"
	"strconv"
	"strings"
	"sync"

	"honnef.co/go/tools/go/ir"
	"verif/lintrun"
	"verif/vf"
)

func typesOf(t *ir.Type) []types.Type {
	T := t.Type()
	if _, ok := T.Underlying().(*types.Interface); ok {
		return nil
	}
	if n, ok := T.(*types.Named); ok && n.TypeParams().Len() > 0 {
		return nil
	}
	return []types.Type{T, types.NewPointer(T)}
}

type spec struct {
	prog     int // index of the program
	mode     string
	procs    int
	hookSeed int
	builds   int
}

// WriteProgram writes generated program number i (of the run's seed) to dir.
func WriteProgram(r *vf.Run, dir string, i int) {
	rng := r.Rand("program", i)
	for n, c := range program(rng, 3+rng.IntN(4)) {
		p := filepath.Join(dir, n)
		os.MkdirAll(filepath.Dir(p), 0o755)
		os.WriteFile(p, []byte(c), 0o644)
	}
}

func Run(r *vf.Run) {
	// the monitor's children are race-instrumented builds of this very binary
	bin := r.BuildBin("vcheck-race", "./cmd/vcheck", true)
	nProg := r.Pick(3, 8)
	type progT struct {
		dir      string
		patterns []string
		name     string
	}
	var progs []progT
	for i := 0; i < nProg; i++ {
		rng := r.Rand("program", i)
		dir := filepath.Join(r.Scratch(), fmt.Sprintf("prog%d", i))
		for n, c := range program(rng, 3+rng.IntN(4)) {
			p := filepath.Join(dir, n)
			os.MkdirAll(filepath.Dir(p), 0o755)
			os.WriteFile(p, []byte(c), 0o644)
		}
		// a generated program the toolchain rejects is a generator bug, not an observation
		bc := exec.Command("go", "build", "./...")
		bc.Dir = dir
		bc.Env = vf.GoEnv()
		if out, err := bc.CombinedOutput(); err != nil {
			r.Inconclusive("generated program %d does not compile: %s", i, tail(string(out), 400))
			continue
		}
		progs = append(progs, progT{dir, []string{"./..."}, fmt.Sprintf("generated#%d", i)})
	}
	// slices of real code with many shared wrappers/instances
	progs = append(progs, progT{vf.Repo(), []string{"sort", "container/list", "container/heap", "strings", "bytes", "bufio", "text/tabwriter", "slices", "maps", "sync", "errors"}, "std-slice"})
	progs = append(progs, progT{vf.Repo(), []string{"./pattern", "./config", "./analysis/dfa/...", "./go/types/typeutil"}, "repo-slice"})

	var specs []spec
	rng := r.Rand("matrix", 0)
	perProg := r.Pick(4, 12)
	for pi := range progs {
		specs = append(specs, spec{pi, "serial", 1, 0, 1}) // reference
		specs = append(specs, spec{pi, "serial+inst", 1, 0, 1})
		for k := 0; k < perProg; k++ {
			mode := []string{"per-package-racing-methodvalue+inst", "parallel", "per-package-racing-methodvalue", "twice", "parallel+inst", "concurrent-build", "per-package-racing-methodvalue+inst", "twice+inst"}[k%8]
			nb := r.Pick(2, 4)
			if strings.HasPrefix(mode, "per-package") && strings.HasPrefix(progs[pi].name, "generated#") {
				nb = 8 // building is cheap next to loading; each build stages its packages differently
			}
			specs = append(specs, spec{pi, mode, []int{1, 2, 4, 16}[rng.IntN(4)], 1 + rng.IntN(1<<20), nb})
		}
	}
	type out struct {
		s     spec
		res   ChildResult
		run   lintrun.Result
		races int
		heads []string
		hooks map[string]int
		sched string
	}
	outs := make([]out, len(specs))
	var wg sync.WaitGroup
	sem := make(chan struct{}, 5)
	for i, s := range specs {
		wg.Add(1)
		go func(i int, s spec) {
			defer wg.Done()
			sem <- struct{}{}
			defer func() { <-sem }()
			p := progs[s.prog]
			racePrefix := filepath.Join(r.Scratch(), fmt.Sprintf("race-%d.log", i))
			hookLog := filepath.Join(r.Scratch(), fmt.Sprintf("hook-%d.log", i))
			env := []string{"GORACE=halt_on_error=0 log_path=" + racePrefix, "VERIF_HOOK_LOG=" + hookLog}
			if s.hookSeed != 0 {
				if strings.HasPrefix(s.mode, "per-package") {
					// longer stalls: a builder must be able to finish while another is still busy
					env = append(env, fmt.Sprintf("VERIF_HOOKS=%d:300:1500", s.hookSeed))
				} else {
					env = append(env, fmt.Sprintf("VERIF_HOOKS=%d:200:300", s.hookSeed))
				}
			}
			args := append([]string{"C18child", p.dir, s.mode, strconv.Itoa(s.procs), strconv.Itoa(s.builds)}, p.patterns...)
			run := lintrun.Cmd{Bin: bin, Dir: p.dir, Env: env, Args: args, Watchdog: 1800}.Run()
			o := out{s: s, run: run, hooks: map[string]int{}}
			json.Unmarshal(run.Stdout, &o.res)
			// races
			files, _ := filepath.Glob(racePrefix + "*")
			for _, f := range files {
				b, _ := os.ReadFile(f)
				blocks := strings.Split(string(b), "WARNING: DATA RACE")
				for _, bl := range blocks[1:] {
					o.races++
					var fr []string
					for _, l := range strings.Split(bl, "\n") {
						l = strings.TrimSpace(l)
						if strings.Contains(l, "honnef.co/go/tools/") && strings.HasSuffix(l, ")") {
							fr = append(fr, l[:strings.IndexByte(l, '(')])
						}
					}
					if len(fr) > 0 {
						o.heads = append(o.heads, fr[0]+" … "+fr[len(fr)-1])
					}
				}
				os.Remove(f)
			}
			if b, err := os.ReadFile(hookLog); err == nil {
				var order []string
				for _, l := range strings.Split(string(b), "\n") {
					if f := strings.SplitN(l, " ", 3); len(f) >= 2 {
						o.hooks[f[1]]++
						order = append(order, f[1])
					}
				}
				o.sched = fmt.Sprintf("%d:%x", len(order), hashStrings(order))
				os.Remove(hookLog)
			}
			outs[i] = o
		}(i, s)
	}
	wg.Wait()

	refs := map[int]*out{}
	for i := range outs {
		if outs[i].s.mode == "serial" {
			refs[2*outs[i].s.prog] = &outs[i]
		}
		if outs[i].s.mode == "serial+inst" {
			refs[2*outs[i].s.prog+1] = &outs[i]
		}
	}
	evals, builds, fnsCompared, raceBlocks := 0, 0, 0, 0
	reachChecks, reachFuncs := 0, 0
	scheds := map[string]bool{}
	hooks := map[string]int{}
	sharedSeen, instSeen := 0, 0
	for i := range outs {
		o := &outs[i]
		name := progs[o.s.prog].name
		desc := map[string]any{"program": name, "mode": o.s.mode, "gomaxprocs": o.s.procs, "hook_seed": o.s.hookSeed}
		if strings.HasPrefix(name, "generated#") {
			desc["program_dir_regenerate"] = fmt.Sprintf("generated by c18.program(seed stream program/%d)", o.s.prog)
		}
		if o.run.Killed {
			r.Inconclusive("watchdog fired for %s %s", name, o.s.mode)
			continue
		}
		if o.res.Error != "" || (o.res.Funcs == nil && o.run.Exit != 0) {
			if strings.HasPrefix(o.res.Error, "load:") {
				r.Inconclusive("%s: %s", name, o.res.Error)
				continue
			}
			d := desc
			d["stderr"] = tail(string(o.run.Stderr), 3000)
			r.Violation("build-crashed:"+o.s.mode, fmt.Sprintf("%s: child failed: %s (exit %d)", name, o.res.Error, o.run.Exit), d)
			continue
		}
		evals++
		builds += o.res.Builds
		if o.sched != "" {
			scheds[o.sched] = true
		}
		for k, v := range o.hooks {
			hooks[k] += v
		}
		sharedSeen = max(sharedSeen, o.res.Shared)
		instSeen = max(instSeen, o.res.Instances)
		raceBlocks += o.races
		if o.races > 0 {
			d := desc
			d["entry_points"] = o.heads
			key := "data-race"
			if len(o.heads) > 0 {
				key += ":" + o.heads[0]
			}
			r.Violation(key, fmt.Sprintf("%s %s: %d race report(s)", name, o.s.mode, o.races), d)
		}
		for _, k := range uniq(o.res.DupKeys) {
			d := desc
			d["function"] = k
			r.Violation("shared-function-created-twice", fmt.Sprintf("%s %s: two distinct functions with identity %s", name, o.s.mode, k), d)
		}
		for _, k := range uniq(o.res.Unbuilt) {
			d := desc
			d["function"] = k
			r.Violation("function-not-built-when-build-returned", fmt.Sprintf("%s %s: %s has source but no blocks", name, o.s.mode, k), d)
		}
		for _, k := range uniq(o.res.Changed) {
			d := desc
			d["function"] = k
			r.Violation("second-build-changed-ir", fmt.Sprintf("%s: calling Build again changed %s", name, k), d)
		}
		for _, k := range uniq(o.res.Disagree) {
			d := desc
			d["function"] = k
			r.Violation("ir-differs-between-builds:"+o.s.mode, fmt.Sprintf("%s %s: repeated build produced different IR for %s", name, o.s.mode, k), d)
		}
		for _, k := range uniq(o.res.Early) {
			d := desc
			d["function"] = k
			r.Violation("returned-before-shared-function-built", fmt.Sprintf("%s %s: Package.Build or MethodValue returned while %s, reachable from what it returned, had no body yet (it got one later)", name, o.s.mode, k), d)
		}
		reachChecks += o.res.ReachChecks
		reachFuncs += o.res.ReachFuncs
		ref := refs[2*o.s.prog]
		if strings.HasSuffix(o.s.mode, "+inst") {
			ref = refs[2*o.s.prog+1]
		}
		if ref == nil || ref == o || ref.res.Funcs == nil {
			continue
		}
		var diffs []string
		for k, v := range ref.res.Funcs {
			w, ok := o.res.Funcs[k]
			if !ok {
				// the set of synthetic functions created on demand may legitimately differ with
				// the mode only if nobody needs them; source functions must all be there
				if !strings.Contains(k, "{") {
					diffs = append(diffs, "missing "+k)
				}
				continue
			}
			fnsCompared++
			if w != v {
				diffs = append(diffs, "differs "+k)
			}
		}
		sort.Strings(diffs)
		if len(diffs) > 0 {
			d := desc
			d["functions"] = diffs[:min(len(diffs), 20)]
			r.Violation("ir-differs-from-serial-build:"+o.s.mode, fmt.Sprintf("%s %s: %d functions differ from the serial build, e.g. %s", name, o.s.mode, len(diffs), diffs[0]), d)
		}
	}
	r.Set("child_processes", evals)
	r.Set("builds", builds)
	r.Set("functions_compared_with_serial_build", fnsCompared)
	r.Set("distinct_hook_orderings", len(scheds))
	r.Set("hook_points_hit", hooks)
	r.Set("race_report_blocks", raceBlocks)
	r.Set("completeness_checks_at_return_of_Build_or_MethodValue", reachChecks)
	r.Set("functions_visited_by_completeness_checks", reachFuncs)
	r.Set("max_shared_functions_in_a_program", sharedSeen)
	r.Set("max_generic_instances_in_a_program", instSeen)
	r.Set("programs", len(progs))
	r.Sample(map[string]any{"example_generated_package": program(r.Rand("program", 0), 3)["top0/top.go"]}, 1)
	if reachChecks == 0 {
		r.Inconclusive("no completeness check ran")
	}
	if hooks["ir.buildFunction"] == 0 {
		r.Inconclusive("IR hook points never reached")
	}
	r.Assume("function identity = Function.String() plus its Synthetic tag; dumps are compared after renaming registers in order of first appearance (value numbering is not part of the property)")
	r.Finish(evals, len(scheds), r.Pick(8, 40),
		"each child process (race-instrumented) loads one multi-package program (generated: cross-package generic instances, promoted-method wrappers through value and pointer embedding, bound-method closures, method-expression thunks, embedded-interface wrappers shared by 3-6 packages; plus slices of std and the repository) and builds fresh Programs (with and without InstantiateGenerics) serially / in parallel / twice / from 8 goroutines / per package (slowest package first) while other goroutines call MethodValue; when a Package.Build or MethodValue call returns, everything reachable from what it returned through the package's own and through shared functions must already have a body; under GOMAXPROCS 1..16 and seeded yields at the builder's hook points; WriteFunction dumps are compared with the serial build. distinct_nontrivial = distinct orders of builder hook events observed")
}

func uniq(s []string) []string {
	sort.Strings(s)
	var out []string
	for i, x := range s {
		if i == 0 || s[i-1] != x {
			out = append(out, x)
		}
	}
	return out
}

func tail(s string, n int) string {
	if len(s) > n {
		return s[len(s)-n:]
	}
	return s
}

func hashStrings(ss []string) uint64 {
	h := uint64(1469598103934665603)
	for _, s := range ss {
		for _, c := range []byte(s) {
			h ^= uint64(c)
			h *= 1099511628211
		}
		h ^= 0xff
		h *= 1099511628211
	}
	return h
}
