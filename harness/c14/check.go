// Package c14: dominance queries are exact on every CFG the builder produces.
package c14

import (
	"fmt"
	"runtime/debug"
	"strings"
	"sync"

	"golang.org/x/tools/go/packages"
	"honnef.co/go/tools/go/ir"
	"verif/corpus"
	"verif/gen"
	"verif/irload"
	"verif/vf"
)

type stats struct {
	fns, pairs, withRecover, irreducible, nontrivial int
	maxBlocks                                        int
}

// reachableAvoiding returns the blocks reachable from root without passing through avoid.
func reachableAvoiding(n int, root, avoid *ir.BasicBlock, mark []bool) {
	for i := range mark {
		mark[i] = false
	}
	if root == avoid {
		return
	}
	stack := []*ir.BasicBlock{root}
	mark[root.Index] = true
	for len(stack) > 0 {
		b := stack[len(stack)-1]
		stack = stack[:len(stack)-1]
		for _, s := range b.Succs {
			if s != avoid && !mark[s.Index] {
				mark[s.Index] = true
				stack = append(stack, s)
			}
		}
	}
}

type issue struct{ key, msg string }

// checkFn compares every dominance query of fn with the definition.
func checkFn(fn *ir.Function, st *stats, pairSample func(n int) [][2]int) []issue {
	n := len(fn.Blocks)
	if n == 0 {
		return nil
	}
	var out []issue
	bad := func(key, f string, a ...any) {
		if len(out) < 20 {
			out = append(out, issue{key, fmt.Sprintf(f, a...)})
		}
	}
	st.fns++
	st.maxBlocks = max(st.maxBlocks, n)
	entry := fn.Blocks[0]
	mark := make([]bool, n)
	// which root each block belongs to: reachable from entry → entry; else Recover
	reachableAvoiding(n, entry, nil, mark)
	fromEntry := append([]bool(nil), mark...)
	rootOf := func(b *ir.BasicBlock) *ir.BasicBlock {
		if fromEntry[b.Index] {
			return entry
		}
		return fn.Recover
	}
	if fn.Recover != nil {
		st.withRecover++
	}
	// definition-level dominance matrix: dom[a][b]
	dom := make([][]bool, n)
	for ai, a := range fn.Blocks {
		dom[ai] = make([]bool, n)
		for _, root := range []*ir.BasicBlock{entry, fn.Recover} {
			if root == nil {
				continue
			}
			reachableAvoiding(n, root, a, mark)
			for bi, b := range fn.Blocks {
				if rootOf(b) != root {
					continue
				}
				// a dominates b iff b cannot be reached from its root when a is removed
				// (every block dominates itself); a must itself lie under that root.
				if a == b {
					dom[ai][bi] = true
				} else if rootOf(a) == root && !mark[bi] {
					dom[ai][bi] = true
				}
			}
		}
	}
	check := func(ai, bi int) {
		a, b := fn.Blocks[ai], fn.Blocks[bi]
		st.pairs++
		if got := a.Dominates(b); got != dom[ai][bi] {
			bad("dominates-wrong", "%s: block %d Dominates block %d = %v, but by the path definition it is %v", fn, ai, bi, got, dom[ai][bi])
		}
	}
	if n <= 300 {
		for ai := 0; ai < n; ai++ {
			for bi := 0; bi < n; bi++ {
				check(ai, bi)
			}
		}
	} else {
		for _, p := range pairSample(n) {
			check(p[0], p[1])
		}
	}
	// immediate dominators: the strict dominator that all other strict dominators dominate
	nontrivial := false
	for bi, b := range fn.Blocks {
		var want *ir.BasicBlock
		for ai := range fn.Blocks {
			if ai == bi || !dom[ai][bi] {
				continue
			}
			closest := true
			for ci := range fn.Blocks {
				if ci != bi && ci != ai && dom[ci][bi] && !dom[ci][ai] {
					closest = false
					break
				}
			}
			if closest {
				want = fn.Blocks[ai]
			}
		}
		if got := b.Idom(); got != want {
			bad("idom-wrong", "%s: Idom(block %d) = %v, want %v", fn, bi, idx(got), idx(want))
		}
		if want != nil && want.Index != bi-1 {
			nontrivial = true
		}
		// Dominees is the inverse of Idom
		for _, c := range b.Dominees() {
			if c.Idom() != b {
				bad("dominees-wrong", "%s: block %d lists dominee %d whose Idom is %v", fn, bi, c.Index, idx(c.Idom()))
			}
		}
		if id := b.Idom(); id != nil {
			found := 0
			for _, c := range id.Dominees() {
				if c == b {
					found++
				}
			}
			if found != 1 {
				bad("dominees-wrong", "%s: block %d appears %d times among the dominees of its Idom %d", fn, bi, found, id.Index)
			}
		}
	}
	if nontrivial {
		st.nontrivial++
	}
	// pre/post-order listings: permutations of Blocks consistent with the relation
	pre, post := fn.DomPreorder(), fn.DomPostorder()
	for name, order := range map[string][]*ir.BasicBlock{"DomPreorder": pre, "DomPostorder": post} {
		if len(order) != n {
			bad("order-wrong", "%s: %s has %d blocks, function has %d", fn, name, len(order), n)
			continue
		}
		at := make([]int, n)
		for i := range at {
			at[i] = -1
		}
		for i, b := range order {
			if b == nil || b.Index < 0 || b.Index >= n || fn.Blocks[b.Index] != b || at[b.Index] != -1 {
				bad("order-wrong", "%s: %s is not a permutation of the blocks", fn, name)
				at = nil
				break
			}
			at[b.Index] = i
		}
		if at == nil {
			continue
		}
		for ai := 0; ai < n; ai++ {
			for bi := 0; bi < n; bi++ {
				if ai == bi || !dom[ai][bi] {
					continue
				}
				if name == "DomPreorder" && at[ai] > at[bi] {
					bad("order-wrong", "%s: block %d dominates %d but comes later in DomPreorder", fn, ai, bi)
				}
				if name == "DomPostorder" && at[ai] < at[bi] {
					bad("order-wrong", "%s: block %d dominates %d but comes earlier in DomPostorder", fn, ai, bi)
				}
			}
		}
	}
	// irreducibility, for evidence
	state := make([]int, n)
	var dfs func(b *ir.BasicBlock)
	irr := false
	dfs = func(b *ir.BasicBlock) {
		state[b.Index] = 1
		for _, s := range b.Succs {
			if state[s.Index] == 0 {
				dfs(s)
			} else if state[s.Index] == 1 && !dom[s.Index][b.Index] {
				irr = true
			}
		}
		state[b.Index] = 2
	}
	dfs(entry)
	if irr {
		st.irreducible++
	}
	return out
}

func idx(b *ir.BasicBlock) any {
	if b == nil {
		return "<nil>"
	}
	return b.Index
}

type job struct {
	name string
	run  func(st *stats) ([]issue, map[string]any, error)
}

func Run(r *vf.Run) {
	var jobs []job
	nGen := r.Pick(400, 10000)
	for i := 0; i < nGen; i++ {
		i := i
		jobs = append(jobs, job{fmt.Sprintf("cfggen#%d", i), func(st *stats) ([]issue, map[string]any, error) {
			rng := r.Rand("cfggen", i)
			src := gen.CFGPackage(rng, "p", 6)
			var all []issue
			for _, m := range []ir.BuilderMode{0, ir.NaiveForm} {
				blt, err := irload.Source("p", map[string]string{"p.go": src}, m)
				if err != nil {
					return nil, nil, fmt.Errorf("generator discard: %v", err)
				}
				if ps := corpus.SafeBuild(blt.Pkg.Prog); len(ps) > 0 {
					// (in lifted mode the dominance frontier is computed from the tree under test)
					return nil, nil, fmt.Errorf("panic: builder [mode %s] %s\nsource:\n%s", m, ps[0], src)
				}
				prng := r.Rand("pairs", i)
				for _, fn := range corpus.Functions(blt.Pkg.Prog) {
					all = append(all, checkFn(fn, st, func(n int) [][2]int {
						ps := make([][2]int, 20000)
						for k := range ps {
							ps[k] = [2]int{prng.IntN(n), prng.IntN(n)}
						}
						return ps
					})...)
				}
			}
			return all, map[string]any{"source": src}, nil
		}})
	}
	std := []string{"strings", "sort", "strconv", "bufio", "bytes", "fmt", "os", "time", "text/template", "encoding/json", "go/parser", "go/printer", "regexp", "math/big", "net/http", "reflect", "runtime"}
	if r.Thorough() {
		std = []string{"std"}
	}
	addReal := func(name string, load func() ([]*packages.Package, error)) {
		jobs = append(jobs, job{name, func(st *stats) ([]issue, map[string]any, error) {
			pkgs, err := load()
			if err != nil {
				return nil, nil, err
			}
			_, fns, bps := corpus.BuildSafe(pkgs, ir.GlobalDebug)
			if len(bps) > 0 {
				return nil, nil, fmt.Errorf("panic: builder %s", bps[0])
			}
			prng := r.Rand("pairs-"+name, 0)
			var all []issue
			for _, fn := range fns {
				all = append(all, checkFn(fn, st, func(n int) [][2]int {
					ps := make([][2]int, 20000)
					for k := range ps {
						ps[k] = [2]int{prng.IntN(n), prng.IntN(n)}
					}
					return ps
				})...)
				if len(all) > 100 {
					break
				}
			}
			return all, map[string]any{"packages": name}, nil
		}})
	}
	for i := 0; i < len(std); i += 3 {
		part := std[i:min(len(std), i+3)]
		addReal("std:"+strings.Join(part, ","), func() ([]*packages.Package, error) { return corpus.Load(vf.Repo(), false, part...) })
	}
	repoPats := []string{"./pattern", "./unused", "./go/ir", "./lintcmd/...", "./analysis/..."}
	if r.Thorough() {
		repoPats = []string{"./..."}
	}
	for _, p := range repoPats {
		p := p
		addReal("repo:"+p, func() ([]*packages.Package, error) { return corpus.Load(vf.Repo(), true, p) })
	}
	if r.Thorough() {
		for _, td := range corpus.TestdataDirs(vf.Repo()) {
			td := td
			addReal("testdata:"+strings.TrimPrefix(td[0], vf.Repo()+"/"), func() ([]*packages.Package, error) { return corpus.LoadTestdata(td[0], td[1]) })
		}
	}
	type result struct {
		name   string
		issues []issue
		replay map[string]any
		err    error
		st     stats
	}
	results := make([]result, len(jobs))
	var wg sync.WaitGroup
	sem := make(chan struct{}, 12)
	for i, j := range jobs {
		wg.Add(1)
		go func(i int, j job) {
			defer wg.Done()
			sem <- struct{}{}
			defer func() { <-sem }()
			res := result{name: j.name}
			func() {
				defer func() {
					if e := recover(); e != nil {
						res.err = fmt.Errorf("panic: %v\n%s", e, debug.Stack())
					}
				}()
				res.issues, res.replay, res.err = j.run(&res.st)
			}()
			results[i] = res
		}(i, j)
	}
	wg.Wait()
	var tot stats
	discards := 0
	for _, res := range results {
		if res.err != nil {
			switch {
			case strings.HasPrefix(res.err.Error(), "generator discard"):
				discards++
			case strings.HasPrefix(res.err.Error(), "panic:"):
				r.Violation("panic", res.err.Error(), map[string]any{"job": res.name})
			default:
				r.Add("load_failures", 1)
			}
			continue
		}
		tot.fns += res.st.fns
		tot.pairs += res.st.pairs
		tot.withRecover += res.st.withRecover
		tot.irreducible += res.st.irreducible
		tot.nontrivial += res.st.nontrivial
		tot.maxBlocks = max(tot.maxBlocks, res.st.maxBlocks)
		for _, is := range res.issues {
			rep := map[string]any{"job": res.name}
			for k, v := range res.replay {
				rep[k] = v
			}
			r.Violation(is.key, is.msg, rep)
		}
	}
	r.Set("functions", tot.fns)
	r.Set("ordered_pairs_compared", tot.pairs)
	r.Set("functions_with_recover_block", tot.withRecover)
	r.Set("functions_with_irreducible_cfg", tot.irreducible)
	r.Set("largest_function_blocks", tot.maxBlocks)
	r.Set("generator_discards", discards)
	r.Sample(map[string]any{"example_generated_function": gen.CFGFunc(r.Rand("sample", 0), "F", gen.CFGOpts{Blocks: 5, Recover: true})}, 1)
	if discards*20 > nGen {
		r.Inconclusive("%d of %d generated packages were rejected by the type checker", discards, nGen)
	}
	r.Finish(tot.fns, tot.nontrivial, 500,
		"every function built for goto-generated packages (arbitrary digraphs incl. irreducible loops, defer+recover) in lifted and naive form, and for a slice of std and the repository (everything in the thorough tier); all ordered block pairs up to 300 blocks, 20000 seeded pairs above; oracle = reachability from the root after removing the candidate dominator. non-trivial = functions in which some block's immediate dominator is not its textual predecessor (branching/joining control flow)")
}
