// Package corpus provides IR functions from real and generated code in any builder mode.
package corpus

import (
	"fmt"
	"os"
	"path/filepath"
	"sort"
	"strings"

	"golang.org/x/tools/go/packages"
	"honnef.co/go/tools/go/ir"
	"honnef.co/go/tools/go/ir/irutil"
	"verif/vf"
)

const LoadMode = packages.NeedName | packages.NeedFiles | packages.NeedCompiledGoFiles | packages.NeedImports | packages.NeedDeps |
	packages.NeedTypes | packages.NeedSyntax | packages.NeedTypesInfo | packages.NeedTypesSizes | packages.NeedModule

// Load loads packages (with full syntax for the named ones and, through
// NeedDeps, their dependencies) from dir.
func Load(dir string, tests bool, patterns ...string) ([]*packages.Package, error) {
	cfg := &packages.Config{Mode: LoadMode, Dir: dir, Tests: tests, Env: vf.GoEnv()}
	pkgs, err := packages.Load(cfg, patterns...)
	if err != nil {
		return nil, err
	}
	var out []*packages.Package
	for _, p := range pkgs {
		if len(p.Errors) > 0 || p.Types == nil || p.IllTyped {
			continue
		}
		out = append(out, p)
	}
	sort.Slice(out, func(i, j int) bool { return out[i].ID < out[j].ID })
	return out, nil
}

// Build creates a fresh Program for pkgs in the given mode, builds it and
// returns every function with a body, in a deterministic order.
func Build(pkgs []*packages.Package, mode ir.BuilderMode) (*ir.Program, []*ir.Function) {
	prog, fns, _ := BuildSafe(pkgs, mode)
	return prog, fns
}

// SafeBuild builds every package of prog from the calling goroutine, one after
// the other, and turns a panic of the builder into an observation instead of
// the end of the monitor (Program.Build runs the package builders in goroutines
// of its own, where a panic cannot be recovered). Concurrent building is C18's
// business; the checks that use this run many programs in parallel instead.
func SafeBuild(prog *ir.Program) (panics []string) {
	pkgs := prog.AllPackages()
	sort.Slice(pkgs, func(i, j int) bool { return pkgs[i].Pkg.Path() < pkgs[j].Pkg.Path() })
	for _, p := range pkgs {
		func() {
			defer func() {
				if e := recover(); e != nil {
					panics = append(panics, fmt.Sprintf("building %s: %v", p.Pkg.Path(), e))
				}
			}()
			p.Build()
		}()
	}
	return panics
}

// BuildSafe is Build that also reports builder panics.
func BuildSafe(pkgs []*packages.Package, mode ir.BuilderMode) (*ir.Program, []*ir.Function, []string) {
	prog, _ := irutil.Packages(pkgs, mode)
	panics := SafeBuild(prog)
	return prog, Functions(prog), panics
}

// Functions lists all functions reachable in prog that have blocks, sorted by name+position.
func Functions(prog *ir.Program) []*ir.Function {
	all := irutil.AllFunctions(prog)
	out := make([]*ir.Function, 0, len(all))
	for f := range all {
		if len(f.Blocks) > 0 {
			out = append(out, f)
		}
	}
	sort.Slice(out, func(i, j int) bool {
		a, b := out[i], out[j]
		if a.String() != b.String() {
			return a.String() < b.String()
		}
		if a.Pos() != b.Pos() {
			return a.Pos() < b.Pos()
		}
		return a.Synthetic < b.Synthetic
	})
	return out
}

// AllModes enumerates the 16 combinations of the builder modes named by C02.
func AllModes() []ir.BuilderMode {
	var out []ir.BuilderMode
	for m := 0; m < 16; m++ {
		var mode ir.BuilderMode
		if m&1 != 0 {
			mode |= ir.NaiveForm
		}
		if m&2 != 0 {
			mode |= ir.GlobalDebug
		}
		if m&4 != 0 {
			mode |= ir.InstantiateGenerics
		}
		if m&8 != 0 {
			mode |= ir.BuildSerially
		}
		out = append(out, mode)
	}
	return out
}

// WriteModule writes a scratch module with the given files (path -> content) and returns its directory.
func WriteModule(dir, modpath, goVersion string, files map[string]string) error {
	if err := os.MkdirAll(dir, 0o755); err != nil {
		return err
	}
	if err := os.WriteFile(filepath.Join(dir, "go.mod"), []byte(fmt.Sprintf("module %s\n\ngo %s\n", modpath, goVersion)), 0o644); err != nil {
		return err
	}
	for name, src := range files {
		p := filepath.Join(dir, name)
		if err := os.MkdirAll(filepath.Dir(p), 0o755); err != nil {
			return err
		}
		if err := os.WriteFile(p, []byte(src), 0o644); err != nil {
			return err
		}
	}
	return nil
}

// TestdataDirs returns every */testdata/<goversion>/ tree below /repo that
// contains Go packages (the analyzers' test inputs), as (dir, goVersion).
func TestdataDirs(repo string) [][2]string {
	var out [][2]string
	filepath.WalkDir(repo, func(p string, d os.DirEntry, err error) error {
		if err != nil || !d.IsDir() {
			return nil
		}
		if d.Name() == ".git" || d.Name() == "website" || d.Name() == "_benchmarks" {
			return filepath.SkipDir
		}
		if filepath.Base(filepath.Dir(p)) == "testdata" && strings.HasPrefix(d.Name(), "go1.") {
			out = append(out, [2]string{p, strings.TrimPrefix(d.Name(), "go")})
			return filepath.SkipDir
		}
		return nil
	})
	sort.Slice(out, func(i, j int) bool { return out[i][0] < out[j][0] })
	return out
}

// LoadTestdata loads one testdata/<goversion> tree the way the repository's own test helper does
// (synthetic go.mod through an overlay, vendor mode).
func LoadTestdata(dir, vers string) ([]*packages.Package, error) {
	env := append(os.Environ(), "GOPROXY=off", "GOFLAGS=-mod=vendor", "GO111MODULE=")
	cfg := &packages.Config{Mode: LoadMode, Dir: dir, Tests: true, Env: env,
		Overlay: map[string][]byte{filepath.Join(dir, "go.mod"): []byte("module example.com\ngo " + vers)}}
	pkgs, err := packages.Load(cfg, "./...")
	if err != nil {
		return nil, err
	}
	var out []*packages.Package
	for _, p := range pkgs {
		if len(p.Errors) > 0 || p.Types == nil || p.IllTyped {
			continue
		}
		out = append(out, p)
	}
	sort.Slice(out, func(i, j int) bool { return out[i].ID < out[j].ID })
	return out, nil
}
