package c01

import (
	"fmt"
	"math/rand/v2"
	"strings"
)

// shapeTemplates returns hand-designed function families, instantiated with
// random constants and statement choices, aimed at what lifting and block
// optimisation must get right and the random generator rarely produces:
// variables declared in an outer loop whose address escapes in an inner loop,
// partial escapes, switches whose tag has control flow, defers pushed from
// range-over-func bodies, gotos around declarations-free regions.
// The functions follow execgen's conventions (names start with F, parameters of
// supported types, effects through trace, termination by bounded loops).
func shapeTemplates(rng *rand.Rand) string {
	var b strings.Builder
	b.WriteString("\nfunc tplBump(p *int) { *p = *p + 1 }\n\nfunc tplSeq(n int) func(yield func(int) bool) {\n\treturn func(yield func(int) bool) {\n\t\tfor i := 0; i < n; i++ {\n\t\t\tif !yield(i) {\n\t\t\t\treturn\n\t\t\t}\n\t\t}\n\t}\n}\n\nvar tplKeep *int\n\n")
	k := func() int { return 1 + rng.IntN(4) }
	pick := func(alts ...string) string { return alts[rng.IntN(len(alts))] }
	id := 9000
	next := func() int { id++; return id }

	// 1. outer-loop variable, address escapes in the inner loop
	for v := 0; v < 3; v++ {
		use := pick("s += x", "trace(1, x)", "if x%2 == 0 {\n\t\t\t\ts++\n\t\t\t}", "s += x * "+fmt.Sprint(k()))
		esc := pick("tplBump(&x)", "p := &x\n\t\t\t*p += "+fmt.Sprint(k()), "func() { x += "+fmt.Sprint(k())+" }()", "tplKeep = &x\n\t\t\t*tplKeep += 1")
		after := pick("", "\t\ts += x\n", "\t\ttrace(2, x)\n")
		order := []string{use, esc}
		if rng.IntN(4) == 0 {
			order = []string{esc, use}
		}
		fmt.Fprintf(&b, "func F%d(n int, m int) int {\n\ts := 0\n\tfor i := 0; i < n&3; i++ {\n\t\tx := i * %d\n\t\tfor j := 0; j < m&3; j++ {\n\t\t\t%s\n\t\t\t%s\n\t\t}\n%s\t}\n\treturn s\n}\n\n", next(), k(), order[0], order[1], after)
	}
	// 2. partial escape: the address is taken on one path only
	for v := 0; v < 2; v++ {
		fmt.Fprintf(&b, "func F%d(n int, c bool) int {\n\ts := 0\n\tvar p *int\n\tfor i := 0; i < n&3; i++ {\n\t\tx := i + %d\n\t\tif c && i%%2 == %d {\n\t\t\tp = &x\n\t\t}\n\t\tx += %d\n\t\tif p != nil {\n\t\t\t*p += %d\n\t\t}\n\t\ts += x\n\t}\n\tif p != nil {\n\t\ts += *p\n\t}\n\treturn s\n}\n\n", next(), k(), rng.IntN(2), k(), k())
	}
	// 3. constant-case switches whose tag has control flow
	fmt.Fprintf(&b, "func F%d(a int, b int) int {\n\tx := 0\n\tswitch a > %d && b > 0 {\n\tcase true:\n\t\tx = 1\n\tcase false:\n\t\tx = 2\n\t}\n\tswitch y := a; y > 1 || b < %d {\n\tcase true:\n\t\tx += 10\n\tdefault:\n\t\tx += 20\n\t}\n\ttrace(3, x)\n\treturn x\n}\n\n", next(), rng.IntN(3), rng.IntN(3))
	// 4. defers pushed from a range-over-func body, with and without own defers
	fmt.Fprintf(&b, "func F%d(n int) (r int) {\n\tfor x := range tplSeq(n & 3) {\n\t\tdefer func() { r += x + %d }()\n\t}\n\treturn 100\n}\n\n", next(), k())
	fmt.Fprintf(&b, "func F%d(n int, c bool) (r int) {\n\tif c {\n\t\tdefer func() { r *= 2 }()\n\t}\n\tfor x := range tplSeq(n & 3) {\n\t\tif x == %d {\n\t\t\tcontinue\n\t\t}\n\t\tdefer func() { r += x }()\n\t\tif x == 2 {\n\t\t\tbreak\n\t\t}\n\t}\n\treturn %d\n}\n\n", next(), rng.IntN(3), k())
	// 5. goto-built loop around a variable whose address is taken late
	fmt.Fprintf(&b, "func F%d(n int) int {\n\ts, i := 0, 0\n\tvar x int\nloop:\n\tif i >= n&3 {\n\t\tgoto done\n\t}\n\tx = i * %d\n\ts += x\n\tif i == 1 {\n\t\ttplBump(&x)\n\t}\n\ts += x\n\ti++\n\tgoto loop\ndone:\n\treturn s + x\n}\n\n", next(), k())
	// 6. loop variable captured per iteration, mutated after capture
	fmt.Fprintf(&b, "func F%d(n int) int {\n\tvar fs []func() int\n\tfor i := 0; i < n&3; i++ {\n\t\tfs = append(fs, func() int { return i * %d })\n\t\ti += %d\n\t}\n\ts := 0\n\tfor _, f := range fs {\n\t\ts += f()\n\t}\n\treturn s\n}\n\n", next(), k(), rng.IntN(2))
	// 7. parallel assignment / swap through pointers to locals declared in a loop
	fmt.Fprintf(&b, "func F%d(n int) int {\n\ts := 0\n\tfor i := 0; i < n&3; i++ {\n\t\ta, b := i, i+%d\n\t\tpa, pb := &a, &b\n\t\tfor j := 0; j < 2; j++ {\n\t\t\t*pa, *pb = *pb, *pa+%d\n\t\t\ta, b = b, a\n\t\t}\n\t\ts += a*10 + b\n\t}\n\treturn s\n}\n\n", next(), k(), k())
	// 8. panics, deferred calls and recover against results: a return statement stores the
	// results BEFORE the deferred calls run, so a panic raised by a deferred call and
	// recovered by an earlier-registered one leaves the stored values (named or not) in
	// place, while a panic in the body leaves the zero value / what was assigned so far
	b.WriteString("func tplSwallow() { recover() }\n\nfunc tplBoom(k int) {\n\tif k > 0 {\n\t\tpanic(\"boom\")\n\t}\n}\n\n")
	fmt.Fprintf(&b, "func F%d(x int) int {\n\tdefer tplSwallow()\n\tif x&3 > %d {\n\t\tdefer tplBoom(x & 1)\n\t\treturn x + %d\n\t}\n\treturn -1\n}\n\n", next(), rng.IntN(2), k())
	fmt.Fprintf(&b, "func F%d(x int) (int, bool) {\n\tdefer func() { recover() }()\n\tif x&1 == %d {\n\t\tdefer tplBoom(1)\n\t\treturn x * %d, true\n\t}\n\treturn 0, false\n}\n\n", next(), rng.IntN(2), 1+k())
	fmt.Fprintf(&b, "func F%d(x int) (r int) {\n\tdefer tplSwallow()\n\tdefer func() {\n\t\tr += %d\n\t\ttplBoom(x & 1)\n\t\tr += 100\n\t}()\n\treturn x + %d\n}\n\n", next(), k(), k())
	fmt.Fprintf(&b, "func F%d(x int) int {\n\tdefer tplSwallow()\n\tif x&1 == %d {\n\t\ttplBoom(1)\n\t}\n\treturn x + %d\n}\n\n", next(), rng.IntN(2), k())
	fmt.Fprintf(&b, "func F%d(x int) int {\n\tdefer tplSwallow()\n\ty := x + %d\n\tdefer func() {\n\t\ty++\n\t\ttrace(4, y)\n\t\ttplBoom(x & 2)\n\t}()\n\treturn y\n}\n\n", next(), k())
	fmt.Fprintf(&b, "func F%d(x int) (s string, n int) {\n\tdefer tplSwallow()\n\tfor i := 0; i < x&3; i++ {\n\t\tdefer tplBoom(i - %d)\n\t\tn += i\n\t}\n\tif n > 1 {\n\t\treturn \"big\", n\n\t}\n\ts = \"small\"\n\treturn\n}\n\n", next(), rng.IntN(2))
	return b.String()
}
