// Package c01 checks property C01 (IR preserves program semantics) by
// differential execution: every generated program is compiled and run by the
// Go toolchain (ground truth) and its go/ir form, built through the exported
// irutil/Package.Build path in the four modes {naive, lifted} x {debug refs
// on, off}, is executed by the reference interpreter irinterp on the same
// input vectors. Records are compared one by one.
package c01

import (
	"bytes"
	"fmt"
	"go/ast"
	"go/parser"
	"go/token"
	"go/types"
	"os"
	"os/exec"
	"path/filepath"
	"runtime"
	"sort"
	"strconv"
	"strings"
	"sync"

	"honnef.co/go/tools/go/ir"
	"honnef.co/go/tools/go/ir/irutil"

	gen "verif/execgen"
	"verif/irinterp"
	"verif/vf"
)

type Mode struct {
	Name string
	Bits ir.BuilderMode
}

var Modes = []Mode{
	{"naive", ir.NaiveForm | ir.InstantiateGenerics},
	{"naive+debug", ir.NaiveForm | ir.GlobalDebug | ir.InstantiateGenerics},
	{"lifted", ir.InstantiateGenerics},
	{"lifted+debug", ir.GlobalDebug | ir.InstantiateGenerics},
}

// Mismatch is one record on which a mode disagrees with the compiled program.
type Mismatch struct {
	Key      string // "<func> #<vec>"
	Kind     string // first differing field: res, panic, post, trace, glob, stuck, missing
	Modes    []string
	Expected string
	Got      map[string]string
	Tag      string // non-empty: the mismatch is attributed to a specific, separately keyed builder defect
}

// Result of checking one program.
type Result struct {
	Index        int
	Discarded    string // go build / go run failed: generator bug
	Inconclusive []string
	Mismatches   []Mismatch
	Compared     int // record comparisons
	Records      int
	Functions    int
	Vectors      int
	Kinds        map[string]int64
	WithPhi      int
	WithRecover  int
	Unspecified  int // records not compared because the language leaves the compiled program's behaviour open
	WithSplit    int
	LiftChanged  map[string]bool // function name -> lifted stream differs from naive
	ExecutedFns  map[string]bool // functions (by ir name) entered in lifted mode
	Features     map[string]int
}

// BuildIR type-checks src (a single import-free file) and builds it in the given mode.
func BuildIR(src string, mode ir.BuilderMode) (pkg *ir.Package, err error) {
	defer func() {
		if r := recover(); r != nil {
			buf := make([]byte, 2048)
			buf = buf[:runtime.Stack(buf, false)]
			err = fmt.Errorf("builder panic: %v\n%s", r, buf)
		}
	}()
	fset := token.NewFileSet()
	f, err := parser.ParseFile(fset, "prog.go", src, parser.SkipObjectResolution)
	if err != nil {
		return nil, fmt.Errorf("parse: %w", err)
	}
	tc := &types.Config{GoVersion: "go1.26"}
	tpkg := types.NewPackage("main", "main")
	p, _, err := irutil.BuildPackage(tc, fset, tpkg, []*ast.File{f}, mode)
	if err != nil {
		return nil, fmt.Errorf("typecheck: %w", err)
	}
	return p, nil
}

func argValue(a gen.Arg) irinterp.Value {
	mk := func(k types.BasicKind, v int64) irinterp.Value { return irinterp.MakeInt(k, uint64(v)) }
	switch a.Type {
	case "int":
		return mk(types.Int, a.Int)
	case "int8":
		return mk(types.Int8, a.Int)
	case "uint8":
		return mk(types.Uint8, a.Int)
	case "int64":
		return mk(types.Int64, a.Int)
	case "uint":
		return mk(types.Uint, a.Int)
	case "uint32":
		return mk(types.Uint32, a.Int)
	case "bool":
		return a.Bool
	case "string":
		return a.Str
	case "*int":
		if a.Nil {
			return (*irinterp.Value)(nil)
		}
		c := new(irinterp.Value)
		*c = int(a.Elems[0])
		return c
	case "[]int":
		if a.Nil {
			return []irinterp.Value(nil)
		}
		s := make([]irinterp.Value, len(a.Elems))
		for i, e := range a.Elems {
			s[i] = int(e)
		}
		return s
	}
	panic("c01: argument type " + a.Type)
}

var errorIface = types.Universe.Lookup("error").Type().Underlying().(*types.Interface)

func panicClass(p irinterp.Iface) string {
	if _, ok := p.V.(irinterp.RuntimeError); ok {
		return irinterp.PanicClass(p)
	}
	if p.T != nil && types.Implements(p.T, errorIface) {
		return "panic(error:" + irinterp.TypeString(p.T) + ")"
	}
	return irinterp.PanicClass(p)
}

// interpretAll runs every function of prog on its vectors in one built
// package and returns records keyed like the driver's. A nil record map
// entry with an error string means the record could not be produced.
type interpResult struct {
	recs     map[string]string
	unsup    map[string]string // key -> reason (inconclusive)
	unspec   map[string]string // key -> reason (the language leaves the compiled program's behaviour open)
	kinds    map[string]int64
	executed map[*ir.Function]int
	fatal    string
}

func interpretAll(pkg *ir.Package, prog *gen.Program) interpResult {
	res := interpResult{recs: map[string]string{}, unsup: map[string]string{}, unspec: map[string]string{}}
	m := irinterp.New(pkg)
	res.kinds = m.Kinds
	res.executed = m.Executed
	if out := m.Init(); out.Err != nil || out.Panic != nil {
		res.fatal = fmt.Sprintf("package init failed: %v %v", out.Err, out.Panic)
		return res
	}
	reset := pkg.Func("resetGlobals")
	if reset == nil {
		res.fatal = "no resetGlobals function"
		return res
	}
	intT := types.Typ[types.Int]
	ptrT := types.NewPointer(intT)
	slT := types.NewSlice(intT)
	for _, f := range prog.Funcs {
		fn := pkg.Func(f.Name)
		if fn == nil {
			res.fatal = "function " + f.Name + " missing from the built package"
			return res
		}
		for vi, vec := range f.Vectors {
			key := fmt.Sprintf("%s #%d", f.Name, vi)
			if out := m.Call(reset, nil); out.Err != nil || out.Panic != nil {
				res.fatal = fmt.Sprintf("resetGlobals failed: %v", out.Err)
				return res
			}
			args := make([]irinterp.Value, len(vec))
			var postIdx []int
			for i, a := range vec {
				args[i] = argValue(a)
				if a.Type == "*int" || a.Type == "[]int" {
					postIdx = append(postIdx, i)
				}
			}
			m.Unspecified = ""
			out := m.Call(fn, args)
			if m.Unspecified != "" {
				res.unspec[key] = m.Unspecified
				continue
			}
			if out.Err != nil {
				if u, ok := out.Err.(*irinterp.Unsupported); ok {
					res.unsup[key] = u.What
					continue
				}
				res.recs[key] = fmt.Sprintf("== %s\nSTUCK %s\n", key, firstLine(out.Err.Error()))
				continue
			}
			var rs []string
			pc := "none"
			if out.Panic != nil {
				pc = panicClass(*out.Panic)
			} else {
				rs = []string{}
				for i, r := range out.Results {
					rs = append(rs, irinterp.Format(r, fn.Signature.Results().At(i).Type()))
				}
			}
			var post []string
			for _, i := range postIdx {
				if vec[i].Type == "*int" {
					post = append(post, irinterp.Format(args[i], ptrT))
				} else {
					post = append(post, irinterp.Format(args[i], slT))
				}
			}
			var trace []string
			if tv, _, ok := m.Global("traceLog"); ok {
				if s, ok := tv.([]irinterp.Value); ok {
					for _, e := range s {
						trace = append(trace, irinterp.Format(e, intT))
					}
				}
			}
			var glob []string
			for _, g := range prog.Globals {
				gv, gt, ok := m.Global(g.Name)
				if !ok {
					glob = append(glob, g.Name+"=?")
					continue
				}
				glob = append(glob, g.Name+"="+irinterp.Format(gv, gt))
			}
			res.recs[key] = gen.FormatRecord(f.Name, vi, rs, pc, post, trace, glob)
		}
	}
	return res
}

func firstLine(s string) string {
	if i := strings.IndexByte(s, '\n'); i >= 0 {
		return s[:i]
	}
	return s
}

var runtimePanicClasses = map[string]bool{"nilderef": true, "index": true, "slicebounds": true, "divzero": true, "typeassert": true, "nilmap": true, "negshift": true, "slice2array": true, "makeslice": true, "uncomparable": true}

// twoRuntimePanics: the expected record and all IR records (which agree with
// each other) end in run-time panics of different classes and agree on
// everything else.
func twoRuntimePanics(exp string, got map[string]string) bool {
	strip := func(rec string) (class, rest string) {
		var keep []string
		for _, l := range strings.Split(rec, "\n") {
			if strings.HasPrefix(l, "panic ") {
				class = strings.TrimPrefix(l, "panic ")
				continue
			}
			keep = append(keep, l)
		}
		return class, strings.Join(keep, "\n")
	}
	ec, er := strip(exp)
	if !runtimePanicClasses[ec] {
		return false
	}
	first := ""
	for _, g := range got {
		gc, gr := strip(g)
		if !runtimePanicClasses[gc] || gc == ec || gr != er {
			return false
		}
		if first == "" {
			first = g
		} else if g != first {
			return false
		}
	}
	return first != ""
}

// diffKind names the first field in which two records differ.
func diffKind(exp, got string) string {
	if strings.Contains(got, "\nSTUCK ") {
		return "stuck"
	}
	el, gl := strings.Split(exp, "\n"), strings.Split(got, "\n")
	for i := range el {
		if i >= len(gl) {
			return "short"
		}
		if el[i] != gl[i] {
			if f := strings.Fields(el[i]); len(f) > 0 {
				return f[0]
			}
			return "line"
		}
	}
	return "extra"
}

// streamOf is a mode-independent rendering of a function's instruction
// stream, used only to measure whether lifting changed anything.
func streamOf(fn *ir.Function) string {
	var b strings.Builder
	for _, blk := range fn.Blocks {
		fmt.Fprintf(&b, "b%d:", blk.Index)
		for _, in := range blk.Instrs {
			if _, ok := in.(*ir.DebugRef); ok {
				continue
			}
			b.WriteString(strings.TrimPrefix(fmt.Sprintf("%T", in), "*ir."))
			b.WriteByte(' ')
		}
	}
	return b.String()
}

func allFunctions(pkg *ir.Package) []*ir.Function {
	var out []*ir.Function
	seen := map[*ir.Function]bool{}
	var add func(f *ir.Function)
	add = func(f *ir.Function) {
		if f == nil || seen[f] {
			return
		}
		seen[f] = true
		out = append(out, f)
		for _, a := range f.AnonFuncs {
			add(a)
		}
	}
	var names []string
	for n := range pkg.Members {
		names = append(names, n)
	}
	sort.Strings(names)
	for _, n := range names {
		if f, ok := pkg.Members[n].(*ir.Function); ok {
			add(f)
		}
	}
	rest := append([]*ir.Function(nil), pkg.Functions...)
	sort.SliceStable(rest, func(i, j int) bool { return rest[i].String() < rest[j].String() })
	for _, f := range rest {
		add(f)
	}
	return out
}

func qualName(f *ir.Function) string {
	if f.Parent() != nil {
		return qualName(f.Parent()) + "/" + f.Name()
	}
	return f.String()
}

// GroundTruth compiles and runs the program, returning its stdout.
func GroundTruth(dir string, prog *gen.Program) (string, error) {
	if err := os.MkdirAll(dir, 0o755); err != nil {
		return "", err
	}
	for name, src := range prog.Files() {
		if err := os.WriteFile(filepath.Join(dir, name), []byte(src), 0o644); err != nil {
			return "", err
		}
	}
	os.WriteFile(filepath.Join(dir, "go.mod"), []byte("module execprog\n\ngo 1.26\n"), 0o644)
	bin := filepath.Join(dir, "prog.bin")
	cmd := exec.Command("go", "build", "-o", bin, ".")
	cmd.Dir = dir
	cmd.Env = vf.GoEnv()
	if b, err := cmd.CombinedOutput(); err != nil {
		return "", fmt.Errorf("go build: %v\n%s", err, b)
	}
	run := exec.Command("timeout", "-s", "QUIT", "60", bin)
	run.Dir = dir
	var stdout, stderr bytes.Buffer
	run.Stdout, run.Stderr = &stdout, &stderr
	if err := run.Run(); err != nil {
		return "", fmt.Errorf("run: %v\n%s", err, tail(stderr.String(), 800))
	}
	return stdout.String(), nil
}

func tail(s string, n int) string {
	if len(s) > n {
		return s[len(s)-n:]
	}
	return s
}

// GroundTruthBatch compiles several programs into ONE binary (each program
// becomes a package pN of a scratch module, a generated main dispatches on
// os.Args[1]) and runs it once per program. One link instead of len(progs)
// links; compile+link dominates the cost of this check. The outputs are
// byte-identical to those of the stand-alone programs except for the package
// qualifier in %T of explicit panic values, which is mapped back to "main.".
func GroundTruthBatch(dir string, progs []*gen.Program, idx []int) (map[int]string, error) {
	if err := os.MkdirAll(dir, 0o755); err != nil {
		return nil, err
	}
	defer os.RemoveAll(dir)
	var imports, cases strings.Builder
	for _, i := range idx {
		pn := fmt.Sprintf("p%d", i)
		pd := filepath.Join(dir, pn)
		if err := os.MkdirAll(pd, 0o755); err != nil {
			return nil, err
		}
		src := strings.Replace(progs[i].Source, "package main\n", "package "+pn+"\n", 1)
		drv := strings.Replace(progs[i].Driver, "package main\n", "package "+pn+"\n", 1)
		drv = strings.Replace(drv, "\nfunc main() {\n", "\nfunc Main() {\n", 1)
		if err := os.WriteFile(filepath.Join(pd, "prog.go"), []byte(src), 0o644); err != nil {
			return nil, err
		}
		if err := os.WriteFile(filepath.Join(pd, "main.go"), []byte(drv), 0o644); err != nil {
			return nil, err
		}
		fmt.Fprintf(&imports, "\t%q\n", "execbatch/"+pn)
		fmt.Fprintf(&cases, "\tcase %q:\n\t\t%s.Main()\n", pn, pn)
	}
	main := "package main\n\nimport (\n\t\"os\"\n" + imports.String() + ")\n\nfunc main() {\n\tswitch os.Args[1] {\n" + cases.String() + "\t}\n}\n"
	os.WriteFile(filepath.Join(dir, "main.go"), []byte(main), 0o644)
	os.WriteFile(filepath.Join(dir, "go.mod"), []byte("module execbatch\n\ngo 1.26\n"), 0o644)
	bin := filepath.Join(dir, "batch.bin")
	cmd := exec.Command("go", "build", "-o", bin, ".")
	cmd.Dir = dir
	cmd.Env = vf.GoEnv()
	if b, err := cmd.CombinedOutput(); err != nil {
		return nil, fmt.Errorf("go build (batch): %v\n%s", err, tail(string(b), 2000))
	}
	outs := map[int]string{}
	for _, i := range idx {
		pn := fmt.Sprintf("p%d", i)
		run := exec.Command("timeout", "-s", "QUIT", "60", bin, pn)
		run.Dir = dir
		var stdout, stderr bytes.Buffer
		run.Stdout, run.Stderr = &stdout, &stderr
		if err := run.Run(); err != nil {
			return nil, fmt.Errorf("run %s: %v\n%s", pn, err, tail(stderr.String(), 800))
		}
		o := stdout.String()
		o = strings.ReplaceAll(o, "panic(error:"+pn+".", "panic(error:main.")
		o = strings.ReplaceAll(o, "panic(error:*"+pn+".", "panic(error:*main.")
		o = strings.ReplaceAll(o, "panic("+pn+".", "panic(main.")
		o = strings.ReplaceAll(o, "panic(*"+pn+".", "panic(*main.")
		outs[i] = o
	}
	return outs, nil
}

// CheckProgram validates one program. dir is a private scratch directory.
func CheckProgram(idx int, prog *gen.Program, dir string) *Result {
	expOut, err := GroundTruth(dir, prog)
	os.RemoveAll(dir)
	return CheckWithTruth(idx, prog, expOut, err)
}

// CheckWithTruth compares the IR executions of prog with expOut, the output
// of the compiled program (err != nil: the toolchain rejected the program).
func CheckWithTruth(idx int, prog *gen.Program, expOut string, err error) *Result {
	res := &Result{Index: idx, Kinds: map[string]int64{}, LiftChanged: map[string]bool{}, ExecutedFns: map[string]bool{}, Features: map[string]int{}}
	res.Functions = len(prog.Funcs)
	for _, f := range prog.Funcs {
		res.Vectors += len(f.Vectors)
		for _, ft := range f.Features {
			res.Features[ft]++
		}
	}
	if err != nil {
		res.Discarded = err.Error()
		return res
	}
	keys, exp := gen.SplitRecords(expOut)
	res.Records = len(keys)
	if len(keys) != res.Vectors {
		res.Discarded = fmt.Sprintf("driver printed %d records, expected %d", len(keys), res.Vectors)
		return res
	}

	got := map[string]interpResult{}
	streams := map[string]map[string]string{}
	pkgs := map[string]*ir.Package{}
	for _, md := range Modes {
		pkg, err := BuildIR(prog.Source, md.Bits)
		if err != nil {
			res.Inconclusive = append(res.Inconclusive, fmt.Sprintf("%s: %s", md.Name, firstLine(err.Error())))
			continue
		}
		pkgs[md.Name] = pkg
		st := map[string]string{}
		for _, fn := range allFunctions(pkg) {
			st[qualName(fn)] = streamOf(fn)
		}
		streams[md.Name] = st
		r := interpretAll(pkg, prog)
		if r.fatal != "" {
			res.Inconclusive = append(res.Inconclusive, md.Name+": "+r.fatal)
			continue
		}
		got[md.Name] = r
		for k, n := range r.kinds {
			res.Kinds[k] += n
		}
		if md.Name == "lifted" {
			for _, fn := range allFunctions(pkg) {
				hasPhi, hasSplit := false, false
				for _, blk := range fn.Blocks {
					for _, in := range blk.Instrs {
						switch in := in.(type) {
						case *ir.Phi:
							hasPhi = true
						case *ir.Alloc:
							if strings.Contains(in.Comment(), "split alloc") {
								hasSplit = true
							}
						}
					}
				}
				if hasPhi {
					res.WithPhi++
				}
				if hasSplit {
					res.WithSplit++
				}
				if fn.Recover != nil {
					res.WithRecover++
				}
			}
			for fn := range r.executed {
				res.ExecutedFns[qualName(fn)] = true
			}
		}
	}
	if n, l := streams["naive"], streams["lifted"]; n != nil && l != nil {
		for name, s := range l {
			if ns, ok := n[name]; ok && ns != s && res.ExecutedFns[name] {
				res.LiftChanged[name] = true
			}
		}
	}

	unsupSeen := map[string]bool{}
	for _, key := range keys {
		var bad []string
		gotRec := map[string]string{}
		kind := ""
		for _, md := range Modes {
			r, ok := got[md.Name]
			if !ok {
				continue
			}
			if why, ok := r.unsup[key]; ok {
				if !unsupSeen[why] {
					unsupSeen[why] = true
					res.Inconclusive = append(res.Inconclusive, "unsupported: "+why)
				}
				continue
			}
			if _, ok := r.unspec[key]; ok {
				res.Unspecified++
				continue
			}
			g, ok := r.recs[key]
			res.Compared++
			if !ok {
				bad = append(bad, md.Name)
				gotRec[md.Name] = "(no record)"
				if kind == "" {
					kind = "missing"
				}
				continue
			}
			if g != exp[key] {
				bad = append(bad, md.Name)
				gotRec[md.Name] = g
				if kind == "" {
					kind = diffKind(exp[key], g)
				}
			}
		}
		if len(bad) == len(Modes) && kind == "panic" && twoRuntimePanics(exp[key], gotRec) {
			// Both sides stop with a run-time panic, of different classes, after the same trace:
			// one statement held two operations that panic (an index expression and a
			// slice-to-array conversion, say), and the language does not order them.
			res.Unspecified += len(bad)
			res.Compared -= len(bad)
			continue
		}
		if len(bad) > 0 {
			mm := Mismatch{Key: key, Kind: kind, Modes: bad, Expected: exp[key], Got: gotRec}
			if strings.Join(bad, ",") == "lifted,lifted+debug" {
				name := key[:strings.Index(key, " #")]
				if rundefersDropped(pkgs["naive"], pkgs["lifted"], name) {
					mm.Tag = "rundefers-dropped(rangefunc-defer)"
				}
			}
			res.Mismatches = append(res.Mismatches, mm)
		}
	}
	return res
}

// rundefersDropped recognises one specific builder defect so that it gets a
// key of its own: lifting removes every RunDefers from a function that has
// no Defer instruction of its own, although a range-over-func yield function
// nested in it pushes deferred calls onto its defer stack (Defer.DeferStack).
// It reports whether function name, or a function statically reachable from
// it, has RunDefers in the naive build, none in the lifted build, and a
// nested function with a Defer that names an outer defer stack.
func rundefersDropped(naive, lifted *ir.Package, name string) bool {
	if naive == nil || lifted == nil {
		return false
	}
	count := func(fn *ir.Function) (n int) {
		for _, b := range fn.Blocks {
			for _, in := range b.Instrs {
				if _, ok := in.(*ir.RunDefers); ok {
					n++
				}
			}
		}
		return n
	}
	var defersOutward func(fn *ir.Function) bool
	defersOutward = func(fn *ir.Function) bool {
		for _, a := range fn.AnonFuncs {
			for _, b := range a.Blocks {
				for _, in := range b.Instrs {
					if d, ok := in.(*ir.Defer); ok && d.DeferStack != nil {
						return true
					}
				}
			}
			if defersOutward(a) {
				return true
			}
		}
		return false
	}
	naiveByName := map[string]*ir.Function{}
	for _, fn := range allFunctions(naive) {
		naiveByName[qualName(fn)] = fn
	}
	start := lifted.Func(name)
	if start == nil {
		return false
	}
	seen := map[*ir.Function]bool{}
	work := []*ir.Function{start}
	for len(work) > 0 {
		fn := work[len(work)-1]
		work = work[:len(work)-1]
		if fn == nil || seen[fn] {
			continue
		}
		seen[fn] = true
		if nf := naiveByName[qualName(fn)]; nf != nil && count(nf) > 0 && count(fn) == 0 && defersOutward(fn) {
			return true
		}
		work = append(work, fn.AnonFuncs...)
		var rands []*ir.Value
		for _, b := range fn.Blocks {
			for _, in := range b.Instrs {
				rands = in.Operands(rands[:0])
				for _, r := range rands {
					if f, ok := (*r).(*ir.Function); ok {
						work = append(work, f)
					}
				}
			}
		}
	}
	return false
}

func modesKey(bad []string) string {
	if len(bad) == len(Modes) {
		return "all"
	}
	return strings.Join(bad, ",")
}

// Run is the entry point of the check.
func Run(r *vf.Run) {
	n := r.Pick(24, 600)
	if s := os.Getenv("C01_PROGRAMS"); s != "" {
		if v, err := strconv.Atoi(s); err == nil {
			n = v
		}
	}
	scratch := r.Scratch()
	progs := make([]*gen.Program, n)
	for i := range progs {
		progs[i] = gen.ExecProgram(r.Rand("prog", i), gen.ExecOpts{})
		// add the hand-designed shape families to every program
		if withT, err := gen.ProgramFromSource(r.Rand("tplvec", i), progs[i].Source+shapeTemplates(r.Rand("tpl", i)), 10); err == nil {
			// keep the generator's own vectors for its functions
			own := map[string][][]gen.Arg{}
			for _, f := range progs[i].Funcs {
				own[f.Name] = f.Vectors
			}
			for k := range withT.Funcs {
				if v, ok := own[withT.Funcs[k].Name]; ok {
					withT.Funcs[k].Vectors = v
				}
			}
			withT.Driver = gen.ExecDriver(withT.Funcs, withT.Globals)
			progs[i] = withT
		}
	}
	results := make([]*Result, n)
	workers := runtime.GOMAXPROCS(0)
	if workers > 16 {
		workers = 16
	}
	// Phase 1: ground truth, in batches that share one link; at most three
	// batch builds at a time (each go build is itself parallel). A batch that
	// fails to build falls back to stand-alone builds so that the offending
	// program can be counted as discarded.
	const batchSize = 8
	truth := make([]string, n)
	truthErr := make([]error, n)
	{
		var wg sync.WaitGroup
		sem := make(chan struct{}, max(1, workers/6)) // each go build is itself GOMAXPROCS-parallel
		for lo := 0; lo < n; lo += batchSize {
			hi := min(lo+batchSize, n)
			var idx []int
			for i := lo; i < hi; i++ {
				idx = append(idx, i)
			}
			wg.Add(1)
			sem <- struct{}{}
			go func() {
				defer wg.Done()
				defer func() { <-sem }()
				outs, err := GroundTruthBatch(filepath.Join(scratch, fmt.Sprintf("batch%d", idx[0])), progs, idx)
				if err == nil {
					for _, i := range idx {
						truth[i] = outs[i]
					}
					return
				}
				for _, i := range idx {
					d := filepath.Join(scratch, fmt.Sprintf("p%d", i))
					truth[i], truthErr[i] = GroundTruth(d, progs[i])
					os.RemoveAll(d)
				}
			}()
		}
		wg.Wait()
	}
	// Phase 2: build the IR in four modes and interpret, one program per worker.
	var wg sync.WaitGroup
	next := make(chan int)
	for w := 0; w < workers; w++ {
		wg.Add(1)
		go func() {
			defer wg.Done()
			for i := range next {
				results[i] = CheckWithTruth(i, progs[i], truth[i], truthErr[i])
			}
		}()
	}
	for i := 0; i < n; i++ {
		next <- i
	}
	close(next)
	wg.Wait()

	kinds := map[string]int64{}
	features := map[string]int{}
	liftChanged := 0
	discarded, inconclusivePrograms := 0, 0
	var inconclReasons = map[string]int{}
	compared := 0
	for i, res := range results {
		if res.Discarded != "" {
			discarded++
			r.Sample(map[string]any{"program": i, "discarded": tail(res.Discarded, 600)}, 5)
			continue
		}
		r.Add("programs", 1)
		r.Add("functions", res.Functions)
		r.Add("vectors", res.Vectors)
		r.Add("functions_with_phi", res.WithPhi)
		r.Add("functions_with_recover_block", res.WithRecover)
		r.Add("records_not_compared_language_leaves_behaviour_open", res.Unspecified)
		r.Add("functions_with_split_alloc", res.WithSplit)
		compared += res.Compared
		liftChanged += len(res.LiftChanged)
		for k, v := range res.Kinds {
			kinds[k] += v
		}
		for k, v := range res.Features {
			features[k] += v
		}
		if len(res.Inconclusive) > 0 {
			inconclusivePrograms++
			for _, why := range res.Inconclusive {
				inconclReasons[why]++
			}
		}
		for _, mm := range res.Mismatches {
			key := fmt.Sprintf("mismatch:%s:%s", mm.Kind, modesKey(mm.Modes))
			if mm.Tag != "" {
				key = fmt.Sprintf("mismatch:%s:%s", mm.Tag, modesKey(mm.Modes))
			}
			fn, vec := mm.Key, ""
			if j := strings.Index(mm.Key, " #"); j >= 0 {
				fn, vec = mm.Key[:j], mm.Key[j+2:]
			}
			var vector any
			for _, f := range progs[i].Funcs {
				if f.Name == fn {
					if vi, err := strconv.Atoi(vec); err == nil && vi < len(f.Vectors) {
						vector = f.Vectors[vi]
					}
				}
			}
			r.Violation(key, fmt.Sprintf("program %d, %s: IR in mode(s) %s disagrees with the compiled program (%s)", i, mm.Key, strings.Join(mm.Modes, ","), mm.Kind),
				map[string]any{"program_index": i, "function": fn, "vector_index": vec, "vector": vector, "modes": mm.Modes,
					"all_modes_agree_with_each_other": len(mm.Modes) == len(Modes), "expected": mm.Expected, "got": mm.Got, "source": progs[i].Source})
		}
	}
	r.Set("disagreements_checked", compared)
	r.Set("ir_instruction_kinds_executed", kinds)
	r.Set("generator_features", features)
	r.Set("discarded_programs", discarded)
	r.Set("inconclusive_programs", inconclusivePrograms)
	if len(inconclReasons) > 0 {
		r.Set("inconclusive_reasons", inconclReasons)
	}
	r.Set("modes", []string{"naive", "naive+debug", "lifted", "lifted+debug"})
	if len(progs) > 0 {
		r.Sample(map[string]any{"program": 0, "functions": len(progs[0].Funcs), "source_bytes": len(progs[0].Source)}, 5)
	}
	if discarded*20 > n {
		r.Inconclusive("%d of %d generated programs were rejected by the toolchain (generator bug, > 5%%)", discarded, n)
	}
	if inconclusivePrograms*5 > n {
		r.Inconclusive("%d of %d programs were (partly) inconclusive: builder panic or unsupported construct", inconclusivePrograms, n)
	}
	floor := r.Pick(100, 2500)
	if os.Getenv("C01_PROGRAMS") != "" {
		floor = 1
	}
	r.Finish(compared, liftChanged, floor,
		"evaluations = record comparisons (function x vector x mode) against the compiled binary; distinct_nontrivial = functions (incl. closures) whose lifted instruction stream differs from the naive one and that were executed by the interpreter")
}
