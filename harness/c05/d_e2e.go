package c05

import (
	"bytes"
	"fmt"
	"io"
	"io/fs"
	"math/rand/v2"
	"os"
	"os/exec"
	"path/filepath"
	"sort"
	"strings"
	"sync"
	"syscall"

	"verif/vf"
)

// Monitor (d): end to end. The output of bin/staticcheck (stdout bytes + exit
// status) through a damaged / crashed / concurrently shared cache must equal
// the output of a run that started from an empty cache.

var e2eFiles = map[string]string{
	"go.mod": "module example.com/c05mod\n\ngo 1.22\n",
	"a/a.go": `// Package a is the bottom of the dependency chain: its facts (deprecation,
// purity) travel through the cache to the packages above.
package a

import "errors"

// Old is the old way.
//
// Deprecated: use New instead.
func Old() int { return 1 }

// New is the new way.
func New() int { return 2 }

// Double has no side effects.
func Double(x int) int { return x * 2 }

// ErrBad is returned by Check.
var ErrBad = errors.New("Bad thing happened.")

// Check always fails.
func Check(x int) error {
	if x == x {
		return ErrBad
	}
	return nil
}

func unusedHelper() {}
`,
	"b/b.go": `package b

import (
	"fmt"
	"strings"

	"example.com/c05mod/a"
)

// Use calls into a.
func Use(s string) string {
	a.Double(3)
	n := a.Old()
	if strings.Index(s, "x") != -1 {
		n++
	}
	return fmt.Sprintf("%d %s", n)
}

// T is a type with a deprecated method.
type T struct{ n int }

// Get is old.
//
// Deprecated: read the field.
func (t T) Get() int { return t.n }

type unusedType struct{}
`,
	"c/c.go": `package c

import (
	"os"
	"time"

	"example.com/c05mod/a"
	"example.com/c05mod/b"
)

// Run uses both lower packages.
func Run() {
	var t b.T
	_ = t.Get()
	_ = a.Old()
	b.Use("q")
	time.Sleep(5)
	var err error = a.Check(1)
	if err != nil {
		os.Exit(1)
	}
	for false {
	}
}
`,
	"c/c_test.go": `package c

import "testing"

func TestRun(t *testing.T) {
	go func() { t.Fatal("no") }()
}
`,
}

type lintOut struct {
	Stdout []byte
	Stderr string
	Exit   int // -9 = killed by SIGKILL
	Puts   int // stores the run performed (hook log), -1 unknown
}

func (m *monitor) lint(bin, mod, cacheDir, scratch string, tag string, extraEnv ...string) lintOut {
	hl := filepath.Join(scratch, "hook-"+tag+".log")
	os.Remove(hl)
	cmd := exec.Command("timeout", "-s", "QUIT", "600", bin, "-f", "json", "-checks", "all", "./...")
	cmd.Dir = mod
	var env []string
	for _, e := range vf.GoEnv() {
		if strings.HasPrefix(e, "VERIF_") || strings.HasPrefix(e, "STATICCHECK_CACHE=") || strings.HasPrefix(e, "GODEBUG=") {
			continue
		}
		env = append(env, e)
	}
	cmd.Env = append(append(env, "STATICCHECK_CACHE="+cacheDir, "VERIF_HOOK_LOG="+hl), extraEnv...)
	var so, se bytes.Buffer
	cmd.Stdout, cmd.Stderr = &so, &se
	err := cmd.Run()
	out := lintOut{Stdout: so.Bytes(), Stderr: se.String(), Puts: -1}
	if ee, ok := err.(*exec.ExitError); ok {
		out.Exit = ee.ExitCode()
		if ws, ok := ee.ProcessState.Sys().(syscall.WaitStatus); ok && ws.Signaled() {
			out.Exit = -int(ws.Signal())
		}
		if out.Exit == 137 {
			out.Exit = -9
		}
	} else if err != nil {
		out.Exit = -1000
		out.Stderr += err.Error()
	}
	if b, err := os.ReadFile(hl); err == nil {
		out.Puts = strings.Count(string(b), " cache.put.hashed ")
	}
	return out
}

func hookCounts(path string) map[string]int {
	c := map[string]int{}
	b, _ := os.ReadFile(path)
	for _, l := range strings.Split(string(b), "\n") {
		f := strings.Fields(l)
		if len(f) >= 2 {
			c[f[1]]++
		}
	}
	return c
}

func copyTree(src, dst string) error {
	return filepath.WalkDir(src, func(p string, d fs.DirEntry, err error) error {
		if err != nil {
			return err
		}
		rel, _ := filepath.Rel(src, p)
		if d.IsDir() {
			return os.MkdirAll(filepath.Join(dst, rel), 0o755)
		}
		in, err := os.Open(p)
		if err != nil {
			return err
		}
		defer in.Close()
		out, err := os.Create(filepath.Join(dst, rel))
		if err != nil {
			return err
		}
		_, err = io.Copy(out, in)
		if cerr := out.Close(); err == nil {
			err = cerr
		}
		return err
	})
}

func cacheFiles(dir string) (idx, data []string) {
	filepath.WalkDir(dir, func(p string, d fs.DirEntry, err error) error {
		if err != nil || d.IsDir() {
			return nil
		}
		switch {
		case strings.HasSuffix(p, "-a"):
			idx = append(idx, p)
		case strings.HasSuffix(p, "-d"):
			data = append(data, p)
		}
		return nil
	})
	sort.Strings(idx)
	sort.Strings(data)
	return
}

var damageNames = []string{
	"all-data-minus-1-byte", "all-data-empty", "all-index-random-length", "all-data-removed", "all-index-removed",
	"random-40pct-mixed", "random-15pct-mixed", "all-data-half", "all-data-plus-garbage", "index-entries-swapped",
	"trim-txt-removed+random-25pct-truncated",
}

// damage applies strategy s to a populated cache directory; returns how many
// files were changed.
func damage(dir string, s int, rng *rand.Rand) (changed int) {
	idx, data := cacheFiles(dir)
	trunc := func(p string, n int64) {
		if os.Truncate(p, n) == nil {
			changed++
		}
	}
	size := func(p string) int64 {
		if fi, err := os.Stat(p); err == nil {
			return fi.Size()
		}
		return 0
	}
	garbage := func(p string, n int) {
		if f, err := os.OpenFile(p, os.O_WRONLY|os.O_APPEND, 0); err == nil {
			f.Write(genValue("e2e-garbage", n))
			f.Close()
			changed++
		}
	}
	remove := func(p string) {
		if os.Remove(p) == nil {
			changed++
		}
	}
	mixed := func(pct int) {
		for _, p := range append(append([]string{}, idx...), data...) {
			if rng.IntN(100) >= pct {
				continue
			}
			switch rng.IntN(4) {
			case 0:
				remove(p)
			case 1:
				if n := size(p); n > 0 {
					trunc(p, rng.Int64N(n))
				}
			case 2:
				if n := size(p); n > 0 {
					trunc(p, n-1)
				}
			case 3:
				garbage(p, 1+rng.IntN(300))
			}
		}
	}
	switch damageNames[s] {
	case "all-data-minus-1-byte":
		for _, p := range data {
			if n := size(p); n > 0 {
				trunc(p, n-1)
			}
		}
	case "all-data-empty":
		for _, p := range data {
			trunc(p, 0)
		}
	case "all-index-random-length":
		for _, p := range idx {
			trunc(p, rng.Int64N(size(p)+1))
		}
	case "all-data-removed":
		for _, p := range data {
			remove(p)
		}
	case "all-index-removed":
		for _, p := range idx {
			remove(p)
		}
	case "random-40pct-mixed":
		mixed(40)
	case "random-15pct-mixed":
		mixed(15)
	case "all-data-half":
		for _, p := range data {
			trunc(p, size(p)/2)
		}
	case "all-data-plus-garbage":
		for _, p := range data {
			garbage(p, 1+rng.IntN(64))
		}
	case "index-entries-swapped":
		// every index file receives the (complete, well-formed) entry of its neighbour
		var contents [][]byte
		for _, p := range idx {
			b, _ := os.ReadFile(p)
			contents = append(contents, b)
		}
		for i, p := range idx {
			if len(idx) > 1 && os.WriteFile(p, contents[(i+1)%len(idx)], 0o666) == nil {
				changed++
			}
		}
	case "trim-txt-removed+random-25pct-truncated":
		os.Remove(filepath.Join(dir, "trim.txt"))
		for _, p := range append(append([]string{}, idx...), data...) {
			if rng.IntN(100) < 25 {
				if n := size(p); n > 0 {
					trunc(p, rng.Int64N(n))
				}
			}
		}
	}
	return
}

func (m *monitor) runE2E() {
	r := m.r
	bin := r.BuildBin("staticcheck", "honnef.co/go/tools/cmd/staticcheck", false)
	base := filepath.Join(r.Scratch(), "d")
	mod := filepath.Join(base, "mod")
	defer os.RemoveAll(base)
	for name, src := range e2eFiles {
		p := filepath.Join(mod, name)
		os.MkdirAll(filepath.Dir(p), 0o755)
		if err := os.WriteFile(p, []byte(src), 0o644); err != nil {
			r.Inconclusive("(d) %v", err)
			return
		}
	}
	newCache := func(name string) string {
		d := filepath.Join(base, name)
		os.RemoveAll(d)
		os.MkdirAll(d, 0o755)
		return d
	}

	// reference: empty cache
	c0 := newCache("cache-ref")
	ref := m.lint(bin, mod, c0, base, "ref")
	nprob := bytes.Count(ref.Stdout, []byte("\n"))
	r.Set("d_reference_problems", nprob)
	r.Set("d_reference_exit", ref.Exit)
	r.Set("d_reference_stores", ref.Puts)
	if ref.Exit != 1 || nprob < 5 || !bytes.Contains(ref.Stdout, []byte(`"SA1019"`)) {
		r.Inconclusive("(d) reference lint is not usable: exit=%d problems=%d stderr=%.300s", ref.Exit, nprob, ref.Stderr)
		return
	}
	counts := hookCounts(filepath.Join(base, "hook-ref.log"))
	idx0, data0 := cacheFiles(c0)
	r.Set("d_reference_cache_files", map[string]int{"index": len(idx0), "data": len(data0)})

	var mu sync.Mutex
	compare := func(class string, got lintOut, replay map[string]any) {
		if got.Exit == 124 || got.Exit == -1000 { // watchdog / could not run: never a verdict
			r.Inconclusive("(d) lint run (%s) did not complete: exit %d %.200s", class, got.Exit, got.Stderr)
			return
		}
		m.eval(1)
		if got.Exit == ref.Exit && bytes.Equal(got.Stdout, ref.Stdout) {
			return
		}
		replay["reference_exit"] = ref.Exit
		replay["reference_stdout"] = string(ref.Stdout)
		replay["got_exit"] = got.Exit
		replay["got_stdout"] = string(got.Stdout)
		replay["got_stderr"] = got.Stderr
		replay["module"] = e2eFiles
		replay["command"] = "STATICCHECK_CACHE=<dir> staticcheck -f json -checks all ./..."
		mu.Lock()
		defer mu.Unlock()
		r.Violation("e2e-output-differs:"+class, fmt.Sprintf("staticcheck through a %s cache: exit %d (reference %d), stdout %d bytes (reference %d)", class, got.Exit, ref.Exit, len(got.Stdout), len(ref.Stdout)), replay)
	}

	before := r.Violations()
	// a second, independent cold run and a warm run: the comparison itself
	// must be meaningful (deterministic output, warm == cold)
	cold2 := m.lint(bin, mod, newCache("cache-ref2"), base, "ref2")
	compare("second-empty", cold2, map[string]any{})
	warm := m.lint(bin, mod, c0, base, "warm")
	compare("warm", warm, map[string]any{})
	r.Set("d_warm_stores", warm.Puts)
	if r.Violations() > before {
		return // the comparison itself is not meaningful on this tree; already reported
	}

	type task func(slot int)
	var tasks []task
	var relintPuts []int
	var damagedFiles int
	killedByPoint := map[string]int{}
	notKilled := 0

	// (1) damaged caches
	chains := r.Pick(3, 11)
	rounds := r.Pick(3, 12)
	for ch := 0; ch < chains; ch++ {
		ch := ch
		tasks = append(tasks, func(slot int) {
			cd := newCache(fmt.Sprintf("cache-dmg%d", ch))
			if err := copyTree(c0, cd); err != nil {
				r.Inconclusive("(d) copy: %v", err)
				return
			}
			for round := 0; round < rounds; round++ {
				s := (ch + round*chains) % len(damageNames)
				rng := r.Rand("d-damage", ch*1000+round)
				n := damage(cd, s, rng)
				sig, nf := dirSignature(cd)
				tag := fmt.Sprintf("dmg%d", ch)
				got := m.lint(bin, mod, cd, base, tag)
				compare("damaged-cache", got, map[string]any{"damage": damageNames[s], "chain": ch, "round": round, "files_changed": n, "files": nf})
				mu.Lock()
				if n > 0 {
					m.distinct.add("d/" + sig)
				}
				damagedFiles += n
				relintPuts = append(relintPuts, got.Puts)
				if ch == 0 && round == 0 {
					r.Sample(map[string]any{"monitor": "d", "damage": damageNames[s], "files_changed": n, "files": nf, "stores_in_relint": got.Puts, "stores_cold": ref.Puts, "output_equal": got.Exit == ref.Exit && bytes.Equal(got.Stdout, ref.Stdout)}, 12)
				}
				mu.Unlock()
			}
			os.RemoveAll(cd)
		})
	}

	// (2) lint runs killed at the n-th hit of a store point, then a run on the leftover
	perPoint := r.Pick(1, 10)
	for pi, p := range storePoints {
		total := counts[p]
		if total == 0 {
			r.Set("d_point_never_reached:"+p, true)
			continue
		}
		rng := r.Rand("d-crash", pi)
		// one n from each of perPoint equal strata of 1..total (all n if few)
		var nl []int
		if total <= perPoint {
			for n := 1; n <= total; n++ {
				nl = append(nl, n)
			}
		} else {
			for i := 0; i < perPoint; i++ {
				lo, hi := 1+i*total/perPoint, 1+(i+1)*total/perPoint
				nl = append(nl, lo+rng.IntN(hi-lo))
			}
		}
		for _, n := range nl {
			p, n := p, n
			tasks = append(tasks, func(slot int) {
				tag := fmt.Sprintf("crash-%s-%d", p, n)
				cd := newCache("cache-" + tag)
				defer os.RemoveAll(cd)
				killed := m.lint(bin, mod, cd, base, tag+"-k", fmt.Sprintf("VERIF_CRASH_AT=%s#%d", p, n))
				sig, nf := dirSignature(cd)
				got := m.lint(bin, mod, cd, base, tag)
				compare("after-crash-at:"+p, got, map[string]any{"crash_at": fmt.Sprintf("%s#%d", p, n), "killed_run_exit": killed.Exit, "files_left": nf})
				mu.Lock()
				if killed.Exit == -9 {
					killedByPoint[p]++
					m.distinct.add("d/" + sig)
				} else {
					notKilled++
				}
				relintPuts = append(relintPuts, got.Puts)
				mu.Unlock()
			})
		}
	}

	// (3) several lint processes sharing one empty cache
	concRounds := r.Pick(2, 8)
	for cr := 0; cr < concRounds; cr++ {
		cr := cr
		tasks = append(tasks, func(slot int) {
			cd := newCache(fmt.Sprintf("cache-conc%d", cr))
			defer os.RemoveAll(cd)
			np := 2 + cr%2
			outs := make([]lintOut, np)
			var wg sync.WaitGroup
			for i := 0; i < np; i++ {
				wg.Add(1)
				go func(i int) {
					defer wg.Done()
					var extra []string
					if cr%2 == 1 { // perturb schedules at the hook points
						extra = append(extra, fmt.Sprintf("VERIF_HOOKS=%d:150:1500", r.Seed*100+int64(cr*10+i)))
					}
					outs[i] = m.lint(bin, mod, cd, base, fmt.Sprintf("conc%d-%d", cr, i), extra...)
				}(i)
			}
			wg.Wait()
			for i := range outs {
				compare("concurrent-processes", outs[i], map[string]any{"round": cr, "process": i, "of": np})
			}
			// and the cache they left together serves a third run
			after := m.lint(bin, mod, cd, base, fmt.Sprintf("conc%d-after", cr))
			compare("after-concurrent-processes", after, map[string]any{"round": cr})
			mu.Lock()
			relintPuts = append(relintPuts, after.Puts)
			mu.Unlock()
		})
	}

	// run the tasks, a few at a time (every lint uses many cores itself)
	par := min(5, par())
	var wg sync.WaitGroup
	tch := make(chan task)
	for w := 0; w < par; w++ {
		wg.Add(1)
		go func(w int) {
			defer wg.Done()
			for t := range tch {
				t(w)
			}
		}(w)
	}
	for _, t := range tasks {
		tch <- t
	}
	close(tch)
	wg.Wait()

	partial := 0
	for _, p := range relintPuts {
		if p >= 0 && p < ref.Puts {
			partial++
		}
	}
	r.Set("d_damage_rounds", chains*rounds)
	r.Set("d_files_damaged", damagedFiles)
	r.Set("d_crash_runs_killed_by_point", killedByPoint)
	r.Set("d_crash_runs_not_killed", notKilled)
	r.Set("d_concurrent_rounds", concRounds)
	r.Set("d_relints", len(relintPuts))
	r.Set("d_relints_that_used_part_of_the_cache", partial)
	r.Set("d_store_point_hits_in_cold_run", counts["cache.put.hashed"])
}
