package c05

import (
	"bytes"
	"crypto/sha256"
	"encoding/json"
	"fmt"
	"math/rand/v2"
	"os"
	"path/filepath"
	"strconv"
	"strings"
	"time"

	"honnef.co/go/tools/lintcmd/cache"
)

// The helper process (cmd/c05child). Everything it is asked to do is written
// to disk by the parent before the call and everything it observes goes to an
// append-only log (one write(2) per record, no buffering), so that a SIGKILL
// at any instant loses nothing the parent needs.

type putStep struct {
	IDGroup string `json:"id_group"`
	IDN     int    `json:"id_n"`
	Tag     string `json:"tag"`
	Size    int    `json:"size"`
	// Damage is applied to the data file of this very value (left by an
	// earlier step) before the Put: "" | "remove" | "truncate" — a store that
	// has to repair a damaged cache, the second fault of a fault sequence.
	Damage string `json:"damage,omitempty"`
}

type appendLog struct{ f *os.File }

func openLog(path string) (*appendLog, error) {
	f, err := os.OpenFile(path, os.O_WRONLY|os.O_CREATE|os.O_APPEND, 0o644)
	if err != nil {
		return nil, err
	}
	return &appendLog{f}, nil
}

func (l *appendLog) line(format string, a ...any) {
	l.f.WriteString(fmt.Sprintf(format, a...) + "\n")
}

func ChildMain(args []string) int {
	if len(args) == 0 {
		fmt.Fprintln(os.Stderr, "usage: c05child seq|loop|worker ...")
		return 3
	}
	var err error
	switch args[0] {
	case "seq":
		err = childSeq(args[1:])
	case "loop":
		err = childLoop(args[1:])
	case "worker":
		err = childWorker(args[1:])
	case "storm":
		err = childStorm(args[1:])
	default:
		err = fmt.Errorf("unknown sub-command %q", args[0])
	}
	if err != nil {
		fmt.Fprintln(os.Stderr, "c05child:", err)
		return 3
	}
	return 0
}

// seq <dir> <specfile> <logfile>: perform the Puts of the spec in order.
func childSeq(a []string) error {
	if len(a) != 3 {
		return fmt.Errorf("seq: want dir spec log")
	}
	b, err := os.ReadFile(a[1])
	if err != nil {
		return err
	}
	var steps []putStep
	if err := json.Unmarshal(b, &steps); err != nil {
		return err
	}
	lg, err := openLog(a[2])
	if err != nil {
		return err
	}
	c, err := cache.Open(a[0])
	if err != nil {
		return err
	}
	for i, s := range steps {
		v := genValue(s.Tag, s.Size)
		if s.Damage != "" {
			p := c.OutputFile(cache.OutputID(sha256.Sum256(v)))
			switch s.Damage {
			case "remove":
				os.Remove(p)
			case "truncate":
				os.Truncate(p, int64(len(v)/2))
			}
		}
		lg.line("C %d", i)
		_, _, err := c.Put(mkID(s.IDGroup, s.IDN), bytes.NewReader(v))
		if err != nil {
			lg.line("R %d err %v", i, err)
		} else {
			lg.line("R %d ok", i)
		}
	}
	return nil
}

var loopSizes = []int{70000, 300000, 1 << 20, 3 << 20, 100, 65536}

func loopStep(trial string, i int) putStep {
	h := fnv(fmt.Sprintf("loop/%s/%d", trial, i))
	return putStep{IDGroup: "b-loop", IDN: int(h % 4), Tag: fmt.Sprintf("loop/%s/%d", trial, i), Size: loopSizes[(h>>8)%uint64(len(loopSizes))]}
}

// loop <dir> <trial> <logfile>: Put large values forever; the parent kills us.
func childLoop(a []string) error {
	if len(a) != 3 {
		return fmt.Errorf("loop: want dir trial log")
	}
	lg, err := openLog(a[2])
	if err != nil {
		return err
	}
	c, err := cache.Open(a[0])
	if err != nil {
		return err
	}
	os.Stdout.WriteString("ready\n")
	for i := 0; i < 1_000_000; i++ {
		s := loopStep(a[1], i)
		v := genValue(s.Tag, s.Size)
		lg.line("C %d", i)
		_, _, err := c.Put(mkID(s.IDGroup, s.IDN), bytes.NewReader(v))
		if err != nil {
			lg.line("R %d err %v", i, err)
		} else {
			lg.line("R %d ok", i)
		}
	}
	return nil
}

// ---------------------------------------------------------------------------
// worker of monitor (c)

type histRec struct {
	W   int    `json:"w"`
	N   int    `json:"n"`
	Ev  string `json:"ev"` // call | ret
	Op  string `json:"op"` // put | getfile | getbytes | trim
	Key int    `json:"key"`
	Val string `json:"val,omitempty"` // put: value stored; lookup ret: value found
	Res string `json:"res,omitempty"` // ok | miss | gone | bad | err
	Det string `json:"det,omitempty"`
}

var concSizes = []int{selfMin, 120, 500, 4096, 32768, 32769, 65537, 100000, 300000}

const sharedPerKey = 4

func sharedSize(key, j int) int {
	return []int{200000, 65537, 300000, 150000}[(key+j)%4]
}

// worker <dir> <wid> <nops> <seed> <nkeys> <logfile> <baddir>
func childWorker(a []string) error {
	if len(a) != 7 {
		return fmt.Errorf("worker: want dir wid nops seed nkeys log baddir")
	}
	dir := a[0]
	wid, _ := strconv.Atoi(a[1])
	nops, _ := strconv.Atoi(a[2])
	seed, _ := strconv.ParseUint(a[3], 10, 64)
	nkeys, _ := strconv.Atoi(a[4])
	lg, err := openLog(a[5])
	if err != nil {
		return err
	}
	baddir := a[6]
	c, err := cache.Open(dir)
	if err != nil {
		return err
	}
	rng := rand.New(rand.NewPCG(seed, uint64(wid)+1))
	rec := func(r histRec) {
		b, _ := json.Marshal(r)
		lg.f.Write(append(b, '\n'))
	}
	seq := 0
	origin := "w" + strconv.Itoa(wid)
	// found classifies the bytes a lookup produced.
	found := func(r *histRec, data []byte) {
		d, err := parseSelf(data)
		if err != nil {
			r.Res = "bad"
			r.Det = err.Error()
			p := filepath.Join(baddir, fmt.Sprintf("bad-w%d-n%d.bin", r.W, r.N))
			if len(data) > 1<<20 {
				data = data[:1<<20]
			}
			os.WriteFile(p, data, 0o644)
			return
		}
		r.Res = "ok"
		r.Val = d.String()
	}
	for n := 0; n < nops; n++ {
		key := rng.IntN(nkeys)
		id := mkID("c-keys", key)
		p := rng.IntN(100)
		switch {
		case p < 36: // Put
			var d selfDesc
			switch q := rng.IntN(10); {
			case q < 3: // a value every process may store: same content from several writers
				j := rng.IntN(sharedPerKey)
				d = selfDesc{key, "S", j, sharedSize(key, j)}
			case q < 4 && seq > 0: // store one of my earlier values again
				s := rng.IntN(seq)
				d = selfDesc{key, origin, s, concSizes[(s+wid)%len(concSizes)]}
			default:
				d = selfDesc{key, origin, seq, concSizes[(seq+wid)%len(concSizes)]}
				seq++
			}
			v := selfValue(d.Key, d.Origin, d.Seq, d.Len)
			rec(histRec{W: wid, N: n, Ev: "call", Op: "put", Key: key, Val: d.String()})
			_, _, err := c.Put(id, bytes.NewReader(v))
			r := histRec{W: wid, N: n, Ev: "ret", Op: "put", Key: key, Val: d.String(), Res: "ok"}
			if err != nil {
				r.Res, r.Det = "err", err.Error()
			}
			rec(r)
		case p < 66: // GetFile + read
			rec(histRec{W: wid, N: n, Ev: "call", Op: "getfile", Key: key})
			r := histRec{W: wid, N: n, Ev: "ret", Op: "getfile", Key: key}
			path, _, err := cache.GetFile(c, id)
			if err != nil {
				r.Res = "miss"
			} else if data, rerr := os.ReadFile(path); rerr != nil {
				r.Res, r.Det = "gone", rerr.Error() // trimmed before we could open it: a miss
			} else {
				found(&r, data)
			}
			rec(r)
		case p < 92: // GetBytes
			rec(histRec{W: wid, N: n, Ev: "call", Op: "getbytes", Key: key})
			r := histRec{W: wid, N: n, Ev: "ret", Op: "getbytes", Key: key}
			data, _, err := cache.GetBytes(c, id)
			if err != nil {
				r.Res = "miss"
			} else {
				found(&r, data)
			}
			rec(r)
		default: // back-date some entries beyond the trim limit, then Trim
			rec(histRec{W: wid, N: n, Ev: "call", Op: "trim", Key: -1})
			old := time.Now().Add(-6 * 24 * time.Hour)
			names, _ := filepath.Glob(filepath.Join(dir, "*", "*-[ad]"))
			aged := 0
			for _, f := range names {
				if rng.IntN(100) < 35 {
					if os.Chtimes(f, old, old) == nil {
						aged++
					}
				}
			}
			os.Remove(filepath.Join(dir, "trim.txt"))
			c.Trim()
			left, _ := filepath.Glob(filepath.Join(dir, "*", "*-[ad]"))
			rec(histRec{W: wid, N: n, Ev: "ret", Op: "trim", Key: -1, Res: "ok", Det: fmt.Sprintf("files=%d aged=%d left=%d", len(names), aged, len(left))})
		}
	}
	return nil
}

func stormSize(j int) int { return []int{1 << 20, 3 << 20, 2<<20 + 17, 640 * 1024}[j%4] }

// storm <dir> <wid> <nproc> <rounds> <seed> <logfile> <baddir>
//
// All processes meet at a barrier (files in <dir>/../barrier); then some of
// them store the *same* new large value under the same key at the same moment
// — what two lint processes analysing the same package do — while the others
// look the key up in a tight loop. The barrier and the staggering only shape
// the schedule; the history is judged by the same offline checker.
func childStorm(a []string) error {
	if len(a) != 7 {
		return fmt.Errorf("storm: want dir wid nproc rounds seed log baddir")
	}
	dir := a[0]
	wid, _ := strconv.Atoi(a[1])
	nproc, _ := strconv.Atoi(a[2])
	rounds, _ := strconv.Atoi(a[3])
	seed, _ := strconv.ParseUint(a[4], 10, 64)
	lg, err := openLog(a[5])
	if err != nil {
		return err
	}
	baddir := a[6]
	bar := filepath.Join(filepath.Dir(dir), "barrier")
	c, err := cache.Open(dir)
	if err != nil {
		return err
	}
	rng := rand.New(rand.NewPCG(seed, uint64(wid)+77))
	n := 0
	rec := func(r histRec) {
		b, _ := json.Marshal(r)
		lg.f.Write(append(b, '\n'))
	}
	var outs []cache.OutputID
	for j := 0; j < rounds; j++ {
		key := j % 3
		id := mkID("c-keys", key)
		d := selfDesc{key, "S", 1000 + j, stormSize(j)}
		want := selfValue(d.Key, d.Origin, d.Seq, d.Len)
		outs = append(outs, cache.OutputID(sha256.Sum256(want)))
		// barrier
		os.WriteFile(filepath.Join(bar, fmt.Sprintf("%d.%d", j, wid)), nil, 0o644)
		deadline := time.Now().Add(120 * time.Second) // watchdog only
		for {
			m, _ := filepath.Glob(filepath.Join(bar, fmt.Sprintf("%d.*", j)))
			if len(m) >= nproc {
				break
			}
			if time.Now().After(deadline) {
				return fmt.Errorf("barrier %d: only %d of %d processes arrived", j, len(m), nproc)
			}
			time.Sleep(20 * time.Microsecond)
		}
		writer := (wid+j)%nproc < 3
		if writer {
			for spin := rng.IntN(4000); spin > 0; spin-- { // stagger the writers a little
				_ = spin * spin
			}
			if rng.IntN(2) == 0 {
				time.Sleep(time.Duration(rng.IntN(600)) * time.Microsecond)
			}
			n++
			rec(histRec{W: wid, N: n, Ev: "call", Op: "put", Key: key, Val: d.String()})
			_, _, err := c.Put(id, bytes.NewReader(want))
			r := histRec{W: wid, N: n, Ev: "ret", Op: "put", Key: key, Val: d.String(), Res: "ok"}
			if err != nil {
				r.Res, r.Det = "err", err.Error()
			}
			rec(r)
		}
		hits := 0
		for try := 0; try < 400 && hits < 4; try++ {
			n++
			op := "getfile"
			if try%4 == 3 {
				op = "getbytes"
			}
			rec(histRec{W: wid, N: n, Ev: "call", Op: op, Key: key})
			r := histRec{W: wid, N: n, Ev: "ret", Op: op, Key: key}
			var data []byte
			hit := false
			if op == "getfile" {
				path, _, err := cache.GetFile(c, id)
				if err != nil {
					r.Res = "miss"
				} else if data, err = os.ReadFile(path); err != nil {
					r.Res, r.Det = "gone", err.Error()
				} else {
					hit = true
				}
			} else {
				var err error
				if data, _, err = cache.GetBytes(c, id); err != nil {
					r.Res = "miss"
				} else {
					hit = true
				}
			}
			if hit {
				if bytes.Equal(data, want) {
					r.Res, r.Val = "ok", d.String()
					hits++
				} else if dd, err := parseSelf(data); err == nil { // an older complete value of this key
					r.Res, r.Val = "ok", dd.String()
				} else {
					r.Res, r.Det = "bad", err.Error()
					p := filepath.Join(baddir, fmt.Sprintf("bad-w%d-n%d.bin", r.W, r.N))
					os.WriteFile(p, data[:min(len(data), 1<<20)], 0o644)
				}
			}
			rec(r)
		}
		if wid == 0 && j >= 3 { // keep the directory small: drop the data of three rounds ago
			os.Remove(c.OutputFile(outs[j-3]))
		}
	}
	return nil
}

func parseDesc(s string) (d selfDesc, ok bool) {
	s = strings.ReplaceAll(s, ",", " ")
	n, err := fmt.Sscanf(s, "k=%d o=%s s=%d len=%d", &d.Key, &d.Origin, &d.Seq, &d.Len)
	return d, err == nil && n == 4
}
