package c05

func (m *monitor) runKills()      {}
func (m *monitor) runConcurrent() {}
func (m *monitor) runE2E()        {}
func ChildMain(args []string) int { return 0 }
