// Package c05 monitors property C05: the on-disk cache of lintcmd/cache never
// serves bytes other than exactly what was stored under a key — after writer
// deaths, after truncation/removal of cache files, and under concurrent
// processes — and lint results through such a cache equal those without it.
//
// Four monitors (DESIGN.md section 4, C05):
//
//	(a) enumeration of post-crash / truncated / partially deleted directory
//	    states at the library boundary (a_states.go)
//	(b) real writer deaths: children SIGKILLed at verifhook points and at
//	    seeded random moments (b_kills.go)
//	(c) concurrent processes on one directory, history checked offline
//	    (c_conc.go)
//	(d) end to end through bin/staticcheck (d_e2e.go)
//
// No verdict depends on wall-clock time: timing only decides *which* state a
// random kill or a race produces; every state is judged by the same oracle.
package c05

import (
	"bytes"
	"crypto/sha256"
	"encoding/hex"
	"errors"
	"fmt"
	"io/fs"
	"os"
	"path/filepath"
	"runtime"
	"sort"
	"strconv"
	"strings"
	"sync"
	"time"

	"honnef.co/go/tools/lintcmd/cache"

	"verif/vf"
)

// ---------------------------------------------------------------------------
// values and ids

// mkID returns action id number n of a group. All ids of one group share their
// first 31 bytes, so that an implementation that compares or names entries by
// a prefix of the id mixes keys up (and is caught by the foreign-key check).
func mkID(group string, n int) cache.ActionID {
	h := sha256.Sum256([]byte("c05-id/" + group))
	var id cache.ActionID
	copy(id[:], h[:])
	id[len(id)-1] = byte(n)
	return id
}

type xs64 uint64

func (x *xs64) next() uint64 {
	v := uint64(*x)
	v ^= v << 13
	v ^= v >> 7
	v ^= v << 17
	*x = xs64(v)
	return v
}

func fnv(s string) uint64 {
	h := uint64(1469598103934665603)
	for i := 0; i < len(s); i++ {
		h ^= uint64(s[i])
		h *= 1099511628211
	}
	if h == 0 {
		h = 1
	}
	return h
}

// fill writes PRNG bytes determined by seed into b.
func fill(b []byte, seed uint64) {
	x := xs64(seed | 1)
	i := 0
	for ; i+8 <= len(b); i += 8 {
		v := x.next()
		b[i], b[i+1], b[i+2], b[i+3] = byte(v), byte(v>>8), byte(v>>16), byte(v>>24)
		b[i+4], b[i+5], b[i+6], b[i+7] = byte(v>>32), byte(v>>40), byte(v>>48), byte(v>>56)
	}
	if i < len(b) {
		v := x.next()
		for ; i < len(b); i++ {
			b[i] = byte(v)
			v >>= 8
		}
	}
}

// genValue is the value named tag of the given size: a pure function of
// (tag, size), so parent and child agree without shipping bytes around.
func genValue(tag string, size int) []byte {
	b := make([]byte, size)
	fill(b, fnv(fmt.Sprintf("%s#%d", tag, size)))
	return b
}

// selfValue builds the self-describing value used by monitor (c):
// "C05V k=<key> o=<origin> s=<seq> len=<n> pad=<sha256 of padding, 16 hex>\n"
// followed by PRNG padding determined by the header fields up to len bytes.
const selfMin = 96

func selfValue(key int, origin string, seq, size int) []byte {
	if size < selfMin {
		size = selfMin
	}
	b := make([]byte, size)
	pad := b[selfMin:]
	fill(pad, fnv(fmt.Sprintf("self/%d/%s/%d/%d", key, origin, seq, size)))
	sum := sha256.Sum256(pad)
	hdr := fmt.Sprintf("C05V k=%d o=%s s=%d len=%d pad=%x", key, origin, seq, size, sum[:8])
	if len(hdr) >= selfMin {
		panic("header too long")
	}
	copy(b, hdr)
	for i := len(hdr); i < selfMin-1; i++ {
		b[i] = ' '
	}
	b[selfMin-1] = '\n'
	return b
}

type selfDesc struct {
	Key    int
	Origin string
	Seq    int
	Len    int
}

func (d selfDesc) String() string {
	return fmt.Sprintf("k=%d,o=%s,s=%d,len=%d", d.Key, d.Origin, d.Seq, d.Len)
}

// parseSelf decides whether b is exactly one complete self-describing value.
func parseSelf(b []byte) (selfDesc, error) {
	var d selfDesc
	if len(b) < selfMin {
		return d, fmt.Errorf("only %d bytes, shorter than any stored value", len(b))
	}
	var pad string
	hdr := strings.TrimRight(string(b[:selfMin-1]), " ")
	if n, err := fmt.Sscanf(hdr, "C05V k=%d o=%s s=%d len=%d pad=%s", &d.Key, &d.Origin, &d.Seq, &d.Len, &pad); err != nil || n != 5 {
		return d, fmt.Errorf("header does not parse: %q", hdr)
	}
	if d.Len != len(b) {
		return d, fmt.Errorf("value %s has %d bytes (torn)", d, len(b))
	}
	if want := selfValue(d.Key, d.Origin, d.Seq, d.Len); !bytes.Equal(want, b) {
		i := 0
		for i < len(b) && b[i] == want[i] {
			i++
		}
		return d, fmt.Errorf("value %s differs from what was stored from byte %d on", d, i)
	}
	return d, nil
}

// ---------------------------------------------------------------------------
// the lookup oracle

type allowed struct {
	tag  string
	data []byte
}

type obs struct {
	API  string `json:"api"`
	Hit  bool   `json:"hit"`
	Len  int    `json:"len,omitempty"`
	Sum  string `json:"sha256,omitempty"`
	Head string `json:"head_hex,omitempty"`
	Err  string `json:"err,omitempty"`
	data []byte
}

func mkObs(api string, data []byte, err error) obs {
	o := obs{API: api}
	if err != nil {
		o.Err = err.Error()
		return o
	}
	o.Hit = true
	o.Len = len(data)
	s := sha256.Sum256(data)
	o.Sum = hex.EncodeToString(s[:8])
	n := min(len(data), 24)
	o.Head = hex.EncodeToString(data[:n])
	o.data = data
	return o
}

// lookup performs both client-visible lookups of id.
func lookup(c cache.Cache, id cache.ActionID) (gf, gb obs) {
	func() {
		defer func() {
			if p := recover(); p != nil {
				gf = obs{API: "getfile", Hit: true, Err: fmt.Sprint("panic: ", p), Len: -1}
			}
		}()
		path, _, err := cache.GetFile(c, id)
		if err != nil {
			gf = mkObs("getfile", nil, err)
			return
		}
		data, rerr := os.ReadFile(path)
		if rerr != nil {
			// The file vanished (or is unreadable) between lookup and open:
			// the client cannot use it, which is a miss.
			gf = mkObs("getfile", nil, fmt.Errorf("hit but unreadable: %v", rerr))
			return
		}
		gf = mkObs("getfile", data, nil)
	}()
	func() {
		defer func() {
			if p := recover(); p != nil {
				gb = obs{API: "getbytes", Hit: true, Err: fmt.Sprint("panic: ", p), Len: -1}
			}
		}()
		data, _, err := cache.GetBytes(c, id)
		gb = mkObs("getbytes", data, err)
	}()
	return
}

// judge classifies one observation against the values that were ever stored
// under the id and the values stored under other ids. "" means fine.
func judge(o obs, ok []allowed, foreign []allowed) (class string, detail string) {
	if !o.Hit {
		return "", ""
	}
	if o.Len < 0 {
		return "panic", o.Err
	}
	for _, a := range ok {
		if bytes.Equal(a.data, o.data) {
			return "", a.tag
		}
	}
	for _, a := range foreign {
		if bytes.Equal(a.data, o.data) {
			return "foreign-key", "complete value " + a.tag + " stored under another id"
		}
	}
	for _, a := range append(append([]allowed{}, ok...), foreign...) {
		if len(o.data) < len(a.data) && bytes.Equal(a.data[:len(o.data)], o.data) {
			return "torn-read", fmt.Sprintf("%d-byte prefix of %d-byte value %s", len(o.data), len(a.data), a.tag)
		}
		if len(o.data) > len(a.data) && bytes.Equal(o.data[:len(a.data)], a.data) {
			return "torn-read", fmt.Sprintf("value %s (%d bytes) followed by %d bytes never stored", a.tag, len(a.data), len(o.data)-len(a.data))
		}
	}
	return "wrong-bytes", fmt.Sprintf("%d bytes that are no stored value", len(o.data))
}

// ---------------------------------------------------------------------------
// directory signatures (for distinct_nontrivial)

// dirSignature hashes the listing of a cache directory: relative name and size
// of every regular file, plus the content of small files (index entries and
// trim.txt are < 256 bytes; torn index entries differ only in content).
// Empty fan-out directories are not part of the signature.
func dirSignature(dir string) (sig string, files int) {
	var lines []string
	filepath.WalkDir(dir, func(p string, d fs.DirEntry, err error) error {
		if err != nil || d.IsDir() {
			return nil
		}
		info, err := d.Info()
		if err != nil {
			return nil
		}
		rel, _ := filepath.Rel(dir, p)
		l := fmt.Sprintf("%s %d", rel, info.Size())
		if info.Size() < 256 {
			b, _ := os.ReadFile(p)
			s := sha256.Sum256(b)
			l += " " + hex.EncodeToString(s[:6])
		}
		lines = append(lines, l)
		return nil
	})
	sort.Strings(lines)
	s := sha256.Sum256([]byte(strings.Join(lines, "\n")))
	return hex.EncodeToString(s[:12]), len(lines)
}

// listing returns a human-readable listing for samples / replay files.
func listing(dir string, max int) []string {
	var lines []string
	filepath.WalkDir(dir, func(p string, d fs.DirEntry, err error) error {
		if err != nil || d.IsDir() {
			return nil
		}
		info, err := d.Info()
		if err != nil {
			return nil
		}
		rel, _ := filepath.Rel(dir, p)
		if len(rel) > 24 {
			rel = rel[:14] + ".." + rel[len(rel)-8:]
		}
		lines = append(lines, fmt.Sprintf("%s %d", rel, info.Size()))
		return nil
	})
	sort.Strings(lines)
	if len(lines) > max {
		lines = append(lines[:max], fmt.Sprintf("... %d more", len(lines)-max))
	}
	return lines
}

type distinctSet struct {
	mu sync.Mutex
	m  map[string]struct{}
}

func (d *distinctSet) add(s string) bool {
	d.mu.Lock()
	defer d.mu.Unlock()
	if d.m == nil {
		d.m = map[string]struct{}{}
	}
	if _, ok := d.m[s]; ok {
		return false
	}
	d.m[s] = struct{}{}
	return true
}

func (d *distinctSet) n() int {
	d.mu.Lock()
	defer d.mu.Unlock()
	return len(d.m)
}

// ---------------------------------------------------------------------------

type monitor struct {
	r        *vf.Run
	distinct distinctSet
	evalMu   sync.Mutex
	evals    int
	child    string // bin/c05child
}

func (m *monitor) eval(n int) {
	m.evalMu.Lock()
	m.evals += n
	m.evalMu.Unlock()
}

// par is the size of in-process worker pools (states, kill cases, chains).
// C05_PAR caps it for development runs on a shared machine; case lists and
// verdicts do not depend on it.
func par() int {
	n := runtime.GOMAXPROCS(0)
	if v, err := strconv.Atoi(os.Getenv("C05_PAR")); err == nil && v > 0 && v < n {
		n = v
	}
	return n
}

func isNotExist(err error) bool { return errors.Is(err, fs.ErrNotExist) }

// Run is the entry point of the check.
func Run(r *vf.Run) {
	m := &monitor{r: r}
	only := os.Getenv("C05_ONLY") // development aid: subset of "abcd"
	want := func(s string) bool { return only == "" || strings.Contains(only, s) }

	if want("b") || want("c") {
		m.child = r.BuildBin("c05child", "./cmd/c05child", false)
	}
	walls := map[string]float64{} // informational only
	timed := func(name string, f func()) {
		t := time.Now()
		f()
		walls[name] = float64(time.Since(t).Milliseconds()) / 1000
	}
	if want("a") {
		timed("a_states", m.runStates)
	}
	if want("b") {
		timed("b_kills", m.runKills)
	}
	if want("c") {
		timed("c_concurrent", m.runConcurrent)
	}
	if want("d") {
		timed("d_e2e", m.runE2E)
	}
	r.Set("wall_s_by_monitor_informational", walls)
	r.Assume("process death (SIGKILL), truncation, trailing garbage and removal of cache files are the fault model; same-length content corruption of a data file (media-level torn sectors) is outside the property's quantifier and outside what GetFile's size check can detect")
	r.Assume("values handed to Put do not change between Put's two read passes")
	floor := 200
	if only != "" {
		floor = 1
	}
	r.Finish(m.evals, m.distinct.n(), floor,
		"number of distinct non-pristine cache directory states (hash of file names + sizes + content of small files) against which a lookup or a lint run was really attempted: enumerated crash/truncation/deletion states (a), states left by SIGKILLed writers (b), states found by the post-run audit of the concurrent rounds (c), damaged / crashed caches handed to staticcheck (d)")
}
