package c05

import (
	"crypto/sha256"
	"encoding/hex"
	"fmt"
	"io/fs"
	"os"
	"path/filepath"
	"sort"
	"strconv"
	"strings"
	"sync"

	"honnef.co/go/tools/lintcmd/cache"
)

// Monitor (a): enumeration of the directory states a store can leave behind
// when the writer dies, and of truncations / removals of cache files, at the
// library boundary.

var stateSizes = []int{0, 1, 2, 3, 100, 4095, 4096, 4097, 32767, 32768, 32769, 70000}

const copyChunk = 32 * 1024 // io.Copy's buffer: the granularity of data-file writes

// scenario = one (size, mode): the values, and what a real Put writes for them.
type scenario struct {
	Size    int    `json:"size"`
	Mode    string `json:"mode"` // first | over-same | over-diff
	OldSize int    `json:"old_size"`

	id, id2    cache.ActionID
	newV, oldV []byte // oldV nil in mode first
	v2         []byte // value of the neighbour id (foreign family)

	// learnt from a real Put into a template directory (relative paths)
	idxRel, newDRel, oldDRel, idx2Rel, v2DRel string
	newEntry, oldEntry, entry2                []byte
}

type stateSpec struct {
	Family  string `json:"family"`
	NewD    int    `json:"new_data_len"` // -1 absent; > size: complete + garbage
	OldD    int    `json:"old_data_len"` // -1 absent
	Idx     string `json:"index"`        // none|new|mix|old|new+g|old+g|foreign
	K       int    `json:"index_k"`
	Trim    string `json:"trim_txt"` // ok|none|trunc
	Foreign bool   `json:"neighbour_present"`
	DoTrim  bool   `json:"call_trim"`
	Double  bool   `json:"double_fault"` // two independent faults: informational only
}

func altSize(size int) int {
	if size >= 3 {
		return size - 2
	}
	return size + 2
}

func walkFiles(dir string) map[string]bool {
	m := map[string]bool{}
	filepath.WalkDir(dir, func(p string, d fs.DirEntry, err error) error {
		if err == nil && !d.IsDir() {
			rel, _ := filepath.Rel(dir, p)
			m[rel] = true
		}
		return nil
	})
	return m
}

// learnPut performs a real Put into dir and reports which files it created or
// changed: the index file (the one that is not the output file) and its bytes.
func learnPut(c *cache.DiskCache, dir string, id cache.ActionID, v []byte) (idxRel, dRel string, entry []byte, err error) {
	before := walkFiles(dir)
	out, _, perr := c.Put(id, strings.NewReader(string(v)))
	if perr != nil {
		return "", "", nil, perr
	}
	dRel, _ = filepath.Rel(dir, c.OutputFile(out))
	after := walkFiles(dir)
	for f := range after {
		if f != dRel && strings.HasSuffix(f, "-a") {
			b, _ := os.ReadFile(filepath.Join(dir, f))
			// the index file of this id: new, or rewritten to name this output
			if !before[f] || strings.Contains(string(b), fmt.Sprintf("%x", out)) {
				if strings.Contains(f, fmt.Sprintf("%x", id)) {
					idxRel, entry = f, b
				}
			}
		}
	}
	if idxRel == "" {
		return "", "", nil, fmt.Errorf("could not identify the index file of %x among %v", id, after)
	}
	return idxRel, dRel, entry, nil
}

func (m *monitor) mkScenario(size int, mode string, tmp string) (*scenario, error) {
	sc := &scenario{Size: size, Mode: mode}
	grp := fmt.Sprintf("a/%d/%s", size, mode)
	sc.id, sc.id2 = mkID(grp, 1), mkID(grp, 2)
	sc.newV = genValue(grp+"/new", size)
	switch mode {
	case "over-same":
		sc.OldSize = size
		sc.oldV = genValue(grp+"/old", size)
		if string(sc.oldV) == string(sc.newV) {
			sc.oldV[0] ^= 0x5a
		}
	case "over-diff":
		sc.OldSize = altSize(size)
		sc.oldV = genValue(grp+"/old", sc.OldSize)
	}
	sc.v2 = genValue(grp+"/neighbour", size+7)
	os.RemoveAll(tmp)
	os.MkdirAll(tmp, 0o755)
	defer os.RemoveAll(tmp)
	c, err := cache.Open(tmp)
	if err != nil {
		return nil, err
	}
	if sc.oldV != nil {
		if _, sc.oldDRel, sc.oldEntry, err = learnPut(c, tmp, sc.id, sc.oldV); err != nil {
			return nil, err
		}
	}
	if sc.idxRel, sc.newDRel, sc.newEntry, err = learnPut(c, tmp, sc.id, sc.newV); err != nil {
		return nil, err
	}
	if sc.idx2Rel, sc.v2DRel, sc.entry2, err = learnPut(c, tmp, sc.id2, sc.v2); err != nil {
		return nil, err
	}
	if sc.oldV != nil && len(sc.oldEntry) != len(sc.newEntry) {
		return nil, fmt.Errorf("index entries of different length: %d vs %d", len(sc.oldEntry), len(sc.newEntry))
	}
	return sc, nil
}

// lens is the set of data-file lengths tried for a value of the given size.
func (m *monitor) lens(size int, stream string) []int {
	set := map[int]bool{}
	add := func(l int) {
		if l >= 0 && l <= size {
			set[l] = true
		}
	}
	exhaustiveBelow := m.r.Pick(128, 4200)
	if size <= exhaustiveBelow {
		for l := 0; l <= size; l++ {
			add(l)
		}
	} else {
		for i := 0; i < m.r.Pick(48, 64); i++ {
			add(i)
			add(size - i)
		}
		for c := copyChunk; c <= size+copyChunk; c += copyChunk {
			for d := -2; d <= 2; d++ {
				add(c + d)
			}
		}
		for _, p := range []int{512, 4096} { // sector / page boundaries near both ends
			for d := -1; d <= 1; d++ {
				add(p + d)
				add(size/p*p + d)
			}
		}
		rng := m.r.Rand("a-lens/"+stream, size)
		for i := m.r.Pick(24, 3000); i > 0; i-- {
			add(rng.IntN(size + 1))
		}
	}
	var out []int
	for l := range set {
		out = append(out, l)
	}
	sort.Ints(out)
	return out
}

// parseEntrySize extracts the size field of an index entry the way the
// documented layout says ("v1 <hex id> <hex out> <size %20d> <time %20d>\n");
// used only to aim the informational double-fault probe.
func parseEntrySize(e []byte) (outHex string, size int, ok bool) {
	f := strings.Fields(string(e))
	if len(f) != 5 || f[0] != "v1" {
		return "", 0, false
	}
	n, err := strconv.Atoi(f[3])
	if err != nil {
		return "", 0, false
	}
	return f[2], n, true
}

func (sc *scenario) indexBytes(s stateSpec) []byte {
	garbage := func(n int) []byte { return genValue("garbage", n) }
	switch s.Idx {
	case "none":
		return nil
	case "new":
		return sc.newEntry[:s.K]
	case "old":
		return sc.oldEntry[:s.K]
	case "mix":
		return append(append([]byte{}, sc.newEntry[:s.K]...), sc.oldEntry[s.K:]...)
	case "new+g":
		return append(append([]byte{}, sc.newEntry...), garbage(s.K)...)
	case "old+g":
		return append(append([]byte{}, sc.oldEntry...), garbage(s.K)...)
	case "foreign":
		return sc.entry2
	}
	panic("bad index kind " + s.Idx)
}

func (sc *scenario) states(m *monitor) []stateSpec {
	var out []stateSpec
	es := len(sc.newEntry)
	over := sc.oldV != nil
	oldFull := -1
	preIdx, preK := "none", 0
	if over {
		oldFull = len(sc.oldV)
		preIdx, preK = "old", es
	}
	stream := fmt.Sprintf("%d/%s", sc.Size, sc.Mode)
	ls := m.lens(sc.Size, stream)

	// index-file offsets tried: all of 0..entrySize in the thorough tier and
	// for four representative sizes; otherwise every field boundary +-1 and
	// a stride (index parsing does not depend on the value beyond two fields)
	ks := map[int]bool{}
	fullK := m.r.Thorough() || sc.Size == 0 || sc.Size == 100 || sc.Size == 4097 || sc.Size == 70000
	for k := 0; k <= es; k++ {
		if fullK || k%9 == 0 || k >= es-24 {
			ks[k] = true
		}
	}
	for i, c := range sc.newEntry {
		if c == ' ' && (i == 0 || sc.newEntry[i-1] != ' ' || (i+1 < es && sc.newEntry[i+1] != ' ')) {
			ks[i-1], ks[i], ks[i+1] = true, true, true
		}
	}
	delete(ks, -1)

	// 1. writer died while writing the data file (index untouched)
	for _, l := range ls {
		out = append(out, stateSpec{Family: "crash-data", NewD: l, OldD: oldFull, Idx: preIdx, K: preK, Trim: "ok"})
	}
	// 2. writer died while writing the index entry (data complete)
	for k := 0; k <= es; k++ {
		if !ks[k] {
			continue
		}
		kind := "new"
		if over {
			kind = "mix"
		}
		out = append(out, stateSpec{Family: "crash-index", NewD: sc.Size, OldD: oldFull, Idx: kind, K: k, Trim: "ok"})
	}
	// 3. complete store, then the data file is truncated / grows garbage
	for _, l := range ls {
		if l == sc.Size {
			continue
		}
		out = append(out, stateSpec{Family: "data-truncated", NewD: l, OldD: oldFull, Idx: "new", K: es, Trim: "ok"})
	}
	for _, g := range []int{1, 2, 100, copyChunk} {
		out = append(out, stateSpec{Family: "data-garbage", NewD: sc.Size + g, OldD: oldFull, Idx: "new", K: es, Trim: "ok"})
	}
	// 4. complete store, then the index file is truncated / grows garbage
	for k := 0; k < es; k++ {
		if !ks[k] {
			continue
		}
		out = append(out, stateSpec{Family: "index-truncated", NewD: sc.Size, OldD: oldFull, Idx: "new", K: k, Trim: "ok"})
	}
	for _, g := range []int{1, 2, es, 1000} {
		out = append(out, stateSpec{Family: "index-garbage", NewD: sc.Size, OldD: oldFull, Idx: "new+g", K: g, Trim: "ok"})
	}
	if over {
		// the pre-overwrite entry damaged, new value never written
		for k := 0; k < es; k++ {
			if !ks[k] {
				continue
			}
			out = append(out, stateSpec{Family: "index-truncated", NewD: -1, OldD: oldFull, Idx: "old", K: k, Trim: "ok"})
		}
		for _, l := range m.lens(len(sc.oldV), stream+"/old") {
			if l == len(sc.oldV) {
				continue
			}
			out = append(out, stateSpec{Family: "data-truncated", NewD: -1, OldD: l, Idx: "old", K: es, Trim: "ok"})
		}
		out = append(out, stateSpec{Family: "index-garbage", NewD: -1, OldD: oldFull, Idx: "old+g", K: 3, Trim: "ok"})
	}
	// 5. every subset of the files removed, from several base states;
	//    Trim is then called as well (trim.txt missing / torn -> it really scans)
	bases := []stateSpec{
		{NewD: sc.Size, OldD: oldFull, Idx: "new", K: es},
		{NewD: sc.Size / 2, OldD: oldFull, Idx: preIdx, K: preK},
		{NewD: sc.Size, OldD: oldFull, Idx: map[bool]string{false: "new", true: "mix"}[over], K: es / 2},
	}
	for bi, b := range bases {
		nf := 3
		if over {
			nf = 4
		}
		for mask := 0; mask < 1<<nf; mask++ {
			s := b
			s.Family = "deleted"
			s.Trim = "ok"
			s.DoTrim = true
			if mask&1 != 0 {
				s.NewD = -1
			}
			if mask&2 != 0 {
				s.Idx, s.K = "none", 0
			}
			if mask&4 != 0 {
				s.Trim = "none"
			}
			if mask&8 != 0 {
				s.OldD = -1
			}
			if mask == 0 && bi > 0 {
				s.Trim = "trunc"
			}
			out = append(out, s)
		}
	}
	// 6. the index file of this id holds a complete, well-formed entry of the
	//    neighbouring id (whose own entry and data are present and intact)
	for _, nd := range []int{-1, sc.Size} {
		out = append(out, stateSpec{Family: "foreign-index", NewD: nd, OldD: oldFull, Idx: "foreign", Trim: "ok", Foreign: true})
	}
	out = append(out, stateSpec{Family: "foreign-index", NewD: sc.Size, OldD: oldFull, Idx: "new", K: es, Trim: "ok", Foreign: true})

	// 7. informational: two independent faults (writer died inside the index
	//    write AND the data file was truncated/extended afterwards). Aimed at
	//    the lengths a torn size field can name, plus a seeded sample.
	if over {
		seen := map[string]bool{}
		for k := 0; k <= es; k++ {
			e := sc.indexBytes(stateSpec{Idx: "mix", K: k})
			_, n, ok := parseEntrySize(e)
			key := fmt.Sprintf("%d/%d", k, n)
			if !ok || n == sc.Size || n > 1<<20 || seen[key] {
				continue
			}
			seen[key] = true
			out = append(out, stateSpec{Family: "double-fault", NewD: n, OldD: oldFull, Idx: "mix", K: k, Trim: "ok", Double: true})
		}
	}
	rng := m.r.Rand("a-double/"+stream, 0)
	for i := m.r.Pick(12, 120); i > 0; i-- {
		kind := "new"
		if over {
			kind = "mix"
		}
		out = append(out, stateSpec{Family: "double-fault", NewD: ls[rng.IntN(len(ls))], OldD: oldFull, Idx: kind, K: rng.IntN(es + 1), Trim: "ok", Double: true})
	}
	return out
}

// putFile makes path hold exactly b, or not exist when b is nil (absent);
// it avoids unlink+create cycles, which dominate the cost of a state.
func putFile(path string, b []byte, present bool) error {
	if !present {
		if err := os.Remove(path); err != nil && !isNotExist(err) {
			return err
		}
		return nil
	}
	return os.WriteFile(path, b, 0o666)
}

func lenOf(v []byte, n int) []byte {
	if n < 0 {
		return nil
	}
	if n <= len(v) {
		return v[:n]
	}
	return append(append([]byte{}, v...), genValue("garbage", n-len(v))...)
}

// build puts the directory into the state; returns whether it is pristine
// (exactly what complete stores leave).
func (sc *scenario) build(dir string, s stateSpec) (pristine bool, err error) {
	j := func(rel string) string { return filepath.Join(dir, rel) }
	if err = putFile(j(sc.newDRel), lenOf(sc.newV, s.NewD), s.NewD >= 0); err != nil {
		return
	}
	if sc.oldV != nil && sc.oldDRel != sc.newDRel {
		if err = putFile(j(sc.oldDRel), lenOf(sc.oldV, s.OldD), s.OldD >= 0); err != nil {
			return
		}
	}
	if err = putFile(j(sc.idxRel), sc.indexBytes(s), s.Idx != "none"); err != nil {
		return
	}
	if err = putFile(j(sc.idx2Rel), sc.entry2, s.Foreign); err != nil {
		return
	}
	if err = putFile(j(sc.v2DRel), sc.v2, s.Foreign); err != nil {
		return
	}
	trim := []byte("1700000000")
	if s.Trim == "trunc" {
		trim = []byte{}
	}
	if err = putFile(j("trim.txt"), trim, s.Trim != "none"); err != nil {
		return
	}
	es := len(sc.newEntry)
	oldOK := sc.oldV == nil || s.OldD == len(sc.oldV)
	pristine = s.Trim == "ok" && oldOK &&
		((s.NewD == sc.Size && s.Idx == "new" && s.K == es) || // complete store
			(s.NewD == sc.Size && s.Idx == "mix" && s.K == es) ||
			(sc.oldV != nil && s.NewD == -1 && s.Idx == "old" && s.K == es) || // before the overwrite
			(sc.oldV != nil && s.NewD == -1 && s.Idx == "mix" && s.K == 0))
	return
}

// signature is dirSignature restricted to the files a scenario can touch (the
// worker directory holds nothing else), which saves walking 256 empty
// fan-out directories per state.
func (sc *scenario) signature(dir string) string {
	h := sha256.New()
	for _, rel := range []string{sc.idxRel, sc.newDRel, sc.oldDRel, sc.idx2Rel, sc.v2DRel, "trim.txt"} {
		if rel == "" {
			continue
		}
		info, err := os.Stat(filepath.Join(dir, rel))
		if err != nil {
			continue
		}
		fmt.Fprintf(h, "%s %d", rel, info.Size())
		if info.Size() < 256 {
			b, _ := os.ReadFile(filepath.Join(dir, rel))
			h.Write(b)
		}
		h.Write([]byte{'\n'})
	}
	return hex.EncodeToString(h.Sum(nil)[:12])
}

type stateResult struct {
	viol []pendingViolation
	info []pendingViolation // double-fault observations
	hits int
	miss int
	sig  string
	prst bool
}

type pendingViolation struct {
	key, what string
	replay    any
}

// evalState builds one state in dir, re-opens the cache and applies the oracle.
func (m *monitor) evalState(sc *scenario, dir string, s stateSpec) (res stateResult) {
	prst, err := sc.build(dir, s)
	if err != nil {
		res.viol = append(res.viol, pendingViolation{"harness:build-state", err.Error(), s})
		return
	}
	res.prst = prst
	res.sig = sc.signature(dir)
	c, err := cache.Open(dir)
	if err != nil {
		res.viol = append(res.viol, pendingViolation{"open-fails:" + s.Family, fmt.Sprintf("cache.Open on a damaged directory failed: %v", err), map[string]any{"scenario": sc, "state": s}})
		return
	}
	ok := []allowed{{"new", sc.newV}}
	if sc.oldV != nil {
		ok = append(ok, allowed{"old", sc.oldV})
	}
	foreign := []allowed{{"neighbour", sc.v2}}
	report := func(phase string, o obs, class, detail string) {
		pv := pendingViolation{
			key:  fmt.Sprintf("%s:%s:%s", class, o.API, s.Family),
			what: fmt.Sprintf("%s of a value of size %d (mode %s) %s returned %s — state: data=%d index=%s/%d", o.API, sc.Size, sc.Mode, phase, detail, s.NewD, s.Idx, s.K),
			replay: map[string]any{"scenario": sc, "state": s, "phase": phase, "observed": o, "listing": listing(dir, 12),
				"how": "values are c05.genValue(\"a/<size>/<mode>/{new,old,neighbour}\", size); build the state with scenario.build, cache.Open, cache.GetFile/GetBytes(mkID(\"a/<size>/<mode>\",1))"},
		}
		if s.Double {
			res.info = append(res.info, pv)
		} else {
			res.viol = append(res.viol, pv)
		}
	}
	check := func(phase string) {
		gf, gb := lookup(c, sc.id)
		for _, o := range []obs{gf, gb} {
			if o.Hit {
				res.hits++
			} else {
				res.miss++
			}
			if class, detail := judge(o, ok, foreign); class != "" {
				report(phase, o, class, detail)
			}
		}
		// the neighbouring id: only its own value may ever come back
		gf2, gb2 := lookup(c, sc.id2)
		for _, o := range []obs{gf2, gb2} {
			if class, detail := judge(o, foreign, ok); class != "" {
				report(phase+" (lookup of the neighbouring id)", o, class, detail)
			}
			if o.Hit && !s.Foreign {
				report(phase+" (lookup of the neighbouring id)", o, "phantom-hit", "a hit for an id that has no entry")
			}
		}
		m.eval(4)
	}
	check("after re-opening the damaged directory")
	if s.DoTrim {
		c.Trim()
		check("after Trim on the damaged directory")
	}
	// repair: a fresh Put must make the entry retrievable with the new bytes
	if err := cache.PutBytes(c, sc.id, sc.newV); err != nil {
		res.viol = append(res.viol, pendingViolation{"put-fails-after-damage:" + s.Family, fmt.Sprintf("Put into the damaged directory failed: %v", err), map[string]any{"scenario": sc, "state": s}})
		return
	}
	gf, gb := lookup(c, sc.id)
	for _, o := range []obs{gf, gb} {
		m.eval(1)
		if !o.Hit {
			if !s.Double {
				res.viol = append(res.viol, pendingViolation{fmt.Sprintf("miss-after-reput:%s:%s", o.API, s.Family),
					fmt.Sprintf("after a successful Put into the damaged directory %s misses: %s", o.API, o.Err), map[string]any{"scenario": sc, "state": s, "observed": o}})
			}
			continue
		}
		if class, detail := judge(o, ok[:1], append(foreign, ok[1:]...)); class != "" {
			if class == "foreign-key" && sc.oldV != nil {
				class = "stale-after-reput"
			}
			report("after a successful re-Put of the new value", o, class, detail)
		}
	}
	return
}

func (m *monitor) runStates() {
	r := m.r
	base := filepath.Join(r.Scratch(), "a")
	var scs []*scenario
	for _, size := range stateSizes {
		for _, mode := range []string{"first", "over-same", "over-diff"} {
			if mode == "over-same" && size == 0 {
				continue // there is only one value of size 0
			}
			if mode == "over-same" && !r.Thorough() && size != 1 && size != 100 && size != 4096 && size != 70000 {
				continue // quick tier: same-size overwrites for four sizes only
			}
			sc, err := m.mkScenario(size, mode, filepath.Join(base, "tmpl"))
			if err != nil {
				r.Inconclusive("(a) template store failed for size %d mode %s: %v", size, mode, err)
				return
			}
			scs = append(scs, sc)
		}
	}
	r.Set("a_entry_size", len(scs[0].newEntry))

	type job struct {
		sc *scenario
		s  stateSpec
		n  int
	}
	var jobs []job
	for _, sc := range scs {
		for _, s := range sc.states(m) {
			jobs = append(jobs, job{sc, s, len(jobs)})
		}
	}
	results := make([]stateResult, len(jobs))
	nw := par()
	var wg sync.WaitGroup
	ch := make(chan job, 64)
	for w := 0; w < nw; w++ {
		wg.Add(1)
		go func(w int) {
			defer wg.Done()
			dir := filepath.Join(base, fmt.Sprintf("w%d", w))
			os.MkdirAll(dir, 0o755)
			if _, err := cache.Open(dir); err != nil { // creates the fan-out directories
				r.Inconclusive("(a) cannot open scratch cache: %v", err)
			}
			for j := range ch {
				results[j.n] = m.evalState(j.sc, dir, j.s)
			}
		}(w)
	}
	for _, j := range jobs {
		ch <- j
	}
	close(ch)
	wg.Wait()
	os.RemoveAll(base)

	fam := map[string]int{}
	hits, miss, nonPristine, dbl := 0, 0, 0, 0
	var dblSample any
	for i, res := range results {
		j := jobs[i]
		fam[j.s.Family]++
		hits += res.hits
		miss += res.miss
		if !res.prst && res.sig != "" {
			nonPristine++
			m.distinct.add("a/" + res.sig)
		}
		for _, v := range res.viol {
			r.Violation(v.key, v.what, v.replay)
		}
		if len(res.info) > 0 {
			dbl += len(res.info)
			if dblSample == nil {
				dblSample = map[string]any{"what": res.info[0].what, "key_if_it_counted": res.info[0].key, "state": j.s, "size": j.sc.Size, "mode": j.sc.Mode, "old_size": j.sc.OldSize}
			}
		}
	}
	r.Set("a_states", len(jobs))
	r.Set("a_states_non_pristine", nonPristine)
	r.Set("a_states_by_family", fam)
	r.Set("a_lookups_hit", hits)
	r.Set("a_lookups_miss", miss)
	r.Set("a_double_fault_wrong_results_informational", dbl)
	if dblSample != nil {
		r.Set("a_double_fault_sample", dblSample)
	}
	// a few actual states as samples
	for _, i := range []int{1, len(jobs) / 3, len(jobs) / 2, len(jobs) - 20} {
		if i >= 0 && i < len(jobs) {
			r.Sample(map[string]any{"monitor": "a", "size": jobs[i].sc.Size, "mode": jobs[i].sc.Mode, "state": jobs[i].s, "lookups_hit": results[i].hits, "lookups_miss": results[i].miss}, 12)
		}
	}
}
