package c05

import (
	"bufio"
	"encoding/hex"
	"encoding/json"
	"fmt"
	"os"
	"os/exec"
	"path/filepath"
	"strconv"
	"sync"
	"time"

	"github.com/anishathalye/porcupine"

	"honnef.co/go/tools/lintcmd/cache"
)

// Monitor (c): several processes store, look up and trim one directory; the
// merged client-boundary history is checked offline.
//
// The history is one file opened O_APPEND by every worker, one write(2) per
// record. A worker appends its call record before it enters the cache and its
// return record after it left, so the position of a record in the file is a
// logical clock consistent with real time: "Put was called before the lookup
// returned" is "the Put's call record precedes the lookup's return record".

type concIn struct {
	put bool
	val string
}
type concOut struct{ val string } // "" = miss

var missRegister = porcupine.Model{
	Init: func() any { return "" },
	Step: func(state, input, output any) (bool, any) {
		in, out := input.(concIn), output.(concOut)
		if in.put {
			return true, in.val
		}
		if out.val == "" { // a register that may also miss
			return true, state
		}
		return out.val == state.(string), state
	},
	DescribeOperation: func(input, output any) string {
		in, out := input.(concIn), output.(concOut)
		if in.put {
			return "put(" + in.val + ")"
		}
		return "get -> " + out.val
	},
}

func wipeFiles(dir string) {
	subs, _ := os.ReadDir(dir)
	for _, s := range subs {
		p := filepath.Join(dir, s.Name())
		if !s.IsDir() {
			os.Remove(p)
			continue
		}
		fs, _ := os.ReadDir(p)
		for _, f := range fs {
			os.RemoveAll(filepath.Join(p, f.Name()))
		}
	}
}

func (m *monitor) runConcurrent() {
	r := m.r
	base := filepath.Join(r.Scratch(), "c")
	defer os.RemoveAll(base)
	procs := r.Pick(8, 16)
	nops := r.Pick(400, 5000)
	rounds := r.Pick(1, 3)
	stormRounds := r.Pick(60, 150)
	const nkeys = 3
	tot := map[string]int{}
	porc := map[string]int{}
	for round := 0; round < rounds; round++ {
		dir := filepath.Join(base, fmt.Sprintf("round%d", round))
		cdir, bad, hist := filepath.Join(dir, "cache"), filepath.Join(dir, "bad"), filepath.Join(dir, "hist.jsonl")
		os.MkdirAll(cdir, 0o755)
		os.MkdirAll(bad, 0o755)
		if _, err := cache.Open(cdir); err != nil {
			r.Inconclusive("(c) open: %v", err)
			return
		}
		seed := r.Rand("c-round", round).Uint64()
		os.MkdirAll(filepath.Join(dir, "barrier"), 0o755)
		var wg sync.WaitGroup
		errs := make([]error, procs)
		for w := 0; w < procs; w++ {
			wg.Add(1)
			go func(w int) {
				defer wg.Done()
				// phase 1: same-content storm (simultaneous stores of one new value,
				// tight lookup loops); phase 2: the mixed workload
				cmd := exec.Command("timeout", "-s", "QUIT", "900", m.child, "storm", cdir, strconv.Itoa(w), strconv.Itoa(procs), strconv.Itoa(stormRounds),
					strconv.FormatUint(seed, 10), hist, bad)
				cmd.Env = m.childEnv()
				if out, err := cmd.CombinedOutput(); err != nil {
					errs[w] = fmt.Errorf("storm worker %d: %v: %.300s", w, err, out)
					return
				}
				cmd = exec.Command("timeout", "-s", "QUIT", "900", m.child, "worker", cdir, strconv.Itoa(w), strconv.Itoa(nops),
					strconv.FormatUint(seed, 10), strconv.Itoa(nkeys), hist, bad)
				cmd.Env = m.childEnv()
				if out, err := cmd.CombinedOutput(); err != nil {
					errs[w] = fmt.Errorf("worker %d: %v: %.300s", w, err, out)
				}
			}(w)
		}
		wg.Wait()
		for _, e := range errs {
			if e != nil {
				r.Inconclusive("(c) %v", e)
			}
		}
		m.checkHistory(round, hist, bad, nkeys, tot, porc)

		// final audit of the directory the processes left behind
		sig, nfiles := dirSignature(cdir)
		m.distinct.add("c/" + sig)
		if c, err := cache.Open(cdir); err == nil {
			for k := 0; k < nkeys; k++ {
				gf, gb := lookup(c, mkID("c-keys", k))
				for _, o := range []obs{gf, gb} {
					m.eval(1)
					if !o.Hit {
						continue
					}
					d, err := parseSelf(o.data)
					if err != nil {
						r.Violation("torn-read:"+o.API+":concurrent-final", fmt.Sprintf("after all processes finished, %s of key %d returned bytes that are no stored value: %v", o.API, k, err), map[string]any{"round": round, "key": k, "observed": o})
					} else if d.Key != k {
						r.Violation("foreign-key:"+o.API+":concurrent-final", fmt.Sprintf("after all processes finished, %s of key %d returned the value %s of another key", o.API, k, d), map[string]any{"round": round, "key": k, "observed": o})
					}
				}
			}
		}
		tot["final_files"] += nfiles
		os.RemoveAll(dir)
	}
	r.Set("c_processes", procs)
	r.Set("c_ops_per_process", nops)
	r.Set("c_rounds", rounds)
	r.Set("c_storm_rounds_per_round", stormRounds)
	r.Set("c_history", tot)
	r.Set("c_porcupine_informational", porc)
}

func (m *monitor) checkHistory(round int, hist, bad string, nkeys int, tot, porc map[string]int) {
	r := m.r
	f, err := os.Open(hist)
	if err != nil {
		r.Inconclusive("(c) no history: %v", err)
		return
	}
	defer f.Close()
	sc := bufio.NewScanner(f)
	sc.Buffer(make([]byte, 1<<20), 1<<20)
	called := make([]map[string]int, nkeys) // key -> value desc -> index of first Put call record
	for i := range called {
		called[i] = map[string]int{}
	}
	type opKey struct{ w, n int }
	callIdx := map[opKey]int{}
	ops := make([][]porcupine.Operation, nkeys)
	idx := 0
	var sample []histRec
	for sc.Scan() {
		var h histRec
		if err := json.Unmarshal(sc.Bytes(), &h); err != nil {
			r.Inconclusive("(c) history line %d does not parse: %v", idx, err)
			return
		}
		idx++
		if len(sample) < 14 && idx > 40 {
			sample = append(sample, h)
		}
		k := opKey{h.W, h.N}
		if h.Ev == "call" {
			callIdx[k] = idx
			if h.Op == "put" {
				if _, ok := called[h.Key][h.Val]; !ok {
					called[h.Key][h.Val] = idx
				}
			}
			continue
		}
		ci := callIdx[k]
		delete(callIdx, k)
		tot[h.Op+"_"+h.Res]++
		switch h.Op {
		case "put":
			if h.Res == "ok" {
				ops[h.Key] = append(ops[h.Key], porcupine.Operation{ClientId: h.W, Input: concIn{true, h.Val}, Call: int64(ci), Output: concOut{}, Return: int64(idx)})
			} else {
				r.Set("c_put_error_sample", h.Det)
			}
		case "getfile", "getbytes":
			m.eval(1)
			rep := map[string]any{"round": round, "history_index": idx, "record": h, "how": "c05child worker <dir> <w> <nops> <seed> <nkeys> <hist> <baddir>, 8/16 of them concurrently; the record is the lookup's return record in the merged history"}
			switch h.Res {
			case "bad":
				b, _ := os.ReadFile(filepath.Join(bad, fmt.Sprintf("bad-w%d-n%d.bin", h.W, h.N)))
				rep["bytes_len"] = len(b)
				rep["bytes_head_hex"] = hex.EncodeToString(b[:min(len(b), 128)])
				r.Violation("torn-read:"+h.Op+":concurrent", fmt.Sprintf("%s of key %d returned bytes that are not a complete stored value: %s", h.Op, h.Key, h.Det), rep)
			case "ok":
				d, ok := parseDesc(h.Val)
				if !ok {
					r.Inconclusive("(c) bad value description %q", h.Val)
				} else if d.Key != h.Key {
					r.Violation("foreign-key:"+h.Op+":concurrent", fmt.Sprintf("%s of key %d returned the complete value %s stored under another key", h.Op, h.Key, h.Val), rep)
				} else if _, was := called[h.Key][h.Val]; !was {
					r.Violation("never-stored:"+h.Op+":concurrent", fmt.Sprintf("%s of key %d returned %s, whose Put had not been called when the lookup returned", h.Op, h.Key, h.Val), rep)
				}
				ops[h.Key] = append(ops[h.Key], porcupine.Operation{ClientId: h.W, Input: concIn{}, Call: int64(ci), Output: concOut{h.Val}, Return: int64(idx)})
			default: // miss, gone
				ops[h.Key] = append(ops[h.Key], porcupine.Operation{ClientId: h.W, Input: concIn{}, Call: int64(ci), Output: concOut{}, Return: int64(idx)})
			}
		}
	}
	tot["records"] += idx
	tot["unfinished_ops"] += len(callIdx)
	distinctVals := 0
	for _, c := range called {
		distinctVals += len(c)
	}
	tot["distinct_values_stored"] += distinctVals
	if round == 0 {
		r.Sample(map[string]any{"monitor": "c", "history_excerpt": sample}, 12)
	}
	// informational: linearizability against a register that may also miss
	for k := range ops {
		res := porcupine.CheckOperationsTimeout(missRegister, ops[k], 5*time.Second)
		porc[string(res)]++
	}
}
