package c05

import (
	"bufio"
	"encoding/json"
	"fmt"
	"os"
	"os/exec"
	"path/filepath"
	"sort"
	"strings"
	"sync"
	"syscall"
	"time"

	"honnef.co/go/tools/lintcmd/cache"
)

// Monitor (b): real writer deaths.

var storePoints = []string{
	"cache.put.hashed", "cache.copy.opened", "cache.copy.body", "cache.copy.lastbyte",
	"cache.put.copied", "cache.index.opened", "cache.index.written",
}

// seqSpec is the store sequence a child performs for the hook kills: first
// stores, overwrites with another size and with the same size, the same
// content under a second key (data file already complete), and a return to an
// earlier content, and two stores that repair a damaged data file.
func seqSpec(group string, s1, s2 int) []putStep {
	return []putStep{
		{group, 0, group + "/a1", s1, ""},
		{group, 1, group + "/b1", s2, ""},
		{group, 0, group + "/a2", s2, ""},
		{group, 0, group + "/a3", s2, ""},
		{group, 1, group + "/a3", s2, ""},
		{group, 0, group + "/a1", s1, ""},
		{group, 2, group + "/c1", s1, ""},
		// repairs: the index entries of ids 1 and 2 still name a3 / c1, whose
		// data file has meanwhile been removed / truncated
		{group, 1, group + "/a3", s2, "remove"},
		{group, 2, group + "/c1", s1, "truncate"},
	}
}

// readCalls parses a child's C/R log: which steps were called, which returned.
func readCalls(path string) (called, returned map[int]bool, last string) {
	called, returned = map[int]bool{}, map[int]bool{}
	b, _ := os.ReadFile(path)
	for _, l := range strings.Split(string(b), "\n") {
		var i int
		if n, _ := fmt.Sscanf(l, "C %d", &i); n == 1 {
			called[i] = true
			last = "C"
		} else if n, _ := fmt.Sscanf(l, "R %d ok", &i); n == 1 {
			returned[i] = true
			last = "R"
		}
	}
	return
}

type auditResult struct {
	viol      []pendingViolation
	hits      int
	miss      int
	sig       string
	nfiles    int
	doneHit   int // completed, not overwritten stores that are still retrievable (informational)
	doneMiss  int
	freshFail int
}

// audit re-opens dir and applies the lookup oracle to every id: a lookup is a
// miss or exactly one value whose Put on that id had been called. Then a
// fresh Put on every id must be retrievable.
func (m *monitor) audit(dir string, ids []cache.ActionID, okFor [][]allowed, expect []string, where, freshTag string, replay any) (res auditResult) {
	res.sig, res.nfiles = dirSignature(dir)
	c, err := cache.Open(dir)
	if err != nil {
		res.viol = append(res.viol, pendingViolation{"open-fails:" + where, fmt.Sprintf("cache.Open after a writer death failed: %v", err), replay})
		return
	}
	for i, id := range ids {
		var foreign []allowed
		for j := range ids {
			if j != i {
				foreign = append(foreign, okFor[j]...)
			}
		}
		gf, gb := lookup(c, id)
		for _, o := range []obs{gf, gb} {
			m.eval(1)
			if o.Hit {
				res.hits++
			} else {
				res.miss++
			}
			class, detail := judge(o, okFor[i], foreign)
			if class != "" {
				res.viol = append(res.viol, pendingViolation{
					key:    fmt.Sprintf("%s:%s", class, where),
					what:   fmt.Sprintf("%s of id #%d after the writer died returned %s", o.API, i, detail),
					replay: map[string]any{"case": replay, "api": o.API, "id_index": i, "observed": o, "listing": listing(dir, 16)},
				})
			} else if expect != nil && expect[i] != "" {
				same := false // compare bytes, not tags: values of size 0/1 coincide
				for _, a := range okFor[i] {
					if a.tag == expect[i] && o.Hit && string(a.data) == string(o.data) {
						same = true
					}
				}
				if same {
					res.doneHit++
				} else {
					res.doneMiss++
				}
			}
		}
	}
	for i, id := range ids {
		v := genValue(fmt.Sprintf("%s/%d", freshTag, i), 5000+i)
		if err := cache.PutBytes(c, id, v); err != nil {
			res.freshFail++
			res.viol = append(res.viol, pendingViolation{"put-fails-after-damage:" + where, fmt.Sprintf("a fresh Put after a writer death failed: %v", err), replay})
			continue
		}
		gf, gb := lookup(c, id)
		for _, o := range []obs{gf, gb} {
			m.eval(1)
			if !o.Hit || string(o.data) != string(v) {
				res.viol = append(res.viol, pendingViolation{fmt.Sprintf("miss-after-reput:%s", where),
					fmt.Sprintf("%s of id #%d does not return the value just stored after a writer death (hit=%v len=%d err=%s)", o.API, i, o.Hit, o.Len, o.Err),
					map[string]any{"case": replay, "api": o.API, "observed": o, "listing": listing(dir, 16)}})
			}
		}
	}
	return
}

type hookCase struct {
	Point  string    `json:"point"`
	N      int       `json:"n"`
	S1     int       `json:"s1"`
	S2     int       `json:"s2"`
	Group  string    `json:"id_group"`
	Steps  []putStep `json:"steps"`
	Killed bool      `json:"killed"`
	Called []int     `json:"called_steps"`
}

func (m *monitor) childEnv(extra ...string) []string {
	var env []string
	for _, e := range os.Environ() {
		if strings.HasPrefix(e, "VERIF_CRASH_AT=") || strings.HasPrefix(e, "VERIF_HOOKS=") || strings.HasPrefix(e, "VERIF_HOOK_LOG=") || strings.HasPrefix(e, "GODEBUG=") {
			continue
		}
		env = append(env, e)
	}
	return append(env, extra...)
}

func (m *monitor) runHookCase(dir string, hc *hookCase) (res auditResult, err error) {
	cdir := filepath.Join(dir, "cache")
	if err = os.MkdirAll(cdir, 0o755); err != nil {
		return
	}
	wipeFiles(cdir) // keeps the 256 fan-out directories: far cheaper than a fresh directory
	os.Remove(filepath.Join(dir, "log"))
	spec, _ := json.Marshal(hc.Steps)
	specf, logf := filepath.Join(dir, "spec.json"), filepath.Join(dir, "log")
	if err = os.WriteFile(specf, spec, 0o644); err != nil {
		return
	}
	cmd := exec.Command("timeout", "-s", "QUIT", "120", m.child, "seq", cdir, specf, logf)
	cmd.Env = m.childEnv(fmt.Sprintf("VERIF_CRASH_AT=%s#%d", hc.Point, hc.N))
	out, runErr := cmd.CombinedOutput()
	if runErr != nil {
		ee, ok := runErr.(*exec.ExitError)
		if ok && ee.ProcessState.Sys().(syscall.WaitStatus).Signaled() {
			hc.Killed = true
		} else if ok && ee.ExitCode() == 137 { // timeout(1) reports the child's SIGKILL as 128+9
			hc.Killed = true
		} else {
			return res, fmt.Errorf("child failed: %v: %s", runErr, out)
		}
	}
	called, returned, _ := readCalls(logf)
	ids := []cache.ActionID{mkID(hc.Group, 0), mkID(hc.Group, 1), mkID(hc.Group, 2)}
	okFor := make([][]allowed, len(ids))
	expect := make([]string, len(ids))
	for i, s := range hc.Steps {
		if !called[i] {
			continue
		}
		hc.Called = append(hc.Called, i)
		okFor[s.IDN] = append(okFor[s.IDN], allowed{s.Tag, genValue(s.Tag, s.Size)})
		if returned[i] {
			expect[s.IDN] = s.Tag
		} else {
			expect[s.IDN] = "" // an unfinished store may leave either
		}
	}
	res = m.audit(cdir, ids, okFor, expect, "after-crash-at:"+hc.Point, "fresh/"+hc.Group, hc)
	return
}

func (m *monitor) runKills() {
	r := m.r
	base := filepath.Join(r.Scratch(), "b")
	os.MkdirAll(base, 0o755)
	defer os.RemoveAll(base)

	// ---- (i) deaths at every hook point of the store path
	combos := [][2]int{{100, 4097}, {70000, 32769}, {0, 1}, {300000, 65536}}
	if r.Thorough() {
		combos = append(combos, [][2]int{{1, 0}, {4096, 4096}, {32768, 100}, {3, 2}, {1 << 20, 70000}, {65537, 32767}}...)
	}
	var cases []*hookCase
	for ci, cb := range combos {
		for _, p := range storePoints {
			for n := 1; n <= len(seqSpec("", 0, 0)); n++ {
				g := fmt.Sprintf("b-seq/%d/%s/%d", ci, p, n)
				cases = append(cases, &hookCase{Point: p, N: n, S1: cb[0], S2: cb[1], Group: g, Steps: seqSpec(g, cb[0], cb[1])})
			}
		}
	}
	results := make([]auditResult, len(cases))
	errs := make([]error, len(cases))
	var wg sync.WaitGroup
	ch := make(chan int)
	for w := 0; w < par(); w++ {
		wg.Add(1)
		go func(w int) {
			defer wg.Done()
			for i := range ch {
				results[i], errs[i] = m.runHookCase(filepath.Join(base, fmt.Sprintf("h%d", w)), cases[i])
			}
		}(w)
	}
	for i := range cases {
		ch <- i
	}
	close(ch)
	wg.Wait()
	killedAt := map[string]int{}
	notReached, doneHit, doneMiss, hits, miss := 0, 0, 0, 0, 0
	for i, res := range results {
		if errs[i] != nil {
			r.Inconclusive("(b) hook case %s#%d: %v", cases[i].Point, cases[i].N, errs[i])
			continue
		}
		if cases[i].Killed {
			killedAt[cases[i].Point]++
			m.distinct.add("b/" + res.sig)
		} else {
			notReached++
		}
		doneHit += res.doneHit
		doneMiss += res.doneMiss
		hits += res.hits
		miss += res.miss
		for _, v := range res.viol {
			r.Violation(v.key, v.what, v.replay)
		}
	}
	for _, p := range storePoints {
		if killedAt[p] == 0 {
			r.Set("b_point_never_reached:"+p, true) // fewer kill points explored; not a verdict
		}
	}
	r.Set("b_hook_cases", len(cases))
	r.Set("b_hook_kills_by_point", killedAt)
	r.Set("b_hook_cases_point_not_reached", notReached)
	r.Set("b_hook_lookups_hit", hits)
	r.Set("b_hook_lookups_miss", miss)
	r.Set("b_hook_completed_stores_retrievable", doneHit)
	r.Set("b_hook_completed_stores_lost_informational", doneMiss)
	for _, i := range []int{17, len(cases) / 2} {
		if i < len(cases) {
			r.Sample(map[string]any{"monitor": "b-hook", "point": cases[i].Point, "n": cases[i].N, "sizes": []int{cases[i].S1, cases[i].S2}, "killed": cases[i].Killed, "called_steps": cases[i].Called, "lookups_hit": results[i].hits, "lookups_miss": results[i].miss}, 12)
		}
	}

	// ---- (ii) deaths at seeded random moments, independent of any hook
	m.runRandomKills(base)
}

type randKill struct {
	Chain   int    `json:"chain"`
	Trial   int    `json:"trial"`
	DelayUS int    `json:"delay_us"`
	Called  int    `json:"puts_called"`
	MidPut  bool   `json:"killed_inside_put"`
	Sig     string `json:"state"`
}

func (m *monitor) runRandomKills(base string) {
	r := m.r
	chains := r.Pick(10, 16)
	perChain := r.Pick(15, 300)
	const resetEvery = 5
	type chainOut struct {
		kills []randKill
		res   []auditResult
		err   error
	}
	outs := make([]chainOut, chains)
	var wg sync.WaitGroup
	sem := make(chan struct{}, par())
	for ci := 0; ci < chains; ci++ {
		wg.Add(1)
		go func(ci int) {
			defer wg.Done()
			sem <- struct{}{}
			defer func() { <-sem }()
			rng := r.Rand("b-random", ci)
			dir := filepath.Join(base, fmt.Sprintf("r%d", ci))
			cdir := filepath.Join(dir, "cache")
			ids := []cache.ActionID{mkID("b-loop", 0), mkID("b-loop", 1), mkID("b-loop", 2), mkID("b-loop", 3)}
			var okFor [][]allowed
			for t := 0; t < perChain; t++ {
				if t%resetEvery == 0 {
					os.MkdirAll(cdir, 0o755)
					wipeFiles(cdir)
					okFor = make([][]allowed, len(ids))
				}
				trial := fmt.Sprintf("s%d/c%d/t%d", r.Seed, ci, t)
				logf := filepath.Join(dir, fmt.Sprintf("log%d", t))
				delay := rng.IntN(40000)
				if rng.IntN(4) == 0 {
					delay = rng.IntN(1500)
				}
				cmd := exec.Command(m.child, "loop", cdir, trial, logf)
				cmd.Env = m.childEnv()
				stdout, _ := cmd.StdoutPipe()
				if err := cmd.Start(); err != nil {
					outs[ci].err = err
					return
				}
				ready := make(chan bool, 1)
				go func() {
					l, _ := bufio.NewReader(stdout).ReadString('\n')
					ready <- l == "ready\n"
				}()
				select {
				case ok := <-ready:
					if !ok {
						cmd.Process.Kill()
						cmd.Wait()
						outs[ci].err = fmt.Errorf("child did not become ready")
						return
					}
				case <-time.After(60 * time.Second): // watchdog only
					cmd.Process.Kill()
					cmd.Wait()
					outs[ci].err = fmt.Errorf("child not ready after 60 s")
					return
				}
				time.Sleep(time.Duration(delay) * time.Microsecond)
				cmd.Process.Signal(syscall.SIGKILL)
				cmd.Wait()
				called, _, last := readCalls(logf)
				var idx []int
				for i := range called {
					idx = append(idx, i)
				}
				sort.Ints(idx)
				for _, i := range idx {
					s := loopStep(trial, i)
					okFor[s.IDN] = append(okFor[s.IDN], allowed{s.Tag, genValue(s.Tag, s.Size)})
				}
				rk := randKill{Chain: ci, Trial: t, DelayUS: delay, Called: len(idx), MidPut: last == "C"}
				fresh := "fresh/" + trial
				res := m.audit(cdir, ids, okFor, nil, "after-random-kill", fresh, rk)
				for i := range ids { // the audit's fresh values are now stored values too
					okFor[i] = append(okFor[i], allowed{fmt.Sprintf("%s/%d", fresh, i), genValue(fmt.Sprintf("%s/%d", fresh, i), 5000+i)})
				}
				rk.Sig = res.sig
				outs[ci].kills = append(outs[ci].kills, rk)
				outs[ci].res = append(outs[ci].res, res)
				os.Remove(logf)
			}
			os.RemoveAll(dir)
		}(ci)
	}
	wg.Wait()
	kills, mid, hits, miss, puts := 0, 0, 0, 0, 0
	for ci := range outs {
		if outs[ci].err != nil {
			r.Inconclusive("(b) random kills chain %d: %v", ci, outs[ci].err)
		}
		for i, rk := range outs[ci].kills {
			kills++
			puts += rk.Called
			if rk.MidPut {
				mid++
			}
			res := outs[ci].res[i]
			hits += res.hits
			miss += res.miss
			m.distinct.add("b/" + res.sig)
			for _, v := range res.viol {
				r.Violation(v.key, v.what, v.replay)
			}
			if ci == 0 && i < 2 {
				r.Sample(map[string]any{"monitor": "b-random", "kill": rk, "lookups_hit": res.hits, "lookups_miss": res.miss, "files": res.nfiles}, 12)
			}
		}
	}
	r.Set("b_random_kills", kills)
	r.Set("b_random_kills_inside_put", mid)
	r.Set("b_random_puts_called", puts)
	r.Set("b_random_lookups_hit", hits)
	r.Set("b_random_lookups_miss", miss)
}
