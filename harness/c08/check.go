// Package c08: pattern pre-filtering never changes what a pattern matches.
package c08

import (
	"encoding/json"
	"fmt"
	"go/ast"
	"go/parser"
	"go/token"
	"go/types"
	"math/rand/v2"
	"os"
	"path/filepath"
	"regexp"
	"sort"
	"strconv"
	"strings"
	"sync"

	"golang.org/x/tools/go/packages"
	"honnef.co/go/tools/pattern"
	"verif/c09"
	"verif/corpus"
	"verif/lintrun"
	"verif/monitors"
	"verif/vf"
)

// inTreePatterns extracts the source text of every pattern.MustParse(...) argument in /repo.
func inTreePatterns(repo string) []monitors.PatternSpec {
	var out []monitors.PatternSpec
	fset := token.NewFileSet()
	filepath.WalkDir(repo, func(p string, d os.DirEntry, err error) error {
		if err != nil {
			return nil
		}
		if d.IsDir() {
			if n := d.Name(); n == "testdata" || n == ".git" || n == "website" || n == "_benchmarks" {
				return filepath.SkipDir
			}
			return nil
		}
		if !strings.HasSuffix(p, ".go") || strings.HasSuffix(p, "_test.go") {
			return nil
		}
		f, err := parser.ParseFile(fset, p, nil, 0)
		if err != nil {
			return nil
		}
		ast.Inspect(f, func(n ast.Node) bool {
			call, ok := n.(*ast.CallExpr)
			if !ok || len(call.Args) != 1 {
				return true
			}
			sel, ok := call.Fun.(*ast.SelectorExpr)
			if !ok || sel.Sel.Name != "MustParse" {
				return true
			}
			if x, ok := sel.X.(*ast.Ident); !ok || x.Name != "pattern" {
				return true
			}
			if s, ok := constString(call.Args[0]); ok {
				rel, _ := filepath.Rel(repo, p)
				out = append(out, monitors.PatternSpec{ID: fmt.Sprintf("intree:%s:%d", rel, fset.Position(call.Pos()).Line), Text: s})
			}
			return true
		})
		return nil
	})
	sort.Slice(out, func(i, j int) bool { return out[i].ID < out[j].ID })
	return out
}

func constString(e ast.Expr) (string, bool) {
	switch e := e.(type) {
	case *ast.BasicLit:
		if e.Kind == token.STRING {
			s, err := strconv.Unquote(e.Value)
			return s, err == nil
		}
	case *ast.BinaryExpr:
		if e.Op == token.ADD {
			a, ok1 := constString(e.X)
			b, ok2 := constString(e.Y)
			return a + b, ok1 && ok2
		}
	case *ast.ParenExpr:
		return constString(e.X)
	}
	return "", false
}

func symbolName(obj types.Object) string {
	switch obj := obj.(type) {
	case *types.Func:
		if obj.Pkg() == nil {
			return ""
		}
		return obj.FullName()
	case *types.Builtin:
		return ""
	case *types.TypeName:
		if obj.Pkg() == nil || obj.Parent() != obj.Pkg().Scope() {
			return ""
		}
		return types.TypeString(obj.Type(), nil)
	case *types.Var, *types.Const:
		if obj.Pkg() == nil || obj.Parent() != obj.Pkg().Scope() {
			return ""
		}
		return obj.Pkg().Path() + "." + obj.Name()
	}
	return ""
}

func okStr(s string) bool { return !strings.ContainsAny(s, "\\\"") && s != "" }

// symbolPatterns derives patterns naming real symbols used in pkgs (so that they do match somewhere).
func symbolPatterns(rng *rand.Rand, pkgs []*packages.Package, n int) []monitors.PatternSpec {
	type use struct {
		name    string
		builtin string
		call    bool
	}
	var uses []use
	seen := map[string]bool{}
	for _, p := range pkgs {
		for _, f := range p.Syntax {
			ast.Inspect(f, func(nd ast.Node) bool {
				var id *ast.Ident
				call := false
				switch x := nd.(type) {
				case *ast.CallExpr:
					call = true
					switch fun := ast.Unparen(x.Fun).(type) {
					case *ast.Ident:
						id = fun
					case *ast.SelectorExpr:
						id = fun.Sel
					case *ast.IndexExpr:
						switch y := fun.X.(type) {
						case *ast.Ident:
							id = y
						case *ast.SelectorExpr:
							id = y.Sel
						}
					}
				case *ast.SelectorExpr:
					id = x.Sel
				}
				if id == nil {
					return true
				}
				obj := p.TypesInfo.ObjectOf(id)
				if obj == nil {
					return true
				}
				if b, ok := obj.(*types.Builtin); ok && call {
					if !seen["b:"+b.Name()] {
						seen["b:"+b.Name()] = true
						uses = append(uses, use{builtin: b.Name(), call: true})
					}
					return true
				}
				if obj.Pkg() == p.Types {
					return true // the property excludes symbols of the analysed package
				}
				if nm := symbolName(obj); nm != "" && okStr(nm) {
					k := fmt.Sprintf("%s/%v", nm, call)
					if !seen[k] {
						seen[k] = true
						uses = append(uses, use{name: nm, call: call})
					}
				}
				return true
			})
		}
	}
	sort.Slice(uses, func(i, j int) bool { return uses[i].name+uses[i].builtin < uses[j].name+uses[j].builtin })
	// chained calls x.M(a).N(b): inner and outer call share their start position
	type chain struct{ inner, outer string }
	var chains []chain
	seenChain := map[chain]bool{}
	for _, p := range pkgs {
		for _, f := range p.Syntax {
			ast.Inspect(f, func(nd ast.Node) bool {
				outer, ok := nd.(*ast.CallExpr)
				if !ok {
					return true
				}
				sel, ok := ast.Unparen(outer.Fun).(*ast.SelectorExpr)
				if !ok {
					return true
				}
				inner, ok := ast.Unparen(sel.X).(*ast.CallExpr)
				if !ok {
					return true
				}
				var innerID *ast.Ident
				switch fun := ast.Unparen(inner.Fun).(type) {
				case *ast.Ident:
					innerID = fun
				case *ast.SelectorExpr:
					innerID = fun.Sel
				}
				if innerID == nil {
					return true
				}
				of, ok1 := p.TypesInfo.ObjectOf(sel.Sel).(*types.Func)
				inf, ok2 := p.TypesInfo.ObjectOf(innerID).(*types.Func)
				if !ok1 || !ok2 || of.Pkg() == nil || inf.Pkg() == nil || of.Pkg() == p.Types || inf.Pkg() == p.Types {
					return true
				}
				c := chain{inf.FullName(), of.FullName()}
				if okStr(c.inner) && okStr(c.outer) && !seenChain[c] {
					seenChain[c] = true
					chains = append(chains, c)
				}
				return true
			})
		}
	}
	sort.Slice(chains, func(i, j int) bool { return chains[i].inner+chains[i].outer < chains[j].inner+chains[j].outer })
	var out []monitors.PatternSpec
	for i, c := range chains {
		if i >= n/3 {
			break
		}
		if c.inner == c.outer {
			out = append(out, monitors.PatternSpec{ID: fmt.Sprintf("chain:%d", i), Text: fmt.Sprintf(`(CallExpr (Symbol %q) _)`, c.inner)})
		} else {
			out = append(out, monitors.PatternSpec{ID: fmt.Sprintf("chain:%d", i), Text: fmt.Sprintf(`(CallExpr (Symbol (Or %q %q)) _)`, c.inner, c.outer)})
		}
	}
	if len(uses) == 0 {
		return nil
	}
	sym := func(u use) string {
		if u.builtin != "" {
			return fmt.Sprintf(`(Builtin %q)`, u.builtin)
		}
		return fmt.Sprintf(`(Symbol %q)`, u.name)
	}
	for i := 0; i < n; i++ {
		u := uses[rng.IntN(len(uses))]
		v := uses[rng.IntN(len(uses))]
		var txt string
		switch rng.IntN(12) {
		case 0:
			txt = fmt.Sprintf(`(CallExpr %s _)`, sym(u))
		case 1:
			txt = fmt.Sprintf(`(CallExpr fn@%s args)`, sym(u))
		case 2:
			if u.builtin != "" || v.builtin != "" {
				txt = fmt.Sprintf(`(CallExpr (Or %s %s) _)`, sym(u), sym(v))
			} else {
				txt = fmt.Sprintf(`(CallExpr (Symbol (Or %q %q)) _)`, u.name, v.name)
			}
		case 3:
			txt = fmt.Sprintf(`(CallExpr (Or %s %s) args)`, sym(u), sym(v))
		case 4:
			txt = sym(u) // a root symbol: entry nodes must include every node kind it can match
		case 5:
			txt = fmt.Sprintf(`(Or %s (CallExpr %s _))`, sym(u), sym(v))
		case 6:
			txt = fmt.Sprintf(`(Not %s)`, sym(u)) // matches every node that is not this symbol
		case 7:
			txt = fmt.Sprintf(`(CallExpr (Not %s) [])`, sym(u))
		case 8:
			txt = fmt.Sprintf(`(Binding "x" %s)`, sym(u))
		case 9:
			txt = fmt.Sprintf(`(AssignStmt _ _ (CallExpr %s _))`, sym(u))
		case 10:
			txt = fmt.Sprintf(`(CallExpr _ [(CallExpr %s _)])`, sym(u))
		default:
			txt = fmt.Sprintf(`(SelectorExpr _ (Ident _)):[]`)
			txt = fmt.Sprintf(`(ExprStmt2 %s)`, sym(u))
			txt = fmt.Sprintf(`(IfStmt _ (BinaryExpr (CallExpr %s _) _ _) _ _)`, sym(u))
		}
		out = append(out, monitors.PatternSpec{ID: fmt.Sprintf("sym:%d", i), Text: txt})
	}
	return out
}

const callforms = `// Package callforms calls the same functions in every syntactic form.
package callforms

import (
	"bytes"
	"fmt"
	"slices"
	. "strings"
	str "strings"
	"sync"
	"text/template"
	"time"
)

type Buf = bytes.Buffer

type W struct {
	bytes.Buffer
	mu *sync.Mutex
}

type PW struct{ *W }

func F(w *W, pw PW, xs []int) int {
	fmt.Println("plain")
	(fmt.Println)("parenthesised")
	((fmt.Println))("twice")
	p := fmt.Println
	p("method value of a package function")
	n := slices.Index(xs, 1)
	n += slices.Index[[]int](xs, 2)
	n += slices.Index[[]int, int](xs, 3)
	n += (slices.Index[[]int])(xs, 4)
	if Contains("dot", "d") || str.Contains("renamed", "r") || (Contains)("paren dot", "p") {
		n++
	}
	var b Buf
	b.WriteString("alias")
	w.WriteString("promoted through embedding")
	pw.WriteString("promoted twice")
	pw.W.Buffer.WriteString("explicit path")
	ws := w.WriteString
	ws("method value")
	(*bytes.Buffer).WriteString(&w.Buffer, "method expression")
	me := (*bytes.Buffer).WriteString
	me(&b, "method expression value")
	w.mu.Lock()
	defer w.mu.Unlock()
	defer fmt.Println("deferred")
	go fmt.Println("go")
	_ = []any{fmt.Sprint(1), str.ToUpper("x"), len(xs), cap(xs), append(xs, 1)}
	// chained calls: the outer and the inner call start at the same position
	t0 := time.Now()
	_ = t0.Add(time.Second).Add(2 * time.Second).Add(3)
	tpl := template.New("x").Funcs(nil).Option("missingkey=zero")
	_ = tpl
	_ = str.NewReplacer("a", "b").Replace(str.NewReplacer("c", "d").Replace("x"))
	_ = bytes.NewBufferString("x").String()
	_ = Buf{}
	var _ bytes.Buffer
	return n + b.Len() + w.Len() + len(Repeat("x", 2))
}
`

var callformPatterns = []string{
	`(CallExpr (Symbol "fmt.Println") _)`,
	`(CallExpr (Symbol "slices.Index") _)`,
	`(CallExpr (Symbol "strings.Contains") _)`,
	`(CallExpr (Symbol "(*bytes.Buffer).WriteString") _)`,
	`(CallExpr (Symbol "(*sync.Mutex).Lock") _)`,
	`(CallExpr (Symbol (Or "strings.Repeat" "strings.ToUpper" "fmt.Sprint")) _)`,
	`(Symbol "fmt.Println")`,
	`(Symbol "slices.Index")`,
	`(Symbol "strings.Contains")`,
	`(Symbol "(*bytes.Buffer).WriteString")`,
	`(Symbol "bytes.Buffer")`,
	`(CompositeLit (Symbol "bytes.Buffer") _)`,
	`(Not (Symbol "fmt.Println"))`,
	`(Not (Ident _))`,
	`(Or (Symbol "fmt.Println") (CallExpr (Symbol "slices.Index") _))`,
	`(Binding "f" (Symbol "strings.Contains"))`,
	`(CallExpr (Builtin "len") _)`,
	`(Builtin "append")`,
	`(DeferStmt (CallExpr (Symbol "fmt.Println") _))`,
	`(GoStmt (CallExpr (Symbol "fmt.Println") _))`,
	`(CallExpr (IndexExpr (Symbol "slices.Index") _) _)`,
	`(IndexExpr (Symbol "slices.Index") _)`,
	`(CallExpr (Symbol "(time.Time).Add") _)`,
	`(CallExpr (Symbol "(time.Time).Add") [arg])`,
	`(CallExpr (Symbol (Or "text/template.New" "(*text/template.Template).Funcs" "(*text/template.Template).Option")) _)`,
	`(CallExpr (Symbol (Or "strings.NewReplacer" "(*strings.Replacer).Replace")) _)`,
	`(CallExpr (Or (Symbol "bytes.NewBufferString") (Symbol "(*bytes.Buffer).String")) _)`,
}

var instantiatedMethodSymbol = regexp.MustCompile(`"\(\*?[^"()]*\[[^"]*\]\)\.[^"]*"`)

type patStats struct {
	Pairs, Skipped, PairsWithMatch, Matches, BrutePanics, BothPanicked int
	PrunedBySymbols, ByCallSites, ByEntryNodes           int
}

func Run(r *vf.Run) {
	bin := r.BuildBin("vlint", "./cmd/vlint", false)
	intree := inTreePatterns(vf.Repo())
	// corpus packages
	stdPkgs := []string{"strings", "sort", "strconv", "bufio", "text/template/parse", "go/scanner", "container/list", "encoding/json", "go/printer", "net/url", "text/tabwriter", "os/exec", "log", "flag", "io/fs"}
	repoPkgs := []string{"honnef.co/go/tools/pattern", "honnef.co/go/tools/config", "honnef.co/go/tools/lintcmd", "honnef.co/go/tools/analysis/report", "honnef.co/go/tools/staticcheck/sa1019", "honnef.co/go/tools/simple/s1008", "honnef.co/go/tools/go/ir/irutil"}
	if r.Thorough() {
		stdPkgs = append(stdPkgs, "bytes", "fmt", "os", "time", "net/http", "regexp", "math/big", "go/parser", "go/types", "reflect", "encoding/xml", "html/template", "database/sql", "archive/tar", "compress/flate", "crypto/tls", "image/png", "mime/multipart")
		repoPkgs = []string{"honnef.co/go/tools/..."}
	}
	// callforms module
	cfDir := filepath.Join(r.Scratch(), "callforms")
	corpus.WriteModule(cfDir, "example.com/callforms", "1.22", map[string]string{"callforms.go": callforms})

	loaded, err := corpus.Load(vf.Repo(), false, append(append([]string{}, stdPkgs...), repoPkgs...)...)
	if err != nil || len(loaded) == 0 {
		r.Inconclusive("corpus load failed: %v", err)
		r.Finish(0, 0, 1, "corpus load failed")
	}
	cfLoaded, _ := corpus.Load(cfDir, false, "./...")
	// generated patterns
	nGen := r.Pick(250, 2500)
	nSym := r.Pick(120, 1000)
	var generated []monitors.PatternSpec
	rng := r.Rand("patgen", 0)
	var nodes []ast.Node
	for _, p := range loaded {
		for _, f := range p.Syntax {
			ast.Inspect(f, func(n ast.Node) bool {
				switch n.(type) {
				case nil, *ast.File, *ast.Comment, *ast.CommentGroup:
					return n != nil
				}
				nodes = append(nodes, n)
				return true
			})
		}
	}
	for i := 0; len(generated) < nGen && i < nGen*20; i++ {
		n := nodes[rng.IntN(len(nodes))]
		txt := c09.GenerateFor(rng, n, 2+rng.IntN(3))
		if txt == "" || len(txt) > 2000 {
			continue
		}
		if _, err := (&pattern.Parser{AllowTypeInfo: true}).Parse(txt); err != nil {
			continue
		}
		generated = append(generated, monitors.PatternSpec{ID: fmt.Sprintf("gen:%d", len(generated)), Text: txt})
	}
	symPats := symbolPatterns(rng, append(loaded, cfLoaded...), nSym)
	var valid []monitors.PatternSpec
	for _, s := range symPats {
		ok := func() (ok bool) {
			defer func() {
				if recover() != nil {
					ok = false
				}
			}()
			_, err := (&pattern.Parser{AllowTypeInfo: true}).Parse(s.Text)
			return err == nil
		}()
		if ok {
			valid = append(valid, s)
		}
	}
	var cfPats []monitors.PatternSpec
	for i, t := range callformPatterns {
		cfPats = append(cfPats, monitors.PatternSpec{ID: fmt.Sprintf("callform:%d", i), Text: t})
	}
	all := append(append(append(append([]monitors.PatternSpec{}, intree...), cfPats...), valid...), generated...)
	patFile := filepath.Join(r.Scratch(), "patterns.json")
	b, _ := json.Marshal(all)
	os.WriteFile(patFile, b, 0o644)
	if d := os.Getenv("C08_DUMP_PATTERNS"); d != "" { // development only
		os.WriteFile(d, b, 0o644)
	}

	type job struct {
		name, dir string
		pats      []string
	}
	var jobs []job
	jobs = append(jobs, job{"callforms", cfDir, []string{"./..."}})
	for i := 0; i < len(stdPkgs); i += 4 {
		jobs = append(jobs, job{"std", vf.Repo(), stdPkgs[i:min(len(stdPkgs), i+4)]})
	}
	for _, p := range repoPkgs {
		jobs = append(jobs, job{"repo", vf.Repo(), []string{p}})
	}
	type jres struct {
		j   job
		res lintrun.Result
	}
	results := make([]jres, len(jobs))
	var wg sync.WaitGroup
	sem := make(chan struct{}, 6)
	for i, j := range jobs {
		wg.Add(1)
		go func(i int, j job) {
			defer wg.Done()
			sem <- struct{}{}
			defer func() { <-sem }()
			cache := filepath.Join(r.Scratch(), fmt.Sprintf("cache%d", i))
			os.MkdirAll(cache, 0o755)
			args := append([]string{"-verif.only-monitors", "-checks", "VFY9002", "-tests=false", "-f", "json"}, j.pats...)
			results[i] = jres{j, lintrun.Cmd{Bin: bin, Dir: j.dir, Env: []string{"STATICCHECK_CACHE=" + cache, "VERIF_PATTERNS=" + patFile}, Args: args, Watchdog: 2400}.Run()}
			os.RemoveAll(cache)
		}(i, j)
	}
	wg.Wait()
	var tot patStats
	pkgs := 0
	text := map[string]string{}
	for _, s := range all {
		text[s.ID] = s.Text
	}
	for _, jr := range results {
		if jr.res.Killed {
			r.Inconclusive("watchdog fired on %v", jr.j.pats)
			continue
		}
		if jr.res.Crashed() || jr.res.Exit > 1 {
			r.Violation("monitor-run-crashed", fmt.Sprintf("vlint failed on %v (exit %d)", jr.j.pats, jr.res.Exit), map[string]any{"patterns": jr.j.pats, "stderr": tailS(string(jr.res.Stderr), 3000)})
			continue
		}
		ps, err := jr.res.Problems()
		if err != nil {
			r.Inconclusive("unparsable output for %v: %v", jr.j.pats, err)
			continue
		}
		for _, p := range ps {
			if p.Code != "VFY9002" {
				if p.Code == "compile" {
					r.Inconclusive("compile problem in corpus package: %s", p.Message)
				}
				continue
			}
			switch {
			case strings.HasPrefix(p.Message, "patmon stats "):
				var st patStats
				json.Unmarshal([]byte(strings.TrimPrefix(p.Message, "patmon stats ")), &st)
				pkgs++
				tot.Pairs += st.Pairs
				tot.Skipped += st.Skipped
				tot.PairsWithMatch += st.PairsWithMatch
				tot.Matches += st.Matches
				tot.BrutePanics += st.BrutePanics
				tot.BothPanicked += st.BothPanicked
				tot.PrunedBySymbols += st.PrunedBySymbols
				tot.ByCallSites += st.ByCallSites
				tot.ByEntryNodes += st.ByEntryNodes
			case strings.HasPrefix(p.Message, "patmon mismatch "):
				var m map[string]any
				json.Unmarshal([]byte(strings.TrimPrefix(p.Message, "patmon mismatch ")), &m)
				id, _ := m["id"].(string)
				filter, _ := m["filter"].(string)
				root := rootKind(text[id])
				m["package_file"] = p.Location.File
				kind := "missing"
				if mi, _ := m["missing"].(float64); mi == 0 {
					kind = "extra"
				}
				key := fmt.Sprintf("prefilter-%s-matches:%s:root=%s:%s", kind, filter, root, strings.SplitN(id, ":", 2)[0])
				if kind == "missing" && instantiatedMethodSymbol.MatchString(text[id]) {
					// a Symbol that names a method of an *instantiated* generic type,
					// e.g. "(*sync/atomic.Pointer[string]).Store": the matcher compares
					// full names and matches, the symbol index cannot resolve the name
					key = "prefilter-missing-matches:symbol-names-method-of-instantiated-generic-type"
				}
				if va, _ := m["all_missing_are_alias_type_names"].(bool); va && kind == "missing" && filter == "symbol-index-rejected-package" {
					// a Symbol naming a type, where the package refers to the type only through an
					// alias declared elsewhere (os.FileMode = io/fs.FileMode): the matcher peels the
					// alias and matches, the package filter finds no reference to the named package
					key = "prefilter-missing-matches:type-symbol-reached-only-through-an-alias"
				}
				r.Violation(key,
					fmt.Sprintf("pattern %s: code.Matches and matching every node disagree in %s (missing %v, extra %v; first missing at %v)", id, filepath.Base(filepath.Dir(p.Location.File)), m["missing"], m["extra"], m["first_missing_at"]), m)
			case strings.HasPrefix(p.Message, "patmon panic "):
				r.Violation("matches-panicked", p.Message, map[string]any{"message": p.Message, "file": p.Location.File})
			}
		}
	}
	r.Set("patterns_in_tree", len(intree))
	r.Set("patterns_callforms", len(cfPats))
	r.Set("patterns_symbol_derived", len(valid))
	nChain := 0
	for _, v := range valid {
		if strings.HasPrefix(v.ID, "chain:") {
			nChain++
		}
	}
	r.Set("patterns_from_chained_calls", nChain)
	r.Set("patterns_generated", len(generated))
	r.Set("packages", pkgs)
	r.Set("pairs", tot.Pairs)
	r.Set("pairs_skipped_symbol_declared_in_package", tot.Skipped)
	r.Set("pairs_with_reference_match", tot.PairsWithMatch)
	r.Set("reference_matches_compared", tot.Matches)
	r.Set("pairs_rejected_by_symbol_index", tot.PrunedBySymbols)
	r.Set("pairs_searched_via_root_call_sites", tot.ByCallSites)
	r.Set("pairs_searched_via_entry_nodes", tot.ByEntryNodes)
	r.Set("brute_force_match_panics_ignored", tot.BrutePanics)
	r.Set("pairs_skipped_because_plain_matcher_and_Matches_both_panic", tot.BothPanicked)
	for _, s := range []monitors.PatternSpec{intree[0], cfPats[3], valid[0], generated[0]} {
		r.Sample(s, 4)
	}
	r.Assume("both sides run inside the same analysis.Pass of the real runner (same inspector and type index as production); matches are compared modulo the wrapper nodes the matcher unwraps by design")
	r.Finish(tot.Pairs, tot.PairsWithMatch, r.Pick(300, 3000),
		"pairs = (pattern, package): all patterns compiled into the checks (extracted from the working tree at run time), hand-written call-form patterns over a package that calls the same functions in every syntactic form, patterns naming real symbols used by the corpus (roots Symbol/Or/Not/Binding/CallExpr...), generalised real subtrees; packages = slices of std and the repository plus the call-form package. non-trivial = pairs in which trying the pattern on every node produced at least one match")
}

func rootKind(txt string) string {
	txt = strings.TrimPrefix(strings.TrimSpace(txt), "(")
	if i := strings.IndexAny(txt, " )"); i > 0 {
		return txt[:i]
	}
	return "?"
}

func tailS(s string, n int) string {
	if len(s) > n {
		return s[len(s)-n:]
	}
	return s
}
