package c19

// structgen: seeded generator of struct types, their Go source, and the
// one-step reductions used by the shrinker.

import (
	"fmt"
	"math/rand/v2"
	"strings"
)

type kind int

const (
	kBasic  kind = iota // Basic names a predeclared type (incl. string)
	kWord               // one machine word with arbitrary source text (pointer, map, chan, func, unsafe-free)
	kSlice              // Src holds the source
	kIface              // Src holds the source
	kArray              // [Len]Elem
	kStruct             // Fields
	kNamed              // type Name Elem / type Name = Elem
)

type Typ struct {
	K      kind
	Basic  string
	Src    string // kWord, kSlice, kIface: literal source text
	Elem   *Typ
	Len    int
	Fields []*Field
	Name   string
	Alias  bool
}

type Field struct {
	Name     string // "_" for blank; for embedded fields the type name
	Embedded bool   // T must be kNamed, or kWord with Ptr != nil
	Ptr      *Typ   // embedded *Named: the named type pointed to (T is then a kWord)
	T        *Typ
}

func (t *Typ) under() *Typ {
	for t.K == kNamed {
		t = t.Elem
	}
	return t
}

func (t *Typ) clone() *Typ {
	if t == nil {
		return nil
	}
	c := *t
	c.Elem = t.Elem.clone()
	if t.Fields != nil {
		c.Fields = make([]*Field, len(t.Fields))
		for i, f := range t.Fields {
			g := *f
			g.T = f.T.clone()
			g.Ptr = f.Ptr.clone()
			c.Fields[i] = &g
		}
	}
	return &c
}

// src renders the type expression (named types by name).
func (t *Typ) src() string {
	switch t.K {
	case kBasic:
		return t.Basic
	case kWord, kSlice, kIface:
		return t.Src
	case kArray:
		return fmt.Sprintf("[%d]%s", t.Len, t.Elem.src())
	case kNamed:
		return t.Name
	case kStruct:
		if len(t.Fields) == 0 {
			return "struct{}"
		}
		var sb strings.Builder
		sb.WriteString("struct{ ")
		for i, f := range t.Fields {
			if i > 0 {
				sb.WriteString("; ")
			}
			sb.WriteString(f.src())
		}
		sb.WriteString(" }")
		return sb.String()
	}
	panic("bad kind")
}

func (f *Field) src() string {
	if f.Embedded {
		if f.Ptr != nil {
			return "*" + f.Ptr.Name
		}
		return f.T.Name
	}
	return f.Name + " " + f.T.src()
}

// decls appends the declarations of every named type reachable from t.
func (t *Typ) decls(out *[]string, seen map[string]bool) {
	if t == nil {
		return
	}
	switch t.K {
	case kNamed:
		if seen[t.Name] {
			return
		}
		seen[t.Name] = true
		t.Elem.decls(out, seen)
		eq := ""
		if t.Alias {
			eq = "= "
		}
		*out = append(*out, fmt.Sprintf("type %s %s%s", t.Name, eq, t.Elem.src()))
	case kArray:
		t.Elem.decls(out, seen)
	case kStruct:
		for _, f := range t.Fields {
			f.T.decls(out, seen)
			f.Ptr.decls(out, seen)
		}
	}
}

// declSource returns the full declaration of the top-level struct type `name`
// including all helper types.
func declSource(name string, t *Typ) string {
	var ds []string
	t.decls(&ds, map[string]bool{})
	ds = append(ds, fmt.Sprintf("type %s %s", name, t.src()))
	return strings.Join(ds, "\n") + "\n"
}

// ---------------------------------------------------------------------------

var basics = []string{"bool", "int8", "int16", "int32", "int64", "int", "uint8", "uint16", "uint32", "uint64", "uint", "uintptr",
	"float32", "float64", "complex64", "complex128", "string", "byte", "rune"}

var smallBasics = []string{"bool", "int8", "uint8", "int16", "uint16", "int32", "float32"}

var words = []string{"*int8", "*int64", "*struct{ a, b int8 }", "map[string]int8", "map[int16]struct{}", "chan int32", "<-chan struct{}",
	"func()", "func(int8) (int64, error)", "*[4]int16", "**byte", "*[0]int64"}
var slices_ = []string{"[]byte", "[]int64", "[]struct{}", "[]*int8", "[][2]int16"}
var ifaces = []string{"interface{}", "any", "error", "interface{ M() int8 }", "interface{ comparable_() }"}

type gen struct {
	rng    *rand.Rand
	prefix string // name prefix for helper types (unique per top-level type)
	nNamed int
}

func (g *gen) pick(ss []string) string { return ss[g.rng.IntN(len(ss))] }

func (g *gen) named(u *Typ) *Typ {
	g.nNamed++
	return &Typ{K: kNamed, Name: fmt.Sprintf("%sN%d", g.prefix, g.nNamed), Elem: u, Alias: g.rng.IntN(3) == 0}
}

func (g *gen) zeroSize(depth int) *Typ {
	switch g.rng.IntN(6) {
	case 0, 1:
		return &Typ{K: kStruct}
	case 2:
		return &Typ{K: kArray, Len: 0, Elem: &Typ{K: kBasic, Basic: g.pick(basics)}}
	case 3:
		return &Typ{K: kArray, Len: 0, Elem: g.typ(depth + 1)}
	case 4:
		return &Typ{K: kArray, Len: g.rng.IntN(4), Elem: &Typ{K: kStruct}}
	default:
		if depth < 3 {
			// a non-empty struct that still has size zero
			n := 1 + g.rng.IntN(2)
			s := &Typ{K: kStruct}
			for i := 0; i < n; i++ {
				s.Fields = append(s.Fields, &Field{Name: fmt.Sprintf("z%d", i), T: g.zeroSize(depth + 1)})
			}
			return s
		}
		return &Typ{K: kStruct}
	}
}

func (g *gen) typ(depth int) *Typ {
	x := g.rng.IntN(100)
	switch {
	case x < 26:
		return &Typ{K: kBasic, Basic: g.pick(smallBasics)}
	case x < 46:
		return &Typ{K: kBasic, Basic: g.pick(basics)}
	case x < 52:
		return &Typ{K: kWord, Src: g.pick(words)}
	case x < 55:
		return &Typ{K: kSlice, Src: g.pick(slices_)}
	case x < 58:
		return &Typ{K: kIface, Src: g.pick(ifaces)}
	case x < 64:
		return g.zeroSize(depth)
	case x < 76:
		lens := []int{0, 1, 1, 2, 2, 3, 5}
		return &Typ{K: kArray, Len: lens[g.rng.IntN(len(lens))], Elem: g.typ(depth + 1)}
	case x < 92:
		if depth >= 3 {
			return &Typ{K: kBasic, Basic: g.pick(smallBasics)}
		}
		return g.strct(depth+1, g.rng.IntN(5))
	default:
		return g.named(g.typ(depth)) // depth unchanged: a name is not a nesting level
	}
}

// strct generates a struct type with n fields (before the optional zero-size
// head/tail additions).
func (g *gen) strct(depth, n int) *Typ {
	s := &Typ{K: kStruct}
	add := func(t *Typ, front bool) {
		f := &Field{T: t}
		s.Fields = append(s.Fields, f)
		if front {
			copy(s.Fields[1:], s.Fields)
			s.Fields[0] = f
		}
	}
	for i := 0; i < n; i++ {
		add(g.typ(depth), false)
	}
	if n > 0 && g.rng.IntN(100) < 14 {
		add(g.zeroSize(depth), false)
	}
	if n > 0 && g.rng.IntN(100) < 8 {
		add(g.zeroSize(depth), true)
	}
	if len(s.Fields) > 12 {
		s.Fields = s.Fields[:12]
	}
	// names, blanks, embedding
	for i, f := range s.Fields {
		f.Name = fmt.Sprintf("f%d", i)
		x := g.rng.IntN(100)
		switch {
		case x < 7:
			f.Name = "_"
		case x < 16:
			u := f.T.under()
			switch {
			case u.K == kStruct && g.rng.IntN(3) == 0:
				// embedded pointer to a named struct
				if f.T.K != kNamed {
					f.T = g.named(f.T)
				}
				f.T.Alias = false
				f.Ptr = f.T
				f.T = &Typ{K: kWord, Src: "*" + f.Ptr.Name}
				f.Embedded = true
				f.Name = f.Ptr.Name
			case u.K == kStruct || u.K == kBasic || u.K == kArray:
				if f.T.K != kNamed {
					f.T = g.named(f.T)
				}
				f.Embedded = true
				f.Name = f.T.Name
			}
		}
	}
	return s
}

// genTop generates top-level struct type number idx.
func genTop(rng *rand.Rand, name string) *Typ {
	g := &gen{rng: rng, prefix: name}
	nf := []int{0, 1, 1, 1, 2, 2, 2, 2, 3, 3, 3, 4, 4, 5, 5, 6, 7, 8, 9, 10, 11, 12}
	return g.strct(1, nf[rng.IntN(len(nf))])
}

// ---------------------------------------------------------------------------
// Shrinking: one-step reductions of a top-level struct type.

// simpler returns strictly simpler replacement types for t (not structs'
// field removals; those are handled by reductions).
func simpler(t *Typ) []*Typ {
	var out []*Typ
	b := func(n string) *Typ { return &Typ{K: kBasic, Basic: n} }
	switch t.K {
	case kNamed:
		out = append(out, t.Elem.clone())
	case kArray:
		out = append(out, t.Elem.clone())
		if t.Len > 2 {
			c := t.clone()
			c.Len = 2
			out = append(out, c)
		}
		if t.Len == 0 && !(t.Elem.K == kBasic) {
			out = append(out, &Typ{K: kArray, Len: 0, Elem: b("int64")}, &Typ{K: kArray, Len: 0, Elem: b("int8")})
		}
		if t.Len == 0 && t.Elem.K == kBasic && t.Elem.Basic != "int64" && t.Elem.Basic != "int8" {
			sz, _ := sizeAlign(t.Elem)
			if sz == 1 {
				out = append(out, &Typ{K: kArray, Len: 0, Elem: b("int8")})
			}
			if sz == 8 {
				out = append(out, &Typ{K: kArray, Len: 0, Elem: b("int64")})
			}
		}
	case kStruct:
		if len(t.Fields) == 1 {
			out = append(out, t.Fields[0].T.clone())
		}
		if sz, al := sizeAlign(t); sz == 0 && al == 1 && len(t.Fields) > 0 {
			out = append(out, &Typ{K: kStruct})
		}
	case kWord, kSlice, kIface:
		sz, _ := sizeAlign(t)
		switch sz {
		case 8:
			out = append(out, b("int64"))
		case 16:
			out = append(out, b("string"))
		}
	case kBasic:
		sz, al := sizeAlign(t)
		var want string
		switch {
		case sz == 1:
			want = "int8"
		case sz == 2:
			want = "int16"
		case sz == 4:
			want = "int32"
		case sz == 8 && al == 8:
			want = "int64"
		}
		if want != "" && want != t.Basic {
			out = append(out, b(want))
		}
	}
	return out
}

// reductions returns every type obtained from the struct type t by exactly
// one reduction step, most aggressive first.
func reductions(t *Typ) []*Typ {
	var out []*Typ
	if t.K != kStruct {
		return nil
	}
	// 1. remove one field
	for i := range t.Fields {
		c := t.clone()
		c.Fields = append(c.Fields[:i], c.Fields[i+1:]...)
		out = append(out, c)
	}
	// 2. un-embed / un-blank
	for i, f := range t.Fields {
		if f.Embedded || f.Name == "_" {
			c := t.clone()
			c.Fields[i].Embedded = false // Ptr is kept so that the pointed-to type stays declared
			c.Fields[i].Name = fmt.Sprintf("f%d", i)
			out = append(out, c)
		}
	}
	// 3. simplify one field's type
	for i, f := range t.Fields {
		if f.Embedded {
			continue
		}
		for _, s := range simpler(f.T) {
			c := t.clone()
			c.Fields[i].T = s
			out = append(out, c)
		}
	}
	// 4. recurse into nested structs / arrays of structs / named structs
	for i, f := range t.Fields {
		if f.Embedded {
			continue
		}
		for _, s := range reduceInside(f.T) {
			c := t.clone()
			c.Fields[i].T = s
			out = append(out, c)
		}
	}
	return out
}

func reduceInside(t *Typ) []*Typ {
	switch t.K {
	case kStruct:
		return reductions(t)
	case kArray, kNamed:
		var out []*Typ
		for _, s := range reduceInside(t.Elem) {
			c := t.clone()
			c.Elem = s
			out = append(out, c)
		}
		return out
	}
	return nil
}

// complexity orders types for "smallest first".
func complexity(t *Typ) int {
	if t == nil {
		return 0
	}
	switch t.K {
	case kStruct:
		n := 2
		for _, f := range t.Fields {
			n += 1 + complexity(f.T)
			if f.Embedded || f.Name == "_" {
				n++
			}
		}
		return n
	case kArray, kNamed:
		return 1 + complexity(t.Elem)
	}
	return 1
}
