// Package c19: structlayout matches the compiler; structlayout-optimize never
// grows a struct (property C19).
//
// Oracle: a generated program, compiled and run on the host (linux/amd64),
// that prints reflect/unsafe sizes, alignments and offsets of every generated
// type. The real CLIs (structlayout -json, structlayout-optimize -json [-r])
// are run as child processes on the same generated package.
package c19

import (
	"bytes"
	"encoding/json"
	"fmt"
	"go/ast"
	"go/parser"
	"go/token"
	"go/types"
	"os"
	"os/exec"
	"path/filepath"
	"runtime"
	"sort"
	"strconv"
	"strings"
	"sync"
	"time"

	"verif/vf"
)

// Entry mirrors honnef.co/go/tools/structlayout.Field (JSON form).
type Entry struct {
	Name      string `json:"name"`
	Type      string `json:"type"`
	Start     int64  `json:"start"`
	End       int64  `json:"end"`
	Size      int64  `json:"size"`
	Align     int64  `json:"align"`
	IsPadding bool   `json:"is_padding"`
}

type symptom struct {
	Kind   string `json:"kind"`
	Detail string `json:"detail"`
}

var stage1Priority = []string{"tool-error", "field-list-mismatch", "size-mismatch", "tiling-gap", "tiling-overlap", "entry-inconsistent",
	"field-start-mismatch", "field-size-mismatch", "field-align-mismatch"}

var stage2Priority = []string{"error", "not-permutation", "claims-smaller-than-compiler", "claims-larger-than-compiler", "claimed-entries-do-not-tile",
	"field-size-mismatch", "field-align-mismatch", "field-start-mismatch"}

func primary(syms []symptom, prio []string) string {
	for _, p := range prio {
		for _, s := range syms {
			if s.Kind == p {
				return p
			}
		}
	}
	return ""
}

func has(syms []symptom, kind string) bool {
	for _, s := range syms {
		if s.Kind == kind {
			return true
		}
	}
	return false
}

// stage1 compares structlayout's entries with the truth.
func stage1(entries []Entry, tr *Truth) []symptom {
	var out []symptom
	add := func(k, f string, a ...any) { out = append(out, symptom{k, fmt.Sprintf(f, a...)}) }
	pos := int64(0)
	for i, e := range entries {
		if e.End != e.Start+e.Size || e.Size < 0 {
			add("entry-inconsistent", "entry %d (%s): start %d end %d size %d", i, e.Name, e.Start, e.End, e.Size)
		}
		if e.Start > pos {
			add("tiling-gap", "bytes [%d,%d) before entry %d (%s) are covered by no entry", pos, e.Start, i, e.Name)
		} else if e.Start < pos {
			add("tiling-overlap", "entry %d (%s) starts at %d, previous entry ends at %d", i, e.Name, e.Start, pos)
		}
		pos = e.End
	}
	if pos != tr.Size {
		add("size-mismatch", "entries end at %d, compiler Sizeof = %d", pos, tr.Size)
	}
	var np []Entry
	for _, e := range entries {
		if !e.IsPadding {
			np = append(np, e)
		}
	}
	if len(np) != len(tr.Leaves) {
		add("field-list-mismatch", "%d non-padding entries, compiler has %d flattened fields", len(np), len(tr.Leaves))
		return out
	}
	for i, e := range np {
		if e.Name != tr.Leaves[i].Path {
			add("field-list-mismatch", "entry %d is %q, expected %q", i, e.Name, tr.Leaves[i].Path)
			return out
		}
	}
	for i, e := range np {
		l := tr.Leaves[i]
		if e.Start != l.Off {
			add("field-start-mismatch", "%s: start %d, compiler Offsetof = %d", e.Name, e.Start, l.Off)
		}
		if e.Size != l.Size && !(l.PadOK && l.Size == 0 && e.Size == 1) {
			add("field-size-mismatch", "%s: size %d, compiler Sizeof = %d", e.Name, e.Size, l.Size)
		}
		if e.Align != l.Align {
			add("field-align-mismatch", "%s: align %d, compiler Alignof = %d", e.Name, e.Align, l.Align)
		}
	}
	return out
}

// planReorder maps the optimiser's non-padding output entries back to the
// units it was given (top-level fields by default, flattened leaves with -r)
// and builds the reordered struct type.
func planReorder(out []Entry, units []Leaf) (re *Typ, syms []symptom) {
	var np []Entry
	for _, e := range out {
		if !e.IsPadding {
			np = append(np, e)
		}
	}
	names := func(get func(int) string, n int) []string {
		s := make([]string, n)
		for i := range s {
			s[i] = get(i)
		}
		sort.Strings(s)
		return s
	}
	a := names(func(i int) string { return np[i].Name }, len(np))
	b := names(func(i int) string { return units[i].Path }, len(units))
	if strings.Join(a, "\x00") != strings.Join(b, "\x00") {
		return nil, []symptom{{"not-permutation", fmt.Sprintf("output fields %q, input fields %q", a, b)}}
	}
	used := make([]bool, len(units))
	re = &Typ{K: kStruct}
	for k, e := range np {
		best := -1
		for i, u := range units {
			if used[i] || u.Path != e.Name {
				continue
			}
			if best < 0 {
				best = i
			}
			if u.Size == e.Size && u.Align == e.Align {
				best = i
				break
			}
		}
		used[best] = true
		re.Fields = append(re.Fields, &Field{Name: fmt.Sprintf("g%d", k), T: units[best].T})
	}
	return re, nil
}

// stage2 compares the optimiser's claimed layout with what the compiler does
// for the reordered struct, and the reordered size with the original size.
func stage2(out []Entry, reTruth *Truth, orig *Truth) []symptom {
	var syms []symptom
	add := func(k, f string, a ...any) { syms = append(syms, symptom{k, fmt.Sprintf(f, a...)}) }
	pos := int64(0)
	var np []Entry
	fieldBad := false
	for i, e := range out {
		if e.Start != pos || e.End != e.Start+e.Size {
			add("claimed-entries-do-not-tile", "claimed entries do not tile: entry %d (%s) %d-%d size %d after %d", i, e.Name, e.Start, e.End, e.Size, pos)
			fieldBad = true
		}
		pos = e.End
		if !e.IsPadding {
			np = append(np, e)
		}
	}
	if pos < reTruth.Size {
		add("claims-smaller-than-compiler", "claimed total %d, compiler Sizeof(reordered) = %d", pos, reTruth.Size)
	} else if pos > reTruth.Size {
		add("claims-larger-than-compiler", "claimed total %d, compiler Sizeof(reordered) = %d", pos, reTruth.Size)
	}
	for k, e := range np {
		l := reTruth.Top[k]
		if fieldBad {
			break
		}
		if e.Size != l.Size && !(l.PadOK && l.Size == 0 && e.Size == 1) {
			add("field-size-mismatch", "%s claimed size %d, compiler Sizeof = %d", e.Name, e.Size, l.Size)
		}
		if e.Align != l.Align {
			add("field-align-mismatch", "%s claimed align %d, compiler Alignof = %d", e.Name, e.Align, l.Align)
		}
		if e.Start != l.Off {
			add("field-start-mismatch", "%s claimed start %d, compiler Offsetof in the reordered struct = %d", e.Name, e.Start, l.Off)
		}
	}
	if reTruth.Size > orig.Size {
		add("grows-struct", "compiler Sizeof(reordered) = %d > Sizeof(original) = %d", reTruth.Size, orig.Size)
	}
	return syms
}

// ---------------------------------------------------------------------------

type ctx struct {
	r       *vf.Run
	mod     string // scratch module root
	layout  string
	optim   string
	sem     chan struct{}
	timeout sync.Once
}

func (c *ctx) run(dir string, stdin []byte, bin string, args ...string) (stdout, stderr []byte, err error) {
	c.sem <- struct{}{}
	defer func() { <-c.sem }()
	cmd := exec.Command("timeout", append([]string{"-s", "QUIT", "300", bin}, args...)...)
	cmd.Dir = dir
	cmd.Env = vf.GoEnv()
	if bin == c.layout || bin == c.optim {
		cmd.Env = append(cmd.Env, "GOMAXPROCS=2") // also inherited by the `go list` child: less thread churn per call
	}
	if stdin != nil {
		cmd.Stdin = bytes.NewReader(stdin)
	}
	var so, se bytes.Buffer
	cmd.Stdout, cmd.Stderr = &so, &se
	err = cmd.Run()
	if ee, ok := err.(*exec.ExitError); ok && ee.ExitCode() == 124 {
		c.timeout.Do(func() { c.r.Inconclusive("watchdog: %s %v exceeded 300 s", filepath.Base(bin), args) })
	}
	return so.Bytes(), se.Bytes(), err
}

func parseEntries(b []byte) ([]Entry, error) {
	b = bytes.TrimSpace(b)
	if len(b) == 0 {
		return nil, nil
	}
	var es []Entry
	dec := json.NewDecoder(bytes.NewReader(b))
	dec.DisallowUnknownFields()
	if err := dec.Decode(&es); err != nil {
		return nil, err
	}
	return es, nil
}

// typeChecks reports whether the declaration source is valid Go.
func typeChecks(src string) error {
	fset := token.NewFileSet()
	f, err := parser.ParseFile(fset, "t.go", "package p\n"+src, 0)
	if err != nil {
		return err
	}
	conf := types.Config{}
	_, err = conf.Check("p", fset, []*ast.File{f}, nil)
	return err
}

// one evaluated type
type item struct {
	Idx   int
	Name  string
	T     *Typ
	Decl  string
	Model *Truth
	Truth *Truth // from the compiled program (or the model, inside the shrinker)

	Raw      []byte
	Entries  []Entry
	ToolErr  string
	S1       []symptom
	Opt      [2]optRes // 0: default, 1: -r
	canonStr string
}

type optRes struct {
	Ran     bool
	Out     []Entry
	Err     string
	Re      *Typ
	ReName  string
	ReTruth *Truth
	Syms    []symptom
}

var modeName = [2]string{"optimize", "optimize-r"}

func (c *ctx) toolStage(it *item, pkg string) {
	so, se, err := c.run(c.mod, nil, c.layout, "-json", pkg, it.Name)
	it.Raw = so
	if err != nil {
		it.ToolErr = fmt.Sprintf("%v: %s", err, strings.TrimSpace(string(se)))
		it.S1 = []symptom{{"tool-error", it.ToolErr}}
		return
	}
	es, perr := parseEntries(so)
	if perr != nil {
		it.ToolErr = "bad JSON: " + perr.Error()
		it.S1 = []symptom{{"tool-error", it.ToolErr}}
		return
	}
	it.Entries = es
	it.S1 = stage1(es, it.Truth)
	if len(it.S1) != 0 || len(es) == 0 {
		return
	}
	for m := 0; m < 2; m++ {
		o := &it.Opt[m]
		o.Ran = true
		args := []string{"-json"}
		units := it.Truth.Top
		if m == 1 {
			args = append(args, "-r")
			units = it.Truth.Leaves
		}
		so, se, err := c.run(c.mod, it.Raw, c.optim, args...)
		if err != nil {
			o.Err = fmt.Sprintf("%v: %s", err, strings.TrimSpace(string(se)))
			o.Syms = []symptom{{"error", o.Err}}
			continue
		}
		out, perr := parseEntries(so)
		if perr != nil {
			o.Err = "bad JSON: " + perr.Error()
			o.Syms = []symptom{{"error", o.Err}}
			continue
		}
		o.Out = out
		o.Re, o.Syms = planReorder(out, units)
	}
}

// attachTypes copies the generator back-pointers from the model truth into
// the compiler truth (they were compared equal before).
func attachTypes(dst, model *Truth) {
	for i := range dst.Leaves {
		dst.Leaves[i].T = model.Leaves[i].T
	}
	for i := range dst.Top {
		dst.Top[i].T = model.Top[i].T
	}
}

// ---------------------------------------------------------------------------
// Oracle program

const walker = `
var w = bufio.NewWriter(os.Stdout)

type leaf struct {
	path             string
	off, size, align uintptr
	padok            bool
}

func walk(t reflect.Type, prefix string, base uintptr, out *[]leaf) {
	for i := 0; i < t.NumField(); i++ {
		f := t.Field(i)
		if f.Type.Kind() == reflect.Struct && f.Type.NumField() != 0 {
			walk(f.Type, prefix+"."+f.Name, base+f.Offset, out)
		} else {
			*out = append(*out, leaf{prefix + "." + f.Name, base + f.Offset, f.Type.Size(), uintptr(f.Type.FieldAlign()), false})
		}
	}
	if n := t.NumField(); n > 0 && t.Size() > 0 && t.Field(n-1).Type.Size() == 0 {
		(*out)[len(*out)-1].padok = true
	}
}

func dump(name string, t reflect.Type) {
	fmt.Fprintf(w, "T %s %d %d\n", name, t.Size(), t.Align())
	var ls []leaf
	walk(t, name, 0, &ls)
	for _, l := range ls {
		fmt.Fprintf(w, "F %s %s %d %d %d %v\n", name, l.path, l.off, l.size, l.align, l.padok)
	}
	n := t.NumField()
	for i := 0; i < n; i++ {
		f := t.Field(i)
		fmt.Fprintf(w, "Q %s %s %d %d %d %v\n", name, name+"."+f.Name, f.Offset, f.Type.Size(), f.Type.FieldAlign(), i == n-1 && t.Size() > 0 && f.Type.Size() == 0)
	}
}
`

type oracleType struct {
	Name  string
	Model *Truth
}

func oracleMain(ts []oracleType) string {
	var sb strings.Builder
	sb.WriteString("package main\n\nimport (\n\t\"bufio\"\n\t\"fmt\"\n\t\"os\"\n\t\"reflect\"\n\t\"unsafe\"\n)\n")
	sb.WriteString(walker)
	sb.WriteString("\nvar _ = unsafe.Sizeof(0)\n\nfunc main() {\n\tdefer w.Flush()\n")
	for _, t := range ts {
		fmt.Fprintf(&sb, "\tdump(%q, reflect.TypeOf((*%s)(nil)).Elem())\n", t.Name, t.Name)
	}
	for _, t := range ts {
		fmt.Fprintf(&sb, "\t{\n\t\tvar v %s\n\t\t_ = v\n\t\tfmt.Fprintf(w, \"S %s %%d %%d\\n\", unsafe.Sizeof(v), unsafe.Alignof(v))\n", t.Name, t.Name)
		for _, l := range t.Model.Leaves {
			parts := strings.Split(l.Path, ".")[1:]
			blank := false
			for _, p := range parts {
				if p == "_" {
					blank = true
				}
			}
			if blank {
				continue
			}
			var offs []string
			for i := range parts {
				offs = append(offs, "unsafe.Offsetof(v."+strings.Join(parts[:i+1], ".")+")")
			}
			sel := "v." + strings.Join(parts, ".")
			fmt.Fprintf(&sb, "\t\tfmt.Fprintf(w, \"U %s %s %%d %%d %%d\\n\", %s, unsafe.Sizeof(%s), unsafe.Alignof(%s))\n",
				t.Name, l.Path, strings.Join(offs, "+"), sel, sel)
		}
		sb.WriteString("\t}\n")
	}
	sb.WriteString("}\n")
	return sb.String()
}

// buildAndMeasure writes types+main into dir (package main), builds and runs
// it and returns the compiler's truth per type name.
func (c *ctx) buildAndMeasure(rel string, decls string, ts []oracleType) (map[string]*Truth, error) {
	dir := filepath.Join(c.mod, rel)
	if err := os.MkdirAll(dir, 0o755); err != nil {
		return nil, err
	}
	if err := os.WriteFile(filepath.Join(dir, "types.go"), []byte("package main\n\n"+decls), 0o644); err != nil {
		return nil, err
	}
	if err := os.WriteFile(filepath.Join(dir, "main.go"), []byte(oracleMain(ts)), 0o644); err != nil {
		return nil, err
	}
	bin := filepath.Join(dir, "oracle.bin")
	if _, se, err := c.run(c.mod, nil, "go", "build", "-o", bin, "./"+rel); err != nil {
		return nil, fmt.Errorf("go build ./%s: %v\n%s", rel, err, firstLines(string(se), 12))
	}
	so, se, err := c.run(dir, nil, bin)
	os.Remove(bin)
	if err != nil {
		return nil, fmt.Errorf("oracle program ./%s: %v\n%s", rel, err, firstLines(string(se), 12))
	}
	return parseOracle(so)
}

func debugf(format string, a ...any) {
	if os.Getenv("VERIF_DEBUG") != "" {
		fmt.Fprintf(os.Stderr, "[c19 %s] "+format+"\n", append([]any{time.Now().Format("15:04:05")}, a...)...)
	}
}

func firstLines(s string, n int) string {
	ls := strings.Split(s, "\n")
	if len(ls) > n {
		ls = ls[:n]
	}
	return strings.Join(ls, "\n")
}

func parseOracle(b []byte) (map[string]*Truth, error) {
	res := map[string]*Truth{}
	unsafeSeen := map[string][3]int64{}
	leafIdx := map[string]Leaf{}
	num := func(s string) int64 { v, _ := strconv.ParseInt(s, 10, 64); return v }
	for _, line := range strings.Split(string(b), "\n") {
		f := strings.Fields(line)
		if len(f) == 0 {
			continue
		}
		switch f[0] {
		case "T":
			res[f[1]] = &Truth{Size: num(f[2]), Align: num(f[3])}
		case "F", "Q":
			l := Leaf{Path: f[2], Off: num(f[3]), Size: num(f[4]), Align: num(f[5]), PadOK: f[6] == "true"}
			if f[0] == "F" {
				res[f[1]].Leaves = append(res[f[1]].Leaves, l)
				leafIdx[f[1]+" "+f[2]] = l
			} else {
				res[f[1]].Top = append(res[f[1]].Top, l)
			}
		case "S":
			t := res[f[1]]
			if t == nil || t.Size != num(f[2]) || t.Align != num(f[3]) {
				return nil, fmt.Errorf("oracle self-check: unsafe.Sizeof/Alignof(%s) = %s/%s disagrees with reflect", f[1], f[2], f[3])
			}
		case "U":
			unsafeSeen[f[1]+" "+f[2]] = [3]int64{num(f[3]), num(f[4]), num(f[5])}
		}
	}
	for k, u := range unsafeSeen {
		l, ok := leafIdx[k]
		if !ok || l.Off != u[0] || l.Size != u[1] || l.Align != u[2] {
			return nil, fmt.Errorf("oracle self-check: unsafe.Offsetof/Sizeof/Alignof of %s = %v disagrees with reflect %+v", k, u, l)
		}
	}
	return res, nil
}

// ---------------------------------------------------------------------------

type rawViol struct {
	it     *item
	mode   int    // -1: structlayout, 0/1: optimize default / -r
	kind   string // symptom kind
	syms   []symptom
	key    string
	min    *item // shrunk input, if any
	minOK  bool  // shrunk input confirmed with the compiler
	shrunk bool
}

func (v *rawViol) symKey() string {
	if v.mode < 0 {
		return v.kind
	}
	return modeName[v.mode] + "-" + v.kind
}

func canon(t *Typ) string {
	switch t.K {
	case kNamed:
		if t.Alias {
			return "alias(" + canon(t.Elem) + ")"
		}
		return "named(" + canon(t.Elem) + ")"
	case kArray:
		return fmt.Sprintf("[%d]%s", t.Len, canon(t.Elem))
	case kStruct:
		var sb strings.Builder
		sb.WriteString("struct{")
		for _, f := range t.Fields {
			switch {
			case f.Embedded && f.Ptr != nil:
				sb.WriteString("E*" + canon(f.Ptr) + ";")
			case f.Embedded:
				sb.WriteString("E " + canon(f.T) + ";")
			case f.Name == "_":
				sb.WriteString("_ " + canon(f.T) + ";")
			default:
				sb.WriteString("f " + canon(f.T) + ";")
			}
		}
		sb.WriteString("}")
		return sb.String()
	}
	return t.src()
}

// workers is the number of concurrent child processes (VERIF_WORKERS, default
// one per CPU). It does not influence any verdict.
func workers() int {
	if v, err := strconv.Atoi(os.Getenv("VERIF_WORKERS")); err == nil && v > 0 {
		return v
	}
	return runtime.NumCPU()
}

func Run(r *vf.Run) {
	c := &ctx{r: r, sem: make(chan struct{}, workers())}
	c.layout = r.BuildBin("structlayout", "honnef.co/go/tools/cmd/structlayout", false)
	c.optim = r.BuildBin("structlayout-optimize", "honnef.co/go/tools/cmd/structlayout-optimize", false)
	c.mod = filepath.Join(r.Scratch(), "mod")
	os.MkdirAll(c.mod, 0o755)
	os.WriteFile(filepath.Join(c.mod, "go.mod"), []byte("module scratch\n\ngo 1.22\n"), 0o644)
	r.Assume("target architecture is the host, linux/amd64 (386/arm binaries cannot be executed in this VM)")
	r.Assume("the compiler's layout is observed through reflect (Offset/Size/FieldAlign) of the compiled program, cross-checked in the same program against unsafe.Offsetof/Sizeof/Alignof for every field reachable without a blank selector")

	total := r.Pick(120, 3000)
	if v, err := strconv.Atoi(os.Getenv("VERIF_N")); err == nil && v > 0 {
		total = v // development aid; recorded in evidence as types_generated
	}
	batch := 400
	var items []*item
	discarded := 0
	evaluations := 0
	distinct := map[string]bool{}
	distinctNT := map[string]bool{}
	var viols []*rawViol

	for start := 0; start < total; start += batch {
		end := min(start+batch, total)
		var its []*item
		var decls strings.Builder
		var ots []oracleType
		for idx := start; idx < end; idx++ {
			name := fmt.Sprintf("T%d", idx)
			t := genTop(r.Rand("structgen", idx), name)
			it := &item{Idx: idx, Name: name, T: t, Decl: declSource(name, t)}
			if err := typeChecks(it.Decl); err != nil {
				discarded++
				r.Sample(map[string]any{"discarded": it.Decl, "error": err.Error()}, 8)
				continue
			}
			it.Model = modelTruth(name, t)
			its = append(its, it)
			decls.WriteString(it.Decl + "\n")
			ots = append(ots, oracleType{name, it.Model})
		}
		rel := fmt.Sprintf("b%d", start/batch)
		debugf("batch %s: %d types generated", rel, len(its))
		// The package the tools load has no imports (cheap `go list`); the
		// oracle program lives in a sibling directory with the same types.go.
		os.MkdirAll(filepath.Join(c.mod, rel), 0o755)
		os.WriteFile(filepath.Join(c.mod, rel, "types.go"), []byte("package main\n\n"+decls.String()+"\nfunc main() {}\n"), 0o644)
		truth, err := c.buildAndMeasure(rel+"x", decls.String(), ots)
		if os.Getenv("VERIF_KEEP") == "" {
			os.RemoveAll(filepath.Join(c.mod, rel+"x"))
		}
		debugf("batch %s: oracle done", rel)
		if err != nil {
			r.Inconclusive("oracle for batch %s could not be produced: %v", rel, err)
			discarded += len(its)
			continue
		}
		for _, it := range its {
			it.Truth = truth[it.Name]
			if it.Truth == nil || !sameTruth(it.Truth, it.Model) {
				r.Inconclusive("reference model disagrees with the compiler for %s (harness bug): %s", it.Name, it.Decl)
				r.Sample(map[string]any{"model_vs_compiler": it.Decl, "model": it.Model, "compiler": it.Truth}, 8)
				if it.Truth == nil || len(it.Truth.Leaves) != len(it.Model.Leaves) || len(it.Truth.Top) != len(it.Model.Top) {
					it.Truth = nil
					continue
				}
			}
			attachTypes(it.Truth, it.Model)
		}
		// tool runs, in parallel
		var wg sync.WaitGroup
		for _, it := range its {
			if it.Truth == nil {
				continue
			}
			wg.Add(1)
			go func(it *item) {
				defer wg.Done()
				c.toolStage(it, "./"+rel)
			}(it)
		}
		wg.Wait()
		debugf("batch %s: tools done", rel)
		// reordered structs: measure with the compiler
		var odecls strings.Builder
		var oots []oracleType
		odecls.WriteString(decls.String())
		for _, it := range its {
			if it.Truth == nil {
				continue
			}
			for m := 0; m < 2; m++ {
				o := &it.Opt[m]
				if o.Re == nil {
					continue
				}
				o.ReName = fmt.Sprintf("R%d_%d", it.Idx, m)
				odecls.WriteString(fmt.Sprintf("type %s %s\n", o.ReName, o.Re.src()))
				oots = append(oots, oracleType{o.ReName, modelTruth(o.ReName, o.Re)})
			}
		}
		if len(oots) > 0 {
			otruth, err := c.buildAndMeasure(rel+"o", odecls.String(), oots)
			if err != nil {
				r.Inconclusive("oracle for the reordered structs of batch %s could not be produced: %v", rel, err)
				otruth = nil
			}
			for _, it := range its {
				for m := 0; m < 2; m++ {
					o := &it.Opt[m]
					if o.Re == nil || otruth == nil || otruth[o.ReName] == nil {
						continue
					}
					o.ReTruth = otruth[o.ReName]
					if !sameTruth(o.ReTruth, modelTruth(o.ReName, o.Re)) {
						r.Inconclusive("reference model disagrees with the compiler for reordered %s (harness bug)", o.ReName)
					}
					o.Syms = append(o.Syms, stage2(o.Out, o.ReTruth, it.Truth)...)
				}
			}
		}
		if os.Getenv("VERIF_KEEP") == "" {
			os.RemoveAll(filepath.Join(c.mod, rel+"o"))
			os.RemoveAll(filepath.Join(c.mod, rel))
		}
		// collect
		for _, it := range its {
			if it.Truth == nil {
				continue
			}
			items = append(items, it)
			evaluations++
			it.canonStr = canon(it.T)
			distinct[it.canonStr] = true
			nt := nontrivial(it.T, it.Truth)
			if nt {
				distinctNT[it.canonStr] = true
				r.Add("types_nontrivial", 1)
			}
			for f := range features(it.T) {
				r.Add("feature:"+f, 1)
			}
			if len(it.S1) > 0 {
				viols = append(viols, &rawViol{it: it, mode: -1, kind: primary(it.S1, stage1Priority), syms: it.S1})
				r.Add("optimize_skipped_because_structlayout_output_was_wrong", 1)
				continue
			}
			for m := 0; m < 2; m++ {
				o := &it.Opt[m]
				if !o.Ran {
					continue
				}
				evaluations++
				r.Add("optimize_runs", 1)
				if o.ReTruth != nil {
					r.Add("reordered_structs_measured", 1)
					if o.ReTruth.Size < it.Truth.Size {
						r.Add("optimize_shrunk_the_struct", 1)
					}
				}
				if p := primary(o.Syms, stage2Priority); p != "" {
					viols = append(viols, &rawViol{it: it, mode: m, kind: p, syms: o.Syms})
				}
				if has(o.Syms, "grows-struct") {
					viols = append(viols, &rawViol{it: it, mode: m, kind: "grows-struct", syms: o.Syms})
				}
			}
		}
	}

	debugf("main loop done: %d items, %d raw violations", len(items), len(viols))
	c.classify(viols)
	debugf("classified")
	c.report(viols)

	r.Set("types_generated", total)
	r.Set("types_discarded_by_go_types", discarded)
	r.Set("types_distinct", len(distinct))
	if total > 0 && discarded*20 > total {
		r.Inconclusive("%d of %d generated types were rejected by the toolchain (>5%%)", discarded, total)
	}
	if len(items) > 0 {
		it := items[0]
		r.Sample(map[string]any{"type": it.Decl, "compiler": it.Truth, "structlayout": it.Entries}, 8)
	}
	r.Finish(evaluations, len(distinctNT), total*2/5,
		"distinct (by structure) generated struct types that contain padding, a zero-size field or a nested struct, each measured by a compiled program and laid out by the real structlayout CLI")
}

// ---------------------------------------------------------------------------
// Classification: shrink a representative of every unexplained symptom class,
// name the class by the structural feature of the minimal input, and
// attribute the other violations with the same symptom to it when they
// contain that feature.

type class struct {
	sym     string
	feature string
	rep     *rawViol
}

func (c *ctx) classify(viols []*rawViol) {
	sort.SliceStable(viols, func(i, j int) bool {
		a, b := viols[i], viols[j]
		if ca, cb := complexity(a.it.T), complexity(b.it.T); ca != cb {
			return ca < cb
		}
		if a.it.Idx != b.it.Idx {
			return a.it.Idx < b.it.Idx
		}
		return a.symKey() < b.symKey()
	})
	var classes []*class
	// Classes already listed as known findings need no new representative:
	// violations that contain the listed feature are attributed to them.
	if b, err := os.ReadFile(filepath.Join(vf.Root, "known_findings.json")); err == nil {
		var kf struct {
			Findings []vf.Finding `json:"findings"`
		}
		if json.Unmarshal(b, &kf) == nil {
			for _, f := range kf.Findings {
				if i := strings.LastIndex(f.Key, ":"); f.Property == "C19" && f.Status == "known" && i > 0 {
					classes = append(classes, &class{sym: f.Key[:i], feature: f.Key[i+1:]})
				}
			}
		}
	}
	explain := func(v *rawViol) bool {
		fs := features(v.it.T)
		for _, cl := range classes {
			if cl.sym == v.symKey() && (fs[cl.feature] || cl.feature == "plain") {
				v.key = cl.sym + ":" + cl.feature
				return true
			}
		}
		return false
	}
	for wave := 0; wave < 3; wave++ {
		// smallest unexplained violation of every symptom
		pick := map[string]*rawViol{}
		var order []string
		for _, v := range viols {
			if v.key != "" || explain(v) {
				continue
			}
			if _, ok := pick[v.symKey()]; !ok {
				pick[v.symKey()] = v
				order = append(order, v.symKey())
			}
		}
		if len(order) == 0 {
			return
		}
		var wg sync.WaitGroup
		for wi, k := range order {
			wg.Add(1)
			go func(v *rawViol, id int) {
				defer wg.Done()
				c.shrink(v, id)
			}(pick[k], wave*100+wi)
		}
		wg.Wait()
		for _, k := range order {
			v := pick[k]
			t := v.it.T
			if v.min != nil {
				t = v.min.T
			}
			cl := &class{sym: k, feature: primaryFeature(t), rep: v}
			// the same class may already exist when the minimal input lost the
			// feature that explained the others; do not loop forever
			v.key = cl.sym + ":" + cl.feature
			classes = append(classes, cl)
			c.r.Add("shrunk_representatives", 1)
		}
	}
	for _, v := range viols {
		if v.key == "" && !explain(v) {
			v.key = v.symKey() + ":unshrunk:" + primaryFeature(v.it.T)
		}
	}
}

func describe(it *item) map[string]any {
	m := map[string]any{
		"type":         it.Decl,
		"features":     featureList(it.T),
		"compiler":     it.Truth,
		"structlayout": it.Entries,
		"symptoms":     it.S1,
	}
	if it.ToolErr != "" {
		m["structlayout_error"] = it.ToolErr
	}
	for mo := 0; mo < 2; mo++ {
		o := it.Opt[mo]
		if !o.Ran {
			continue
		}
		om := map[string]any{"output": o.Out, "symptoms": o.Syms}
		if o.Re != nil {
			om["reordered_struct"] = o.Re.src()
		}
		if o.ReTruth != nil {
			om["compiler_for_reordered"] = o.ReTruth
		}
		if o.Err != "" {
			om["error"] = o.Err
		}
		m[modeName[mo]] = om
	}
	return m
}

func (c *ctx) report(viols []*rawViol) {
	// representatives (shrunk) first, then by key/complexity/index
	sort.SliceStable(viols, func(i, j int) bool {
		a, b := viols[i], viols[j]
		if a.key != b.key {
			return a.key < b.key
		}
		if a.shrunk != b.shrunk {
			return a.shrunk
		}
		return false
	})
	for _, v := range viols {
		var ds []string
		for _, s := range v.syms {
			ds = append(ds, s.Kind+": "+s.Detail)
		}
		tool := "structlayout -json"
		if v.mode == 0 {
			tool = "structlayout -json | structlayout-optimize -json"
		} else if v.mode == 1 {
			tool = "structlayout -json | structlayout-optimize -json -r"
		}
		what := fmt.Sprintf("%s on %s: %s", tool, strings.TrimSpace(strings.ReplaceAll(v.it.Decl, "\n", "; ")), strings.Join(ds, " | "))
		rep := map[string]any{"input": describe(v.it), "command": tool}
		if v.min != nil {
			mm := describe(v.min)
			mm["confirmed_with_compiler"] = v.minOK
			rep["minimal_input"] = mm
			what = fmt.Sprintf("%s; minimal input: %s", what, strings.TrimSpace(strings.ReplaceAll(v.min.Decl, "\n", "; ")))
		}
		if len(what) > 900 {
			what = what[:900] + "…"
		}
		c.r.Violation(v.key, what, rep)
	}
}

// ---------------------------------------------------------------------------
// Shrinker

// evalModel runs the real tools on one type and judges them against the model.
func (c *ctx) evalModel(rel string, name string, t *Typ) *item {
	it := &item{Name: name, T: t, Decl: declSource(name, t)}
	it.Model = modelTruth(name, t)
	it.Truth = it.Model
	c.toolStage(it, "./"+rel)
	for m := 0; m < 2; m++ {
		o := &it.Opt[m]
		if o.Re != nil {
			o.ReTruth = modelTruth("R", o.Re)
			o.Syms = append(o.Syms, stage2(o.Out, o.ReTruth, it.Truth)...)
		}
	}
	return it
}

func (v *rawViol) shows(it *item) bool {
	if v.mode < 0 {
		return has(it.S1, v.kind)
	}
	return has(it.Opt[v.mode].Syms, v.kind)
}

func (c *ctx) shrink(v *rawViol, id int) {
	v.shrunk = true
	cur := v.it.T
	var curItem *item
	base := fmt.Sprintf("shr%d", id)
	defer func() {
		if os.Getenv("VERIF_KEEP") == "" {
			os.RemoveAll(filepath.Join(c.mod, base))
		}
	}()
	budget := 160 // candidate evaluations per representative
	for round := 0; round < 40 && budget > 0; round++ {
		var ok []*Typ
		for _, cd := range reductions(cur) {
			if typeChecks(declSource("S", cd)) == nil {
				ok = append(ok, cd)
			}
		}
		next := -1
		var nextItem *item
		// candidates are tried in chunks, most aggressive reductions first
		for lo := 0; lo < len(ok) && next < 0 && budget > 0; lo += 8 {
			hi := min(lo+8, len(ok))
			res := make([]*item, hi-lo)
			var wg sync.WaitGroup
			for j := lo; j < hi; j++ {
				rel := fmt.Sprintf("%s/r%d/c%d", base, round, j)
				dir := filepath.Join(c.mod, rel)
				os.MkdirAll(dir, 0o755)
				os.WriteFile(filepath.Join(dir, "types.go"), []byte("package main\n\n"+declSource("S", ok[j])+"\nfunc main() {}\n"), 0o644)
				wg.Add(1)
				go func(j int, rel string) {
					defer wg.Done()
					res[j-lo] = c.evalModel(rel, "S", ok[j])
				}(j, rel)
			}
			wg.Wait()
			budget -= hi - lo
			c.r.Add("shrink_candidates_evaluated", hi-lo)
			for j := lo; j < hi; j++ {
				if v.shows(res[j-lo]) {
					next, nextItem = j, res[j-lo]
					break
				}
			}
		}
		if next < 0 {
			break
		}
		cur, curItem = ok[next], nextItem
		debugf("shrink %d (%s) round %d -> %s", id, v.symKey(), round, strings.ReplaceAll(curItem.Decl, "\n", "; "))
	}
	if curItem == nil {
		return
	}
	// confirm the minimal input against the compiler
	rel := base + "/final"
	ots := []oracleType{{"S", curItem.Model}}
	decl := curItem.Decl
	for m := 0; m < 2; m++ {
		if o := &curItem.Opt[m]; o.Re != nil {
			o.ReName = fmt.Sprintf("R%d", m)
			decl += fmt.Sprintf("type %s %s\n", o.ReName, o.Re.src())
			ots = append(ots, oracleType{o.ReName, modelTruth(o.ReName, o.Re)})
		}
	}
	truth, err := c.buildAndMeasure(rel, decl, ots)
	v.min = curItem
	if err != nil || truth["S"] == nil {
		return
	}
	okAll := sameTruth(truth["S"], curItem.Model)
	for m := 0; m < 2; m++ {
		if o := &curItem.Opt[m]; o.Re != nil {
			if truth[o.ReName] == nil || !sameTruth(truth[o.ReName], modelTruth(o.ReName, o.Re)) {
				okAll = false
			}
		}
	}
	v.minOK = okAll
	if !okAll {
		v.min = nil // do not trust a minimal input the compiler did not confirm
	}
}
