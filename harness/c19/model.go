package c19

// A small model of gc's layout rules on amd64. It is NOT the oracle of the
// check: every generated type is measured by a compiled program, and this
// model is itself compared with that measurement on every type (a
// disagreement makes the run inconclusive). It exists so that the shrinker
// can evaluate hundreds of reduced candidates without a compile+run each, and
// to classify failing inputs by structural feature.

import "strings"

var basicSize = map[string]int64{"bool": 1, "int8": 1, "uint8": 1, "byte": 1, "int16": 2, "uint16": 2, "int32": 4, "uint32": 4, "rune": 4, "float32": 4,
	"int64": 8, "uint64": 8, "int": 8, "uint": 8, "uintptr": 8, "float64": 8, "complex64": 8, "complex128": 16, "string": 16}

func roundUp(x, a int64) int64 { return (x + a - 1) / a * a }

func sizeAlign(t *Typ) (size, align int64) {
	t = t.under()
	switch t.K {
	case kBasic:
		s := basicSize[t.Basic]
		a := s
		switch t.Basic {
		case "complex64":
			a = 4
		case "complex128", "string":
			a = 8
		}
		return s, a
	case kWord:
		return 8, 8
	case kSlice:
		return 24, 8
	case kIface:
		return 16, 8
	case kArray:
		s, a := sizeAlign(t.Elem)
		return s * int64(t.Len), a
	case kStruct:
		_, s, a := structLayout(t)
		return s, a
	}
	panic("bad kind")
}

func structLayout(t *Typ) (offs []int64, size, align int64) {
	align = 1
	var o, last int64
	for _, f := range t.Fields {
		s, a := sizeAlign(f.T)
		if a > align {
			align = a
		}
		o = roundUp(o, a)
		offs = append(offs, o)
		o += s
		last = s
	}
	if o > 0 && len(t.Fields) > 0 && last == 0 {
		o++
	}
	return offs, roundUp(o, align), align
}

// Leaf is one flattened field, flattened the way structlayout flattens:
// fields whose underlying type is a struct with at least one field are
// descended into.
type Leaf struct {
	Path  string `json:"path"`
	Off   int64  `json:"off"`
	Size  int64  `json:"size"`
	Align int64  `json:"align"`
	PadOK bool   `json:"pad_byte_follows"` // zero-size last leaf of a non-zero-size struct: the compiler adds a pad byte here
	T     *Typ   `json:"-"`
}

// Truth is what the compiler (or the model) says about one struct type.
type Truth struct {
	Size   int64  `json:"size"`
	Align  int64  `json:"align"`
	Leaves []Leaf `json:"leaves"`
	Top    []Leaf `json:"top"` // top-level fields, not flattened
}

func walkModel(t *Typ, prefix string, base int64, out *[]Leaf) {
	t = t.under()
	offs, size, _ := structLayout(t)
	for i, f := range t.Fields {
		u := f.T.under()
		if u.K == kStruct && len(u.Fields) != 0 {
			walkModel(f.T, prefix+"."+f.Name, base+offs[i], out)
		} else {
			s, a := sizeAlign(f.T)
			*out = append(*out, Leaf{Path: prefix + "." + f.Name, Off: base + offs[i], Size: s, Align: a, T: f.T})
		}
	}
	if n := len(t.Fields); n > 0 && size > 0 {
		if s, _ := sizeAlign(t.Fields[n-1].T); s == 0 {
			(*out)[len(*out)-1].PadOK = true
		}
	}
}

func modelTruth(name string, t *Typ) *Truth {
	tr := &Truth{}
	offs, size, align := structLayout(t)
	tr.Size, tr.Align = size, align
	walkModel(t, name, 0, &tr.Leaves)
	for i, f := range t.Fields {
		s, a := sizeAlign(f.T)
		tr.Top = append(tr.Top, Leaf{Path: name + "." + f.Name, Off: offs[i], Size: s, Align: a, T: f.T})
	}
	if n := len(tr.Top); n > 0 && size > 0 && tr.Top[n-1].Size == 0 {
		tr.Top[n-1].PadOK = true
	}
	return tr
}

// sameTruth compares two Truths ignoring the generator back-pointers.
func sameTruth(a, b *Truth) bool {
	if a.Size != b.Size || a.Align != b.Align || len(a.Leaves) != len(b.Leaves) || len(a.Top) != len(b.Top) {
		return false
	}
	eq := func(x, y Leaf) bool {
		return x.Path == y.Path && x.Off == y.Off && x.Size == y.Size && x.Align == y.Align && x.PadOK == y.PadOK
	}
	for i := range a.Leaves {
		if !eq(a.Leaves[i], b.Leaves[i]) {
			return false
		}
	}
	for i := range a.Top {
		if !eq(a.Top[i], b.Top[i]) {
			return false
		}
	}
	return true
}

// ---------------------------------------------------------------------------
// Structural features, in key-priority order.

var featureOrder = []string{
	"adjacent-blank-fields",
	"zero-size-struct-with-zero-size-field",
	"nested-struct-tail-padding-at-nonzero-offset",
	"nested-struct-tail-padding",
	"trailing-zero-size-field",
	"nested-struct-before-wider-aligned-field",
	"zero-size-field",
	"array-of-structs",
	"embedded-field",
	"blank-field",
	"nested-struct",
	"field-before-wider-aligned-field",
	"complex64",
	"complex128",
}

func features(t *Typ) map[string]bool {
	fs := map[string]bool{}
	var visitStruct func(s *Typ, base int64, isField bool)
	var visitType func(t *Typ, base int64, isField bool)
	visitType = func(t *Typ, base int64, isField bool) {
		u := t.under()
		switch u.K {
		case kStruct:
			visitStruct(u, base, isField)
		case kArray:
			if e := u.Elem.under(); e.K == kStruct && len(e.Fields) > 0 {
				fs["array-of-structs"] = true
			}
			// elements are not flattened by the tool; look inside for zero-size structs only
			visitType(u.Elem, -1, false)
		case kBasic:
			if u.Basic == "complex128" {
				fs["complex128"] = true
			}
			if u.Basic == "complex64" {
				fs["complex64"] = true
			}
		}
	}
	visitStruct = func(s *Typ, base int64, isField bool) {
		offs, size, _ := structLayout(s)
		n := len(s.Fields)
		if n > 0 && size == 0 {
			fs["zero-size-struct-with-zero-size-field"] = true
		}
		if n > 0 && isField {
			fs["nested-struct"] = true
			ls, _ := sizeAlign(s.Fields[n-1].T)
			if size > offs[n-1]+ls {
				if base > 0 {
					fs["nested-struct-tail-padding-at-nonzero-offset"] = true
				} else if base == 0 {
					fs["nested-struct-tail-padding"] = true
				}
			}
		}
		if n > 0 && size > 0 {
			if ls, _ := sizeAlign(s.Fields[n-1].T); ls == 0 {
				fs["trailing-zero-size-field"] = true
			}
		}
		for i, f := range s.Fields {
			if f.Name == "_" {
				fs["blank-field"] = true
				if i > 0 && s.Fields[i-1].Name == "_" {
					fs["adjacent-blank-fields"] = true
				}
			}
			if f.Embedded {
				fs["embedded-field"] = true
			}
			sz, _ := sizeAlign(f.T)
			if sz == 0 && !(i == n-1 && size > 0) {
				fs["zero-size-field"] = true
			}
			if u := f.T.under(); u.K == kStruct && len(u.Fields) > 1 && i+1 < n {
				_, a := sizeAlign(f.T)
				for _, g := range s.Fields[i+1:] {
					if _, b := sizeAlign(g.T); b > a {
						fs["nested-struct-before-wider-aligned-field"] = true
					}
				}
			}
			if i+1 < n && !isField && base == 0 && s == t.under() {
				_, a := sizeAlign(f.T)
				if _, b := sizeAlign(s.Fields[i+1].T); b > a {
					fs["field-before-wider-aligned-field"] = true
				}
			}
			fb := int64(-1)
			if base >= 0 {
				fb = base + offs[i]
			}
			visitType(f.T, fb, true)
		}
	}
	visitStruct(t, 0, false)
	return fs
}

func primaryFeature(t *Typ) string {
	fs := features(t)
	for _, f := range featureOrder {
		if fs[f] {
			return f
		}
	}
	return "plain"
}

func featureList(t *Typ) string {
	fs := features(t)
	var out []string
	for _, f := range featureOrder {
		if fs[f] {
			out = append(out, f)
		}
	}
	if len(out) == 0 {
		return "plain"
	}
	return strings.Join(out, "+")
}

// nontrivial: contains padding, a zero-size field, or a nested struct.
func nontrivial(t *Typ, tr *Truth) bool {
	var sum int64
	for _, l := range tr.Leaves {
		if l.Size == 0 {
			return true
		}
		sum += l.Size
	}
	if sum != tr.Size {
		return true
	}
	for _, f := range t.Fields {
		if u := f.T.under(); u.K == kStruct {
			return true
		}
	}
	return false
}
