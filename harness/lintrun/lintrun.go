// Package lintrun runs a staticcheck-like binary as a child process and parses its output.
package lintrun

import (
	"bytes"
	"encoding/json"
	"fmt"
	"os"
	"os/exec"
	"sort"
	"strings"
	"syscall"
	"time"

	"verif/vf"
)

type Problem struct {
	Code     string `json:"code"`
	Severity string `json:"severity"`
	Location struct {
		File   string `json:"file"`
		Line   int    `json:"line"`
		Column int    `json:"column"`
	} `json:"location"`
	End struct {
		File   string `json:"file"`
		Line   int    `json:"line"`
		Column int    `json:"column"`
	} `json:"end"`
	Message string `json:"message"`
}

func (p Problem) Key() string {
	return fmt.Sprintf("%s:%d:%d: %s (%s) [%s]", p.Location.File, p.Location.Line, p.Location.Column, p.Message, p.Code, p.Severity)
}

type Result struct {
	Stdout, Stderr []byte
	Exit           int
	Killed         bool // watchdog fired (inconclusive, never a verdict)
	Signal         string
}

// Problems parses -f json output.
func (r Result) Problems() ([]Problem, error) {
	var out []Problem
	dec := json.NewDecoder(bytes.NewReader(r.Stdout))
	for dec.More() {
		var p Problem
		if err := dec.Decode(&p); err != nil {
			return out, err
		}
		out = append(out, p)
	}
	return out, nil
}

func Keys(ps []Problem) []string {
	out := make([]string, len(ps))
	for i, p := range ps {
		out[i] = p.Key()
	}
	sort.Strings(out)
	return out
}

type Cmd struct {
	Bin   string
	Dir   string
	Env   []string // extra KEY=VALUE (override)
	Args  []string
	Stdin []byte
	// Watchdog in seconds (default 600). Firing = Killed, which callers must treat as inconclusive.
	Watchdog int
}

// Crashed reports a crash-like termination (panic, fatal error, signal).
func (r Result) Crashed() bool {
	if r.Killed {
		return false
	}
	if r.Signal != "" {
		return true
	}
	s := string(r.Stderr)
	return r.Exit == 2 && (strings.Contains(s, "panic:") || strings.Contains(s, "fatal error:") || strings.Contains(s, "goroutine ")) ||
		strings.Contains(s, "internal error")
}

func (c Cmd) Run() Result {
	cmd := exec.Command(c.Bin, c.Args...)
	cmd.Dir = c.Dir
	env := vf.GoEnv()
	// children must not inherit the monitor's own knobs unless set explicitly
	var clean []string
	for _, e := range env {
		if strings.HasPrefix(e, "VERIF_HOOKS=") || strings.HasPrefix(e, "VERIF_CRASH_AT=") || strings.HasPrefix(e, "VERIF_HOOK_LOG=") || strings.HasPrefix(e, "STATICCHECK_CACHE=") || strings.HasPrefix(e, "GOOS=") || strings.HasPrefix(e, "GOARCH=") || strings.HasPrefix(e, "GOMAXPROCS=") || strings.HasPrefix(e, "GODEBUG=") {
			continue
		}
		clean = append(clean, e)
	}
	cmd.Env = append(clean, c.Env...)
	var so, se bytes.Buffer
	cmd.Stdout, cmd.Stderr = &so, &se
	if c.Stdin != nil {
		cmd.Stdin = bytes.NewReader(c.Stdin)
	}
	wd := c.Watchdog
	if wd == 0 {
		wd = 600
	}
	var res Result
	if err := cmd.Start(); err != nil {
		res.Exit = -1
		res.Stderr = []byte(err.Error())
		return res
	}
	done := make(chan error, 1)
	go func() { done <- cmd.Wait() }()
	var err error
	select {
	case err = <-done:
	case <-time.After(time.Duration(wd) * time.Second):
		cmd.Process.Signal(syscall.SIGQUIT)
		select {
		case err = <-done:
		case <-time.After(10 * time.Second):
			cmd.Process.Kill()
			err = <-done
		}
		res.Killed = true
	}
	res.Stdout, res.Stderr = so.Bytes(), se.Bytes()
	if err != nil {
		if ee, ok := err.(*exec.ExitError); ok {
			res.Exit = ee.ExitCode()
			if ws, ok := ee.Sys().(syscall.WaitStatus); ok && ws.Signaled() {
				res.Signal = ws.Signal().String()
			}
		} else {
			res.Exit = -1
		}
	}
	return res
}

// FreshCache returns a new empty cache directory under dir.
func FreshCache(dir string, n int) string {
	p := fmt.Sprintf("%s/cache-%d", dir, n)
	os.RemoveAll(p)
	os.MkdirAll(p, 0o755)
	return p
}
