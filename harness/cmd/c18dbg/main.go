package main

import (
	"bytes"
	"fmt"
	"os"

	"honnef.co/go/tools/go/ir"
	"honnef.co/go/tools/go/ir/irutil"
	"verif/corpus"
)

func dump(prog *ir.Program) map[string]string {
	m := map[string]string{}
	for f := range irutil.AllFunctions(prog) {
		if len(f.Blocks) == 0 {
			continue
		}
		var b bytes.Buffer
		ir.WriteFunction(&b, f)
		m[f.String()+"|"+f.Synthetic] = b.String()
	}
	return m
}

func main() {
	pkgs, err := corpus.Load("/repo", false, os.Args[1:]...)
	if err != nil {
		panic(err)
	}
	var first map[string]string
	for i := 0; i < 4; i++ {
		prog, _ := irutil.Packages(pkgs, ir.BuildSerially)
		prog.Build()
		d := dump(prog)
		if first == nil {
			first = d
			continue
		}
		n := 0
		for k, v := range first {
			if w, ok := d[k]; ok && w != v {
				n++
				if n <= 1 {
					fmt.Printf("==== %s\n--- build 0\n%s\n--- build %d\n%s\n", k, v, i, w)
				}
			}
		}
		fmt.Println("build", i, "differs in", n, "functions")
	}
}
