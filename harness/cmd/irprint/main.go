// irprint prints the IR of every function of one source file (development aid).
package main

import (
	"fmt"
	"os"

	"honnef.co/go/tools/go/ir"
	"verif/corpus"
	"verif/irload"
	"verif/irwf"
)

func main() {
	src, err := os.ReadFile(os.Args[1])
	if err != nil {
		panic(err)
	}
	mode := ir.BuilderMode(0)
	if len(os.Args) > 2 && os.Args[2] == "naive" {
		mode = ir.NaiveForm
	}
	b, err := irload.Source("main", map[string]string{"main.go": string(src)}, mode)
	if err != nil {
		panic(err)
	}
	b.Pkg.Prog.Build()
	st := irwf.NewStats()
	for _, f := range corpus.Functions(b.Pkg.Prog) {
		f.WriteTo(os.Stdout)
		for _, is := range irwf.Check(f, st) {
			fmt.Println("IRWF:", is.Rule, is.Msg)
		}
	}
}
