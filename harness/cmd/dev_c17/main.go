// Throw-away main for trying C17 on its own.
package main

import (
	"verif/c17"
	"verif/vf"
)

func main() {
	r := vf.Start("C17", "exploration")
	c17.Run(r)
}
