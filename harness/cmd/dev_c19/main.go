package main

import (
	"verif/c19"
	"verif/vf"
)

func main() {
	r := vf.Start("C19", "exploration")
	c19.Run(r)
}
