package main

import (
	"fmt"
	"math/rand/v2"
	"os"
	"verif/syngen"
)

func main() {
	rng := rand.New(rand.NewPCG(1, 2))
	p := syngen.Generate(rng, "p", 200)
	os.WriteFile(os.Args[1], []byte(p.Source(nil)), 0o644)
	fmt.Println(len(p.Funcs))
}
