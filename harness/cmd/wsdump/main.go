// wsdump writes a wsgen workspace to a directory (development aid).
package main

import (
	"os"
	"path/filepath"

	"verif/gen"
)

func main() {
	dir := os.Args[1]
	s := gen.WSState{Deprecated: true, NeverNil: true, LocalB: 2, LocalA: 1, ConfRoot: 0, ConfB: 0, TestUses: false, ExtTest: true}
	for n, c := range s.Files() {
		p := filepath.Join(dir, n)
		os.MkdirAll(filepath.Dir(p), 0o755)
		os.WriteFile(p, []byte(c), 0o644)
	}
}
