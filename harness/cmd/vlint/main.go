// vlint is staticcheck (the real lintcmd.Command with every real analyzer)
// plus the monitor analyzers of package monitors.
package main

import (
	"os"

	"honnef.co/go/tools/lintcmd"
	"honnef.co/go/tools/lintcmd/version"
	"honnef.co/go/tools/quickfix"
	"honnef.co/go/tools/simple"
	"honnef.co/go/tools/staticcheck"
	"honnef.co/go/tools/stylecheck"
	"honnef.co/go/tools/unused"
	"verif/monitors"
)

func main() {
	cmd := lintcmd.NewCommand("vlint")
	cmd.SetVersion(version.Version, version.MachineVersion)
	fs := cmd.FlagSet()
	qf := fs.Bool("debug.run-quickfix-analyzers", false, "Run quickfix analyzers")
	only := fs.Bool("verif.only-monitors", false, "Register only the monitor analyzers")
	cmd.ParseFlags(os.Args[1:])
	if !*only {
		cmd.AddAnalyzers(simple.Analyzers...)
		cmd.AddAnalyzers(staticcheck.Analyzers...)
		cmd.AddAnalyzers(stylecheck.Analyzers...)
		cmd.AddAnalyzers(unused.Analyzer)
		if *qf {
			cmd.AddAnalyzers(quickfix.Analyzers...)
		}
	}
	cmd.AddBareAnalyzers(monitors.All()...)
	cmd.Run()
}
