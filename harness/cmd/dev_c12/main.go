package main

import (
	"verif/c12"
	"verif/vf"
)

func main() {
	r := vf.Start("C12", "exploration")
	c12.Run(r)
}
