// dev_c01: throw-away driver for check C01.
//
//	dev_c01                 run the check (VERIF_SEED, VERIF_TIER, C01_PROGRAMS)
//	dev_c01 -hand prog.go   validate one hand-written program (conventions of gen/execgen.go)
//	dev_c01 -dump i         print generated program i of the current seed
package main

import (
	"flag"
	"fmt"
	"math/rand/v2"
	"os"

	"verif/c01"
	gen "verif/execgen"
	"verif/vf"
)

func main() {
	hand := flag.String("hand", "", "hand-written source file")
	dump := flag.Int("dump", -1, "print generated program i")
	driver := flag.Bool("driver", false, "with -dump: print the driver too")
	flag.Parse()
	if *hand != "" {
		src, err := os.ReadFile(*hand)
		if err != nil {
			panic(err)
		}
		p, err := gen.ProgramFromSource(rand.New(rand.NewPCG(1, 2)), string(src), 10)
		if err != nil {
			panic(err)
		}
		res := c01.CheckProgram(0, p, fmt.Sprintf("/var/tmp/dev_c01.%d", os.Getpid()))
		fmt.Printf("discarded=%q inconclusive=%v compared=%d records=%d phi=%d recover=%d split=%d liftchanged=%d\n", res.Discarded, res.Inconclusive, res.Compared, res.Records, res.WithPhi, res.WithRecover, res.WithSplit, len(res.LiftChanged))
		for _, mm := range res.Mismatches {
			fmt.Printf("MISMATCH %s kind=%s modes=%v\n--- expected\n%s", mm.Key, mm.Kind, mm.Modes, mm.Expected)
			for m, g := range mm.Got {
				fmt.Printf("--- got (%s)\n%s", m, g)
				break
			}
		}
		fmt.Println("kinds:", res.Kinds)
		if len(res.Mismatches) > 0 {
			os.Exit(1)
		}
		return
	}
	r := vf.Start("C01", "translation_validation")
	if *dump >= 0 {
		p := gen.ExecProgram(r.Rand("prog", *dump), gen.ExecOpts{})
		fmt.Print(p.Source)
		if *driver {
			fmt.Print(p.Driver)
		}
		return
	}
	c01.Run(r)
}
