package main

import (
	"fmt"
	"os"
	"strings"

	"honnef.co/go/tools/go/ir"
	"verif/c01"
)

func main() {
	src, _ := os.ReadFile(os.Args[1])
	mode := ir.InstantiateGenerics
	if len(os.Args) > 3 && os.Args[3] == "naive" {
		mode |= ir.NaiveForm
	}
	pkg, err := c01.BuildIR(string(src), mode)
	if err != nil {
		panic(err)
	}
	var dump func(f *ir.Function)
	dump = func(f *ir.Function) {
		f.WriteTo(os.Stdout)
		for _, a := range f.AnonFuncs {
			dump(a)
		}
	}
	for _, f := range pkg.Functions {
		if strings.HasPrefix(f.Name(), os.Args[2]) {
			dump(f)
		}
	}
	fmt.Println()
}
