package main

import (
	"fmt"
	"os"

	"verif/c02"
	"verif/c09"
	"verif/c13"
	"verif/c14"
	"verif/vf"
)

var checks = map[string]struct {
	level string
	needs string // binaries ./check must build first
	run   func(*vf.Run)
}{
	"C02": {"exploration", "", c02.Run},
	"C09": {"exploration", "", c09.Run},
	"C13": {"exploration", "", c13.Run},
	"C14": {"exploration", "", c14.Run},
}

func main() {
	if len(os.Args) < 2 {
		fmt.Fprintln(os.Stderr, "usage: vcheck <Cxx>")
		os.Exit(3)
	}
	if os.Args[1] == "--needs" && len(os.Args) > 2 {
		fmt.Println(checks[os.Args[2]].needs)
		return
	}
	c, ok := checks[os.Args[1]]
	if !ok {
		fmt.Fprintln(os.Stderr, "unknown check", os.Args[1])
		os.Exit(3)
	}
	r := vf.Start(os.Args[1], c.level)
	c.run(r)
}
