package main

import (
	"fmt"
	"os"
	"strconv"

	"verif/c01"
	"verif/c02"
	"verif/c03"
	"verif/c04"
	"verif/c05"
	"verif/c06"
	"verif/c07"
	"verif/c08"
	"verif/c09"
	"verif/c10"
	"verif/c11"
	"verif/c12"
	"verif/c13"
	"verif/c14"
	"verif/c15"
	"verif/c16"
	"verif/c17"
	"verif/c18"
	"verif/c19"
	"verif/c20"
	"verif/vf"
)

var checks = map[string]struct {
	level string
	needs string // binaries ./check must build first
	run   func(*vf.Run)
}{
	"C01": {"translation_validation", "", c01.Run},
	"C02": {"exploration", "", c02.Run},
	"C03": {"exploration", "", c03.Run},
	"C04": {"exploration", "", c04.Run},
	"C05": {"fault_enumeration", "", c05.Run},
	"C06": {"exploration", "", c06.Run},
	"C07": {"exploration", "", c07.Run},
	"C08": {"exploration", "", c08.Run},
	"C09": {"exploration", "", c09.Run},
	"C10": {"exploration", "", c10.Run},
	"C11": {"exploration", "", c11.Run},
	"C12": {"exploration", "", c12.Run},
	"C13": {"exploration", "", c13.Run},
	"C14": {"exploration", "", c14.Run},
	"C15": {"exploration", "", c15.Run},
	"C16": {"exploration", "", c16.Run},
	"C17": {"exploration", "", c17.Run},
	"C18": {"exploration", "", c18.Run},
	"C19": {"exploration", "", c19.Run},
	"C20": {"exploration", "", c20.Run},
}

func main() {
	if len(os.Args) < 2 {
		fmt.Fprintln(os.Stderr, "usage: vcheck <Cxx>")
		os.Exit(3)
	}
	if os.Args[1] == "C18child" && len(os.Args) >= 7 {
		procs, _ := strconv.Atoi(os.Args[4])
		builds, _ := strconv.Atoi(os.Args[5])
		c18.Child(os.Args[2], os.Args[3], procs, builds, os.Args[6:])
		return
	}
	if os.Args[1] == "C18gen" && len(os.Args) == 4 {
		// debugging aid: write the generated program number N of the current seed to a directory
		n, _ := strconv.Atoi(os.Args[3])
		c18.WriteProgram(vf.Start("C18", "exploration"), os.Args[2], n)
		return
	}
	if os.Args[1] == "--needs" && len(os.Args) > 2 {
		fmt.Println(checks[os.Args[2]].needs)
		return
	}
	c, ok := checks[os.Args[1]]
	if !ok {
		fmt.Fprintln(os.Stderr, "unknown check", os.Args[1])
		os.Exit(3)
	}
	r := vf.Start(os.Args[1], c.level)
	c.run(r)
}
