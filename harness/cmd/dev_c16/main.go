// Throw-away main for trying C16 on its own.
package main

import (
	"os"
	"runtime/pprof"

	"verif/c16"
	"verif/vf"
)

func main() {
	if p := os.Getenv("C16_PPROF"); p != "" {
		f, _ := os.Create(p)
		pprof.StartCPUProfile(f)
		defer pprof.StopCPUProfile()
		c16.Exit = func() { pprof.StopCPUProfile(); f.Close() }
	}
	r := vf.Start("C16", "exploration")
	c16.Run(r)
}
