// Throw-away development main for check C05.
package main

import (
	"verif/c05"
	"verif/vf"
)

func main() {
	r := vf.Start("C05", "fault_enumeration")
	c05.Run(r)
}
