// Throw-away main for trying C07 on its own.
package main

import (
	"verif/c07"
	"verif/vf"
)

func main() {
	r := vf.Start("C07", "exploration")
	c07.Run(r)
}
