// c05child is the helper process of check C05: it performs cache stores and
// lookups on behalf of the monitor so that it can be killed at any moment.
package main

import (
	"os"

	"verif/c05"
)

func main() { os.Exit(c05.ChildMain(os.Args[1:])) }
