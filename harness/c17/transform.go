package c17

import (
	"fmt"
	"go/ast"
	"go/parser"
	"go/token"
	"go/types"
	"math/rand/v2"
	"strings"

	"verif/c07/u1000"
)

// splitDecls cuts a source file into a fixed header (build constraints, package
// clause, imports) and one text chunk per top-level declaration. A chunk runs
// from the end of the previous declaration's last line to the end of its own
// last line, so doc comments, directives and trailing comments travel with the
// declaration; const groups / iota blocks are single declarations and therefore
// stay intact.
func splitDecls(name, src string) (header string, chunks []string, ok bool) {
	fset := token.NewFileSet()
	f, err := parser.ParseFile(fset, name, src, parser.ParseComments|parser.SkipObjectResolution)
	if err != nil {
		return "", nil, false
	}
	if strings.Contains(src, "//lint:") || strings.Contains(src, "//line ") || strings.Contains(src, "/*line ") {
		// comment/declaration association of directives may legitimately change when declarations move
		return "", nil, false
	}
	eol := func(p token.Pos) int {
		o := fset.Position(p).Offset
		for o < len(src) && src[o] != '\n' {
			o++
		}
		if o < len(src) {
			o++
		}
		return o
	}
	cut := eol(f.Name.End())
	i := 0
	for ; i < len(f.Decls); i++ {
		gd, isGen := f.Decls[i].(*ast.GenDecl)
		if !isGen || gd.Tok != token.IMPORT {
			break
		}
		cut = eol(gd.End())
	}
	header = src[:cut]
	prev := cut
	for ; i < len(f.Decls); i++ {
		if gd, isGen := f.Decls[i].(*ast.GenDecl); isGen && gd.Tok == token.IMPORT {
			return "", nil, false // import after other declarations: leave the file alone
		}
		end := eol(f.Decls[i].End())
		if end <= prev {
			continue // shares its last line with the previous declaration
		}
		// a declaration that starts on the line where the previous one ended cannot be separated
		if fset.Position(f.Decls[i].Pos()).Offset < prev {
			if len(chunks) == 0 {
				return "", nil, false
			}
			chunks[len(chunks)-1] += src[prev:end]
			prev = end
			continue
		}
		chunks = append(chunks, src[prev:end])
		prev = end
	}
	if prev < len(src) {
		if len(chunks) == 0 {
			header += src[prev:]
		} else {
			chunks[len(chunks)-1] += src[prev:]
		}
	}
	for k := range chunks {
		if !strings.HasSuffix(chunks[k], "\n") {
			chunks[k] += "\n"
		}
	}
	return header, chunks, true
}

// permute returns the files of v in a new order, each with its top-level
// declarations shuffled.
func permute(v *u1000.Variant, rng *rand.Rand) *u1000.Variant {
	nv := *v
	nv.Files = make([]u1000.File, len(v.Files))
	order := rng.Perm(len(v.Files))
	for i, j := range order {
		f := v.Files[j]
		if h, chunks, ok := splitDecls(f.Name, f.Src); ok && len(chunks) > 1 {
			rng.Shuffle(len(chunks), func(a, b int) { chunks[a], chunks[b] = chunks[b], chunks[a] })
			f.Src = h + strings.Join(chunks, "")
		}
		nv.Files[i] = f
	}
	return &nv
}

// ---------------------------------------------------------------------------
// added references (monotonicity)

type refTarget struct {
	id    u1000.Ident
	forms []string // candidate file bodies (after the package clause), tried in order
	form  string   // syntactic form of the first candidate: call, conversion, read, selector, method-call …
}

var typeArgSets = []string{"int", "string", "int, int", "int, string", "string, int", "bool", "bool, bool", "[]int", "int, int, int"}

func localQualifier(pkg *types.Package, foreign *bool) types.Qualifier {
	return func(p *types.Package) string {
		if p == pkg {
			return ""
		}
		*foreign = true
		return p.Name()
	}
}

// typeSpellings: ways to name the package-level type tn as a variable type.
func typeSpellings(tn *types.TypeName) []string {
	var tps *types.TypeParamList
	switch t := tn.Type().(type) {
	case *types.Named:
		tps = t.TypeParams()
	case *types.Alias:
		tps = t.TypeParams()
	}
	if tps == nil || tps.Len() == 0 {
		return []string{tn.Name()}
	}
	var out []string
	for _, a := range typeArgSets {
		if strings.Count(a, ",")+1 == tps.Len() {
			out = append(out, tn.Name()+"["+a+"]")
		}
	}
	return out
}

// zeroArgs spells a call argument list for sig using only local/universe type names; ok=false otherwise.
func zeroArgs(pkg *types.Package, sig *types.Signature) (string, bool) {
	if sig.TypeParams() != nil && sig.TypeParams().Len() > 0 {
		return "", false
	}
	var args []string
	foreign := false
	q := localQualifier(pkg, &foreign)
	for i := 0; i < sig.Params().Len(); i++ {
		if sig.Variadic() && i == sig.Params().Len()-1 {
			break
		}
		t := sig.Params().At(i).Type()
		if hasTypeParam(t) {
			return "", false
		}
		args = append(args, "*new("+types.TypeString(t, q)+")")
	}
	if foreign {
		return "", false
	}
	return strings.Join(args, ", "), true
}

func hasTypeParam(t types.Type) bool {
	found := false
	var visit func(t types.Type, depth int)
	visit = func(t types.Type, depth int) {
		if found || depth > 6 {
			return
		}
		switch t := t.(type) {
		case *types.TypeParam:
			found = true
		case *types.Pointer:
			visit(t.Elem(), depth+1)
		case *types.Slice:
			visit(t.Elem(), depth+1)
		case *types.Array:
			visit(t.Elem(), depth+1)
		case *types.Chan:
			visit(t.Elem(), depth+1)
		case *types.Map:
			visit(t.Key(), depth+1)
			visit(t.Elem(), depth+1)
		case *types.Signature:
			for i := 0; i < t.Params().Len(); i++ {
				visit(t.Params().At(i).Type(), depth+1)
			}
			for i := 0; i < t.Results().Len(); i++ {
				visit(t.Results().At(i).Type(), depth+1)
			}
		case *types.Named:
			if ta := t.TypeArgs(); ta != nil {
				for i := 0; i < ta.Len(); i++ {
					visit(ta.At(i), depth+1)
				}
			}
		case *types.Struct:
			for i := 0; i < t.NumFields(); i++ {
				visit(t.Field(i).Type(), depth+1)
			}
		}
	}
	visit(t, 0)
	return found
}

func initBody(stmts string) string {
	return "\nfunc init() {\n\t" + stmts + "\n}\n"
}

// refTargets enumerates the objects of u a reference can be added to, with the
// candidate spellings of that reference. The added code always lives in a new
// init function (used code by rule 1.5) of a new non-test file.
func refTargets(u *u1000.Unit, ix *u1000.Index) []refTarget {
	pkg := u.Pkg
	var out []refTarget
	scope := pkg.Scope()
	fieldOwner := map[*types.Var][2]string{} // field -> (type name object name, selector path)
	fieldTN := map[*types.Var]*types.TypeName{}
	for _, name := range scope.Names() {
		tn, ok := scope.Lookup(name).(*types.TypeName)
		if !ok || name == "_" {
			continue
		}
		st, ok := tn.Type().Underlying().(*types.Struct)
		if !ok {
			continue
		}
		if tn.IsAlias() {
			continue
		}
		var walk func(st *types.Struct, path string, depth int)
		walk = func(st *types.Struct, path string, depth int) {
			for i := 0; i < st.NumFields(); i++ {
				f := st.Field(i).Origin()
				if f.Name() == "_" {
					continue
				}
				p := path + "." + f.Name()
				if _, seen := fieldOwner[f]; !seen {
					fieldOwner[f] = [2]string{tn.Name(), p}
					fieldTN[f] = tn
				}
				if depth < 3 && !f.Embedded() {
					switch ft := f.Type().(type) {
					case *types.Struct:
						walk(ft, p, depth+1)
					case *types.Pointer:
						if s2, ok := ft.Elem().(*types.Struct); ok {
							walk(s2, p, depth+1)
						}
					}
				}
			}
		}
		if n, ok := tn.Type().(*types.Named); ok {
			if s0, ok := n.Origin().Underlying().(*types.Struct); ok {
				st = s0
			}
		}
		walk(st, "", 0)
	}
	for _, id := range ix.All() {
		obj := ix.Lookup(id)
		if obj == nil || obj.Name() == "_" {
			continue
		}
		t := refTarget{id: id}
		switch o := obj.(type) {
		case *types.Func:
			sig := o.Type().(*types.Signature)
			if sig.Recv() == nil {
				if o.Parent() != scope || o.Name() == "init" || o.Name() == "main" {
					continue
				}
				t.form = "call"
				if args, ok := zeroArgs(pkg, sig); ok {
					t.forms = append(t.forms, initBody(o.Name()+"("+args+")"))
				}
				t.forms = append(t.forms, initBody("_ = "+o.Name()))
				for _, a := range typeArgSets {
					t.forms = append(t.forms, initBody("_ = "+o.Name()+"["+a+"]"))
				}
			} else {
				// method: find the receiver's type name (concrete or interface)
				rt := sig.Recv().Type()
				if p, ok := rt.(*types.Pointer); ok {
					rt = p.Elem()
				}
				var tn *types.TypeName
				switch r := rt.(type) {
				case *types.Named:
					tn = r.Obj()
				case *types.Alias:
					tn = r.Obj()
				}
				if tn == nil {
					// method of an interface type literal: find a package-level interface that declares it
					for _, name := range scope.Names() {
						if c, ok := scope.Lookup(name).(*types.TypeName); ok && !c.IsAlias() {
							if it, ok := c.Type().Underlying().(*types.Interface); ok {
								for i := 0; i < it.NumExplicitMethods(); i++ {
									if it.ExplicitMethod(i).Origin() == o {
										tn = c
									}
								}
							}
						}
					}
				}
				if tn == nil || tn.Parent() != scope {
					continue
				}
				t.form = "method-call"
				args, okArgs := zeroArgs(pkg, sig)
				for _, sp := range typeSpellings(tn) {
					if okArgs {
						t.forms = append(t.forms, initBody("var v "+sp+"; v."+o.Name()+"("+args+")"))
					}
					t.forms = append(t.forms, initBody("var v "+sp+"; _ = v."+o.Name()))
				}
			}
		case *types.TypeName:
			if o.Parent() != scope {
				continue
			}
			if _, isTP := o.Type().(*types.TypeParam); isTP {
				continue
			}
			t.form = "var-of-type"
			for _, sp := range typeSpellings(o) {
				t.forms = append(t.forms, initBody("var v "+sp+"; _ = v"))
			}
			for _, sp := range typeSpellings(o) {
				// constraint interfaces cannot be variable types: use them as a constraint of an exported generic function
				t.forms = append(t.forms, "\nfunc VerifRefConstraint[X "+sp+"]() {}\n")
			}
		case *types.Const:
			if o.Parent() != scope {
				continue
			}
			t.form = "read"
			t.forms = append(t.forms, initBody("_ = "+o.Name()))
		case *types.Var:
			if o.IsField() {
				own, ok := fieldOwner[o.Origin()]
				if !ok {
					continue
				}
				t.form = "selector"
				for _, sp := range typeSpellings(fieldTN[o.Origin()]) {
					t.forms = append(t.forms, initBody("var v "+sp+"; _ = v"+own[1]))
				}
			} else {
				if o.Parent() != scope {
					continue
				}
				t.form = "read"
				t.forms = append(t.forms, initBody("_ = "+o.Name()))
			}
		default:
			continue
		}
		if len(t.forms) > 0 {
			out = append(out, t)
		}
	}
	return out
}

// withReference returns v extended by a new file holding body, or nil if no
// candidate type-checks.
func withReference(v *u1000.Variant, pkgName string, t refTarget) (*u1000.Variant, *u1000.Unit, string) {
	dir := ""
	if len(v.Files) > 0 {
		dir = v.Files[0].Name[:strings.LastIndex(v.Files[0].Name, "/")+1]
	}
	for _, body := range t.forms {
		nv := *v
		nv.Files = append(append([]u1000.File{}, v.Files...), u1000.File{Name: dir + "zz_verif_ref.go", Src: fmt.Sprintf("package %s\n%s", pkgName, body)})
		u := u1000.Check(&nv, true)
		if len(u.Errs) == 0 {
			return &nv, u, body
		}
	}
	return nil, nil, ""
}
