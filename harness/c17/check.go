// Package c17: U1000 verdicts are order-independent, monotone and merged over
// package variants (property C17). Metamorphic relations between runs of the
// real analysis; objects are identified by kind + qualified name, never by
// position (verif/c07/u1000.Index).
package c17

import (
	"bufio"
	"bytes"
	"encoding/json"
	"fmt"
	"go/types"
	"os"
	"os/exec"
	"path/filepath"
	"runtime"
	"sort"
	"strconv"
	"strings"
	"sync"
	"time"

	"golang.org/x/tools/go/packages"
	"verif/c07/u1000"
	"verif/declgen"
	"verif/vf"
)

type viol struct {
	key, what string
	replay    any
}

// pcase is one package with its variants.
type pcase struct {
	label   string
	corpus  string
	dir     string // directory on disk (CLI relation)
	pkgPath string
	vs      []*u1000.Variant // same PkgPath variants first (p, p+tests), then p_test
	objCap  int              // max objects put under relation (iii); 0 = all
}

type vstate struct {
	v  *u1000.Variant
	u  *u1000.Unit
	ix *u1000.Index
	vd *u1000.Verdict
}

type presult struct {
	skipped    string
	viols      []viol
	evals      int
	nontrivial map[string]bool // relation -> exercised non-trivially
	states     []*vstate
	flipped    int // objects that went from reported to used by the added reference
	refsAdded  int
	refsNoForm int
	perms      int
	refForms   map[string]int
}

func analyze(v *u1000.Variant) (*vstate, error) {
	u := u1000.Check(v, true)
	if len(u.Errs) > 0 {
		return nil, fmt.Errorf("does not type-check: %v", u.Errs[0])
	}
	res, err := u1000.Analyze(u)
	if err != nil {
		return nil, err
	}
	ix := u1000.NewIndex(u)
	return &vstate{v, u, ix, u1000.NewVerdict(ix, res)}, nil
}

func mixed(st *vstate) bool {
	rep, unrep := false, false
	for id := range st.vd.Unused {
		if o := st.ix.Lookup(id); o != nil && !o.Exported() {
			rep = true
		}
	}
	for id := range st.vd.Used {
		if o := st.ix.Lookup(id); o != nil && !o.Exported() && o.Parent() == st.u.Pkg.Scope() {
			unrep = true
		}
	}
	return rep && unrep
}

func rawKey(st *vstate) string {
	var b []string
	add := func(tag string, m map[u1000.Ident]bool) {
		for _, i := range u1000.SetOf(m) {
			b = append(b, tag+" "+i.String())
		}
	}
	add("used", st.vd.Used)
	add("unused", st.vd.Unused)
	add("quiet", st.vd.Quiet)
	return strings.Join(b, "\n")
}

func sources(v *u1000.Variant) map[string]string {
	m := map[string]string{}
	for i, f := range v.Files {
		m[fmt.Sprintf("%02d %s", i, filepath.Base(f.Name))] = f.Src
	}
	return m
}

func evalCase(r *vf.Run, c *pcase, idx int, nPerm, nRep int) *presult {
	res := &presult{nontrivial: map[string]bool{}, refForms: map[string]int{}}
	for _, v := range c.vs {
		if err := v.ReadSources(); err != nil {
			res.skipped = err.Error()
			return res
		}
		st, err := analyze(v)
		if err != nil {
			if strings.HasPrefix(err.Error(), "does not type-check") {
				res.skipped = v.ID + ": " + err.Error()
				return res
			}
			res.viols = append(res.viols, viol{"analyzer-failure", fmt.Sprintf("%s: %v", v.ID, err), map[string]any{"case": c.label, "files": sources(v)}})
			return res
		}
		res.states = append(res.states, st)
	}
	for vi, st := range res.states {
		nt := mixed(st)
		base := rawKey(st)
		// (ii) repetition on identical input
		for k := 0; k < nRep; k++ {
			st2, err := analyze(st.v)
			res.evals++
			if err != nil {
				res.viols = append(res.viols, viol{"repeat:analyzer-failure", fmt.Sprintf("%s: repetition %d: %v", st.v.ID, k, err), map[string]any{"case": c.label, "files": sources(st.v)}})
				break
			}
			if rawKey(st2) != base {
				a, b := u1000.Diff(st.vd.Unused, st2.vd.Unused)
				res.viols = append(res.viols, viol{"repeat:in-process", fmt.Sprintf("%s: repetition %d of the analysis on identical input changed the verdicts (reported only in run 0: %v, only in run %d: %v)", st.v.ID, k+1, u1000.Strings(a), k+1, u1000.Strings(b)),
					map[string]any{"case": c.label, "files": sources(st.v), "only_first": u1000.Strings(a), "only_second": u1000.Strings(b)}})
				break
			}
		}
		if nt {
			res.nontrivial["repeat"] = true
		}
		// (i) permutations of files and of top-level declarations
		for k := 0; k < nPerm; k++ {
			pv := permute(st.v, r.Rand("perm", idx*100000+vi*1000+k))
			st2, err := analyze(pv)
			res.evals++
			res.perms++
			if err != nil {
				if strings.HasPrefix(err.Error(), "does not type-check") {
					res.viols = append(res.viols, viol{"harness:permutation-broke-package", fmt.Sprintf("%s: %v", st.v.ID, err), map[string]any{"case": c.label, "files": sources(pv)}})
				} else {
					res.viols = append(res.viols, viol{"order:analyzer-failure", fmt.Sprintf("%s: permutation %d: %v", st.v.ID, k, err), map[string]any{"case": c.label, "files": sources(pv)}})
				}
				break
			}
			if a, b := u1000.Diff(st.vd.Unused, st2.vd.Unused); len(a)+len(b) > 0 {
				res.viols = append(res.viols, viol{"order:reported-set", fmt.Sprintf("%s: permuting files/declarations changed the reported set: no longer reported %v, newly reported %v", st.v.ID, u1000.Strings(a), u1000.Strings(b)),
					map[string]any{"case": c.label, "original": sources(st.v), "permuted": sources(pv), "no_longer_reported": u1000.Strings(a), "newly_reported": u1000.Strings(b)}})
				break
			}
			if rawKey(st2) != base {
				a, b := u1000.Diff(st.vd.Used, st2.vd.Used)
				res.viols = append(res.viols, viol{"order:used-quiet-partition", fmt.Sprintf("%s: permuting files/declarations changed which objects are used (a used verdict in one variant suppresses reports of the others): used only before %v, only after %v", st.v.ID, u1000.Strings(a), u1000.Strings(b)),
					map[string]any{"case": c.label, "original": sources(st.v), "permuted": sources(pv)}})
				break
			}
		}
		if nt {
			res.nontrivial["order"] = true
		}
		// (iii) monotonicity under one added reference from used code
		if filepath.Base(st.v.PkgPath) != "" && !strings.HasSuffix(st.v.PkgPath, "_test") {
			targets := refTargets(st.u, st.ix)
			if c.objCap > 0 && len(targets) > c.objCap {
				rng := r.Rand("refsample", idx*10+vi)
				rng.Shuffle(len(targets), func(a, b int) { targets[a], targets[b] = targets[b], targets[a] })
				targets = targets[:c.objCap]
			}
			for _, t := range targets {
				nv, u2, body := withReference(st.v, st.u.Pkg.Name(), t)
				if nv == nil {
					res.refsNoForm++
					continue
				}
				res.refsAdded++
				res.refForms[t.form]++
				res.evals++
				r2, err := u1000.Analyze(u2)
				if err != nil {
					res.viols = append(res.viols, viol{"monotone:analyzer-failure", fmt.Sprintf("%s: %v", st.v.ID, err), map[string]any{"case": c.label, "files": sources(nv)}})
					continue
				}
				vd2 := u1000.NewVerdict(u1000.NewIndex(u2), r2)
				var lost []u1000.Ident
				for id := range st.vd.Used {
					if !vd2.Used[id] {
						lost = append(lost, id)
					}
				}
				if len(lost) > 0 {
					u1000.SortIdents(lost)
					var rep []string
					for _, id := range lost {
						rep = append(rep, id.String()+" is now "+orAbsent(vd2.Status(id)))
					}
					res.viols = append(res.viols, viol{"monotone:" + t.form, fmt.Sprintf("%s: adding one reference to %s from a new init function turned used objects into unused ones: %v", st.v.ID, t.id, rep),
						map[string]any{"case": c.label, "files": sources(st.v), "added_file": body, "referenced": t.id.String(), "lost": rep}})
				}
				if st.vd.Unused[t.id] && vd2.Used[t.id] {
					res.flipped++
				}
			}
			if nt && res.refsAdded > 0 {
				res.nontrivial["monotone"] = true
			}
		}
	}
	return res
}

func orAbsent(s string) string {
	if s == "" {
		return "absent"
	}
	return s
}

// ---------------------------------------------------------------------------
// relation (iv): CLI over variants

type cliDiag struct {
	Code     string `json:"code"`
	Location struct {
		File   string `json:"file"`
		Line   int    `json:"line"`
		Column int    `json:"column"`
	} `json:"location"`
	Message string `json:"message"`
}

// runCLI runs staticcheck in dir and returns the U1000 diagnostics and the
// other (compile etc.) diagnostics per file.
func runCLI(bin, dir, cache string, tests bool, patterns ...string) (u []cliDiag, other []cliDiag, err error) {
	args := []string{"-checks", "U1000", "-f", "json", fmt.Sprintf("-tests=%t", tests)}
	args = append(args, patterns...)
	cmd := exec.Command("timeout", append([]string{"-s", "QUIT", "1800", bin}, args...)...)
	cmd.Dir = dir
	cmd.Env = append(vf.GoEnv(), "STATICCHECK_CACHE="+cache)
	if v := os.Getenv("VERIF_WORKERS"); v != "" {
		cmd.Env = append(cmd.Env, "GOMAXPROCS="+v)
	}
	var out, errb bytes.Buffer
	cmd.Stdout, cmd.Stderr = &out, &errb
	runErr := cmd.Run()
	if ee, ok := runErr.(*exec.ExitError); ok && ee.ExitCode() == 1 {
		runErr = nil // exit 1 = problems found
	}
	if runErr != nil {
		return nil, nil, fmt.Errorf("%v: %s", runErr, tail(errb.String(), 400))
	}
	sc := bufio.NewScanner(&out)
	sc.Buffer(make([]byte, 1<<20), 1<<24)
	for sc.Scan() {
		var d cliDiag
		if json.Unmarshal(sc.Bytes(), &d) != nil {
			continue
		}
		if d.Code == "U1000" {
			u = append(u, d)
		} else {
			other = append(other, d)
		}
	}
	return u, other, nil
}

func tail(s string, n int) string {
	if len(s) > n {
		return s[len(s)-n:]
	}
	return s
}

// filterDiags keeps the diagnostics located in the package directories named by patterns ("./rel").
func filterDiags(ds []cliDiag, root string, patterns []string) []cliDiag {
	keep := map[string]bool{}
	for _, p := range patterns {
		keep[filepath.Join(root, p)] = true
	}
	var out []cliDiag
	for _, d := range ds {
		if keep[filepath.Dir(d.Location.File)] {
			out = append(out, d)
		}
	}
	return out
}

func diagKey(ds []cliDiag) string {
	var s []string
	for _, d := range ds {
		s = append(s, fmt.Sprintf("%s:%d:%d %s", d.Location.File, d.Location.Line, d.Location.Column, d.Message))
	}
	sort.Strings(s)
	return strings.Join(s, "\n")
}

// cliRelation compares the CLI on a module directory with the per-variant
// in-process verdicts of the cases that live in it.
func cliRelation(r *vf.Run, bin, dir string, cases []*pcase, results []*presult, nt map[string]bool) (evals int) {
	cacheBase := filepath.Join(r.Scratch(), "sc-cache-"+filepath.Base(dir))
	type expect struct {
		c       *pcase
		withT   map[u1000.Ident]bool
		without map[u1000.Ident]bool
		states  []*vstate
	}
	byDir := map[string][]*vstate{} // package dir -> states whose files live there
	exp := map[string]*expect{}     // pkgPath -> expectation
	for i, c := range cases {
		res := results[i]
		if res == nil || res.skipped != "" || len(res.states) == 0 {
			continue
		}
		for _, st := range res.states {
			e := exp[st.v.PkgPath]
			if e == nil {
				e = &expect{c: c, withT: map[u1000.Ident]bool{}, without: map[u1000.Ident]bool{}}
				exp[st.v.PkgPath] = e
			}
			e.states = append(e.states, st)
			byDir[c.dir] = append(byDir[c.dir], st)
		}
	}
	for _, e := range exp {
		// -tests: reported iff unused in some variant and used in none
		for _, st := range e.states {
			for id := range st.vd.Unused {
				used := false
				for _, o := range e.states {
					if o.vd.Used[id] {
						used = true
					}
				}
				if !used {
					e.withT[id] = true
				}
			}
		}
		// -tests=false: only the plain variant (the one without any _test.go file) exists
		for _, st := range e.states {
			plain := true
			for _, f := range st.v.Files {
				if strings.HasSuffix(f.Name, "_test.go") {
					plain = false
				}
			}
			if plain {
				for id := range st.vd.Unused {
					e.without[id] = true
				}
			}
		}
	}
	resolve := func(d cliDiag) (string, u1000.Ident, bool) {
		for _, st := range byDir[filepath.Dir(d.Location.File)] {
			// prefer the variant with most files (p+tests) for files of p; p_test files only exist in their own variant
			if obj := st.ix.ObjectAtLC(d.Location.File, d.Location.Line, d.Location.Column); obj != nil {
				if id, ok := st.ix.IdentOf(obj); ok {
					return st.v.PkgPath, id, true
				}
			}
		}
		return "", u1000.Ident{}, false
	}
	// A base cache that only holds the standard library's facts keeps the runs short; every
	// run below starts from a copy of it, so the packages under test are analysed afresh.
	os.MkdirAll(filepath.Join(dir, "warm"), 0o755)
	os.WriteFile(filepath.Join(dir, "warm", "w.go"), []byte("package w\n\nimport (\n\t_ \"fmt\"\n\t_ \"io\"\n\t_ \"sort\"\n\t_ \"strings\"\n\t_ \"structs\"\n\t_ \"sync\"\n\t_ \"unsafe\"\n\t_ \"reflect\"\n)\n"), 0o644)
	os.WriteFile(filepath.Join(dir, "warm", "w_test.go"), []byte("package w\n\nimport \"testing\"\n\nfunc TestW(t *testing.T) {}\n"), 0o644)
	if _, _, err := runCLI(bin, dir, cacheBase+"-base", true, "./warm/..."); err != nil {
		r.Inconclusive("staticcheck warm-up run in %s: %v", dir, err)
		return
	}
	for _, c := range []string{"-a", "-b"} {
		if out, err := exec.Command("cp", "-r", cacheBase+"-base", cacheBase+c).CombinedOutput(); err != nil {
			r.Inconclusive("copying cache: %v %s", err, out)
			return
		}
	}
	var patterns []string
	for _, c := range cases {
		if rel, err := filepath.Rel(dir, c.dir); err == nil {
			patterns = append(patterns, "./"+rel)
		}
	}
	sort.Strings(patterns)
	for _, tests := range []bool{true, false} {
		mode := fmt.Sprintf("tests=%t", tests)
		du, other, err := runCLI(bin, dir, cacheBase+"-a", tests, patterns...)
		if err != nil {
			r.Inconclusive("staticcheck -%s in %s: %v", mode, dir, err)
			return
		}
		broken := map[string]bool{} // package dirs with non-U1000 diagnostics (compile errors): not compared
		for _, d := range other {
			broken[filepath.Dir(d.Location.File)] = true
			if strings.HasPrefix(d.Message, "# ") { // compile failure: "# pkgpath [variant]\n..."
				line := strings.SplitN(d.Message[2:], "\n", 2)[0]
				pp := strings.TrimSuffix(strings.Fields(line)[0], "_test")
				for _, e := range exp {
					if e.c.pkgPath == pp {
						broken[e.c.dir] = true
					}
				}
			}
			r.Add("cli_other_diagnostics", 1)
		}
		duAll := du
		if tests {
			// (ii) across fresh processes: a second process that has to analyse the packages again must print the same
			// (quick: on a third of the packages; the comparison is restricted to them)
			sub := patterns
			if !r.Thorough() && len(sub) > 12 {
				sub = sub[:12]
			}
			du2, _, err := runCLI(bin, dir, cacheBase+"-b", tests, sub...)
			du = filterDiags(du, dir, sub)
			du2 = filterDiags(du2, dir, sub)
			if err == nil && diagKey(du) != diagKey(du2) {
				r.Violation("repeat:cli", fmt.Sprintf("two fresh staticcheck processes (-%s) on %s printed different U1000 sets", mode, dir), map[string]any{"dir": dir, "first": diagKey(du), "second": diagKey(du2)})
			}
			du = duAll
			r.Add("cli_runs", 1)
		}
		r.Add("cli_runs", 1)
		got := map[string]map[u1000.Ident]bool{}
		for _, d := range du {
			if broken[filepath.Dir(d.Location.File)] {
				continue
			}
			path, id, ok := resolve(d)
			if !ok {
				r.Violation("variants:cli-reports-unknown-object", fmt.Sprintf("staticcheck -%s reports %q at %s:%d:%d, which is not a declaration the harness knows", mode, d.Message, d.Location.File, d.Location.Line, d.Location.Column), map[string]any{"diag": d})
				continue
			}
			if got[path] == nil {
				got[path] = map[u1000.Ident]bool{}
			}
			got[path][id] = true
		}
		var paths []string
		for p := range exp {
			paths = append(paths, p)
		}
		sort.Strings(paths)
		for _, p := range paths {
			e := exp[p]
			if broken[e.c.dir] {
				r.Add("cli_packages_not_compared", 1)
				continue
			}
			want := e.withT
			if !tests {
				want = e.without
				if strings.HasSuffix(p, "_test") {
					want = map[u1000.Ident]bool{}
				}
			}
			evals++
			spurious, missing := u1000.Diff(got[p], want)
			hasTestsVariant := len(e.states) > 1
			if hasTestsVariant && len(want) > 0 {
				for _, st := range e.states {
					if mixed(st) {
						nt[e.c.label+"/variants"] = true
					}
				}
			}
			describe := func(id u1000.Ident) string {
				var s []string
				for _, st := range e.states {
					s = append(s, filepath.Base(st.v.ID)+"="+orAbsent(st.vd.Status(id)))
				}
				return id.String() + " (" + strings.Join(s, ", ") + ")"
			}
			files := map[string]any{}
			for _, st := range e.states {
				files[st.v.ID] = sources(st.v)
			}
			if len(spurious) > 0 {
				var s []string
				for _, id := range spurious {
					s = append(s, describe(id))
				}
				r.Add("viol variants:"+mode+":spurious", 1)
				r.Violation("variants:"+mode+":spurious", fmt.Sprintf("%s: staticcheck -%s reports objects that are used in some variant (or not unused in any): %v", e.c.label, mode, s), map[string]any{"case": e.c.label, "pkg": p, "objects": s, "variants": files})
			}
			if len(missing) > 0 {
				var s []string
				for _, id := range missing {
					s = append(s, describe(id))
				}
				r.Add("viol variants:"+mode+":missing", 1)
				r.Violation("variants:"+mode+":missing", fmt.Sprintf("%s: staticcheck -%s does not report objects that are unused in every variant that has them: %v", e.c.label, mode, s), map[string]any{"case": e.c.label, "pkg": p, "objects": s, "variants": files})
			}
		}
	}
	return evals
}

// ---------------------------------------------------------------------------

var phaseT = time.Now()

// phase prints coarse timings when VERIF_DEBUG is set (never used in a verdict).
func phase(name string) {
	if os.Getenv("VERIF_DEBUG") != "" {
		fmt.Fprintf(os.Stderr, "c17: %-24s %6.1fs\n", name, time.Since(phaseT).Seconds())
	}
	phaseT = time.Now()
}

func Run(r *vf.Run) {
	imp, err := u1000.StdImporter()
	if err != nil {
		r.Inconclusive("loading std export data: %v", err)
		r.Finish(0, 0, 1, "n/a")
		return
	}
	bin := r.BuildBin("staticcheck", "honnef.co/go/tools/cmd/staticcheck", false)
	scratch := r.Scratch()
	nPerm, nRep := r.Pick(8, 20), 5
	var cases []*pcase

	// declgen packages, all inside one scratch module (so that the CLI can lint them in one go)
	nGen := r.Pick(60, 800)
	// one scratch module "example.com": unused/testdata at its root (as the repo's test helper lays it out),
	// the generated packages under dg/, a tiny package that only imports the std packages under warm/
	mod := filepath.Join(scratch, "mod")
	var tdCases []*pcase
	if err := copyTestdata(mod); err != nil {
		r.Inconclusive("copying unused/testdata: %v", err)
	} else if l, err := u1000.Load(mod, true, "./..."); err != nil {
		r.Inconclusive("loading unused/testdata: %v", err)
	} else {
		tdCases = loadedCases("testdata", l, 0)
	}
	gens := make([]*declgen.DeclPkg, nGen)
	parallel(nGen, func(i int) {
		// tests wanted: relation (iv) needs in-package and external tests
		gens[i] = declgen.DeclGen(r.Rand("declgen", i), declgen.DeclOptions{Path: fmt.Sprintf("example.com/dg/p%04d", i), Importer: imp})
	})
	genDiscard := 0
	for i, p := range gens {
		if p.Discarded {
			genDiscard++
			continue
		}
		dir := filepath.Join(mod, "dg", fmt.Sprintf("p%04d", i))
		if i%3 == 0 {
			// every third package: the declarations of its first ordinary file sit below a //line directive that maps
			// them to another .go file name (what cgo and code generators produce). The CLI reports such objects at
			// their display position, while the per-variant verdicts are keyed by the physical one (seeded C17c).
			for _, f := range p.Files {
				if f.Kind == declgen.DeclNormal {
					f.Header += fmt.Sprintf("\n\n//line mapped_%s:1000:1", f.Name)
					r.Add("declgen_files_below_a_line_directive", 1)
					break
				}
			}
		}
		if err := p.Write(dir); err != nil {
			r.Inconclusive("scratch write: %v", err)
			break
		}
		c := &pcase{label: fmt.Sprintf("declgen/%04d", i), corpus: "declgen", dir: dir, pkgPath: p.Path}
		var normal, intest, ext []u1000.File
		for _, f := range p.Files {
			uf := u1000.File{Name: filepath.Join(dir, f.Name), Src: f.Source()}
			switch f.Kind {
			case declgen.DeclNormal:
				normal = append(normal, uf)
			case declgen.DeclInTest:
				intest = append(intest, uf)
			default:
				ext = append(ext, uf)
			}
		}
		v1 := &u1000.Variant{ID: p.Path, PkgPath: p.Path, Files: normal, Importer: imp}
		c.vs = append(c.vs, v1)
		full := v1
		if len(intest) > 0 {
			full = &u1000.Variant{ID: p.Path + " [test]", PkgPath: p.Path, Files: append(append([]u1000.File{}, normal...), intest...), Importer: imp}
			c.vs = append(c.vs, full)
		}
		if len(ext) > 0 {
			c.vs = append(c.vs, &u1000.Variant{ID: p.Path + "_test", PkgPath: p.Path + "_test", Files: ext, Importer: &lazyImporter{path: p.Path, of: full, next: imp}})
		}
		cases = append(cases, c)
	}
	nDeclgen := len(cases)
	r.Set("declgen_packages", nGen)
	r.Set("declgen_discarded", genDiscard)

	cases = append(cases, tdCases...)
	if pats, err := repoPatterns(r); err != nil {
		r.Inconclusive("listing repo packages: %v", err)
	} else if l, err := u1000.Load(vf.Harness(), true, pats...); err != nil {
		r.Inconclusive("loading repo packages: %v", err)
	} else {
		cases = append(cases, loadedCases("repo", l, r.Pick(12, 60))...)
	}

	phase("setup+load")
	results := make([]*presult, len(cases))
	parallel(len(cases), func(i int) {
		np := nPerm
		if cases[i].corpus == "repo" && !r.Thorough() {
			np = 4
		}
		results[i] = evalCase(r, cases[i], i, np, nRep)
	})

	evals := 0
	nt := map[string]bool{}
	byCorpus := map[string]int{}
	refForms := map[string]int{}
	var skipped []string
	skippedGen := 0
	for i, c := range cases {
		res := results[i]
		if res.skipped != "" {
			if c.corpus == "declgen" {
				skippedGen++
			}
			if len(skipped) < 6 {
				skipped = append(skipped, c.label+": "+res.skipped)
			}
			r.Add("packages_not_evaluated_"+c.corpus, 1)
			continue
		}
		byCorpus[c.corpus]++
		evals += res.evals
		r.Add("permutations_analysed", res.perms)
		r.Add("references_added", res.refsAdded)
		r.Add("references_without_usable_form", res.refsNoForm)
		r.Add("added_reference_turned_reported_into_used", res.flipped)
		for k, n := range res.refForms {
			refForms[k] += n
		}
		for rel := range res.nontrivial {
			nt[c.label+"/"+rel] = true
		}
		for _, v := range res.viols {
			r.Add("viol "+v.key, 1)
			r.Violation(v.key, c.label+": "+v.what, v.replay)
		}
		if len(res.states) > 0 && i%7 == 0 {
			st := res.states[len(res.states)-1]
			r.Sample(map[string]any{"case": c.label, "variants": len(res.states), "reported": len(st.vd.Unused), "used": len(st.vd.Used), "quiet": len(st.vd.Quiet), "permutations": res.perms, "references_added": res.refsAdded}, 4)
		}
	}
	phase("in-process relations")
	// relation (iv)
	nCLI := nDeclgen
	if nCLI > 150 {
		// the CLI part is process-bound; the in-process relations cover all packages
		for i := 150; i < nDeclgen; i++ {
			os.RemoveAll(cases[i].dir)
		}
		nCLI = 150
	}
	// quick: the packages that have test variants (that is what the relation is about) plus a few without
	var cliCases []*pcase
	var cliResults []*presult
	plainLeft := r.Pick(6, 1<<30)
	testsLeft := r.Pick(26, 1<<30)
	pickCLI := func(i int) {
		if results[i].skipped != "" {
			return
		}
		if len(cases[i].vs) > 1 {
			if testsLeft > 0 {
				testsLeft--
				cliCases, cliResults = append(cliCases, cases[i]), append(cliResults, results[i])
			}
		} else if plainLeft > 0 {
			plainLeft--
			cliCases, cliResults = append(cliCases, cases[i]), append(cliResults, results[i])
		}
	}
	for i := nDeclgen; i < nDeclgen+len(tdCases); i++ { // testdata first: few of them have tests
		pickCLI(i)
	}
	for i := 0; i < nCLI; i++ {
		pickCLI(i)
	}
	r.Set("cli_packages", len(cliCases))
	evals += cliRelation(r, bin, mod, cliCases, cliResults, nt)
	phase("cli relation")
	r.Set("packages_by_corpus", byCorpus)
	r.Set("added_reference_forms", refForms)
	rel := map[string]int{}
	for k := range nt {
		rel[k[strings.LastIndex(k, "/")+1:]]++
	}
	r.Set("nontrivial_by_relation", rel)
	if len(skipped) > 0 {
		r.Set("not_evaluated_examples", skipped)
	}
	if (genDiscard+skippedGen)*20 > nGen {
		r.Inconclusive("declgen: %d of %d packages rejected (> 5 %%)", genDiscard+skippedGen, nGen)
	}
	r.Assume("objects are matched across runs by kind + qualified name; `_`/init declarations by a hash of their text")
	r.Assume("'used' in relation (iii) means the analyzer's Used verdict; a quiet object (owned by an unused owner) that becomes reported when its owner becomes used is not a violation")
	r.Assume("files containing //lint: or //line directives keep their declaration order (only the file order is permuted)")
	r.Finish(evals, len(nt), r.Pick(120, 1500),
		"evaluations = analyses compared against a base run (repetitions, permutations, added references) + CLI/package comparisons; distinct_nontrivial = distinct (package, relation) pairs, relation in {repeat, order, monotone, variants}, where the package had at least one reported and at least one used unexported package-level object (variants: additionally a test variant and a non-empty expected report)")
}

// lazyImporter type-checks the generated package an external test imports on first use.
type lazyImporter struct {
	path string
	of   *u1000.Variant
	next types.Importer
	once sync.Once
	pkg  *types.Package
}

func (l *lazyImporter) Import(path string) (*types.Package, error) {
	if path == l.path {
		l.once.Do(func() { l.pkg = u1000.Check(l.of, false).Pkg })
		if l.pkg != nil {
			return l.pkg, nil
		}
	}
	return l.next.Import(path)
}

func loadedCases(corpus string, l []*u1000.Loaded, objCap int) []*pcase {
	byPath := map[string]*pcase{}
	var order []string
	for _, p := range l {
		if len(p.Files) == 0 || p.HasCgo || len(p.LoadErrs) > 0 {
			continue
		}
		key := p.PkgPath
		dirKey := filepath.Dir(p.Files[0].Name)
		// p and p_test live in the same directory: one case per directory
		c := byPath[dirKey]
		if c == nil {
			c = &pcase{label: corpus + "/" + strings.TrimSuffix(key, "_test"), corpus: corpus, dir: dirKey, pkgPath: strings.TrimSuffix(key, "_test"), objCap: objCap}
			byPath[dirKey] = c
			order = append(order, dirKey)
		}
		c.vs = append(c.vs, &p.Variant)
	}
	var out []*pcase
	for _, k := range order {
		c := byPath[k]
		// plain variant first, then p [p.test], then p_test
		sort.SliceStable(c.vs, func(i, j int) bool {
			ri, rj := rank(c.vs[i]), rank(c.vs[j])
			return ri < rj
		})
		out = append(out, c)
	}
	return out
}

func rank(v *u1000.Variant) int {
	switch {
	case strings.HasSuffix(v.PkgPath, "_test"):
		return 2
	case strings.Contains(v.ID, "["):
		return 1
	}
	return 0
}

func copyTestdata(dst string) error {
	src := filepath.Join(repoDir(), "unused", "testdata", "src", "example.com")
	if err := os.MkdirAll(dst, 0o755); err != nil {
		return err
	}
	if out, err := exec.Command("cp", "-r", src+"/.", dst).CombinedOutput(); err != nil {
		return fmt.Errorf("%v: %s", err, out)
	}
	return os.WriteFile(filepath.Join(dst, "go.mod"), []byte("module example.com\n\ngo 1.26.0\n"), 0o644)
}

func repoDir() string {
	b, err := os.ReadFile(filepath.Join(vf.Harness(), "go.mod"))
	if err == nil {
		for _, line := range strings.Split(string(b), "\n") {
			if i := strings.Index(line, "honnef.co/go/tools =>"); i >= 0 {
				return strings.TrimSpace(line[i+len("honnef.co/go/tools =>"):])
			}
		}
	}
	return "/repo"
}

func repoPatterns(r *vf.Run) ([]string, error) {
	cfg := &packages.Config{Mode: packages.NeedName, Dir: vf.Harness(), Env: vf.GoEnv()}
	l, err := packages.Load(cfg, "honnef.co/go/tools/...")
	if err != nil {
		return nil, err
	}
	var all []string
	for _, p := range l {
		if !strings.Contains(p.PkgPath, "/testdata/") && !strings.Contains(p.PkgPath, "/_") {
			all = append(all, p.PkgPath)
		}
	}
	sort.Strings(all)
	rng := r.Rand("repo-sample", 0)
	rng.Shuffle(len(all), func(i, j int) { all[i], all[j] = all[j], all[i] })
	n := r.Pick(6, 40)
	if len(all) > n {
		all = all[:n]
	}
	all = append(all, "honnef.co/go/tools/unused")
	sort.Strings(all)
	return all, nil
}

func parallel(n int, f func(i int)) {
	var wg sync.WaitGroup
	ch := make(chan int)
	w := runtime.GOMAXPROCS(0)
	if w > 16 {
		w = 16
	}
	// VERIF_WORKERS throttles the pool (performance only; results are collected by index)
	if v, err := strconv.Atoi(os.Getenv("VERIF_WORKERS")); err == nil && v > 0 && v < w {
		w = v
	}
	for k := 0; k < w; k++ {
		wg.Add(1)
		go func() {
			defer wg.Done()
			for i := range ch {
				f(i)
			}
		}()
	}
	for i := 0; i < n; i++ {
		ch <- i
	}
	close(ch)
	wg.Wait()
}
