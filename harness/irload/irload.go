// Package irload builds go/ir from source text through the exported API.
package irload

import (
	"fmt"
	"go/ast"
	"go/importer"
	"go/parser"
	"go/token"
	"go/types"
	"sort"

	"honnef.co/go/tools/go/ir"
	"honnef.co/go/tools/go/ir/irutil"
)

type Built struct {
	Fset  *token.FileSet
	Files []*ast.File
	Pkg   *ir.Package
	Info  *types.Info
}

var defaultImporter = importer.ForCompiler(token.NewFileSet(), "source", nil)

// Source type-checks and builds one package given as file name -> source.
func Source(path string, files map[string]string, mode ir.BuilderMode) (*Built, error) {
	fset := token.NewFileSet()
	var names []string
	for n := range files {
		names = append(names, n)
	}
	sort.Strings(names)
	var fs []*ast.File
	for _, n := range names {
		f, err := parser.ParseFile(fset, n, files[n], parser.ParseComments|parser.SkipObjectResolution)
		if err != nil {
			return nil, fmt.Errorf("parse: %w", err)
		}
		fs = append(fs, f)
	}
	tc := &types.Config{Importer: defaultImporter, GoVersion: "go1.26"}
	pkg := types.NewPackage(path, fs[0].Name.Name)
	p, info, err := irutil.BuildPackage(tc, fset, pkg, fs, mode)
	if err != nil {
		return nil, fmt.Errorf("typecheck/build: %w", err)
	}
	return &Built{fset, fs, p, info}, nil
}

// Functions returns every function of the package including anonymous ones and methods, in a deterministic order.
func Functions(p *ir.Package) []*ir.Function {
	var out []*ir.Function
	seen := map[*ir.Function]bool{}
	var add func(f *ir.Function)
	add = func(f *ir.Function) {
		if f == nil || seen[f] {
			return
		}
		seen[f] = true
		out = append(out, f)
		for _, a := range f.AnonFuncs {
			add(a)
		}
	}
	for f := range irutil.AllFunctions(p.Prog) {
		if f.Pkg == p || f.Pkg == nil {
			_ = f
		}
	}
	var names []string
	for n := range p.Members {
		names = append(names, n)
	}
	sort.Strings(names)
	for _, n := range names {
		switch m := p.Members[n].(type) {
		case *ir.Function:
			add(m)
		case *ir.Type:
			for _, T := range []types.Type{m.Type(), types.NewPointer(m.Type())} {
				ms := p.Prog.MethodSets.MethodSet(T)
				for i := 0; i < ms.Len(); i++ {
					add(p.Prog.MethodValue(ms.At(i)))
				}
			}
		}
	}
	return out
}
