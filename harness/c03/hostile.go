package c03

import (
	"fmt"
	"math/rand/v2"
	"strings"
)

// HostileFiles returns a module whose packages are all accepted by the Go
// toolchain but sit at the edges of what the loader and the runner handle:
// a source file above the loader's size limit (and a package that imports
// it), assembly-backed declarations, cgo, embed, build-constraint-excluded
// files with broken bodies, BOM / CRLF sources, inline //line directives,
// packages that consist only of tests, external test packages, deep nesting
// and very long lines. rng varies sizes and which optional shapes appear.
func HostileFiles(rng *rand.Rand) map[string]string {
	f := map[string]string{}

	// --- oversized file: loader.MaxFileSize is 50 MiB; padding is a comment
	pad := 50<<20 + 1 + rng.IntN(4096)
	var big strings.Builder
	big.Grow(pad + 200)
	big.WriteString("package big\n\n// V is exported.\nvar V = 1\n\nfunc F(x int) bool { return x == x }\n\n/*\n")
	line := strings.Repeat("x", 1023) + "\n"
	for big.Len() < pad {
		big.WriteString(line)
	}
	big.WriteString("*/\n")
	f["big/big.go"] = big.String()
	f["biguser/u.go"] = "package biguser\n\nimport \"example.com/hostile/big\"\n\nfunc G(x int) bool {\n\tif x == big.V {\n\t\treturn true\n\t}\n\treturn false\n}\n"
	f["alone/a.go"] = "package alone\n\nfunc H(x int) bool {\n\tif x > 1 {\n\t\treturn true\n\t}\n\treturn false\n}\n"

	// --- assembly-backed declaration
	f["asm/asm.go"] = "package asm\n\n// Add is implemented in assembly.\nfunc Add(a, b int64) int64\n\nfunc Use() int64 { return Add(1, 2) }\n"
	f["asm/asm_amd64.s"] = "#include \"textflag.h\"\n\nTEXT ·Add(SB), NOSPLIT, $0-24\n\tMOVQ a+0(FP), AX\n\tADDQ b+8(FP), AX\n\tMOVQ AX, ret+16(FP)\n\tRET\n"

	// --- cgo
	f["cg/cg.go"] = "package cg\n\n/*\nstatic int twice(int x) { return 2 * x; }\ntypedef struct { int a; char b; } pair;\n*/\nimport \"C\"\n\nimport \"unsafe\"\n\nfunc Twice(x int) int { return int(C.twice(C.int(x))) }\n\nfunc Pair() int {\n\tvar p C.pair\n\tp.a = 3\n\treturn int(p.a) + int(unsafe.Sizeof(p))\n}\n"

	// --- embed
	f["emb/emb.go"] = "package emb\n\nimport (\n\t\"embed\"\n\t_ \"embed\"\n)\n\n//go:embed data.txt\nvar Data string\n\n//go:embed data.txt sub\nvar FS embed.FS\n\n//go:embed data.txt\nvar Raw []byte\n"
	f["emb/data.txt"] = "hello\n"
	f["emb/sub/x.txt"] = "x\n"

	// --- files excluded by constraints whose bodies do not compile
	f["excl/ok.go"] = "package excl\n\nfunc OK() int { return 1 }\n"
	f["excl/never.go"] = "//go:build never_set_tag\n\npackage excl\n\nfunc Broken() int { return undefinedName + \"x\" }\n"
	f["excl/x_windows.go"] = "package excl\n\nimport \"syscall\"\n\nfunc Win() { syscall.NoSuchThing() }\n"
	f["excl/ign.go"] = "//go:build ignore\n\npackage main\n\nfunc main() { this does not parse }\n"

	// --- BOM, CRLF, form feeds, unicode identifiers
	f["bom/bom.go"] = "\ufeffpackage bom\n\nfunc F(x int) bool {\n\tif x > 0 {\n\t\treturn true\n\t}\n\treturn false\n}\n"
	f["bom/crlf.go"] = strings.ReplaceAll("package bom\n\n//lint:ignore S1008 on a CRLF line\nfunc G(x int) bool {\n\tif x > 0 {\n\t\treturn true\n\t}\n\treturn false\n}\n\nconst S = `a\nb`\n", "\n", "\r\n")
	f["bom/uni.go"] = "package bom\n\ntype Ünï struct{ ß int }\n\nfunc (ü Ünï) Größe() int { return ü.ß }\n\nvar 世界 = Ünï{1}.Größe()\n\nconst π = 3.14\n"

	// --- inline and odd //line directives
	f["linedir/l.go"] = "package linedir\n\n//line /nonexistent/dir/gen.y:10\nfunc A(x int) bool { return x == x }\n\n//line :100\nfunc B(x int) bool { return x == x }\n\nfunc C(x int) bool { return /*line other.go:7:3*/ x == x }\n\n//line l.go:1:1\nfunc D(x int) bool { return x == x }\n\n//line ../up.go:5\nfunc E(x int) bool {\n\tif x > 0 {\n\t\treturn true\n\t}\n\treturn false\n}\n"

	// --- only tests / external tests / test helpers that import the package under test
	f["onlytests/a_test.go"] = "package onlytests\n\nimport \"testing\"\n\nfunc TestA(t *testing.T) {\n\tif 1 == 1 {\n\t\tt.Log(\"x\")\n\t}\n}\n"
	f["xt/xt.go"] = "package xt\n\nfunc unexported() int { return 1 }\n\nfunc Exported() int { return unexported() }\n\ntype hidden struct{ f int }\n"
	f["xt/export_test.go"] = "package xt\n\nvar Unexported = unexported\n\nfunc (h hidden) F() int { return h.f }\n\ntype Hidden = hidden\n"
	f["xt/xt_test.go"] = "package xt_test\n\nimport (\n\t\"testing\"\n\n\t\"example.com/hostile/xt\"\n)\n\nfunc TestX(t *testing.T) {\n\tif xt.Unexported() != xt.Exported() {\n\t\tt.Fatal()\n\t}\n\t_ = xt.Hidden{}.F()\n}\n\nfunc BenchmarkX(b *testing.B) {\n\tfor i := 0; i < b.N; i++ {\n\t}\n}\n\nfunc FuzzX(f *testing.F) { f.Fuzz(func(t *testing.T, s string) {}) }\n\nfunc ExampleExported() {\n\t// Output:\n}\n"

	// --- main package, several init functions, dot and blank imports
	f["cmdm/main.go"] = "package main\n\nimport (\n\t. \"fmt\"\n\t_ \"os\"\n\t\"example.com/hostile/alone\"\n)\n\nfunc init() {}\nfunc init() {}\n\nfunc main() { Println(alone.H(1)) }\n"

	// --- deep nesting and long lines
	depth := 200 + rng.IntN(300)
	f["deep/deep.go"] = "package deep\n\nfunc Par(x int) int { return " + strings.Repeat("(", depth) + "x" + strings.Repeat(")", depth) + " }\n\n" +
		"func Sum(x int) int { return x" + strings.Repeat(" + x", 3000+rng.IntN(2000)) + " }\n\n" +
		"func Blocks(x int) int {\n" + strings.Repeat("{\n", depth) + "x++\n" + strings.Repeat("}\n", depth) + "return x\n}\n\n" +
		"func Ifs(x int) int {\n" + nestIfs(80+rng.IntN(60)) + "\treturn x\n}\n\n" +
		"var Lit = []int{" + strings.Repeat("1, ", 20000+rng.IntN(10000)) + "}\n\n" +
		"var Str = \"" + strings.Repeat("a", 100000+rng.IntN(1000)) + "\"\n"

	// --- empty-ish packages
	f["empty/doc.go"] = "// Package empty has no declarations.\npackage empty\n"
	f["empty2/a.go"] = "package empty2\n"
	f["empty2/b.go"] = "package empty2\n\nimport _ \"unsafe\"\n"

	// --- linkname / pragma soup (bodyless function needs an empty .s file)
	f["prag/p.go"] = "package prag\n\nimport _ \"unsafe\"\n\n//go:linkname nanotime runtime.nanotime\nfunc nanotime() int64\n\n//go:noinline\n//go:nosplit\nfunc F() int64 { return nanotime() }\n\n//go:generate echo hello\n\n//go:norace\nfunc G() {}\n"
	f["prag/empty.s"] = "\n"
	return f
}

func nestIfs(n int) string {
	var b strings.Builder
	for i := 0; i < n; i++ {
		fmt.Fprintf(&b, "%sif x > %d {\n", strings.Repeat("\t", i+1), i)
	}
	fmt.Fprintf(&b, "%sx++\n", strings.Repeat("\t", n+1))
	for i := n - 1; i >= 0; i-- {
		fmt.Fprintf(&b, "%s}\n", strings.Repeat("\t", i+1))
	}
	return b.String()
}
