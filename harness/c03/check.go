// Package c03: analysis is total — no crash or spurious failure on buildable code.
package c03

import (
	"encoding/json"
	"fmt"
	"os"
	"os/exec"
	"path/filepath"
	"regexp"
	"sort"
	"strings"
	"sync"

	"verif/corpus"
	"verif/lintrun"
	"verif/syngen"
	"verif/vf"
)

type unit struct {
	name     string
	dir      string
	patterns []string
	gen      []syngen.Package // generated packages of this unit (for shrinking)
	genDir   string
}

var addrRe = regexp.MustCompile(`0x[0-9a-f]+|\b[0-9]{3,}\b`)

// crashKey extracts a stable class from a crash's stderr.
func crashKey(stderr string) string {
	for _, l := range strings.Split(stderr, "\n") {
		for _, p := range []string{"panic: ", "fatal error: "} {
			if i := strings.Index(l, p); i >= 0 {
				msg := l[i+len(p):]
				msg = addrRe.ReplaceAllString(msg, "N")
				if len(msg) > 100 {
					msg = msg[:100]
				}
				// which analyzer? look for the first frame in an analyzer package
				where := ""
				for _, fl := range strings.Split(stderr, "\n") {
					if strings.HasPrefix(fl, "honnef.co/go/tools/") && !strings.Contains(fl, "lintcmd/runner") {
						where = strings.TrimPrefix(fl, "honnef.co/go/tools/")
						if j := strings.IndexByte(where, '('); j > 0 {
							where = where[:j]
						}
						break
					}
				}
				return "crash:" + where + ":" + strings.TrimSpace(msg)
			}
		}
	}
	if strings.Contains(stderr, "internal error") {
		return "internal-error"
	}
	return "abnormal-exit"
}

type cover struct {
	AST map[string]int `json:"ast"`
	IR  map[string]int `json:"ir"`
}

type verdict struct {
	ok        bool
	key, what string
	stderr    string
	problems  int
	cov       cover
	pkgs      int
	killed    bool
}

func lint(bin, cache string, u unit) verdict {
	args := append([]string{"-checks", "all", "-debug.run-quickfix-analyzers", "-f", "json"}, u.patterns...)
	res := lintrun.Cmd{Bin: bin, Dir: u.dir, Env: []string{"STATICCHECK_CACHE=" + cache}, Args: args, Watchdog: 2400}.Run()
	v := verdict{ok: true, cov: cover{map[string]int{}, map[string]int{}}}
	if res.Killed {
		v.killed = true
		return v
	}
	if res.Exit != 0 && res.Exit != 1 || res.Signal != "" || strings.Contains(string(res.Stderr), "panic:") || strings.Contains(string(res.Stderr), "fatal error:") || strings.Contains(string(res.Stderr), "internal error") {
		v.ok = false
		v.key = crashKey(string(res.Stderr))
		v.what = fmt.Sprintf("exit status %d %s", res.Exit, res.Signal)
		v.stderr = tail(string(res.Stderr), 4000)
		return v
	}
	ps, err := res.Problems()
	if err != nil {
		v.ok = false
		v.key, v.what = "unparsable-output", err.Error()
		return v
	}
	seenPkg := map[string]bool{}
	for _, p := range ps {
		switch p.Code {
		case "compile", "config":
			v.ok = false
			v.key = p.Code + "-problem-on-buildable-package"
			v.what = fmt.Sprintf("%s:%d: %s", p.Location.File, p.Location.Line, p.Message)
		case "VFY9005":
			var c cover
			if json.Unmarshal([]byte(strings.TrimPrefix(p.Message, "cover ")), &c) == nil {
				for k, n := range c.AST {
					v.cov.AST[k] += n
				}
				for k, n := range c.IR {
					v.cov.IR[k] += n
				}
			}
			seenPkg[filepath.Dir(p.Location.File)] = true
		case "VFY9001", "VFY9002", "VFY9003", "VFY9004":
		default:
			v.problems++
		}
	}
	v.pkgs = len(seenPkg)
	return v
}

func tail(s string, n int) string {
	if len(s) > n {
		return s[len(s)-n:]
	}
	return s
}

func goBuildOK(dir string, patterns ...string) (bool, string) {
	cmd := exec.Command("go", append([]string{"build"}, patterns...)...)
	cmd.Dir = dir
	cmd.Env = vf.GoEnv()
	out, err := cmd.CombinedOutput()
	return err == nil, string(out)
}

func Run(r *vf.Run) {
	bin := r.BuildBin("vlint", "./cmd/vlint", false)
	cache := filepath.Join(r.Scratch(), "cache")
	os.MkdirAll(cache, 0o755)
	var units []unit
	discards := 0
	// 1. generated syntax-coverage modules
	nMods := r.Pick(10, 150)
	for i := 0; i < nMods; i++ {
		rng := r.Rand("syngen", i)
		dir := filepath.Join(r.Scratch(), fmt.Sprintf("gen%d", i))
		files := map[string]string{}
		var pkgs []syngen.Package
		for k := 0; k < 3; k++ {
			p := syngen.Generate(rng, fmt.Sprintf("p%d", k), 40)
			pkgs = append(pkgs, p)
			files[fmt.Sprintf("p%d/p.go", k)] = p.Source(nil)
		}
		corpus.WriteModule(dir, "example.com/gen", "1.26", files)
		if ok, out := goBuildOK(dir, "./..."); !ok {
			discards++
			r.Sample(map[string]any{"generator_discard": tail(out, 300)}, 10)
			continue
		}
		units = append(units, unit{name: fmt.Sprintf("syngen#%d", i), dir: dir, patterns: []string{"./..."}, gen: pkgs, genDir: dir})
	}
	// 2. standard library
	std := []string{"strings", "sort", "strconv", "bufio", "bytes", "fmt", "errors", "sync", "io", "os", "time", "unicode/utf8", "container/heap", "container/list", "container/ring",
		"text/template", "text/template/parse", "encoding/json", "encoding/binary", "encoding/xml", "go/parser", "go/printer", "go/scanner", "go/token", "regexp", "regexp/syntax", "math/big", "math/rand/v2", "net/url", "slices", "maps", "iter", "context",
		"sync/atomic", "reflect", "path/filepath", "io/fs", "os/exec", "log", "log/slog", "flag", "hash/crc32", "crypto/sha256", "compress/flate", "archive/tar", "unique", "weak", "runtime/debug", "text/tabwriter", "html/template", "net/netip", "testing/fstest", "database/sql", "expvar", "mime/multipart", "image/png", "index/suffixarray"}
	if r.Thorough() {
		units = append(units, unit{name: "std", dir: vf.Repo(), patterns: []string{"std"}})
		units = append(units, unit{name: "cmd", dir: vf.Repo(), patterns: []string{"cmd/..."}})
	} else {
		for i := 0; i < len(std); i += 12 {
			part := std[i:min(len(std), i+12)]
			units = append(units, unit{name: "std:" + strings.Join(part, ","), dir: vf.Repo(), patterns: part})
		}
	}
	// 3. the repository itself
	if r.Thorough() {
		units = append(units, unit{name: "repo", dir: vf.Repo(), patterns: []string{"./..."}})
	} else {
		units = append(units, unit{name: "repo-slice", dir: vf.Repo(), patterns: []string{"./pattern", "./config", "./unused", "./lintcmd/...", "./analysis/...", "./go/ir/...", "./staticcheck/sa4023", "./staticcheck/sa1019", "./simple/s1008"}})
	}
	// 4. analyzer testdata (copied to scratch with the synthetic go.mod the repo's helper uses)
	tds := corpus.TestdataDirs(vf.Repo())
	if !r.Thorough() {
		rng := r.Rand("testdata", 0)
		rng.Shuffle(len(tds), func(i, j int) { tds[i], tds[j] = tds[j], tds[i] })
		tds = tds[:min(len(tds), 25)]
	}
	skippedTD := 0
	for i, td := range tds {
		dst := filepath.Join(r.Scratch(), fmt.Sprintf("td%d", i))
		if out, err := exec.Command("cp", "-r", td[0], dst).CombinedOutput(); err != nil {
			r.Inconclusive("cp: %v %s", err, out)
			continue
		}
		gov := td[1]
		if gov == "1.0" {
			gov = "1.16" // a go.mod cannot say less; language features are what matters for "buildable"
		}
		os.WriteFile(filepath.Join(dst, "go.mod"), []byte("module example.com\n\ngo "+gov+"\n"), 0o644)
		// only packages the toolchain accepts are under obligation
		listCmd := exec.Command("go", "list", "-e", "-f", "{{.ImportPath}}", "./...")
		listCmd.Dir = dst
		listCmd.Env = vf.GoEnv()
		lo, _ := listCmd.Output()
		var okPkgs []string
		for _, p := range strings.Fields(string(lo)) {
			if ok, _ := goBuildOK(dst, p); ok {
				// tests must compile too, because the linter analyses test variants
				vet := exec.Command("go", "vet", "-vettool=/bin/true", p)
				vet.Dir = dst
				vet.Env = vf.GoEnv()
				if tv := exec.Command("go", "test", "-run", "^$", "-count=1", "-vet=off", p); true {
					tv.Dir = dst
					tv.Env = vf.GoEnv()
					if err := tv.Run(); err != nil {
						skippedTD++
						continue
					}
				}
				okPkgs = append(okPkgs, p)
			} else {
				skippedTD++
			}
		}
		if len(okPkgs) > 0 {
			units = append(units, unit{name: "testdata:" + strings.TrimPrefix(td[0], vf.Repo()+"/"), dir: dst, patterns: okPkgs})
		}
	}

	type result struct {
		u unit
		v verdict
	}
	results := make([]result, len(units))
	var wg sync.WaitGroup
	sem := make(chan struct{}, 5)
	for i, u := range units {
		wg.Add(1)
		go func(i int, u unit) {
			defer wg.Done()
			sem <- struct{}{}
			defer func() { <-sem }()
			results[i] = result{u, lint(bin, cache, u)}
		}(i, u)
	}
	wg.Wait()

	total := cover{map[string]int{}, map[string]int{}}
	evals, pkgs := 0, 0
	for _, res := range results {
		if res.v.killed {
			r.Inconclusive("watchdog fired on %s", res.u.name)
			continue
		}
		evals++
		pkgs += res.v.pkgs
		for k, n := range res.v.cov.AST {
			total.AST[k] += n
		}
		for k, n := range res.v.cov.IR {
			total.IR[k] += n
		}
		if res.v.ok {
			continue
		}
		// isolate: which single package, and for generated code which functions
		rep := map[string]any{"unit": res.u.name, "dir_or_patterns": res.u.patterns, "what": res.v.what, "stderr": res.v.stderr}
		if res.u.gen != nil {
			minimal := shrink(bin, cache, res.u, res.v.key)
			rep["minimal_source"] = minimal
		} else {
			var culprit []string
			pats := res.u.patterns
			if len(pats) == 1 && (strings.HasSuffix(pats[0], "...") || pats[0] == "std") {
				lc := exec.Command("go", "list", pats[0])
				lc.Dir = res.u.dir
				lc.Env = vf.GoEnv()
				if lo, err := lc.Output(); err == nil {
					pats = strings.Fields(string(lo))
				}
			}
			for _, p := range pats {
				v := lint(bin, cache, unit{dir: res.u.dir, patterns: []string{p}})
				if !v.ok && !v.killed {
					culprit = append(culprit, p+" ["+v.key+"]")
					if len(culprit) >= 5 {
						break
					}
				}
			}
			rep["failing_packages"] = culprit
		}
		r.Violation(res.v.key, fmt.Sprintf("%s: %s", res.u.name, res.v.what), rep)
	}
	r.Set("units", evals)
	r.Set("packages_analysed", pkgs)
	r.Set("generator_discards", discards)
	r.Set("testdata_packages_not_buildable_skipped", skippedTD)
	r.Set("ast_node_kinds", total.AST)
	r.Set("ir_instruction_kinds_and_builtins", total.IR)
	var missing []string
	for _, k := range []string{"Alloc", "BinOp", "Call", "ChangeInterface", "ChangeType", "CompositeValue", "ConstantSwitch", "Convert", "Defer", "Extract", "Field", "FieldAddr", "Go", "If", "Index", "IndexAddr", "Jump", "Load", "MakeChan", "MakeClosure", "MakeInterface", "MakeMap", "MakeSlice", "MapLookup", "MapUpdate", "Next", "Panic", "Phi", "Range", "Recv", "Return", "RunDefers", "Select", "Send", "Slice", "SliceToArray", "SliceToArrayPointer", "Store", "StringLookup", "TypeAssert", "TypeSwitch", "UnOp", "Unreachable",
		"builtin:recover", "builtin:append", "builtin:len", "builtin:cap", "builtin:copy", "builtin:delete", "builtin:clear", "builtin:min", "builtin:max", "builtin:close", "builtin:print", "builtin:println", "builtin:real", "builtin:imag", "builtin:complex"} {
		if total.IR[k] == 0 {
			missing = append(missing, k)
		}
	}
	sort.Strings(missing)
	r.Set("ir_kinds_never_seen", missing)
	if len(missing) > 4 {
		r.Inconclusive("the workload did not reach these IR kinds/builtins: %v", missing)
	}
	if discards*10 > nMods {
		r.Inconclusive("%d of %d generated modules rejected by go build", discards, nMods)
	}
	r.Sample(map[string]any{"example_generated_function": syngen.Generate(r.Rand("syngen", 0), "p", 6).Funcs[0].Src}, 1)
	r.Sample(map[string]any{"units": func() []string {
		var n []string
		for _, u := range units[:min(len(units), 8)] {
			n = append(n, u.name)
		}
		return n
	}()}, 2)
	r.Assume("precondition 'the Go toolchain compiles the package' is established with go build (and go test -run ^$ for testdata trees); all analyzers incl. quickfix run (-checks all -debug.run-quickfix-analyzers)")
	r.Finish(pkgs, len(total.IR)+len(total.AST), 60,
		"units = generated syntax-coverage modules (every builtin in every result position over all pointer-like result types, all statement forms, generics, range-over-func, select, goto...), slices of std, of the repository and of the analyzers' testdata (everything in the thorough tier), each linted by the real pipeline with all analyzers; oracle = exit status in {0,1}, no panic/fatal/internal error on stderr, no compile/config problem. evaluations = packages analysed; distinct_nontrivial = distinct AST node kinds + IR instruction kinds/builtins the analyzers were run on")
}

// shrink finds a small subset of generated functions that still triggers the same failure.
func shrink(bin, cache string, u unit, key string) string {
	for pi, p := range u.gen {
		keep := map[int]bool{}
		for i := range p.Funcs {
			keep[i] = true
		}
		dir := u.genDir + fmt.Sprintf("-shrink%d", pi)
		try := func(k map[int]bool) bool {
			corpus.WriteModule(dir, "example.com/gen", "1.26", map[string]string{"p/p.go": p.Source(k)})
			if ok, _ := goBuildOK(dir, "./..."); !ok {
				return false
			}
			v := lint(bin, cache, unit{dir: dir, patterns: []string{"./..."}})
			return !v.ok && v.key == key
		}
		if !try(keep) {
			continue
		}
		// greedy one-at-a-time removal in chunks
		for chunk := len(p.Funcs) / 2; chunk >= 1; chunk /= 2 {
			for start := 0; start < len(p.Funcs); start += chunk {
				k2 := map[int]bool{}
				for i := range keep {
					k2[i] = true
				}
				removed := false
				for i := start; i < start+chunk && i < len(p.Funcs); i++ {
					if k2[i] {
						delete(k2, i)
						removed = true
					}
				}
				if removed && try(k2) {
					keep = k2
				}
			}
		}
		var b strings.Builder
		for i, f := range p.Funcs {
			if keep[i] {
				b.WriteString(f.Src + "\n\n")
			}
		}
		os.RemoveAll(dir)
		return b.String()
	}
	return "(could not isolate)"
}
