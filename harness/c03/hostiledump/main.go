// Command hostiledump writes the C03 hostile workspace to a directory (debugging aid).
package main

import (
	"math/rand/v2"
	"os"

	"verif/c03"
	"verif/corpus"
)

func main() {
	corpus.WriteModule(os.Args[1], "example.com/hostile", "1.26", c03.HostileFiles(rand.New(rand.NewPCG(1, 2))))
}
