// Package c20: version-restricted problems respect the effective Go version.
package c20

import (
	"fmt"
	"go/version"
	"os"
	"path/filepath"
	"regexp"
	"sort"
	"strings"
	"sync"
	"sync/atomic"

	"verif/lintrun"
	"verif/monitors"
	"verif/vf"
)

// (go 1.24/1.25 modules would make the go command on PATH (1.23) try to download a toolchain; 1.26 is cached)
var modVersions = []string{"1.16", "1.18", "1.20", "1.21", "1.22", "1.23", "1.26"}

// (no tag above go1.23: the go command on PATH is go1.23 and would exclude the file for modules that do not switch toolchains)
var fileTags = []string{"", "go1.17", "go1.19", "go1.20", "go1.21", "go1.22", "go1.23"}
var goFlags = []string{"module", "1.17", "1.18", "1.19", "1.20", "1.21", "1.22", "1.23", "1.24", "1.25", "1.26"}

func fileName(tag string) string {
	if tag == "" {
		return "untagged.go"
	}
	return "tag_" + strings.ReplaceAll(tag, ".", "_") + ".go"
}

func writeModule(dir, path, gov string, replace string) {
	os.MkdirAll(filepath.Join(dir, "p"), 0o755)
	mod := "module " + path + "\n\ngo " + gov + "\n"
	if replace != "" {
		mod += "\nrequire example.com/dep v0.0.0\n\nreplace example.com/dep => " + replace + "\n"
	}
	os.WriteFile(filepath.Join(dir, "go.mod"), []byte(mod), 0o644)
	for _, t := range fileTags {
		src := ""
		if t != "" {
			src = "//go:build " + t + "\n\n"
		}
		src += "package p\n\n// V" + strings.NewReplacer(".", "", "go", "").Replace(t) + " is a variable.\nvar V" + strings.NewReplacer(".", "", "go", "").Replace(t) + " = 1\n"
		os.WriteFile(filepath.Join(dir, "p", fileName(t)), []byte(src), 0o644)
	}
}

func maxV(a, b string) string {
	if version.Compare(a, b) < 0 {
		return b
	}
	return a
}

// model of the effective versions (Oracle B): base = -go flag, or the go
// directive of the module the package belongs to; a file's go1.N build
// constraint sets the language version to max(N, go1.21) (the toolchain's
// rule, which staticcheck documents it follows), and the standard-library
// version to N for bases before go1.21, to max(N, base) from go1.21 on.
func model(modGo, flag, tag string) (lang, std string) {
	base := "go" + modGo
	if flag != "module" {
		base = "go" + flag
	}
	if tag == "" {
		return base, base
	}
	lang = maxV(tag, "go1.21")
	if version.Compare(base, "go1.21") < 0 {
		std = tag
	} else {
		std = maxV(tag, base)
	}
	return lang, std
}

var effRe = regexp.MustCompile(`^effective lang=(\S*) stdlib=(\S*)$`)

type cfg struct {
	mod, dep, flag string
}

type fileObs struct {
	lang, std string
	bounds    map[string]bool // "minlang go1.20" present
}

func Run(r *vf.Run) {
	bin := r.BuildBin("vlint", "./cmd/vlint", false)
	var cfgs []cfg
	for i, m := range modVersions {
		for j, f := range goFlags {
			// the dependency must not require a newer go than the main module, or the go command rewrites the main go.mod
			cfgs = append(cfgs, cfg{m, modVersions[(i+j)%(i+1)], f})
		}
	}
	exhaustive := true
	if !r.Thorough() {
		// the full grid is small enough for the quick tier too; keep every 1st..: all
	}
	var sharedCacheRuns atomic.Int64
	type res struct {
		c       cfg
		files   map[string]*fileObs // "<pkgdir>/<file>"
		err     string
		outcome lintrun.Result
	}
	results := make([]res, len(cfgs))
	// Configurations that differ only in the -go flag are run one after the other in the
	// SAME directory on the SAME cache (in a seeded order), as a user switching -go would:
	// what one run stored must not leak into a run with another target version.
	groups := map[string][]int{}
	var groupKeys []string
	for i, c := range cfgs {
		k := c.mod + "/" + c.dep
		if groups[k] == nil {
			groupKeys = append(groupKeys, k)
		}
		groups[k] = append(groups[k], i)
	}
	var wg sync.WaitGroup
	sem := make(chan struct{}, 10)
	runOne := func(i int, c cfg, root string) {
		{
			args := []string{"-verif.only-monitors", "-checks", "VFY9001", "-f", "json"}
			if c.flag != "module" {
				args = append(args, "-go", c.flag)
			}
			args = append(args, "./...", "example.com/dep/p")
			out := lintrun.Cmd{Bin: bin, Dir: filepath.Join(root, "main"), Env: []string{"STATICCHECK_CACHE=" + filepath.Join(root, "cache")}, Args: args}.Run()
			rs := res{c: c, files: map[string]*fileObs{}, outcome: out}
			ps, err := out.Problems()
			if err != nil || out.Killed || out.Exit > 1 {
				rs.err = fmt.Sprintf("exit=%d err=%v stderr=%s", out.Exit, err, out.Stderr)
			}
			for _, p := range ps {
				if p.Code != "VFY9001" {
					if p.Code == "compile" || p.Code == "config" {
						rs.err = p.Code + ": " + p.Message
					}
					continue
				}
				rel, _ := filepath.Rel(root, p.Location.File)
				fo := rs.files[rel]
				if fo == nil {
					fo = &fileObs{bounds: map[string]bool{}}
					rs.files[rel] = fo
				}
				if m := effRe.FindStringSubmatch(p.Message); m != nil {
					fo.lang, fo.std = m[1], m[2]
				} else if strings.HasPrefix(p.Message, "bound ") {
					fo.bounds[strings.TrimPrefix(p.Message, "bound ")] = true
				}
			}
			if len(rs.files) == 0 && rs.err == "" {
				rs.err = fmt.Sprintf("no probe output at all (exit=%d): %s", out.Exit, out.Stderr)
			}
			results[i] = rs
		}
	}
	for gi, k := range groupKeys {
		wg.Add(1)
		go func(gi int, idx []int) {
			defer wg.Done()
			sem <- struct{}{}
			defer func() { <-sem }()
			root := filepath.Join(r.Scratch(), fmt.Sprintf("g%d", gi))
			c0 := cfgs[idx[0]]
			writeModule(filepath.Join(root, "main"), "example.com/main", c0.mod, "../dep")
			writeModule(filepath.Join(root, "dep"), "example.com/dep", c0.dep, "")
			// the main module must import the dependency for it to be loadable
			os.WriteFile(filepath.Join(root, "main", "p", "imp.go"), []byte("package p\n\nimport \"example.com/dep/p\"\n\n// W uses the dependency.\nvar W = p.V\n"), 0o644)
			order := append([]int(nil), idx...)
			rng := r.Rand("flag-order", gi)
			rng.Shuffle(len(order), func(a, b int) { order[a], order[b] = order[b], order[a] })
			for _, i := range order {
				runOne(i, cfgs[i], root)
			}
			sharedCacheRuns.Add(int64(len(order)))
			if os.Getenv("VERIF_KEEP") == "" {
				os.RemoveAll(root)
			}
		}(gi, groups[k])
	}
	wg.Wait()
	evals, nontrivial := 0, 0
	distinctEff := map[string]bool{}
	boundChecks := 0
	for _, rs := range results {
		if rs.err != "" {
			r.Inconclusive("config %+v: %s", rs.c, rs.err)
			continue
		}
		for _, which := range []string{"main", "dep"} {
			modGo := rs.c.mod
			if which == "dep" {
				modGo = rs.c.dep
			}
			for _, tag := range fileTags {
				key := filepath.Join(which, "p", fileName(tag))
				fo := rs.files[key]
				evals++
				desc := map[string]any{"module_go": modGo, "go_flag": rs.c.flag, "file_tag": tag, "module": which}
				if fo == nil || fo.lang == "" {
					r.Violation("no-observation", fmt.Sprintf("no version probe output for %s", key), desc)
					continue
				}
				desc["effective_lang"], desc["effective_stdlib"] = fo.lang, fo.std
				distinctEff[fo.lang+"/"+fo.std] = true
				// Oracle A: every bounded problem is present iff the effective version is inside the bound
				for _, v := range monitors.Thresholds {
					want := map[string]bool{
						"minlang " + v: version.Compare(v, fo.lang) <= 0,
						"maxlang " + v: version.Compare(v, fo.lang) >= 0,
						"minstd " + v:  version.Compare(v, fo.std) <= 0,
						"maxstd " + v:  version.Compare(v, fo.std) >= 0,
					}
					names := make([]string, 0, 4)
					for k := range want {
						names = append(names, k)
					}
					sort.Strings(names)
					for _, k := range names {
						boundChecks++
						if fo.bounds[k] != want[k] {
							kind := strings.Fields(k)[0]
							rel := "below"
							if version.Compare(v, map[bool]string{true: fo.lang, false: fo.std}[strings.HasSuffix(kind, "lang")]) == 0 {
								rel = "at"
							} else if version.Compare(v, map[bool]string{true: fo.lang, false: fo.std}[strings.HasSuffix(kind, "lang")]) > 0 {
								rel = "above"
							}
							d := map[string]any{"bound": k, "reported": fo.bounds[k], "expected": want[k]}
							for kk, vv := range desc {
								d[kk] = vv
							}
							r.Violation("bound-filter-wrong:"+kind+":threshold-"+rel+"-effective:reported="+fmt.Sprint(fo.bounds[k]),
								fmt.Sprintf("problem restricted to %s was reported=%v with effective lang=%s stdlib=%s", k, fo.bounds[k], fo.lang, fo.std), d)
						}
					}
				}
				// Oracle B: effective versions follow go directive / build constraint / -go
				wl, ws := model(modGo, rs.c.flag, tag)
				if fo.lang != wl {
					r.Violation(fmt.Sprintf("effective-language-version-wrong:tagged=%v:flag=%v", tag != "", rs.c.flag != "module"),
						fmt.Sprintf("language version %s, expected %s", fo.lang, wl), desc)
				}
				if fo.std != ws {
					r.Violation(fmt.Sprintf("effective-stdlib-version-wrong:tagged=%v:flag=%v", tag != "", rs.c.flag != "module"),
						fmt.Sprintf("stdlib version %s, expected %s", fo.std, ws), desc)
				}
				if tag != "" && (wl != ws || rs.c.flag != "module") {
					nontrivial++
				}
				if evals%97 == 1 {
					r.Sample(desc, 6)
				}
			}
		}
	}
	r.Set("configurations", len(cfgs))
	r.Set("directories_with_a_shared_cache", len(groupKeys))
	r.Set("runs_on_a_cache_shared_with_other_go_flags", sharedCacheRuns.Load())
	r.Set("files_observed", evals)
	r.Set("bound_presence_checks", boundChecks)
	r.Set("distinct_effective_version_pairs", len(distinctEff))
	r.Set("exhaustive", exhaustive)
	r.Set("grid", map[string]any{"module_go": modVersions, "dependency_module_go": "rotated over the same list", "file_tags": fileTags, "go_flag": goFlags, "thresholds": monitors.Thresholds, "bounds": []string{"min", "max"}, "kinds": []string{"language", "stdlib"}})
	r.Assume("the language version of a file with a go1.N build constraint is max(N, go1.21) — the Go toolchain's (go/types) rule, which code.LanguageVersion documents it follows")
	r.Finish(evals, nontrivial, 100,
		"full grid: module go version x dependency-module go version x file build constraint x -go flag (all -go values of one module pair run in one directory on one shared cache, in a seeded order); for every file the probe analyzer (run through the real runner) reports the effective versions and one problem per {min,max} x {language,stdlib} bound at every threshold go1.17..go1.26. evaluations = files observed; non-trivial = files with a build constraint for which language and stdlib versions differ or -go overrides the module")
}
