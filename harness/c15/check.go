// Package c15: nilness facts are sound with respect to real executions.
package c15

import (
	"fmt"
	"go/ast"
	"go/parser"
	"go/token"
	"os"
	"os/exec"
	"path/filepath"
	"regexp"
	"strings"
	"sync"

	"verif/lintrun"
	"verif/vf"
)

var factRe = regexp.MustCompile(`^nilfact example\.com/nilp/p\.(F\d+) (\d+) inner=(\S+) outer=(\S+)$`)

type claim struct{ inner, outer string }

type progResult struct {
	discard  string
	inconcl  string
	viol     []func()
	fns      int
	executed int // functions with a non-trivial claim that returned normally at least once
	obs      int
	sa4023   int
	claims   map[string]int
}

func Run(r *vf.Run) {
	bin := r.BuildBin("vlint", "./cmd/vlint", false)
	nProg := r.Pick(36, 250)
	nFuncs := r.Pick(36, 40)
	nVec := 16
	results := make([]progResult, nProg)
	var wg sync.WaitGroup
	sem := make(chan struct{}, 6)
	cache := filepath.Join(r.Scratch(), "cache")
	os.MkdirAll(cache, 0o755)
	for i := 0; i < nProg; i++ {
		wg.Add(1)
		go func(i int) {
			defer wg.Done()
			sem <- struct{}{}
			defer func() { <-sem }()
			results[i] = oneProgram(r, bin, cache, i, nFuncs, nVec)
		}(i)
	}
	wg.Wait()
	discards, fns, nontriv, obs, sa := 0, 0, 0, 0, 0
	claims := map[string]int{}
	for i, res := range results {
		if res.discard != "" {
			discards++
			r.Sample(map[string]any{"generator_discard": res.discard}, 6)
			continue
		}
		if res.inconcl != "" {
			r.Inconclusive("program %d: %s", i, res.inconcl)
			continue
		}
		fns += res.fns
		nontriv += res.executed
		obs += res.obs
		sa += res.sa4023
		for k, v := range res.claims {
			claims[k] += v
		}
		for _, v := range res.viol {
			v()
		}
	}
	r.Set("programs", nProg-discards)
	r.Set("generator_discards", discards)
	r.Set("functions", fns)
	r.Set("normal_returns_observed", obs)
	r.Set("claims_by_kind", claims)
	r.Set("sa4023_reports_checked", sa)
	pr := genProgram(r.Rand("program", 0), 3, 2)
	r.Sample(map[string]any{"example_function": pr.fns[0].src}, 2)
	if discards*20 > nProg {
		r.Inconclusive("%d of %d generated programs rejected by the compiler", discards, nProg)
	}
	r.Assume("claims are read through nilness.Result.Nilness inside the real runner (facts of package lib reach package p through the cache's vetx files); calls that panic are excluded, as the property only speaks of normally returning executions")
	r.Finish(fns, nontriv, r.Pick(35, 300),
		"each program = package p with ~36 generated functions returning pointers, slices, maps, interfaces (any, error), unsafe.Pointer, funcs or chans, built from nil checks, phis, swaps in loops, memory round trips, globals, helper calls within and across packages, assertions, type switches, conversions, slicing, append, recursion, closures; compiled and run on 16 seeded argument vectors; every normal return is compared with the claimed Outer/Inner nilness and every SA4023 report with the observed comparison results. non-trivial = functions with a claim other than MaybeNil that were observed returning normally")
}

func oneProgram(r *vf.Run, bin, cache string, i, nFuncs, nVec int) (res progResult) {
	res.claims = map[string]int{}
	rng := r.Rand("program", i)
	pr := genProgram(rng, nFuncs, nVec)
	dir := filepath.Join(r.Scratch(), fmt.Sprintf("prog%d", i))
	for n, c := range pr.files {
		p := filepath.Join(dir, n)
		os.MkdirAll(filepath.Dir(p), 0o755)
		os.WriteFile(p, []byte(c), 0o644)
	}
	defer os.RemoveAll(dir)
	exe := filepath.Join(dir, "obs.bin")
	build := exec.Command("go", "build", "-o", exe, "./cmd/obs")
	build.Dir = dir
	build.Env = vf.GoEnv()
	if out, err := build.CombinedOutput(); err != nil {
		res.discard = tailS(string(out), 400)
		return
	}
	run := lintrun.Cmd{Bin: exe, Dir: dir, Watchdog: 120}.Run()
	if run.Killed {
		res.inconcl = "generated program did not terminate"
		return
	}
	if run.Exit != 0 {
		res.inconcl = "generated program failed: " + tailS(string(run.Stderr), 300)
		return
	}
	// claims
	lint := lintrun.Cmd{Bin: bin, Dir: dir, Env: []string{"STATICCHECK_CACHE=" + cache}, Args: []string{"-checks", "VFY9003,SA4023", "-f", "json", "./..."}}.Run()
	if lint.Killed {
		res.inconcl = "watchdog on lint"
		return
	}
	if lint.Crashed() || lint.Exit > 1 {
		stderr := tailS(string(lint.Stderr), 3000)
		src := pr.files["p/p.go"]
		res.viol = append(res.viol, func() {
			r.Violation("analysis-crashed", "the linter crashed on a generated nil-flow program", map[string]any{"stderr": stderr, "source": src})
		})
		return
	}
	ps, err := lint.Problems()
	if err != nil {
		res.inconcl = "unparsable lint output"
		return
	}
	claims := map[string]claim{} // "F3/0"
	type sa struct {
		line  int
		never bool
	}
	var sas []sa
	for _, p := range ps {
		switch p.Code {
		case "VFY9003":
			if m := factRe.FindStringSubmatch(p.Message); m != nil {
				claims[m[1]+"/"+m[2]] = claim{m[3], m[4]}
			}
		case "SA4023":
			if strings.HasSuffix(p.Location.File, "cmd/obs/main.go") {
				switch {
				case strings.HasPrefix(p.Message, "this comparison is never true"):
					sas = append(sas, sa{p.Location.Line, true})
				case strings.HasPrefix(p.Message, "this comparison is always true"):
					sas = append(sas, sa{p.Location.Line, false})
				}
			}
		case "compile":
			res.inconcl = "compile problem: " + p.Message
			return
		}
	}
	res.fns = len(pr.fns)
	byName := map[string]fn{}
	for _, f := range pr.fns {
		byName[f.name] = f
		c := claims[f.name+"/0"]
		res.claims["outer="+c.outer]++
		if f.k.iface {
			res.claims["inner="+c.inner]++
		}
	}
	// which comparison function is on which line of main.go
	cmpAt := map[int]string{}
	fset := token.NewFileSet()
	if mf, err := parser.ParseFile(fset, "main.go", pr.files["cmd/obs/main.go"], 0); err == nil {
		for _, d := range mf.Decls {
			if fd, ok := d.(*ast.FuncDecl); ok && strings.HasPrefix(fd.Name.Name, "cmp") && fd.Body != nil {
				cmpAt[fset.Position(fd.Pos()).Line] = fd.Name.Name
			}
		}
	}
	never, always := map[string]bool{}, map[string]bool{}
	for _, s := range sas {
		if n, ok := cmpAt[s.line]; ok {
			res.sa4023++
			if s.never {
				never[n] = true
			} else {
				always[n] = true
			}
		}
	}
	executedNontrivial := map[string]bool{}
	src := pr.files["p/p.go"]
	mainSrc := pr.files["cmd/obs/main.go"]
	vecLine := func(vi int) string {
		lines := strings.Split(mainSrc, "\n")
		for li, l := range lines {
			if strings.Contains(l, "vecs := []vec{") && li+1+vi < len(lines) {
				return strings.TrimSpace(lines[li+1+vi])
			}
		}
		return ""
	}
	for _, l := range strings.Split(string(run.Stdout), "\n") {
		f := strings.Fields(l)
		if len(f) < 3 || f[2] == "panic" {
			continue
		}
		var vi int
		fmt.Sscan(f[1], &vi)
		if strings.HasPrefix(f[0], "cmp-") {
			// cmp-F3-eq <vi> <bool>
			parts := strings.Split(strings.TrimPrefix(f[0], "cmp-"), "-")
			name := "cmpEq" + parts[0]
			if parts[1] == "ne" {
				name = "cmpNe" + parts[0]
			}
			val := f[2] == "true"
			if never[name] && val || always[name] && !val {
				fnSrc := funcSource(src, parts[0])
				desc := map[string]any{"function": fnSrc, "comparison": name, "vector": vecLine(vi), "observed": val}
				cls := "sa4023-never-true-but-true"
				if always[name] {
					cls = "sa4023-always-true-but-false"
				}
				res.viol = append(res.viol, func() {
					r.Violation(cls, fmt.Sprintf("SA4023 calls `%s` impossible, but it evaluated to %v", name, val), desc)
				})
			}
			continue
		}
		if len(f) < 4 {
			continue
		}
		res.obs++
		name := f[0]
		c, ok := claims[name+"/0"]
		if !ok {
			continue
		}
		fdef := byName[name]
		outerNil := f[2] == "true"
		if c.outer == "NeverNil" || c.outer == "AlwaysNil" || (fdef.k.iface && (c.inner == "NeverNil" || c.inner == "AlwaysNil")) {
			executedNontrivial[name] = true
		}
		bad := ""
		switch {
		case c.outer == "NeverNil" && outerNil:
			bad = "claimed-never-nil-observed-nil:" + fdef.k.name
		case c.outer == "AlwaysNil" && !outerNil:
			bad = "claimed-always-nil-observed-non-nil:" + fdef.k.name
		case fdef.k.iface && !outerNil && c.inner == "NeverNil" && f[3] == "nil":
			bad = "claimed-inner-never-nil-observed-typed-nil:" + fdef.k.name
		case fdef.k.iface && !outerNil && c.inner == "AlwaysNil" && f[3] == "nonnil":
			bad = "claimed-inner-always-nil-observed-non-nil:" + fdef.k.name
		}
		if bad != "" {
			fnSrc := funcSource(src, name)
			// classify by the constructs the function uses, so that distinct causes get distinct keys
			feat := features(fnSrc)
			desc := map[string]any{"function": fnSrc, "claim": fmt.Sprintf("inner=%s outer=%s", c.inner, c.outer), "vector": vecLine(vi), "observed_outer_nil": outerNil, "observed_inner": f[3], "lib": "see harness/c15/gen.go libSrc"}
			res.viol = append(res.viol, func() {
				r.Violation(bad+":"+feat, fmt.Sprintf("%s is claimed inner=%s outer=%s but returned outerNil=%v inner=%s", name, c.inner, c.outer, outerNil, f[3]), desc)
			})
		}
	}
	res.executed = len(executedNontrivial)
	return
}

func funcSource(src, name string) string {
	i := strings.Index(src, "func "+name+"(")
	if i < 0 {
		return ""
	}
	j := strings.Index(src[i:], "\n}\n")
	if j < 0 {
		return src[i:]
	}
	return src[i : i+j+3]
}

// features names the suspicious constructs a function contains (for violation keys).
func features(fnSrc string) string {
	var fs []string
	for _, p := range [][2]string{{"v, w = w, v", "swap-in-loop"}, {"unsafe.Pointer(u", "uintptr-to-pointer"}, {"uintptr(v)", "uintptr-to-pointer"}, {"unsafe.Add", "unsafe-add"}, {"unsafe.Slice", "unsafe-slice"}, {".(type)", "type-switch"}, {"func() ", "closure"}, {"append(", "append"}} {
		if strings.Contains(fnSrc, p[0]) {
			dup := false
			for _, f := range fs {
				if f == p[1] {
					dup = true
				}
			}
			if !dup {
				fs = append(fs, p[1])
			}
		}
	}
	if len(fs) == 0 {
		return "plain"
	}
	return strings.Join(fs, "+")
}

func tailS(s string, n int) string {
	if len(s) > n {
		return s[len(s)-n:]
	}
	return s
}
