package c15

import (
	"fmt"
	"math/rand/v2"
	"strings"
)

// kinds of pointer-like values the generator works with
type kind struct {
	name    string   // short name
	typ     string   // Go type
	iface   bool     // is an interface type
	sources []string // expressions of that type over the common parameters
	nonnil  string   // an expression of that type that is certainly not nil
}

var kinds = []kind{
	{"ptr", "*int", false, []string{"p", "nil", "new(int)", "&loc", "gPtr", "m[\"k\"]", "(*int)(unsafe.Pointer(u))", "(*int)(nil)", "lib.NewPtr()", "lib.MaybePtr(c)", "lib.NilPtr()", "idPtr(p)", "func() *int { return nil }()", "st.P", "(&st).P"}, "new(int)"},
	{"slice", "[]int", false, []string{"s", "nil", "[]int{}", "make([]int, n&3)", "s[:0]", "s[1:]", "s[:0:0]", "s[0:n&1]", "append(s, 1)", "append([]int(nil), s...)", "append(s[:0:0])", "arr[:]", "arr[:0]", "gSl", "unsafe.Slice(p, n&1)", "lib.Sl(c)", "lib.NilSl()", "st.S", "[]int(lib.NamedSl(s))"}, "[]int{1}"},
	{"map", "map[string]*int", false, []string{"m", "nil", "map[string]*int{}", "make(map[string]*int)", "gMap", "lib.Map(c)"}, "map[string]*int{}"},
	{"any", "any", true, []string{"x", "nil", "any(p)", "any(s)", "any(e)", "any(n)", "lib.Iface(c)", "lib.TypedNil()", "any((*int)(nil))", "any(new(int))", "st.X", "genAny[error](e)", "genAny[any](x)", "genAny[*int](p)", "genAnyE[error](e)", "genAnyE[*lib.E](nil)", "genAnyE(&lib.E{})"}, "any(1)"},
	{"err", "error", true, []string{"e", "nil", "error((*lib.E)(nil))", "&lib.E{}", "errors.New(\"x\")", "lib.Err(c)", "lib.TypedNilErr()", "lib.NeverNilErr()", "gErr", "genErr[error](e)", "genErr[*lib.E](nil)", "genErr(&lib.E{})", "genErrW[error](e)", "genErrW[*lib.E](nil)"}, "errors.New(\"nn\")"},
	{"uptr", "unsafe.Pointer", false, []string{"unsafe.Pointer(p)", "unsafe.Pointer(u)", "unsafe.Add(unsafe.Pointer(&arr[0]), n&1)", "nil", "unsafe.Pointer(uintptr(0))", "unsafe.Pointer(&loc)"}, "unsafe.Pointer(new(int))"},
	{"fn", "func() int", false, []string{"f", "nil", "func() int { return n }", "lib.Fn(c)", "st.F", "p2.Get"}, "func() int { return 1 }"},
	{"chan", "chan int", false, []string{"ch", "nil", "make(chan int)", "make(chan int, 1)", "lib.Ch(c)"}, "make(chan int)"},
}

const params = "p *int, s []int, m map[string]*int, x any, e error, c bool, n int, u uintptr, f func() int, ch chan int"
const callArgs = "p, s, m, x, e, c, n, u, f, ch"

const libSrc = `// Package lib has helpers whose nilness facts cross the package boundary.
package lib

import "errors"

type E struct{ Msg string }

func (e *E) Error() string { return "E" }

type NamedSl []int

var sink int

func NewPtr() *int      { return new(int) }
func NilPtr() *int      { return nil }
func MaybePtr(c bool) *int {
	if c {
		return nil
	}
	return &sink
}
func Sl(c bool) []int {
	if c {
		return []int{1}
	}
	return nil
}
func NilSl() []int { return nil }
func Map(c bool) map[string]*int {
	if c {
		return map[string]*int{"k": nil}
	}
	return nil
}
func Iface(c bool) any {
	if c {
		return 1
	}
	return nil
}
func TypedNil() any { var p *int; return p }
func Err(c bool) error {
	if c {
		return errors.New("e")
	}
	return nil
}
func TypedNilErr() error { var e *E; return e }
func NeverNilErr() error { return &E{} }
func Fn(c bool) func() int {
	if c {
		return func() int { return 1 }
	}
	return nil
}
func Ch(c bool) chan int {
	if c {
		return make(chan int)
	}
	return nil
}
`

// one generated function
type fn struct {
	name string
	k    kind
	src  string
	two  bool // returns (T, error)
}

var recArg = map[string]string{"ptr": "p", "slice": "s", "map": "m", "any": "x", "err": "e", "uptr": "unsafe.Pointer(p)", "fn": "f", "chan": "ch"}

func init() {
	for i := range kinds {
		k := &kinds[i]
		for _, f := range []string{"recB", "recS", "recD"} {
			k.sources = append(k.sources, fmt.Sprintf("%s%s(n, %s)", f, k.name, recArg[k.name]))
		}
		if k.name == "slice" {
			k.sources = append(k.sources, "recApp(n, s)")
		}
	}
}

func genFunc(rng *rand.Rand, idx int) fn {
	k := kinds[rng.IntN(len(kinds))]
	name := fmt.Sprintf("F%d", idx)
	src := func() string { return k.sources[rng.IntN(len(k.sources))] }
	var b strings.Builder
	two := rng.IntN(6) == 0
	ret := k.typ
	if two {
		ret = "(" + k.typ + ", error)"
	}
	fmt.Fprintf(&b, "func %s(%s) %s {\n", name, params, ret)
	b.WriteString("\tvar loc int\n\tvar arr [3]int\n\tst := S{P: p, S: s, X: x, F: f}\n\tp2 := &S{P: p}\n\t_, _, _, _ = loc, arr, st, p2\n")
	fmt.Fprintf(&b, "\tvar v %s = %s\n", k.typ, src())
	rv := func(val string) string {
		if two {
			return "return " + val + ", nil"
		}
		return "return " + val
	}
	steps := 1 + rng.IntN(4)
	for i := 0; i < steps; i++ {
		switch rng.IntN(19) {
		case 0: // phi
			fmt.Fprintf(&b, "\tif c {\n\t\tv = %s\n\t}\n", src())
		case 1: // swap in a loop: parallel assignment through phis
			// after the loop either variable may be the one that is returned
			tail := "_ = w"
			if rng.IntN(2) == 0 {
				tail = "v = w"
			}
			fmt.Fprintf(&b, "\t{\n\t\tvar w %s = %s\n\t\tfor i := 0; i < n; i++ {\n\t\t\tv, w = w, v\n\t\t}\n\t\t%s\n\t}\n", k.typ, src(), tail)
		case 2: // refinement: replace nil by something else
			fmt.Fprintf(&b, "\tif v == nil {\n\t\tv = %s\n\t}\n", src())
		case 3: // early return of the non-nil value
			fmt.Fprintf(&b, "\tif v != nil {\n\t\t%s\n\t}\n\tv = %s\n", rv("v"), src())
		case 4: // reversed operands
			fmt.Fprintf(&b, "\tif nil != v {\n\t\tv = %s\n\t}\n", src())
		case 5: // through memory
			fmt.Fprintf(&b, "\t{\n\t\tpp := &v\n\t\tif n > 1 {\n\t\t\t*pp = %s\n\t\t}\n\t\tv = *pp\n\t}\n", src())
		case 6: // through a struct field / global
			fmt.Fprintf(&b, "\tg%s = v\n\tv = g%s\n", k.name, k.name)
		case 7: // through a same-package helper
			fmt.Fprintf(&b, "\tv = id%s(v)\n", k.name)
		case 8: // interface round trip
			if !k.iface {
				fmt.Fprintf(&b, "\tv = any(v).(%s)\n", k.typ)
			} else {
				fmt.Fprintf(&b, "\tif t, ok := v.(%s); ok {\n\t\tv = t\n\t}\n", map[bool]string{true: "interface{ Error() string }", false: "error"}[k.name == "err"])
			}
		case 9: // comma-ok
			if !k.iface {
				fmt.Fprintf(&b, "\tif t, ok := x.(%s); ok {\n\t\tv = t\n\t}\n", k.typ)
			} else {
				fmt.Fprintf(&b, "\tif t, ok := x.(*int); ok {\n\t\tv = %s\n\t\t_ = t\n\t}\n", map[bool]string{true: "lib.TypedNilErr()", false: "t"}[k.name == "err"])
			}
		case 10: // type switch
			if k.iface {
				concrete := "*int"
				if k.name == "err" {
					concrete = "*lib.E"
				}
				fmt.Fprintf(&b, "\tswitch t := v.(type) {\n\tcase nil:\n\t\tv = %s\n\tcase %s:\n\t\tif t == nil {\n\t\t\tv = %s\n\t\t}\n\tcase interface{ Unwrap() error }:\n\t\t_ = t\n\tdefault:\n\t\tv = t\n\t}\n", src(), concrete, src())
			} else {
				fmt.Fprintf(&b, "\tswitch t := x.(type) {\n\tcase %s:\n\t\tv = t\n\tcase nil:\n\tdefault:\n\t\t_ = t\n\t}\n", k.typ)
			}
		case 16: // a type switch clause that lists nil next to another type
			if k.iface {
				concrete := "*int"
				if k.name == "err" {
					concrete = "*lib.E"
				}
				fmt.Fprintf(&b, "\tswitch t := v.(type) {\n\tcase nil, %s:\n\t\t_ = t\n\t\tCounter++\n\tdefault:\n\t\tv = %s\n\t}\n", concrete, src())
			} else {
				fmt.Fprintf(&b, "\tswitch x.(type) {\n\tcase nil, %s:\n\t\tv = %s\n\t}\n", k.typ, src())
			}
		case 17: // a loop that is a single self-looping block; the value of the previous iteration survives
			fmt.Fprintf(&b, "\t{\n\t\tvar last %s = v\n\t\tfor {\n\t\t\tlast = v\n\t\t\tv = %s\n\t\t\tif dec(&n) {\n\t\t\t\tcontinue\n\t\t\t}\n\t\t\tbreak\n\t\t}\n\t\tv = last\n\t}\n", k.typ, src())
		case 11: // loop-carried
			fmt.Fprintf(&b, "\tfor i := 0; i < n; i++ {\n\t\tif i == 1 {\n\t\t\tv = %s\n\t\t\tcontinue\n\t\t}\n\t\tif v == nil {\n\t\t\tbreak\n\t\t}\n\t}\n", src())
		case 12: // use that implies non-nil (may panic; panicking calls are excluded)
			switch k.name {
			case "ptr":
				b.WriteString("\tif n == 3 {\n\t\t*v = 1\n\t}\n")
			case "slice":
				b.WriteString("\tif n == 3 {\n\t\tv[0] = 1\n\t}\n")
			case "map":
				b.WriteString("\tif n == 3 {\n\t\tv[\"z\"] = nil\n\t}\n")
			case "fn":
				b.WriteString("\tif n == 3 {\n\t\tv()\n\t}\n")
			case "err":
				b.WriteString("\tif n == 3 {\n\t\t_ = v.Error()\n\t}\n")
			default:
				b.WriteString("\t_ = v\n")
			}
		case 13: // recursion
			fmt.Fprintf(&b, "\tif n > 2 {\n\t\t%s\n\t}\n", map[bool]string{true: "v, _ = " + name + "(p, s, m, x, e, c, n-1, u, f, ch)", false: "v = " + name + "(p, s, m, x, e, c, n-1, u, f, ch)"}[two])
		case 14: // named conversion
			switch k.name {
			case "ptr":
				b.WriteString("\tv = (*int)(MyPtr(v))\n")
			case "slice":
				b.WriteString("\tv = []int(lib.NamedSl(v))\n")
			case "uptr":
				b.WriteString("\tv = unsafe.Pointer(uintptr(v))\n")
			default:
				b.WriteString("\t_ = v\n")
			}
		default: // closure (the analysis gives up on closures; callers must too)
			fmt.Fprintf(&b, "\tv = func() %s { return v }()\n", k.typ)
		}
	}
	b.WriteString("\t" + rv("v") + "\n}\n")
	return fn{name, k, b.String(), two}
}

func helpers() string {
	var b strings.Builder
	b.WriteString("type S struct {\n\tP *int\n\tS []int\n\tX any\n\tF func() int\n}\n\nfunc (s *S) Get() int { return 1 }\n\ntype MyPtr *int\n\nvar Counter int\n\nvar (\n\tgPtr *int\n\tgSl  []int\n\tgMap map[string]*int\n\tgErr error\n)\n\n")
	for _, k := range kinds {
		fmt.Fprintf(&b, "var g%s %s\n\nfunc id%s(v %s) %s { return v }\n\n", k.name, k.typ, k.name, k.typ, k.typ)
	}
	// mutual and direct recursion: a summary that is computed while a function of the cycle
	// is still being analysed must not count that function as returning nothing
	for _, k := range kinds {
		fmt.Fprintf(&b, "func recA%s(n int, v %s) %s {\n\tif n <= 0 {\n\t\treturn nil\n\t}\n\treturn recB%s(n-1, v)\n}\n\n", k.name, k.typ, k.typ, k.name)
		fmt.Fprintf(&b, "func recB%s(n int, v %s) %s {\n\tif n&1 == 0 {\n\t\treturn %s\n\t}\n\treturn recA%s(n-1, v)\n}\n\n", k.name, k.typ, k.typ, k.nonnil, k.name)
		fmt.Fprintf(&b, "func recS%s(n int, v %s) %s {\n\tif n <= 0 {\n\t\treturn v\n\t}\n\treturn recS%s(n-1, v)\n}\n\n", k.name, k.typ, k.typ, k.name)
		// the cycle entered from the other side: the function analysed first has only non-nil returns of its own
		fmt.Fprintf(&b, "func recC%s(n int, v %s) %s {\n\tif n&1 == 0 {\n\t\treturn %s\n\t}\n\treturn recD%s(n-1, v)\n}\n\n", k.name, k.typ, k.typ, k.nonnil, k.name)
		fmt.Fprintf(&b, "func recD%s(n int, v %s) %s {\n\tif n <= 0 {\n\t\treturn nil\n\t}\n\treturn recC%s(n-1, v)\n}\n\n", k.name, k.typ, k.typ, k.name)
	}
	b.WriteString("func recApp(n int, s []int) []int {\n\tif n <= 0 {\n\t\treturn s[:0:0]\n\t}\n\treturn append(recApp(n-1, s), s...)\n}\n\n")
	b.WriteString("func idPtr(v *int) *int { return v }\n\n// dec counts n down and reports whether to go round again.\nfunc dec(n *int) bool { *n--; return *n > 0 }\n\n")
	b.WriteString("// generic relays: T may be instantiated with an interface type, whose nil converts to a nil interface\nfunc genAny[T any](x T) any { return x }\n\nfunc genErr[T error](x T) error { return x }\n\n// the constraint differs from the result type, so the conversion is a MakeInterface of a type-parameter value\nfunc genAnyE[T error](x T) any { return x }\n\nfunc genErrW[T interface {\n\terror\n\tcomparable\n}](x T) error {\n\treturn x\n}\n")
	return b.String()
}

type program struct {
	files map[string]string
	fns   []fn
	nvec  int
}

func genProgram(rng *rand.Rand, nFuncs, nVec int) program {
	pr := program{files: map[string]string{}, nvec: nVec}
	pr.files["go.mod"] = "module example.com/nilp\n\ngo 1.22\n"
	pr.files["lib/lib.go"] = libSrc
	var p strings.Builder
	p.WriteString("// Package p holds the functions under test.\npackage p\n\nimport (\n\t\"errors\"\n\t\"unsafe\"\n\n\t\"example.com/nilp/lib\"\n)\n\nvar _ = errors.New\nvar _ unsafe.Pointer\nvar _ = lib.NewPtr\n\n")
	p.WriteString(helpers())
	for i := 0; i < nFuncs; i++ {
		f := genFunc(rng, i)
		pr.fns = append(pr.fns, f)
		p.WriteString("\n" + f.src)
	}
	pr.files["p/p.go"] = p.String()
	// main: vectors and observation
	var m strings.Builder
	m.WriteString(`package main

import (
	"fmt"
	"reflect"
	"unsafe"

	"example.com/nilp/lib"
	pk "example.com/nilp/p"
)

var one = 1

type vec struct {
	p  *int
	s  []int
	m  map[string]*int
	x  any
	e  error
	c  bool
	n  int
	u  uintptr
	f  func() int
	ch chan int
}

func innerNil(v any) string {
	if v == nil {
		return "-"
	}
	rv := reflect.ValueOf(v)
	switch rv.Kind() {
	case reflect.Pointer, reflect.Slice, reflect.Map, reflect.Chan, reflect.Func, reflect.UnsafePointer, reflect.Interface:
		if rv.IsNil() {
			return "nil"
		}
	}
	return "nonnil"
}

func obs(name string, vi int, f func() (outerNil bool, inner string)) {
	defer func() {
		if r := recover(); r != nil {
			fmt.Printf("%s %d panic\n", name, vi)
		}
	}()
	o, in := f()
	fmt.Printf("%s %d %v %s\n", name, vi, o, in)
}

func cmp(name string, vi int, f func() bool) {
	defer func() {
		if r := recover(); r != nil {
			fmt.Printf("cmp-%s %d panic\n", name, vi)
		}
	}()
	fmt.Printf("cmp-%s %d %v\n", name, vi, f())
}

var _ = unsafe.Pointer(nil)
var _ = lib.NewPtr

func main() {
	vecs := []vec{
`)
	ps := []string{"nil", "&one"}
	ss := []string{"nil", "[]int{}", "[]int{1, 2}"}
	ms := []string{"nil", "map[string]*int{}", "map[string]*int{\"k\": nil}", "map[string]*int{\"k\": &one}"}
	xs := []string{"nil", "(*int)(nil)", "&one", "5", "[]int(nil)", "[]int{1}", "error(nil)", "lib.TypedNilErr()", "map[string]*int(nil)", "func() int { return 1 }", "(func() int)(nil)", "(chan int)(nil)", "unsafe.Pointer(nil)"}
	es := []string{"nil", "(*lib.E)(nil)", "&lib.E{}"}
	cs := []string{"false", "true"}
	ns := []string{"0", "1", "2", "3", "4"}
	us := []string{"0", "uintptr(unsafe.Pointer(&one))"}
	fs := []string{"nil", "func() int { return 2 }"}
	chs := []string{"nil", "make(chan int, 1)"}
	pick := func(l []string) string { return l[rng.IntN(len(l))] }
	for i := 0; i < nVec; i++ {
		fmt.Fprintf(&m, "\t\t{%s, %s, %s, %s, %s, %s, %s, %s, %s, %s},\n", pick(ps), pick(ss), pick(ms), pick(xs), pick(es), pick(cs), pick(ns), pick(us), pick(fs), pick(chs))
	}
	m.WriteString("\t}\n\tfor vi, v := range vecs {\n\t\tp, s, m, x, e, c, n, u, f, ch := v.p, v.s, v.m, v.x, v.e, v.c, v.n, v.u, v.f, v.ch\n\t\t_, _, _, _, _, _, _, _, _, _ = p, s, m, x, e, c, n, u, f, ch\n")
	for _, f := range pr.fns {
		call := fmt.Sprintf("pk.%s(%s)", f.name, callArgs)
		if f.two {
			fmt.Fprintf(&m, "\t\tobs(%q, vi, func() (bool, string) { r, _ := %s; return r == nil, %s })\n", f.name, call, map[bool]string{true: "innerNil(r)", false: "\"-\""}[f.k.iface])
		} else {
			fmt.Fprintf(&m, "\t\tobs(%q, vi, func() (bool, string) { r := %s; return r == nil, %s })\n", f.name, call, map[bool]string{true: "innerNil(r)", false: "\"-\""}[f.k.iface])
		}
		if f.k.iface && !f.two {
			fmt.Fprintf(&m, "\t\tcmp(%q, vi, func() bool { return cmpEq%s(%s) })\n", f.name+"-eq", f.name, callArgs)
			fmt.Fprintf(&m, "\t\tcmp(%q, vi, func() bool { return cmpNe%s(%s) })\n", f.name+"-ne", f.name, callArgs)
		}
	}
	m.WriteString("\t}\n}\n\n")
	for _, f := range pr.fns {
		if f.k.iface && !f.two {
			fmt.Fprintf(&m, "func cmpEq%s(%s) bool { return pk.%s(%s) == nil }\n\n", f.name, params, f.name, callArgs)
			fmt.Fprintf(&m, "func cmpNe%s(%s) bool { return pk.%s(%s) != nil }\n\n", f.name, params, f.name, callArgs)
		}
	}
	pr.files["cmd/obs/main.go"] = m.String()
	return pr
}
