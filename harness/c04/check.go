// Package c04: cache transparency — warm-cache results equal cold-cache results
// after every step of an edit/flag history.
package c04

import (
	"bytes"
	"fmt"
	"math/rand/v2"
	"os"
	"os/exec"
	"path/filepath"
	"sort"
	"strings"
	"sync"

	"verif/gen"
	"verif/lintrun"
	"verif/vf"
)

type flags struct {
	GoVer  string // "" = module
	Tags   string
	Tests  bool
	Checks string // "" = default
	GOOS   string // "" = host
}

func (f flags) args() []string {
	a := []string{"-f", "json"}
	if f.GoVer != "" {
		a = append(a, "-go", f.GoVer)
	}
	if f.Tags != "" {
		a = append(a, "-tags", f.Tags)
	}
	if !f.Tests {
		a = append(a, "-tests=false")
	}
	if f.Checks != "" {
		a = append(a, "-checks", f.Checks)
	}
	return append(a, "./...")
}

func (f flags) env() []string {
	if f.GOOS != "" {
		return []string{"GOOS=" + f.GOOS}
	}
	return nil
}

// baseKey: the part of the configuration that changes the cache keys of
// standard-library packages.
func (f flags) baseKey() string { return fmt.Sprintf("go=%s,goos=%s,tags=%s", f.GoVer, f.GOOS, f.Tags) }

type snapshot struct {
	st gen.WSState
	fl flags
}

type stepRecord struct {
	Op        string `json:"op"`
	Hits      int    `json:"packages_served_from_cache"`
	Misses    int    `json:"packages_analysed"`
	Problems  int    `json:"problems"`
	Changed   bool   `json:"report_changed"`
	EmptyCold bool   `json:"also_compared_with_empty_cache"`
}

type baselines struct {
	mu   sync.Mutex
	dir  string
	bin  string
	done map[string]string
}

// get returns a directory holding a cache that was populated, starting from an
// empty directory, by linting a module that only imports the standard-library
// packages the workspace uses (so it contains no entry of the workspace).
func (b *baselines) get(f flags) (string, error) {
	b.mu.Lock()
	defer b.mu.Unlock()
	k := f.baseKey()
	if d, ok := b.done[k]; ok {
		return d, nil
	}
	d := filepath.Join(b.dir, fmt.Sprintf("base-%d", len(b.done)))
	mod := d + "-mod"
	os.MkdirAll(filepath.Join(mod, "p"), 0o755)
	os.WriteFile(filepath.Join(mod, "go.mod"), []byte("module example.com/stdonly\n\ngo 1.22\n"), 0o644)
	os.WriteFile(filepath.Join(mod, "p", "p.go"), []byte("// Package p imports what the workspace imports.\npackage p\n\nimport (\n\t\"errors\"\n\t\"fmt\"\n)\n\n// F uses them.\nfunc F() string { return fmt.Sprint(errors.New(\"x\")) }\n"), 0o644)
	os.WriteFile(filepath.Join(mod, "p", "p_test.go"), []byte("package p\n\nimport \"testing\"\n\nfunc TestF(t *testing.T) { _ = F() }\n"), 0o644)
	os.MkdirAll(d, 0o755)
	bf := f
	bf.Checks, bf.Tests = "", true
	res := lintrun.Cmd{Bin: b.bin, Dir: mod, Env: append(bf.env(), "STATICCHECK_CACHE="+d), Args: bf.args()}.Run()
	if res.Killed || res.Crashed() || res.Exit > 1 {
		return "", fmt.Errorf("baseline lint failed (exit %d): %s", res.Exit, res.Stderr)
	}
	b.done[k] = d
	return d, nil
}

func copyDir(src, dst string) error {
	os.RemoveAll(dst)
	out, err := exec.Command("cp", "-r", src, dst).CombinedOutput()
	if err != nil {
		return fmt.Errorf("cp: %v %s", err, out)
	}
	return nil
}

func materialize(dir string, old, new map[string]string) error {
	for n := range old {
		if _, ok := new[n]; !ok {
			os.Remove(filepath.Join(dir, n))
		}
	}
	for n, c := range new {
		if oc, ok := old[n]; ok && oc == c {
			continue
		}
		p := filepath.Join(dir, n)
		os.MkdirAll(filepath.Dir(p), 0o755)
		if err := os.WriteFile(p, []byte(c), 0o644); err != nil {
			return err
		}
	}
	return nil
}

var (
	goVers  = []string{"", "1.18", "1.21", "1.22"}
	tagsV   = []string{"", "foo"}
	checksV = []string{"", "all", "SA*,-SA1019", "inherit,-U1000", "all,-ST1003,-S1008"}
	goosV   = []string{"", "windows"}
	modVers = []string{"1.22", "1.20", "1.21", "1.23"}
)

func pickOther(rng *rand.Rand, vals []string, cur string) string {
	for i := 0; i < 20; i++ {
		if v := vals[rng.IntN(len(vals))]; v != cur {
			return v
		}
	}
	return cur
}

func mutate(rng *rand.Rand, cur snapshot, hist []snapshot) (snapshot, string) {
	n := cur
	switch k := rng.IntN(20); {
	case k == 0:
		n.st.Deprecated = !n.st.Deprecated
		return n, fmt.Sprintf("dependency fact flips: c.Old deprecated=%v", n.st.Deprecated)
	case k == 1:
		n.st.Impure = !n.st.Impure
		return n, fmt.Sprintf("dependency fact flips: c.Pure impure=%v", n.st.Impure)
	case k == 2:
		n.st.NeverNil = !n.st.NeverNil
		return n, fmt.Sprintf("dependency fact flips: c.Get never-nil=%v", n.st.NeverNil)
	case k == 3:
		n.st.LocalB = (n.st.LocalB + 1 + rng.IntN(3)) % 4
		return n, fmt.Sprintf("edit b: variant %d", n.st.LocalB)
	case k == 4:
		n.st.LocalA = (n.st.LocalA + 1 + rng.IntN(3)) % 4
		return n, fmt.Sprintf("edit a: variant %d", n.st.LocalA)
	case k == 5 || k == 6:
		n.st.ConfRoot = (n.st.ConfRoot + 1 + rng.IntN(7)) % 8
		return n, fmt.Sprintf("root staticcheck.conf: variant %d", n.st.ConfRoot)
	case k == 7 || k == 8:
		n.st.ConfB = (n.st.ConfB + 1 + rng.IntN(7)) % 8
		return n, fmt.Sprintf("b/staticcheck.conf: variant %d", n.st.ConfB)
	case k == 9:
		n.st.TestUses = !n.st.TestUses
		return n, fmt.Sprintf("test file uses helper=%v", n.st.TestUses)
	case k == 10:
		n.st.ExtTest = !n.st.ExtTest
		return n, fmt.Sprintf("external test package present=%v", n.st.ExtTest)
	case k == 11:
		n.fl.GoVer = pickOther(rng, goVers, n.fl.GoVer)
		return n, "flag -go " + n.fl.GoVer
	case k == 12:
		n.fl.Tags = pickOther(rng, tagsV, n.fl.Tags)
		return n, "flag -tags " + n.fl.Tags
	case k == 13:
		n.fl.Tests = !n.fl.Tests
		return n, fmt.Sprintf("flag -tests=%v", n.fl.Tests)
	case k == 14:
		n.fl.Checks = pickOther(rng, checksV, n.fl.Checks)
		return n, "flag -checks " + n.fl.Checks
	case k == 15:
		n.fl.GOOS = pickOther(rng, goosV, n.fl.GOOS)
		return n, "GOOS=" + n.fl.GOOS
	case k == 16:
		n.st.GoVersion = pickOther(rng, modVers, n.st.GoVersion)
		return n, "go.mod go " + n.st.GoVersion
	case k == 17:
		n.st.Touch++
		return n, "touch c (comment only)"
	default:
		if len(hist) > 1 {
			j := rng.IntN(len(hist))
			return hist[j], fmt.Sprintf("revert to the state after step %d", j)
		}
		n.st.Touch++
		return n, "touch c (comment only)"
	}
}

type histResult struct {
	steps      []stepRecord
	states     map[string]bool
	inconcl    string
	violations []func(r *vf.Run)
}

func runHistory(r *vf.Run, h int, bin string, base *baselines, nSteps int) histResult {
	var out histResult
	out.states = map[string]bool{}
	rng := r.Rand("history", h)
	root := filepath.Join(r.Scratch(), fmt.Sprintf("h%d", h))
	ws := filepath.Join(root, "ws")
	shared := filepath.Join(root, "cache-shared")
	os.MkdirAll(ws, 0o755)
	os.MkdirAll(shared, 0o755)
	cur := snapshot{st: gen.WSState{LocalB: rng.IntN(4), LocalA: rng.IntN(4), Deprecated: rng.IntN(2) == 0, GoVersion: "1.22"}, fl: flags{Tests: true, Checks: checksV[(h+1)%len(checksV)]}}
	var hist []snapshot
	files := map[string]string{}
	prevOut := []byte(nil)
	var ops []string
	for step := 0; step < nSteps; step++ {
		op := "initial state"
		if step > 0 {
			cur, op = mutate(rng, cur, hist)
		}
		ops = append(ops, op)
		hist = append(hist, cur)
		nf := cur.st.Files()
		if err := materialize(ws, files, nf); err != nil {
			out.inconcl = err.Error()
			return out
		}
		files = nf
		out.states[cur.st.Key()+fmt.Sprint(cur.fl)] = true
		measure := filepath.Join(root, "measure.txt")
		os.Remove(measure)
		warmArgs := append([]string{"-debug.measure-analyzers", measure}, cur.fl.args()...)
		warm := lintrun.Cmd{Bin: bin, Dir: ws, Env: append(cur.fl.env(), "STATICCHECK_CACHE="+shared), Args: warmArgs}.Run()
		// cold 1: a cache that never saw the workspace (std entries only)
		b, err := base.get(cur.fl)
		if err != nil {
			out.inconcl = err.Error()
			return out
		}
		coldDir := filepath.Join(root, "cache-cold")
		if err := copyDir(b, coldDir); err != nil {
			out.inconcl = err.Error()
			return out
		}
		cold := lintrun.Cmd{Bin: bin, Dir: ws, Env: append(cur.fl.env(), "STATICCHECK_CACHE="+coldDir), Args: cur.fl.args()}.Run()
		colds := []lintrun.Result{cold}
		emptyToo := step == 0 || step%8 == 7
		if emptyToo {
			ed := filepath.Join(root, "cache-empty")
			os.RemoveAll(ed)
			os.MkdirAll(ed, 0o755)
			colds = append(colds, lintrun.Cmd{Bin: bin, Dir: ws, Env: append(cur.fl.env(), "STATICCHECK_CACHE="+ed), Args: cur.fl.args()}.Run())
		}
		for _, c := range append([]lintrun.Result{warm}, colds...) {
			if c.Killed {
				out.inconcl = "watchdog fired on a lint run"
				return out
			}
		}
		// measure file: one line per analyzer executed => packages analysed
		analysed := map[string]bool{}
		if mb, err := os.ReadFile(measure); err == nil {
			for _, l := range strings.Split(string(mb), "\n") {
				if f := strings.Split(l, "\t"); len(f) == 3 && strings.Contains(f[1], "example.com/ws") {
					analysed[f[1]] = true
				}
			}
		}
		nPkgs := 4
		if cur.fl.Tests {
			nPkgs = 6 // a, a [test], b, c, s + maybe a_test
			if cur.st.ExtTest {
				nPkgs = 7
			}
		}
		hits := max(0, nPkgs-len(analysed))
		ps, _ := warm.Problems()
		rec := stepRecord{Op: op, Hits: hits, Misses: len(analysed), Problems: len(ps), Changed: !bytes.Equal(prevOut, warm.Stdout), EmptyCold: emptyToo}
		prevOut = warm.Stdout
		out.steps = append(out.steps, rec)
		for ci, c := range colds {
			if bytes.Equal(c.Stdout, warm.Stdout) && c.Exit == warm.Exit {
				continue
			}
			// is it the cache, or is the tool non-deterministic? repeat the cold run twice
			var again []lintrun.Result
			for k := 0; k < 2; k++ {
				ed := filepath.Join(root, fmt.Sprintf("cache-again%d", k))
				copyDir(b, ed)
				again = append(again, lintrun.Cmd{Bin: bin, Dir: ws, Env: append(cur.fl.env(), "STATICCHECK_CACHE="+ed), Args: cur.fl.args()}.Run())
			}
			nondet := !bytes.Equal(again[0].Stdout, again[1].Stdout) || !bytes.Equal(again[0].Stdout, c.Stdout)
			kind := []string{"std-only-cache", "empty-cache"}[ci]
			opsCopy := append([]string(nil), ops...)
			filesCopy := map[string]string{}
			for k, v := range files {
				filesCopy[k] = v
			}
			ws, cs, we, ce, stderr := string(warm.Stdout), string(c.Stdout), warm.Exit, c.Exit, string(warm.Stderr)
			flagsStr := strings.Join(cur.fl.args(), " ") + " " + strings.Join(cur.fl.env(), " ")
			if nondet {
				out.inconcl = "cold runs disagree among themselves (non-determinism is C06's business): " + flagsStr
				continue
			}
			lastOp := op
			out.violations = append(out.violations, func(r *vf.Run) {
				r.Violation("warm-differs-from-cold:"+kind+":after:"+opClass(lastOp),
					fmt.Sprintf("history %d step %d (%s): output with the shared cache differs from a run on a %s", h, len(opsCopy)-1, lastOp, kind),
					map[string]any{"history": h, "ops": opsCopy, "flags": flagsStr, "files": filesCopy, "warm_stdout": ws, "cold_stdout": cs, "warm_exit": we, "cold_exit": ce, "warm_stderr": stderr})
			})
		}
	}
	return out
}

func opClass(op string) string {
	for _, p := range []string{"dependency fact flips", "edit b", "edit a", "root staticcheck.conf", "b/staticcheck.conf", "test file", "external test", "flag -go", "flag -tags", "flag -tests", "flag -checks", "GOOS", "go.mod", "touch", "revert", "initial"} {
		if strings.HasPrefix(op, p) {
			return strings.ReplaceAll(p, " ", "-")
		}
	}
	return "other"
}

func Run(r *vf.Run) {
	bin := r.BuildBin("staticcheck", "honnef.co/go/tools/cmd/staticcheck", false)
	nHist := r.Pick(3, 6)
	nSteps := r.Pick(22, 60)
	base := &baselines{dir: filepath.Join(r.Scratch(), "baselines"), bin: bin, done: map[string]string{}}
	os.MkdirAll(base.dir, 0o755)
	results := make([]histResult, nHist)
	var wg sync.WaitGroup
	sem := make(chan struct{}, 6)
	for h := 0; h < nHist; h++ {
		wg.Add(1)
		go func(h int) {
			defer wg.Done()
			sem <- struct{}{}
			defer func() { <-sem }()
			results[h] = runHistory(r, h, bin, base, nSteps)
		}(h)
	}
	wg.Wait()
	steps, withHit, fullHit, changed, nontrivial, emptyCmp := 0, 0, 0, 0, 0, 0
	states := map[string]bool{}
	opKinds := map[string]int{}
	for h, res := range results {
		if res.inconcl != "" {
			r.Inconclusive("history %d: %s", h, res.inconcl)
		}
		for _, v := range res.violations {
			v(r)
		}
		for k := range res.states {
			states[k] = true
		}
		for _, s := range res.steps {
			steps++
			opKinds[opClass(s.Op)]++
			if s.Hits > 0 {
				withHit++
			}
			if s.Misses == 0 {
				fullHit++
			}
			if s.Changed {
				changed++
			}
			if s.EmptyCold {
				emptyCmp++
			}
			if s.Hits > 0 && s.Problems > 0 && s.Changed {
				nontrivial++
			}
		}
		if h == 0 {
			r.Sample(map[string]any{"history_0_first_steps": res.steps[:min(12, len(res.steps))]}, 1)
		}
	}
	r.Set("histories", nHist)
	r.Set("steps", steps)
	r.Set("steps_with_cache_hit", withHit)
	r.Set("steps_fully_served_from_cache", fullHit)
	r.Set("steps_where_report_changed", changed)
	r.Set("steps_also_compared_with_empty_cache", emptyCmp)
	r.Set("distinct_states", len(states))
	r.Set("operation_kinds", opKinds)
	ks := make([]string, 0, len(base.done))
	for k := range base.done {
		ks = append(ks, k)
	}
	sort.Strings(ks)
	r.Set("std_only_baseline_caches", ks)
	r.Assume("a cache populated from an empty directory by linting a module that imports only fmt/errors/testing contains no entry influenced by the workspace; it is used as the cold cache on every step, a truly empty directory on every 8th step")
	r.Assume("cache hits are observed through -debug.measure-analyzers (a package without measurement lines was served from the cache)")
	r.Finish(steps, nontrivial, r.Pick(10, 60),
		"each step = one operation of a seeded history on the wsgen workspace (edit target/dependency so that deprecation, purity or nilness facts flip; edit/add/remove staticcheck.conf at two levels; -go, -tags, -tests, -checks, GOOS, go.mod version; touch; revert to an earlier state) followed by `staticcheck -f json` with the shared cache and with cold caches; stdout bytes and exit status must agree. non-trivial = steps in which the warm run really served a workspace package from the cache AND the report was non-empty AND differed from the previous step's")
}
