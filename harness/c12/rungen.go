package c12

// rungen: seeded multisets of runs over a small universe of problems, and
// their serialisation in the `-f binary` format.

import (
	"bytes"
	"encoding/gob"
	"fmt"
	"go/token"
	"math/rand/v2"
	"sort"

	"honnef.co/go/tools/analysis/lint"
	"honnef.co/go/tools/lintcmd/runner"
	"honnef.co/go/tools/quickfix"
	"honnef.co/go/tools/simple"
	"honnef.co/go/tools/staticcheck"
	"honnef.co/go/tools/stylecheck"
	"honnef.co/go/tools/unused"
)

// The binary format is gob(lintcmd.lintResult). gob matches struct fields by
// name, so these mirror types (same field names and types as lintResult /
// diagnostic in lintcmd/lint.go) are accepted by `staticcheck -merge`.
// runner.Diagnostic is the real, exported, embedded struct.
type mirrorResult struct {
	CheckedFiles []string
	Diagnostics  []mirrorDiagnostic
	Warnings     []string
}

type mirrorDiagnostic struct {
	runner.Diagnostic
	Severity  uint8
	MergeIf   lint.MergeStrategy
	BuildName string
}

const (
	sevError   = 0
	sevWarning = 1
	sevIgnored = 2
)

// Problem is one problem descriptor of the universe.
type Problem struct {
	File     string `json:"file"`
	Line     int    `json:"line"`
	Col      int    `json:"col"`
	EndLine  int    `json:"end_line"`
	EndCol   int    `json:"end_col"`
	Category string `json:"category"`
	Message  string `json:"message"`
	Severity uint8  `json:"severity"`
	All      bool   `json:"merge_if_all"` // strategy of the check (function of Category)
}

type RunSpec struct {
	Name     string   `json:"build_name"`
	Checked  []string `json:"checked_files"`
	Reported []int    `json:"reported"` // indices into Case.Universe, ascending
}

type Case struct {
	Universe []Problem `json:"universe"`
	Runs     []RunSpec `json:"runs"`
}

// checkInfo is read from the analyzers of the working tree.
type checkInfo struct {
	name string
	all  bool
}

// registered: the analyzers cmd/staticcheck registers (categories that count
// as errors for the exit status); strategies as documented on the analyzers.
func realChecks() (anyChecks, allChecks []string, registered map[string]bool) {
	registered = map[string]bool{}
	var as []*lint.Analyzer
	as = append(as, simple.Analyzers...)
	as = append(as, staticcheck.Analyzers...)
	as = append(as, stylecheck.Analyzers...)
	as = append(as, unused.Analyzer)
	for _, a := range as {
		registered[a.Analyzer.Name] = true
		if a.Doc != nil && a.Doc.MergeIf == lint.MergeIfAll {
			allChecks = append(allChecks, a.Analyzer.Name)
		} else {
			anyChecks = append(anyChecks, a.Analyzer.Name)
		}
	}
	sort.Strings(anyChecks)
	sort.Strings(allChecks)
	return
}

var quickfixName = func() string {
	if len(quickfix.Analyzers) > 0 {
		return quickfix.Analyzers[0].Analyzer.Name
	}
	return "QF1001"
}()

type genEnv struct {
	anyChecks, allChecks []string
	registered           map[string]bool
}

var buildNames = []string{"linux", "windows", "darwin", "b1", "b2", "B3", "a", "z", "linux_arm", "Z9", "_x", "ü"}
var messages = []string{"same message", "value is never used", "m", "m2", "another message: with colon"}

func genCase(rng *rand.Rand, env *genEnv) *Case {
	c := &Case{}
	nfiles := 1 + rng.IntN(5)
	files := make([]string, nfiles)
	for i := range files {
		files[i] = []string{"a.go", "b.go", "pkg/c.go", "pkg/d_test.go", "z/e.go"}[i]
	}
	// a few categories per case so that ties on everything but the category are likely
	ncat := 1 + rng.IntN(5)
	type cat struct {
		name string
		all  bool
	}
	var cats []cat
	for i := 0; i < ncat; i++ {
		switch x := rng.IntN(100); {
		case x < 40:
			cats = append(cats, cat{env.allChecks[rng.IntN(len(env.allChecks))], true})
		case x < 80:
			cats = append(cats, cat{env.anyChecks[rng.IntN(len(env.anyChecks))], false})
		case x < 86:
			cats = append(cats, cat{"compile", false})
		case x < 91:
			cats = append(cats, cat{"config", false})
		case x < 96:
			cats = append(cats, cat{"staticcheck", false})
		default:
			cats = append(cats, cat{quickfixName, false}) // not registered by cmd/staticcheck: never an error
		}
	}
	nprob := 1 + rng.IntN(40)
	if rng.IntN(3) == 0 {
		nprob = 1 + rng.IntN(6)
	}
	maxLine := 1 + rng.IntN(4)
	nmsg := 1 + rng.IntN(len(messages))
	seen := map[Problem]bool{}
	for i := 0; i < nprob; i++ {
		ct := cats[rng.IntN(len(cats))]
		p := Problem{
			File:     files[rng.IntN(nfiles)],
			Line:     1 + rng.IntN(maxLine),
			Col:      1 + rng.IntN(2),
			Category: ct.name,
			Message:  messages[rng.IntN(nmsg)],
			All:      ct.all,
		}
		if rng.IntN(4) == 0 {
			p.EndLine, p.EndCol = p.Line, p.Col+1+rng.IntN(2)
		}
		if rng.IntN(12) == 0 {
			p.Severity = sevIgnored
		}
		q := p
		q.Severity = 0
		if seen[q] {
			continue // descriptors are distinct; severity is a function of the descriptor
		}
		seen[q] = true
		c.Universe = append(c.Universe, p)
	}
	nruns := 1 + rng.IntN(6)
	names := rng.Perm(len(buildNames))
	for i := 0; i < nruns; i++ {
		rs := RunSpec{Name: buildNames[names[i]]}
		pc := rng.IntN(101) // per-run density of checked files
		for _, f := range files {
			if rng.IntN(100) < pc {
				rs.Checked = append(rs.Checked, f)
			}
		}
		chk := map[string]bool{}
		for _, f := range rs.Checked {
			chk[f] = true
		}
		pr := 20 + rng.IntN(81)
		stray := rng.IntN(10) == 0 // a run may report into a file it did not list as checked
		for j, p := range c.Universe {
			if (chk[p.File] || stray) && rng.IntN(100) < pr {
				rs.Reported = append(rs.Reported, j)
			}
		}
		c.Runs = append(c.Runs, rs)
	}
	return c
}

func (p Problem) diag(build string) mirrorDiagnostic {
	d := mirrorDiagnostic{Severity: p.Severity, BuildName: build}
	d.Position = token.Position{Filename: p.File, Line: p.Line, Column: p.Col}
	if p.EndLine != 0 {
		d.End = token.Position{Filename: p.File, Line: p.EndLine, Column: p.EndCol}
	}
	d.Category = p.Category
	d.Message = p.Message
	if p.All {
		d.MergeIf = lint.MergeIfAll
	}
	return d
}

// encodeRun serialises one run the way `staticcheck -f binary` does (one gob
// stream per run).
func encodeRun(c *Case, k int, shuffle *rand.Rand) []byte {
	rs := c.Runs[k]
	res := mirrorResult{CheckedFiles: append([]string(nil), rs.Checked...)}
	for _, j := range rs.Reported {
		res.Diagnostics = append(res.Diagnostics, c.Universe[j].diag(rs.Name))
	}
	if shuffle != nil {
		shuffle.Shuffle(len(res.Diagnostics), func(a, b int) {
			res.Diagnostics[a], res.Diagnostics[b] = res.Diagnostics[b], res.Diagnostics[a]
		})
	}
	var buf bytes.Buffer
	if err := gob.NewEncoder(&buf).Encode(res); err != nil {
		panic(fmt.Sprintf("gob: %v", err))
	}
	return buf.Bytes()
}

// permutations returns all permutations of 0..n-1 for n <= 4, otherwise the
// identity's reverse plus k seeded ones.
func permutations(n int, rng *rand.Rand, k int) [][]int {
	if n <= 4 {
		var out [][]int
		var rec func(cur []int, used []bool)
		rec = func(cur []int, used []bool) {
			if len(cur) == n {
				out = append(out, append([]int(nil), cur...))
				return
			}
			for i := 0; i < n; i++ {
				if !used[i] {
					used[i] = true
					rec(append(cur, i), used)
					used[i] = false
				}
			}
		}
		rec(nil, make([]bool, n))
		return out[1:] // without the identity
	}
	out := [][]int{}
	rev := make([]int, n)
	for i := range rev {
		rev[i] = n - 1 - i
	}
	out = append(out, rev)
	for i := 0; i < k; i++ {
		out = append(out, rng.Perm(n))
	}
	return out
}
