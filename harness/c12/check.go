// Package c12: merging runs follows any/all semantics, order-independently
// (property C12). The real CLI (`staticcheck -merge`, `-matrix`) is run as a
// child process on generated `-f binary` run files; the oracle is a small
// reference model plus algebraic laws checked directly on the CLI output.
package c12

import (
	"bytes"
	"encoding/json"
	"fmt"
	"os"
	"os/exec"
	"path/filepath"
	"regexp"
	"runtime"
	"sort"
	"strconv"
	"strings"
	"sync"
	"time"

	"verif/vf"
)

type ctx struct {
	r       *vf.Run
	bin     string
	env     *genEnv
	sem     chan struct{}
	timeout sync.Once
	procs   int64
	mu      sync.Mutex
}

type obs struct {
	Stdout string `json:"stdout"`
	Stderr string `json:"stderr,omitempty"`
	Exit   int    `json:"exit"`
}

func debugf(format string, a ...any) {
	if os.Getenv("VERIF_DEBUG") != "" {
		fmt.Fprintf(os.Stderr, "[c12 %s] "+format+"\n", append([]any{time.Now().Format("15:04:05")}, a...)...)
	}
}

func (c *ctx) exec(dir string, stdin []byte, env []string, limit string, args ...string) obs {
	c.sem <- struct{}{}
	defer func() { <-c.sem }()
	cmd := exec.Command("timeout", append([]string{"-s", "QUIT", limit, c.bin}, args...)...)
	cmd.Dir = dir
	cmd.Env = append(vf.GoEnv(), env...)
	if stdin != nil {
		cmd.Stdin = bytes.NewReader(stdin)
	}
	var so, se bytes.Buffer
	cmd.Stdout, cmd.Stderr = &so, &se
	err := cmd.Run()
	o := obs{Stdout: so.String(), Stderr: se.String()}
	if ee, ok := err.(*exec.ExitError); ok {
		o.Exit = ee.ExitCode()
	} else if err != nil {
		o.Exit = -1
		o.Stderr += err.Error()
	}
	if o.Exit == 124 {
		c.timeout.Do(func() { c.r.Inconclusive("watchdog: staticcheck %v exceeded %s s", args, limit) })
	}
	c.mu.Lock()
	c.procs++
	c.mu.Unlock()
	return o
}

func (c *ctx) merge(dir, format string, files []string, stdin []byte, extra ...string) obs {
	args := append(append([]string{"-merge", "-f", format}, extra...), files...)
	// -merge is single-threaded work; a small runtime keeps the process cheap
	return c.exec(dir, stdin, []string{"GOMAXPROCS=1", "GOGC=off"}, "120", args...)
}

var textRe = regexp.MustCompile(`^(.+?):(\d+):(\d+): (.*) \[([^\]]*)\] \(([^)]*)\)$`)

func sortedLines(s string) []string {
	var out []string
	for _, l := range strings.Split(s, "\n") {
		if l != "" {
			out = append(out, l)
		}
	}
	sort.Strings(out)
	return out
}

// canonJSON turns `-f json` output into the canonical strings of jsonLines.
func canonJSON(s string) ([]string, error) {
	var out []string
	dec := json.NewDecoder(strings.NewReader(s))
	for dec.More() {
		var d struct {
			Code     string `json:"code"`
			Severity string `json:"severity"`
			Location struct {
				File         string
				Line, Column int
			} `json:"location"`
			End struct {
				File         string
				Line, Column int
			} `json:"end"`
			Message string `json:"message"`
		}
		if err := dec.Decode(&d); err != nil {
			return nil, err
		}
		out = append(out, fmt.Sprintf("%s|%s|%s:%d:%d|%s:%d:%d|%s", d.Code, d.Severity, d.Location.File, d.Location.Line, d.Location.Column, d.End.File, d.End.Line, d.End.Column, d.Message))
	}
	sort.Strings(out)
	return out, nil
}

func diffLines(want, got []string) string {
	cnt := map[string]int{}
	for _, l := range want {
		cnt[l]++
	}
	for _, l := range got {
		cnt[l]--
	}
	var keys []string
	for k, v := range cnt {
		if v != 0 {
			keys = append(keys, k)
		}
	}
	sort.Strings(keys)
	var sb strings.Builder
	for _, k := range keys {
		if cnt[k] > 0 {
			fmt.Fprintf(&sb, "missing x%d: %s; ", cnt[k], k)
		} else {
			fmt.Fprintf(&sb, "unexpected x%d: %s; ", -cnt[k], k)
		}
	}
	return sb.String()
}

type viol struct {
	Kind   string         `json:"kind"`
	What   string         `json:"what"`
	Detail map[string]any `json:"detail"`
}

var allKinds = []string{"merge-failed", "text-differs-from-model", "json-differs-from-model", "exit-status-differs-from-model", "show-ignored-differs-from-model",
	"permutation-changes-output", "repeated-run-changes-output", "stdin-differs-from-files"}

// evalCase runs the CLI on the case and returns one violation per kind at
// most. only restricts the evaluation to one kind ("" = all).
func (c *ctx) evalCase(cs *Case, dir string, idx int, only string) []viol {
	os.MkdirAll(dir, 0o755)
	n := len(cs.Runs)
	files := make([]string, n)
	var all []byte
	shuf := c.r.Rand("diag-order", idx)
	for k := range cs.Runs {
		files[k] = fmt.Sprintf("r%d.bin", k)
		b := encodeRun(cs, k, shuf)
		all = append(all, b...)
		if err := os.WriteFile(filepath.Join(dir, files[k]), b, 0o644); err != nil {
			c.r.Inconclusive("cannot write run file: %v", err)
			return nil
		}
	}
	want := func(k string) bool { return only == "" || only == k }
	var out []viol
	add := func(kind, what string, detail map[string]any) {
		for _, v := range out {
			if v.Kind == kind {
				return
			}
		}
		out = append(out, viol{kind, what, detail})
	}
	model := merge(cs)
	base := c.merge(dir, "text", files, nil)
	if base.Exit != 0 && base.Exit != 1 || base.Stderr != "" {
		add("merge-failed", fmt.Sprintf("staticcheck -merge exited %d, stderr %q", base.Exit, firstN(base.Stderr, 300)), map[string]any{"observed": base})
		return out
	}
	if want("text-differs-from-model") {
		exp := textLines(model)
		got := sortedLines(base.Stdout)
		if strings.Join(exp, "\n") != strings.Join(got, "\n") {
			add("text-differs-from-model", "-merge -f text: "+firstN(diffLines(exp, got), 500), map[string]any{"expected_lines": exp, "observed": base})
		}
	}
	if want("exit-status-differs-from-model") {
		if e := exitStatus(model, c.env.registered); e != base.Exit {
			add("exit-status-differs-from-model", fmt.Sprintf("exit status %d, model says %d", base.Exit, e), map[string]any{"observed": base})
		}
	}
	if want("show-ignored-differs-from-model") {
		ignored := false
		for _, m := range model {
			ignored = ignored || m.P.Severity == sevIgnored
		}
		if ignored {
			// -show-ignored displays ignored problems; they never count for the exit status
			o := c.merge(dir, "text", files, nil, "-show-ignored")
			exp := textLinesWithIgnored(model)
			got := sortedLines(o.Stdout)
			if strings.Join(exp, "\n") != strings.Join(got, "\n") || o.Exit != base.Exit {
				add("show-ignored-differs-from-model", fmt.Sprintf("-merge -show-ignored (exit %d, without the flag %d): %s", o.Exit, base.Exit, firstN(diffLines(exp, got), 500)),
					map[string]any{"expected_lines": exp, "observed": o})
			}
		}
	}
	if want("json-differs-from-model") {
		j := c.merge(dir, "json", files, nil)
		got, err := canonJSON(j.Stdout)
		exp := jsonLines(model, c.env.registered)
		if err != nil || j.Exit != base.Exit || strings.Join(exp, "\n") != strings.Join(got, "\n") {
			add("json-differs-from-model", fmt.Sprintf("-merge -f json (exit %d, text exit %d): %s", j.Exit, base.Exit, firstN(diffLines(exp, got), 500)), map[string]any{"expected": exp, "observed": j})
		}
	}
	if want("permutation-changes-output") && n > 1 {
		for _, p := range permutations(n, c.r.Rand("perm", idx), 6) {
			pf := make([]string, n)
			for i, k := range p {
				pf[i] = files[k]
			}
			o := c.merge(dir, "text", pf, nil)
			if o.Stdout != base.Stdout || o.Exit != base.Exit {
				sub := "order-of-lines-only"
				if strings.Join(sortedLines(o.Stdout), "\n") != strings.Join(sortedLines(base.Stdout), "\n") {
					sub = "set-of-lines"
				}
				add("permutation-changes-output", fmt.Sprintf("input order %v vs. identity (%s): %s", p, sub, firstN(diffLines(sortedLines(base.Stdout), sortedLines(o.Stdout)), 400)),
					map[string]any{"permutation": p, "identity": base, "permuted": o, "difference": sub})
				break
			}
		}
	}
	if want("repeated-run-changes-output") {
		j := c.r.Rand("dup", idx).IntN(n)
		o := c.merge(dir, "text", append(append([]string(nil), files...), files[j]), nil)
		if o.Stdout != base.Stdout || o.Exit != base.Exit {
			add("repeated-run-changes-output", fmt.Sprintf("repeating run %d: %s", j, firstN(diffLines(sortedLines(base.Stdout), sortedLines(o.Stdout)), 400)),
				map[string]any{"repeated": j, "once": base, "twice": o})
		}
	}
	if want("stdin-differs-from-files") {
		o := c.merge(dir, "text", nil, all)
		if o.Stdout != base.Stdout || o.Exit != base.Exit {
			add("stdin-differs-from-files", firstN(diffLines(sortedLines(base.Stdout), sortedLines(o.Stdout)), 400), map[string]any{"files": base, "stdin": o})
		}
	}
	return out
}

func firstN(s string, n int) string {
	if len(s) > n {
		return s[:n] + "…"
	}
	return s
}

// ---------------------------------------------------------------------------
// Failing-input classes

// caseClass names the structural feature of a (minimal) failing case.
func caseClasses(cs *Case) map[string]bool {
	rep := map[int]bool{}
	for _, r := range cs.Runs {
		for _, j := range r.Reported {
			rep[j] = true
		}
	}
	out := map[string]bool{}
	for i, p := range cs.Universe {
		for j, q := range cs.Universe {
			if j <= i || !rep[i] || !rep[j] {
				continue
			}
			if p.File == q.File && p.Line == q.Line && p.Col == q.Col && p.Message == q.Message {
				if p.Category != q.Category {
					out["tie-on-position-and-message-differing-category"] = true
				} else {
					out["tie-on-position-message-category-differing-end"] = true
				}
			}
		}
	}
	return out
}

var classOrder = []string{"tie-on-position-and-message-differing-category", "tie-on-position-message-category-differing-end"}

func primaryClass(cs *Case) string {
	m := caseClasses(cs)
	for _, c := range classOrder {
		if m[c] {
			return c
		}
	}
	return "no-tie"
}

func cloneCase(cs *Case) *Case {
	c := &Case{Universe: append([]Problem(nil), cs.Universe...)}
	for _, r := range cs.Runs {
		c.Runs = append(c.Runs, RunSpec{Name: r.Name, Checked: append([]string(nil), r.Checked...), Reported: append([]int(nil), r.Reported...)})
	}
	return c
}

// compact drops universe entries nobody reports.
func compact(cs *Case) *Case {
	used := map[int]int{}
	c := &Case{}
	for _, r := range cs.Runs {
		for _, j := range r.Reported {
			used[j] = -1
		}
	}
	for j, p := range cs.Universe {
		if _, ok := used[j]; ok {
			used[j] = len(c.Universe)
			c.Universe = append(c.Universe, p)
		}
	}
	for _, r := range cs.Runs {
		nr := RunSpec{Name: r.Name, Checked: append([]string(nil), r.Checked...)}
		for _, j := range r.Reported {
			nr.Reported = append(nr.Reported, used[j])
		}
		c.Runs = append(c.Runs, nr)
	}
	return c
}

func size(cs *Case) int {
	n := 10 * len(cs.Runs)
	for _, r := range cs.Runs {
		n += len(r.Reported) + len(r.Checked)
	}
	return n
}

// shrink greedily minimises a failing case while the violation kind persists.
func (c *ctx) shrink(cs *Case, kind string, dir string, idx int) *Case {
	cur := compact(cs)
	step := 0
	try := func(cand *Case) bool {
		if len(cand.Runs) == 0 {
			return false
		}
		step++
		d := filepath.Join(dir, fmt.Sprintf("s%d", step))
		vs := c.evalCase(cand, d, idx, kind)
		os.RemoveAll(d)
		for _, v := range vs {
			if v.Kind == kind {
				return true
			}
		}
		return false
	}
	for pass := 0; pass < 4 && step < 600; pass++ {
		changed := false
		// whole runs
		for k := 0; k < len(cur.Runs); {
			cand := cloneCase(cur)
			cand.Runs = append(cand.Runs[:k], cand.Runs[k+1:]...)
			if try(cand) {
				cur, changed = cand, true
			} else {
				k++
			}
		}
		// whole problems
		for j := len(cur.Universe) - 1; j >= 0; j-- {
			cand := cloneCase(cur)
			for k := range cand.Runs {
				var nr []int
				for _, x := range cand.Runs[k].Reported {
					if x != j {
						nr = append(nr, x)
					}
				}
				cand.Runs[k].Reported = nr
			}
			if size(cand) < size(cur) && try(cand) {
				cur, changed = cand, true
			}
		}
		cur = compact(cur)
		// single reports and checked files
		for k := range cur.Runs {
			for i := 0; i < len(cur.Runs[k].Reported); {
				cand := cloneCase(cur)
				cand.Runs[k].Reported = append(cand.Runs[k].Reported[:i], cand.Runs[k].Reported[i+1:]...)
				if try(cand) {
					cur, changed = cand, true
				} else {
					i++
				}
			}
			for i := 0; i < len(cur.Runs[k].Checked); {
				cand := cloneCase(cur)
				cand.Runs[k].Checked = append(cand.Runs[k].Checked[:i], cand.Runs[k].Checked[i+1:]...)
				if try(cand) {
					cur, changed = cand, true
				} else {
					i++
				}
			}
		}
		cur = compact(cur)
		if !changed {
			break
		}
	}
	c.r.Add("shrink_evaluations", step)
	return cur
}

// ---------------------------------------------------------------------------

// workers is the number of concurrent child processes (VERIF_WORKERS, default
// one per CPU). It does not influence any verdict.
func workers() int {
	if v, err := strconv.Atoi(os.Getenv("VERIF_WORKERS")); err == nil && v > 0 {
		return v
	}
	return runtime.NumCPU()
}

type caseViol struct {
	idx  int
	cs   *Case
	v    viol
	key  string
	min  *Case
	minV *viol
}

func Run(r *vf.Run) {
	c := &ctx{r: r, sem: make(chan struct{}, workers())}
	c.bin = r.BuildBin("staticcheck", "honnef.co/go/tools/cmd/staticcheck", false)
	anyC, allC, reg := realChecks()
	c.env = &genEnv{anyChecks: anyC, allChecks: allC, registered: reg}
	r.Set("checks_merge_if_all", allC)
	r.Set("checks_merge_if_any_count", len(anyC))
	if len(allC) == 0 || len(anyC) == 0 {
		r.Inconclusive("could not find checks of both merge strategies in the working tree")
		r.Finish(0, 0, 1, "no checks")
	}
	r.Assume("run files are written with a mirror of lintcmd.lintResult (gob matches fields by name); the merge strategy stored per diagnostic is the one documented on the check's lint.Analyzer in the working tree")
	root := r.Scratch()

	total := r.Pick(300, 1500)
	if v, err := strconv.Atoi(os.Getenv("VERIF_N")); err == nil && v > 0 {
		total = v // development aid; recorded in evidence as evaluations
	}
	type res struct {
		idx    int
		cs     *Case
		vs     []viol
		dr, un bool
		procs  int
	}
	results := make([]res, total)
	var wg sync.WaitGroup
	work := make(chan int)
	for w := 0; w < workers(); w++ {
		wg.Add(1)
		go func() {
			defer wg.Done()
			for idx := range work {
				cs := genCase(r.Rand("rungen", idx), c.env)
				dir := filepath.Join(root, fmt.Sprintf("c%d", idx))
				vs := c.evalCase(cs, dir, idx, "")
				os.RemoveAll(dir)
				dr, un := nontrivialCase(cs, merge(cs))
				results[idx] = res{idx: idx, cs: cs, vs: vs, dr: dr, un: un}
			}
		}()
	}
	for idx := 0; idx < total; idx++ {
		work <- idx
	}
	close(work)
	wg.Wait()
	debugf("merge cases done, %d processes", c.procs)

	distinct := map[string]bool{}
	var viols []*caseViol
	nruns := map[int]int{}
	for _, rs := range results {
		b, _ := json.Marshal(rs.cs)
		key := string(b)
		nruns[len(rs.cs.Runs)]++
		if rs.dr {
			r.Add("cases_with_dropped_all_problem", 1)
		}
		if rs.un {
			r.Add("cases_with_build_name_union", 1)
		}
		if rs.dr || rs.un {
			distinct[key] = true
		}
		if len(caseClasses(rs.cs)) > 0 {
			r.Add("cases_with_problems_tying_on_position_and_message", 1)
		}
		for _, v := range rs.vs {
			viols = append(viols, &caseViol{idx: rs.idx, cs: rs.cs, v: v})
		}
	}
	r.Set("cases_by_number_of_runs", nruns)
	if total > 0 {
		r.Sample(map[string]any{"case": results[0].cs, "model": textLines(merge(results[0].cs))}, 4)
	}

	c.classify(viols, root)
	for _, v := range viols {
		rep := map[string]any{"case": v.cs, "violation": v.v, "case_index": v.idx,
			"how": "write each run as gob(lintResult) (see rungen.go: encodeRun) and run: staticcheck -merge -f text r0.bin r1.bin ..."}
		what := v.v.Kind + ": " + v.v.What
		if v.min != nil {
			rep["minimal_case"] = v.min
			rep["minimal_violation"] = v.minV
			b, _ := json.Marshal(v.min)
			what += "; minimal case: " + firstN(string(b), 700)
		}
		r.Violation(v.key, firstN(what, 1500), rep)
	}

	// real inputs: build-tagged module under a 3-configuration matrix
	mEvals, mNontrivial := c.matrixPart(root)

	c.mu.Lock()
	procs := c.procs
	c.mu.Unlock()
	r.Set("staticcheck_processes", int(procs))
	r.Set("matrix_comparisons", mEvals)
	r.Set("matrix_comparisons_nontrivial", mNontrivial)
	r.Finish(total+mEvals, len(distinct), total*2/5,
		"distinct generated cases (run multisets) in which at least one 'all'-strategy problem was dropped by the merge or at least two runs reported the same problem (build-name union exercised), each evaluated through the real `staticcheck -merge`")
}

type mclass struct{ kind, class string }

func (c *ctx) classify(viols []*caseViol, root string) {
	sort.SliceStable(viols, func(i, j int) bool {
		if a, b := size(viols[i].cs), size(viols[j].cs); a != b {
			return a < b
		}
		return viols[i].idx < viols[j].idx
	})
	var classes []mclass
	if b, err := os.ReadFile(filepath.Join(vf.Root, "known_findings.json")); err == nil {
		var kf struct {
			Findings []vf.Finding `json:"findings"`
		}
		if json.Unmarshal(b, &kf) == nil {
			for _, f := range kf.Findings {
				if i := strings.LastIndex(f.Key, ":"); f.Property == "C12" && f.Status == "known" && i > 0 {
					classes = append(classes, mclass{f.Key[:i], f.Key[i+1:]})
				}
			}
		}
	}
	explain := func(v *caseViol) bool {
		cl := caseClasses(v.cs)
		for _, k := range classes {
			if k.kind == v.v.Kind && (cl[k.class] || (k.class == "no-tie" && len(cl) == 0)) {
				v.key = k.kind + ":" + k.class
				return true
			}
		}
		return false
	}
	shrinks := 0
	for _, v := range viols {
		if explain(v) {
			continue
		}
		if shrinks >= 12 {
			v.key = v.v.Kind + ":unshrunk:" + primaryClass(v.cs)
			continue
		}
		shrinks++
		dir := filepath.Join(root, fmt.Sprintf("shrink%d", shrinks))
		v.min = c.shrink(v.cs, v.v.Kind, dir, v.idx)
		for _, mv := range c.evalCase(v.min, filepath.Join(dir, "final"), v.idx, v.v.Kind) {
			if mv.Kind == v.v.Kind {
				mv := mv
				v.minV = &mv
			}
		}
		os.RemoveAll(dir)
		cls := primaryClass(v.min)
		v.key = v.v.Kind + ":" + cls
		classes = append(classes, mclass{v.v.Kind, cls})
		debugf("shrunk case %d (%s) to class %s", v.idx, v.v.Kind, cls)
	}
	// representatives first within a key
	sort.SliceStable(viols, func(i, j int) bool {
		if viols[i].key != viols[j].key {
			return viols[i].key < viols[j].key
		}
		return (viols[i].min != nil) && (viols[j].min == nil)
	})
}
