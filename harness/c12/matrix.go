package c12

// Real inputs: a generated module with build-tagged files is linted under a
// 3-configuration matrix. `-matrix` output must equal the per-configuration
// `-f binary` runs piped through `-merge`, and both must equal what the
// reference model computes from the decoded run files.

import (
	"bytes"
	"encoding/gob"
	"fmt"
	"io"
	"math/rand/v2"
	"os"
	"path/filepath"
	"strings"
	"sync"

	"honnef.co/go/tools/analysis/lint"
)

type wsFile struct {
	Path string `json:"path"`
	Src  string `json:"src"`
}

type matrixCase struct {
	Files  []wsFile `json:"files"`
	Matrix []string `json:"matrix"` // one line per configuration
}

var configPool = []string{
	"plain:",
	"foo: -tags=foo",
	"bar: -tags=bar",
	"both: -tags=foo,bar",
	"win: GOOS=windows",
	"win_foo: GOOS=windows -tags=foo",
}

var constraints = []string{"", "", "foo", "!foo", "bar", "!bar", "foo && bar", "foo || bar", "windows", "!windows"}

func genMatrixCase(rng *rand.Rand) *matrixCase {
	mc := &matrixCase{}
	p := rng.Perm(len(configPool))
	for i := 0; i < 3; i++ {
		mc.Matrix = append(mc.Matrix, configPool[p[i]])
	}
	nh := 2 + rng.IntN(3) // helpers defined in the untagged file, used (or not) from tagged files
	var base strings.Builder
	base.WriteString("package p\n\nimport (\n\t\"errors\"\n\t\"regexp\"\n\t\"strings\"\n)\n\nvar _ = errors.New\nvar _ = regexp.MustCompile\nvar _ = strings.Index\n\n")
	for h := 0; h < nh; h++ {
		fmt.Fprintf(&base, "func helper%d() int { return %d }\n\n", h, h)
	}
	base.WriteString(snippets(rng, "base", 1+rng.IntN(3), nh, false))
	mc.Files = append(mc.Files, wsFile{"p/base.go", base.String()})
	nf := 2 + rng.IntN(4)
	for i := 0; i < nf; i++ {
		con := constraints[rng.IntN(len(constraints))]
		var sb strings.Builder
		if con != "" {
			fmt.Fprintf(&sb, "//go:build %s\n\n", con)
		}
		sb.WriteString("package p\n\nimport (\n\t\"errors\"\n\t\"regexp\"\n\t\"strings\"\n)\n\nvar _ = errors.New\nvar _ = regexp.MustCompile\nvar _ = strings.Index\n\n")
		broken := con != "" && rng.IntN(12) == 0
		sb.WriteString(snippets(rng, fmt.Sprintf("f%d", i), 1+rng.IntN(4), nh, broken))
		mc.Files = append(mc.Files, wsFile{fmt.Sprintf("p/f%d.go", i), sb.String()})
	}
	return mc
}

func snippets(rng *rand.Rand, tag string, n, nh int, broken bool) string {
	var sb strings.Builder
	for i := 0; i < n; i++ {
		id := fmt.Sprintf("%s_%d", tag, i)
		switch rng.IntN(8) {
		case 0: // SA4006 (all)
			fmt.Fprintf(&sb, "func Overwritten_%s() int {\n\tx := 1\n\tx = 2\n\treturn x\n}\n\n", id)
		case 1: // SA1000 (any)
			fmt.Fprintf(&sb, "var Re_%s = regexp.MustCompile(\"(\")\n\n", id)
		case 2: // S1003 (any)
			fmt.Fprintf(&sb, "func Contains_%s(s string) bool { return strings.Index(s, \"x\") != -1 }\n\n", id)
		case 3: // ST1005 (any)
			fmt.Fprintf(&sb, "var Err_%s = errors.New(\"Capitalised error\")\n\n", id)
		case 4: // U1000 (all)
			fmt.Fprintf(&sb, "func unused_%s() {}\n\n", id)
		case 5, 6: // uses a helper of the untagged file: U1000 for the helper only in configurations without this file
			fmt.Fprintf(&sb, "func Use_%s() int { return helper%d() }\n\n", id, rng.IntN(nh))
		case 7: // SA4010 (all)
			fmt.Fprintf(&sb, "func Append_%s() {\n\tvar s []int\n\ts = append(s, 1)\n\ts = append(s, 2)\n}\n\n", id)
		}
	}
	if broken {
		fmt.Fprintf(&sb, "var Broken_%s int = \"not an int\"\n", tag)
	}
	return sb.String()
}

func decodeRuns(b []byte) ([]mirrorResult, error) {
	var out []mirrorResult
	br := bytes.NewReader(b)
	for br.Len() > 0 {
		var res mirrorResult
		if err := gob.NewDecoder(br).Decode(&res); err != nil {
			if err == io.EOF {
				break
			}
			return nil, err
		}
		out = append(out, res)
	}
	return out, nil
}

// caseFromRuns turns decoded real run files into a model case.
func caseFromRuns(runs []mirrorResult) (*Case, bool) {
	cs := &Case{}
	index := map[Problem]int{}
	ok := true
	for _, res := range runs {
		rs := RunSpec{Checked: res.CheckedFiles}
		seen := map[int]bool{}
		for _, d := range res.Diagnostics {
			rs.Name = d.BuildName
			p := Problem{File: d.Position.Filename, Line: d.Position.Line, Col: d.Position.Column, EndLine: d.End.Line, EndCol: d.End.Column,
				Category: d.Category, Message: d.Message, Severity: d.Severity, All: d.MergeIf == lint.MergeIfAll}
			if d.End.Filename != "" && d.End.Filename != d.Position.Filename || len(d.Related) > 0 ||
				d.Position.Line == 0 || d.Position.Filename == "" || strings.ContainsAny(d.Message, "\n\r") {
				ok = false // outside what the model's one-line text rendering covers (e.g. package-level compile errors)
			}
			j, have := index[p]
			if !have {
				j = len(cs.Universe)
				index[p] = j
				cs.Universe = append(cs.Universe, p)
			}
			if !seen[j] {
				seen[j] = true
				rs.Reported = append(rs.Reported, j)
			}
		}
		cs.Runs = append(cs.Runs, rs)
	}
	return cs, ok
}

func (c *ctx) matrixPart(root string) (evals, nontrivial int) {
	n := c.r.Pick(3, 50)
	cache := "/var/tmp/verif.C12.staticcheck-cache"
	os.MkdirAll(cache, 0o755)
	env := []string{"STATICCHECK_CACHE=" + cache}
	type result struct {
		ok    bool
		nt    bool
		viols []viol
		mc    *matrixCase
		class string
		un    bool
	}
	results := make([]result, n)
	var wg sync.WaitGroup
	par := make(chan struct{}, max(1, workers()/4)) // a lint run is itself parallel
	for i := 0; i < n; i++ {
		wg.Add(1)
		go func(i int) {
			defer wg.Done()
			par <- struct{}{}
			defer func() { <-par }()
			mc := genMatrixCase(c.r.Rand("matrixgen", i))
			res := &results[i]
			res.mc = mc
			dir := filepath.Join(root, fmt.Sprintf("ws%d", i))
			defer os.RemoveAll(dir)
			os.MkdirAll(filepath.Join(dir, "p"), 0o755)
			os.WriteFile(filepath.Join(dir, "go.mod"), []byte("module example.com/ws\n\ngo 1.22\n"), 0o644)
			for _, f := range mc.Files {
				os.WriteFile(filepath.Join(dir, f.Path), []byte(f.Src), 0o644)
			}
			add := func(kind, what string, detail map[string]any) {
				res.viols = append(res.viols, viol{kind, what, detail})
			}
			all := strings.Join(mc.Matrix, "\n") + "\n"
			mat := c.exec(dir, []byte(all), env, "900", "-matrix", "-f", "text", "./...")
			if mat.Exit != 0 && mat.Exit != 1 {
				c.r.Inconclusive("matrix case %d: staticcheck -matrix exited %d: %s", i, mat.Exit, firstN(mat.Stderr, 300))
				return
			}
			var files []string
			var runs []mirrorResult
			for k, line := range mc.Matrix {
				o := c.exec(dir, []byte(line+"\n"), env, "900", "-matrix", "-f", "binary", "./...")
				if o.Exit != 0 {
					c.r.Inconclusive("matrix case %d: staticcheck -f binary for %q exited %d: %s", i, line, o.Exit, firstN(o.Stderr, 300))
					return
				}
				f := fmt.Sprintf("run%d.bin", k)
				os.WriteFile(filepath.Join(dir, f), []byte(o.Stdout), 0o644)
				files = append(files, f)
				rs, err := decodeRuns([]byte(o.Stdout))
				if err != nil || len(rs) != 1 {
					c.r.Inconclusive("matrix case %d: cannot decode -f binary output with the mirror struct: %v", i, err)
					return
				}
				runs = append(runs, rs...)
			}
			res.ok = true
			man := c.merge(dir, "text", files, nil)
			if man.Stdout != mat.Stdout || man.Exit != mat.Exit {
				add("matrix-differs-from-manual-merge", firstN(diffLines(sortedLines(mat.Stdout), sortedLines(man.Stdout)), 500),
					map[string]any{"matrix_output": mat, "manual_merge_output": man})
			}
			// all three runs in one binary stream
			bin := c.exec(dir, []byte(all), env, "900", "-matrix", "-f", "binary", "./...")
			one := c.merge(dir, "text", nil, []byte(bin.Stdout))
			if bin.Exit != 0 || one.Stdout != mat.Stdout || one.Exit != mat.Exit {
				add("matrix-differs-from-merge-of-matrix-binary", firstN(diffLines(sortedLines(mat.Stdout), sortedLines(one.Stdout)), 500),
					map[string]any{"matrix_output": mat, "merge_of_binary_output": one})
			}
			cs, modelable := caseFromRuns(runs)
			for k := range cs.Runs {
				if cs.Runs[k].Name == "" {
					cs.Runs[k].Name = strings.SplitN(mc.Matrix[k], ":", 2)[0]
				}
			}
			ms := merge(cs)
			res.class = primaryClass(cs)
			if modelable {
				exp := textLines(ms)
				got := sortedLines(mat.Stdout)
				if strings.Join(exp, "\n") != strings.Join(got, "\n") {
					add("matrix-differs-from-model", firstN(diffLines(exp, got), 500), map[string]any{"matrix_output": mat, "expected_lines": exp, "decoded_runs": cs})
				}
				if e := exitStatus(ms, c.env.registered); e != mat.Exit {
					add("matrix-exit-status-differs-from-model", fmt.Sprintf("exit %d, model %d", mat.Exit, e), map[string]any{"matrix_output": mat})
				}
			}
			dr, un := nontrivialCase(cs, ms)
			res.nt = dr || un
			res.un = un
			if !modelable {
				c.r.Add("matrix_cases_outside_model_rendering", 1)
			}
			if dr {
				c.r.Add("matrix_cases_with_dropped_all_problem", 1)
			}
			if un {
				c.r.Add("matrix_cases_with_build_name_union", 1)
			}
			if i == 0 {
				c.r.Sample(map[string]any{"matrix": mc.Matrix, "matrix_output": mat.Stdout}, 4)
			}
		}(i)
	}
	wg.Wait()
	unions := 0
	for i, res := range results {
		if !res.ok {
			continue
		}
		evals++
		if res.un {
			unions++
		}
		if res.nt {
			nontrivial++
		}
		for _, v := range res.viols {
			key := v.Kind + ":" + res.class
			c.r.Violation(key, v.Kind+": "+v.What, map[string]any{"matrix_case": i, "module": res.mc, "violation": v,
				"how": "write the files into a module, then: staticcheck -matrix -f text ./... < matrix  versus  one `staticcheck -matrix -f binary ./...` per matrix line, merged with `staticcheck -merge`"})
		}
	}
	if evals > 0 && unions == 0 {
		c.r.Inconclusive("no matrix comparison exercised a build-name union")
	}
	return
}
