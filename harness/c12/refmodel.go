package c12

// refmodel: the documented merge semantics, written independently of
// lintcmd.mergeRuns / printDiagnostics.
//
//   - a problem of an 'any' check is kept if any run reported it;
//   - a problem of an 'all' check is kept only if every run that checked the
//     problem's file reported it (and at least one run reported it);
//   - a kept problem carries exactly the build names of the runs that
//     reported it;
//   - ignored problems are not printed; the exit status is 1 iff a printed
//     problem belongs to a registered check or to compile/config/staticcheck.

import (
	"fmt"
	"sort"
	"strings"
)

type Merged struct {
	P     Problem
	Names []string // sorted, distinct
}

func merge(c *Case) []Merged {
	var out []Merged
	for j, p := range c.Universe {
		var names []string
		reported := false
		missing := false // some run checked the file but did not report p
		for _, r := range c.Runs {
			rep := false
			for _, k := range r.Reported {
				if k == j {
					rep = true
				}
			}
			if rep {
				reported = true
				names = append(names, r.Name)
				continue
			}
			for _, f := range r.Checked {
				if f == p.File {
					missing = true
				}
			}
		}
		if !reported || (p.All && missing) {
			continue
		}
		sort.Strings(names)
		names = dedup(names)
		out = append(out, Merged{p, names})
	}
	return out
}

func dedup(s []string) []string {
	var out []string
	for i, x := range s {
		if i == 0 || x != s[i-1] {
			out = append(out, x)
		}
	}
	return out
}

// textLines is the expected `-f text` output as a sorted multiset of lines.
func textLines(ms []Merged) []string {
	var out []string
	for _, m := range ms {
		if m.P.Severity == sevIgnored {
			continue
		}
		out = append(out, fmt.Sprintf("%s:%d:%d: %s [%s] (%s)", m.P.File, m.P.Line, m.P.Col, m.P.Message, strings.Join(m.Names, ","), m.P.Category))
	}
	sort.Strings(out)
	return out
}

// textLinesWithIgnored is the expected `-f text -show-ignored` output.
func textLinesWithIgnored(ms []Merged) []string {
	var out []string
	for _, m := range ms {
		out = append(out, fmt.Sprintf("%s:%d:%d: %s [%s] (%s)", m.P.File, m.P.Line, m.P.Col, m.P.Message, strings.Join(m.Names, ","), m.P.Category))
	}
	sort.Strings(out)
	return out
}

// jsonLines is the expected `-f json` output as a sorted multiset of
// canonical strings (see canonJSON in check.go).
func jsonLines(ms []Merged, registered map[string]bool) []string {
	var out []string
	for _, m := range ms {
		if m.P.Severity == sevIgnored {
			continue
		}
		sev := "warning"
		if isError(m.P.Category, registered) {
			sev = "error"
		}
		ef := ""
		if m.P.EndLine != 0 {
			ef = m.P.File
		}
		out = append(out, fmt.Sprintf("%s|%s|%s:%d:%d|%s:%d:%d|%s", m.P.Category, sev, m.P.File, m.P.Line, m.P.Col, ef, m.P.EndLine, m.P.EndCol, m.P.Message))
	}
	sort.Strings(out)
	return out
}

func isError(cat string, registered map[string]bool) bool {
	switch strings.ToLower(cat) {
	case "compile", "config", "staticcheck":
		return true
	}
	for n := range registered {
		if strings.EqualFold(n, cat) {
			return true
		}
	}
	return false
}

func exitStatus(ms []Merged, registered map[string]bool) int {
	for _, m := range ms {
		if m.P.Severity != sevIgnored && isError(m.P.Category, registered) {
			return 1
		}
	}
	return 0
}

// nontrivial: an 'all' problem was dropped, or two runs reported the same
// problem (the build-name union was exercised).
func nontrivialCase(c *Case, ms []Merged) (dropped, union bool) {
	kept := map[Problem]bool{}
	for _, m := range ms {
		kept[m.P] = true
		if len(m.Names) > 1 && m.P.Severity != sevIgnored {
			union = true
		}
	}
	for j, p := range c.Universe {
		if !p.All || kept[p] {
			continue
		}
		for _, r := range c.Runs {
			for _, k := range r.Reported {
				if k == j {
					dropped = true
				}
			}
		}
	}
	return
}
