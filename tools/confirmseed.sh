#!/bin/bash
# confirmseed.sh <id> [full]  — independent confirmation of a seeded breakage in a scratch worktree:
#   demo passes without the patch, fails with it; the tree builds; the existing tests of the touched packages
#   (or, with "full", the whole pinned suite compared with BASELINE.json) pass with the patch applied.
set -u
id=$1; full=${2:-}
export GOFLAGS=-mod=mod GOPROXY=off
unset GOTOOLCHAIN GOSUMDB
src=/verif/seeded/$id; [ -d "$src" ] || src=/tmp/mut_$id/_seeded
wt=/tmp/cf_$id
git -C /repo worktree remove --force $wt 2>/dev/null; rm -rf $wt
git -C /repo worktree add -q --detach $wt HEAD || exit 3
mkdir -p $wt/_seeded && cp -r $src/demo $wt/_seeded/demo
cd $wt
echo "--- demo WITHOUT the change"
bash _seeded/demo/run.sh > /var/tmp/cf_$id.without.log 2>&1; a=$?
echo "exit=$a"
git apply $src/patch.diff || { echo "PATCH DOES NOT APPLY"; exit 3; }
echo "--- build WITH the change"
go build ./... && echo build-ok || { echo BUILD-FAILS; exit 3; }
echo "--- demo WITH the change"
bash _seeded/demo/run.sh > /var/tmp/cf_$id.with.log 2>&1; b=$?
echo "exit=$b"
dirs=$(git diff --name-only | grep '\.go$' | xargs -n1 dirname | sort -u | sed 's|^|./|; s|$|/...|' | tr '\n' ' ')
if [ "$full" = full ]; then
	echo "--- full pinned suite WITH the change"
	go test -json -vet=off -count=1 -timeout 25m ./... > /var/tmp/cf_$id.suite.json 2>/dev/null
	python3 - /var/tmp/cf_$id.suite.json <<'PY'
import json,sys
passed=set(); failed=set()
for l in open(sys.argv[1]):
    try: e=json.loads(l)
    except Exception: continue
    if e.get('Test') and e.get('Action') in ('pass','fail'):
        (passed if e['Action']=='pass' else failed).add(e['Package']+'::'+e['Test'])
base=set(json.load(open('/root/.vp/BASELINE.json'))['stable_pass'])
missing=sorted(base-passed)
print(f"suite: baseline={len(base)} passed={len(passed)} failed={len(failed)} missing={len(missing)}")
for m in missing[:10]: print("  MISSING", m)
PY
else
	echo "--- tests of touched packages WITH the change: $dirs"
	go test -count=1 -p 4 $dirs 2>&1 | grep -v "no test files" | tail -15
fi
cd /; git -C /repo worktree remove --force $wt
echo "RESULT id=$id demo_without=$a demo_with=$b"
