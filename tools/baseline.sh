#!/bin/bash
# Runs the repository's pinned test suite with the verif guard OFF and compares
# the set of passing tests with /root/.vp/BASELINE.json (stable_pass).
# usage: baseline.sh [outfile]
export GOFLAGS=-mod=mod GOPROXY=off
unset GOTOOLCHAIN GOSUMDB
OUT=${1:-/var/tmp/verif-baseline.json}
cd /repo && go test -json -vet=off -count=1 -timeout 25m ./... > "$OUT" 2>/var/tmp/verif-baseline.err
python3 - "$OUT" <<'PY'
import json,sys
passed=set(); failed=set()
for l in open(sys.argv[1]):
    try: e=json.loads(l)
    except Exception: continue
    if e.get('Test') and e.get('Action') in ('pass','fail'):
        k=e['Package']+'::'+e['Test']
        (passed if e['Action']=='pass' else failed).add(k)
base=set(json.load(open('/root/.vp/BASELINE.json'))['stable_pass'])
missing=sorted(base-passed)
print(f"baseline stable_pass={len(base)} passed_now={len(passed)} failed_now={len(failed)} missing_from_baseline={len(missing)}")
for m in missing[:40]: print("  MISSING", m)
for m in sorted(failed)[:40]: print("  FAILED", m)
sys.exit(1 if missing else 0)
PY
