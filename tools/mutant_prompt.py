#!/usr/bin/env python3
"""Prints the prompt for an independent breakage-seeding agent for one property (no /verif content besides the property text)."""
import json, sys
pid, n = sys.argv[1], sys.argv[2] if len(sys.argv) > 2 else "a"
props = {json.loads(l)["id"]: json.loads(l) for l in open("/verif/properties.jsonl")}
p = props[pid]
wt = f"/tmp/mut_{pid}{n}"
print(f"""You are a software engineer helping to evaluate a verification effort for the Go repository dominikh/go-tools (staticcheck). You work ONLY inside your own scratch git worktree at {wt} (already created from the repository's HEAD). Do not read or write anything under /verif or /repo, and do not use git push/commit outside your worktree.

Here is a semantic property the repository is supposed to satisfy:

  Title: {p['title']}
  Statement: {p['statement']}
  Quantified over: {p['quantifier']['text']}
  Code it is anchored in: {', '.join(p['anchors']['files'])}

Your task: write ONE realistic change to the repository's non-test Go code that BREAKS this property while
  (1) the repository still compiles (`go build ./...`), and
  (2) the existing test suite still passes — at least run the tests of every package you touched and of the packages that most directly depend on them (`go test -count=1 <pkgs>`), and tell me exactly which ones you ran; do not edit or delete any existing test or testdata.
The change should look like something a developer could plausibly commit (an optimisation, a refactoring slip, a mishandled corner case, a dropped lock or check, a reordered pair of operations) — not sabotage that any ordinary run would expose at once. Prefer a change that needs something SPECIFIC to manifest: a particular interleaving or timing, a crash or fault at a particular point, a multi-step sequence of operations, an unusual input shape, or two cooperating sites that each look fine alone.

Also write a DEMONSTRATION: a new Go test file (preferred) or a small Go program / shell script inside the worktree that fails (or prints a visibly wrong result) WITH your change and passes WITHOUT it. Verify both directions yourself (save the diff, then `git apply -R` / `git apply` it; do NOT use `git stash` — the stash is shared with other people's worktrees of the same repository).

Environment (important): no network. For every go command use exactly `export GOFLAGS=-mod=mod GOPROXY=off` and do NOT set GOTOOLCHAIN or GOSUMDB (the module needs go 1.26, which is resolved automatically from the module cache; the first build of cmd/staticcheck takes about a minute). The machine is shared: do not run more than one heavy command at a time, never `go test ./...` for the whole repository (it takes several minutes of all cores) unless you really need to, and use `-p 4`.

Deliverables, all inside {wt}/_seeded/ :
  patch.diff   — `git diff` of your change to non-test code only (must apply with `git apply` to a clean checkout of HEAD);
  demo/        — the demonstration (test file(s)/program + a `run.sh` that exits non-zero when the property is broken), not part of patch.diff;
  NOTES.md     — what the change does, why existing tests do not notice, what is needed for it to manifest, which tests you ran (with results), how to run the demo and what it prints with and without the change.
Finish with a short summary of the same. Budget: about 45 minutes; if your first idea does not survive the existing tests, try a subtler one.""")
