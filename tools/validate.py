#!/opt/veriftools/pyvenv/bin/python
import json, jsonschema, glob, sys
m=json.load(open('/verif/MANIFEST.json')); jsonschema.validate(m,json.load(open('/root/.vp/MANIFEST.schema.json'))); print("manifest valid:", len(m['checks']), "checks")
s=json.load(open('/root/.vp/EVIDENCE.schema.json'))
bad=0
for c in m['checks']:
    try:
        e=json.load(open(c['evidence_file'])); jsonschema.validate(e,s)
        assert e['level']==c['level_claimed']['category'], "level mismatch"
        print(c['property_id'],"evidence valid", e['tier'], "evals", e['coverage'].get('evaluations'), "distinct", e['coverage'].get('distinct_nontrivial'), "wall %.0fs"%e['wall_s'], "viol", e.get('violations'))
    except Exception as ex:
        bad+=1; print(c['property_id'],"EVIDENCE PROBLEM:", str(ex)[:200])
ids={c['property_id'] for c in m['checks']}|{n['property_id'] for n in m.get('not_applicable',[])}
assert ids=={"C%02d"%i for i in range(1,21)}, ids
sys.exit(1 if bad else 0)
