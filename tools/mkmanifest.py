#!/usr/bin/env python3
"""Regenerates /verif/MANIFEST.json from the table below (single source of truth)."""
import json, subprocess

ALL = ["C%02d" % i for i in range(1, 21)]

# id -> (level, technique, text, note)
CHECKS = {
 "C12": ("exploration",
         "runtime reference-model monitor + algebraic laws on the CLI: generated run files (gob mirror struct) through `staticcheck -merge`, real tagged module through `-matrix` vs manual merge",
         "Generated multisets of runs (arbitrary checked-file sets, both merge strategies, ties on position/message/category/end) are merged by the real binary; text, JSON and exit status must equal a 60-line model of any/all semantics with exact build-name annotation, and must be invariant under every permutation (<= 4 runs; seeded above), under repeating a run and under feeding the runs on stdin; -matrix on a build-tagged module must equal the manual per-configuration merge.",
         "trusted: harness/c12 model; the mirror struct's field names follow lintcmd's lintResult."),
 "C16": ("exploration",
         "runtime monitors over every diagnostic and fix obtained through the real runner API: position validity, fix hygiene (bounds/overlap/parse/re-type-check with go/types after import fix-up), behavioural equivalence of S*/QF* fixes by compiling and running generated programs before and after the fix",
         "All analyzer testdata trees, the repository, a slice of std and position-stressing variants (comments/line breaks/parentheses/renamed imports/CRLF/header/tabs) are linted through lintcmd/runner; every position and every suggested fix is checked; 32 executable templates (27 compared) with traced side-effecting sub-expressions are run before and after the fix.",
         "trusted: go/types as compiler stand-in for fix results, the Go toolchain for behaviour; //line-remapped files skipped and counted."),
 "C19": ("exploration",
         "runtime differential monitor: structlayout / structlayout-optimize output vs. unsafe.Sizeof/Alignof/Offsetof printed by a compiled program for generated struct types and for the optimiser's reordered structs",
         "Generated struct types (all basic kinds, zero-size and blank fields, nested/embedded structs, arrays incl. [0]T) are laid out by the real binaries; entries must tile [0, Sizeof) and equal the compiler's offsets/sizes/alignments; the optimiser's output must be a permutation of the fields, be what the compiler lays out for that order, and not be larger than the original.",
         "trusted: the Go compiler on linux/amd64 (other architectures cannot be executed here)."),
 "C01": ("translation_validation",
         "runtime translation validation: differential execution of the built IR (reference interpreter) against the compiled program, per generated program and builder mode",
         "Every generated executable program is compiled with the Go toolchain and run (ground truth); its IR is built through the real exported path in 4 modes {naive, lifted} x {debug refs on, off} and every function is interpreted on the same input vectors by a reference interpreter written from the instruction documentation; results, panic class, ordered effect trace and final globals are compared record by record. Held on the programs validated.",
         "trusted: harness/irinterp (soaked silent over hundreds of programs), the Go toolchain as ground truth; the executable subset excludes goroutines/channels/select/unsafe/floats."),
 "C03": ("exploration",
         "runtime crash/failure monitor: the real linter with all analyzers run as child processes over generated syntax-coverage packages and real corpora; oracle = exit status, stderr, compile/config problems",
         "Generated syntax-coverage modules (every builtin in every result position over all pointer-like result types, all statement forms, generics, range-over-func, select, goto), a hostile-but-buildable workspace (a source file above the loader's size limit and its importer, cgo, assembly-backed declarations, embed, constraint-excluded files with broken bodies, BOM/CRLF sources, //line directives, test-only and external-test packages, deep nesting; every package but the oversized one must have been analysed), slices of std, the repository and analyzer testdata (all of them in the thorough tier) are linted with -checks all plus quickfix analyzers through the real pipeline; precondition 'compiles' is established with go build; a failing unit is isolated to the package and, for generated code, shrunk to the functions. AST/IR kind coverage is measured by a monitor analyzer inside the run.",
         "trusted: go build as the precondition oracle; default target version only."),
 "C04": ("exploration",
         "runtime metamorphic monitor: warm run on a shared cache vs. cold runs after every step of seeded edit/flag histories",
         "Seeded histories over a multi-package workspace (edits of target and dependencies that flip deprecation/purity/nilness facts, staticcheck.conf at two levels, -go/-tags/-tests/-checks/GOOS/go.mod changes, touch, revert) are replayed; after every step the output bytes and exit status with the shared persistent cache must equal those of a cache that never saw the workspace (std-only baseline; a truly empty directory every 8th step). Cache hits are observed through -debug.measure-analyzers. Held on the histories run.",
         "trusted: the std-only baseline cache construction; binary salt is constant within a run."),
 "C05": ("fault_enumeration",
         "fault injection + state enumeration + multi-process history checking: every post-crash/truncation/deletion cache state is enumerated and looked up; writers are SIGKILLed at every store hook point; 8-16 processes hammer one directory and the recorded history is checked offline",
         "(a) all directory states a store can leave (data/index prefixes, torn overwrites, truncation/extension, deletion subsets, foreign index entries) for 12 value sizes are constructed and every lookup must miss or return exactly a stored value; (b) child writers are killed at each of the 7 verif hook points of the store path and at seeded random moments; (c) concurrent Put/GetFile/GetBytes/Trim processes log call/return records to one O_APPEND history that an offline checker validates (porcupine informational); (d) lints through damaged, crash-left and concurrently shared caches must print the reference output.",
         "trusted: the lookup oracle (value sets from append-only call logs); same-length content corruption and double faults are outside the quantifier (recorded informationally)."),
 "C06": ("exploration",
         "runtime repeat-and-compare under perturbed schedules (seeded yields/sleeps at runner hook points, GOMAXPROCS sweep, cold/warm cache) + Go race detector on a race-instrumented binary + subset/order independence of named packages",
         "The same workspace is linted dozens of times in 4 output formats under GOMAXPROCS 1..16 and seeded yield/sleep perturbation at the runner's hook points; stdout bytes and exit status must be identical; a -race build repeats the workload and GORACE logs are counted; per-package problem lists are compared across subsets and orders of command-line patterns. The number of distinct action schedules actually observed is measured from the hook log.",
         "trusted: hook log as schedule observation; stderr not compared."),
 "C07": ("exploration",
         "runtime differential monitor: go/types re-check of the package after deleting everything U1000 reports + independent zero-reference count vs. the analyzer's result",
         "For generated declaration graphs, the repository's packages and unused/testdata, every reported object is deleted from the syntax and the package must still type-check (unused imports aside); every unexported package-level function, type, variable or stand-alone constant without any referring identifier must be reported.",
         "trusted: go/types as the compiler stand-in; the deletion transformer's two charities (blank assignment for writes, _ in const groups)."),
 "C08": ("exploration",
         "runtime differential monitor inside the real analysis pass: code.Matches vs. trying the pattern on every syntax node",
         "A monitor analyzer inside the real runner evaluates every pattern compiled into the checks (extracted from the working tree), hand-written call-form patterns, symbol-derived and generalised-subtree patterns on every corpus package both ways and compares the match sets (modulo wrapper nodes the matcher unwraps by design), skipping pairs whose symbols are declared in the analysed package.",
         "trusted: brute-force side uses the same Matcher (C09 covers the matcher itself)."),
 "C10": ("exploration",
         "runtime metamorphic monitor: insert one directive, predict the new -show-ignored report from the old one, compare with the real linter's output",
         "Hundreds of seeded placements of //lint:ignore and //lint:file-ignore lines (exact ids, globs, wrong case, other checks, U1000, disabled and unknown checks, with/without reason) above statements and declarations; the prediction (line shift, exactly the named problems on the attached node's line suppressed, unmatched-directive / malformed-directive problems) must equal the real output.",
         "trusted: go/ast.NewCommentMap for attachment; U1000 directives only in exact spelling. A line-pragma unit lints generated files with and without a //line pragma that maps the code to another .go file name: the two -show-ignored reports must be equal after translating positions by the known offset (directives below generator/cgo pragmas)."),
 "C11": ("exploration",
         "runtime reference-model monitor: documented check-selection algebra, exit-status rule and cross-format agreement vs. the CLI over generated configuration trees",
         "Generated trees of staticcheck.conf files at three nested levels x -checks x -fail x -show-ignored x source variants are linted in text, stylish, JSON and SARIF; printed problems must equal the universe restricted to the model-selected set, exit status must follow the documented rule, and all formats must render the same set.",
         "trusted: harness/c11 model; universe = one -checks all run per source variant."),
 "C15": ("exploration",
         "runtime soundness monitor: nilness claims (read through the real runner) vs. observed nil-ness of compiled executions; SA4023 verdicts vs. observed comparison results",
         "Generated nil-flow programs (8 pointer-like kinds, phis, swaps in loops, memory round trips, cross-package facts, assertions, type switches, conversions, slicing, append, recursion, closures) are compiled and run on seeded vectors; each normal return is compared with the claimed Outer/Inner nilness and each SA4023 'never/always true' with the observed comparison.",
         "trusted: the compiled program; panicking calls excluded."),
 "C17": ("exploration",
         "runtime metamorphic monitor: U1000 result sets across permuted/repeated/extended copies of a package and across package variants (CLI -tests vs per-variant results)",
         "File and declaration permutations, repetitions, single added references from used code, and the CLI's variant merge are compared by object identity (kind + qualified name).",
         "trusted: the in-process driver mirrors lint.go's merge; 'used' = the analyzer's Used verdict."),
 "C18": ("exploration",
         "Go race detector + dump comparison across schedules: race-instrumented child processes build fresh Programs serially/in parallel/twice/concurrently under seeded yields at builder hook points",
         "Generated multi-package programs sharing generic instances, promoted-method wrappers, bound-method closures and thunks (plus std/repo slices) are built in several ways under GOMAXPROCS 1..16; WriteFunction dumps (modulo register numbering) must equal the serial build, shared functions must be unique and fully built, a second Build must change nothing, and GORACE logs must be empty. With and without InstantiateGenerics. In the per-package mode (slowest package first, staged starts, other goroutines calling MethodValue) everything reachable from what a Package.Build or MethodValue call has just returned, through the package's own and through shared functions, must already have a body at that moment.",
         "trusted: function identity = String()+Synthetic."),
 "C20": ("exploration",
         "runtime probe monitor: a probe analyzer inside the real runner reports effective versions and one problem per bound; the full grid of module go version x file build constraint x -go flag is run",
         "Exhaustive grid (7 module versions x dependency-module version x 7 file tags x 11 -go values): every {min,max} x {language,stdlib} bounded problem at thresholds go1.17..go1.26 must be present iff the effective version printed by the same run lies inside the bound, and the effective versions must follow go directive / build constraint / -go. All -go values of one module pair run in one directory on one shared cache, in a seeded order, so that what one target version stored must not leak into a run with another.",
         "trusted: go/types rule lang = max(tag, go1.21) for tagged files."),
 "C02": ("exploration",
         "runtime invariant monitor at the quiescent point after Build: independent well-formedness/dominance/typing oracle (harness/irwf) walked over every built function",
         "Every function body the real builder returns (generated goto-CFG packages under all 16 mode combinations; std, the repository and analyzer testdata under several modes; everything x 16 modes in the thorough tier) is walked by an oracle that shares no code with sanity.go and computes its own dominators: block/terminator/arity rules, Preds/Succs and Operands/Referrers as exact inverses, phi placement/arity/typing, def-dominates-use (phi operands at the end of the predecessor), and the documented typing rules of ~40 instruction kinds. A panic of the builder on a type-correct package is a violation too (packages are built from the monitor's goroutine so that it can be observed). Held on the functions observed.",
         "trusted: harness/irwf; typing rules are skipped for instructions mentioning type parameters; the only cross-root use allowed is the Recover block loading entry-block result allocs."),
 "C09": ("exploration",
         "runtime differential monitor: real pattern matcher vs. functional reference matcher on generated (pattern, syntax tree) cases + recall-equality oracle",
         "Every generated case runs the real Matcher (3 spellings of the same pattern: name@P, (Binding \"name\" P), mixed) and a purely functional reference matcher; verdict and visible bindings must be identical, and every recall of a repeated name must have matched a structurally equal subtree (checked with go/printer). Held on the executions observed; reach is what the generator produces (Or/Not decoys that bind then fail, nested Ors, list tails, recalls).",
         "trusted: harness/refmodel/matcher (written from pattern/doc.go), go/printer for structural equality, the generator's well-formedness discipline (a name gets a sub-pattern at most once per success path)."),
 "C14": ("exploration",
         "runtime differential monitor: BasicBlock.Dominates/Idom/Dominees/DomPreorder/DomPostorder vs. reachability-after-removal on every built function",
         "For every function built from goto-generated arbitrary CFGs (irreducible loops, recover blocks) and from real packages, all ordered block pairs (up to 300 blocks; 20000 seeded pairs above) are compared with the path definition: a dominates b iff b is unreachable from its root (entry, or the Recover block for blocks reachable only from it) once a is removed; Idom/Dominees/pre-/post-order listings must be consistent with that relation.",
         "trusted: the BFS reachability oracle in harness/c14; CFGs are those the builder produced (Preds/Succs as returned, whose mutual consistency is C02's business)."),
 "C13": ("exploration",
         "runtime reference-model monitor: solver output vs. naive Kleene iteration on generated graphs/IR functions; exhaustive/seeded lattice-law evaluation",
         "dense.Forward and sparse.Forward are run on thousands of generated instances; the result must satisfy the dataflow equations and equal the least fixpoint computed by round-robin iteration from bottom; a logical step budget (transfer calls) detects non-termination; lattice laws are evaluated on all 25^3 triples of the nilness lattice and on seeded triples of Map/DenseMap elements.",
         "trusted: the reference iteration, monotonicity of the generated transfer functions; the nilness lattice is reached through a verif-tagged type alias."),
}

NA = {}

# checks that have been validated silent on the unchanged tree
READY = {"C%02d" % i for i in range(1, 21)}

def main():
    checks = []
    for pid in ALL:
        if pid not in CHECKS or pid not in READY:
            continue
        level, tech, text, note = CHECKS[pid]
        checks.append({
            "property_id": pid,
            "quick_cmd": f"./check {pid} quick",
            "thorough_cmd": f"./check {pid} thorough",
            "evidence_file": f"/verif/evidence/{pid}.json",
            "replay_cmd_template": f"./check {pid} quick --replay {{path}}",
            "engine": "vcheck",
            "level_claimed": {"category": level, "text": text, "design_ref": f"DESIGN.md section 4, {pid}"},
            "level_note": note,
            "technique": tech,
        })
    na = []
    for pid in ALL:
        if pid not in CHECKS or pid not in READY:
            na.append({"property_id": pid, "reason": NA.get(pid, "check not built yet in this revision (planned, see DESIGN.md section 4); not claimed")})
    hooks_commits = subprocess.run(["git", "-C", "/repo", "log", "--format=%H", "--grep=^verif hooks"], capture_output=True, text=True).stdout.split()
    m = {
        "version": 1,
        "setup_cmd": "./setup.sh",
        "hooks": {
            "guard": "verif",
            "enable": "go build -tags verif (the harness module replaces honnef.co/go/tools with /repo, so every check compiles /repo's working tree with the tag on)",
            "baseline_off_cmd": "/verif/tools/baseline.sh",
            "source_commits": hooks_commits,
            "add_only": True,
        },
        "engines": [
            {"name": "vcheck", "path": "/verif/harness/cmd/vcheck", "serves_properties": sorted(set(CHECKS) & READY), "kind_free_text": "Go driver; one runtime monitor per property, linked against /repo's working tree (in-process monitors) or driving binaries built from it (CLI monitors)"},
        ],
        "checks": checks,
        "not_applicable": na,
        "notes": "All checks are runtime monitors over seeded workloads (VERIF_SEED, VERIF_TIER). Exit 0 = held on what was observed, 1 = VIOLATION, 2 = inconclusive (never on the unchanged tree). Known findings: /verif/known_findings.json.",
    }
    json.dump(m, open("/verif/MANIFEST.json", "w"), indent=1)
    print("wrote MANIFEST.json:", len(checks), "checks,", len(na), "not claimed")

main()
