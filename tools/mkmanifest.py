#!/usr/bin/env python3
"""Regenerates /verif/MANIFEST.json from the table below (single source of truth)."""
import json, subprocess

ALL = ["C%02d" % i for i in range(1, 21)]

# id -> (level, technique, text, note)
CHECKS = {
 "C09": ("exploration",
         "runtime differential monitor: real pattern matcher vs. functional reference matcher on generated (pattern, syntax tree) cases + recall-equality oracle",
         "Every generated case runs the real Matcher (3 spellings of the same pattern: name@P, (Binding \"name\" P), mixed) and a purely functional reference matcher; verdict and visible bindings must be identical, and every recall of a repeated name must have matched a structurally equal subtree (checked with go/printer). Held on the executions observed; reach is what the generator produces (Or/Not decoys that bind then fail, nested Ors, list tails, recalls).",
         "trusted: harness/refmodel/matcher (written from pattern/doc.go), go/printer for structural equality, the generator's well-formedness discipline (a name gets a sub-pattern at most once per success path)."),
 "C13": ("exploration",
         "runtime reference-model monitor: solver output vs. naive Kleene iteration on generated graphs/IR functions; exhaustive/seeded lattice-law evaluation",
         "dense.Forward and sparse.Forward are run on thousands of generated instances; the result must satisfy the dataflow equations and equal the least fixpoint computed by round-robin iteration from bottom; a logical step budget (transfer calls) detects non-termination; lattice laws are evaluated on all 25^3 triples of the nilness lattice and on seeded triples of Map/DenseMap elements.",
         "trusted: the reference iteration, monotonicity of the generated transfer functions; the nilness lattice is reached through a verif-tagged type alias."),
}

NA = {}

def main():
    checks = []
    for pid in ALL:
        if pid not in CHECKS:
            continue
        level, tech, text, note = CHECKS[pid]
        checks.append({
            "property_id": pid,
            "quick_cmd": f"./check {pid} quick",
            "thorough_cmd": f"./check {pid} thorough",
            "evidence_file": f"/verif/evidence/{pid}.json",
            "replay_cmd_template": f"./check {pid} quick --replay {{path}}",
            "engine": "vcheck",
            "level_claimed": {"category": level, "text": text, "design_ref": f"DESIGN.md section 4, {pid}"},
            "level_note": note,
            "technique": tech,
        })
    na = []
    for pid in ALL:
        if pid not in CHECKS:
            na.append({"property_id": pid, "reason": NA.get(pid, "check not built yet in this revision (planned, see DESIGN.md section 4); not claimed")})
    hooks_commits = subprocess.run(["git", "-C", "/repo", "log", "--format=%H", "--grep=^verif hooks"], capture_output=True, text=True).stdout.split()
    m = {
        "version": 1,
        "setup_cmd": "./setup.sh",
        "hooks": {
            "guard": "verif",
            "enable": "go build -tags verif (the harness module replaces honnef.co/go/tools with /repo, so every check compiles /repo's working tree with the tag on)",
            "baseline_off_cmd": "/verif/tools/baseline.sh",
            "source_commits": hooks_commits,
            "add_only": True,
        },
        "engines": [
            {"name": "vcheck", "path": "/verif/harness/cmd/vcheck", "serves_properties": sorted(CHECKS), "kind_free_text": "Go driver; one runtime monitor per property, linked against /repo's working tree (in-process monitors) or driving binaries built from it (CLI monitors)"},
        ],
        "checks": checks,
        "not_applicable": na,
        "notes": "All checks are runtime monitors over seeded workloads (VERIF_SEED, VERIF_TIER). Exit 0 = held on what was observed, 1 = VIOLATION, 2 = inconclusive (never on the unchanged tree). Known findings: /verif/known_findings.json.",
    }
    json.dump(m, open("/verif/MANIFEST.json", "w"), indent=1)
    print("wrote MANIFEST.json:", len(checks), "checks,", len(na), "not claimed")

main()
