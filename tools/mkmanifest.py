#!/usr/bin/env python3
"""Regenerates /verif/MANIFEST.json from the table below (single source of truth)."""
import json, subprocess

ALL = ["C%02d" % i for i in range(1, 21)]

# id -> (level, technique, text, note)
CHECKS = {
 "C02": ("exploration",
         "runtime invariant monitor at the quiescent point after Build: independent well-formedness/dominance/typing oracle (harness/irwf) walked over every built function",
         "Every function body the real builder returns (generated goto-CFG packages under all 16 mode combinations; std, the repository and analyzer testdata under several modes; everything x 16 modes in the thorough tier) is walked by an oracle that shares no code with sanity.go and computes its own dominators: block/terminator/arity rules, Preds/Succs and Operands/Referrers as exact inverses, phi placement/arity/typing, def-dominates-use (phi operands at the end of the predecessor), and the documented typing rules of ~40 instruction kinds. Held on the functions observed.",
         "trusted: harness/irwf; typing rules are skipped for instructions mentioning type parameters; the only cross-root use allowed is the Recover block loading entry-block result allocs."),
 "C09": ("exploration",
         "runtime differential monitor: real pattern matcher vs. functional reference matcher on generated (pattern, syntax tree) cases + recall-equality oracle",
         "Every generated case runs the real Matcher (3 spellings of the same pattern: name@P, (Binding \"name\" P), mixed) and a purely functional reference matcher; verdict and visible bindings must be identical, and every recall of a repeated name must have matched a structurally equal subtree (checked with go/printer). Held on the executions observed; reach is what the generator produces (Or/Not decoys that bind then fail, nested Ors, list tails, recalls).",
         "trusted: harness/refmodel/matcher (written from pattern/doc.go), go/printer for structural equality, the generator's well-formedness discipline (a name gets a sub-pattern at most once per success path)."),
 "C14": ("exploration",
         "runtime differential monitor: BasicBlock.Dominates/Idom/Dominees/DomPreorder/DomPostorder vs. reachability-after-removal on every built function",
         "For every function built from goto-generated arbitrary CFGs (irreducible loops, recover blocks) and from real packages, all ordered block pairs (up to 300 blocks; 20000 seeded pairs above) are compared with the path definition: a dominates b iff b is unreachable from its root (entry, or the Recover block for blocks reachable only from it) once a is removed; Idom/Dominees/pre-/post-order listings must be consistent with that relation.",
         "trusted: the BFS reachability oracle in harness/c14; CFGs are those the builder produced (Preds/Succs as returned, whose mutual consistency is C02's business)."),
 "C13": ("exploration",
         "runtime reference-model monitor: solver output vs. naive Kleene iteration on generated graphs/IR functions; exhaustive/seeded lattice-law evaluation",
         "dense.Forward and sparse.Forward are run on thousands of generated instances; the result must satisfy the dataflow equations and equal the least fixpoint computed by round-robin iteration from bottom; a logical step budget (transfer calls) detects non-termination; lattice laws are evaluated on all 25^3 triples of the nilness lattice and on seeded triples of Map/DenseMap elements.",
         "trusted: the reference iteration, monotonicity of the generated transfer functions; the nilness lattice is reached through a verif-tagged type alias."),
}

NA = {}

def main():
    checks = []
    for pid in ALL:
        if pid not in CHECKS:
            continue
        level, tech, text, note = CHECKS[pid]
        checks.append({
            "property_id": pid,
            "quick_cmd": f"./check {pid} quick",
            "thorough_cmd": f"./check {pid} thorough",
            "evidence_file": f"/verif/evidence/{pid}.json",
            "replay_cmd_template": f"./check {pid} quick --replay {{path}}",
            "engine": "vcheck",
            "level_claimed": {"category": level, "text": text, "design_ref": f"DESIGN.md section 4, {pid}"},
            "level_note": note,
            "technique": tech,
        })
    na = []
    for pid in ALL:
        if pid not in CHECKS:
            na.append({"property_id": pid, "reason": NA.get(pid, "check not built yet in this revision (planned, see DESIGN.md section 4); not claimed")})
    hooks_commits = subprocess.run(["git", "-C", "/repo", "log", "--format=%H", "--grep=^verif hooks"], capture_output=True, text=True).stdout.split()
    m = {
        "version": 1,
        "setup_cmd": "./setup.sh",
        "hooks": {
            "guard": "verif",
            "enable": "go build -tags verif (the harness module replaces honnef.co/go/tools with /repo, so every check compiles /repo's working tree with the tag on)",
            "baseline_off_cmd": "/verif/tools/baseline.sh",
            "source_commits": hooks_commits,
            "add_only": True,
        },
        "engines": [
            {"name": "vcheck", "path": "/verif/harness/cmd/vcheck", "serves_properties": sorted(CHECKS), "kind_free_text": "Go driver; one runtime monitor per property, linked against /repo's working tree (in-process monitors) or driving binaries built from it (CLI monitors)"},
        ],
        "checks": checks,
        "not_applicable": na,
        "notes": "All checks are runtime monitors over seeded workloads (VERIF_SEED, VERIF_TIER). Exit 0 = held on what was observed, 1 = VIOLATION, 2 = inconclusive (never on the unchanged tree). Known findings: /verif/known_findings.json.",
    }
    json.dump(m, open("/verif/MANIFEST.json", "w"), indent=1)
    print("wrote MANIFEST.json:", len(checks), "checks,", len(na), "not claimed")

main()
