#!/usr/bin/env python3
"""keepseed.py <id> <property> <caught_by> <needs> <ran> — copies a confirmed seeded breakage into /verif/seeded/<id>/."""
import json, os, shutil, sys
sid, prop, caught, needs, ran = sys.argv[1:6]
src = f"/tmp/mut_{sid}/_seeded"
dst = f"/verif/seeded/{sid}"
os.makedirs(dst, exist_ok=True)
shutil.copy(f"{src}/patch.diff", f"{dst}/patch.diff")
if os.path.isdir(f"{src}/demo"):
    shutil.rmtree(f"{dst}/demo", ignore_errors=True)
    shutil.copytree(f"{src}/demo", f"{dst}/demo")
if os.path.exists(f"{src}/NOTES.md"):
    shutil.copy(f"{src}/NOTES.md", f"{dst}/NOTES.md")
meta = {"id": sid, "breaks_property": prop, "origin": "independent sub-agent given only the property text and a scratch worktree",
        "needs_to_manifest": needs, "what_i_ran": ran, "caught_by": caught}
json.dump(meta, open(f"{dst}/meta.json", "w"), indent=1)
print("kept", dst)
