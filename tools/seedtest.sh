#!/bin/bash
# seedtest.sh <id e.g. C13a> [check ids...]   — runs checks against a seeded breakage in a scratch copy.
# Uses: /tmp/mut_<id>/_seeded/patch.diff (or /verif/seeded/<id>/patch.diff)
set -u
id=$1; shift
prop=${id:0:3}
checks=${*:-$prop}
export GOFLAGS=-mod=mod GOPROXY=off
unset GOTOOLCHAIN GOSUMDB
patch=/verif/seeded/$id/patch.diff
[ -f "$patch" ] || patch=/tmp/mut_$id/_seeded/patch.diff
wt=/tmp/chk_$id; h=/var/tmp/h_$id; root=/var/tmp/root_$id
git -C /repo worktree remove --force $wt 2>/dev/null; rm -rf $wt $h $root
git -C /repo worktree add -q --detach $wt HEAD || exit 3
git -C $wt apply "$patch" || { echo "PATCH DOES NOT APPLY"; exit 3; }
cp -r /verif/harness $h && sed -i "s|=> /repo|=> $wt|" $h/go.mod
mkdir -p $root/bin $root/evidence && cp /verif/known_findings.json $root/
(cd $wt && go build ./... ) || { echo "MUTANT DOES NOT BUILD"; exit 3; }
(cd $h && go build -tags verif -o $root/bin/vcheck ./cmd/vcheck) || { echo "HARNESS DOES NOT BUILD AGAINST MUTANT"; exit 3; }
rc=0
for c in $checks; do
	echo "=== $c against $id"
	VERIF_ROOT=$root VERIF_HARNESS=$h VERIF_REPO=$wt VERIF_TIER=${VERIF_TIER:-quick} VERIF_SEED=${VERIF_SEED:-1} $root/bin/vcheck $c 2>&1 | grep -v "^  key" | cut -c1-300 | tail -${TAIL:-6}
	[ ${PIPESTATUS[0]} -ne 0 ] && rc=1
done
if [ -z "${KEEP:-}" ]; then git -C /repo worktree remove --force $wt; rm -rf $h $root; fi
exit $rc
