#!/bin/bash
# seedq.sh — background worker: pops ids from /var/tmp/seedq.txt (one per line; "id" = confirm+test,
# "id retest" = test only) and processes them one at a time. Stops when /var/tmp/seedq.stop exists.
q=/var/tmp/seedq.txt
touch $q
while [ ! -e /var/tmp/seedq.stop ]; do
	line=$(head -1 $q)
	if [ -z "$line" ]; then sleep 15; continue; fi
	sed -i 1d $q
	set -- $line
	if [ "${2:-}" = retest ]; then
		{ echo "######## $1 (retest)"; /verif/tools/seedtest.sh $1 2>&1 | tail -4; } >> /var/tmp/seed_summary.txt 2>&1
	else
		/verif/tools/seedall.sh $1
	fi
done
