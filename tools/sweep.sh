#!/bin/bash
# sweep.sh <seed> <check ids...> — runs the quick command of each check from a fresh process at
# the given seed, exactly as MANIFEST.json registers it, and appends one line per check to
# /var/tmp/sweep.<seed>.log: id, exit status, wall seconds, the summary line.
seed=$1; shift
cd /verif
for c in "$@"; do
	t0=$(date +%s)
	out=$(VERIF_SEED=$seed VERIF_TIER=quick ./check $c quick 2>&1)
	rc=$?
	t1=$(date +%s)
	echo "$c rc=$rc wall=$((t1-t0))s :: $(echo "$out" | grep -E "^$c (quick|thorough)|^INCONCLUSIVE|^VIOLATION" | head -3 | tr '\n' ' ' | cut -c1-300)" >> /var/tmp/sweep.$seed.log
done
