#!/bin/bash
# seedall.sh <id>...  — confirm + run the property's check for each seeded breakage, sequentially
for id in "$@"; do
	{ echo "######## $id"; /verif/tools/confirmseed.sh $id 2>&1 | tail -6; /verif/tools/seedtest.sh $id 2>&1 | tail -4; } >> /var/tmp/seed_summary.txt 2>&1
done
