#!/bin/bash
# procseed.sh <id> [check ids...] — confirmseed.sh followed by seedtest.sh for one seeded breakage; everything goes to /var/tmp/proc_<id>.log
id=$1; shift
{
	echo "##### confirm $id"; /verif/tools/confirmseed.sh $id
	echo "##### seedtest $id $*"; TAIL=12 /verif/tools/seedtest.sh $id "$@"; echo "seedtest exit=$?"
	echo "##### done $id"
} > /var/tmp/proc_$id.log 2>&1
